/-
  Golib.Conf.Write — model of the write-back path:
  FileConfig.SetValues (exclusions, prefix, suffix, merge over what Read returns) and
  DefaultFileParser.Write (re-read the file, Set every key, rewrite line by line, append the
  keys that had no line).

  `fixC = true` is the behaviour with proposed/C18/fix-D39b.diff (comment lines are copied
  unchanged); `fixC = false` is the code as it is today (a comment containing '=' is treated
  as a key=value line).
  Assumption (stated in notes/C18.md): no physical line is longer than bufio's 4096-byte buffer.
-/
import Golib.Conf.Lex

namespace Conf

/-- the lines `bufio.Reader.ReadLine` returns: split at '\n', a '\r' right before it dropped -/
def splitLines : Str → List Str
  | [] => []
  | '\r' :: '\n' :: r => [] :: splitLines r
  | '\n' :: r => [] :: splitLines r
  | c :: r =>
    match splitLines r with
    | [] => [[c]]
    | l :: ls => (c :: l) :: ls

def joinLines (ls : List Str) : Str := ls.flatMap (fun l => l ++ ['\n'])

/-- `regexp.MatchString("^\\w", key)` -/
def isWordChar (c : Char) : Bool :=
  let n := c.toNat
  (48 ≤ n && n ≤ 57) || (65 ≤ n && n ≤ 90) || (97 ≤ n && n ≤ 122) || n == 95

def isWordStart : Str → Bool
  | c :: _ => isWordChar c
  | [] => false

/-- `strings.Replace(v, "\\\\", "\\", -1)`: pairs of backslashes collapse, left to right -/
def collapseBs : Str → Str
  | '\\' :: '\\' :: r => '\\' :: collapseBs r
  | c :: r => c :: collapseBs r
  | [] => []

/-- `strings.Replace(v, "\\", "\\\\", -1)` -/
def doubleBs : Str → Str
  | [] => []
  | c :: r => if c == '\\' then '\\' :: '\\' :: doubleBs r else c :: doubleBs r

def escValue (v : Str) : Str := doubleBs (collapseBs v)

def isBlankVal (v : Str) : Bool := (trimSpace v).isEmpty

/-- `strings.Split(line, "=")[0]` and `[1]` -/
def beforeEq (l : Str) : Str := l.takeWhile (· != '=')
def afterEq (l : Str) : Str := ((l.dropWhile (· != '=')).drop 1).takeWhile (· != '=')

def isCommentLine (l : Str) : Bool :=
  match l.dropWhile isWs with
  | c :: _ => isCommentStart c
  | [] => false

def renderKV (k v : Str) : Str := k ++ '=' :: escValue v

/-- one line of the rewrite loop: (line written, if any; key recorded in `old_keys`, if any) -/
def writeLine (fixC : Bool) (props : KV) (l : Str) : Option Str × Option Str :=
  if !l.contains '=' || (fixC && isCommentLine l) then (some l, none)
  else
    let key := trimBlank (beforeEq l)
    let value := if isWordStart key then (lookup props key).getD [] else trimBlank (afterEq l)
    (if isBlankVal value then none else some (renderKV key value), some key)

/-- `props.Set(key, value)` for every entry of the map handed to Write (the empty key is ignored) -/
def setAll (props : KV) (m : KV) : KV :=
  m.foldl (fun p kv => if kv.1.isEmpty then p else put p kv.1 kv.2) props

/-- the lines appended after the loop: keys without a line, in `props.Keys()` order -/
def appendedLines (props : KV) (oldKeys : List Str) : List Str :=
  props.filterMap (fun kv =>
    if oldKeys.contains kv.1 then none
    else if !isWordStart kv.1 then none
    else if isBlankVal kv.2 then none
    else some (renderKV kv.1 kv.2))

structure WriteOut where
  body : List Str        -- lines produced by the loop over the existing lines
  appended : List Str    -- lines for keys that had no line
  deriving Repr, DecidableEq

def writeLines (fixC : Bool) (props : KV) (lines : List Str) : WriteOut :=
  let rs := lines.map (writeLine fixC props)
  { body := rs.filterMap (·.1), appended := appendedLines props (rs.filterMap (·.2)) }

def WriteOut.text (w : WriteOut) : Str := joinLines (w.body ++ w.appended)

/-- `DefaultFileParser.Write(path, m)` on a file holding `text`; `none` = parse error -/
def writeModel (fixC : Bool) (text : Str) (m : KV) : Option WriteOut :=
  match lexPairs text with
  | none => none
  | some pairs => some (writeLines fixC (setAll (buildProps pairs) m) (splitLines text))

/-- the key SetValues really writes: exclusions drop it, prefix and suffix are added -/
def finalKey (pre suf : Str) (excl : List Str) (k : Str) : Option Str :=
  if excl.contains k then none
  else
    let k1 := if !pre.isEmpty && !hasPrefix k pre then pre ++ k else k
    let k2 := if !suf.isEmpty && !hasSuffix k1 suf then k1 ++ suf else k1
    some k2

/-- `FileConfig.SetValues`: tmp := Read(file); tmp[finalKey k] = v; Write(file, tmp) -/
def setValuesModel (fixC : Bool) (pre suf : Str) (excl : List Str) (text : Str) (kvs : KV) : Option WriteOut :=
  match lexPairs text with
  | none => none
  | some pairs =>
    let tmp := kvs.foldl (fun t kv =>
      match finalKey pre suf excl kv.1 with
      | some k => put t k kv.2
      | none => t) (readMap (buildProps pairs))
    writeModel fixC text tmp

end Conf
