/-
  Golib.Conf.Write — model of the write-back path:
  FileConfig.SetValues (exclusions, prefix, suffix, merge over what Read returns) and
  DefaultFileParser.Write (re-read the file, Set every key, rewrite line by line, append the
  keys that had no line).

  `fixC = true` is the behaviour with proposed/C18/fix-D39b.diff (comment lines are copied
  unchanged); `fixC = false` is the code as it is today (a comment containing '=' is treated
  as a key=value line).
  Assumption (stated in notes/C18.md): no physical line is longer than bufio's 4096-byte buffer.
-/
import Golib.Conf.Lex

namespace Conf

/-- the lines `bufio.Reader.ReadLine` returns: split at '\n', a '\r' right before it dropped -/
def splitLines : Str → List Str
  | [] => []
  | '\r' :: '\n' :: r => [] :: splitLines r
  | '\n' :: r => [] :: splitLines r
  | c :: r =>
    match splitLines r with
    | [] => [[c]]
    | l :: ls => (c :: l) :: ls

def joinLines (ls : List Str) : Str := ls.flatMap (fun l => l ++ ['\n'])

/-- `regexp.MatchString("^\\w", key)` -/
def isWordChar (c : Char) : Bool :=
  let n := c.toNat
  (48 ≤ n && n ≤ 57) || (65 ≤ n && n ≤ 90) || (97 ≤ n && n ≤ 122) || n == 95

def isWordStart : Str → Bool
  | c :: _ => isWordChar c
  | [] => false

/-- `strings.Replace(v, "\\\\", "\\", -1)`: pairs of backslashes collapse, left to right -/
def collapseBs : Str → Str
  | '\\' :: '\\' :: r => '\\' :: collapseBs r
  | c :: r => c :: collapseBs r
  | [] => []

/-- `strings.Replace(v, "\\", "\\\\", -1)` -/
def doubleBs : Str → Str
  | [] => []
  | c :: r => if c == '\\' then '\\' :: '\\' :: doubleBs r else c :: doubleBs r

/-! ### tail-recursive forms for compiled code (`@[csimp]`): the driver handles megabyte lines without
deep recursion; all proofs are about the structural definitions above -/

def splitLinesAux : Str → Str → List Str → List Str
  | [], cur, acc => (if cur.isEmpty then acc else cur.reverse :: acc).reverse
  | '\r' :: '\n' :: r, cur, acc => splitLinesAux r [] (cur.reverse :: acc)
  | '\n' :: r, cur, acc => splitLinesAux r [] (cur.reverse :: acc)
  | c :: r, cur, acc => splitLinesAux r (c :: cur) acc

def splitLinesTR (s : Str) : List Str := splitLinesAux s [] []

/-- `p` glued in front of the first line -/
def glue (p : Str) : List Str → List Str
  | [] => if p.isEmpty then [] else [p]
  | l :: t => (p ++ l) :: t

theorem glue_cons (p l : Str) (t : List Str) : glue p (l :: t) = (p ++ l) :: t := rfl

theorem glue_nil (ls : List Str) : glue [] ls = ls := by
  cases ls <;> simp [glue]

theorem splitLines_cons_other (c : Char) (r : Str) (h1 : c ≠ '\n') (h2 : ∀ r', c = '\r' → r = '\n' :: r' → False) :
    splitLines (c :: r) = match splitLines r with
      | [] => [[c]]
      | l :: ls => (c :: l) :: ls := by
  rw [splitLines.eq_def]
  split
  · rename_i heq; cases heq
  · rename_i r' heq
    obtain ⟨e1, e2⟩ := List.cons.inj heq
    exact (h2 r' e1 e2).elim
  · rename_i r' heq; exact (h1 (List.cons.inj heq).1).elim
  · rename_i c' r' _ _ heq
    obtain ⟨e1, e2⟩ := List.cons.inj heq
    subst e1; subst e2; rfl

theorem splitLinesAux_cons_other (c : Char) (r cur : Str) (acc : List Str) (h1 : c ≠ '\n')
    (h2 : ∀ r', c = '\r' → r = '\n' :: r' → False) :
    splitLinesAux (c :: r) cur acc = splitLinesAux r (c :: cur) acc := by
  rw [splitLinesAux.eq_def]
  split
  · rename_i heq; cases heq
  · rename_i heq
    obtain ⟨e1, e2⟩ := List.cons.inj heq
    exact (h2 _ e1 e2).elim
  · rename_i heq; exact (h1 (List.cons.inj heq).1).elim
  · rename_i c' r' _ _ _ _ heq
    obtain ⟨e1, e2⟩ := List.cons.inj heq
    subst e1; subst e2; rfl

theorem splitLinesAux_eq (s cur : Str) (acc : List Str) :
    splitLinesAux s cur acc = acc.reverse ++ glue cur.reverse (splitLines s) := by
  induction hn : s.length using Nat.strongRecOn generalizing s cur acc with
  | _ n ih =>
    cases s with
    | nil =>
      simp only [splitLinesAux, splitLines, glue]
      cases cur <;> simp
    | cons c r =>
      have ihr : ∀ cur acc, splitLinesAux r cur acc = acc.reverse ++ glue cur.reverse (splitLines r) :=
        fun cur acc => ih r.length (by simp at hn; omega) r cur acc rfl
      by_cases hnl : c = '\n'
      · subst hnl
        simp only [splitLinesAux, splitLines, ihr, glue_cons, List.reverse_cons, List.reverse_nil, glue_nil,
          List.append_nil, List.append_assoc, List.cons_append, List.nil_append]
      · by_cases hcr : ∃ r', c = '\r' ∧ r = '\n' :: r'
        · obtain ⟨r', e1, e2⟩ := hcr
          subst e1; subst e2
          have ihr' : ∀ cur acc, splitLinesAux r' cur acc = acc.reverse ++ glue cur.reverse (splitLines r') :=
            fun cur acc => ih r'.length (by simp at hn; omega) r' cur acc rfl
          simp only [splitLinesAux, splitLines, ihr', glue_cons, List.reverse_cons, List.reverse_nil, glue_nil,
            List.append_nil, List.append_assoc, List.cons_append, List.nil_append]
        · have h2 : ∀ r', c = '\r' → r = '\n' :: r' → False := fun r' e1 e2 => hcr ⟨r', e1, e2⟩
          rw [splitLinesAux_cons_other c r cur acc hnl h2, ihr, splitLines_cons_other c r hnl h2]
          cases splitLines r with
          | nil => simp [glue]
          | cons l ls => simp [glue]

@[csimp] theorem splitLines_eq_TR : @splitLines = @splitLinesTR := by
  funext s
  simp [splitLinesTR, splitLinesAux_eq, glue_nil]

def doubleBsAux : Str → Str → Str
  | [], acc => acc.reverse
  | c :: r, acc => if c == '\\' then doubleBsAux r ('\\' :: '\\' :: acc) else doubleBsAux r (c :: acc)

theorem doubleBsAux_eq (s acc : Str) : doubleBsAux s acc = acc.reverse ++ doubleBs s := by
  induction s generalizing acc with
  | nil => simp [doubleBsAux, doubleBs]
  | cons c r ih =>
    simp only [doubleBsAux, doubleBs]
    split <;> simp [ih]

def doubleBsTR (s : Str) : Str := doubleBsAux s []

@[csimp] theorem doubleBs_eq_TR : @doubleBs = @doubleBsTR := by
  funext s; simp [doubleBsTR, doubleBsAux_eq]

def collapseBsAux : Str → Str → Str
  | '\\' :: '\\' :: r, acc => collapseBsAux r ('\\' :: acc)
  | c :: r, acc => collapseBsAux r (c :: acc)
  | [], acc => acc.reverse

theorem collapseBsAux_eq (s acc : Str) : collapseBsAux s acc = acc.reverse ++ collapseBs s := by
  induction s using collapseBs.induct generalizing acc with
  | case1 r ih => simp [collapseBsAux, collapseBs, ih]
  | case2 d r hne ih =>
    rw [collapseBsAux.eq_def, collapseBs.eq_def]
    split
    · rename_i heq; exact (hne _ (List.cons.inj heq).1 (List.cons.inj heq).2).elim
    · rename_i d' r' acc' _ heq
      obtain ⟨e1, e2⟩ := List.cons.inj heq
      subst e1; subst e2
      split
      · rename_i r2 heq2; exact (hne r2 (List.cons.inj heq2).1 (by rw [(List.cons.inj heq2).2])).elim
      · rename_i d2 r2 _ heq2
        obtain ⟨e3, e4⟩ := List.cons.inj heq2
        subst e3; subst e4
        simp [ih]
      · rename_i heq2; cases heq2
    · rename_i heq; cases heq
  | case3 => simp [collapseBsAux, collapseBs]

def collapseBsTR (s : Str) : Str := collapseBsAux s []

@[csimp] theorem collapseBs_eq_TR : @collapseBs = @collapseBsTR := by
  funext s; simp [collapseBsTR, collapseBsAux_eq]

def escValue (v : Str) : Str := doubleBs (collapseBs v)

def isBlankVal (v : Str) : Bool := (trimSpace v).isEmpty

/-- `strings.Split(line, "=")[0]` and `[1]` -/
def beforeEq (l : Str) : Str := l.takeWhile (· != '=')
def afterEq (l : Str) : Str := ((l.dropWhile (· != '=')).drop 1).takeWhile (· != '=')

def isCommentLine (l : Str) : Bool :=
  match l.dropWhile isWs with
  | c :: _ => isCommentStart c
  | [] => false

def renderKV (k v : Str) : Str := k ++ '=' :: escValue v

/-- one line of the rewrite loop: (line written, if any; key recorded in `old_keys`, if any) -/
def writeLine (fixC : Bool) (props : KV) (l : Str) : Option Str × Option Str :=
  if !l.contains '=' || (fixC && isCommentLine l) then (some l, none)
  else
    let key := trimBlank (beforeEq l)
    let value := if isWordStart key then (lookup props key).getD [] else trimBlank (afterEq l)
    (if isBlankVal value then none else some (renderKV key value), some key)

/-- `props.Set(key, value)` for every entry of the map handed to Write (the empty key is ignored) -/
def setAll (props : KV) (m : KV) : KV :=
  m.foldl (fun p kv => if kv.1.isEmpty then p else put p kv.1 kv.2) props

/-- the lines appended after the loop: keys without a line, in `props.Keys()` order -/
def appendedLines (props : KV) (oldKeys : List Str) : List Str :=
  props.filterMap (fun kv =>
    if oldKeys.contains kv.1 then none
    else if !isWordStart kv.1 then none
    else if isBlankVal kv.2 then none
    else some (renderKV kv.1 kv.2))

structure WriteOut where
  body : List Str        -- lines produced by the loop over the existing lines
  appended : List Str    -- lines for keys that had no line
  deriving Repr, DecidableEq

def writeLines (fixC : Bool) (props : KV) (lines : List Str) : WriteOut :=
  let rs := lines.map (writeLine fixC props)
  { body := rs.filterMap (·.1), appended := appendedLines props (rs.filterMap (·.2)) }

def WriteOut.text (w : WriteOut) : Str := joinLines (w.body ++ w.appended)

/-- `DefaultFileParser.Write(path, m)` on a file holding `text`; `none` = parse error -/
def writeModel (fixC : Bool) (text : Str) (m : KV) : Option WriteOut :=
  match lexPairs text with
  | none => none
  | some pairs => some (writeLines fixC (setAll (buildProps pairs) m) (splitLines text))

/-- the key SetValues really writes: exclusions drop it, prefix and suffix are added -/
def finalKey (pre suf : Str) (excl : List Str) (k : Str) : Option Str :=
  if excl.contains k then none
  else
    let k1 := if !pre.isEmpty && !hasPrefix k pre then pre ++ k else k
    let k2 := if !suf.isEmpty && !hasSuffix k1 suf then k1 ++ suf else k1
    some k2

/-- `FileConfig.SetValues`: tmp := Read(file); tmp[finalKey k] = v; Write(file, tmp) -/
def setValuesModel (fixC : Bool) (pre suf : Str) (excl : List Str) (text : Str) (kvs : KV) : Option WriteOut :=
  match lexPairs text with
  | none => none
  | some pairs =>
    let tmp := kvs.foldl (fun t kv =>
      match finalKey pre suf excl kv.1 with
      | some k => put t k kv.2
      | none => t) (readMap (buildProps pairs))
    writeModel fixC text tmp

end Conf
