/-
  Golib.Conf.OwnWrite — the object's own write-back as a step of the system: SetValues replaces the
  configuration file by a *new* file (CreateTemp, write, sync, close, rename), so the replacement
  carries the time of the write, not the time of the file it replaces.  Together with the reload
  decision (stamp = mtime in ns + size) this is what makes a written value visible at the next
  reload even when the write keeps the size of the file.

  `keepStamp = true` is the variant that "takes over the attributes" of the replaced file
  (os.Chtimes(tmp, st.ModTime(), …) before the rename): a size-preserving write is then invisible.
-/
import Golib.Conf.SysHist
import Golib.Conf.WriteExtras
import Golib.Conf.Getters

namespace Conf

/-- the configuration file after a write-back of `newText` at clock time `now` -/
def writeBackFile (keepStamp : Bool) (now : Int) (old : FileSt) (newText : Str) : FileSt :=
  ⟨if keepStamp then old.mtimeNs else now, newText⟩

/-- `FileConfig.SetValues(kvs)` at clock time `now` on the whole system: nothing happens without a
    readable file (Read fails, the error is logged); the map `m` and the registry are not touched -/
def Sys.setValues (keepStamp : Bool) (pre suf : Str) (excl : List Str) (s : Sys) (now : Int) (kvs : KV) : Sys :=
  match s.file with
  | none => s
  | some f =>
    match setValuesModel true pre suf excl f.text kvs with
    | none => s
    | some out => { s with file := some (writeBackFile keepStamp now f out.text) }

/-- frame: SetValues changes the file only -/
theorem setValues_frame (keep : Bool) (pre suf : Str) (excl : List Str) (s : Sys) (now : Int) (kvs : KV) :
    (s.setValues keep pre suf excl now kvs).cfg = s.cfg ∧ (s.setValues keep pre suf excl now kvs).obs = s.obs := by
  unfold Sys.setValues
  split
  · exact ⟨rfl, rfl⟩
  · split <;> exact ⟨rfl, rfl⟩

theorem verFull_writeBack_ne (now : Int) (f : FileSt) (text : Str) (h : now ≠ f.mtimeNs) :
    verFull f ≠ verFull (writeBackFile false now f text) := by
  intro e
  have : f.mtimeNs = now := congrArg Prod.fst e
  exact h this.symm

/-- whatever happened before: a reload has looked at the file `f`; then the object writes `text`
    back at a clock time different from `f`'s modification time; the next reload loads it —
    whether or not the size changed -/
theorem own_write_loaded (c : Cfg) (f : FileSt) (now : Int) (text : Str) (props : KV)
    (hnow : now ≠ f.mtimeNs) (hp : parseProps text = .ok props) :
    let c1 := (reload verFull c (some f)).1
    let f' := writeBackFile false now f text
    (reload verFull c1 (some f')).2 = .loaded ∧
    (reload verFull c1 (some f')).1.notified = c1.notified + 1 ∧
    Reflects (reload verFull c1 (some f')).1 text := by
  intro c1 f'
  have hl : c1.last = verFull f := reload_last verFull c f
  have hne : c1.last ≠ verFull f' := by rw [hl]; exact verFull_writeBack_ne now f text hnow
  have hp' : parseProps f'.text = .ok props := hp
  obtain ⟨h1, h2, _, h4⟩ := reload_loaded verFull c1 f' props hne hp'
  refine ⟨h1, h2, ?_⟩
  intro props' hp'' k v hkv
  rw [hp] at hp''
  cases hp''
  rw [h4]
  exact lookup_applyMerge_mem c1.m (readMap props) k v
    (keysNodup_readMap props (parseProps_ok_nodup text props hp)) hkv (readMap_nonempty props k v hkv)

theorem parseProps_of_lex (text : Str) (pairs : KV) (h : lexPairs text = some pairs)
    (hx : parseProps text ≠ .expansion) : parseProps text = .ok (buildProps pairs) := by
  unfold parseProps at hx ⊢
  rw [h] at hx ⊢
  simp only at hx ⊢
  split
  · rename_i he; simp [he] at hx
  · rfl

/-- **written values read back through the getters**: a well-formed file, loaded; assignments `M`
    written by `DefaultFileParser.Write` at a later clock time; one reload: every assigned,
    non-blank value is what `GetValue` answers (trimmed) -/
theorem written_value_visible (infos : List LineInfo) (M : KV) (hwf : WFprops infos) (hM : PropsWF M)
    (hn : KeysNodup M) (k v : Str) (hkv : (k, v) ∈ M) (hv : isBlankVal v = false)
    (c : Cfg) (env : KV) (mt now : Int) (hnow : now ≠ mt)
    (out : WriteOut) (hw : writeModel true (textOf infos) M = some out) (hx : parseProps out.text ≠ .expansion) :
    let f : FileSt := ⟨mt, textOf infos⟩
    let c1 := (reload verFull c (some f)).1
    getValue (reload verFull c1 (some (writeBackFile false now f out.text))).1.m env k = trimSpace v := by
  intro f c1
  obtain ⟨out', hw', outPairs, hlex, hvis⟩ := writeModel_merge infos M hwf hM
  rw [hw] at hw'
  cases hw'
  have hp := parseProps_of_lex out.text outPairs hlex hx
  have hk : k ≠ [] := by
    intro e
    have := (hM (k, v) hkv).1.1
    rw [e] at this
    simp [isWordStart] at this
  have hl1 : lookup (setAll (buildProps (pairsOf infos)) M) k = some v :=
    lookup_setAll_mem _ M k v hn hkv hk
  have hl2 : lookup (readMap (buildProps outPairs)) k = some v := by
    rw [hvis k]; simp [visible, hl1, hv]
  have hmem := mem_of_lookup _ k v hl2
  have := (own_write_loaded c f now out.text (buildProps outPairs) hnow hp).2.2
  have hl3 := this (buildProps outPairs) hp k v hmem
  simp only [getValue]
  rw [hl3]

theorem reload_some_not_reset (ver : FileSt → Ver) (c : Cfg) (f : FileSt) : (reload ver c (some f)).2 ≠ .reset := by
  unfold reload
  simp only
  split
  · simp
  · split <;> simp

theorem reloadN_some (nr : Bool) (ver : FileSt → Ver) (c : Cfg) (f : FileSt) :
    reloadN nr ver c (some f) = reload ver c (some f) := by
  unfold reloadN
  have := reload_some_not_reset ver c f
  simp [this]

/-- from any state of the whole system in which the file exists: reload, own write at a clock time
    different from the file's modification time, reload -/
theorem own_write_from_state (nr : Bool) (s : Sys) (f : FileSt) (now : Int)
    (pre suf : Str) (excl : List Str) (kvs : KV) (out : WriteOut) (props : KV)
    (hf : s.file = some f)
    (hs : setValuesModel true pre suf excl f.text kvs = some out)
    (hp : parseProps out.text = .ok props) (hnow : now ≠ f.mtimeNs) :
    (((s.step nr .reload).setValues false pre suf excl now kvs).step nr .reload).file
        = some (writeBackFile false now f out.text) ∧
    Reflects (((s.step nr .reload).setValues false pre suf excl now kvs).step nr .reload).cfg out.text ∧
    (((s.step nr .reload).setValues false pre suf excl now kvs).step nr .reload).cfg.notified
        = (s.step nr .reload).cfg.notified + 1 ∧
    (((s.step nr .reload).setValues false pre suf excl now kvs).step nr .reload).obs = (s.step nr .reload).obs.run := by
  have h1f : (s.step nr .reload).file = some f := by simp [Sys.step, hf]
  have h1c : (s.step nr .reload).cfg = (reload verFull s.cfg (some f)).1 := by
    simp [Sys.step, hf, reloadN_some]
  have hsv : (s.step nr .reload).setValues false pre suf excl now kvs
      = { (s.step nr .reload) with file := some (writeBackFile false now f out.text) } := by
    unfold Sys.setValues
    rw [h1f]
    simp only [hs]
  obtain ⟨r1, r2, r3⟩ := own_write_loaded s.cfg f now out.text props hnow hp
  rw [← h1c] at r1 r2 r3
  rw [hsv]
  generalize s.step nr .reload = s1 at *
  simp only [Sys.step, reloadN_some]
  refine ⟨trivial, r3, r2, ?_⟩
  simp [notifies, r1]

/-- the same after an arbitrary history of the whole system (edits, deletions, reloads, registrations,
    panicking observers): if the file exists, a reload runs, the object writes back at a clock time
    different from the file's modification time, and a reload runs again, then the configuration
    reflects what was written, the registered observers were called once more, and nothing else of
    the registry changed -/
theorem own_write_after_history (nr : Bool) (ops : List SysOp) (f : FileSt) (now : Int)
    (pre suf : Str) (excl : List Str) (kvs : KV) (out : WriteOut) (props : KV)
    (hf : (Sys.init.run nr ops).file = some f)
    (hs : setValuesModel true pre suf excl f.text kvs = some out)
    (hp : parseProps out.text = .ok props) (hnow : now ≠ f.mtimeNs) :
    let s1 := (Sys.init.run nr ops).step nr .reload
    let s2 := (s1.setValues false pre suf excl now kvs).step nr .reload
    s2.file = some (writeBackFile false now f out.text) ∧
    Reflects s2.cfg out.text ∧ s2.cfg.notified = s1.cfg.notified + 1 ∧ s2.obs = s1.obs.run :=
  own_write_from_state nr (Sys.init.run nr ops) f now pre suf excl kvs out props hf hs hp hnow

end Conf
