/-
  Golib.Conf.ObsHist — observer registries over arbitrary histories of registrations,
  replacements and notification rounds, including a registration made from inside a callback.

  `runReg name id visited` is a round during which some callback calls `Add(name, id)`.  Whether
  the entry added while the registry is being ranged over is itself visited in that round is
  unspecified (Go map iteration), hence the flag; from the next round on the new target is an
  ordinary one.
-/
import Golib.Conf.Observers

namespace Conf

inductive ObsOp where
  | add (name : Str) (id : Nat)
  | run
  | runReg (name : Str) (id : Nat) (visited : Bool)
  | runPartial (visited : List Nat)
  deriving Repr, DecidableEq

def Obs.bumpOne (o : Obs) (id : Nat) : Obs :=
  { o with counts := o.counts.map (bump (fun i => i == id)) }

/-- a round cut short: one target panicked in its callback (reload recovers the panic), so only
    the registered targets visited so far — which ones is decided by Go's map iteration order —
    were called; the registry itself is untouched -/
def Obs.runPartial (o : Obs) (ids : List Nat) : Obs :=
  { o with counts := o.counts.map (bump (fun i => o.registered i && ids.contains i)) }

def Obs.step (o : Obs) : ObsOp → Obs
  | .add n i => o.add n i
  | .run => o.run
  | .runReg n i v => let o1 := (o.run).add n i; if v then o1.bumpOne i else o1
  | .runPartial ids => o.runPartial ids

def Obs.exec (o : Obs) (ops : List ObsOp) : Obs := ops.foldl Obs.step o

def regHas (reg : List (Str × Nat)) (id : Nat) : Bool := reg.any (fun p => p.2 == id)

/-- the specification: a target is called once in every round at which it is registered (plus
    possibly once in the round in which a callback registered it) -/
def callsSpec (reg : List (Str × Nat)) : List ObsOp → Nat → Nat
  | [], _ => 0
  | .add n i :: r, id => callsSpec (regPut reg n i) r id
  | .run :: r, id => (if regHas reg id then 1 else 0) + callsSpec reg r id
  | .runReg n i v :: r, id =>
    (if regHas reg id then 1 else 0) + (if v && i == id then 1 else 0) + callsSpec (regPut reg n i) r id
  | .runPartial ids :: r, id => (if regHas reg id && ids.contains id then 1 else 0) + callsSpec reg r id

/-- every registered target has a counter -/
def Obs.WF (o : Obs) : Prop := ∀ p ∈ o.reg, o.counts.any (fun q => q.1 == p.2) = true

theorem any_map_bump (cs : List (Nat × Nat)) (f : Nat → Bool) (id : Nat) :
    (cs.map (bump f)).any (fun q => q.1 == id) = cs.any (fun q => q.1 == id) := by
  induction cs with
  | nil => rfl
  | cons p r ih => simp only [List.map_cons, List.any_cons, ih]; rfl

theorem mem_regPut (reg : List (Str × Nat)) (n : Str) (i : Nat) (p : Str × Nat) (h : p ∈ regPut reg n i) :
    p ∈ reg ∨ p.2 = i := by
  induction reg with
  | nil => simp [regPut] at h; right; rw [h]
  | cons q r ih =>
    obtain ⟨n', i'⟩ := q
    simp only [regPut] at h
    split at h
    · rcases List.mem_cons.mp h with e | e
      · right; rw [e]
      · left; exact List.mem_cons_of_mem _ e
    · rcases List.mem_cons.mp h with e | e
      · left; rw [e]; simp
      · rcases ih e with e2 | e2
        · left; exact List.mem_cons_of_mem _ e2
        · right; exact e2

theorem counts_any_add (o : Obs) (n : Str) (i id : Nat) :
    (o.add n i).counts.any (fun q => q.1 == id) = (o.counts.any (fun q => q.1 == id) || i == id) := by
  unfold Obs.add
  simp only []
  split
  · rename_i h
    by_cases e : i = id
    · subst e; simp [h]
    · have : (i == id) = false := by simp [e]
      simp [this]
  · simp [List.any_append]

theorem wf_add (o : Obs) (n : Str) (i : Nat) (h : o.WF) : (o.add n i).WF := by
  intro p hp
  rw [counts_any_add]
  rcases mem_regPut o.reg n i p hp with e | e
  · simp [h p e]
  · simp [e]

theorem wf_run (o : Obs) (h : o.WF) : (o.run).WF := by
  intro p hp
  simp only [Obs.run, any_map_bump]
  exact h p hp

theorem wf_bumpOne (o : Obs) (i : Nat) (h : o.WF) : (o.bumpOne i).WF := by
  intro p hp
  simp only [Obs.bumpOne, any_map_bump]
  exact h p hp

theorem wf_runPartial (o : Obs) (ids : List Nat) (h : o.WF) : (o.runPartial ids).WF := by
  intro p hp
  simp only [Obs.runPartial, any_map_bump]
  exact h p hp

theorem count_runPartial (o : Obs) (ids : List Nat) (id : Nat) :
    (o.runPartial ids).count id =
      if (o.registered id && ids.contains id) && o.counts.any (fun q => q.1 == id) then o.count id + 1 else o.count id := by
  unfold Obs.count Obs.runPartial
  simp only [find_map_bump]
  cases hfind : o.counts.find? (fun p => p.1 == id) with
  | none =>
    have hn : o.counts.any (fun p => p.1 == id) = false := by
      cases ha : o.counts.any (fun p => p.1 == id) with
      | false => rfl
      | true =>
        simp only [List.any_eq_true] at ha
        obtain ⟨p, hp, e⟩ := ha
        exact absurd e (List.find?_eq_none.mp hfind p hp)
    simp [hn]
  | some p =>
    have hpid : p.1 = id := by
      have := List.find?_some hfind
      simpa using this
    have ha : o.counts.any (fun p => p.1 == id) = true := by
      simp only [List.any_eq_true]
      exact ⟨p, List.mem_of_find?_eq_some hfind, by simp [hpid]⟩
    simp only [Option.map_some, bump, hpid, ha, Bool.and_true]

theorem wf_step (o : Obs) (op : ObsOp) (h : o.WF) : (o.step op).WF := by
  cases op with
  | runPartial ids => exact wf_runPartial o ids h
  | add n i => exact wf_add o n i h
  | run => exact wf_run o h
  | runReg n i v =>
    simp only [Obs.step]
    split
    · exact wf_bumpOne _ i (wf_add _ n i (wf_run o h))
    · exact wf_add _ n i (wf_run o h)

theorem count_add (o : Obs) (n : Str) (i id : Nat) : (o.add n i).count id = o.count id := by
  unfold Obs.count Obs.add
  simp only []
  by_cases hany : (o.counts.any fun p => p.1 == i) = true
  · simp only [hany, if_true]
  · simp only [hany, Bool.false_eq_true, if_false]
    rw [List.find?_append]
    cases hf : o.counts.find? (fun p => p.1 == id) with
    | some p => rfl
    | none =>
      simp only [Option.none_or, List.find?_cons]
      by_cases e : i = id
      · subst e; simp
      · have : (i == id) = false := by simp [e]
        simp [this]

theorem count_bumpOne (o : Obs) (i id : Nat) :
    (o.bumpOne i).count id = if i == id && o.counts.any (fun q => q.1 == id) then o.count id + 1 else o.count id := by
  unfold Obs.count Obs.bumpOne
  simp only [find_map_bump]
  cases hfind : o.counts.find? (fun p => p.1 == id) with
  | none =>
    have hn : o.counts.any (fun p => p.1 == id) = false := by
      cases ha : o.counts.any (fun p => p.1 == id) with
      | false => rfl
      | true =>
        simp only [List.any_eq_true] at ha
        obtain ⟨p, hp, e⟩ := ha
        exact absurd e (List.find?_eq_none.mp hfind p hp)
    simp [hn]
  | some p =>
    have hpid : p.1 = id := by
      have := List.find?_some hfind
      simpa using this
    have ha : o.counts.any (fun p => p.1 == id) = true := by
      simp only [List.any_eq_true]
      exact ⟨p, List.mem_of_find?_eq_some hfind, by simp [hpid]⟩
    simp only [Option.map_some, bump, hpid, ha, Bool.and_true]
    by_cases e : i = id
    · subst e; simp
    · have : (i == id) = false := by simp [e]
      have : (id == i) = false := by simp; exact fun h => e h.symm
      simp [*]

theorem registered_known (o : Obs) (id : Nat) (h : o.WF) (hr : o.registered id = true) :
    o.counts.any (fun q => q.1 == id) = true := by
  simp only [Obs.registered, List.any_eq_true] at hr
  obtain ⟨p, hp, e⟩ := hr
  have := h p hp
  have e' : p.2 = id := by simpa using e
  rw [e'] at this; exact this

/-- for every history of registrations, replacements and rounds (with or without a registration
    from inside a callback): each target was called exactly as often as the specification says -/
theorem exec_count (o : Obs) (ops : List ObsOp) (id : Nat) (h : o.WF) :
    (o.exec ops).count id = o.count id + callsSpec o.reg ops id := by
  induction ops generalizing o with
  | nil => simp [Obs.exec, callsSpec]
  | cons op r ih =>
    have hstep := wf_step o op h
    have := ih (o.step op) hstep
    simp only [Obs.exec, List.foldl_cons] at this ⊢
    rw [this]
    cases op with
    | add n i =>
      simp only [Obs.step, count_add, callsSpec]
      rfl
    | run =>
      simp only [Obs.step, callsSpec, Obs.run_count]
      have hreg : (o.run).reg = o.reg := rfl
      rw [hreg]
      by_cases hr : o.registered id = true
      · have hk := registered_known o id h hr
        have : regHas o.reg id = true := hr
        simp [hr, hk, this]; omega
      · have hr' : o.registered id = false := by simpa using hr
        have : regHas o.reg id = false := hr'
        simp [hr', this]
    | runPartial ids =>
      simp only [Obs.step, callsSpec, count_runPartial]
      have hreg : (o.runPartial ids).reg = o.reg := rfl
      rw [hreg]
      by_cases hr : o.registered id = true
      · have hk := registered_known o id h hr
        have hh : regHas o.reg id = true := hr
        simp only [hr, hk, hh, Bool.true_and, Bool.and_true]
        split <;> omega
      · have hr' : o.registered id = false := by simpa using hr
        have hh : regHas o.reg id = false := hr'
        simp [hr', hh]
    | runReg n i v =>
      simp only [Obs.step, callsSpec]
      have hreg : ((o.run).add n i).reg = regPut o.reg n i := rfl
      have hcnt : ((o.run).add n i).count id = (o.run).count id := count_add _ n i id
      have hrun := Obs.run_count o id
      by_cases hr : o.registered id = true
      · have hk := registered_known o id h hr
        have hh : regHas o.reg id = true := hr
        cases v with
        | false =>
          simp only [Bool.false_eq_true, if_false, Bool.false_and, hreg, hcnt, hrun, hr, hk, Bool.and_self, if_true, hh]
          omega
        | true =>
          have hb : (((o.run).add n i).bumpOne i).reg = regPut o.reg n i := rfl
          simp only [if_true, hb, count_bumpOne, counts_any_add, hcnt, hrun, hr, hk, Bool.and_self, hh, Bool.true_and]
          by_cases e : i = id
          · subst e; simp; omega
          · have : (i == id) = false := by simp [e]
            simp [this]; omega
      · have hr' : o.registered id = false := by simpa using hr
        have hh : regHas o.reg id = false := hr'
        cases v with
        | false =>
          simp only [Bool.false_eq_true, if_false, Bool.false_and, hreg, hcnt, hrun, hr', hh]
          simp
        | true =>
          have hb : (((o.run).add n i).bumpOne i).reg = regPut o.reg n i := rfl
          simp only [if_true, hb, count_bumpOne, counts_any_add, hcnt, hrun, hr', hh, Bool.true_and, Bool.false_and]
          by_cases e : i = id
          · subst e; simp; omega
          · have : (i == id) = false := by simp [e]
            simp [this]

/-- a round cut short by a panicking observer changes neither the registry nor anybody's future:
    the next complete round calls every registered target once -/
theorem runPartial_then_run (o : Obs) (ids : List Nat) (id : Nat) (h : o.WF) (hr : o.registered id = true) :
    ((o.runPartial ids).run).count id = (o.runPartial ids).count id + 1 ∧ (o.runPartial ids).reg = o.reg := by
  refine ⟨?_, rfl⟩
  have hw := wf_runPartial o ids h
  have hr' : (o.runPartial ids).registered id = true := hr
  rw [Obs.run_count]
  simp [hr', registered_known _ id hw hr']

theorem wf_empty : Obs.empty.WF := by intro p hp; cases hp

end Conf
