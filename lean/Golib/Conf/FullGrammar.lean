/-
  Golib.Conf.FullGrammar — every (key, value) with a non-empty key is expressible in the
  properties syntax: a canonical renderer (escapes `\ `, `\:`, `\=`, `\\`, `\#`, `\!`, `\t`, `\n`,
  `\r`, `\f` in keys; `\ `, `\\`, `\t`, `\n`, `\r`, `\f` in values) and the round trip
  parse ∘ render = id for all keys and values, all characters included.
-/
import Golib.Conf.LexLemmas

namespace Conf

def escKeyChar (c : Char) : Str :=
  if c == '\t' then ['\\', 't'] else if c == '\n' then ['\\', 'n'] else if c == '\r' then ['\\', 'r']
  else if c == '\x0c' then ['\\', 'f']
  else if c == ' ' || c == ':' || c == '=' || c == '\\' || c == '#' || c == '!' then ['\\', c]
  else [c]

def escValChar (c : Char) : Str :=
  if c == '\t' then ['\\', 't'] else if c == '\n' then ['\\', 'n'] else if c == '\r' then ['\\', 'r']
  else if c == '\x0c' then ['\\', 'f']
  else if c == ' ' || c == '\\' then ['\\', c]
  else [c]

def renderKeyFull (k : Str) : Str := k.flatMap escKeyChar
def renderValFull (v : Str) : Str := v.flatMap escValChar
def renderLineFull (k v : Str) : Str := renderKeyFull k ++ '=' :: renderValFull v

theorem lexRun_escKeyChar (c : Char) (acc : Str) (out : KV) :
    lexRun ⟨.key acc, out⟩ (escKeyChar c) = ⟨.key (c :: acc), out⟩ := by
  unfold escKeyChar
  split
  · rename_i h; have : c = '\t' := by simpa using h
    subst this; rfl
  · split
    · rename_i h; have : c = '\n' := by simpa using h
      subst this; rfl
    · split
      · rename_i h; have : c = '\r' := by simpa using h
        subst this; rfl
      · split
        · rename_i h; have : c = '\x0c' := by simpa using h
          subst this; rfl
        · split
          · rename_i h1 h2 h3 h4 h
            have hu : (c == 'u') = false := by
              simp only [Bool.or_eq_true, beq_iff_eq] at h
              rcases h with ((((h | h) | h) | h) | h) | h <;> subst h <;> decide
            have hun : unescape c = c := by
              simp only [Bool.or_eq_true, beq_iff_eq] at h
              rcases h with ((((h | h) | h) | h) | h) | h <;> subst h <;> decide
            simp [lexRun, step, stepKey, hu, hun]
          · rename_i h1 h2 h3 h4 h5
            simp only [Bool.or_eq_true, beq_iff_eq, not_or] at h5
            have hb : (c == '\\') = false := by simp [h5.1.1.2]
            have he : isEndOfKey c = false := by
              simp only [isEndOfKey, isWs, isEOL, Bool.or_eq_false_iff, beq_eq_false_iff_ne, ne_eq]
              simp only [beq_iff_eq] at h1 h2 h3 h4
              exact ⟨⟨⟨⟨⟨h5.1.1.1.1.1, h4⟩, h1⟩, ⟨h2, h3⟩⟩, h5.1.1.1.1.2⟩, h5.1.1.1.2⟩
            simp [lexRun, step, stepKey, hb, he]

theorem lexRun_renderKeyFull (k acc : Str) (out : KV) :
    lexRun ⟨.key acc, out⟩ (renderKeyFull k) = ⟨.key (k.reverse ++ acc), out⟩ := by
  induction k generalizing acc with
  | nil => rfl
  | cons c r ih =>
    simp only [renderKeyFull, List.flatMap_cons] at ih ⊢
    rw [lexRun_append, lexRun_escKeyChar, ih]; simp

theorem lexRun_escValChar (c : Char) (k acc : Str) (out : KV) :
    lexRun ⟨.val k acc, out⟩ (escValChar c) = ⟨.val k (c :: acc), out⟩ := by
  unfold escValChar
  split
  · rename_i h; have : c = '\t' := by simpa using h
    subst this; rfl
  · split
    · rename_i h; have : c = '\n' := by simpa using h
      subst this; rfl
    · split
      · rename_i h; have : c = '\r' := by simpa using h
        subst this; rfl
      · split
        · rename_i h; have : c = '\x0c' := by simpa using h
          subst this; rfl
        · split
          · rename_i h1 h2 h3 h4 h
            simp only [Bool.or_eq_true, beq_iff_eq] at h
            rcases h with h | h <;> subst h <;> rfl
          · rename_i h1 h2 h3 h4 h5
            simp only [Bool.or_eq_true, beq_iff_eq, not_or] at h5
            simp only [beq_iff_eq] at h2 h3
            have hb : (c == '\\') = false := by simp [h5.2]
            have he : isEOL c = false := by simp [isEOL, h2, h3]
            simp [lexRun, step, stepVal, hb, he]

theorem lexRun_renderValFull (v k acc : Str) (out : KV) :
    lexRun ⟨.val k acc, out⟩ (renderValFull v) = ⟨.val k (v.reverse ++ acc), out⟩ := by
  induction v generalizing acc with
  | nil => rfl
  | cons c r ih =>
    simp only [renderValFull, List.flatMap_cons] at ih ⊢
    rw [lexRun_append, lexRun_escValChar, ih]; simp

/-- the first character a rendered key / value starts with: a backslash or an unescaped
    character that is neither blank, line end nor comment start -/
theorem escKeyChar_head (c : Char) : ∃ h t, escKeyChar c = h :: t ∧
    isEOL h = false ∧ isWs h = false ∧ isCommentStart h = false := by
  unfold escKeyChar
  split
  · exact ⟨'\\', _, rfl, by decide, by decide, by decide⟩
  · split
    · exact ⟨'\\', _, rfl, by decide, by decide, by decide⟩
    · split
      · exact ⟨'\\', _, rfl, by decide, by decide, by decide⟩
      · split
        · exact ⟨'\\', _, rfl, by decide, by decide, by decide⟩
        · split
          · exact ⟨'\\', _, rfl, by decide, by decide, by decide⟩
          · rename_i h1 h2 h3 h4 h5
            simp only [Bool.or_eq_true, beq_iff_eq, not_or] at h5
            simp only [beq_iff_eq] at h1 h2 h3 h4
            refine ⟨c, [], rfl, by simp [isEOL, h2, h3], by simp [isWs, h5.1.1.1.1.1, h4, h1],
              by simp [isCommentStart, h5.1.2, h5.2]⟩

theorem escValChar_head (c : Char) : ∃ h t, escValChar c = h :: t ∧ isWs h = false := by
  unfold escValChar
  split
  · exact ⟨'\\', _, rfl, by decide⟩
  · split
    · exact ⟨'\\', _, rfl, by decide⟩
    · split
      · exact ⟨'\\', _, rfl, by decide⟩
      · split
        · exact ⟨'\\', _, rfl, by decide⟩
        · split
          · exact ⟨'\\', _, rfl, by decide⟩
          · rename_i h1 h2 h3 h4 h5
            simp only [Bool.or_eq_true, beq_iff_eq, not_or] at h5
            simp only [beq_iff_eq] at h1 h4
            exact ⟨c, [], rfl, by simp [isWs, h5.1, h4, h1]⟩

theorem step_bk_as_key (c : Char) (out : KV) (h1 : isEOL c = false) (h2 : isWs c = false)
    (h3 : isCommentStart c = false) : step ⟨.bk, out⟩ c = step ⟨.key [], out⟩ c := by
  simp [step, h1, h2, h3]

/-- **parse ∘ render = id**: the rendered line of any key (non-empty) and any value lexes to
    exactly that pair -/
theorem lex_render_full (k v : Str) (hk : k ≠ []) (out : KV) :
    lexRun ⟨.bk, out⟩ (renderLineFull k v ++ ['\n']) = ⟨.bk, (k, v) :: out⟩ := by
  cases k with
  | nil => exact absurd rfl hk
  | cons c r =>
    obtain ⟨h, t, e, e1, e2, e3⟩ := escKeyChar_head c
    have start : lexRun ⟨.bk, out⟩ (renderKeyFull (c :: r)) = lexRun ⟨.key [], out⟩ (renderKeyFull (c :: r)) := by
      simp only [renderKeyFull, List.flatMap_cons, e, List.cons_append, lexRun_cons, step_bk_as_key h out e1 e2 e3]
    simp only [renderLineFull, List.append_assoc, List.cons_append]
    rw [lexRun_append, start, lexRun_renderKeyFull, lexRun_cons]
    have s2 : step ⟨.key ((c :: r).reverse ++ []), out⟩ '=' = ⟨.bv2 (c :: r), out⟩ := by
      have e1 : isEndOfKey '=' = true := by decide
      have e2 : isWs '=' = false := by decide
      simp [step, stepKey, e1, stepBv1, e2]
    rw [s2]
    cases v with
    | nil =>
      have : isEOL '\n' = true := by decide
      have w : isWs '\n' = false := by decide
      simp [renderValFull, lexRun, step, stepVal, this, w]
    | cons d s =>
      obtain ⟨h', t', e', ew⟩ := escValChar_head d
      have startv : lexRun ⟨.bv2 (c :: r), out⟩ (renderValFull (d :: s) ++ ['\n']) =
          lexRun ⟨.val (c :: r) [], out⟩ (renderValFull (d :: s) ++ ['\n']) := by
        simp only [renderValFull, List.flatMap_cons, e', List.cons_append, lexRun_cons, step_bv2_notWs _ out h' ew]
      rw [startv, lexRun_append, lexRun_renderValFull, lexRun_cons, lexRun_nil]
      have : isEOL '\n' = true := by decide
      simp [step, stepVal, this]

def renderFileFull (pairs : KV) : Str := pairs.flatMap (fun p => renderLineFull p.1 p.2 ++ ['\n'])

theorem lexRun_renderFileFull (pairs : KV) (out : KV) (h : ∀ p ∈ pairs, p.1 ≠ []) :
    lexRun ⟨.bk, out⟩ (renderFileFull pairs) = ⟨.bk, pairs.reverse ++ out⟩ := by
  induction pairs generalizing out with
  | nil => rfl
  | cons p r ih =>
    simp only [renderFileFull, List.flatMap_cons] at ih ⊢
    rw [lexRun_append, lex_render_full p.1 p.2 (h p (by simp)), ih _ (fun q hq => h q (List.mem_cons_of_mem _ hq))]
    simp

/-- whole files: any list of pairs with non-empty keys is recovered from its rendering -/
theorem lexPairs_renderFileFull (pairs : KV) (h : ∀ p ∈ pairs, p.1 ≠ []) :
    lexPairs (renderFileFull pairs) = some pairs := by
  simp [lexPairs, lexRun_renderFileFull pairs [] h, finish]

end Conf
