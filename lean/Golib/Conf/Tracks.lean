/-
  Golib.Conf.Tracks — "once the file stops changing, every key=value in it is visible":
  an invariant over arbitrary histories of external edits, deletions and reloads.
-/
import Golib.Conf.ReloadLemmas

namespace Conf

inductive HOp where
  | edit (f : FileSt)      -- an external program leaves the file in state f (content + mtime)
  | delete
  | reload                 -- the polling goroutine runs reload()
  deriving Repr

abbrev HSt := Cfg × Option FileSt

def stepH (ver : FileSt → Ver) (s : HSt) : HOp → HSt
  | .edit f => (s.1, some f)
  | .delete => (s.1, none)
  | .reload => ((reload ver s.1 s.2).1, s.2)

def runH (ver : FileSt → Ver) (s : HSt) (ops : List HOp) : HSt := ops.foldl (stepH ver) s

def filesOf : List HOp → List FileSt
  | [] => []
  | .edit f :: r => f :: filesOf r
  | _ :: r => filesOf r

/-- every non-empty key=value of a (well-formed) text is in the map -/
def Reflects (c : Cfg) (text : Str) : Prop :=
  ∀ props, parseProps text = .ok props → ∀ k v, (k, v) ∈ readMap props → lookup c.m k = some v

/-- assumption about the world: within the history two file states with the same version
    (what reload compares) have the same content -/
def VerInj (ver : FileSt → Ver) (fs : List FileSt) : Prop :=
  ∀ f ∈ fs, ∀ g ∈ fs, ver f = ver g → f.text = g.text

/-- … and no real file carries one of the two sentinel times -1 / 0 -/
def VerReal (ver : FileSt → Ver) (fs : List FileSt) : Prop :=
  ∀ f ∈ fs, (ver f).1 ≠ -1 ∧ (ver f).1 ≠ 0

def Inv (ver : FileSt → Ver) (fs : List FileSt) (s : HSt) : Prop :=
  (∀ f, s.2 = some f → f ∈ fs) ∧
  ((s.1.last.1 = -1 ∨ s.1.last.1 = 0) ∨ ∃ g ∈ fs, s.1.last = ver g ∧ Reflects s.1 g.text)

theorem readMap_nonempty (props : KV) (k v : Str) (h : (k, v) ∈ readMap props) : v.isEmpty = false := by
  simp [readMap] at h
  simpa using h.2

theorem reload_some_inv (ver : FileSt → Ver) (fs : List FileSt) (c : Cfg) (f : FileSt) (hf : f ∈ fs)
    (hinv : (c.last.1 = -1 ∨ c.last.1 = 0) ∨ ∃ g ∈ fs, c.last = ver g ∧ Reflects c g.text) :
    let c' := (reload ver c (some f)).1
    (c'.last.1 = -1 ∨ c'.last.1 = 0) ∨ ∃ g ∈ fs, c'.last = ver g ∧ Reflects c' g.text := by
  intro c'
  by_cases hs : c.last = ver f
  · have : c' = c := reload_same_state ver c f hs
    rw [this]; exact hinv
  · right
    refine ⟨f, hf, ?_, ?_⟩
    · show (reload ver c (some f)).1.last = ver f
      unfold reload
      simp only [hs, beq_iff_eq, if_false]
      split <;> rfl
    · intro props hp k v hkv
      have := reload_loaded ver c f props hs hp
      show lookup (reload ver c (some f)).1.m k = some v
      rw [this.2.2.2]
      exact lookup_applyMerge_mem c.m (readMap props) k v
        (keysNodup_readMap props (parseProps_ok_nodup f.text props hp)) hkv (readMap_nonempty props k v hkv)

theorem reload_none_inv (ver : FileSt → Ver) (fs : List FileSt) (c : Cfg)
    (hinv : (c.last.1 = -1 ∨ c.last.1 = 0) ∨ ∃ g ∈ fs, c.last = ver g ∧ Reflects c g.text) :
    let c' := (reload ver c none).1
    (c'.last.1 = -1 ∨ c'.last.1 = 0) ∨ ∃ g ∈ fs, c'.last = ver g ∧ Reflects c' g.text := by
  intro c'
  show (_ ∨ _) ∨ _
  unfold c' reload
  simp only []
  split
  · exact hinv
  · split
    · exact hinv
    · left; right; rfl

theorem inv_step (ver : FileSt → Ver) (fs : List FileSt) (s : HSt) (op : HOp)
    (hop : ∀ f, op = .edit f → f ∈ fs) (h : Inv ver fs s) : Inv ver fs (stepH ver s op) := by
  obtain ⟨c, file⟩ := s
  cases op with
  | edit f => exact ⟨fun g hg => by simp [stepH] at hg; subst hg; exact hop f rfl, h.2⟩
  | delete => exact ⟨fun g hg => by simp [stepH] at hg, h.2⟩
  | reload =>
    refine ⟨h.1, ?_⟩
    cases file with
    | none => exact reload_none_inv ver fs c h.2
    | some f => exact reload_some_inv ver fs c f (h.1 f rfl) h.2

theorem mem_filesOf (ops : List HOp) (f : FileSt) (h : HOp.edit f ∈ ops) : f ∈ filesOf ops := by
  induction ops with
  | nil => cases h
  | cons o r ih =>
    rcases List.mem_cons.mp h with e | e
    · subst e; simp [filesOf]
    · cases o <;> simp [filesOf, ih e]

theorem inv_run (ver : FileSt → Ver) (fs : List FileSt) (s : HSt) (ops : List HOp)
    (hops : ∀ f, HOp.edit f ∈ ops → f ∈ fs) (h : Inv ver fs s) : Inv ver fs (runH ver s ops) := by
  induction ops generalizing s with
  | nil => exact h
  | cons o r ih =>
    simp only [runH, List.foldl_cons]
    apply ih
    · intro f hf; exact hops f (List.mem_cons_of_mem _ hf)
    · exact inv_step ver fs s o (fun f e => hops f (by simp [e])) h

/-- Whatever edits, deletions and reloads happened before: if the file now exists in state `f`,
    one more reload makes every key=value of it visible. -/
theorem tracks_after_reload (ver : FileSt → Ver) (ops : List HOp) (f : FileSt)
    (hinj : VerInj ver (filesOf ops)) (hreal : VerReal ver (filesOf ops))
    (hcur : (runH ver (Cfg.init, none) ops).2 = some f) :
    Reflects (runH ver (Cfg.init, none) (ops ++ [.reload])).1 f.text := by
  have hinv : Inv ver (filesOf ops) (runH ver (Cfg.init, none) ops) :=
    inv_run ver (filesOf ops) _ ops (fun g hg => mem_filesOf ops g hg)
      ⟨fun g hg => by simp at hg, Or.inl (Or.inl rfl)⟩
  have hf : f ∈ filesOf ops := hinv.1 f hcur
  simp only [runH, List.foldl_append, List.foldl_cons, List.foldl_nil]
  generalize hs : List.foldl (stepH ver) (Cfg.init, none) ops = s at *
  simp only [runH] at hinv hcur
  rw [hs] at hinv hcur
  obtain ⟨c, file⟩ := s
  simp only at hcur
  subst hcur
  simp only [stepH]
  by_cases hsame : c.last = ver f
  · rw [reload_same_state ver c f hsame]
    rcases hinv.2 with hsent | ⟨g, hg, hlast, hrefl⟩
    · have := hreal f hf
      rw [← hsame] at this
      rcases hsent with h1 | h1
      · exact absurd h1 this.1
      · exact absurd h1 this.2
    · have : g.text = f.text := hinj g hg f hf (by rw [← hlast, hsame])
      rw [← this]; exact hrefl
  · intro props hp k v hkv
    have := reload_loaded ver c f props hsame hp
    rw [this.2.2.2]
    exact lookup_applyMerge_mem c.m (readMap props) k v
      (keysNodup_readMap props (parseProps_ok_nodup f.text props hp)) hkv (readMap_nonempty props k v hkv)

/-! ### an external edit landing in the middle of a reload -/

/-- reload looks at the file when it is `f1` (stat, then read); right after the read the file
    becomes `f2`.  The code remembers the stamp it took *before* the read (`stampAfter = false`);
    `stampAfter = true` is the variant that takes a fresh stat after the read. -/
def reloadRacing (stampAfter : Bool) (c : Cfg) (f1 f2 : FileSt) : Cfg :=
  let r := reload verFull c (some f1)
  if stampAfter && r.2 == .loaded then { r.1 with last := verFull f2 } else r.1

theorem reload_last (ver : FileSt → Ver) (c : Cfg) (f : FileSt) : (reload ver c (some f)).1.last = ver f := by
  by_cases h : c.last = ver f
  · rw [reload_same_state ver c f h]; exact h
  · unfold reload
    simp only [h, beq_iff_eq, if_false]
    split <;> rfl

/-- with the stamp taken before the read, the next reload loads the edit that raced -/
theorem reload_race_recovers (c : Cfg) (f1 f2 : FileSt) (props : KV)
    (hv : verFull f1 ≠ verFull f2) (hp : parseProps f2.text = .ok props) :
    let c1 := reloadRacing false c f1 f2
    (reload verFull c1 (some f2)).2 = .loaded ∧
    (reload verFull c1 (some f2)).1.notified = c1.notified + 1 ∧
    Reflects (reload verFull c1 (some f2)).1 f2.text := by
  intro c1
  have hl : c1.last = verFull f1 := by
    show (reloadRacing false c f1 f2).last = verFull f1
    simp [reloadRacing, reload_last]
  have hne : c1.last ≠ verFull f2 := by rw [hl]; exact hv
  obtain ⟨h1, h2, _, h4⟩ := reload_loaded verFull c1 f2 props hne hp
  refine ⟨h1, h2, ?_⟩
  intro props' hp' k v hkv
  rw [hp] at hp'
  cases hp'
  rw [h4]
  exact lookup_applyMerge_mem c1.m (readMap props) k v
    (keysNodup_readMap props (parseProps_ok_nodup f2.text props hp)) hkv (readMap_nonempty props k v hkv)

/-! ### the file goes away and comes back -/

/-- after a reload that found the file missing (reset to the defaults, remembered time := 0) a
    file that appears is loaded whatever its stamp — in particular the stamp it had before it went
    away (rename back, cp -p, tar x, rsync -t) -/
theorem restored_file_loaded (c : Cfg) (f : FileSt) (props : KV)
    (h1 : c.last.1 ≠ -1) (h0 : c.last.1 ≠ 0) (hf : f.mtimeNs ≠ 0) (hp : parseProps f.text = .ok props) :
    let c1 := (reload verFull c none).1
    (reload verFull c1 (some f)).2 = .loaded ∧ Reflects (reload verFull c1 (some f)).1 f.text := by
  intro c1
  have hl : c1.last.1 = 0 := by
    show (reload verFull c none).1.last.1 = 0
    unfold reload
    simp [h1, h0]
  have hne : c1.last ≠ verFull f := by
    intro e
    have : c1.last.1 = f.mtimeNs := by rw [e]; rfl
    rw [hl] at this
    exact hf this.symm
  obtain ⟨r1, _, _, r4⟩ := reload_loaded verFull c1 f props hne hp
  refine ⟨r1, ?_⟩
  intro props' hp' k v hkv
  rw [hp] at hp'
  cases hp'
  rw [r4]
  exact lookup_applyMerge_mem c1.m (readMap props) k v
    (keysNodup_readMap props (parseProps_ok_nodup f.text props hp)) hkv (readMap_nonempty props k v hkv)

/-- the variant that marks "file missing" with a separate flag and keeps the remembered stamp -/
def resetKeepingStamp (c : Cfg) : Cfg := { c with m := (reload verFull { c with last := (1, 0) } none).1.m }

end Conf
