/-
  Golib.Conf.KeyFull — a key that contains a backslash is never read back under its own name from
  the line `key=…` (keys are written unescaped).  Two measures of the key text consumed so far
  (`p`) against the key accumulated so far (`acc`): the accumulated key is never longer, strictly
  shorter once an escape was consumed, and it has at least as many '=' signs (an '=' inside the
  key text can only be consumed by an escape, which yields an '=').  If the lexed key equalled the
  written key, the consumed text would either stop inside the key (too short) or run past the
  line's '=' (one '=' too many).
-/
import Golib.Conf.KeyIff

namespace Conf

def eqc (s : Str) : Nat := s.count '='

theorem eqc_append (a b : Str) : eqc (a ++ b) = eqc a + eqc b := by simp [eqc]
theorem eqc_reverse (s : Str) : eqc s.reverse = eqc s := by simp [eqc]
theorem eqc_cons_eq (s : Str) : eqc ('=' :: s) = eqc s + 1 := by simp [eqc]
theorem eqc_cons_ne (c : Char) (s : Str) (h : c ≠ '=') : eqc (c :: s) = eqc s := by
  simp [eqc, h]
theorem eqc_cons_ge (c : Char) (s : Str) : eqc s ≤ eqc (c :: s) := by
  by_cases h : c = '='
  · subst h; rw [eqc_cons_eq]; omega
  · rw [eqc_cons_ne c s h]; omega
theorem eqc_snoc_eq (p : Str) : eqc (p ++ ['=']) = eqc p + 1 := by rw [eqc_append, eqc_cons_eq]; simp [eqc]
theorem eqc_snoc_ne (p : Str) (c : Char) (h : c ≠ '=') : eqc (p ++ [c]) = eqc p := by
  rw [eqc_append, eqc_cons_ne c [] h]; simp [eqc]

def KInv (p : Str) (out0 : KV) (s : LexSt) : Prop :=
  (s.out = out0 ∧ ∃ acc, s.mode = .key acc ∧ acc.length ≤ p.length ∧ eqc p ≤ eqc acc ∧
      ('\\' ∈ p → acc.length < p.length)) ∨
  (s.out = out0 ∧ ∃ acc, s.mode = .keyEsc acc ∧ acc.length < p.length ∧ eqc p ≤ eqc acc) ∨
  (s.out = out0 ∧ ∃ acc n cnt, s.mode = .keyU acc n cnt ∧ acc.length + 2 + cnt ≤ p.length ∧ eqc p ≤ eqc acc) ∨
  (∃ K p1, p1 <+: p ∧ K.length ≤ p1.length ∧ eqc p1 ≤ eqc K ∧ ('\\' ∈ p1 → K.length < p1.length) ∧
      holdsKey K out0 s) ∨
  s.mode = .err

theorem endOfKey_not_bs (c : Char) (h : isEndOfKey c = true) : c ≠ '\\' := by
  intro e; subst e; revert h; decide

theorem hexVal_not_eq (c : Char) (d : Nat) (h : hexVal c = some d) : c ≠ '=' := by
  intro e; subst e; simp [hexVal] at h

theorem KInv_step (p : Str) (out0 : KV) (s : LexSt) (c : Char) (h : KInv p out0 s) :
    KInv (p ++ [c]) out0 (step s c) := by
  rcases h with ⟨ho, acc, hm, hl, he, hb⟩ | ⟨ho, acc, hm, hl, he⟩ | ⟨ho, acc, n, cnt, hm, hl, he⟩ |
      ⟨K, p1, hp1, hk1, hk2, hk3, hh⟩ | herr
  · -- in the key
    obtain ⟨mode, out⟩ := s
    simp only at ho hm; subst ho; subst hm
    by_cases hbs : c = '\\'
    · subst hbs
      right; left
      refine ⟨by simp [step, stepKey], acc, by simp [step, stepKey], by simp; omega, ?_⟩
      rw [eqc_snoc_ne p '\\' (by decide)]; exact he
    · have hbs' : (c == '\\') = false := by simp [hbs]
      by_cases hend : isEndOfKey c = true
      · -- the key ends here
        by_cases hemp : acc.isEmpty = true
        · right; right; right; right
          simp [step, stepKey, hbs', hend, hemp]
        · have hemp' : acc.isEmpty = false := by simpa using hemp
          right; right; right; left
          refine ⟨acc.reverse, p, ⟨[c], rfl⟩, by simpa using hl, by rw [eqc_reverse]; exact he, by simpa using hb, ?_⟩
          simp only [step, stepKey, hbs', hend, hemp', Bool.false_eq_true, if_false, if_true, stepBv1, stepVal]
          (repeat' split) <;>
            first
              | (left; refine ⟨rfl, ?_⟩; simp; done)
              | (right; left; exact ⟨[], _, rfl⟩)
              | (right; right; rfl)
      · have hend' : isEndOfKey c = false := by simpa using hend
        have hceq : c ≠ '=' := by
          intro e; subst e; revert hend'; decide
        left
        refine ⟨by simp [step, stepKey, hbs', hend'], c :: acc, by simp [step, stepKey, hbs', hend'], by simp; omega, ?_, ?_⟩
        · rw [eqc_snoc_ne p c hceq, eqc_cons_ne c acc hceq]; exact he
        · intro hmem
          simp only [List.mem_append, List.mem_singleton] at hmem
          rcases hmem with hmem | hmem
          · have := hb hmem; simp; omega
          · exact absurd hmem.symm hbs |> False.elim
  · -- after a backslash
    obtain ⟨mode, out⟩ := s
    simp only at ho hm; subst ho; subst hm
    by_cases hu : c = 'u'
    · subst hu
      right; right; left
      refine ⟨by simp [step], acc, 0, 0, by simp [step], by simp; omega, ?_⟩
      rw [eqc_snoc_ne p 'u' (by decide)]; exact he
    · have hu' : (c == 'u') = false := by simp [hu]
      left
      refine ⟨by simp [step, hu'], unescape c :: acc, by simp [step, hu'], by simp; omega, ?_, ?_⟩
      · by_cases hceq : c = '='
        · subst hceq
          have hun : unescape '=' = '=' := by decide
          rw [eqc_snoc_eq, hun, eqc_cons_eq]; omega
        · rw [eqc_snoc_ne p c hceq]
          have := eqc_cons_ge (unescape c) acc
          omega
      · intro _; simp; omega
  · -- inside \uXXXX
    obtain ⟨mode, out⟩ := s
    simp only at ho hm; subst ho; subst hm
    cases hx : hexVal c with
    | none =>
      right; right; right; right
      simp [step, hx]
    | some d =>
      have hceq := hexVal_not_eq c d hx
      by_cases h3 : cnt = 3
      · subst h3
        left
        refine ⟨by simp [step, hx], runeOf (n * 16 + d) :: acc, by simp [step, hx], by simp; omega, ?_, ?_⟩
        · rw [eqc_snoc_ne p c hceq]
          have := eqc_cons_ge (runeOf (n * 16 + d)) acc
          omega
        · intro _; simp; omega
      · have h3' : (cnt == 3) = false := by simp [h3]
        right; right; left
        refine ⟨by simp [step, hx, h3'], acc, n * 16 + d, cnt + 1, by simp [step, hx, h3'], by simp; omega, ?_⟩
        rw [eqc_snoc_ne p c hceq]; exact he
  · right; right; right; left
    obtain ⟨t, ht⟩ := hp1
    exact ⟨K, p1, ⟨t ++ [c], by rw [← ht]; simp⟩, hk1, hk2, hk3, holdsKey_step K out0 s c hh⟩
  · right; right; right; right
    obtain ⟨mode, out⟩ := s
    simp only at herr; subst herr; rfl

theorem KInv_run (p q : Str) (out0 : KV) (s : LexSt) (h : KInv p out0 s) : KInv (p ++ q) out0 (lexRun s q) := by
  induction q generalizing p s with
  | nil => show KInv (p ++ []) out0 s; rw [List.append_nil]; exact h
  | cons c r ih =>
    rw [lexRun_cons]
    have := ih (p ++ [c]) (step s c) (KInv_step p out0 s c h)
    simpa using this

theorem prefix_no_bs_short (p1 k rest : Str) (hp : p1 <+: k ++ rest) (hno : '\\' ∉ p1) (hk : '\\' ∈ k) :
    p1.length < k.length := by
  induction k generalizing p1 with
  | nil => cases hk
  | cons x t ih =>
    cases p1 with
    | nil => simp
    | cons y u =>
      obtain ⟨w, hw⟩ := hp
      simp only [List.cons_append] at hw
      obtain ⟨e1, e2⟩ := List.cons.inj hw
      subst e1
      have hy : y ≠ '\\' := fun e => hno (by simp [e])
      have hk' : '\\' ∈ t := by
        rcases List.mem_cons.mp hk with e | e
        · exact absurd e.symm hy
        · exact e
      have := ih u ⟨w, e2⟩ (fun hm => hno (List.mem_cons_of_mem _ hm)) hk'
      simp; omega

theorem prefix_past (p1 k rest : Str) (hp : p1 <+: k ++ '=' :: rest) (hl : k.length < p1.length) :
    ∃ w, p1 = k ++ '=' :: w := by
  induction k generalizing p1 with
  | nil =>
    cases p1 with
    | nil => simp at hl
    | cons y u =>
      obtain ⟨w, hw⟩ := hp
      simp only [List.nil_append, List.cons_append] at hw
      exact ⟨u, by rw [(List.cons.inj hw).1]; rfl⟩
  | cons x t ih =>
    cases p1 with
    | nil => simp at hl
    | cons y u =>
      obtain ⟨w, hw⟩ := hp
      simp only [List.cons_append] at hw
      obtain ⟨e1, e2⟩ := List.cons.inj hw
      subst e1
      obtain ⟨w2, hw2⟩ := ih u ⟨w, e2⟩ (by simp at hl; omega)
      exact ⟨w2, by rw [hw2]; rfl⟩

/-- a written key containing a backslash never comes back as the key of the first item -/
theorem key_with_bs_never_first (k rest v : Str) (tl : KV) (hw : isWordStart k = true) (hbs : '\\' ∈ k) :
    lexPairs (k ++ '=' :: rest) ≠ some ((k, v) :: tl) := by
  intro h
  cases k with
  | nil => simp [isWordStart] at hw
  | cons c0 kr =>
    simp only [isWordStart] at hw
    obtain ⟨h1, h2, h3⟩ := isWordChar_facts c0 hw
    have hc0bs : c0 ≠ '\\' := by intro e; subst e; revert hw; decide
    have hc0eq : c0 ≠ '=' := by intro e; subst e; revert hw; decide
    have hc0end : isEndOfKey c0 = false := by
      simp only [isEndOfKey, h2, h1, Bool.false_or, Bool.or_eq_false_iff, beq_eq_false_iff_ne, ne_eq]
      exact ⟨by intro e; subst e; revert hw; decide, hc0eq⟩
    have s1 : step ⟨.bk, []⟩ c0 = ⟨.key [c0], []⟩ := by
      simp [step, h1, h2, h3, stepKey, hc0bs, hc0end]
    have hinv0 : KInv [c0] [] ⟨.key [c0], []⟩ := by
      left
      refine ⟨rfl, [c0], rfl, by simp, by rw [eqc_cons_ne c0 [] hc0eq]; omega, ?_⟩
      intro hm; simp at hm; exact absurd hm.symm hc0bs |> False.elim
    let L := kr ++ '=' :: rest
    have hrun := KInv_run [c0] L [] _ hinv0
    simp only [lexPairs, List.cons_append, lexRun_cons, s1] at h
    have hfull : [c0] ++ L = (c0 :: kr) ++ '=' :: rest := by simp [L]
    rw [hfull] at hrun
    have hLcount : eqc ((c0 :: kr) ++ '=' :: rest) ≥ eqc (c0 :: kr) + 1 := by
      rw [eqc_append, eqc_cons_eq]; omega
    rcases hrun with ⟨ho, acc, hm, hl, he, _⟩ | ⟨_, acc, hm, _, _⟩ | ⟨_, acc, n, cnt, hm, _, _⟩ |
        ⟨K, p1, hp1, hk1, hk2, hk3, hh⟩ | herr
    · -- the whole line was key text
      generalize hs : lexRun ⟨.key [c0], []⟩ L = st at h hm ho
      obtain ⟨mode, out⟩ := st
      simp only at hm ho; subst hm; subst ho
      simp only [finish, List.reverse_cons, List.reverse_nil, List.nil_append, Option.some.injEq] at h
      have hk : acc.reverse = c0 :: kr := (Prod.mk.inj (List.cons.inj h).1).1
      have : eqc acc = eqc (c0 :: kr) := by rw [← hk, eqc_reverse]
      omega
    · generalize hs : lexRun ⟨.key [c0], []⟩ L = st at h hm
      obtain ⟨mode, out⟩ := st
      simp only at hm; subst hm; simp [finish] at h
    · generalize hs : lexRun ⟨.key [c0], []⟩ L = st at h hm
      obtain ⟨mode, out⟩ := st
      simp only at hm; subst hm; simp [finish] at h
    · obtain ⟨v', tl', e⟩ := holdsKey_finish K _ _ hh h
      have hK : K = c0 :: kr := (Prod.mk.inj (List.cons.inj e).1).1.symm
      subst hK
      by_cases hb1 : '\\' ∈ p1
      · have hlt := hk3 hb1
        by_cases hlen : p1.length ≤ (c0 :: kr).length
        · omega
        · -- p1 runs past the line's '=': one '=' more than the key has
          have hlen' : (c0 :: kr).length < p1.length := by omega
          obtain ⟨w2, hw2⟩ := prefix_past p1 (c0 :: kr) rest hp1 hlen'
          have : eqc p1 = eqc (c0 :: kr) + 1 + eqc w2 := by
            rw [hw2, eqc_append, eqc_cons_eq]; omega
          omega
      · have := prefix_no_bs_short p1 (c0 :: kr) ('=' :: rest) hp1 hb1 hbs
        omega
    · generalize hs : lexRun ⟨.key [c0], []⟩ L = st at h herr
      obtain ⟨mode, out⟩ := st
      simp only at herr; subst herr; simp [finish] at h

end Conf
