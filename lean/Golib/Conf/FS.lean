/-
  Golib.Conf.FS — a small model of the file-system calls DefaultFileParser.Write makes when it
  stores the new content, with a "the process stops here" point after every prefix of the call
  sequence (a `write` of n characters has n+1 such points: any prefix of the data may have
  reached the file).

  Two files matter: the configuration file (`target`) and a temporary file in the same
  directory (`temp`).  What a reader of the configuration file sees is `fs.target`.
  Modelled, not verified: the kernel's open/O_TRUNC/write/rename semantics (rename within one
  directory replaces the target atomically).
-/
import Golib.Conf.Str

namespace Conf

inductive FName where
  | target | temp
  deriving Repr, DecidableEq

/-- the call *kinds* extracted from the source (tie A); the data written is the variable `line` -/
inductive FsKind where
  | openTrunc (f : FName)          -- os.OpenFile(path, O_WRONLY|O_TRUNC)
  | createTemp                      -- os.CreateTemp(dir(path), …)
  | chmod (f : FName)
  | write (f : FName)               -- io.WriteString(f, line)
  | sync (f : FName)
  | close (f : FName)
  | rename (src dst : FName)
  | remove (f : FName)
  deriving Repr, DecidableEq

structure FS where
  target : Option Str
  temp : Option Str
  deriving Repr, DecidableEq

def FS.get (fs : FS) : FName → Option Str
  | .target => fs.target
  | .temp => fs.temp

def FS.set (fs : FS) (f : FName) (c : Option Str) : FS :=
  match f with
  | .target => { fs with target := c }
  | .temp => { fs with temp := c }

/-- effect of a completed call; `data` is what `write` writes (appended at the handle's offset,
    which is the end of what this sequence wrote so far) -/
def execKind (data : Str) (fs : FS) : FsKind → FS
  | .openTrunc f => fs.set f (some [])
  | .createTemp => fs.set .temp (some [])
  | .chmod _ => fs
  | .write f => fs.set f (some ((fs.get f).getD [] ++ data))
  | .sync _ => fs
  | .close _ => fs
  | .rename s d => (fs.set d (fs.get s)).set s none
  | .remove f => fs.set f none

/-- all prefixes of a string, shortest first (including [] and the string itself) -/
def prefixes : Str → List Str
  | [] => [[]]
  | c :: r => [] :: (prefixes r).map (c :: ·)

/-- every state in which the process can stop: before each call, inside each write, at the end -/
def crashStates (data : Str) : List FsKind → FS → List FS
  | [], fs => [fs]
  | .write f :: rest, fs =>
    (prefixes data).map (fun p => fs.set f (some ((fs.get f).getD [] ++ p)))
      ++ crashStates data rest (execKind data fs (.write f))
  | k :: rest, fs => fs :: crashStates data rest (execKind data fs k)

/-- the sequence of the unchanged code (after the handle used for reading the old lines was
    opened; the two deferred closes come last) -/
def truncSeq : List FsKind :=
  [.openTrunc .target, .write .target, .sync .target, .close .target, .close .target]

/-- the sequence after proposed/C18/fix-D39.diff -/
def atomicSeq : List FsKind :=
  [.close .target, .createTemp, .chmod .temp, .write .temp, .sync .temp, .close .temp, .rename .temp .target]

/-- what readers may see: the configuration file holds the complete old or the complete new content -/
def visibleOK (old new : Str) (fs : FS) : Prop := fs.target = some old ∨ fs.target = some new

instance (old new : Str) (fs : FS) : Decidable (visibleOK old new fs) := by
  unfold visibleOK; infer_instance

end Conf
