/-
  Golib.Conf.SysHist — the whole object over histories: FileConfig (map, remembered stamp),
  the file, and the observer registry, driven by external edits, deletions, reloads and
  registrations.  The notification clause is stated over arbitrary op sequences.
-/
import Golib.Conf.Tracks
import Golib.Conf.ObsHist

namespace Conf

/-- reload with the notification policy for the reset made explicit: the code as it is does not
    call the observers when the file disappeared and the defaults were applied
    (`notifyReset = false`); `true` is the behaviour with proposed/C18/fix-reset-notify.diff -/
def reloadN (notifyReset : Bool) (ver : FileSt → Ver) (c : Cfg) (file : Option FileSt) : Cfg × ReloadRes :=
  let r := reload ver c file
  if notifyReset && r.2 == .reset then ({ r.1 with notified := r.1.notified + 1 }, r.2) else r

def notifies (notifyReset : Bool) (r : ReloadRes) : Bool := r == .loaded || (notifyReset && r == .reset)

inductive SysOp where
  | edit (f : FileSt)
  | delete
  | reload
  | addObs (name : Str) (id : Nat)
  | reloadPanic (visited : List Nat)   -- a reload during whose notification round an observer panics
  deriving Repr

structure Sys where
  cfg : Cfg
  file : Option FileSt
  obs : Obs
  deriving Repr

def Sys.init : Sys := { cfg := Cfg.init, file := none, obs := Obs.empty }

def Sys.step (nr : Bool) (s : Sys) : SysOp → Sys
  | .edit f => { s with file := some f }
  | .delete => { s with file := none }
  | .addObs n i => { s with obs := s.obs.add n i }
  | .reload =>
    let r := reloadN nr verFull s.cfg s.file
    { s with cfg := r.1, obs := if notifies nr r.2 then s.obs.run else s.obs }
  | .reloadPanic ids =>
    -- the map was merged before the observers ran; reload recovers the panic; only `ids` were visited
    let r := reloadN nr verFull s.cfg s.file
    { s with cfg := r.1, obs := if notifies nr r.2 then s.obs.runPartial ids else s.obs }

def Sys.run (nr : Bool) (s : Sys) (ops : List SysOp) : Sys := ops.foldl (Sys.step nr) s

/-- the registry history a system history induces: a registration is a registration, a reload
    that notifies is a round, everything else is invisible to the observers -/
def project (nr : Bool) (s : Sys) : List SysOp → List ObsOp
  | [] => []
  | op :: r =>
    match op with
    | .addObs n i => .add n i :: project nr (s.step nr op) r
    | .reload =>
      if notifies nr (reloadN nr verFull s.cfg s.file).2 then .run :: project nr (s.step nr op) r
      else project nr (s.step nr op) r
    | .reloadPanic ids =>
      if notifies nr (reloadN nr verFull s.cfg s.file).2 then .runPartial ids :: project nr (s.step nr op) r
      else project nr (s.step nr op) r
    | _ => project nr (s.step nr op) r

theorem sys_obs (nr : Bool) (s : Sys) (ops : List SysOp) :
    (s.run nr ops).obs = s.obs.exec (project nr s ops) := by
  induction ops generalizing s with
  | nil => rfl
  | cons op r ih =>
    simp only [Sys.run, List.foldl_cons] at ih ⊢
    rw [ih (s.step nr op)]
    cases op with
    | edit f => simp [project, Sys.step]
    | delete => simp [project, Sys.step]
    | addObs n i => simp [project, Sys.step, Obs.exec, Obs.step]
    | reload =>
      simp only [project]
      split
      · rename_i h
        simp [Sys.step, h, Obs.exec, Obs.step]
      · rename_i h
        simp [Sys.step, h]
    | reloadPanic ids =>
      simp only [project]
      split
      · rename_i h
        simp [Sys.step, h, Obs.exec, Obs.step]
      · rename_i h
        simp [Sys.step, h]

/-- how often the configuration counted a notification = number of notifying reloads -/
def roundsOf : List ObsOp → Nat
  | [] => 0
  | .run :: r => 1 + roundsOf r
  | .runReg _ _ _ :: r => 1 + roundsOf r
  | .runPartial _ :: r => 1 + roundsOf r
  | _ :: r => roundsOf r

/-- **Notification clause over histories.**  For every history of edits, deletions, reloads and
    registrations, every observer target has been called exactly once for each reload that loaded a
    new version of the file while the target was registered — and never otherwise (a reload that
    finds the same version, no file, or a malformed file notifies nobody). -/
theorem notifications_over_history (nr : Bool) (ops : List SysOp) (id : Nat) :
    ((Sys.init.run nr ops).obs).count id = callsSpec [] (project nr Sys.init ops) id := by
  rw [sys_obs]
  have := exec_count Obs.empty (project nr Sys.init ops) id wf_empty
  simpa [Obs.count, Obs.empty, Sys.init] using this

/-- frame: a reload that does not notify and is not a reset leaves the map and the registry alone;
    edits, deletions and registrations never touch the map -/
theorem reload_frame (ver : FileSt → Ver) (c : Cfg) (file : Option FileSt)
    (h1 : (reload ver c file).2 ≠ .loaded) (h2 : (reload ver c file).2 ≠ .reset) :
    (reload ver c file).1.m = c.m ∧ (reload ver c file).1.notified = c.notified := by
  unfold reload at *
  cases file with
  | none =>
    simp only [] at *
    split
    · exact ⟨rfl, rfl⟩
    · split
      · exact ⟨rfl, rfl⟩
      · rename_i h3 h4; simp [h3, h4] at h2
  | some f =>
    simp only [] at *
    split
    · exact ⟨rfl, rfl⟩
    · rename_i hne
      simp only [hne] at h1
      split
      · exact ⟨rfl, rfl⟩
      · exact ⟨rfl, rfl⟩
      · rename_i props hp; simp [hp] at h1

theorem step_frame (nr : Bool) (s : Sys) (op : SysOp) (h : op = .reload → False)
    (h2 : ∀ ids, op = .reloadPanic ids → False) :
    (s.step nr op).cfg = s.cfg := by
  cases op with
  | edit f => rfl
  | delete => rfl
  | addObs n i => rfl
  | reloadPanic ids => exact (h2 ids rfl).elim
  | reload => exact (h rfl).elim

theorem reload_notified (ver : FileSt → Ver) (c : Cfg) (file : Option FileSt) :
    (reload ver c file).1.notified = c.notified + (if (reload ver c file).2 == .loaded then 1 else 0) := by
  unfold reload
  cases file with
  | none =>
    simp only []
    split
    · simp
    · split <;> simp
  | some f =>
    simp only []
    split
    · simp
    · split <;> simp

theorem reloadN_notified (nr : Bool) (c : Cfg) (file : Option FileSt) :
    (reloadN nr verFull c file).1.notified =
      c.notified + (if notifies nr (reloadN nr verFull c file).2 then 1 else 0) := by
  have h := reload_notified verFull c file
  unfold reloadN notifies
  cases nr with
  | false => simpa using h
  | true =>
    simp only [Bool.true_and]
    cases hr : (reload verFull c file).2 <;> simp [hr] at h ⊢ <;> omega

/-- the configuration's own count of notification rounds is the number of notifying reloads of the
    history -/
theorem notified_is_rounds (nr : Bool) (s : Sys) (ops : List SysOp) :
    (s.run nr ops).cfg.notified = s.cfg.notified + roundsOf (project nr s ops) := by
  induction ops generalizing s with
  | nil => simp [Sys.run, project, roundsOf]
  | cons op r ih =>
    simp only [Sys.run, List.foldl_cons] at ih ⊢
    rw [ih (s.step nr op)]
    cases op with
    | edit f => simp [project, Sys.step]
    | delete => simp [project, Sys.step]
    | addObs n i => simp [project, Sys.step, roundsOf]
    | reload =>
      have hn := reloadN_notified nr s.cfg s.file
      simp only [project]
      split
      · rename_i h; simp [Sys.step, roundsOf, hn, h]; omega
      · rename_i h; simp [Sys.step, hn, h]
    | reloadPanic ids =>
      have hn := reloadN_notified nr s.cfg s.file
      simp only [project]
      split
      · rename_i h; simp [Sys.step, roundsOf, hn, h]; omega
      · rename_i h; simp [Sys.step, hn, h]

end Conf
