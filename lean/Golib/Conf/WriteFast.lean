/-
  Golib.Conf.WriteFast — tail-recursive forms of the write-back model's list functions, proved equal
  to the structural definitions and installed for compiled code (`@[csimp]`), so that the driver
  handles lines of a megabyte without deep recursion.  Proofs are about the structural forms.
-/
import Golib.Conf.Write

namespace Conf

def splitLinesAux : Str → Str → List Str → List Str
  | [], cur, acc => (if cur.isEmpty then acc else cur.reverse :: acc).reverse
  | '\r' :: '\n' :: r, cur, acc => splitLinesAux r [] (cur.reverse :: acc)
  | '\n' :: r, cur, acc => splitLinesAux r [] (cur.reverse :: acc)
  | c :: r, cur, acc => splitLinesAux r (c :: cur) acc

def splitLinesTR (s : Str) : List Str := splitLinesAux s [] []

/-- `p` glued in front of the first line -/
def glue (p : Str) : List Str → List Str
  | [] => if p.isEmpty then [] else [p]
  | l :: t => (p ++ l) :: t

theorem splitLinesAux_eq (s cur : Str) (acc : List Str) :
    splitLinesAux s cur acc = acc.reverse ++ glue cur.reverse (splitLines s) := by
  induction s using splitLines.induct generalizing cur acc with
  | case1 => simp [splitLinesAux, splitLines, glue]; split <;> simp_all
  | case2 r ih => simp [splitLinesAux, splitLines, glue, ih]
  | case3 r ih => simp [splitLinesAux, splitLines, glue, ih]
  | case4 c r h1 h2 hs ih =>
    rw [splitLinesAux.eq_def]
    split
    · rename_i heq; cases heq
    · rename_i r' _ _ heq
      obtain ⟨e1, e2⟩ := List.cons.inj heq
      exact (h1 r' e1 e2).elim
    · rename_i r' _ _ heq
      obtain ⟨e1, e2⟩ := List.cons.inj heq
      exact (h2 e1).elim
    · rename_i c' r' cur' acc' _ _ heq
      obtain ⟨e1, e2⟩ := List.cons.inj heq
      subst e1; subst e2
      rw [ih]
      have : splitLines (c' :: r') = [[c']] := by
        rw [splitLines.eq_def]
        split
        · rename_i heq2; cases heq2
        · rename_i r2 heq2; obtain ⟨e3, e4⟩ := List.cons.inj heq2; exact (h1 r2 e3 e4).elim
        · rename_i r2 heq2; exact (h2 (List.cons.inj heq2).1).elim
        · rename_i c2 r2 _ _ heq2
          obtain ⟨e3, e4⟩ := List.cons.inj heq2
          subst e3; subst e4
          simp [hs]
      rw [this, hs]
      simp [glue]
  | case5 c r l ls h1 h2 hs ih =>
    rw [splitLinesAux.eq_def]
    split
    · rename_i heq; cases heq
    · rename_i r' _ _ heq
      obtain ⟨e1, e2⟩ := List.cons.inj heq
      exact (h1 r' e1 e2).elim
    · rename_i r' _ _ heq
      obtain ⟨e1, e2⟩ := List.cons.inj heq
      exact (h2 e1).elim
    · rename_i c' r' cur' acc' _ _ heq
      obtain ⟨e1, e2⟩ := List.cons.inj heq
      subst e1; subst e2
      rw [ih]
      have : splitLines (c' :: r') = (c' :: l) :: ls := by
        rw [splitLines.eq_def]
        split
        · rename_i heq2; cases heq2
        · rename_i r2 heq2; obtain ⟨e3, e4⟩ := List.cons.inj heq2; exact (h1 r2 e3 e4).elim
        · rename_i r2 heq2; exact (h2 (List.cons.inj heq2).1).elim
        · rename_i c2 r2 _ _ heq2
          obtain ⟨e3, e4⟩ := List.cons.inj heq2
          subst e3; subst e4
          simp [hs]
      rw [this, hs]
      simp [glue]

@[csimp] theorem splitLines_eq_TR : @splitLines = @splitLinesTR := by
  funext s
  simp [splitLinesTR, splitLinesAux_eq, glue]
  cases splitLines s <;> simp [glue]

def doubleBsAux : Str → Str → Str
  | [], acc => acc.reverse
  | c :: r, acc => if c == '\\' then doubleBsAux r ('\\' :: '\\' :: acc) else doubleBsAux r (c :: acc)

theorem doubleBsAux_eq (s acc : Str) : doubleBsAux s acc = acc.reverse ++ doubleBs s := by
  induction s generalizing acc with
  | nil => simp [doubleBsAux, doubleBs]
  | cons c r ih =>
    simp only [doubleBsAux, doubleBs]
    split <;> simp [ih]

@[csimp] theorem doubleBs_eq_TR : @doubleBs = fun s => doubleBsAux s [] := by
  funext s; simp [doubleBsAux_eq]

def collapseBsAux : Str → Str → Str
  | '\\' :: '\\' :: r, acc => collapseBsAux r ('\\' :: acc)
  | c :: r, acc => collapseBsAux r (c :: acc)
  | [], acc => acc.reverse

theorem collapseBsAux_eq (s acc : Str) : collapseBsAux s acc = acc.reverse ++ collapseBs s := by
  induction s using collapseBs.induct generalizing acc with
  | case1 r ih => simp [collapseBsAux, collapseBs, ih]
  | case2 d r hne ih =>
    rw [collapseBsAux.eq_def, collapseBs.eq_def]
    split
    · rename_i r' _ heq; exact (hne r' (List.cons.inj heq).1 (by rw [(List.cons.inj heq).2])).elim
    · rename_i d' r' acc' _ heq
      obtain ⟨e1, e2⟩ := List.cons.inj heq
      subst e1; subst e2
      split
      · rename_i r2 heq2; exact (hne r2 (List.cons.inj heq2).1 (by rw [(List.cons.inj heq2).2])).elim
      · rename_i d2 r2 _ heq2
        obtain ⟨e3, e4⟩ := List.cons.inj heq2
        subst e3; subst e4
        simp [ih]
      · rename_i heq2; cases heq2
    · rename_i heq; cases heq
  | case3 => simp [collapseBsAux, collapseBs]

@[csimp] theorem collapseBs_eq_TR : @collapseBs = fun s => collapseBsAux s [] := by
  funext s; simp [collapseBsAux_eq]

end Conf
