/-
  Golib.Conf.KeyBackslash — keys containing a backslash are written unescaped, so the lexer takes
  the backslash as an escape.  If the first character of the key that is not plain is a backslash
  and the character after it (the next character of the key, or the '=' of the line when the
  backslash is the last character) is neither another backslash nor 'u', the item is read back
  under a key that differs from the written one at that very position.
-/
import Golib.Conf.KeyIff

namespace Conf

/-- the key being lexed is known to start with `P` (reversed accumulator ends with `P.reverse`) -/
def holdsPrefix (P : Str) (out0 : KV) (s : LexSt) : Prop :=
  (s.out = out0 ∧ ∃ acc, P.reverse <:+ acc ∧
      (s.mode = .key acc ∨ s.mode = .keyEsc acc ∨ ∃ n c, s.mode = .keyU acc n c)) ∨
  (∃ K, P <+: K ∧ holdsKey K out0 s) ∨
  s.mode = .err

theorem suffix_cons {α : Type} (a : List α) (b : List α) (x : α) (h : a <:+ b) : a <:+ x :: b := by
  obtain ⟨t, ht⟩ := h
  exact ⟨x :: t, by rw [← ht]; rfl⟩

theorem prefix_of_rev_suffix (P acc : Str) (h : P.reverse <:+ acc) : P <+: acc.reverse := by
  obtain ⟨t, ht⟩ := h
  exact ⟨t.reverse, by rw [← ht]; simp⟩

theorem holdsPrefix_step (P : Str) (out0 : KV) (s : LexSt) (c : Char) (hP : P ≠ [])
    (h : holdsPrefix P out0 s) : holdsPrefix P out0 (step s c) := by
  rcases h with ⟨ho, acc, hsuf, hm⟩ | ⟨K, hK, hh⟩ | he
  · obtain ⟨mode, out⟩ := s
    simp only at ho hm
    subst ho
    have hne : acc.isEmpty = false := by
      cases acc with
      | nil =>
        obtain ⟨t, ht⟩ := hsuf
        have : P.reverse = [] := by
          cases t <;> simp_all
        exact absurd (by simpa using this) hP
      | cons _ _ => rfl
    have hpre := prefix_of_rev_suffix P acc hsuf
    rcases hm with hm | hm | ⟨n, cnt, hm⟩
    · subst hm
      simp only [step, stepKey, hne, Bool.false_eq_true, if_false]
      split
      · left; exact ⟨rfl, acc, hsuf, Or.inr (Or.inl rfl)⟩
      · split
        · -- the key ends here: from now on the key is acc.reverse
          right; left
          refine ⟨acc.reverse, hpre, ?_⟩
          simp only [stepBv1, stepVal]
          (repeat' split) <;>
            first
              | (left; refine ⟨rfl, ?_⟩; simp; done)
              | (right; left; exact ⟨[], _, rfl⟩)
              | (right; right; rfl)
        · left; exact ⟨rfl, c :: acc, suffix_cons _ _ _ hsuf, Or.inl rfl⟩
    · subst hm
      simp only [step]
      split
      · left; exact ⟨rfl, acc, hsuf, Or.inr (Or.inr ⟨0, 0, rfl⟩)⟩
      · left; exact ⟨rfl, _ :: acc, suffix_cons _ _ _ hsuf, Or.inl rfl⟩
    · subst hm
      simp only [step]
      split
      · right; right; rfl
      · split
        · left; exact ⟨rfl, _ :: acc, suffix_cons _ _ _ hsuf, Or.inl rfl⟩
        · left; exact ⟨rfl, acc, hsuf, Or.inr (Or.inr ⟨_, _, rfl⟩)⟩
  · right; left; exact ⟨K, hK, holdsKey_step K out0 s c hh⟩
  · right; right
    obtain ⟨mode, out⟩ := s
    simp only at he; subst he; rfl

theorem holdsPrefix_run (P : Str) (out0 : KV) (s : LexSt) (input : Str) (hP : P ≠ [])
    (h : holdsPrefix P out0 s) : holdsPrefix P out0 (lexRun s input) := by
  induction input generalizing s with
  | nil => exact h
  | cons c r ih => rw [lexRun_cons]; exact ih _ (holdsPrefix_step P out0 s c hP h)

theorem holdsPrefix_finish (P : Str) (s : LexSt) (l : KV) (h : holdsPrefix P [] s) (hf : finish s = some l) :
    ∃ K v tl, l = (K, v) :: tl ∧ P <+: K := by
  rcases h with ⟨ho, acc, hsuf, hm⟩ | ⟨K, hK, hh⟩ | he
  · obtain ⟨mode, out⟩ := s
    simp only at ho hm; subst ho
    rcases hm with hm | hm | ⟨n, cnt, hm⟩ <;> subst hm <;> simp [finish] at hf
    subst hf
    exact ⟨acc.reverse, [], [], rfl, prefix_of_rev_suffix P acc hsuf⟩
  · obtain ⟨v, tl, e⟩ := holdsKey_finish K s l hh hf
    exact ⟨K, v, tl, e, hK⟩
  · obtain ⟨mode, out⟩ := s
    simp only at he; subst he; simp [finish] at hf

/-- the text starts with a plain prefix `a`, a backslash and a character `c` that is neither a
    backslash nor 'u': the first item read back has a key that starts with `a ++ [unescape c]` -/
theorem key_after_backslash (a rest : Str) (c : Char) (l : KV) (ha : WFkey a)
    (hc2 : c ≠ 'u') (h : lexPairs (a ++ '\\' :: c :: rest) = some l) :
    ∃ K v tl, l = (K, v) :: tl ∧ (a ++ [unescape c]) <+: K := by
  obtain ⟨hw, hp⟩ := ha
  cases a with
  | nil => simp [isWordStart] at hw
  | cons x r =>
    simp only [isWordStart] at hw
    obtain ⟨h1, h2, h3⟩ := isWordChar_facts x hw
    have hx := hp x (by simp)
    simp only [plainKeyChar, Bool.and_eq_true, Bool.not_eq_true', bne_iff_ne, ne_eq] at hx
    have s1 : step ⟨.bk, []⟩ x = ⟨.key [x], []⟩ := by
      simp [step, h1, h2, h3, stepKey, hx.1, hx.2]
    have hcu : (c == 'u') = false := by simp [hc2]
    have hstate : holdsPrefix ((x :: r) ++ [unescape c]) [] (lexRun ⟨.bk, []⟩ ((x :: r) ++ ['\\', c])) := by
      show holdsPrefix _ [] (lexRun ⟨.bk, []⟩ (x :: (r ++ ['\\', c])))
      rw [lexRun_cons, s1, lexRun_append,
        lexRun_key_plain r [x] [] (fun y hy => hp y (List.mem_cons_of_mem _ hy))]
      simp only [lexRun, List.foldl, step, stepKey, beq_self_eq_true, if_true, hcu, Bool.false_eq_true, if_false]
      left
      refine ⟨rfl, unescape c :: (r.reverse ++ [x]), ?_, Or.inl rfl⟩
      exact ⟨[], by simp⟩
    have e2 : (x :: r) ++ '\\' :: c :: rest = ((x :: r) ++ ['\\', c]) ++ rest := by simp
    simp only [lexPairs, e2] at h
    rw [lexRun_append] at h
    exact holdsPrefix_finish _ _ l (holdsPrefix_run _ _ _ rest (by simp) hstate) h

theorem unescape_ne_backslash (c : Char) (h : c ≠ '\\') : unescape c ≠ '\\' := by
  unfold unescape
  split
  · decide
  · split
    · decide
    · split
      · decide
      · split
        · decide
        · exact h

/-- such a key is not preserved by a write-back -/
theorem key_backslash_not_preserved (a b v : Str) (c : Char) (ha : WFkey a)
    (hc1 : c ≠ '\\') (hc2 : c ≠ 'u')
    (hnext : (b ++ '=' :: escValue v ++ ['\n']).head? = some c) :
    lexPairs (renderKV (a ++ '\\' :: b) v ++ ['\n']) ≠ some [(a ++ '\\' :: b, v)] := by
  intro h
  obtain ⟨rest, hr⟩ : ∃ rest, b ++ '=' :: escValue v ++ ['\n'] = c :: rest := by
    cases hb : b ++ '=' :: escValue v ++ ['\n'] with
    | nil => simp at hb
    | cons d t => rw [hb] at hnext; simp at hnext; subst hnext; exact ⟨t, rfl⟩
  have hline : renderKV (a ++ '\\' :: b) v ++ ['\n'] = a ++ '\\' :: c :: rest := by
    simp only [renderKV, List.append_assoc, List.cons_append]
    have : b ++ ('=' :: (escValue v ++ ['\n'])) = c :: rest := by simpa using hr
    rw [this]
  rw [hline] at h
  obtain ⟨K, v', tl, e, hpre⟩ := key_after_backslash a rest c _ ha hc2 h
  have hk : K = a ++ '\\' :: b := (Prod.mk.inj (List.cons.inj e).1).1.symm
  rw [hk] at hpre
  obtain ⟨t, ht⟩ := hpre
  have : (a ++ [unescape c]) ++ t = a ++ ('\\' :: b) := ht
  rw [List.append_assoc] at this
  have h2 := List.append_cancel_left this
  simp only [List.cons_append, List.nil_append] at h2
  exact unescape_ne_backslash c hc1 (List.cons.inj h2).1

end Conf
