/-
  Golib.Conf.FSDurLemmas — power-loss analysis of the call sequences.
-/
import Golib.Conf.FSDur

namespace Conf

/-- temp file + fsync + rename: whatever survives a power loss at any point, the configuration
    path holds the complete old or the complete new content -/
theorem atomicSeq_durable (old new : Str) :
    ∀ s ∈ dstates new atomicSeq (DFS.init old), ∀ c ∈ outcomes s, c = old ∨ c = new := by
  intro s hs
  simp only [atomicSeq, dstates, dexec, DFS.init, DFS.resolve, DFS.setIno, DFS.ino, List.mem_cons,
    List.mem_append, List.mem_map, List.not_mem_nil, or_false, List.nil_append] at hs
  rcases hs with h | h | h | ⟨p, _, h⟩ | h | h | h | h
  all_goals (subst h; intro c hc; simp [outcomes, inodeOutcomes, DFS.ino] at hc)
  all_goals (first | (left; exact hc) | (rcases hc with hc | hc <;> simp [hc]) | skip)

/-- … and once the whole sequence has run, the path names the new inode for every process, and
    what a power loss can leave is still only old (rename not yet on disk) or new -/
theorem atomicSeq_final_durable (old new : Str) :
    let s := atomicSeq.foldl (dexec new) (DFS.init old)
    (s.ino s.dirVol).vol = new ∧ ∀ c ∈ outcomes s, c = old ∨ c = new := by
  simp [atomicSeq, dexec, DFS.init, DFS.resolve, DFS.setIno, DFS.ino, outcomes, inodeOutcomes]

/-- without the fsync before the rename the directory entry may reach the disk before the data:
    after a power loss the configuration file can be empty -/
theorem noSyncSeq_can_lose (old new : Str) (hn : new ≠ []) :
    ∃ s ∈ dstates new noSyncSeq (DFS.init old), ([] : Str) ∈ outcomes s := by
  refine ⟨noSyncSeq.foldl (dexec new) (DFS.init old), ?_, ?_⟩
  · simp [noSyncSeq, dstates, dexec, DFS.init, DFS.resolve, DFS.setIno, DFS.ino]
  · have : ¬ ([] : Str) = new := fun e => hn e.symm
    simp [noSyncSeq, dexec, DFS.init, DFS.resolve, DFS.setIno, DFS.ino, outcomes, inodeOutcomes, this, prefixes_nil_mem]

/-- truncate-then-write under power loss: the empty file is a possible outcome as well -/
theorem truncSeq_can_lose (old new : Str) :
    ∃ s ∈ dstates new truncSeq (DFS.init old), ([] : Str) ∈ outcomes s := by
  refine ⟨dexec new (DFS.init old) (.openTrunc .target), ?_, ?_⟩
  · simp [truncSeq, dstates, dexec, DFS.init, DFS.resolve, DFS.setIno, DFS.ino, prefixes_nil_mem]
  · simp only [dexec, DFS.init, DFS.resolve, DFS.setIno, DFS.ino, outcomes, inodeOutcomes]
    by_cases h : old = []
    · simp [h]
    · simp [h, prefixes]

end Conf
