/-
  Golib.Conf.KeyIff — which keys survive DefaultFileParser.Write.  Keys are written as they are
  (no escaping) and only when they start with `[0-9A-Za-z_]`.  For a key without a backslash the
  rendered line is read back under the same key iff no character of the key ends a key (blank,
  tab, form feed, line end, ':' or '='); otherwise the lexer stops at the first such character and
  the item comes back under the strictly shorter prefix.
-/
import Golib.Conf.ValueIff

namespace Conf

def holdsKey (a : Str) (out0 : KV) (s : LexSt) : Prop :=
  (s.out = out0 ∧ (s.mode = .bv1 a ∨ s.mode = .bv2 a ∨ (∃ acc, s.mode = .val a acc) ∨
      (∃ acc, s.mode = .valEsc a acc) ∨ (∃ acc, s.mode = .valCont a acc) ∨ (∃ acc n c, s.mode = .valU a acc n c))) ∨
  (∃ extra v, s.out = extra ++ (a, v) :: out0) ∨
  s.mode = .err

theorem holdsKey_step (a : Str) (out0 : KV) (s : LexSt) (c : Char) (h : holdsKey a out0 s) :
    holdsKey a out0 (step s c) := by
  rcases h with ⟨ho, hm⟩ | ⟨extra, v, ho⟩ | he
  · obtain ⟨mode, out⟩ := s
    simp only at ho hm
    subst ho
    rcases hm with hm | hm | ⟨acc, hm⟩ | ⟨acc, hm⟩ | ⟨acc, hm⟩ | ⟨acc, n, cnt, hm⟩ <;> subst hm <;>
      simp only [step, stepBv1, stepVal] <;> (repeat' split) <;>
      first
        | (left; refine ⟨rfl, ?_⟩; simp; done)
        | (right; left; exact ⟨[], _, rfl⟩)
        | (right; right; rfl)
  · right; left
    rcases step_out s c with h | ⟨p, h⟩
    · exact ⟨extra, v, by rw [h, ho]⟩
    · exact ⟨p :: extra, v, by rw [h, ho]; rfl⟩
  · right; right
    obtain ⟨mode, out⟩ := s
    simp only at he; subst he; rfl

theorem holdsKey_run (a : Str) (out0 : KV) (s : LexSt) (input : Str) (h : holdsKey a out0 s) :
    holdsKey a out0 (lexRun s input) := by
  induction input generalizing s with
  | nil => exact h
  | cons c r ih => rw [lexRun_cons]; exact ih _ (holdsKey_step a out0 s c h)

theorem holdsKey_finish (a : Str) (s : LexSt) (l : KV) (h : holdsKey a [] s) (hf : finish s = some l) :
    ∃ v rest, l = (a, v) :: rest := by
  rcases h with ⟨ho, hm⟩ | ⟨extra, v, ho⟩ | he
  · obtain ⟨mode, out⟩ := s
    simp only at ho hm; subst ho
    rcases hm with hm | hm | ⟨acc, hm⟩ | ⟨acc, hm⟩ | ⟨acc, hm⟩ | ⟨acc, n, cnt, hm⟩ <;> subst hm <;>
      simp [finish] at hf <;> subst hf <;> exact ⟨_, _, rfl⟩
  · obtain ⟨pre, hp⟩ := finish_out s l hf
    rw [hp, ho]
    simp only [List.reverse_append, List.reverse_cons, List.reverse_nil, List.nil_append, List.cons_append]
    exact ⟨v, _, rfl⟩
  · obtain ⟨mode, out⟩ := s
    simp only at he; subst he; simp [finish] at hf

/-- a key cut short: if the text of a line starts with a plain prefix `a` followed by a character
    that ends a key, the first item read back has key `a` -/
theorem key_cut_short (a rest : Str) (e : Char) (l : KV) (ha : WFkey a) (he : isEndOfKey e = true)
    (h : lexPairs (a ++ e :: rest) = some l) : ∃ v tl, l = (a, v) :: tl := by
  have hebs : (e == '\\') = false := by
    cases hb : (e == '\\') with
    | false => rfl
    | true => have : e = '\\' := by simpa using hb
              subst this; revert he; decide
  obtain ⟨hw, hp⟩ := ha
  cases a with
  | nil => simp [isWordStart] at hw
  | cons c r =>
    simp only [isWordStart] at hw
    obtain ⟨h1, h2, h3⟩ := isWordChar_facts c hw
    have hc := hp c (by simp)
    simp only [plainKeyChar, Bool.and_eq_true, Bool.not_eq_true', bne_iff_ne, ne_eq] at hc
    have s1 : step ⟨.bk, []⟩ c = ⟨.key [c], []⟩ := by
      simp [step, h1, h2, h3, stepKey, hc.1, hc.2]
    have hstate : holdsKey (c :: r) [] (lexRun ⟨.bk, []⟩ ((c :: r) ++ [e])) := by
      rw [List.cons_append, lexRun_cons, s1, lexRun_append,
        lexRun_key_plain r [c] [] (fun x hx => hp x (List.mem_cons_of_mem _ hx)), lexRun_cons, lexRun_nil]
      have hne : (r.reverse ++ [c]).isEmpty = false := by simp
      have hrev : (r.reverse ++ [c]).reverse = c :: r := by simp
      simp only [step, stepKey, hebs, he, hne, hrev, Bool.false_eq_true, if_false, if_true, stepBv1, stepVal]
      (repeat' split) <;>
        first
          | (left; refine ⟨rfl, ?_⟩; simp; done)
          | (right; left; exact ⟨[], _, rfl⟩)
          | (right; right; rfl)
    have e2 : (c :: r) ++ e :: rest = ((c :: r) ++ [e]) ++ rest := by simp
    simp only [lexPairs, e2] at h
    rw [lexRun_append] at h
    exact holdsKey_finish (c :: r) _ l (holdsKey_run _ _ _ rest hstate) h

theorem split_first_nonplain (k : Str) (h : ∃ c ∈ k, plainKeyChar c = false) :
    ∃ a e b, k = a ++ e :: b ∧ (∀ c ∈ a, plainKeyChar c = true) ∧ plainKeyChar e = false := by
  induction k with
  | nil => obtain ⟨c, hc, _⟩ := h; cases hc
  | cons x t ih =>
    by_cases hx : plainKeyChar x = true
    · obtain ⟨c, hc, hce⟩ := h
      rcases List.mem_cons.mp hc with e | e
      · subst e; rw [hx] at hce; cases hce
      · obtain ⟨a, e', b, ev, ha, he'⟩ := ih ⟨c, e, hce⟩
        refine ⟨x :: a, e', b, by rw [ev]; rfl, ?_, he'⟩
        intro y hy
        rcases List.mem_cons.mp hy with h1 | h1
        · rw [h1]; exact hx
        · exact ha y h1
    · exact ⟨[], x, t, rfl, (by intro c hc; cases hc), by simpa using hx⟩

/-- **Which keys survive a write-back** (keys without a backslash): a key that starts with a word
    character is read back from its rendered line iff none of its characters ends a key. -/
theorem key_preserved_iff (k v : Str) (hw : isWordStart k = true) (hbs : ∀ c ∈ k, c ≠ '\\') (hv : WFval v) :
    lexPairs (renderKV k v ++ ['\n']) = some [(k, v)] ↔ ∀ c ∈ k, plainKeyChar c = true := by
  constructor
  · intro h
    by_cases hall : ∀ c ∈ k, plainKeyChar c = true
    · exact hall
    · exfalso
      have hex : ∃ c ∈ k, plainKeyChar c = false := by
        apply Classical.byContradiction
        intro hne
        apply hall
        intro c hc
        cases hp : plainKeyChar c with
        | true => rfl
        | false => exact absurd ⟨c, hc, hp⟩ hne
      obtain ⟨a, e, b, ek, ha, he⟩ := split_first_nonplain k hex
      have hee : isEndOfKey e = true := by
        have hne : e ≠ '\\' := hbs e (by rw [ek]; simp)
        simp only [plainKeyChar, Bool.and_eq_false_iff, Bool.not_eq_false', bne_eq_false_iff_eq] at he
        rcases he with he | he
        · exact he
        · exact absurd he hne
      have hane : isWordStart a = true := by
        cases a with
        | nil =>
          exfalso
          simp only [List.nil_append] at ek
          subst ek
          simp only [isWordStart] at hw
          have := (isWordChar_facts e hw)
          simp only [isEndOfKey, Bool.or_eq_true] at hee
          rcases hee with ((h1 | h1) | h1) | h1
          · rw [this.2.1] at h1; cases h1
          · rw [this.1] at h1; cases h1
          · have : e = ':' := by simpa using h1
            subst this; revert hw; decide
          · have : e = '=' := by simpa using h1
            subst this; revert hw; decide
        | cons x t => rw [ek] at hw; exact hw
      have hline : renderKV k v ++ ['\n'] = a ++ e :: (b ++ '=' :: escValue v ++ ['\n']) := by
        simp [renderKV, ek]
      rw [hline] at h
      obtain ⟨v', tl, hl⟩ := key_cut_short a _ e _ ⟨hane, ha⟩ hee h
      have : a = k := by
        have := (List.cons.inj hl).1
        exact (Prod.mk.inj this).1.symm
      have hlen : a.length = k.length := by rw [this]
      rw [ek] at hlen; simp at hlen
  · intro hall
    have := lexRun_renderKV k v [] ⟨hw, hall⟩ hv
    simp [lexPairs, this, finish]

end Conf
