/-
  Golib.Conf.SpacedLines — the usual hand-written shape `key = value` (blanks around '=') is a
  well-formed key=value line of the write-back theorem.
-/
import Golib.Conf.WriteLemmas

namespace Conf

def blanks (n : Nat) : Str := List.replicate n ' '

theorem lexRun_bv1_blanks (k : Str) (out : KV) (n : Nat) (rest : Str) :
    lexRun ⟨.bv1 k, out⟩ (blanks n ++ rest) = lexRun ⟨.bv1 k, out⟩ rest := by
  induction n with
  | zero => rfl
  | succ m ih =>
    have : blanks (m + 1) = ' ' :: blanks m := rfl
    rw [this, List.cons_append, lexRun_cons]
    have s : step ⟨.bv1 k, out⟩ ' ' = ⟨.bv1 k, out⟩ := by
      have e : isWs ' ' = true := by decide
      simp [step, stepBv1, e]
    rw [s, ih]

theorem lexRun_bv2_blanks (k : Str) (out : KV) (n : Nat) (rest : Str) :
    lexRun ⟨.bv2 k, out⟩ (blanks n ++ rest) = lexRun ⟨.bv2 k, out⟩ rest := by
  induction n with
  | zero => rfl
  | succ m ih =>
    have : blanks (m + 1) = ' ' :: blanks m := rfl
    rw [this, List.cons_append, lexRun_cons]
    have s : step ⟨.bv2 k, out⟩ ' ' = ⟨.bv2 k, out⟩ := by
      have e : isWs ' ' = true := by decide
      simp [step, e]
    rw [s, ih]

theorem lexRun_key_blanks_eq (k rest : Str) (out : KV) (a : Nat) (hk : WFkey k) :
    lexRun ⟨.bk, out⟩ (k ++ blanks a ++ '=' :: rest) = lexRun ⟨.bv2 k, out⟩ rest := by
  cases a with
  | zero => simpa [blanks] using lexRun_key_eq k rest out hk
  | succ n =>
    obtain ⟨hw, hp⟩ := hk
    cases k with
    | nil => simp [isWordStart] at hw
    | cons c r =>
      simp only [isWordStart] at hw
      obtain ⟨h1, h2, h3⟩ := isWordChar_facts c hw
      have hc := hp c (by simp)
      simp only [plainKeyChar, Bool.and_eq_true, Bool.not_eq_true', bne_iff_ne, ne_eq] at hc
      have e0 : (c :: r) ++ blanks (n + 1) ++ '=' :: rest = c :: (r ++ (' ' :: (blanks n ++ '=' :: rest))) := by
        simp [blanks, List.replicate_succ]
      rw [e0, lexRun_cons]
      have s1 : step ⟨.bk, out⟩ c = ⟨.key [c], out⟩ := by
        simp [step, h1, h2, h3, stepKey, hc.1, hc.2]
      rw [s1, lexRun_append, lexRun_key_plain r [c] out (fun x hx => hp x (List.mem_cons_of_mem _ hx))]
      rw [lexRun_cons]
      have s2 : step ⟨.key (r.reverse ++ [c]), out⟩ ' ' = ⟨.bv1 (c :: r), out⟩ := by
        have e1 : isEndOfKey ' ' = true := by decide
        have e2 : isWs ' ' = true := by decide
        simp [step, stepKey, e1, stepBv1, e2]
      rw [s2, lexRun_bv1_blanks, lexRun_cons]
      have s3 : step ⟨.bv1 (c :: r), out⟩ '=' = ⟨.bv2 (c :: r), out⟩ := by
        have e2 : isWs '=' = false := by decide
        simp [step, stepBv1, e2]
      rw [s3]

theorem lexRun_bv2_value (k v : Str) (out : KV) (hv : WFval v) :
    lexRun ⟨.bv2 k, out⟩ (escValue v ++ ['\n']) = ⟨.bk, (k, v) :: out⟩ := by
  obtain ⟨_, heol, hadj, hhead⟩ := hv
  simp only [escValue, collapseBs_id v hadj]
  cases v with
  | nil => simp [headNotWs] at hhead
  | cons c r =>
    simp only [headNotWs, Bool.not_eq_true'] at hhead
    obtain ⟨t, ht⟩ := doubleBs_head c r
    have e : lexRun ⟨.bv2 k, out⟩ (doubleBs (c :: r) ++ ['\n']) = lexRun ⟨.val k [], out⟩ (doubleBs (c :: r) ++ ['\n']) := by
      rw [ht]; simp only [List.cons_append, lexRun_cons, step_bv2_notWs k out c hhead]
    rw [e, lexRun_append, lexRun_val_doubleBs (c :: r) k [] out heol, lexRun_cons, lexRun_nil]
    have : isEOL '\n' = true := by decide
    simp [step, stepVal, this]

theorem dropWhile_blanks (n : Nat) (t : Str) :
    (blanks n ++ t).dropWhile (· == ' ') = t.dropWhile (· == ' ') := by
  induction n with
  | zero => rfl
  | succ m ih =>
    have : blanks (m + 1) = ' ' :: blanks m := rfl
    rw [this, List.cons_append, List.dropWhile_cons]
    simp [ih]

theorem trimBlank_key_blanks (k : Str) (a : Nat) (h : ∀ c ∈ k, c ≠ ' ') (hne : k ≠ []) :
    trimBlank (k ++ blanks a) = k := by
  unfold trimBlank trimBy trimRightBy trimLeftBy
  have hl : (k ++ blanks a).dropWhile (· == ' ') = k ++ blanks a := by
    cases k with
    | nil => exact absurd rfl hne
    | cons c r =>
      have := h c (by simp)
      simp [this]
  rw [hl, List.reverse_append]
  have hb : (blanks a).reverse = blanks a := by simp [blanks]
  rw [hb, dropWhile_blanks]
  have : k.reverse.dropWhile (· == ' ') = k.reverse := by
    cases hr : k.reverse with
    | nil => rfl
    | cons c r =>
      have hc : c ∈ k := by
        have : c ∈ k.reverse := by rw [hr]; simp
        exact List.mem_reverse.mp this
      have hcc : (c == ' ') = false := by simp [h c hc]
      simp [List.dropWhile, hcc]
  rw [this, List.reverse_reverse]

/-- `key<blanks>=<blanks>value` with a key that needs no escape and a value in its canonical raw
    form is a well-formed key=value line -/
theorem spaced_kvline (k v : Str) (a b : Nat) (hk : WFkey k) (hv : WFval v) :
    KVLine (k ++ blanks a ++ '=' :: (blanks b ++ escValue v)) k v := by
  have hkc : ∀ c ∈ k, c ≠ '\n' ∧ c ≠ '\r' ∧ c ≠ '=' ∧ c ≠ ' ' := fun c hc => plainKeyChar_facts c (hk.2 c hc)
  have hblk : ∀ n, ∀ c ∈ blanks n, c = ' ' := by
    intro n c hc; simp [blanks] at hc; exact hc.2
  have hkne : k ≠ [] := by
    intro e; subst e; simp [WFkey, isWordStart] at hk
  have hv' := hv
  obtain ⟨hblank, heol, hadj, hhead⟩ := hv
  have hesc : escValue v = doubleBs v := by simp [escValue, collapseBs_id v hadj]
  refine ⟨?_, ?_, ?_, ?_, hk, Or.inr hv', ?_⟩
  · intro c hc
    simp only [List.mem_append, List.mem_cons, hesc] at hc
    rcases hc with (hc | hc) | hc | hc | hc
    · exact ⟨(hkc c hc).1, (hkc c hc).2.1⟩
    · rw [hblk a c hc]; decide
    · subst hc; decide
    · rw [hblk b c hc]; decide
    · have := heol c (mem_doubleBs v c hc)
      simp only [isEOL, Bool.or_eq_false_iff, beq_eq_false_iff_ne, ne_eq] at this
      exact this
  · simp
  · cases k with
    | nil => exact absurd rfl hkne
    | cons c r =>
      have hw : isWordChar c = true := by simpa [isWordStart] using hk.1
      obtain ⟨_, h2, h3⟩ := isWordChar_facts c hw
      simp [isCommentLine, h2, h3]
  · have hb : beforeEq (k ++ blanks a ++ '=' :: (blanks b ++ escValue v)) = k ++ blanks a := by
      unfold beforeEq
      apply takeWhile_append_stop
      · intro y hy
        rcases List.mem_append.mp hy with h1 | h1
        · simp [(hkc y h1).2.2.1]
        · rw [hblk a y h1]; decide
      · simp
    rw [hb]
    exact trimBlank_key_blanks k a (fun c hc => (hkc c hc).2.2.2) hkne
  · intro out
    have e : k ++ blanks a ++ '=' :: (blanks b ++ escValue v) ++ ['\n'] =
        k ++ blanks a ++ '=' :: (blanks b ++ (escValue v ++ ['\n'])) := by simp
    rw [e, lexRun_key_blanks_eq k _ out a hk, lexRun_bv2_blanks]
    exact lexRun_bv2_value k v out hv'

end Conf
