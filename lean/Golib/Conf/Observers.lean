/-
  Golib.Conf.Observers — config.ConfigObserver: a registry class-name → target; `Add` replaces
  the target registered under the same name; `Run` (called by reload after each load) calls every
  target registered *at that moment*.  FileConfig holds the caller's registry itself (not a
  copy), so targets added after the configuration was created are notified as well.
-/
import Golib.Conf.Str

namespace Conf

structure Obs where
  reg : List (Str × Nat)        -- class name → target id
  counts : List (Nat × Nat)     -- target id → how often ApplyConfig was called on it
  deriving Repr, DecidableEq

def Obs.empty : Obs := { reg := [], counts := [] }

def regPut : List (Str × Nat) → Str → Nat → List (Str × Nat)
  | [], n, i => [(n, i)]
  | (n', i') :: r, n, i => if n' = n then (n', i) :: r else (n', i') :: regPut r n i

def Obs.registered (o : Obs) (id : Nat) : Bool := o.reg.any (fun p => p.2 == id)

def Obs.count (o : Obs) (id : Nat) : Nat :=
  match o.counts.find? (fun p => p.1 == id) with
  | some p => p.2
  | none => 0

/-- `observer.Add(name, target id)` -/
def Obs.add (o : Obs) (name : Str) (id : Nat) : Obs :=
  { reg := regPut o.reg name id,
    counts := if o.counts.any (fun p => p.1 == id) then o.counts else o.counts ++ [(id, 0)] }

def bump (f : Nat → Bool) (p : Nat × Nat) : Nat × Nat := (p.1, if f p.1 then p.2 + 1 else p.2)

/-- `observer.Run(conf)` -/
def Obs.run (o : Obs) : Obs := { o with counts := o.counts.map (bump o.registered) }

theorem find_map_bump (cs : List (Nat × Nat)) (f : Nat → Bool) (id : Nat) :
    ((cs.map (bump f)).find? (fun p => p.1 == id)) = (cs.find? (fun p => p.1 == id)).map (bump f) := by
  induction cs with
  | nil => rfl
  | cons p r ih =>
    simp only [List.map_cons, List.find?_cons]
    have e : (bump f p).1 = p.1 := rfl
    rw [e]
    cases h : (p.1 == id) with
    | true => rfl
    | false => exact ih

/-- after a notification round every known target registered at that moment was called exactly
    once more, every other target not at all -/
theorem Obs.run_count (o : Obs) (id : Nat) :
    (o.run).count id = if o.registered id && o.counts.any (fun p => p.1 == id) then o.count id + 1 else o.count id := by
  unfold Obs.count Obs.run
  simp only [find_map_bump]
  cases hfind : o.counts.find? (fun p => p.1 == id) with
  | none =>
    have hn : o.counts.any (fun p => p.1 == id) = false := by
      cases ha : o.counts.any (fun p => p.1 == id) with
      | false => rfl
      | true =>
        simp only [List.any_eq_true] at ha
        obtain ⟨p, hp, e⟩ := ha
        have := List.find?_eq_none.mp hfind p hp
        exact absurd e this
    simp [hn]
  | some p =>
    have hpid : p.1 = id := by
      have := List.find?_some hfind
      simpa using this
    have ha : o.counts.any (fun p => p.1 == id) = true := by
      simp only [List.any_eq_true]
      exact ⟨p, List.mem_of_find?_eq_some hfind, by simp [hpid]⟩
    simp only [Option.map_some, bump, hpid, ha, Bool.and_true]

end Conf
