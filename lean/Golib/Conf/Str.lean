/-
  Golib.Conf.Str — strings of the configuration model.

  A Go string is modelled as the list of its code points (`List Char`); the harness only
  feeds valid UTF-8, so code points and bytes determine each other (`utf8Len` is the one
  place where the byte length matters: the file size used by the reload decision).
-/

abbrev Str := List Char

namespace Conf

/-- `unicode.IsSpace` of Go (White_Space property, Latin-1 + the BMP spaces) -/
def isGoSpace (c : Char) : Bool :=
  let n := c.toNat
  n == 9 || n == 10 || n == 11 || n == 12 || n == 13 || n == 32 || n == 0x85 || n == 0xA0 ||
  n == 0x1680 || (0x2000 ≤ n && n ≤ 0x200A) || n == 0x2028 || n == 0x2029 || n == 0x202F ||
  n == 0x205F || n == 0x3000

def trimLeftBy (p : Char → Bool) (s : Str) : Str := s.dropWhile p
def trimRightBy (p : Char → Bool) (s : Str) : Str := (s.reverse.dropWhile p).reverse
def trimBy (p : Char → Bool) (s : Str) : Str := trimRightBy p (trimLeftBy p s)

/-- `strings.TrimSpace` -/
def trimSpace (s : Str) : Str := trimBy isGoSpace s

/-- `strings.Trim(s, " ")` -/
def trimBlank (s : Str) : Str := trimBy (· == ' ') s

def hasPrefix : Str → Str → Bool
  | _, [] => true
  | [], _ :: _ => false
  | a :: s, b :: p => a == b && hasPrefix s p

def hasSuffix (s p : Str) : Bool := hasPrefix s.reverse p.reverse

/-- number of bytes of the UTF-8 encoding of a code point -/
def utf8Width (c : Char) : Nat :=
  let n := c.toNat
  if n < 0x80 then 1 else if n < 0x800 then 2 else if n < 0x10000 then 3 else 4

def utf8Len (s : Str) : Nat := s.foldl (fun a c => a + utf8Width c) 0

/-- association list with first-match lookup; `put` replaces in place or appends -/
abbrev KV := List (Str × Str)

def lookup (m : KV) (k : Str) : Option Str :=
  match m with
  | [] => none
  | (k', v) :: r => if k' = k then some v else lookup r k

def put (m : KV) (k v : Str) : KV :=
  match m with
  | [] => [(k, v)]
  | (k', v') :: r => if k' = k then (k', v) :: r else (k', v') :: put r k v

def hasKey (m : KV) (k : Str) : Bool := (lookup m k).isSome

theorem lookup_put_same (m : KV) (k v : Str) : lookup (put m k v) k = some v := by
  induction m with
  | nil => simp [put, lookup]
  | cons p r ih =>
    obtain ⟨k', v'⟩ := p
    by_cases h : k' = k
    · simp [put, lookup, h]
    · simp [put, lookup, h, ih]

theorem lookup_put_other (m : KV) (k v k2 : Str) (h : k2 ≠ k) :
    lookup (put m k v) k2 = lookup m k2 := by
  induction m with
  | nil =>
    have : ¬ k = k2 := fun e => h e.symm
    simp [put, lookup, this]
  | cons p r ih =>
    obtain ⟨k', v'⟩ := p
    by_cases h1 : k' = k
    · subst h1
      have : ¬ k' = k2 := fun e => h e.symm
      simp [put, lookup, this]
    · by_cases h2 : k' = k2
      · subst h2
        simp [put, lookup, h]
      · simp [put, lookup, h1, h2, ih]

end Conf
