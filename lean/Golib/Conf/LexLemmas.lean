/-
  Golib.Conf.LexLemmas — what the lexer model does on a line `key=escaped value` as
  DefaultFileParser.Write renders it.
-/
import Golib.Conf.Write

namespace Conf

/-- characters a key may contain without an escape -/
def plainKeyChar (c : Char) : Bool := !(isEndOfKey c) && c != '\\'

/-- keys the writer can express: first character `[0-9A-Za-z_]`, no blank, ':', '=', backslash, line break -/
def WFkey (k : Str) : Prop := isWordStart k = true ∧ ∀ c ∈ k, plainKeyChar c = true

def NoAdjBs : Str → Prop
  | '\\' :: '\\' :: _ => False
  | _ :: r => NoAdjBs r
  | [] => True

def headNotWs : Str → Bool
  | c :: _ => !isWs c
  | [] => false

/-- values that survive `key=` + escValue + lexer: not blank, no line break, no two adjacent
    backslashes, no leading blank (values containing "${" are outside the model altogether) -/
def WFval (v : Str) : Prop :=
  isBlankVal v = false ∧ (∀ c ∈ v, isEOL c = false) ∧ NoAdjBs v ∧ headNotWs v = true

theorem lexRun_nil (s : LexSt) : lexRun s [] = s := rfl
theorem lexRun_cons (s : LexSt) (c : Char) (r : Str) : lexRun s (c :: r) = lexRun (step s c) r := rfl

theorem lexRun_key_plain (cs acc : Str) (out : KV) (h : ∀ c ∈ cs, plainKeyChar c = true) :
    lexRun ⟨.key acc, out⟩ cs = ⟨.key (cs.reverse ++ acc), out⟩ := by
  induction cs generalizing acc with
  | nil => rfl
  | cons c r ih =>
    have hc := h c (by simp)
    simp only [plainKeyChar, Bool.and_eq_true, Bool.not_eq_true', bne_iff_ne, ne_eq] at hc
    rw [lexRun_cons]
    have : step ⟨.key acc, out⟩ c = ⟨.key (c :: acc), out⟩ := by
      simp [step, stepKey, hc.1, hc.2]
    rw [this, ih _ (fun x hx => h x (List.mem_cons_of_mem _ hx))]
    simp

theorem isWordChar_facts (c : Char) (h : isWordChar c = true) :
    isEOL c = false ∧ isWs c = false ∧ isCommentStart c = false := by
  simp only [isWordChar, Bool.or_eq_true, Bool.and_eq_true, decide_eq_true_eq, beq_iff_eq] at h
  have e : ∀ d : Char, c = d → c.toNat = d.toNat := fun d e => by rw [e]
  refine ⟨?_, ?_, ?_⟩
  · simp only [isEOL, Bool.or_eq_false_iff, beq_eq_false_iff_ne, ne_eq]
    constructor <;> intro hc <;> have := e _ hc <;> simp at this <;> omega
  · simp only [isWs, Bool.or_eq_false_iff, beq_eq_false_iff_ne, ne_eq]
    refine ⟨⟨?_, ?_⟩, ?_⟩ <;> intro hc <;> have := e _ hc <;> simp at this <;> omega
  · simp only [isCommentStart, Bool.or_eq_false_iff, beq_eq_false_iff_ne, ne_eq]
    constructor <;> intro hc <;> have := e _ hc <;> simp at this <;> omega

/-- from the start of a line, a well-formed key followed by '=' leaves the lexer right after the separator -/
theorem lexRun_key_eq (k rest : Str) (out : KV) (hk : WFkey k) :
    lexRun ⟨.bk, out⟩ (k ++ '=' :: rest) = lexRun ⟨.bv2 k, out⟩ rest := by
  obtain ⟨hw, hp⟩ := hk
  cases k with
  | nil => simp [isWordStart] at hw
  | cons c r =>
    simp only [isWordStart] at hw
    obtain ⟨h1, h2, h3⟩ := isWordChar_facts c hw
    have hc := hp c (by simp)
    simp only [plainKeyChar, Bool.and_eq_true, Bool.not_eq_true', bne_iff_ne, ne_eq] at hc
    simp only [List.cons_append, lexRun_cons]
    have s1 : step ⟨.bk, out⟩ c = ⟨.key [c], out⟩ := by
      simp [step, h1, h2, h3, stepKey, hc.1, hc.2]
    rw [s1, lexRun_append, lexRun_key_plain r [c] out (fun x hx => hp x (List.mem_cons_of_mem _ hx))]
    rw [lexRun_cons]
    have s2 : step ⟨.key (r.reverse ++ [c]), out⟩ '=' = ⟨.bv2 (c :: r), out⟩ := by
      have e1 : isEndOfKey '=' = true := by decide
      have e2 : isWs '=' = false := by decide
      simp [step, stepKey, e1, stepBv1, e2]
    rw [s2]

theorem lexRun_val_doubleBs (v k acc : Str) (out : KV) (h : ∀ c ∈ v, isEOL c = false) :
    lexRun ⟨.val k acc, out⟩ (doubleBs v) = ⟨.val k (v.reverse ++ acc), out⟩ := by
  induction v generalizing acc with
  | nil => rfl
  | cons c r ih =>
    have hc := h c (by simp)
    have hr : ∀ x ∈ r, isEOL x = false := fun x hx => h x (List.mem_cons_of_mem _ hx)
    by_cases hb : c = '\\'
    · subst hb
      simp only [doubleBs, beq_self_eq_true, if_true, lexRun_cons]
      have s1 : step ⟨.val k acc, out⟩ '\\' = ⟨.valEsc k acc, out⟩ := by simp [step, stepVal]
      have s2 : step ⟨.valEsc k acc, out⟩ '\\' = ⟨.val k ('\\' :: acc), out⟩ := by
        have e1 : isEOL '\\' = false := by decide
        have e2 : unescape '\\' = '\\' := by decide
        simp [step, e1, e2]
      rw [s1, s2, ih _ hr]; simp
    · have hb' : (c == '\\') = false := by simp [hb]
      simp only [doubleBs, hb', Bool.false_eq_true, if_false, lexRun_cons]
      have s1 : step ⟨.val k acc, out⟩ c = ⟨.val k (c :: acc), out⟩ := by simp [step, stepVal, hb', hc]
      rw [s1, ih _ hr]; simp

theorem step_bv2_notWs (k : Str) (out : KV) (c : Char) (h : isWs c = false) :
    step ⟨.bv2 k, out⟩ c = step ⟨.val k [], out⟩ c := by
  simp [step, h]

theorem doubleBs_head (c : Char) (r : Str) : ∃ t, doubleBs (c :: r) = c :: t := by
  by_cases hb : c = '\\'
  · subst hb; exact ⟨'\\' :: doubleBs r, by simp [doubleBs]⟩
  · exact ⟨doubleBs r, by simp [doubleBs, hb]⟩

theorem collapseBs_id (v : Str) (h : NoAdjBs v) : collapseBs v = v := by
  induction v using collapseBs.induct with
  | case1 r _ => simp [NoAdjBs] at h
  | case2 c r hne ih =>
    rw [collapseBs.eq_def]
    split
    · rename_i r' heq; cases heq; exact (hne r' rfl rfl).elim
    · rename_i c' r' _ heq
      cases heq
      congr 1
      apply ih
      cases r with
      | nil => trivial
      | cons d t =>
        unfold NoAdjBs at h
        split at h
        · exact h.elim
        · rename_i c2 r2 _ heq2; cases heq2; exact h
        · rename_i heq2; cases heq2
    · rename_i heq; cases heq
  | case3 => rfl

/-- a rendered line `key=esc(value)` lexes to exactly the pair (key, value) -/
theorem lexRun_renderKV (k v : Str) (out : KV) (hk : WFkey k) (hv : WFval v) :
    lexRun ⟨.bk, out⟩ (renderKV k v ++ ['\n']) = ⟨.bk, (k, v) :: out⟩ := by
  obtain ⟨_, heol, hadj, hhead⟩ := hv
  simp only [renderKV, escValue, collapseBs_id v hadj, List.append_assoc, List.cons_append]
  rw [lexRun_key_eq k _ out hk]
  cases v with
  | nil => simp [headNotWs] at hhead
  | cons c r =>
    simp only [headNotWs, Bool.not_eq_true'] at hhead
    obtain ⟨t, ht⟩ := doubleBs_head c r
    have e : lexRun ⟨.bv2 k, out⟩ (doubleBs (c :: r) ++ ['\n']) = lexRun ⟨.val k [], out⟩ (doubleBs (c :: r) ++ ['\n']) := by
      rw [ht]; simp only [List.cons_append, lexRun_cons, step_bv2_notWs k out c hhead]
    rw [e, lexRun_append, lexRun_val_doubleBs (c :: r) k [] out heol, lexRun_cons, lexRun_nil]
    have : isEOL '\n' = true := by decide
    simp [step, stepVal, this]

end Conf
