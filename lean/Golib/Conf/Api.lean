/-
  Golib.Conf.Api — the remaining exported methods of FileConfig: where the configuration file is
  (GetWhatapHome / GetConfFile), the two public stores into the map (ApplyDefault, ApplyConfig),
  the dump (String / ToString) and InArray.
-/
import Golib.Conf.Reload
import Golib.Conf.ReloadLemmas

namespace Conf

/-- `GetWhatapHome`: the WithHomePath option, else $WHATAP_HOME, else "." -/
def whatapHome (homeOpt envHome : Str) : Str :=
  if !homeOpt.isEmpty then homeOpt else if envHome.isEmpty then ['.'] else envHome

/-- `GetConfFile` before `filepath.Join`: (directory, file name).  $WHATAP_CONFIG_HOME overrides the
    home, $WHATAP_CONFIG the name "whatap.conf" -/
def confFileParts (homeOpt envHome envConfHome envConfName : Str) : Str × Str :=
  (if !envConfHome.isEmpty then envConfHome else whatapHome homeOpt envHome,
   if envConfName.isEmpty then "whatap.conf".toList else envConfName)

/-- `ApplyDefault`: every entry of the table is stored (empty values included) -/
def applyDefault (c : Cfg) : Cfg := { c with m := reload.applyMergeAll c.m defaults }

/-- `FileConfig.ApplyConfig(m)`: every entry of the caller's map is stored, empty values included
    (unlike `apply`, which skips them) -/
def applyConfig (c : Cfg) (kvs : KV) : Cfg := { c with m := reload.applyMergeAll c.m kvs }

/-- `String()`: one line `key=value` per entry, the value as stored (not trimmed); the order is Go's
    map order (the harness compares the lines as a multiset) -/
def showLines (m : KV) : List Str := m.map (fun kv => kv.1 ++ '=' :: kv.2)
def showCfg (m : KV) : Str := (showLines m).flatMap (· ++ ['\n'])

/-- `InArray(str, list)`: equal after `strings.TrimSpace` on both sides -/
def inArray (s : Str) (list : List Str) : Bool := list.any (fun it => trimSpace s == trimSpace it)

/-! ### lemmas -/

theorem lookup_mergeAll_skip (m kvs : KV) (k : Str) (h : ∀ p ∈ kvs, p.1 ≠ k) :
    lookup (reload.applyMergeAll m kvs) k = lookup m k := by
  induction kvs generalizing m with
  | nil => rfl
  | cons p r ih =>
    simp only [reload.applyMergeAll, List.foldl_cons]
    have := ih (put m p.1 p.2) (fun q hq => h q (List.mem_cons_of_mem _ hq))
    simp only [reload.applyMergeAll] at this
    rw [this, lookup_put_other m p.1 p.2 k (fun e => h p (by simp) e.symm)]

theorem lookup_mergeAll_mem (m kvs : KV) (k v : Str) (hn : KeysNodup kvs) (hm : (k, v) ∈ kvs) :
    lookup (reload.applyMergeAll m kvs) k = some v := by
  induction kvs generalizing m with
  | nil => cases hm
  | cons p r ih =>
    simp only [reload.applyMergeAll, List.foldl_cons]
    have hn2 : p.1 ∉ keysOf r ∧ (keysOf r).Nodup := by
      unfold KeysNodup keysOf at hn
      rw [List.map_cons] at hn
      exact List.nodup_cons.mp hn
    have hn' : KeysNodup r := hn2.2
    rcases List.mem_cons.mp hm with e | e
    · subst e
      have hnot : ∀ q ∈ r, q.1 ≠ k := by
        intro q hq e
        apply hn2.1
        show k ∈ keysOf r
        rw [← e]
        exact List.mem_map_of_mem hq
      have := lookup_mergeAll_skip (put m k v) r k hnot
      simp only [reload.applyMergeAll] at this
      rw [this, lookup_put_same]
    · have := ih (put m p.1 p.2) hn' e
      simpa only [reload.applyMergeAll] using this

theorem mem_showLines (m : KV) (k v : Str) (h : (k, v) ∈ m) : (k ++ '=' :: v) ∈ showLines m := by
  unfold showLines
  exact List.mem_map.mpr ⟨(k, v), h, rfl⟩

theorem inArray_iff (s : Str) (list : List Str) :
    inArray s list = true ↔ ∃ it ∈ list, trimSpace it = trimSpace s := by
  unfold inArray
  simp only [List.any_eq_true, beq_iff_eq]
  constructor
  · rintro ⟨it, h, e⟩; exact ⟨it, h, e.symm⟩
  · rintro ⟨it, h, e⟩; exact ⟨it, h, e.symm⟩

theorem keysNodup_defaults : KeysNodup defaults := by unfold KeysNodup; decide

end Conf
