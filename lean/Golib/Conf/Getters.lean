/-
  Golib.Conf.Getters — the typed getters of FileConfig as parse-or-default functions over
  the key→string map `m` and the process environment `env` (getValue falls back to
  os.Getenv when the key is absent from the map).
-/
import Golib.Conf.Num

namespace Conf

/-- `FileConfig.getValue` -/
def getValue (m env : KV) (k : Str) : Str :=
  match lookup m k with
  | some v => trimSpace v
  | none => (lookup env k).getD []

/-- `FileConfig.getValueDef` -/
def getValueDef (m env : KV) (k d : Str) : Str :=
  let v := getValue m env k
  if v.isEmpty then d else v

/-- generic shape of getBoolean / getInt / getLong / getFloat: empty → default,
    unparsable → default, else the parsed value -/
def getParsed {α : Type} (parse : Str → Option α) (m env : KV) (k : Str) (d : α) : α :=
  let v := getValue m env k
  if v.isEmpty then d else (parse v).getD d

def getBoolean (m env : KV) (k : Str) (d : Bool) : Bool := getParsed parseBool m env k d

/-- `GetInt(key, def int) int32`: the default is converted with `int32(def)` -/
def getInt (m env : KV) (k : Str) (d : Int) : Int := getParsed (parseInt 32) m env k (wrap32 d)

def getLong (m env : KV) (k : Str) (d : Int) : Int := getParsed (parseInt 64) m env k d

/-- `strings.FieldsFunc(src, c ∈ delim)` -/
def fieldsAux (delim : Str) : Str → Str → List Str → List Str
  | [], cur, acc => (if cur.isEmpty then acc else cur.reverse :: acc).reverse
  | c :: r, cur, acc =>
    if delim.contains c then fieldsAux delim r [] (if cur.isEmpty then acc else cur.reverse :: acc)
    else fieldsAux delim r (c :: cur) acc

/-- `stringutil.Tokenizer` -/
def tokenizer (src delim : Str) : List Str :=
  if src.isEmpty || delim.isEmpty then [src] else fieldsAux delim src [] []

/-- `getStringArray` -/
def getStringArray (m env : KV) (k d deli : Str) : List Str :=
  let v := getValueDef m env k d
  if v.isEmpty then [] else (tokenizer v deli).map trimSpace

/-- `GetIntSet` as the property wants it (and as the code is after fix-D38): the tokens
    that are integers, converted with `int32(…)` -/
def getIntSet (m env : KV) (k d deli : Str) : List Int :=
  (tokenizer (getValueDef m env k d) deli).filterMap
    (fun x => (parseInt 64 (trimSpace x)).map wrap32)

/-- `GetIntSet` of the unchanged code: `if xx, err := Atoi(…); err != nil { append(int32(xx)) }`.
    Atoi returns 0 on a syntax error and the clamped bound on a range error. -/
def atoiErrValue (s : Str) : Int :=
  let body := match s with | '-' :: r => r | '+' :: r => r | _ => s
  match parseUint body with
  | none => 0
  | some _ => match s with | '-' :: _ => -9223372036854775808 | _ => 9223372036854775807

def getIntSetD38 (m env : KV) (k d deli : Str) : List Int :=
  (tokenizer (getValueDef m env k d) deli).filterMap
    (fun x => match parseInt 64 (trimSpace x) with
      | some _ => none
      | none => some (wrap32 (atoiErrValue (trimSpace x))))

/-- `getFloat`: the decision structure with strconv.ParseFloat(·, 32) as a parameter -/
def getFloat {F : Type} (parseFloat : Str → Option F) (m env : KV) (k : Str) (d : F) : F :=
  getParsed parseFloat m env k d

/-- the tokens `GetStringHashSet` / `GetStringHashCodeSet` hash: every token of the value (or of the
    default), trimmed — empty tokens included (`Tokenizer("")` = `[""]`) -/
def hashTokens (m env : KV) (k d deli : Str) : List Str :=
  (tokenizer (getValueDef m env k d) deli).map trimSpace

/-- `GetStringHashSet` (hash = hash.HashStr) and `GetStringHashCodeSet` (hash = int32 ∘ stringutil.HashCode)
    with the hash function as a parameter -/
def getHashSet (hash : Str → Int) (m env : KV) (k d deli : Str) : List Int :=
  (hashTokens m env k d deli).map hash

end Conf
