/-
  Golib.Conf.ReloadLemmas — the reload decision, the merge and the notification.
-/
import Golib.Conf.Reload

namespace Conf

def keysOf (m : KV) : List Str := m.map (·.1)
def KeysNodup (m : KV) : Prop := (keysOf m).Nodup

theorem lookup_none_of_not_mem (m : KV) (k : Str) (h : k ∉ keysOf m) : lookup m k = none := by
  induction m with
  | nil => rfl
  | cons p r ih =>
    obtain ⟨k', v'⟩ := p
    simp only [keysOf, List.map_cons, List.mem_cons, not_or] at h
    have h1 : ¬ k' = k := fun e => h.1 e.symm
    simp [lookup, h1, ih h.2]

theorem lookup_of_mem (m : KV) (k v : Str) (hn : KeysNodup m) (h : (k, v) ∈ m) : lookup m k = some v := by
  induction m with
  | nil => cases h
  | cons p r ih =>
    obtain ⟨k', v'⟩ := p
    simp only [KeysNodup, keysOf, List.map_cons, List.nodup_cons] at hn
    rcases List.mem_cons.mp h with e | e
    · cases e; simp [lookup]
    · have : k' ≠ k := by
        intro e2; subst e2
        exact hn.1 (List.mem_map.mpr ⟨(k', v), e, rfl⟩)
      simp [lookup, this, ih hn.2 e]

theorem mem_of_lookup (m : KV) (k v : Str) (h : lookup m k = some v) : (k, v) ∈ m := by
  induction m with
  | nil => simp [lookup] at h
  | cons p r ih =>
    obtain ⟨k', v'⟩ := p
    simp only [lookup] at h
    split at h
    · rename_i e; subst e; simp at h; subst h; simp
    · exact List.mem_cons_of_mem _ (ih h)

theorem keysOf_put (m : KV) (k v : Str) :
    keysOf (put m k v) = if k ∈ keysOf m then keysOf m else keysOf m ++ [k] := by
  induction m with
  | nil => simp [put, keysOf]
  | cons p r ih =>
    obtain ⟨k', v'⟩ := p
    by_cases h : k' = k
    · subst h; simp [put, keysOf]
    · have h2 : ¬ k = k' := fun e => h e.symm
      simp only [keysOf] at ih
      simp only [put, h, keysOf, List.map_cons, if_false, List.mem_cons, h2, false_or, ih]
      split <;> simp_all

theorem keysNodup_put (m : KV) (k v : Str) (h : KeysNodup m) : KeysNodup (put m k v) := by
  unfold KeysNodup at *
  rw [keysOf_put]
  split
  · exact h
  · rename_i hk
    rw [List.nodup_append]
    refine ⟨h, by simp, ?_⟩
    intro a ha b hb
    simp at hb; subst hb
    intro e; subst e; exact hk ha

theorem keysNodup_foldl_put (pairs : KV) (m : KV) (h : KeysNodup m) :
    KeysNodup (pairs.foldl (fun m p => put m p.1 p.2) m) := by
  induction pairs generalizing m with
  | nil => exact h
  | cons p r ih => exact ih _ (keysNodup_put m p.1 p.2 h)

theorem keysNodup_buildProps (pairs : KV) : KeysNodup (buildProps pairs) :=
  keysNodup_foldl_put pairs [] (by simp [KeysNodup, keysOf])

theorem keysNodup_filter (m : KV) (p : Str × Str → Bool) (h : KeysNodup m) : KeysNodup (m.filter p) := by
  unfold KeysNodup keysOf at *
  exact List.Nodup.sublist (List.Sublist.map _ List.filter_sublist) h

theorem keysNodup_readMap (props : KV) (h : KeysNodup props) : KeysNodup (readMap props) :=
  keysNodup_filter _ _ h

/-- keys the parsed map does not assign keep their value -/
theorem lookup_applyMerge_skip (m kvs : KV) (k : Str) (h : ∀ p ∈ kvs, p.2.isEmpty = false → p.1 ≠ k) :
    lookup (applyMerge m kvs) k = lookup m k := by
  induction kvs generalizing m with
  | nil => rfl
  | cons p r ih =>
    simp only [applyMerge, List.foldl_cons]
    have hr : ∀ q ∈ r, q.2.isEmpty = false → q.1 ≠ k := fun q hq => h q (List.mem_cons_of_mem _ hq)
    have := ih (if p.2.isEmpty then m else put m p.1 p.2) hr
    simp only [applyMerge] at this
    rw [this]
    cases he : p.2.isEmpty with
    | true => simp
    | false =>
      simp only [Bool.false_eq_true, if_false]
      exact lookup_put_other m p.1 p.2 k (fun e => h p (by simp) he e.symm)

/-- every non-empty key=value of the parsed map is stored -/
theorem lookup_applyMerge_mem (m kvs : KV) (k v : Str) (hn : KeysNodup kvs) (hm : (k, v) ∈ kvs)
    (hv : v.isEmpty = false) : lookup (applyMerge m kvs) k = some v := by
  induction kvs generalizing m with
  | nil => cases hm
  | cons p r ih =>
    simp only [KeysNodup, keysOf, List.map_cons, List.nodup_cons] at hn
    simp only [applyMerge, List.foldl_cons]
    rcases List.mem_cons.mp hm with e | e
    · subst e
      simp only [hv, Bool.false_eq_true, if_false]
      have hskip : ∀ q ∈ r, q.2.isEmpty = false → q.1 ≠ k := by
        intro q hq _ e2
        exact hn.1 (List.mem_map.mpr ⟨q, hq, e2⟩)
      have := lookup_applyMerge_skip (put m k v) r k hskip
      simp only [applyMerge] at this
      rw [this, lookup_put_same]
    · have := ih (if p.2.isEmpty then m else put m p.1 p.2) hn.2 e
      simpa [applyMerge] using this

/-- `reload` answers "same" exactly when the remembered version equals the file's version -/
theorem reload_same_iff (ver : FileSt → Ver) (c : Cfg) (f : FileSt) :
    (reload ver c (some f)).2 = .same ↔ c.last = ver f := by
  unfold reload
  simp only []
  split
  · simp_all
  · rename_i h
    constructor
    · intro h2
      split at h2 <;> simp at h2
    · intro h2; exact absurd (by simp [h2]) h

theorem reload_same_state (ver : FileSt → Ver) (c : Cfg) (f : FileSt) (h : c.last = ver f) :
    (reload ver c (some f)).1 = c := by
  unfold reload; simp [h]

theorem parseProps_ok_nodup (text : Str) (props : KV) (h : parseProps text = .ok props) : KeysNodup props := by
  unfold parseProps at h
  split at h
  · simp at h
  · rename_i pairs _
    simp only [] at h
    split at h
    · simp at h
    · simp at h; subst h; exact keysNodup_buildProps pairs

/-- a changed version with a well-formed file: merged, remembered, observers told once -/
theorem reload_loaded (ver : FileSt → Ver) (c : Cfg) (f : FileSt) (props : KV)
    (hne : c.last ≠ ver f) (hp : parseProps f.text = .ok props) :
    (reload ver c (some f)).2 = .loaded ∧
    (reload ver c (some f)).1.notified = c.notified + 1 ∧
    (reload ver c (some f)).1.last = ver f ∧
    (reload ver c (some f)).1.m = applyMerge c.m (readMap props) := by
  unfold reload
  simp [hne, hp]

end Conf
