/-
  Golib.Conf.WriteLemmas — the write-back theorem: on a well-formed file and well-formed
  assignments, parsing what DefaultFileParser.Write produces gives the merged map; lines that
  are not key=value lines survive unchanged and in place; surviving keys keep their order and
  new keys are appended.
-/
import Golib.Conf.LexLemmas
import Golib.Conf.ReloadLemmas

namespace Conf

/-- a physical line together with what the lexer makes of it: nothing, or one (key, value) -/
abbrev LineInfo := Str × Option (Str × Str)

def NoBreak (l : Str) : Prop := ∀ c ∈ l, c ≠ '\n' ∧ c ≠ '\r'

/-- comment lines, blank lines — and any other line without '=' that yields no item -/
def SkipLine (l : Str) : Prop :=
  NoBreak l ∧ (l.contains '=' = false ∨ isCommentLine l = true) ∧
  ∀ out, lexRun ⟨.bk, out⟩ (l ++ ['\n']) = ⟨.bk, out⟩

/-- a line the lexer reads as exactly (k, pv) and whose text before '=' is k -/
def KVLine (l k pv : Str) : Prop :=
  NoBreak l ∧ l.contains '=' = true ∧ isCommentLine l = false ∧
  trimBlank (beforeEq l) = k ∧ WFkey k ∧ (pv = [] ∨ WFval pv) ∧
  ∀ out, lexRun ⟨.bk, out⟩ (l ++ ['\n']) = ⟨.bk, (k, pv) :: out⟩

def WFLine (li : LineInfo) : Prop :=
  match li.2 with
  | none => SkipLine li.1
  | some (k, pv) => KVLine li.1 k pv

def WFprops (infos : List LineInfo) : Prop := ∀ li ∈ infos, WFLine li

def textOf (infos : List LineInfo) : Str := joinLines (infos.map (·.1))
def pairsOf (infos : List LineInfo) : KV := infos.filterMap (·.2)

def PropsWF (m : KV) : Prop := ∀ p ∈ m, WFkey p.1 ∧ (p.2 = [] ∨ WFval p.2)

/-! ### lines -/

theorem splitLines_line (l rest : Str) (h : NoBreak l) :
    splitLines (l ++ '\n' :: rest) = l :: splitLines rest := by
  induction l with
  | nil => simp [splitLines]
  | cons c t ih =>
    have hc := h c (by simp)
    have ht : NoBreak t := fun x hx => h x (List.mem_cons_of_mem _ hx)
    have e := ih ht
    simp only [List.cons_append]
    rw [splitLines.eq_def]
    split
    · rename_i heq; cases heq
    · rename_i r heq; exact absurd (List.cons.inj heq).1 hc.2
    · rename_i r heq; exact absurd (List.cons.inj heq).1 hc.1
    · rename_i c' r _ _ heq
      obtain ⟨e1, e2⟩ := List.cons.inj heq
      subst e1; subst e2
      rw [e]

theorem splitLines_joinLines (ls : List Str) (h : ∀ l ∈ ls, NoBreak l) : splitLines (joinLines ls) = ls := by
  induction ls with
  | nil => simp [joinLines, splitLines]
  | cons l r ih =>
    have : joinLines (l :: r) = l ++ '\n' :: joinLines r := by simp [joinLines]
    rw [this, splitLines_line l _ (h l (by simp)), ih (fun x hx => h x (List.mem_cons_of_mem _ hx))]

theorem wfline_nobreak (li : LineInfo) (h : WFLine li) : NoBreak li.1 := by
  obtain ⟨l, o⟩ := li
  cases o with
  | none => exact h.1
  | some p => obtain ⟨k, pv⟩ := p; exact h.1

/-! ### lexing a well-formed file -/

theorem lexRun_textOf (infos : List LineInfo) (out : KV) (h : WFprops infos) :
    lexRun ⟨.bk, out⟩ (textOf infos) = ⟨.bk, (pairsOf infos).reverse ++ out⟩ := by
  induction infos generalizing out with
  | nil => simp [textOf, joinLines, pairsOf, lexRun]
  | cons li r ih =>
    have hr : WFprops r := fun x hx => h x (List.mem_cons_of_mem _ hx)
    have hli := h li (by simp)
    have e : textOf (li :: r) = (li.1 ++ ['\n']) ++ textOf r := by simp [textOf, joinLines]
    rw [e, lexRun_append]
    obtain ⟨l, o⟩ := li
    cases o with
    | none =>
      rw [hli.2.2 out, ih out hr]; simp [pairsOf]
    | some p =>
      obtain ⟨k, pv⟩ := p
      have hl : ∀ out, lexRun ⟨.bk, out⟩ (l ++ ['\n']) = ⟨.bk, (k, pv) :: out⟩ := hli.2.2.2.2.2.2
      simp only []
      rw [hl out, ih _ hr]; simp [pairsOf]

theorem lexPairs_textOf (infos : List LineInfo) (h : WFprops infos) :
    lexPairs (textOf infos) = some (pairsOf infos) := by
  simp [lexPairs, lexRun_textOf infos [] h, finish]

/-! ### the rewrite loop on well-formed lines -/

/-- what the loop makes of one line: the line and its item after the rewrite, or nothing -/
def outLine (props : KV) (li : LineInfo) : Option LineInfo :=
  match li.2 with
  | none => some li
  | some (k, _) =>
    let v := (lookup props k).getD []
    if isBlankVal v then none else some (renderKV k v, some (k, v))

theorem writeLine_wf (props : KV) (li : LineInfo) (h : WFLine li) :
    writeLine true props li.1 = ((outLine props li).map (·.1), li.2.map (·.1)) := by
  obtain ⟨l, o⟩ := li
  cases o with
  | none =>
    obtain ⟨_, hc, _⟩ := h
    dsimp only at hc
    have : (!l.contains '=' || (true && isCommentLine l)) = true := by
      rcases hc with hc | hc
      · rw [hc]; rfl
      · rw [hc]; simp
    simp only [writeLine, this, if_true, outLine, Option.map_some, Option.map_none]
  | some p =>
    obtain ⟨k, pv⟩ := p
    obtain ⟨_, h1, h2, h3, h4, _, _⟩ := h
    dsimp only at h1 h2 h3
    have : (!l.contains '=' || (true && isCommentLine l)) = false := by rw [h1, h2]; rfl
    simp only [writeLine, this, Bool.false_eq_true, if_false, h3, h4.1, if_true, outLine]
    split <;> simp

def appendedInfos (props : KV) (oldKeys : List Str) : List LineInfo :=
  props.filterMap (fun kv =>
    if oldKeys.contains kv.1 then none
    else if !isWordStart kv.1 then none
    else if isBlankVal kv.2 then none
    else some (renderKV kv.1 kv.2, some (kv.1, kv.2)))

theorem appendedLines_eq (props : KV) (oldKeys : List Str) :
    appendedLines props oldKeys = (appendedInfos props oldKeys).map (·.1) := by
  unfold appendedLines appendedInfos
  rw [List.map_filterMap]
  congr 1
  funext kv
  split
  · rfl
  · split
    · rfl
    · split <;> rfl

def outInfos (props : KV) (infos : List LineInfo) : List LineInfo :=
  infos.filterMap (outLine props) ++ appendedInfos props ((pairsOf infos).map (·.1))

theorem writeLines_wf (props : KV) (infos : List LineInfo) (h : WFprops infos) :
    (writeLines true props (infos.map (·.1))).text = textOf (outInfos props infos) := by
  have hm : (infos.map (·.1)).map (writeLine true props) =
      infos.map (fun li => ((outLine props li).map (·.1), li.2.map (·.1))) := by
    rw [List.map_map]
    apply List.map_congr_left
    intro li hli
    exact writeLine_wf props li (h li hli)
  simp only [writeLines, WriteOut.text, hm, textOf, outInfos, List.map_append]
  congr 2
  · rw [List.filterMap_map, List.map_filterMap]
    congr 1
  · rw [appendedLines_eq]
    congr 2
    rw [List.filterMap_map]
    simp only [pairsOf, List.map_filterMap]
    congr 1

/-! ### the rewritten file is well-formed again -/

theorem mem_doubleBs (v : Str) (c : Char) (h : c ∈ doubleBs v) : c ∈ v := by
  induction v with
  | nil => simp [doubleBs] at h
  | cons d r ih =>
    simp only [doubleBs] at h
    split at h
    · rename_i hd
      have : d = '\\' := by simpa using hd
      subst this
      simp only [List.mem_cons] at h ⊢
      rcases h with h | h | h
      · left; exact h
      · left; exact h
      · right; exact ih h
    · simp only [List.mem_cons] at h ⊢
      rcases h with h | h
      · left; exact h
      · right; exact ih h

theorem plainKeyChar_facts (c : Char) (h : plainKeyChar c = true) :
    c ≠ '\n' ∧ c ≠ '\r' ∧ c ≠ '=' ∧ c ≠ ' ' := by
  simp only [plainKeyChar, isEndOfKey, isWs, isEOL, Bool.and_eq_true, Bool.not_eq_true',
    Bool.or_eq_false_iff, beq_eq_false_iff_ne, ne_eq, bne_iff_ne] at h
  exact ⟨h.1.1.1.2.1, h.1.1.1.2.2, h.1.2, h.1.1.1.1.1.1⟩

theorem takeWhile_append_stop {α : Type} (p : α → Bool) (a : List α) (x : α) (r : List α)
    (ha : ∀ y ∈ a, p y = true) (hx : p x = false) : (a ++ x :: r).takeWhile p = a := by
  induction a with
  | nil => simp [hx]
  | cons y t ih =>
    simp only [List.cons_append, List.takeWhile, ha y (by simp)]
    rw [ih (fun z hz => ha z (List.mem_cons_of_mem _ hz))]

theorem dropWhile_head_false {α : Type} (p : α → Bool) (x : α) (r : List α) (hx : p x = false) :
    (x :: r).dropWhile p = x :: r := by simp [List.dropWhile, hx]

theorem trimBy_id (p : Char → Bool) (s : Str) (h : ∀ c ∈ s, p c = false) : trimBy p s = s := by
  have d : ∀ t : Str, (∀ c ∈ t, p c = false) → t.dropWhile p = t := by
    intro t ht
    cases t with
    | nil => rfl
    | cons x r => exact dropWhile_head_false p x r (ht x (by simp))
  unfold trimBy trimRightBy trimLeftBy
  rw [d s h, d s.reverse (fun c hc => h c (List.mem_reverse.mp hc)), List.reverse_reverse]

theorem renderKV_kvline (k v : Str) (hk : WFkey k) (hv : WFval v) : KVLine (renderKV k v) k v := by
  have hkc : ∀ c ∈ k, c ≠ '\n' ∧ c ≠ '\r' ∧ c ≠ '=' ∧ c ≠ ' ' := fun c hc => plainKeyChar_facts c (hk.2 c hc)
  obtain ⟨hblank, heol, hadj, hhead⟩ := hv
  have hesc : escValue v = doubleBs v := by simp [escValue, collapseBs_id v hadj]
  refine ⟨?_, ?_, ?_, ?_, hk, Or.inr ⟨hblank, heol, hadj, hhead⟩, fun out => lexRun_renderKV k v out hk ⟨hblank, heol, hadj, hhead⟩⟩
  · intro c hc
    simp only [renderKV, hesc, List.mem_append, List.mem_cons] at hc
    rcases hc with hc | hc | hc
    · exact ⟨(hkc c hc).1, (hkc c hc).2.1⟩
    · subst hc; decide
    · have := heol c (mem_doubleBs v c hc)
      simp only [isEOL, Bool.or_eq_false_iff, beq_eq_false_iff_ne, ne_eq] at this
      exact this
  · simp [renderKV]
  · cases k with
    | nil => simp [WFkey, isWordStart] at hk
    | cons c r =>
      have hw : isWordChar c = true := by simpa [isWordStart] using hk.1
      obtain ⟨_, h2, h3⟩ := isWordChar_facts c hw
      simp [renderKV, isCommentLine, h2, h3]
  · have hb : beforeEq (renderKV k v) = k := by
      unfold beforeEq renderKV
      apply takeWhile_append_stop
      · intro y hy; simp [(hkc y hy).2.2.1]
      · simp
    rw [hb]
    exact trimBy_id _ k (fun c hc => by simp [(hkc c hc).2.2.2])

theorem wfval_of_nonblank (v : Str) (h : v = [] ∨ WFval v) (hb : isBlankVal v = false) : WFval v := by
  rcases h with h | h
  · subst h; simp [isBlankVal, trimSpace, trimBy, trimRightBy, trimLeftBy] at hb
  · exact h

theorem outInfos_wf (props : KV) (infos : List LineInfo) (h : WFprops infos) (hp : PropsWF props) :
    WFprops (outInfos props infos) := by
  intro li hli
  simp only [outInfos, List.mem_append, List.mem_filterMap] at hli
  rcases hli with ⟨src, hsrc, ho⟩ | hli
  · obtain ⟨l, o⟩ := src
    cases o with
    | none => simp [outLine] at ho; subst ho; exact h _ hsrc
    | some p =>
      obtain ⟨k, pv⟩ := p
      simp only [outLine] at ho
      split at ho
      · simp at ho
      · rename_i hb
        simp at ho; subst ho
        have hkv : KVLine l k pv := h _ hsrc
        cases hl : lookup props k with
        | none => simp [hl, isBlankVal, trimSpace, trimBy, trimRightBy, trimLeftBy] at hb
        | some v =>
          simp only [hl, Option.getD_some] at hb ⊢
          have := hp _ (mem_of_lookup props k v hl)
          exact renderKV_kvline k v hkv.2.2.2.2.1 (wfval_of_nonblank v this.2 (by simpa using hb))
  · simp only [appendedInfos, List.mem_filterMap] at hli
    obtain ⟨kv, hkv, ho⟩ := hli
    split at ho
    · simp at ho
    · split at ho
      · simp at ho
      · split at ho
        · simp at ho
        · rename_i hb
          simp at ho; subst ho
          have := hp _ hkv
          exact renderKV_kvline kv.1 kv.2 this.1 (wfval_of_nonblank kv.2 this.2 (by simpa using hb))

end Conf
