/-
  Golib.Conf.Num — digit-function models of strconv.ParseInt / Atoi / ParseBool
  (base 10, no underscores: `strconv` accepts `_` only for base 0).
-/
import Golib.Conf.Str

namespace Conf

def digitVal (c : Char) : Option Nat :=
  if 48 ≤ c.toNat ∧ c.toNat ≤ 57 then some (c.toNat - 48) else none

def parseDigitsAux : Str → Nat → Option Nat
  | [], acc => some acc
  | c :: r, acc =>
    match digitVal c with
    | some d => parseDigitsAux r (acc * 10 + d)
    | none => none

/-- `strconv.ParseUint(s, 10, 64)` without the range check: at least one digit, digits only -/
def parseUint (s : Str) : Option Nat :=
  match s with
  | [] => none
  | _ :: _ => parseDigitsAux s 0

/-- `strconv.ParseInt(s, 10, bits)`; `none` = `err != nil` (syntax or range) -/
def parseInt (bits : Nat) (s : Str) : Option Int :=
  match s with
  | '-' :: r =>
    match parseUint r with
    | some n => if n ≤ 2 ^ (bits - 1) then some (-(n : Int)) else none
    | none => none
  | '+' :: r =>
    match parseUint r with
    | some n => if n < 2 ^ (bits - 1) then some (n : Int) else none
    | none => none
  | _ =>
    match parseUint s with
    | some n => if n < 2 ^ (bits - 1) then some (n : Int) else none
    | none => none

/-- Go conversion `int32(v)` of a 64-bit value -/
def wrap32 (v : Int) : Int := (v + 2147483648) % 4294967296 - 2147483648

/-- `strconv.ParseBool` -/
def parseBool (s : Str) : Option Bool :=
  if s = "1".toList ∨ s = "t".toList ∨ s = "T".toList ∨ s = "TRUE".toList ∨ s = "true".toList ∨ s = "True".toList then some true
  else if s = "0".toList ∨ s = "f".toList ∨ s = "F".toList ∨ s = "FALSE".toList ∨ s = "false".toList ∨ s = "False".toList then some false
  else none

/-! ### decimal rendering (`strconv.Itoa`) and the round trip -/

def digitChar (d : Nat) : Char := Char.ofNat (48 + d)

def showNat (n : Nat) : Str :=
  if _h : n < 10 then [digitChar n] else showNat (n / 10) ++ [digitChar (n % 10)]
termination_by n
decreasing_by omega

def showInt (v : Int) : Str := if v < 0 then '-' :: showNat v.natAbs else showNat v.natAbs

theorem digitVal_digitChar (d : Nat) (h : d < 10) : digitVal (digitChar d) = some d := by
  have : d = 0 ∨ d = 1 ∨ d = 2 ∨ d = 3 ∨ d = 4 ∨ d = 5 ∨ d = 6 ∨ d = 7 ∨ d = 8 ∨ d = 9 := by omega
  rcases this with h | h | h | h | h | h | h | h | h | h <;> subst h <;> decide

theorem parseDigitsAux_append (a b : Str) (acc : Nat) :
    parseDigitsAux (a ++ b) acc = (parseDigitsAux a acc).bind (parseDigitsAux b) := by
  induction a generalizing acc with
  | nil => simp [parseDigitsAux]
  | cons c r ih =>
    simp only [List.cons_append, parseDigitsAux]
    cases digitVal c with
    | none => simp
    | some d => simp [ih]

theorem parseDigitsAux_showNat (n acc : Nat) :
    parseDigitsAux (showNat n) acc = some (acc * 10 ^ (showNat n).length + n) := by
  induction n using Nat.strongRecOn generalizing acc with
  | _ n ih =>
    rw [showNat]
    split
    · rename_i h
      simp [parseDigitsAux, digitVal_digitChar n h]
    · rename_i h
      have hlt : n / 10 < n := by omega
      rw [parseDigitsAux_append, ih _ hlt]
      simp only [Option.bind_some, parseDigitsAux, List.length_append, List.length_cons, List.length_nil]
      rw [digitVal_digitChar _ (by omega)]
      simp only [Nat.pow_succ, Nat.zero_add]
      congr 1
      rw [Nat.add_mul, Nat.mul_assoc]
      omega

theorem showNat_ne_nil (n : Nat) : showNat n ≠ [] := by
  rw [showNat]; split <;> simp

theorem parseUint_showNat (n : Nat) : parseUint (showNat n) = some n := by
  unfold parseUint
  cases h : showNat n with
  | nil => exact absurd h (showNat_ne_nil n)
  | cons c r => simp only []; rw [← h, parseDigitsAux_showNat]; simp

theorem showNat_head_digit (n : Nat) : ∃ c r, showNat n = c :: r ∧ c ≠ '-' ∧ c ≠ '+' := by
  induction n using Nat.strongRecOn with
  | _ n ih =>
    rw [showNat]
    split
    · rename_i h
      refine ⟨digitChar n, [], rfl, ?_, ?_⟩ <;>
      · have : n = 0 ∨ n = 1 ∨ n = 2 ∨ n = 3 ∨ n = 4 ∨ n = 5 ∨ n = 6 ∨ n = 7 ∨ n = 8 ∨ n = 9 := by omega
        rcases this with h | h | h | h | h | h | h | h | h | h <;> subst h <;> decide
    · rename_i h
      obtain ⟨c, r, e, h1, h2⟩ := ih (n / 10) (by omega)
      exact ⟨c, r ++ [digitChar (n % 10)], by rw [e]; rfl, h1, h2⟩

/-- `ParseInt(Itoa(v), 10, bits) = v` for every value of the width -/
theorem parseInt_showInt (bits : Nat) (v : Int)
    (hlo : -(2 ^ (bits - 1) : Nat) ≤ v) (hhi : v < (2 ^ (bits - 1) : Nat)) :
    parseInt bits (showInt v) = some v := by
  unfold showInt
  split
  · rename_i hneg
    simp only [parseInt, parseUint_showNat]
    have : v.natAbs ≤ 2 ^ (bits - 1) := by omega
    simp [this]; omega
  · rename_i hpos
    obtain ⟨c, r, e, h1, h2⟩ := showNat_head_digit v.natAbs
    have hp := parseUint_showNat v.natAbs
    rw [e] at hp ⊢
    have : v.natAbs < 2 ^ (bits - 1) := by omega
    unfold parseInt
    split
    · rename_i r' heq; simp at heq; exact absurd heq.1 h1
    · rename_i r' heq; simp at heq; exact absurd heq.1 h2
    · simp only [hp]; simp [this]; omega

/-- whatever `parseInt` accepts lies in the two's-complement range of the width -/
theorem parseInt_range (bits : Nat) (s : Str) (v : Int) (h : parseInt bits s = some v) :
    -(2 ^ (bits - 1) : Nat) ≤ v ∧ v < (2 ^ (bits - 1) : Nat) := by
  unfold parseInt at h
  have hC : 0 < 2 ^ (bits - 1) := Nat.pow_pos (by decide)
  generalize 2 ^ (bits - 1) = C at *
  split at h
  · split at h
    · split at h
      · simp at h; omega
      · simp at h
    · simp at h
  · split at h
    · split at h
      · simp at h; omega
      · simp at h
    · simp at h
  · split at h
    · split at h
      · simp at h; omega
      · simp at h
    · simp at h

theorem parseDigitsAux_digits (s : Str) (acc n : Nat) (h : parseDigitsAux s acc = some n) :
    ∀ c ∈ s, (digitVal c).isSome := by
  induction s generalizing acc with
  | nil => intro c hc; cases hc
  | cons a r ih =>
    intro c hc
    simp only [parseDigitsAux] at h
    cases hd : digitVal a with
    | none => rw [hd] at h; simp at h
    | some d =>
      rw [hd] at h
      rcases List.mem_cons.mp hc with e | e
      · subst e; simp [hd]
      · exact ih _ h c e

end Conf
