/-
  Golib.Conf.IntSetLemmas — GetIntSet returns the integers that were written: a value
  "v1,v2,…,vn" (Itoa of 32-bit integers joined by a delimiter) reads back as [v1,…,vn].
-/
import Golib.Conf.Getters

namespace Conf

theorem fieldsAux_token (d t rest cur : Str) (acc : List Str) (h : ∀ c ∈ t, d.contains c = false) :
    fieldsAux d (t ++ rest) cur acc = fieldsAux d rest (t.reverse ++ cur) acc := by
  induction t generalizing cur with
  | nil => rfl
  | cons c r ih =>
    have hc := h c (by simp)
    simp only [List.cons_append, fieldsAux, hc, Bool.false_eq_true, if_false]
    rw [ih _ (fun x hx => h x (List.mem_cons_of_mem _ hx))]
    simp

def joinWith (sep : Char) : List Str → Str
  | [] => []
  | [t] => t
  | t :: r => t ++ sep :: joinWith sep r

theorem fieldsAux_join (sep : Char) (ts : List Str) (acc : List Str)
    (hne : ∀ t ∈ ts, t ≠ []) (hs : ∀ t ∈ ts, ∀ c ∈ t, [sep].contains c = false) :
    fieldsAux [sep] (joinWith sep ts) [] acc = acc.reverse ++ ts := by
  induction ts generalizing acc with
  | nil => simp [joinWith, fieldsAux]
  | cons t r ih =>
    have ht := hne t (by simp)
    have hst := hs t (by simp)
    cases r with
    | nil =>
      have := fieldsAux_token [sep] t [] [] acc hst
      simp only [List.append_nil] at this
      simp only [joinWith, this, fieldsAux]
      cases t with
      | nil => exact absurd rfl ht
      | cons a b => simp
    | cons t2 r2 =>
      have := fieldsAux_token [sep] t (sep :: joinWith sep (t2 :: r2)) [] acc hst
      simp only [List.append_nil] at this
      simp only [joinWith, this]
      have hsep : [sep].contains sep = true := by simp
      simp only [fieldsAux, hsep, if_true]
      have hr : (t.reverse.isEmpty) = false := by cases t with
        | nil => exact absurd rfl ht
        | cons a b => simp
      simp only [hr, Bool.false_eq_true, if_false, List.reverse_reverse]
      rw [ih (t :: acc) (fun x hx => hne x (List.mem_cons_of_mem _ hx)) (fun x hx => hs x (List.mem_cons_of_mem _ hx))]
      simp

theorem showNat_digits (n : Nat) : ∀ c ∈ showNat n, ∃ d, d < 10 ∧ c = digitChar d := by
  induction n using Nat.strongRecOn with
  | _ n ih =>
    rw [showNat]
    split
    · rename_i h
      intro c hc; simp at hc; exact ⟨n, h, hc⟩
    · rename_i h
      intro c hc
      rcases List.mem_append.mp hc with h1 | h1
      · exact ih (n / 10) (by omega) c h1
      · simp at h1; exact ⟨n % 10, by omega, h1⟩

theorem digitChar_facts (d : Nat) (h : d < 10) :
    isGoSpace (digitChar d) = false ∧ digitChar d ≠ ',' := by
  have : d = 0 ∨ d = 1 ∨ d = 2 ∨ d = 3 ∨ d = 4 ∨ d = 5 ∨ d = 6 ∨ d = 7 ∨ d = 8 ∨ d = 9 := by omega
  rcases this with h | h | h | h | h | h | h | h | h | h <;> subst h <;> decide

theorem showInt_chars (v : Int) : ∀ c ∈ showInt v, isGoSpace c = false ∧ c ≠ ',' := by
  intro c hc
  unfold showInt at hc
  split at hc
  · rcases List.mem_cons.mp hc with e | e
    · subst e; decide
    · obtain ⟨d, hd, e2⟩ := showNat_digits _ c e
      subst e2; exact digitChar_facts d hd
  · obtain ⟨d, hd, e2⟩ := showNat_digits _ c hc
    subst e2; exact digitChar_facts d hd

theorem showInt_ne_nil (v : Int) : showInt v ≠ [] := by
  unfold showInt
  split
  · simp
  · exact showNat_ne_nil _

theorem trimSpace_id (s : Str) (h : ∀ c ∈ s, isGoSpace c = false) : trimSpace s = s := by
  have d : ∀ t : Str, (∀ c ∈ t, isGoSpace c = false) → t.dropWhile isGoSpace = t := by
    intro t ht
    cases t with
    | nil => rfl
    | cons x r => simp [List.dropWhile, ht x (by simp)]
  unfold trimSpace trimBy trimRightBy trimLeftBy
  rw [d s h, d s.reverse (fun c hc => h c (List.mem_reverse.mp hc)), List.reverse_reverse]

theorem mem_joinWith (sep : Char) (ts : List Str) (c : Char) (h : c ∈ joinWith sep ts) :
    c = sep ∨ ∃ t ∈ ts, c ∈ t := by
  induction ts with
  | nil => simp [joinWith] at h
  | cons t r ih =>
    cases r with
    | nil => simp only [joinWith] at h; exact Or.inr ⟨t, by simp, h⟩
    | cons t2 r2 =>
      simp only [joinWith, List.mem_append, List.mem_cons] at h
      rcases h with h | h | h
      · exact Or.inr ⟨t, by simp, h⟩
      · exact Or.inl h
      · rcases ih h with h | ⟨x, hx, hc⟩
        · exact Or.inl h
        · exact Or.inr ⟨x, List.mem_cons_of_mem _ hx, hc⟩

/-- the set getter reads back a comma-separated list of 32-bit integers exactly -/
theorem getIntSet_roundtrip (m env : KV) (k d : Str) (vs : List Int) (hne : vs ≠ [])
    (hr : ∀ v ∈ vs, -2147483648 ≤ v ∧ v < 2147483648)
    (hl : lookup m k = some (joinWith ',' (vs.map showInt))) :
    getIntSet m env k d [','] = vs := by
  have hchars : ∀ c ∈ joinWith ',' (vs.map showInt), isGoSpace c = false := by
    intro c hc
    rcases mem_joinWith ',' _ c hc with e | ⟨t, ht, hct⟩
    · subst e; decide
    · obtain ⟨v, _, e⟩ := List.mem_map.mp ht
      subst e; exact (showInt_chars v c hct).1
  have hval : getValue m env k = joinWith ',' (vs.map showInt) := by
    simp [getValue, hl, trimSpace_id _ hchars]
  have hnonempty : (joinWith ',' (vs.map showInt)).isEmpty = false := by
    cases vs with
    | nil => exact absurd rfl hne
    | cons v r =>
      have := showInt_ne_nil v
      cases r with
      | nil => simp only [List.map, joinWith]; cases hs : showInt v with
        | nil => exact absurd hs this
        | cons _ _ => rfl
      | cons v2 r2 => simp only [List.map, joinWith]; cases hs : showInt v with
        | nil => exact absurd hs this
        | cons _ _ => rfl
  have htok : tokenizer (joinWith ',' (vs.map showInt)) [','] = vs.map showInt := by
    unfold tokenizer
    simp only [hnonempty, List.isEmpty_cons, Bool.or_self, Bool.false_eq_true, if_false]
    have := fieldsAux_join ',' (vs.map showInt) []
      (by intro t ht; obtain ⟨v, _, e⟩ := List.mem_map.mp ht; subst e; exact showInt_ne_nil v)
      (by
        intro t ht c hc
        obtain ⟨v, _, e⟩ := List.mem_map.mp ht
        subst e
        have := (showInt_chars v c hc).2
        simp [this])
    simpa using this
  unfold getIntSet getValueDef
  simp only [hval, hnonempty, Bool.false_eq_true, if_false, htok, List.filterMap_map]
  clear hl hval htok hnonempty hchars hne
  induction vs with
  | nil => rfl
  | cons v r ih =>
    have hv := hr v (by simp)
    have h1 : trimSpace (showInt v) = showInt v := trimSpace_id _ (fun c hc => (showInt_chars v c hc).1)
    have h2 : parseInt 64 (showInt v) = some v := parseInt_showInt 64 v (by simp; omega) (by simp; omega)
    have h3 : wrap32 v = v := by unfold wrap32; omega
    simp only [List.filterMap_cons, Function.comp, h1, h2, Option.map_some, h3]
    rw [ih (fun x hx => hr x (List.mem_cons_of_mem _ hx))]

end Conf
