/-
  Golib.Conf.ValueIff — exactly which values survive DefaultFileParser.Write: the line
  `key=escValue v` is read back as `collapseBs (dropWhile blank v)` up to the first line break,
  so the value is preserved iff it has no line break, no two adjacent backslashes and no leading
  blank.
-/
import Golib.Conf.LexLemmas

namespace Conf

def ValuePreserved (v : Str) : Prop :=
  (∀ c ∈ v, isEOL c = false) ∧ NoAdjBs v ∧ (v = [] ∨ headNotWs v = true)

/-! ### emitted items are never retracted -/

theorem step_out (s : LexSt) (c : Char) : (step s c).out = s.out ∨ ∃ p, (step s c).out = p :: s.out := by
  obtain ⟨mode, out⟩ := s
  cases mode <;> simp only [step, stepKey, stepBv1, stepVal] <;> (repeat' split) <;> simp

theorem lexRun_out (s : LexSt) (input : Str) : ∃ extra, (lexRun s input).out = extra ++ s.out := by
  induction input generalizing s with
  | nil => exact ⟨[], rfl⟩
  | cons c r ih =>
    rw [lexRun_cons]
    obtain ⟨extra, he⟩ := ih (step s c)
    rcases step_out s c with h | ⟨p, h⟩
    · exact ⟨extra, by rw [he, h]⟩
    · exact ⟨extra ++ [p], by rw [he, h]; simp⟩

theorem finish_out (s : LexSt) (l : KV) (h : finish s = some l) : ∃ pre, l = s.out.reverse ++ pre := by
  obtain ⟨mode, out⟩ := s
  cases mode <;> simp [finish] at h <;> subst h <;> simp

/-- once an item has been emitted it is the corresponding element of the final result -/
theorem first_item_stays (first : Str × Str) (rest : Str) (l : KV)
    (h : finish (lexRun ⟨.bk, [first]⟩ rest) = some l) : l.head? = some first := by
  obtain ⟨extra, he⟩ := lexRun_out ⟨.bk, [first]⟩ rest
  obtain ⟨pre, hp⟩ := finish_out _ l h
  rw [hp, he]
  simp

theorem dropWhile_length_le (p : Char → Bool) (l : Str) : (l.dropWhile p).length ≤ l.length := by
  induction l with
  | nil => simp
  | cons c t ih =>
    simp only [List.dropWhile]
    split
    · simp only [List.length_cons]; omega
    · simp

/-! ### backslash collapsing -/

theorem mem_collapseBs (v : Str) (c : Char) (h : c ∈ collapseBs v) : c ∈ v := by
  induction v using collapseBs.induct with
  | case1 r ih =>
    simp only [collapseBs, List.mem_cons] at h ⊢
    rcases h with h | h
    · left; exact h
    · right; right; exact ih h
  | case2 d r hne ih =>
    rw [collapseBs.eq_def] at h
    split at h
    · rename_i r' heq; exact (hne r' (List.cons.inj heq).1 (by rw [(List.cons.inj heq).2])).elim
    · rename_i d' r' _ heq
      obtain ⟨e1, e2⟩ := List.cons.inj heq
      subst e1; subst e2
      simp only [List.mem_cons] at h ⊢
      rcases h with h | h
      · left; exact h
      · right; exact ih h
    · rename_i heq; cases heq
  | case3 => simp [collapseBs] at h

theorem collapseBs_length (v : Str) : (collapseBs v).length ≤ v.length := by
  induction v using collapseBs.induct with
  | case1 r ih => simp only [collapseBs, List.length_cons]; omega
  | case2 d r hne ih =>
    rw [collapseBs.eq_def]
    split
    · rename_i r' heq; exact (hne r' (List.cons.inj heq).1 (by rw [(List.cons.inj heq).2])).elim
    · rename_i d' r' _ heq
      obtain ⟨e1, e2⟩ := List.cons.inj heq
      subst e1; subst e2
      simp only [List.length_cons]; omega
    · rename_i heq; cases heq
  | case3 => simp [collapseBs]

theorem collapseBs_eq_iff (v : Str) : collapseBs v = v ↔ NoAdjBs v := by
  constructor
  · intro h
    induction v using collapseBs.induct with
    | case1 r ih =>
      exfalso
      have := collapseBs_length r
      have hl : (collapseBs ('\\' :: '\\' :: r)).length = ('\\' :: '\\' :: r).length := by rw [h]
      simp only [collapseBs, List.length_cons] at hl
      omega
    | case2 d r hne ih =>
      rw [collapseBs.eq_def] at h
      split at h
      · rename_i r' heq; exact (hne r' (List.cons.inj heq).1 (by rw [(List.cons.inj heq).2])).elim
      · rename_i d' r' _ heq
        obtain ⟨e1, e2⟩ := List.cons.inj heq
        subst e1; subst e2
        have hr := ih (List.cons.inj h).2
        unfold NoAdjBs
        split
        · rename_i r2 heq2
          exact (hne r2 (List.cons.inj heq2).1 (by rw [(List.cons.inj heq2).2])).elim
        · rename_i c2 r2 _ heq2
          obtain ⟨_, e4⟩ := List.cons.inj heq2
          rw [← e4]; exact hr
        · rename_i heq2; cases heq2
      · rename_i heq; cases heq
    | case3 => trivial
  · exact collapseBs_id v

theorem collapseBs_ws_append (w r : Str) (hw : ∀ c ∈ w, isWs c = true) :
    collapseBs (w ++ r) = w ++ collapseBs r := by
  induction w with
  | nil => rfl
  | cons c t ih =>
    have hc := hw c (by simp)
    have hb : c ≠ '\\' := by intro e; subst e; revert hc; decide
    rw [List.cons_append, collapseBs.eq_def]
    split
    · rename_i r' heq; exact absurd (List.cons.inj heq).1 hb
    · rename_i d' r' _ heq
      obtain ⟨e1, e2⟩ := List.cons.inj heq
      subst e1; subst e2
      rw [ih (fun x hx => hw x (List.mem_cons_of_mem _ hx))]
      rfl
    · rename_i heq; cases heq

theorem doubleBs_ws_append (w r : Str) (hw : ∀ c ∈ w, isWs c = true) :
    doubleBs (w ++ r) = w ++ doubleBs r := by
  induction w with
  | nil => rfl
  | cons c t ih =>
    have hc := hw c (by simp)
    have hb : (c == '\\') = false := by
      have : c ≠ '\\' := by intro e; subst e; revert hc; decide
      simp [this]
    simp only [List.cons_append, doubleBs, hb, Bool.false_eq_true, if_false,
      ih (fun x hx => hw x (List.mem_cons_of_mem _ hx))]

theorem lexRun_bv2_ws (k : Str) (out : KV) (w rest : Str) (hw : ∀ c ∈ w, isWs c = true) :
    lexRun ⟨.bv2 k, out⟩ (w ++ rest) = lexRun ⟨.bv2 k, out⟩ rest := by
  induction w with
  | nil => rfl
  | cons c t ih =>
    rw [List.cons_append, lexRun_cons]
    have : step ⟨.bv2 k, out⟩ c = ⟨.bv2 k, out⟩ := by simp [step, hw c (by simp)]
    rw [this, ih (fun x hx => hw x (List.mem_cons_of_mem _ hx))]

theorem collapseBs_head (c : Char) (r : Str) : ∃ t, collapseBs (c :: r) = c :: t := by
  rw [collapseBs.eq_def]
  split
  · rename_i r' heq; exact ⟨_, by rw [(List.cons.inj heq).1]⟩
  · rename_i d' r' _ heq; exact ⟨_, by rw [(List.cons.inj heq).1]⟩
  · rename_i heq; cases heq

theorem dropWhile_split (p : Char → Bool) (v : Str) :
    ∃ w r, v = w ++ r ∧ (∀ c ∈ w, p c = true) ∧ v.dropWhile p = r ∧ (r = [] ∨ ∃ c t, r = c :: t ∧ p c = false) := by
  induction v with
  | nil => exact ⟨[], [], rfl, (by intro c hc; cases hc), rfl, Or.inl rfl⟩
  | cons a t ih =>
    by_cases ha : p a = true
    · obtain ⟨w, r, e, hw, hd, hr⟩ := ih
      refine ⟨a :: w, r, by rw [e]; rfl, ?_, by simp [List.dropWhile, ha, hd], hr⟩
      intro c hc
      rcases List.mem_cons.mp hc with h | h
      · rw [h]; exact ha
      · exact hw c h
    · have ha' : p a = false := by simpa using ha
      exact ⟨[], a :: t, rfl, (by intro c hc; cases hc), (by simp [List.dropWhile, ha']), Or.inr ⟨a, t, rfl, ha'⟩⟩

/-- what the lexer reads back from `key=escValue v` when `v` has no line break (terminated by any
    line-end character `e`) -/
theorem value_readback (k v : Str) (e : Char) (out : KV) (hk : WFkey k) (he : isEOL e = true)
    (hv : ∀ c ∈ v, isEOL c = false) :
    lexRun ⟨.bk, out⟩ (renderKV k v ++ [e]) = ⟨.bk, (k, collapseBs (v.dropWhile isWs)) :: out⟩ := by
  obtain ⟨w, r, ev, hw, hd, hr⟩ := dropWhile_split isWs v
  have hws : isWs e = false := by
    simp only [isEOL, Bool.or_eq_true, beq_iff_eq] at he
    rcases he with h | h <;> subst h <;> decide
  have hbs : (e == '\\') = false := by
    simp only [isEOL, Bool.or_eq_true, beq_iff_eq] at he
    rcases he with h | h <;> subst h <;> decide
  simp only [renderKV, List.append_assoc, List.cons_append]
  rw [lexRun_key_eq k _ out hk, hd, ev, escValue, collapseBs_ws_append w r hw, doubleBs_ws_append w _ hw,
    List.append_assoc, lexRun_bv2_ws k out w _ hw]
  have hr_eol : ∀ c ∈ r, isEOL c = false := fun c hc => hv c (by rw [ev]; exact List.mem_append_right _ hc)
  rcases hr with hr | ⟨c, t, hr, hc⟩
  · subst hr
    simp [collapseBs, doubleBs, lexRun, step, stepVal, hws, hbs, he]
  · subst hr
    obtain ⟨t', ht'⟩ := collapseBs_head c t
    obtain ⟨t2, ht2⟩ := doubleBs_head c t'
    have hce : ∀ x ∈ collapseBs (c :: t), isEOL x = false := fun x hx => hr_eol x (mem_collapseBs _ x hx)
    have e1 : lexRun ⟨.bv2 k, out⟩ (doubleBs (collapseBs (c :: t)) ++ [e]) =
        lexRun ⟨.val k [], out⟩ (doubleBs (collapseBs (c :: t)) ++ [e]) := by
      rw [ht', ht2]; simp only [List.cons_append, lexRun_cons, step_bv2_notWs k out c hc]
    rw [e1, lexRun_append, lexRun_val_doubleBs _ k [] out hce, lexRun_cons, lexRun_nil]
    simp [step, stepVal, hbs, he]

theorem collapseBs_append_eol (a b : Str) (e : Char) (he : e ≠ '\\') :
    collapseBs (a ++ e :: b) = collapseBs a ++ e :: collapseBs b := by
  induction a using collapseBs.induct with
  | case1 r ih => simp only [List.cons_append, collapseBs, ih]
  | case2 d r hne ih =>
    rw [List.cons_append, collapseBs.eq_def]
    split
    · rename_i r' heq
      obtain ⟨e1, e2⟩ := List.cons.inj heq
      cases r with
      | nil =>
        simp only [List.nil_append] at e2
        exact absurd (List.cons.inj e2).1 he
      | cons x xs =>
        simp only [List.cons_append] at e2
        exact (hne xs e1 (by rw [(List.cons.inj e2).1])).elim
    · rename_i d' r' _ heq
      obtain ⟨e1, e2⟩ := List.cons.inj heq
      subst e1; subst e2
      rw [ih]
      conv => rhs; rw [collapseBs.eq_def]
      split
      · rename_i r2 heq2
        exact (hne r2 (List.cons.inj heq2).1 (by rw [(List.cons.inj heq2).2])).elim
      · rename_i d2 r2 _ heq2
        obtain ⟨e3, e4⟩ := List.cons.inj heq2
        subst e3; subst e4; rfl
      · rename_i heq2; cases heq2
    · rename_i heq; cases heq
  | case3 =>
    simp only [List.nil_append]
    rw [collapseBs.eq_def]
    split
    · rename_i r' heq; exact absurd (List.cons.inj heq).1 he
    · rename_i d' r' _ heq
      obtain ⟨e1, e2⟩ := List.cons.inj heq
      subst e1; subst e2; simp [collapseBs]
    · rename_i heq; cases heq

theorem doubleBs_append (a b : Str) : doubleBs (a ++ b) = doubleBs a ++ doubleBs b := by
  induction a with
  | nil => rfl
  | cons c r ih =>
    simp only [List.cons_append, doubleBs]
    split <;> simp [ih]

theorem split_first_eol (v : Str) (h : ∃ c ∈ v, isEOL c = true) :
    ∃ a e b, v = a ++ e :: b ∧ (∀ c ∈ a, isEOL c = false) ∧ isEOL e = true := by
  induction v with
  | nil => obtain ⟨c, hc, _⟩ := h; cases hc
  | cons x t ih =>
    by_cases hx : isEOL x = true
    · exact ⟨[], x, t, rfl, (by intro c hc; cases hc), hx⟩
    · have hx' : isEOL x = false := by simpa using hx
      obtain ⟨c, hc, hce⟩ := h
      rcases List.mem_cons.mp hc with e | e
      · subst e; rw [hce] at hx'; cases hx'
      · obtain ⟨a, e', b, ev, ha, he'⟩ := ih ⟨c, e, hce⟩
        refine ⟨x :: a, e', b, by rw [ev]; rfl, ?_, he'⟩
        intro y hy
        rcases List.mem_cons.mp hy with h1 | h1
        · rw [h1]; exact hx'
        · exact ha y h1

/-- **Which values survive a write-back**: the line Write renders for (k, v) is read back as
    exactly (k, v) iff v has no line break, no two adjacent backslashes and no leading blank. -/
theorem value_preserved_iff (k v : Str) (hk : WFkey k) :
    lexPairs (renderKV k v ++ ['\n']) = some [(k, v)] ↔ ValuePreserved v := by
  have hnl : isEOL '\n' = true := by decide
  by_cases heol : ∃ c ∈ v, isEOL c = true
  · -- a line break inside the value: the first item read back is shorter than v
    constructor
    · intro h
      exfalso
      obtain ⟨a, e, b, ev, ha, he⟩ := split_first_eol v heol
      have hebs : e ≠ '\\' := by
        intro x; subst x; revert he; decide
      have hebs' : (e == '\\') = false := by simp [hebs]
      have hline : renderKV k v ++ ['\n'] = (renderKV k a ++ [e]) ++ (escValue b ++ ['\n']) := by
        simp only [renderKV, escValue, ev, collapseBs_append_eol a b e hebs, doubleBs_append, doubleBs, hebs',
          Bool.false_eq_true, if_false, List.append_assoc, List.cons_append, List.nil_append]
      simp only [lexPairs, hline] at h
      rw [lexRun_append, value_readback k a e [] hk he ha] at h
      have hh := first_item_stays _ _ _ h
      simp only [List.head?_cons, Option.some.injEq, Prod.mk.injEq, true_and] at hh
      have l1 := collapseBs_length (a.dropWhile isWs)
      have l2 : (a.dropWhile isWs).length ≤ a.length := dropWhile_length_le _ _
      have : v.length = a.length + 1 + b.length := by rw [ev]; simp; omega
      have : (collapseBs (a.dropWhile isWs)).length = v.length := by rw [hh]
      omega
    · intro h
      obtain ⟨c, hc, hce⟩ := heol
      rw [h.1 c hc] at hce; cases hce
  · have hv : ∀ c ∈ v, isEOL c = false := by
      intro c hc
      cases hce : isEOL c with
      | false => rfl
      | true => exact absurd ⟨c, hc, hce⟩ heol
    have hrb : lexPairs (renderKV k v ++ ['\n']) = some [(k, collapseBs (v.dropWhile isWs))] := by
      simp [lexPairs, value_readback k v '\n' [] hk hnl hv, finish]
    rw [hrb]
    simp only [Option.some.injEq, List.cons.injEq, Prod.mk.injEq, true_and, and_true]
    constructor
    · intro h
      have l1 := collapseBs_length (v.dropWhile isWs)
      have l2 : (v.dropWhile isWs).length ≤ v.length := dropWhile_length_le _ _
      have hlen : (v.dropWhile isWs).length = v.length := by
        have : (collapseBs (v.dropWhile isWs)).length = v.length := by rw [h]
        omega
      have hd : v.dropWhile isWs = v := by
        cases v with
        | nil => rfl
        | cons c t =>
          by_cases hc : isWs c = true
          · exfalso
            have : ((c :: t).dropWhile isWs).length ≤ t.length := by
              simp only [List.dropWhile, hc]; exact dropWhile_length_le _ _
            simp only [List.length_cons] at hlen; omega
          · have hc' : isWs c = false := by simpa using hc
            simp [List.dropWhile, hc']
      rw [hd] at h
      refine ⟨hv, (collapseBs_eq_iff v).mp h, ?_⟩
      cases v with
      | nil => exact Or.inl rfl
      | cons c t =>
        right
        by_cases hc : isWs c = true
        · exfalso; simp [List.dropWhile, hc] at hd
          have := dropWhile_length_le isWs t
          rw [hd] at this; simp at this; omega
        · simp [headNotWs, hc]
    · intro ⟨_, hadj, hhead⟩
      have hd : v.dropWhile isWs = v := by
        rcases hhead with h | h
        · subst h; rfl
        · cases v with
          | nil => rfl
          | cons c t =>
            have : isWs c = false := by simpa [headNotWs] using h
            simp [List.dropWhile, this]
      rw [hd]; exact collapseBs_id v hadj

end Conf
