/-
  Golib.Conf.Lex — model of the properties lexer + parser used by DefaultFileParser
  (github.com/magiconair/properties v1.8.7, lex.go / parser.go), as a one-character-at-a-time
  state machine.  The library is third-party: this model is *compared* with it by the
  correspondence harness (tie B); nothing about the library itself is proved.

  `${…}` expansion is not modelled: `parseProps` answers `.expansion` as soon as a value
  contains "${" and the harness treats those files separately.
-/
import Golib.Conf.Str

namespace Conf

def isEOL (c : Char) : Bool := c == '\n' || c == '\r'
/-- the library's `whitespace = " \f\t"` -/
def isWs (c : Char) : Bool := c == ' ' || c == '\x0c' || c == '\t'
def isCommentStart (c : Char) : Bool := c == '#' || c == '!'
/-- `isEndOfKey`: one of `" \f\t\r\n:="` -/
def isEndOfKey (c : Char) : Bool := isWs c || isEOL c || c == ':' || c == '='

def hexVal (c : Char) : Option Nat :=
  let n := c.toNat
  if 48 ≤ n ∧ n ≤ 57 then some (n - 48)
  else if 97 ≤ n ∧ n ≤ 102 then some (n - 87)
  else if 65 ≤ n ∧ n ≤ 70 then some (n - 55)
  else none

/-- `string(rune(n))` for a 16-bit `n`: surrogates become U+FFFD -/
def runeOf (n : Nat) : Char :=
  if 0xD800 ≤ n ∧ n ≤ 0xDFFF then Char.ofNat 0xFFFD else Char.ofNat n

/-- `decodeEscapedCharacter` on the characters of `isEscapedCharacter` (" :=fnrt"); every
    other character after a backslash is taken as it is -/
def unescape (c : Char) : Char :=
  if c == 'f' then '\x0c' else if c == 'n' then '\n' else if c == 'r' then '\r'
  else if c == 't' then '\t' else c

/-- lexer modes; accumulators are reversed -/
inductive Mode where
  | bk                                   -- lexBeforeKey
  | cm                                   -- lexComment
  | key (acc : Str)                      -- lexKey
  | keyEsc (acc : Str)                   -- lexKey, after a backslash
  | keyU (acc : Str) (n cnt : Nat)       -- lexKey, inside \uXXXX
  | bv1 (k : Str)                        -- lexBeforeValue, before the separator
  | bv2 (k : Str)                        -- lexBeforeValue, after the separator
  | val (k : Str) (acc : Str)            -- lexValue
  | valEsc (k : Str) (acc : Str)         -- lexValue, after a backslash
  | valCont (k : Str) (acc : Str)        -- lexValue, after backslash-newline (skipping blanks)
  | valU (k : Str) (acc : Str) (n cnt : Nat)
  | err
  deriving Repr, DecidableEq

structure LexSt where
  mode : Mode
  out : KV          -- emitted (key, value) pairs, most recent first
  deriving Repr, DecidableEq

/-- lexValue on one character -/
def stepVal (k acc : Str) (out : KV) (c : Char) : LexSt :=
  if c == '\\' then ⟨.valEsc k acc, out⟩
  else if isEOL c then ⟨.bk, (k, acc.reverse) :: out⟩
  else ⟨.val k (c :: acc), out⟩

/-- lexBeforeValue (before the separator) on one character -/
def stepBv1 (k : Str) (out : KV) (c : Char) : LexSt :=
  if isWs c then ⟨.bv1 k, out⟩
  else if c == ':' || c == '=' then ⟨.bv2 k, out⟩
  else stepVal k [] out c

/-- lexKey on one character -/
def stepKey (acc : Str) (out : KV) (c : Char) : LexSt :=
  if c == '\\' then ⟨.keyEsc acc, out⟩
  else if isEndOfKey c then
    (if acc.isEmpty then ⟨.err, out⟩          -- a value without a key: parser error
     else stepBv1 acc.reverse out c)
  else ⟨.key (c :: acc), out⟩

def step (s : LexSt) (c : Char) : LexSt :=
  match s.mode with
  | .bk =>
    if isEOL c || isWs c then ⟨.bk, s.out⟩
    else if isCommentStart c then ⟨.cm, s.out⟩
    else stepKey [] s.out c
  | .cm => if isEOL c then ⟨.bk, s.out⟩ else ⟨.cm, s.out⟩
  | .key acc => stepKey acc s.out c
  | .keyEsc acc =>
    if c == 'u' then ⟨.keyU acc 0 0, s.out⟩ else ⟨.key (unescape c :: acc), s.out⟩
  | .keyU acc n cnt =>
    match hexVal c with
    | none => ⟨.err, s.out⟩
    | some d =>
      if cnt == 3 then ⟨.key (runeOf (n * 16 + d) :: acc), s.out⟩
      else ⟨.keyU acc (n * 16 + d) (cnt + 1), s.out⟩
  | .bv1 k => stepBv1 k s.out c
  | .bv2 k => if isWs c then ⟨.bv2 k, s.out⟩ else stepVal k [] s.out c
  | .val k acc => stepVal k acc s.out c
  | .valEsc k acc =>
    if isEOL c then ⟨.valCont k acc, s.out⟩
    else if c == 'u' then ⟨.valU k acc 0 0, s.out⟩
    else ⟨.val k (unescape c :: acc), s.out⟩
  | .valCont k acc => if isWs c then ⟨.valCont k acc, s.out⟩ else stepVal k acc s.out c
  | .valU k acc n cnt =>
    match hexVal c with
    | none => ⟨.err, s.out⟩
    | some d =>
      if cnt == 3 then ⟨.val k (runeOf (n * 16 + d) :: acc), s.out⟩
      else ⟨.valU k acc (n * 16 + d) (cnt + 1), s.out⟩
  | .err => ⟨.err, s.out⟩

def lexRun (s : LexSt) (input : Str) : LexSt := input.foldl step s

/-- end of input: the pairs in file order, or `none` for a lexer/parser error -/
def finish (s : LexSt) : Option KV :=
  match s.mode with
  | .bk | .cm => some s.out.reverse
  | .key acc => some (((acc.reverse, []) :: s.out).reverse)
  | .bv1 k | .bv2 k => some (((k, []) :: s.out).reverse)
  | .val k acc | .valCont k acc => some (((k, acc.reverse) :: s.out).reverse)
  | .keyEsc _ | .keyU _ _ _ | .valEsc _ _ | .valU _ _ _ _ | .err => none

/-- the (key, value) items of the file in file order (duplicates included) -/
def lexPairs (text : Str) : Option KV := finish (lexRun ⟨.bk, []⟩ text)

/-- `Properties` after `parse`: later assignments of a key replace the value, the key keeps
    its first position (`p.k`) -/
def buildProps (pairs : KV) : KV := pairs.foldl (fun m p => put m p.1 p.2) []

def containsExpansion : Str → Bool
  | '$' :: '{' :: _ => true
  | _ :: r => containsExpansion r
  | [] => false

inductive ParseRes where
  | ok (props : KV)
  | malformed            -- LoadFile returns an error
  | expansion            -- some value contains "${": outside the model
  deriving Repr, DecidableEq

def parseProps (text : Str) : ParseRes :=
  match lexPairs text with
  | none => .malformed
  | some pairs =>
    let props := buildProps pairs
    if props.any (fun p => containsExpansion p.2) then .expansion else .ok props

/-- `DefaultFileParser.Read`: the keys with a non-empty value -/
def readMap (props : KV) : KV := props.filter (fun p => !p.2.isEmpty)

theorem lexRun_append (s : LexSt) (a b : Str) : lexRun s (a ++ b) = lexRun (lexRun s a) b := by
  simp [lexRun, List.foldl_append]

end Conf
