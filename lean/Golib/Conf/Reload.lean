/-
  Golib.Conf.Reload — FileConfig as a state machine: the reload decision, apply (merge of
  the parsed keys into the map), reset to defaults when the file disappears, observer
  notification.

  `Ver` abstracts what reload compares.  Today the code compares `ModTime().Unix()` (whole
  seconds, `verSec`); with proposed/C18/fix-D37.diff it compares `ModTime().UnixNano()` and the
  size (`verFull`).
-/
import Golib.Conf.Write

namespace Conf

/-- the file as reload sees it: modification time in nanoseconds, content -/
structure FileSt where
  mtimeNs : Int
  text : Str
  deriving Repr, DecidableEq

/-- what is remembered about the version last loaded: (time, size) -/
abbrev Ver := Int × Int

def verFull (f : FileSt) : Ver := (f.mtimeNs, (utf8Len f.text : Int))
/-- `ModTime().Unix()`: floor division by 10^9; the size is not looked at -/
def verSec (f : FileSt) : Ver := (f.mtimeNs / 1000000000, 0)

structure Cfg where
  m : KV
  last : Ver                 -- (last_file_time, last_file_size); (-1,_) initially, (0,_) after a reset
  notified : Nat             -- how many times ConfigObserver.Run was called
  deriving Repr, DecidableEq

def Cfg.init : Cfg := { m := [], last := (-1, 0), notified := 0 }

def defaults : KV := [
  ("enabled", "true"), ("net_udp_port", "6600"), ("transaction_enabled", "true"),
  ("profile_http_header_enabled", "false"), ("profile_http_header_url_prefix", "/"),
  ("profile_http_parameter_enabled", "false"), ("profile_http_parameter_url_prefix", "/"),
  ("profile_sql_param_enabled", "false"),
  ("trace_user_enabled", "true"), ("trace_user_using_ip", "false"), ("trace_user_header_ticket", ""),
  ("trace_user_set_cookie", "false"), ("trace_user_cookie_limit", "2048"), ("trace_user_cookie_keys", ""),
  ("trace_http_client_ip_header_key_enabled", "true"), ("trace_http_client_ip_header_key", "x-forwarded-for"),
  ("mtrace_enabled", "true"), ("mtrace_caller_key", "x-wtap-mst"), ("mtrace_callee_key", "x-wtap-tx"),
  ("mtrace_info_key", "x-wtap-inf"), ("mtrace_poid_key", "x-wtap-po"), ("mtrace_spec_key", "x-wtap-sp"),
  ("mtrace_spec_key1", "x-wtap-sp1"), ("mtrace_send_url_length", "80"), ("mtrace_spec", "ver1.0"),
  ("mtrace_rate", "10"), ("tx_max_count", "8000"), ("debug", "false")
].map (fun p => (p.1.toList, p.2.toList))

/-- `FileConfig.apply`: every non-empty value of the parsed map is stored -/
def applyMerge (m : KV) (newM : KV) : KV :=
  newM.foldl (fun acc kv => if kv.2.isEmpty then acc else put acc kv.1 kv.2) m

inductive ReloadRes where
  | nofile | reset | same | loaded | parseErr | expansion
  deriving Repr, DecidableEq

/-- one `reload()` (throttle already passed).  `ver` is the version function of the code. -/
def reload (ver : FileSt → Ver) (c : Cfg) (file : Option FileSt) : Cfg × ReloadRes :=
  match file with
  | none =>
    if c.last.1 == -1 then (c, .nofile)
    else if c.last.1 == 0 then (c, .nofile)
    else ({ c with last := (0, c.last.2), m := applyMergeAll [] defaults }, .reset)
  | some f =>
    let v := ver f
    if c.last == v then (c, .same)
    else
      let c1 := { c with last := v }
      match parseProps f.text with
      | .malformed => (c1, .parseErr)
      | .expansion => (c1, .expansion)
      | .ok props => ({ c1 with m := applyMerge c1.m (readMap props), notified := c1.notified + 1 }, .loaded)
where
  /-- ApplyDefault assigns every entry, empty values included -/
  applyMergeAll (m : KV) (d : KV) : KV := d.foldl (fun acc kv => put acc kv.1 kv.2) m

end Conf
