/-
  Golib.Conf.Locks — atomic-action model of one reload (`apply`: a sequence of map stores)
  running concurrently with one reader section (a getter: one lookup; GetKeys / String /
  an observer: several lookups in one go).

  `locked = true` is the discipline of proposed/C18/fix-D36.diff — and what the regenerated lock
  facts (Golib.Gen.C18, tie A) must show: every store happens inside `mu.Lock()`, every
  read section inside `mu.RLock()`.  A thread that cannot take the lock does not move.
  `locked = false` is the unchanged code.  The Go runtime additionally aborts the process when
  it notices a map read overlapping a map write; that detector is not modelled — the model
  shows the torn observation that the missing lock allows.
-/
import Golib.Conf.Reload

namespace Conf

/-- what a writer section does to the map: a store `m[k] = v`, or the replacement by a fresh empty
    map (`this.m = make(…)`, the reset when the file disappeared) -/
inductive WOp where
  | store (k v : Str)
  | clear
  deriving Repr, DecidableEq

def WOp.apply (m : KV) : WOp → KV
  | .store k v => put m k v
  | .clear => []

def storesOf (kvs : KV) : List WOp := kvs.map (fun p => .store p.1 p.2)

inductive WPh where
  | idle | busy (todo : List WOp) | done
  deriving Repr, DecidableEq

inductive RPh where
  | idle | busy (todo : List Str) | done
  deriving Repr, DecidableEq

structure MSt where
  w : WPh
  r : RPh
  m : KV
  obs : List (Option Str)      -- what the reader saw, in order
  deriving Repr, DecidableEq

inductive Who where
  | writer | reader
  deriving Repr, DecidableEq

def WPh.isBusy : WPh → Bool
  | .busy _ => true
  | _ => false
def RPh.isBusy : RPh → Bool
  | .busy _ => true
  | _ => false

def stepM (locked : Bool) (kvs : List WOp) (reads : List Str) (s : MSt) : Who → MSt
  | .writer =>
    match s.w with
    | .idle => if locked && s.r.isBusy then s else { s with w := .busy kvs }
    | .busy [] => { s with w := .done }
    | .busy (op :: rest) => { s with m := op.apply s.m, w := .busy rest }
    | .done => s
  | .reader =>
    match s.r with
    | .idle => if locked && s.w.isBusy then s else { s with r := .busy reads }
    | .busy [] => { s with r := .done }
    | .busy (k :: rest) => { s with obs := s.obs ++ [lookup s.m k], r := .busy rest }
    | .done => s

def initM (old : KV) : MSt := { w := .idle, r := .idle, m := old, obs := [] }

def runM (locked : Bool) (old : KV) (kvs : List WOp) (reads : List Str) (sched : List Who) : MSt :=
  sched.foldl (stepM locked kvs reads) (initM old)

def storeAll (old : KV) (kvs : List WOp) : KV := kvs.foldl WOp.apply old

/-- the invariant of the locked machine -/
def LInv (old : KV) (kvs : List WOp) (reads : List Str) (s : MSt) : Prop :=
  (match s.w with
   | .idle => s.m = old
   | .busy todo => ∃ dn, kvs = dn ++ todo ∧ s.m = storeAll old dn
   | .done => s.m = storeAll old kvs) ∧
  (match s.r with
   | .idle => s.obs = []
   | .busy todo => s.w.isBusy = false ∧ ∃ dn, reads = dn ++ todo ∧ s.obs = dn.map (lookup s.m)
   | .done => s.obs = reads.map (lookup old) ∨ s.obs = reads.map (lookup (storeAll old kvs))) ∧
  (s.w.isBusy = true → s.r.isBusy = false)

theorem storeAll_append (old : KV) (a b : List WOp) : storeAll old (a ++ b) = storeAll (storeAll old a) b := by
  simp [storeAll, List.foldl_append]

theorem linv_step (old : KV) (kvs : List WOp) (reads : List Str) (s : MSt) (who : Who)
    (h : LInv old kvs reads s) : LInv old kvs reads (stepM true kvs reads s who) := by
  obtain ⟨w, r, m, obs⟩ := s
  obtain ⟨hw, hr, hx⟩ := h
  cases who with
  | writer =>
    cases w with
    | idle =>
      cases r with
      | idle =>
        simp only [stepM, RPh.isBusy, Bool.and_false, Bool.false_eq_true, if_false]
        exact ⟨⟨[], by simp, by simpa [storeAll] using hw⟩, hr, by simp [RPh.isBusy]⟩
      | busy todo => simpa [stepM, RPh.isBusy] using ⟨hw, hr, hx⟩
      | done =>
        simp only [stepM, RPh.isBusy, Bool.and_false, Bool.false_eq_true, if_false]
        exact ⟨⟨[], by simp, by simpa [storeAll] using hw⟩, hr, by simp [RPh.isBusy]⟩
    | busy todo =>
      have hrb : r.isBusy = false := hx (by simp [WPh.isBusy])
      cases todo with
      | nil =>
        obtain ⟨dn, e1, e2⟩ := hw
        simp only [stepM]
        refine ⟨by simp at e1; subst e1; exact e2, ?_, by simp [WPh.isBusy]⟩
        cases r with
        | idle => exact hr
        | busy t => simp [RPh.isBusy] at hrb
        | done => exact hr
      | cons p rest =>
        obtain ⟨dn, e1, e2⟩ := hw
        simp only [stepM]
        refine ⟨⟨dn ++ [p], by simp [e1], ?_⟩, ?_, fun _ => hrb⟩
        · simp only [] at e2
          rw [storeAll_append, ← e2]; simp [storeAll]
        · cases r with
          | idle => exact hr
          | busy t => simp [RPh.isBusy] at hrb
          | done => exact hr
    | done => simpa [stepM] using ⟨hw, hr, hx⟩
  | reader =>
    cases r with
    | idle =>
      cases w with
      | idle =>
        simp only [stepM, WPh.isBusy, Bool.and_false, Bool.false_eq_true, if_false]
        exact ⟨hw, ⟨rfl, [], by simp, by simpa using hr⟩, by simp [WPh.isBusy]⟩
      | busy todo => simpa [stepM, WPh.isBusy] using ⟨hw, hr, hx⟩
      | done =>
        simp only [stepM, WPh.isBusy, Bool.and_false, Bool.false_eq_true, if_false]
        exact ⟨hw, ⟨rfl, [], by simp, by simpa using hr⟩, by simp [WPh.isBusy]⟩
    | busy todo =>
      obtain ⟨hwb, dn, e1, e2⟩ := hr
      cases todo with
      | nil =>
        simp only [stepM]
        refine ⟨hw, ?_, fun _ => by simp [RPh.isBusy]⟩
        simp only [List.append_nil] at e1
        subst e1
        cases w with
        | idle => left; simp only [] at hw e2; rw [e2, hw]
        | busy t => simp [WPh.isBusy] at hwb
        | done => right; simp only [] at hw e2; rw [e2, hw]
      | cons k rest =>
        simp only [stepM]
        refine ⟨hw, ⟨hwb, dn ++ [k], by simp [e1], ?_⟩, fun hb => by simp only [] at hb hwb; rw [hwb] at hb; cases hb⟩
        simp only [] at e2
        simp [e2]
    | done => simpa [stepM] using ⟨hw, hr, hx⟩

theorem linv_run (old : KV) (kvs : List WOp) (reads : List Str) (sched : List Who) :
    LInv old kvs reads (runM true old kvs reads sched) := by
  unfold runM
  have h0 : LInv old kvs reads (initM old) := ⟨rfl, rfl, by simp [initM, WPh.isBusy]⟩
  generalize initM old = s at h0
  induction sched generalizing s with
  | nil => exact h0
  | cons a r ih => exact ih _ (linv_step old kvs reads s a h0)

/-- under the lock discipline a finished read section saw the complete old map or the
    complete new map, for every schedule -/
theorem locked_no_torn_read (old : KV) (kvs : List WOp) (reads : List Str) (sched : List Who)
    (hdone : (runM true old kvs reads sched).r = .done) :
    (runM true old kvs reads sched).obs = reads.map (lookup old) ∨
    (runM true old kvs reads sched).obs = reads.map (lookup (storeAll old kvs)) := by
  have h := (linv_run old kvs reads sched).2.1
  rw [hdone] at h
  exact h

/-- … and the map it leaves behind is the merged one -/
theorem locked_final_map (old : KV) (kvs : List WOp) (reads : List Str) (sched : List Who)
    (hdone : (runM true old kvs reads sched).w = .done) :
    (runM true old kvs reads sched).m = storeAll old kvs := by
  have h := (linv_run old kvs reads sched).1
  rw [hdone] at h
  exact h

end Conf
