/-
  Golib.Conf.WriteExtras — order / comment preservation, SetValues, non-vacuity helpers.
-/
import Golib.Conf.WriteMerge

namespace Conf

theorem outLine_some_kv (props : KV) (l k pv : Str) :
    outLine props (l, some (k, pv)) =
      if isBlankVal ((lookup props k).getD []) then none
      else some (renderKV k ((lookup props k).getD []), some (k, (lookup props k).getD [])) := rfl

theorem skip_body (props : KV) (infos : List LineInfo) :
    ((infos.filterMap (outLine props)).filter (fun li => li.2.isNone)).map (·.1) =
    (infos.filter (fun li => li.2.isNone)).map (·.1) := by
  induction infos with
  | nil => rfl
  | cons li r ih =>
    obtain ⟨l, o⟩ := li
    cases o with
    | none =>
      have : outLine props (l, none) = some (l, none) := rfl
      simp only [List.filterMap_cons, this, List.filter_cons, Option.isNone_none, if_true, List.map_cons, ih]
    | some p =>
      obtain ⟨k, pv⟩ := p
      simp only [List.filterMap_cons, outLine_some_kv]
      by_cases hb : isBlankVal ((lookup props k).getD []) = true
      · simp only [hb, if_true, List.filter_cons, Option.isNone_some, Bool.false_eq_true, if_false, ih]
      · simp only [hb, if_false, List.filter_cons, Option.isNone_some, Bool.false_eq_true, ih]

/-- lines that are not key=value lines survive unchanged, in order -/
theorem skipLines_preserved (props : KV) (infos : List LineInfo) :
    ((outInfos props infos).filter (fun li => li.2.isNone)).map (·.1) =
    (infos.filter (fun li => li.2.isNone)).map (·.1) := by
  have happ : (appendedInfos props ((pairsOf infos).map (·.1))).filter (fun li => li.2.isNone) = [] := by
    rw [List.filter_eq_nil_iff]
    intro li hli
    simp only [appendedInfos, List.mem_filterMap] at hli
    obtain ⟨kv, _, ho⟩ := hli
    split at ho
    · simp at ho
    · split at ho
      · simp at ho
      · split at ho
        · simp at ho
        · simp at ho; subst ho; simp
  simp only [outInfos, List.filter_append, happ, List.append_nil]
  exact skip_body props infos

theorem kv_body (props : KV) (infos : List LineInfo) :
    (infos.filterMap (outLine props)).filterMap (·.2) =
      (infos.filterMap (·.2)).filterMap (fun p =>
        if isBlankVal ((lookup props p.1).getD []) then none else some (p.1, (lookup props p.1).getD [])) := by
  induction infos with
  | nil => rfl
  | cons li r ih =>
    obtain ⟨l, o⟩ := li
    cases o with
    | none =>
      have : outLine props (l, none) = some (l, none) := rfl
      simp only [List.filterMap_cons, this, ih]
    | some p =>
      obtain ⟨k, pv⟩ := p
      simp only [List.filterMap_cons, outLine_some_kv]
      by_cases hb : isBlankVal ((lookup props k).getD []) = true
      · simp only [hb, if_true, ih]
      · have hb' : isBlankVal ((lookup props k).getD []) = false := by simpa using hb
        simp [hb', ih]

/-- the key=value lines that remain are the old ones whose merged value is not blank, in the old
    order and with the merged value; the appended lines come after them -/
theorem kv_order_preserved (props : KV) (infos : List LineInfo) :
    pairsOf (outInfos props infos) =
      ((pairsOf infos).filterMap (fun p =>
        if isBlankVal ((lookup props p.1).getD []) then none else some (p.1, (lookup props p.1).getD [])))
      ++ pairsOf (appendedInfos props ((pairsOf infos).map (·.1))) := by
  simp only [outInfos, pairsOf, List.filterMap_append]
  rw [kv_body]

/-- the appended lines are exactly the visible entries of the merged map that had no line -/
theorem appended_keys (props : KV) (oldKeys : List Str) (hp : PropsWF props) :
    pairsOf (appendedInfos props oldKeys) =
      props.filter (fun kv => !oldKeys.contains kv.1 && !isBlankVal kv.2) := by
  unfold pairsOf appendedInfos
  induction props with
  | nil => rfl
  | cons kv r ih =>
    have hw : isWordStart kv.1 = true := (hp kv (by simp)).1.1
    have ihr := ih (fun q hq => hp q (List.mem_cons_of_mem _ hq))
    simp only [List.filterMap_cons, List.filter_cons]
    cases h1 : oldKeys.contains kv.1 <;> cases h2 : isBlankVal kv.2 <;>
      simp only [hw, Bool.not_true, Bool.false_eq_true, if_false, if_true, Bool.not_false,
        Bool.and_self, Bool.and_false, Bool.false_and, List.filterMap_cons, ihr]

/-! ### merged map = file ⊕ assignments -/

theorem lookup_setAll_skip (props M : KV) (k : Str) (h : ∀ p ∈ M, p.1 ≠ k) :
    lookup (setAll props M) k = lookup props k := by
  unfold setAll
  induction M generalizing props with
  | nil => rfl
  | cons p r ih =>
    simp only [List.foldl_cons]
    rw [ih _ (fun q hq => h q (List.mem_cons_of_mem _ hq))]
    split
    · rfl
    · exact lookup_put_other props p.1 p.2 k (fun e => h p (by simp) e.symm)

theorem lookup_setAll_mem (props M : KV) (k v : Str) (hn : KeysNodup M) (hm : (k, v) ∈ M)
    (hk : k ≠ []) : lookup (setAll props M) k = some v := by
  unfold setAll
  induction M generalizing props with
  | nil => cases hm
  | cons p r ih =>
    simp only [KeysNodup, keysOf, List.map_cons, List.nodup_cons] at hn
    simp only [List.foldl_cons]
    rcases List.mem_cons.mp hm with e | e
    · subst e
      have hne : (k, v).1.isEmpty = false := by cases k <;> simp_all
      simp only [hne, Bool.false_eq_true, if_false]
      have := lookup_setAll_skip (put props k v) r k (by
        intro q hq e2
        exact hn.1 (List.mem_map.mpr ⟨q, hq, e2⟩))
      unfold setAll at this
      rw [this, lookup_put_same]
    · exact ih _ hn.2 e

/-! ### SetValues -/

theorem propsWF_filter (m : KV) (f : Str × Str → Bool) (h : PropsWF m) : PropsWF (m.filter f) :=
  fun p hp => h p (List.mem_filter.mp hp).1

theorem setValues_merge (pre suf : Str) (excl : List Str) (infos : List LineInfo) (kvs : KV)
    (hwf : WFprops infos)
    (hkv : ∀ kv ∈ kvs, ∀ k', finalKey pre suf excl kv.1 = some k' → WFkey k' ∧ (kv.2 = [] ∨ WFval kv.2)) :
    ∃ tmp out, setValuesModel true pre suf excl (textOf infos) kvs = some out ∧
      writeModel true (textOf infos) tmp = some out ∧
      ∃ outPairs, lexPairs out.text = some outPairs ∧
        ∀ key, lookup (readMap (buildProps outPairs)) key =
               visible (setAll (buildProps (pairsOf infos)) tmp) key := by
  let tmp0 := readMap (buildProps (pairsOf infos))
  let f := fun (t : KV) (kv : Str × Str) =>
      match finalKey pre suf excl kv.1 with
      | some k => put t k kv.2
      | none => t
  have h0 : PropsWF tmp0 :=
    propsWF_filter _ _ (propsWF_foldl_put _ [] (by intro p hp; cases hp) (propsWF_pairsOf infos hwf))
  have hfold : ∀ (ks : KV) (t : KV), PropsWF t →
      (∀ kv ∈ ks, ∀ k', finalKey pre suf excl kv.1 = some k' → WFkey k' ∧ (kv.2 = [] ∨ WFval kv.2)) →
      PropsWF (ks.foldl f t) := by
    intro ks
    induction ks with
    | nil => intro t ht _; exact ht
    | cons kv r ih =>
      intro t ht hks
      simp only [List.foldl_cons]
      apply ih
      · simp only [f]
        cases hfk : finalKey pre suf excl kv.1 with
        | none => exact ht
        | some k' =>
          have := hks kv (by simp) k' hfk
          exact propsWF_put t k' kv.2 ht this.1 this.2
      · exact fun q hq => hks q (List.mem_cons_of_mem _ hq)
  have htmp : PropsWF (kvs.foldl f tmp0) := hfold kvs tmp0 h0 hkv
  obtain ⟨out, ho, rest⟩ := writeModel_merge infos (kvs.foldl f tmp0) hwf htmp
  refine ⟨kvs.foldl f tmp0, out, ?_, ho, rest⟩
  simp only [setValuesModel, lexPairs_textOf infos hwf]
  exact ho

/-! ### which lines are well-formed (non-vacuity helpers) -/

theorem lexRun_comment (cs : Str) (out : KV) (h : ∀ c ∈ cs, isEOL c = false) :
    lexRun ⟨.cm, out⟩ cs = ⟨.cm, out⟩ := by
  induction cs with
  | nil => rfl
  | cons c r ih =>
    rw [lexRun_cons]
    have : step ⟨.cm, out⟩ c = ⟨.cm, out⟩ := by simp [step, h c (by simp)]
    rw [this, ih (fun x hx => h x (List.mem_cons_of_mem _ hx))]

/-- a line starting with '#' is a comment line, whatever it contains (including '=') -/
theorem hash_comment_skipline (cs : Str) (h : NoBreak cs) : SkipLine ('#' :: cs) := by
  refine ⟨?_, Or.inr (by simp [isCommentLine, List.dropWhile, isWs, isCommentStart]), ?_⟩
  · intro c hc
    rcases List.mem_cons.mp hc with e | e
    · subst e; decide
    · exact h c e
  · intro out
    simp only [List.cons_append, lexRun_cons]
    have s1 : step ⟨.bk, out⟩ '#' = ⟨.cm, out⟩ := by
      have e1 : isEOL '#' = false := by decide
      have e2 : isWs '#' = false := by decide
      have e3 : isCommentStart '#' = true := by decide
      simp [step, e1, e2, e3]
    rw [s1, lexRun_append, lexRun_comment cs out (by
      intro c hc
      have := h c hc
      simp [isEOL, this.1, this.2])]
    rw [lexRun_cons, lexRun_nil]
    have : isEOL '\n' = true := by decide
    simp [step, this]

theorem empty_skipline : SkipLine [] := by
  refine ⟨(by intro c hc; cases hc), Or.inl rfl, ?_⟩
  intro out
  have : isEOL '\n' = true := by decide
  simp [lexRun, step, this]

end Conf
