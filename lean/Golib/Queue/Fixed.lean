/-
  Golib.Queue.Fixed — the model of the queues *with the proposed repair of the known finding*
  `…GetTimeout:nil-element-swallowed` (proposed/C11/fix-KF-nil-element-swallowed.diff): the timed get polls
  with an explicit "taken" flag, so a nil element is handed out like any other element (as Get / GetNoWait
  do) instead of being popped and dropped.  Everything else is `Queue.step` / `Queue.dstep` unchanged.

  With the repair the property's conservation law holds without the `swallowed` term, for all elements,
  and the double queue's timed get obeys the first-queue priority without exception.  The harness detects
  which behaviour the implementation has and compares with `step` or `stepF` accordingly.
-/
import Golib.Queue.Thms

namespace Queue

/-- the repaired polling loop seen sequentially: the first poll that finds the queue non-empty returns
    its head, nil or not -/
def getTimeoutLoopF : Nat → List Nat → List Nat × Nat × List Ev
  | 0, items => (items, 0, [])
  | _ + 1, [] => ([], 0, [])
  | _ + 1, x :: r => (r, x, [.delivered x])

def stepF (q : Q) : Op → Q × Ret × List Ev
  | .getTimeout k =>
    let t := getTimeoutLoopF (k + 1) q.items
    ({ q with items := t.1 }, .val t.2.1, t.2.2)
  | op => step q op

def runF (q : Q) : List Op → Q × List Ret × List Ev
  | [] => (q, [], [])
  | op :: ops =>
    let s := stepF q op
    let r := runF s.1 ops
    (r.1, s.2.1 :: r.2.1, s.2.2 ++ r.2.2)

theorem stepF_getTimeout (q : Q) (k : Nat) : stepF q (.getTimeout k) = step q .getNoWait := by
  cases q with
  | mk items cap => cases items <;> simp [stepF, step, getTimeoutLoopF]

theorem stepF_other (q : Q) (op : Op) (h : ∀ k, op ≠ .getTimeout k) : stepF q op = step q op := by
  cases op <;> first | rfl | exact absurd rfl (h _)

/-- with the repair a timed get that finds an element is a GetNoWait: same state, value, events -/
theorem stepF_eq (q : Q) (op : Op) :
    stepF q op = match op with | .getTimeout _ => step q .getNoWait | o => step q o := by
  cases op <;> first | rfl | exact stepF_getTimeout q _

theorem stepF_fifo (q : Q) (op : Op) :
    q.items ++ acceptedOf (stepF q op).2.2 = leftOf (stepF q op).2.2 ++ (stepF q op).1.items := by
  rw [stepF_eq]
  cases op <;> exact step_fifo q _

theorem stepF_no_swallow (q : Q) (op : Op) : swallowedOf (stepF q op).2.2 = [] := by
  rw [stepF_eq]
  have key : ∀ o : Op, (∀ k, o ≠ .getTimeout k) → swallowedOf (step q o).2.2 = [] := by
    intro o ho
    cases o with
    | put x => simp only [step]; split <;> simp [swallowedOf]
    | putForce x =>
      simp only [step]; split
      · simp [swallowedOf]
      · simp [swallowedOf_append, swallowedOf]
    | get => simp only [step]; split <;> simp [swallowedOf]
    | getNoWait => simp only [step]; split <;> simp [swallowedOf]
    | getTimeout k => exact absurd rfl (ho k)
    | clear => simp [step]
    | setCapacity c => simp [step, swallowedOf]
    | size => simp [step, swallowedOf]
    | getCapacity => simp [step, swallowedOf]
  cases op <;> first | exact key _ (by intro k h; cases h) | exact key .getNoWait (by intro k h; cases h)

theorem runF_fifo (q : Q) (ops : List Op) :
    q.items ++ acceptedOf (runF q ops).2.2 = leftOf (runF q ops).2.2 ++ (runF q ops).1.items := by
  induction ops generalizing q with
  | nil => simp [runF, acceptedOf, leftOf]
  | cons op ops ih =>
    simp only [runF, acceptedOf_append, leftOf_append]
    rw [← List.append_assoc, stepF_fifo, List.append_assoc, ih, List.append_assoc]

theorem runF_no_swallow (q : Q) (ops : List Op) : swallowedOf (runF q ops).2.2 = [] := by
  induction ops generalizing q with
  | nil => rfl
  | cons op ops ih => simp only [runF, swallowedOf_append, stepF_no_swallow, ih, List.append_nil]

/-- **the property's conservation law, all elements, no exception** (repaired queue) -/
theorem conservationF (q : Q) (ops : List Op) :
    (q.items ++ acceptedOf (runF q ops).2.2).Perm
      (deliveredOf (runF q ops).2.2 ++ overflowedOf (runF q ops).2.2 ++ clearedOf (runF q ops).2.2 ++
        (runF q ops).1.items) := by
  rw [runF_fifo]
  have h := left_partition (runF q ops).2.2
  rw [runF_no_swallow, List.append_nil] at h
  exact h.append_right _

/-- the repaired double queue: the timed get is one poll -/
def dstepF (d : DQ) : DOp → DQ × Ret × List DEv
  | .getTimeout _ => let p := d.poll; (p.1, .val p.2.1, p.2.2)
  | op => dstep d op

/-- … and obeys the priority of the first queue without exception -/
theorem double_priority_timed_fixed (d : DQ) (k : Nat) (x : Nat)
    (h : (2, Ev.delivered x) ∈ (dstepF d (.getTimeout k)).2.2) : d.q1.items = [] := by
  have : dstepF d (.getTimeout k) = dstep d .getNoWait := rfl
  rw [this] at h
  exact double_second_only_if_first_empty d .getNoWait (Or.inr rfl) x (Or.inl h)

/-- the witness of the finding behaves correctly under the repair: the nil element is delivered -/
example : (stepF ⟨[0, 5], 0⟩ (.getTimeout 3)).2 = (.val 0, [.delivered 0]) := by decide
example : (runF ⟨[], 0⟩ [.put 0, .put 5, .getTimeout 3, .size]).2.1 = [.bool true, .bool true, .val 0, .int 1] := by decide

end Queue
