/-
  Golib.Queue.TimedMany — several timed gets on one queue at the same time.

  `RequestQueue.GetTimeout` (the code as it stands, with the `poll() (v, taken)` helper) is a loop

      timeto := now() + timeout
      for { if v, ok := poll(); ok { return v }; sleep(t/3); t = timeto - now(); if t <= 0 { return nil } }

  A history with `n` timed consumers is a list of events: an operation of some *other* thread (producers,
  blocking consumers, Clear …, linearized as one `stepF`), or consumer `i` being scheduled for one turn of
  its loop (`poll i now`: it polls; if the queue is empty it sleeps and then reads the clock `now`).
  Every consumer carries its *own* deadline.  The order of the events is arbitrary (adversarial
  scheduler), the clock readings are arbitrary (no monotonicity is needed for the lower bound).

  Proved: a consumer's call ends only in one of its own turns (`mstep_frame`), it ends empty-handed only
  at a clock reading at or after *its own* deadline, in a turn that found the queue empty
  (`mrun_timedOut`), a turn hands an element to exactly that consumer (`mstep_poll_delivers`), and the
  queue content / event list of the whole history is that of a sequential history of the repaired model
  (`mrun_sequential`), so `runF_fifo` and `conservationF` hold for it.
-/
import Golib.Queue.Fixed

namespace Queue

inductive MEv where
  | other (op : Op)
  | poll (i : Nat) (now : Int)
  deriving DecidableEq, Repr

/-- a timed consumer: its deadline and, once the call has returned, the result -/
structure TC where
  timeto : Int
  res : Option TimedRes
  deriving DecidableEq, Repr

structure MSt where
  q : Q
  cs : List TC
  deriving DecidableEq, Repr

def MSt.res (s : MSt) (i : Nat) : Option TimedRes := (s.cs[i]?).bind (·.res)
def MSt.timeto (s : MSt) (i : Nat) : Option Int := (s.cs[i]?).map (·.timeto)

/-- all consumers still in their call -/
def MSt.start (q : Q) (deadlines : List Int) : MSt := ⟨q, deadlines.map (fun d => ⟨d, none⟩)⟩

def mstep (s : MSt) : MEv → MSt × List Ev
  | .other op => let r := stepF s.q op; ({ s with q := r.1 }, r.2.2)
  | .poll i now =>
    match s.cs[i]? with
    | none => (s, [])
    | some c =>
      match c.res with
      | some _ => (s, [])                      -- that call has returned already
      | none =>
        match s.q.items with
        | x :: r => (⟨{ s.q with items := r }, s.cs.set i { c with res := some (.got x) }⟩, [.delivered x])
        | [] =>
          if c.timeto - now ≤ 0 then (⟨s.q, s.cs.set i { c with res := some (.timedOut now) }⟩, [])
          else (s, [])

def mrun (s : MSt) : List MEv → MSt × List Ev
  | [] => (s, [])
  | e :: es =>
    let a := mstep s e
    let b := mrun a.1 es
    (b.1, a.2 ++ b.2)

/-- accumulator form for the driver -/
def mrunTR (s : MSt) : List MEv → List Ev → MSt × List Ev
  | [], acc => (s, acc.reverse)
  | e :: es, acc => let a := mstep s e; mrunTR a.1 es (a.2.reverse ++ acc)

theorem mrunTR_eq (s : MSt) (es : List MEv) (acc : List Ev) :
    mrunTR s es acc = ((mrun s es).1, acc.reverse ++ (mrun s es).2) := by
  induction es generalizing s acc with
  | nil => simp [mrunTR, mrun]
  | cons e es ih => simp [mrunTR, mrun, ih, List.append_assoc]

/-! ### one step -/

theorem res_set_self (cs : List TC) (i : Nat) (c c' : TC) (h : cs[i]? = some c) :
    ((cs.set i c')[i]?) = some c' := by
  have hi : i < cs.length := (List.getElem?_eq_some_iff.mp h).1
  simp [hi]

theorem res_set_other (cs : List TC) (i j : Nat) (c' : TC) (h : j ≠ i) :
    ((cs.set i c')[j]?) = cs[j]? := by
  simp [Ne.symm h]

/-- deadlines never change -/
theorem mstep_timeto (s : MSt) (e : MEv) (j : Nat) : (mstep s e).1.timeto j = s.timeto j := by
  cases e with
  | other op => rfl
  | poll i now =>
    simp only [mstep]
    split
    · rfl
    · rename_i c hc
      split
      · rfl
      · split
        · by_cases hji : j = i
          · subst hji; simp [MSt.timeto, res_set_self _ _ _ _ hc, hc]
          · simp [MSt.timeto, res_set_other _ _ _ _ hji]
        · split
          · by_cases hji : j = i
            · subst hji; simp [MSt.timeto, res_set_self _ _ _ _ hc, hc]
            · simp [MSt.timeto, res_set_other _ _ _ _ hji]
          · rfl

/-- **frame**: the call of consumer `j` is ended by nothing but a turn of consumer `j` itself — not by an
    operation of another thread, not by another consumer's turn (its deadline, or it taking an element) -/
theorem mstep_frame (s : MSt) (e : MEv) (j : Nat) (h : ∀ now, e ≠ .poll j now) :
    (mstep s e).1.res j = s.res j := by
  cases e with
  | other op => rfl
  | poll i now =>
    have hji : j ≠ i := fun hh => h now (by rw [hh])
    simp only [mstep]
    split
    · rfl
    · split
      · rfl
      · split
        · simp [MSt.res, res_set_other _ _ _ _ hji]
        · split
          · simp [MSt.res, res_set_other _ _ _ _ hji]
          · rfl

/-- what a turn of consumer `i` does to its own call: complete case analysis -/
theorem mstep_own (s : MSt) (i : Nat) (now : Int) :
    (s.res i ≠ none ∧ mstep s (.poll i now) = (s, [])) ∨
    (s.timeto i = none ∧ mstep s (.poll i now) = (s, [])) ∨
    (s.res i = none ∧ ∃ d, s.timeto i = some d ∧
      ((∃ x r, s.q.items = x :: r ∧ (mstep s (.poll i now)).1.res i = some (.got x) ∧
          (mstep s (.poll i now)).1.q = { s.q with items := r } ∧ (mstep s (.poll i now)).2 = [.delivered x]) ∨
       (s.q.items = [] ∧ d - now ≤ 0 ∧ (mstep s (.poll i now)).1.res i = some (.timedOut now) ∧
          (mstep s (.poll i now)).1.q = s.q ∧ (mstep s (.poll i now)).2 = []) ∨
       (s.q.items = [] ∧ d - now > 0 ∧ mstep s (.poll i now) = (s, [])))) := by
  cases hc : s.cs[i]? with
  | none => right; left; simp [MSt.timeto, hc, mstep]
  | some c =>
    cases hr : c.res with
    | some r => left; simp [MSt.res, hc, hr, mstep]
    | none =>
      right; right
      refine ⟨by simp [MSt.res, hc, hr], c.timeto, by simp [MSt.timeto, hc], ?_⟩
      cases hq : s.q.items with
      | cons x r =>
        left
        refine ⟨x, r, rfl, ?_, ?_, ?_⟩ <;> simp [mstep, hc, hr, hq, MSt.res, res_set_self _ _ _ _ hc]
      | nil =>
        right
        by_cases hd : c.timeto - now ≤ 0
        · left
          refine ⟨rfl, hd, ?_, ?_, ?_⟩ <;> simp [mstep, hc, hr, hq, hd, MSt.res, res_set_self _ _ _ _ hc]
        · right
          exact ⟨rfl, by omega, by simp [mstep, hc, hr, hq, hd]⟩

/-- a call that has returned stays returned, with the same result -/
theorem mstep_res_stable (s : MSt) (e : MEv) (j : Nat) (r : TimedRes) (h : s.res j = some r) :
    (mstep s e).1.res j = some r := by
  by_cases he : ∃ now, e = .poll j now
  · obtain ⟨now, rfl⟩ := he
    rcases mstep_own s j now with ⟨_, h2⟩ | ⟨_, h2⟩ | ⟨h1, _⟩
    · rw [h2]; exact h
    · rw [h2]; exact h
    · rw [h1] at h; cases h
  · rw [mstep_frame s e j (fun now hh => he ⟨now, hh⟩)]; exact h

/-- the queue part of a step is a sequential history of at most one operation of the repaired model:
    nothing, the other thread's operation, or a `GetNoWait` that found an element -/
theorem mstep_sequential (s : MSt) (e : MEv) :
    ∃ ops : List Op, ops.length ≤ 1 ∧ (mstep s e).1.q = (runF s.q ops).1 ∧ (mstep s e).2 = (runF s.q ops).2.2 := by
  cases e with
  | other op => exact ⟨[op], by simp, by simp [mstep, runF], by simp [mstep, runF]⟩
  | poll i now =>
    rcases mstep_own s i now with ⟨_, h2⟩ | ⟨_, h2⟩ | ⟨_, d, _, h3⟩
    · exact ⟨[], by simp, by simp [h2, runF], by simp [h2, runF]⟩
    · exact ⟨[], by simp, by simp [h2, runF], by simp [h2, runF]⟩
    · rcases h3 with ⟨x, r, hq, _, hq', hev⟩ | ⟨_, _, _, hq', hev⟩ | ⟨_, _, h2⟩
      · refine ⟨[.getNoWait], by simp, ?_, ?_⟩
        · rw [hq']; simp [runF, stepF, step, hq]
        · rw [hev]; simp [runF, stepF, step, hq]
      · exact ⟨[], by simp, by simp [hq', runF], by simp [hev, runF]⟩
      · exact ⟨[], by simp, by simp [h2, runF], by simp [h2, runF]⟩

/-! ### histories -/

theorem runF_append (q : Q) (a b : List Op) :
    runF q (a ++ b) = ((runF (runF q a).1 b).1, (runF q a).2.1 ++ (runF (runF q a).1 b).2.1,
      (runF q a).2.2 ++ (runF (runF q a).1 b).2.2) := by
  induction a generalizing q with
  | nil => simp [runF]
  | cons op a ih => simp [runF, ih, List.append_assoc]

/-- **the whole history is a sequential history of the repaired model** (the timed consumers' turns
    appear as the `GetNoWait`s that found something); at most one operation per event -/
theorem mrun_sequential (s : MSt) (es : List MEv) :
    ∃ ops : List Op, ops.length ≤ es.length ∧
      (mrun s es).1.q = (runF s.q ops).1 ∧ (mrun s es).2 = (runF s.q ops).2.2 := by
  induction es generalizing s with
  | nil => exact ⟨[], by simp, by simp [mrun, runF], by simp [mrun, runF]⟩
  | cons e es ih =>
    obtain ⟨o1, hl1, hq1, he1⟩ := mstep_sequential s e
    obtain ⟨o2, hl2, hq2, he2⟩ := ih (mstep s e).1
    refine ⟨o1 ++ o2, by simp; omega, ?_, ?_⟩
    · simp only [mrun, runF_append]; rw [hq2, hq1]
    · simp only [mrun, runF_append]; rw [he2, he1, hq1]

theorem mrun_timeto (s : MSt) (es : List MEv) (j : Nat) : (mrun s es).1.timeto j = s.timeto j := by
  induction es generalizing s with
  | nil => rfl
  | cons e es ih => simp only [mrun]; rw [ih, mstep_timeto]

theorem mrun_res_stable (s : MSt) (es : List MEv) (j : Nat) (r : TimedRes) (h : s.res j = some r) :
    (mrun s es).1.res j = some r := by
  induction es generalizing s with
  | nil => exact h
  | cons e es ih => simp only [mrun]; exact ih _ (mstep_res_stable s e j r h)

/-- **frame over histories**: if consumer `j` has no turn in the history its call is where it was -/
theorem mrun_frame (s : MSt) (es : List MEv) (j : Nat) (h : ∀ now, MEv.poll j now ∉ es) :
    (mrun s es).1.res j = s.res j := by
  induction es generalizing s with
  | nil => rfl
  | cons e es ih =>
    simp only [mrun]
    rw [ih _ (fun now hm => h now (by simp [hm]))]
    exact mstep_frame s e j (fun now hh => h now (by simp [hh]))

/-- **lower bound, each consumer by its own deadline**: whatever the other threads and the other timed
    consumers do, a call that was running at the start and has ended empty-handed did so in one of its
    own turns, `pre ++ poll j t :: post`, at a clock reading `t` at or after *its* deadline, and the queue
    was empty at that moment -/
theorem mrun_timedOut (s : MSt) (es : List MEv) (j : Nat) (t : Int)
    (h0 : s.res j = none) (h : (mrun s es).1.res j = some (.timedOut t)) :
    ∃ d pre post, s.timeto j = some d ∧ d - t ≤ 0 ∧ es = pre ++ MEv.poll j t :: post ∧
      (mrun s pre).1.q.items = [] ∧ (mrun s pre).1.res j = none := by
  induction es generalizing s with
  | nil => simp [mrun, h0] at h
  | cons e es ih =>
    simp only [mrun] at h
    cases hr : (mstep s e).1.res j with
    | none =>
      obtain ⟨d, pre, post, hd, hdt, hes, hq, hn⟩ := ih (mstep s e).1 hr h
      exact ⟨d, e :: pre, post, by rw [← hd, mstep_timeto], hdt, by simp [hes], by simpa [mrun] using hq,
        by simpa [mrun] using hn⟩
    | some r =>
      rw [mrun_res_stable _ es j r hr] at h
      have hrt : r = .timedOut t := by simpa using h
      subst hrt
      by_cases he : ∃ now, e = .poll j now
      · obtain ⟨now, rfl⟩ := he
        rcases mstep_own s j now with ⟨h1, _⟩ | ⟨_, h2⟩ | ⟨_, d, hd, h3⟩
        · exact absurd h0 h1
        · rw [h2, h0] at hr; cases hr
        · rcases h3 with ⟨x, r', _, hg, _, _⟩ | ⟨hq, hdn, hto, _, _⟩ | ⟨_, _, h2⟩
          · rw [hg] at hr; cases hr
          · rw [hto] at hr
            have : now = t := by simpa using hr
            subst this
            exact ⟨d, [], es, hd, hdn, rfl, by simpa [mrun] using hq, by simpa [mrun] using h0⟩
          · rw [h2, h0] at hr; cases hr
      · rw [mstep_frame s e j (fun now hh => he ⟨now, hh⟩), h0] at hr; cases hr

/-- a call that ended with an element took the head of the queue in one of its own turns -/
theorem mrun_got (s : MSt) (es : List MEv) (j : Nat) (x : Nat)
    (h0 : s.res j = none) (h : (mrun s es).1.res j = some (.got x)) :
    ∃ now pre post r, es = pre ++ MEv.poll j now :: post ∧ (mrun s pre).1.q.items = x :: r ∧
      (mrun s pre).1.res j = none := by
  induction es generalizing s with
  | nil => simp [mrun, h0] at h
  | cons e es ih =>
    simp only [mrun] at h
    cases hr : (mstep s e).1.res j with
    | none =>
      obtain ⟨now, pre, post, r, hes, hq, hn⟩ := ih (mstep s e).1 hr h
      exact ⟨now, e :: pre, post, r, by simp [hes], by simpa [mrun] using hq, by simpa [mrun] using hn⟩
    | some r =>
      rw [mrun_res_stable _ es j r hr] at h
      have hrt : r = .got x := by simpa using h
      subst hrt
      by_cases he : ∃ now, e = .poll j now
      · obtain ⟨now, rfl⟩ := he
        rcases mstep_own s j now with ⟨h1, _⟩ | ⟨_, h2⟩ | ⟨_, d, hd, h3⟩
        · exact absurd h0 h1
        · rw [h2, h0] at hr; cases hr
        · rcases h3 with ⟨y, r', hq, hg, _, _⟩ | ⟨_, _, hto, _, _⟩ | ⟨_, _, h2⟩
          · rw [hg] at hr
            have : y = x := by simpa using hr
            subst this
            exact ⟨now, [], es, r', rfl, by simpa [mrun] using hq, by simpa [mrun] using h0⟩
          · rw [hto] at hr; cases hr
          · rw [h2, h0] at hr; cases hr
      · rw [mstep_frame s e j (fun now hh => he ⟨now, hh⟩), h0] at hr; cases hr

/-- a turn that takes an element gives it to exactly that consumer: the one `delivered` event, the
    head leaves the queue, and every other consumer's call is untouched -/
theorem mstep_poll_delivers (s : MSt) (i : Nat) (now : Int) (x : Nat)
    (h : Ev.delivered x ∈ (mstep s (.poll i now)).2) :
    (mstep s (.poll i now)).2 = [.delivered x] ∧ (mstep s (.poll i now)).1.res i = some (.got x) ∧
    s.res i = none ∧ (∃ r, s.q.items = x :: r ∧ (mstep s (.poll i now)).1.q.items = r) ∧
    ∀ j, j ≠ i → (mstep s (.poll i now)).1.res j = s.res j := by
  have hfr : ∀ j, j ≠ i → (mstep s (.poll i now)).1.res j = s.res j := fun j hj =>
    mstep_frame s _ j (fun n hh => hj (by cases hh; rfl))
  rcases mstep_own s i now with ⟨_, h2⟩ | ⟨_, h2⟩ | ⟨h0, d, _, h3⟩
  · rw [h2] at h; cases h
  · rw [h2] at h; cases h
  · rcases h3 with ⟨y, r, hq, hg, hq', hev⟩ | ⟨_, _, _, _, hev⟩ | ⟨_, _, h2⟩
    · rw [hev] at h
      have : x = y := by simpa using h
      subst this
      exact ⟨hev, hg, h0, ⟨r, hq, by rw [hq']⟩, hfr⟩
    · rw [hev] at h; cases h
    · rw [h2] at h; cases h

end Queue
