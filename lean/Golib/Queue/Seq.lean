/-
  Golib.Queue.Seq — sequential CodeModel of util/queue/RequestQueue.go and
  RequestDoubleQueue.go (on top of util/list/LinkedList.go used as a FIFO).

  Elements are natural numbers; `0` stands for Go's `nil` element (the queue API uses `nil`
  as its "nothing" answer, so a `nil` element and "empty" are indistinguishable to a caller of
  GetNoWait — the model keeps that quirk, see `getTimeoutLoop`).

  The state is `(items, cap)`; every operation returns the new state, the value returned to the
  caller and the *events* it caused, in order: an element entering the queue (`accepted`),
  the two callbacks (`failed`, `overflowed`), an element handed to a consumer (`delivered`),
  an element dropped by Clear (`cleared`) and a `nil` element popped and thrown away by the
  polling loop of GetTimeout (`swallowed`).
-/

namespace Queue

structure Q where
  items : List Nat
  cap   : Int
  deriving DecidableEq, Repr

inductive Op where
  | put (x : Nat)
  | putForce (x : Nat)
  | get                         -- blocking get (returns `blocked` on an empty queue)
  | getNoWait
  | getTimeout (extraPolls : Nat)   -- 1 + extraPolls polls fit into the timeout
  | clear
  | setCapacity (c : Int)
  | size
  | getCapacity
  deriving DecidableEq, Repr

inductive Ev where
  | accepted (x : Nat)
  | failed (x : Nat)
  | overflowed (x : Nat)
  | delivered (x : Nat)
  | cleared (x : Nat)
  | swallowed (x : Nat)
  deriving DecidableEq, Repr

inductive Ret where
  | bool (b : Bool)
  | val (x : Nat)               -- an element; 0 = nil = "nothing"
  | int (n : Int)
  | unit
  | blocked                     -- the call would wait (only `get` on an empty queue)
  deriving DecidableEq, Repr

def Q.size (q : Q) : Nat := q.items.length

/-- the capacity test of every put: `capacity <= 0 || size < capacity` -/
def Q.room (q : Q) : Bool := q.cap ≤ 0 || (q.size : Int) < q.cap

/-- `for size >= capacity { o := RemoveFirst(); Overflowed(o) }` — returns (evicted, rest) -/
def evict (cap : Int) : List Nat → List Nat × List Nat
  | [] => ([], [])
  | x :: xs =>
    if ((x :: xs).length : Int) ≥ cap then
      let r := evict cap xs
      (x :: r.1, r.2)
    else ([], x :: xs)

/-- the polling loop of GetTimeout seen sequentially: each poll is a GetNoWait; a popped `nil`
    element looks like "nothing" and is dropped; `polls` polls fit before the deadline.
    Returns (remaining items, value, events). -/
def getTimeoutLoop : Nat → List Nat → List Nat × Nat × List Ev
  | 0, items => (items, 0, [])
  | _ + 1, [] => ([], 0, [])
  | k + 1, x :: r =>
    if x ≠ 0 then (r, x, [.delivered x])
    else
      let t := getTimeoutLoop k r
      (t.1, t.2.1, .swallowed 0 :: t.2.2)

def step (q : Q) : Op → Q × Ret × List Ev
  | .put x =>
    if q.room then ({ q with items := q.items ++ [x] }, .bool true, [.accepted x])
    else (q, .bool false, [.failed x])
  | .putForce x =>
    if q.room then ({ q with items := q.items ++ [x] }, .bool true, [.accepted x])
    else
      let r := evict q.cap q.items
      ({ q with items := r.2 ++ [x] }, .bool false, r.1.map .overflowed ++ [.accepted x])
  | .get =>
    match q.items with
    | [] => (q, .blocked, [])
    | x :: r => ({ q with items := r }, .val x, [.delivered x])
  | .getNoWait =>
    match q.items with
    | [] => (q, .val 0, [])
    | x :: r => ({ q with items := r }, .val x, [.delivered x])
  | .getTimeout k =>
    let t := getTimeoutLoop (k + 1) q.items
    ({ q with items := t.1 }, .val t.2.1, t.2.2)
  | .clear => ({ q with items := [] }, .unit, q.items.map .cleared)
  | .setCapacity c => ({ q with cap := c }, .unit, [])
  | .size => (q, .int q.size, [])
  | .getCapacity => (q, .int q.cap, [])

/-- run a history; events in chronological order -/
def run (q : Q) : List Op → Q × List Ret × List Ev
  | [] => (q, [], [])
  | op :: ops =>
    let s := step q op
    let r := run s.1 ops
    (r.1, s.2.1 :: r.2.1, s.2.2 ++ r.2.2)

/-! ### projections of an event list -/

def acceptedOf : List Ev → List Nat
  | [] => []
  | .accepted x :: r => x :: acceptedOf r
  | _ :: r => acceptedOf r

/-- the elements that left the queue, in the order they left -/
def leftOf : List Ev → List Nat
  | [] => []
  | .overflowed x :: r => x :: leftOf r
  | .delivered x :: r => x :: leftOf r
  | .cleared x :: r => x :: leftOf r
  | .swallowed x :: r => x :: leftOf r
  | _ :: r => leftOf r

def deliveredOf : List Ev → List Nat
  | [] => []
  | .delivered x :: r => x :: deliveredOf r
  | _ :: r => deliveredOf r

def overflowedOf : List Ev → List Nat
  | [] => []
  | .overflowed x :: r => x :: overflowedOf r
  | _ :: r => overflowedOf r

def clearedOf : List Ev → List Nat
  | [] => []
  | .cleared x :: r => x :: clearedOf r
  | _ :: r => clearedOf r

def swallowedOf : List Ev → List Nat
  | [] => []
  | .swallowed x :: r => x :: swallowedOf r
  | _ :: r => swallowedOf r

def failedOf : List Ev → List Nat
  | [] => []
  | .failed x :: r => x :: failedOf r
  | _ :: r => failedOf r

/-! ### the double queue: two queues, one lock; Get serves queue 1 first -/

structure DQ where
  q1 : Q
  q2 : Q
  deriving DecidableEq, Repr

inductive DOp where
  | put1 (x : Nat) | put2 (x : Nat) | putForce1 (x : Nat) | putForce2 (x : Nat)
  | get | getNoWait | getTimeout (extraPolls : Nat)
  | clear | setCapacity (c1 c2 : Int) | size | size1 | size2 | getCapacity1 | getCapacity2
  deriving DecidableEq, Repr

/-- events of the double queue are tagged with the queue they concern -/
abbrev DEv := Nat × Ev

def tag (i : Nat) (es : List Ev) : List DEv := es.map (fun e => (i, e))

/-- one poll of the double queue -/
def DQ.poll (d : DQ) : DQ × Nat × List DEv :=
  match d.q1.items with
  | x :: r => ({ d with q1 := { d.q1 with items := r } }, x, [(1, .delivered x)])
  | [] =>
    match d.q2.items with
    | x :: r => ({ d with q2 := { d.q2 with items := r } }, x, [(2, .delivered x)])
    | [] => (d, 0, [])

/-- relabel a delivery that GetTimeout throws away -/
def asSwallowed : List DEv → List DEv
  | [] => []
  | (i, .delivered x) :: r => (i, .swallowed x) :: asSwallowed r
  | e :: r => e :: asSwallowed r

def dGetTimeoutLoop : Nat → DQ → DQ × Nat × List DEv
  | 0, d => (d, 0, [])
  | k + 1, d =>
    let p := d.poll
    if p.2.1 ≠ 0 then p
    else if p.2.2.isEmpty then (d, 0, [])      -- both queues empty: nothing to consume
    else
      let t := dGetTimeoutLoop k p.1
      (t.1, t.2.1, asSwallowed p.2.2 ++ t.2.2)

def dstep (d : DQ) : DOp → DQ × Ret × List DEv
  | .put1 x => let s := step d.q1 (.put x); ({ d with q1 := s.1 }, s.2.1, tag 1 s.2.2)
  | .put2 x => let s := step d.q2 (.put x); ({ d with q2 := s.1 }, s.2.1, tag 2 s.2.2)
  | .putForce1 x => let s := step d.q1 (.putForce x); ({ d with q1 := s.1 }, s.2.1, tag 1 s.2.2)
  | .putForce2 x => let s := step d.q2 (.putForce x); ({ d with q2 := s.1 }, s.2.1, tag 2 s.2.2)
  | .get =>
    if d.q1.items.isEmpty && d.q2.items.isEmpty then (d, .blocked, [])
    else let p := d.poll; (p.1, .val p.2.1, p.2.2)
  | .getNoWait => let p := d.poll; (p.1, .val p.2.1, p.2.2)
  | .getTimeout k => let t := dGetTimeoutLoop (k + 1) d; (t.1, .val t.2.1, t.2.2)
  | .clear =>
    ({ q1 := { d.q1 with items := [] }, q2 := { d.q2 with items := [] } }, .unit,
      tag 1 (d.q1.items.map .cleared) ++ tag 2 (d.q2.items.map .cleared))
  | .setCapacity c1 c2 => ({ q1 := { d.q1 with cap := c1 }, q2 := { d.q2 with cap := c2 } }, .unit, [])
  | .size => (d, .int (d.q1.size + d.q2.size), [])
  | .size1 => (d, .int d.q1.size, [])
  | .size2 => (d, .int d.q2.size, [])
  | .getCapacity1 => (d, .int d.q1.cap, [])
  | .getCapacity2 => (d, .int d.q2.cap, [])

def drun (d : DQ) : List DOp → DQ × List Ret × List DEv
  | [] => (d, [], [])
  | op :: ops =>
    let s := dstep d op
    let r := drun s.1 ops
    (r.1, s.2.1 :: r.2.1, s.2.2 ++ r.2.2)

/-- the events of queue `i` -/
def untag (i : Nat) (es : List DEv) : List Ev :=
  (es.filter (fun e => e.1 == i)).map (·.2)

/-! ### timed get over an abstract clock

  `GetTimeout(timeout)`:
      t := timeout; timeto := now() + timeout
      for v = GetNoWait(); v == nil; v = GetNoWait() { sleep(t/3); t = timeto - now(); if t <= 0 { break } }
      return v
  The environment supplies, per iteration, what the poll returned and what the clock read after the
  sleep.  `none` = the supplied environment ended before the call returned. -/

structure Tick where
  polled : Nat      -- result of GetNoWait (0 = nil)
  now    : Int      -- clock reading after the sleep that follows an empty-handed poll
  deriving DecidableEq, Repr

/-- result value and the clock reading at which the loop decided to return empty-handed -/
inductive TimedRes where
  | got (x : Nat)
  | timedOut (at_ : Int)
  deriving DecidableEq, Repr

def timedGet (timeto : Int) : List Tick → Option TimedRes
  | [] => none
  | tk :: rest =>
    if tk.polled ≠ 0 then some (.got tk.polled)
    else if timeto - tk.now ≤ 0 then some (.timedOut tk.now)
    else timedGet timeto rest

end Queue
