/-
  Golib.Queue.Composite — the double queue's composite operations (Size, Clear over two lists).

  `RequestDoubleQueue` keeps two `LinkedList`s, each with a mutex of its own, under one outer lock (the
  mutex of the condition variable).  `Clear()` clears list 1 and then list 2; `Size()` adds the two sizes.
  With the outer lock held for the whole body these are the atomic operations `dstep d .clear` /
  `dstep d .size` of the model (the body of an operation may be any function of the snapshot;
  `Conc.callback_window_exclusive` says that nothing interleaves between the snapshot and the store).
  Without the outer lock the two halves are separate atomic steps — each list still protected by its own
  mutex, so no data race and no sequential difference — between which other threads' operations can fall:
  the witnesses below give histories that no placement of an atomic Clear / Size explains.
-/
import Golib.Queue.Seq

namespace Queue

/-- the halves of the composite operations, each atomic under the *inner* list's own mutex -/
inductive Micro where
  | clear1 | clear2
  | put1 (x : Nat) | put2 (x : Nat)
  | take        -- GetNoWait
  deriving DecidableEq, Repr

def micro (d : DQ) : Micro → DQ
  | .clear1 => { d with q1 := { d.q1 with items := [] } }
  | .clear2 => { d with q2 := { d.q2 with items := [] } }
  | .put1 x => (dstep d (.put1 x)).1
  | .put2 x => (dstep d (.put2 x)).1
  | .take => (dstep d .getNoWait).1

def microRun (d : DQ) : List Micro → DQ
  | [] => d
  | m :: ms => microRun (micro d m) ms

/-- **under the outer lock, Clear is the composition of its two halves** -/
theorem clear_is_its_two_halves (d : DQ) : (dstep d .clear).1 = microRun d [.clear1, .clear2] := rfl

/-- … and Size is the sum of the two sizes read from one and the same state -/
theorem size_is_sum_of_one_state (d : DQ) :
    (dstep d .size).2.1 = .int (d.q1.size + d.q2.size) ∧ (dstep d .size).1 = d := ⟨rfl, rfl⟩

/-- the final states an *atomic* Clear can produce around `put1 b; put2 c` by one other thread -/
def atomicClearOutcomes (d : DQ) (b c : Nat) : List DQ :=
  [ microRun (dstep d .clear).1 [.put1 b, .put2 c],                                   -- Clear first
    microRun (dstep (microRun d [.put1 b]) .clear).1 [.put2 c],                       -- in between
    (dstep (microRun d [.put1 b, .put2 c]) .clear).1 ]                                -- Clear last

/-- **finding (what the outer lock is for): a Clear done as two separately locked halves is not atomic.**
    `clear1 ; put1 b ; put2 c ; clear2` leaves `b` in list 1 and list 2 empty — `b`, put first, survives
    while `c`, put later, is gone; no atomic Clear before, between or after the two puts does that. -/
theorem finding_two_step_clear_not_atomic :
    let d : DQ := ⟨⟨[], 0⟩, ⟨[], 0⟩⟩
    microRun d [.clear1, .put1 7, .put2 8, .clear2] = ⟨⟨[7], 0⟩, ⟨[], 0⟩⟩ ∧
    microRun d [.clear1, .put1 7, .put2 8, .clear2] ∉ atomicClearOutcomes d 7 8 := by decide

/-- a Size read as two separately locked halves can report a number of elements the queue never held:
    list 1 holds one element, Size reads 1, another thread moves on (takes it, puts one into list 2),
    Size reads 1 again and answers 2 — the queue never held more than one element. -/
theorem finding_two_step_size_not_atomic :
    let d0 : DQ := ⟨⟨[5], 0⟩, ⟨[], 0⟩⟩
    let d1 := microRun d0 [.take, .put2 6]
    d0.q1.size + d1.q2.size = 2 ∧
    (d0.q1.size + d0.q2.size = 1) ∧ ((micro d0 .take).q1.size + (micro d0 .take).q2.size = 0) ∧
    (d1.q1.size + d1.q2.size = 1) := by decide

end Queue
