/-
  Golib.Queue.Timed — the polling loop of `RequestQueue.GetTimeout` over an abstract clock.

  Part 1: complete characterisation (iff) of `timedGet` (the environment supplies poll results).
  Part 2: `timedGetQ` — the same loop *with the queue*: between two polls other threads act on the
          queue (`Round.others`), the clock is read after the sleep that follows an empty-handed
          poll (`Round.now`).  Lower bound on the waiting time, "returns an element if one arrives
          before the deadline and the thread is scheduled", and the exact connection with the
          sequential operation `Op.getTimeout k` (`getTimeoutLoop (k+1)`).
-/
import Golib.Queue.Thms

namespace Queue

/-! ### 1. `timedGet`: complete characterisation -/

/-- a tick after which the loop keeps running: nothing polled, deadline not reached -/
def Tick.idle (timeto : Int) (p : Tick) : Prop := p.polled = 0 ∧ timeto - p.now > 0

theorem timedGet_append_idle (timeto : Int) (pre rest : List Tick)
    (h : ∀ p ∈ pre, p.polled = 0 ∧ timeto - p.now > 0) :
    timedGet timeto (pre ++ rest) = timedGet timeto rest := by
  induction pre with
  | nil => rfl
  | cons p pre ih =>
    have hp := h p (by simp)
    have := ih (fun a ha => h a (by simp [ha]))
    simp only [List.cons_append, timedGet]
    rw [if_neg (by simp [hp.1]), if_neg (by omega), this]

/-- the loop always stops at the first non-idle tick; if there is none the environment ended -/
theorem timedGet_decomp (timeto : Int) (ticks : List Tick) :
    (timedGet timeto ticks = none ∧ ∀ p ∈ ticks, p.polled = 0 ∧ timeto - p.now > 0) ∨
    ∃ pre tk post, ticks = pre ++ tk :: post ∧ (∀ p ∈ pre, p.polled = 0 ∧ timeto - p.now > 0) ∧
      ((tk.polled ≠ 0 ∧ timedGet timeto ticks = some (.got tk.polled)) ∨
       (tk.polled = 0 ∧ timeto - tk.now ≤ 0 ∧ timedGet timeto ticks = some (.timedOut tk.now))) := by
  induction ticks with
  | nil => left; simp [timedGet]
  | cons tk rest ih =>
    by_cases hp : tk.polled ≠ 0
    · right
      exact ⟨[], tk, rest, rfl, by simp, Or.inl ⟨hp, by simp [timedGet, hp]⟩⟩
    · have hp0 : tk.polled = 0 := by simpa using hp
      by_cases hto : timeto - tk.now ≤ 0
      · right
        exact ⟨[], tk, rest, rfl, by simp, Or.inr ⟨hp0, hto, by simp [timedGet, hp0, hto]⟩⟩
      · have hstep : timedGet timeto (tk :: rest) = timedGet timeto rest := by
          simp [timedGet, hp0, hto]
        rcases ih with ⟨hn, hall⟩ | ⟨pre, tk', post, rfl, hpre, hres⟩
        · left
          refine ⟨by rw [hstep, hn], ?_⟩
          intro p hpm
          simp only [List.mem_cons] at hpm
          rcases hpm with rfl | hpm
          · exact ⟨hp0, by omega⟩
          · exact hall p hpm
        · right
          refine ⟨tk :: pre, tk', post, rfl, ?_, ?_⟩
          · intro p hpm
            simp only [List.mem_cons] at hpm
            rcases hpm with rfl | hpm
            · exact ⟨hp0, by omega⟩
            · exact hpre p hpm
          · rw [hstep]; exact hres

theorem timedGet_got_iff (timeto : Int) (ticks : List Tick) (x : Nat) :
    timedGet timeto ticks = some (.got x) ↔
      ∃ pre tk post, ticks = pre ++ tk :: post ∧ tk.polled = x ∧ x ≠ 0 ∧
        ∀ p ∈ pre, p.polled = 0 ∧ timeto - p.now > 0 := by
  constructor
  · intro h
    rcases timedGet_decomp timeto ticks with ⟨hn, _⟩ | ⟨pre, tk, post, heq, hpre, hres⟩
    · rw [hn] at h; simp at h
    · rcases hres with ⟨hp, hr⟩ | ⟨_, _, hr⟩
      · rw [hr] at h
        have hx : tk.polled = x := by simpa using h
        exact ⟨pre, tk, post, heq, hx, hx ▸ hp, hpre⟩
      · rw [hr] at h; simp at h
  · rintro ⟨pre, tk, post, rfl, hx, hx0, hpre⟩
    rw [timedGet_append_idle timeto pre _ hpre]
    simp [timedGet, hx, hx0]

theorem timedGet_timedOut_iff (timeto : Int) (ticks : List Tick) (t : Int) :
    timedGet timeto ticks = some (.timedOut t) ↔
      ∃ pre tk post, ticks = pre ++ tk :: post ∧ tk.polled = 0 ∧ tk.now = t ∧ timeto - t ≤ 0 ∧
        ∀ p ∈ pre, p.polled = 0 ∧ timeto - p.now > 0 := by
  constructor
  · intro h
    rcases timedGet_decomp timeto ticks with ⟨hn, _⟩ | ⟨pre, tk, post, heq, hpre, hres⟩
    · rw [hn] at h; simp at h
    · rcases hres with ⟨_, hr⟩ | ⟨hp0, hto, hr⟩
      · rw [hr] at h; simp at h
      · rw [hr] at h
        have ht : tk.now = t := by simpa using h
        exact ⟨pre, tk, post, heq, hp0, ht, ht ▸ hto, hpre⟩
  · rintro ⟨pre, tk, post, rfl, hp0, ht, hto, hpre⟩
    rw [timedGet_append_idle timeto pre _ hpre]
    subst ht
    simp [timedGet, hp0, hto]

/-- still running: the supplied environment ended before the call could return -/
theorem timedGet_none_iff (timeto : Int) (ticks : List Tick) :
    timedGet timeto ticks = none ↔ ∀ p ∈ ticks, p.polled = 0 ∧ timeto - p.now > 0 := by
  constructor
  · intro h
    rcases timedGet_decomp timeto ticks with ⟨_, hall⟩ | ⟨pre, tk, post, _, _, hres⟩
    · exact hall
    · rcases hres with ⟨_, hr⟩ | ⟨_, _, hr⟩ <;> (rw [hr] at h; simp at h)
  · intro h
    have := timedGet_append_idle timeto ticks [] h
    simpa [timedGet] using this

/-! ### 2. the polling loop with the queue -/

structure Round where
  /-- operations of other threads linearized before this poll (any: puts, gets, clear …) -/
  others : List Op
  /-- clock reading after the sleep that follows this poll if it comes back empty-handed -/
  now    : Int
  deriving DecidableEq, Repr

/-- the element carried by the answer of GetNoWait (`nil` = 0) -/
def retVal : Ret → Nat
  | .val x => x
  | _ => 0

/-- a delivery that the loop of GetTimeout throws away (same convention as `getTimeoutLoop`) -/
def swallowEv : Ev → Ev
  | .delivered x => .swallowed x
  | e => e

/-- one poll of GetTimeout: `GetNoWait`; a `nil` answer from a non-empty queue consumed a nil
    element, reported as `swallowed 0`.  Returns (queue afterwards, value, events). -/
def qpoll (q : Q) : Q × Nat × List Ev :=
  let s := step q .getNoWait
  let v := retVal s.2.1
  (s.1, v, if v ≠ 0 then s.2.2 else s.2.2.map swallowEv)

/-- returns (queue afterwards, result, events of the polls); `none` result = environment ended -/
def timedGetQ (timeto : Int) : Q → List Round → Q × Option TimedRes × List Ev
  | q, [] => (q, none, [])
  | q, r :: rest =>
    let p := qpoll (run q r.others).1
    if p.2.1 ≠ 0 then (p.1, some (.got p.2.1), p.2.2)
    else if timeto - r.now ≤ 0 then (p.1, some (.timedOut r.now), p.2.2)
    else
      let t := timedGetQ timeto p.1 rest
      (t.1, t.2.1, p.2.2 ++ t.2.2)

theorem qpoll_nil (q : Q) (h : q.items = []) : qpoll q = (q, 0, []) := by
  simp [qpoll, step, h, retVal]

theorem qpoll_cons (q : Q) (x : Nat) (r : List Nat) (h : q.items = x :: r) (hx : x ≠ 0) :
    qpoll q = ({ q with items := r }, x, [.delivered x]) := by
  simp [qpoll, step, h, retVal, hx]

theorem qpoll_zero (q : Q) (r : List Nat) (h : q.items = 0 :: r) :
    qpoll q = ({ q with items := r }, 0, [.swallowed 0]) := by
  simp [qpoll, step, h, retVal, swallowEv]

/-- the three cases of a poll -/
theorem qpoll_cases (q : Q) :
    (q.items = [] ∧ qpoll q = (q, 0, [])) ∨
    (∃ r, q.items = 0 :: r ∧ qpoll q = ({ q with items := r }, 0, [.swallowed 0])) ∨
    (∃ x r, q.items = x :: r ∧ x ≠ 0 ∧ qpoll q = ({ q with items := r }, x, [.delivered x])) := by
  cases h : q.items with
  | nil => exact Or.inl ⟨rfl, qpoll_nil q h⟩
  | cons x r =>
    by_cases hx : x = 0
    · subst hx; exact Or.inr (Or.inl ⟨r, rfl, qpoll_zero q r h⟩)
    · exact Or.inr (Or.inr ⟨x, r, rfl, hx, qpoll_cons q x r h hx⟩)

/-- an empty-handed poll delivers nothing -/
theorem qpoll_empty_handed (q : Q) (h : (qpoll q).2.1 = 0) : deliveredOf (qpoll q).2.2 = [] := by
  rcases qpoll_cases q with ⟨_, hq⟩ | ⟨r, _, hq⟩ | ⟨x, r, _, hx, hq⟩
  · rw [hq]; rfl
  · rw [hq]; rfl
  · rw [hq] at h; exact absurd h hx

theorem qpoll_got (q : Q) (h : (qpoll q).2.1 ≠ 0) :
    (qpoll q).2.2 = [.delivered (qpoll q).2.1] := by
  rcases qpoll_cases q with ⟨_, hq⟩ | ⟨r, _, hq⟩ | ⟨x, r, _, hx, hq⟩
  · rw [hq] at h; exact absurd rfl h
  · rw [hq] at h; exact absurd rfl h
  · rw [hq]

/-! #### the waiting time is at least the timeout -/

theorem timedGetQ_timedOut (timeto : Int) (q : Q) (rounds : List Round) (q' : Q) (t : Int)
    (evs : List Ev) (h : timedGetQ timeto q rounds = (q', some (.timedOut t), evs)) :
    t ≥ timeto ∧ deliveredOf evs = [] ∧ ∃ r ∈ rounds, r.now = t := by
  induction rounds generalizing q q' evs with
  | nil => simp [timedGetQ] at h
  | cons r rest ih =>
    unfold timedGetQ at h
    simp only [] at h
    split at h
    · simp at h
    · rename_i hv
      have hv0 : (qpoll (run q r.others).1).2.1 = 0 := by simpa using hv
      have hd := qpoll_empty_handed _ hv0
      split at h
      · rename_i hto
        simp only [Prod.mk.injEq, Option.some.injEq, TimedRes.timedOut.injEq] at h
        obtain ⟨_, ht, he⟩ := h
        subst ht; subst he
        exact ⟨by omega, hd, r, by simp, rfl⟩
      · simp only [Prod.mk.injEq] at h
        obtain ⟨h1, h2, h3⟩ := h
        have := ih _ _ _ (Prod.ext rfl (Prod.ext h2 rfl))
        obtain ⟨a, b, r', hr', c⟩ := this
        subst h3
        refine ⟨a, ?_, r', by simp [hr'], c⟩
        simp [hd, b]

theorem timedGetQ_lower_bound (start timeout : Int) (q : Q) (rounds : List Round) (q' : Q)
    (t : Int) (evs : List Ev)
    (h : timedGetQ (start + timeout) q rounds = (q', some (.timedOut t), evs)) :
    t - start ≥ timeout ∧ deliveredOf evs = [] := by
  have := timedGetQ_timedOut _ q rounds q' t evs h
  exact ⟨by omega, this.2.1⟩

/-! #### it returns an element if one arrives before the deadline and the thread polls -/

/-- the queue (and the events of the polls) after a prefix of rounds in each of which the poll came
    back empty-handed — the queue was empty or its head was a nil element, which is consumed — and
    the clock read after the sleep was still before the deadline.  `none` if the call already
    returned inside the prefix. -/
def afterRounds (timeto : Int) : Q → List Round → Option (Q × List Ev)
  | q, [] => some (q, [])
  | q, r :: rest =>
    let p := qpoll (run q r.others).1
    if p.2.1 ≠ 0 then none
    else if timeto - r.now ≤ 0 then none
    else (afterRounds timeto p.1 rest).map (fun t => (t.1, p.2.2 ++ t.2))

theorem afterRounds_nil (timeto : Int) (q : Q) : afterRounds timeto q [] = some (q, []) := rfl

theorem afterRounds_cons_empty (timeto : Int) (q : Q) (r : Round) (rest : List Round)
    (hi : (run q r.others).1.items = []) (hto : timeto - r.now > 0) :
    afterRounds timeto q (r :: rest) = afterRounds timeto (run q r.others).1 rest := by
  rw [afterRounds]
  simp only [qpoll_nil _ hi]
  rw [if_neg (by simp), if_neg (by omega)]
  simp

theorem afterRounds_cons_zero (timeto : Int) (q : Q) (r : Round) (rest : List Round)
    (xs : List Nat) (hi : (run q r.others).1.items = 0 :: xs) (hto : timeto - r.now > 0) :
    afterRounds timeto q (r :: rest) =
      (afterRounds timeto { (run q r.others).1 with items := xs } rest).map
        (fun t => (t.1, .swallowed 0 :: t.2)) := by
  rw [afterRounds]
  simp only [qpoll_zero _ xs hi]
  rw [if_neg (by simp), if_neg (by omega)]
  simp

theorem afterRounds_cons_val (timeto : Int) (q : Q) (r : Round) (rest : List Round)
    (x : Nat) (xs : List Nat) (hi : (run q r.others).1.items = x :: xs) (hx : x ≠ 0) :
    afterRounds timeto q (r :: rest) = none := by
  rw [afterRounds]
  simp only [qpoll_cons _ x xs hi hx]
  rw [if_pos hx]

theorem afterRounds_cons_late (timeto : Int) (q : Q) (r : Round) (rest : List Round)
    (hto : timeto - r.now ≤ 0) : afterRounds timeto q (r :: rest) = none := by
  rw [afterRounds]
  split
  · rfl
  · first | rfl | rw [if_pos hto]

/-- the side conditions of `afterRounds`, one round at a time -/
theorem afterRounds_cons_iff (timeto : Int) (q : Q) (r : Round) (rest : List Round) (qm : Q)
    (evs : List Ev) :
    afterRounds timeto q (r :: rest) = some (qm, evs) ↔
      timeto - r.now > 0 ∧
      (((run q r.others).1.items = [] ∧ afterRounds timeto (run q r.others).1 rest = some (qm, evs)) ∨
       (∃ xs e, (run q r.others).1.items = 0 :: xs ∧
          afterRounds timeto { (run q r.others).1 with items := xs } rest = some (qm, e) ∧
          evs = .swallowed 0 :: e)) := by
  by_cases hto : timeto - r.now ≤ 0
  · rw [afterRounds_cons_late timeto q r rest hto]
    constructor
    · intro h; simp at h
    · intro h; omega
  have hgt : timeto - r.now > 0 := by omega
  cases hi : (run q r.others).1.items with
  | nil =>
    rw [afterRounds_cons_empty timeto q r rest hi hgt]
    simp
    omega
  | cons x xs =>
    by_cases hx : x = 0
    · subst hx
      rw [afterRounds_cons_zero timeto q r rest xs hi hgt]
      cases hrec : afterRounds timeto { (run q r.others).1 with items := xs } rest with
      | none => simp [hrec]
      | some pe =>
        obtain ⟨a, b⟩ := pe
        simp only [Option.map_some, Option.some.injEq, Prod.mk.injEq, hgt, true_and,
          reduceCtorEq, false_and, false_or, List.cons.injEq]
        constructor
        · rintro ⟨rfl, rfl⟩; exact ⟨xs, b, rfl, hrec, rfl⟩
        · rintro ⟨xs', e, hxs, h1, h3⟩
          subst hxs
          rw [hrec] at h1
          simp only [Option.some.injEq, Prod.mk.injEq] at h1
          exact ⟨h1.1, by rw [h3, h1.2]⟩
    · rw [afterRounds_cons_val timeto q r rest x xs hi hx]
      constructor
      · intro h; simp at h
      · rintro ⟨_, h | ⟨xs', e, hxs, _⟩⟩
        · simp at h
        · simp only [List.cons.injEq] at hxs
          exact absurd hxs.1 hx

/-- a prefix of empty-handed, in-time rounds only moves the queue to `afterRounds` -/
theorem timedGetQ_append (timeto : Int) (q : Q) (pre post : List Round) (qm : Q) (e : List Ev)
    (h : afterRounds timeto q pre = some (qm, e)) :
    timedGetQ timeto q (pre ++ post) =
      ((timedGetQ timeto qm post).1, (timedGetQ timeto qm post).2.1,
        e ++ (timedGetQ timeto qm post).2.2) := by
  induction pre generalizing q e with
  | nil =>
    simp only [afterRounds_nil, Option.some.injEq, Prod.mk.injEq] at h
    obtain ⟨rfl, rfl⟩ := h
    rfl
  | cons r pre ih =>
    rw [afterRounds_cons_iff] at h
    obtain ⟨hto, ⟨hi, hrec⟩ | ⟨xs, e', hi, hrec, rfl⟩⟩ := h
    · simp only [List.cons_append, timedGetQ, qpoll_nil _ hi]
      rw [if_neg (by simp), if_neg (by omega), ih _ _ hrec]
      rfl
    · simp only [List.cons_append, timedGetQ, qpoll_zero _ xs hi]
      rw [if_neg (by simp), if_neg (by omega), ih _ _ hrec]
      rfl

/-- **It returns an element if one arrives before the deadline and the thread is scheduled.**
    If the rounds before `r` all came back empty-handed before the deadline (queue state `qm`,
    `afterRounds`), and after the other threads' operations of round `r` the queue has a non-nil
    head `x`, then the call returns `x`, removes exactly `x` from the queue, and `delivered x` is
    its last event — whatever the clock says in round `r` and whatever comes later. -/
theorem timedGetQ_returns_arrival (timeto : Int) (q : Q) (pre : List Round) (r : Round)
    (post : List Round) (qm : Q) (e : List Ev) (x : Nat) (xs : List Nat)
    (hpre : afterRounds timeto q pre = some (qm, e))
    (hhead : (run qm r.others).1.items = x :: xs) (hx : x ≠ 0) :
    timedGetQ timeto q (pre ++ r :: post) =
      ({ (run qm r.others).1 with items := xs }, some (.got x), e ++ [.delivered x]) := by
  rw [timedGetQ_append timeto q pre (r :: post) qm e hpre]
  simp only [timedGetQ, qpoll_cons _ x xs hhead hx]
  rw [if_pos hx]

/-- the prefix only swallowed nil elements: nothing was delivered, nothing else happened -/
theorem afterRounds_events (timeto : Int) (q : Q) (pre : List Round) (qm : Q) (e : List Ev)
    (h : afterRounds timeto q pre = some (qm, e)) :
    e = List.replicate e.length (.swallowed 0) ∧ deliveredOf e = [] ∧ e.length ≤ pre.length := by
  induction pre generalizing q e with
  | nil =>
    simp only [afterRounds_nil, Option.some.injEq, Prod.mk.injEq] at h
    obtain ⟨_, rfl⟩ := h
    simp [deliveredOf]
  | cons r pre ih =>
    rw [afterRounds_cons_iff] at h
    obtain ⟨_, ⟨_, hrec⟩ | ⟨xs, e', _, hrec, rfl⟩⟩ := h
    · have := ih _ _ hrec
      exact ⟨this.1, this.2.1, by simp only [List.length_cons]; omega⟩
    · have := ih _ _ hrec
      refine ⟨?_, ?_, ?_⟩
      · simp only [List.length_cons, List.replicate_succ, List.cons.injEq, true_and]
        exact this.1
      · simp only [deliveredOf]; exact this.2.1
      · simp only [List.length_cons]; omega

/-- every run of the loop decomposes: either all rounds were empty-handed and in time (the
    environment ended), or there is a first round in which the call returns -/
theorem timedGetQ_decomp (timeto : Int) (q : Q) (rounds : List Round) :
    (∃ qm e, afterRounds timeto q rounds = some (qm, e) ∧ timedGetQ timeto q rounds = (qm, none, e)) ∨
    ∃ pre r post qm e, rounds = pre ++ r :: post ∧ afterRounds timeto q pre = some (qm, e) ∧
      ((∃ x xs, (run qm r.others).1.items = x :: xs ∧ x ≠ 0 ∧
          timedGetQ timeto q rounds =
            ({ (run qm r.others).1 with items := xs }, some (.got x), e ++ [.delivered x])) ∨
       (timeto - r.now ≤ 0 ∧ (run qm r.others).1.items = [] ∧
          timedGetQ timeto q rounds = ((run qm r.others).1, some (.timedOut r.now), e)) ∨
       (timeto - r.now ≤ 0 ∧ ∃ xs, (run qm r.others).1.items = 0 :: xs ∧
          timedGetQ timeto q rounds =
            ({ (run qm r.others).1 with items := xs }, some (.timedOut r.now),
              e ++ [.swallowed 0]))) := by
  induction rounds generalizing q with
  | nil => left; exact ⟨q, [], rfl, rfl⟩
  | cons r rest ih =>
    have here : ∀ res, timedGetQ timeto q (r :: rest) = res →
        (∃ x xs, (run q r.others).1.items = x :: xs ∧ x ≠ 0 ∧
          res = ({ (run q r.others).1 with items := xs }, some (.got x), [] ++ [.delivered x])) ∨
        (timeto - r.now ≤ 0 ∧ (run q r.others).1.items = [] ∧
          res = ((run q r.others).1, some (.timedOut r.now), [])) ∨
        (timeto - r.now ≤ 0 ∧ ∃ xs, (run q r.others).1.items = 0 :: xs ∧
          res = ({ (run q r.others).1 with items := xs }, some (.timedOut r.now),
              [] ++ [.swallowed 0])) →
        ∃ pre r' post qm e, r :: rest = pre ++ r' :: post ∧ afterRounds timeto q pre = some (qm, e) ∧
          ((∃ x xs, (run qm r'.others).1.items = x :: xs ∧ x ≠ 0 ∧
              timedGetQ timeto q (r :: rest) =
                ({ (run qm r'.others).1 with items := xs }, some (.got x), e ++ [.delivered x])) ∨
           (timeto - r'.now ≤ 0 ∧ (run qm r'.others).1.items = [] ∧
              timedGetQ timeto q (r :: rest) = ((run qm r'.others).1, some (.timedOut r'.now), e)) ∨
           (timeto - r'.now ≤ 0 ∧ ∃ xs, (run qm r'.others).1.items = 0 :: xs ∧
              timedGetQ timeto q (r :: rest) =
                ({ (run qm r'.others).1 with items := xs }, some (.timedOut r'.now),
                  e ++ [.swallowed 0]))) := by
      intro res hres h
      subst hres
      exact ⟨[], r, rest, q, [], rfl, rfl, h⟩
    rcases qpoll_cases (run q r.others).1 with ⟨hi, hq⟩ | ⟨xs, hi, hq⟩ | ⟨x, xs, hi, hx, hq⟩
    · by_cases hto : timeto - r.now ≤ 0
      · right
        refine here _ rfl (Or.inr (Or.inl ⟨hto, hi, ?_⟩))
        simp only [timedGetQ, hq]
        rw [if_neg (by simp), if_pos hto]
      · have hgt : timeto - r.now > 0 := by omega
        have hstep : timedGetQ timeto q (r :: rest) = timedGetQ timeto (run q r.others).1 rest := by
          simp only [timedGetQ, hq]
          rw [if_neg (by simp), if_neg hto]
          rfl
        have hafter : ∀ l, afterRounds timeto q (r :: l) = afterRounds timeto (run q r.others).1 l :=
          fun l => afterRounds_cons_empty timeto q r l hi hgt
        rcases ih (run q r.others).1 with ⟨qm, e, ha, ht⟩ | ⟨pre, r', post, qm, e, rfl, ha, hc⟩
        · left; exact ⟨qm, e, by rw [hafter, ha], by rw [hstep, ht]⟩
        · right
          refine ⟨r :: pre, r', post, qm, e, rfl, by rw [hafter, ha], ?_⟩
          rw [hstep]; exact hc
    · by_cases hto : timeto - r.now ≤ 0
      · right
        refine here _ rfl (Or.inr (Or.inr ⟨hto, xs, hi, ?_⟩))
        simp only [timedGetQ, hq]
        rw [if_neg (by simp), if_pos hto]
        rfl
      · have hgt : timeto - r.now > 0 := by omega
        have hstep : timedGetQ timeto q (r :: rest) =
            ((timedGetQ timeto { (run q r.others).1 with items := xs } rest).1,
             (timedGetQ timeto { (run q r.others).1 with items := xs } rest).2.1,
             .swallowed 0 :: (timedGetQ timeto { (run q r.others).1 with items := xs } rest).2.2) := by
          simp only [timedGetQ, hq]
          rw [if_neg (by simp), if_neg hto]
          rfl
        have hafter : ∀ l, afterRounds timeto q (r :: l) =
            (afterRounds timeto { (run q r.others).1 with items := xs } l).map
              (fun t => (t.1, .swallowed 0 :: t.2)) :=
          fun l => afterRounds_cons_zero timeto q r l xs hi hgt
        rcases ih { (run q r.others).1 with items := xs } with
          ⟨qm, e, ha, ht⟩ | ⟨pre, r', post, qm, e, rfl, ha, hc⟩
        · left
          exact ⟨qm, .swallowed 0 :: e, by rw [hafter, ha]; rfl, by rw [hstep, ht]⟩
        · right
          refine ⟨r :: pre, r', post, qm, .swallowed 0 :: e, rfl, by rw [hafter, ha]; rfl, ?_⟩
          rw [hstep]
          rcases hc with ⟨x, xs', h1, h2, h3⟩ | ⟨h1, h2, h3⟩ | ⟨h1, xs', h2, h3⟩
          · exact Or.inl ⟨x, xs', h1, h2, by rw [h3]; rfl⟩
          · exact Or.inr (Or.inl ⟨h1, h2, by rw [h3]⟩)
          · exact Or.inr (Or.inr ⟨h1, xs', h2, by rw [h3]; rfl⟩)
    · right
      refine here _ rfl (Or.inl ⟨x, xs, hi, hx, ?_⟩)
      simp only [timedGetQ, hq]
      rw [if_pos hx]
      rfl

/-- whenever the call returns an element, it is a non-nil element, it was the head of the queue at
    that poll, `delivered x` is the last (and the only `delivered`) event; everything before it is
    a swallowed nil -/
theorem timedGetQ_got_was_head (timeto : Int) (q : Q) (rounds : List Round) (q' : Q) (x : Nat)
    (evs : List Ev) (h : timedGetQ timeto q rounds = (q', some (.got x), evs)) :
    x ≠ 0 ∧ evs.getLast? = some (.delivered x) ∧ deliveredOf evs = [x] ∧
    ∃ pre r post qm e, rounds = pre ++ r :: post ∧ afterRounds timeto q pre = some (qm, e) ∧
      (run qm r.others).1.items = x :: q'.items ∧ q'.cap = (run qm r.others).1.cap ∧
      evs = e ++ [.delivered x] := by
  rcases timedGetQ_decomp timeto q rounds with ⟨qm, e, _, ht⟩ | ⟨pre, r, post, qm, e, hr, ha, hc⟩
  · rw [ht] at h; simp at h
  · rcases hc with ⟨y, xs, h1, h2, h3⟩ | ⟨_, _, h3⟩ | ⟨_, xs, _, h3⟩
    · rw [h3] at h
      simp only [Prod.mk.injEq, Option.some.injEq, TimedRes.got.injEq] at h
      obtain ⟨rfl, rfl, rfl⟩ := h
      refine ⟨h2, by simp, ?_, pre, r, post, qm, e, hr, ha, h1, rfl, rfl⟩
      simp [(afterRounds_events timeto q pre qm e ha).2.1, deliveredOf]
    · rw [h3] at h; simp at h
    · rw [h3] at h; simp at h

/-- complete characterisation of "the call returned `x`" -/
theorem timedGetQ_got_iff (timeto : Int) (q : Q) (rounds : List Round) (x : Nat) :
    (timedGetQ timeto q rounds).2.1 = some (.got x) ↔
      ∃ pre r post qm e xs, rounds = pre ++ r :: post ∧ afterRounds timeto q pre = some (qm, e) ∧
        (run qm r.others).1.items = x :: xs ∧ x ≠ 0 := by
  constructor
  · intro h
    obtain ⟨_, _, _, pre, r, post, qm, e, h1, h2, h3, _⟩ :=
      timedGetQ_got_was_head timeto q rounds _ x _ (Prod.ext rfl (Prod.ext h rfl))
    exact ⟨pre, r, post, qm, e, _, h1, h2, h3, by assumption⟩
  · rintro ⟨pre, r, post, qm, e, xs, rfl, ha, hi, hx⟩
    rw [timedGetQ_returns_arrival timeto q pre r post qm e x xs ha hi hx]

/-- complete characterisation of "the call timed out at clock reading `t`" -/
theorem timedGetQ_timedOut_iff (timeto : Int) (q : Q) (rounds : List Round) (t : Int) :
    (timedGetQ timeto q rounds).2.1 = some (.timedOut t) ↔
      ∃ pre r post qm e, rounds = pre ++ r :: post ∧ afterRounds timeto q pre = some (qm, e) ∧
        r.now = t ∧ timeto - t ≤ 0 ∧ (run qm r.others).1.items.head?.getD 0 = 0 := by
  constructor
  · intro h
    rcases timedGetQ_decomp timeto q rounds with ⟨qm, e, _, ht⟩ | ⟨pre, r, post, qm, e, hr, ha, hc⟩
    · rw [ht] at h; simp at h
    · rcases hc with ⟨y, xs, h1, h2, h3⟩ | ⟨h1, h2, h3⟩ | ⟨h1, xs, h2, h3⟩
      · rw [h3] at h; simp at h
      · rw [h3] at h
        have ht : r.now = t := by simpa using h
        exact ⟨pre, r, post, qm, e, hr, ha, ht, ht ▸ h1, by simp [h2]⟩
      · rw [h3] at h
        have ht : r.now = t := by simpa using h
        exact ⟨pre, r, post, qm, e, hr, ha, ht, ht ▸ h1, by simp [h2]⟩
  · rintro ⟨pre, r, post, qm, e, rfl, ha, rfl, hto, hh⟩
    rw [timedGetQ_append timeto q pre (r :: post) qm e ha]
    simp only [timedGetQ]
    rcases qpoll_cases (run qm r.others).1 with ⟨hi, hq⟩ | ⟨xs, hi, hq⟩ | ⟨x, xs, hi, hx, hq⟩
    · rw [hq, if_neg (by simp), if_pos hto]
    · rw [hq, if_neg (by simp), if_pos hto]
    · rw [hi] at hh; simp at hh; exact absurd hh hx

/-- still running: every supplied round was empty-handed and in time -/
theorem timedGetQ_none_iff (timeto : Int) (q : Q) (rounds : List Round) :
    (timedGetQ timeto q rounds).2.1 = none ↔ (afterRounds timeto q rounds).isSome := by
  constructor
  · intro h
    rcases timedGetQ_decomp timeto q rounds with ⟨qm, e, ha, _⟩ | ⟨pre, r, post, qm, e, _, _, hc⟩
    · simp [ha]
    · rcases hc with ⟨y, xs, _, _, h3⟩ | ⟨_, _, h3⟩ | ⟨_, xs, _, h3⟩ <;>
        (rw [h3] at h; simp at h)
  · intro h
    obtain ⟨⟨qm, e⟩, ha⟩ := Option.isSome_iff_exists.mp h
    have := timedGetQ_append timeto q rounds [] qm e ha
    rw [List.append_nil] at this
    rw [this]
    rfl

/-! #### connection with the sequential operation `Op.getTimeout k` -/

/-- the answer of the sequential loop read as a result of the timed loop that gave up at `t` -/
def resOf (t : Int) (v : Nat) : TimedRes := if v = 0 then .timedOut t else .got v

/-- polling an empty queue that nobody fills until the deadline: nothing happens -/
theorem timedGetQ_empty_no_others (timeto : Int) (q : Q) (pre : List Round) (r : Round)
    (post : List Round) (hq : q.items = [])
    (hpre : ∀ p ∈ pre, p.others = [] ∧ timeto - p.now > 0)
    (hr : r.others = [] ∧ timeto - r.now ≤ 0) :
    timedGetQ timeto q (pre ++ r :: post) = (q, some (.timedOut r.now), []) := by
  induction pre with
  | nil =>
    simp only [List.nil_append, timedGetQ, hr.1, run, qpoll_nil q hq]
    rw [if_neg (by simp), if_pos hr.2]
  | cons p pre ih =>
    have hp := hpre p (by simp)
    simp only [List.cons_append, timedGetQ, hp.1, run, qpoll_nil q hq]
    rw [if_neg (by simp), if_neg (by omega), ih (fun a ha => hpre a (by simp [ha]))]
    rfl

/-- **`extraPolls` tied to the clock.**  If nobody else touches the queue, the first `k` clock
    readings are before the deadline and the `(k+1)`-th is not, then the timed loop does exactly
    what the sequential `getTimeoutLoop (k+1)` does: same remaining items, same events, value `x ≠ 0`
    ↔ `got x`, value `0` ↔ timed out — at the `(k+1)`-th reading.  (`getTimeoutLoop` stops early on an
    empty queue while the real loop keeps polling the empty queue until the deadline; those extra
    polls change nothing and emit nothing, `timedGetQ_empty_no_others`.) -/
theorem timedGetQ_no_others (timeto : Int) (q : Q) (pre : List Round) (r : Round)
    (post : List Round)
    (hpre : ∀ p ∈ pre, p.others = [] ∧ timeto - p.now > 0)
    (hr : r.others = [] ∧ timeto - r.now ≤ 0) :
    timedGetQ timeto q (pre ++ r :: post) =
      ({ q with items := (getTimeoutLoop (pre.length + 1) q.items).1 },
       some (resOf r.now (getTimeoutLoop (pre.length + 1) q.items).2.1),
       (getTimeoutLoop (pre.length + 1) q.items).2.2) := by
  induction pre generalizing q with
  | nil =>
    simp only [List.nil_append, List.length_nil, Nat.zero_add, timedGetQ, hr.1, run]
    rcases qpoll_cases q with ⟨hi, hq⟩ | ⟨xs, hi, hq⟩ | ⟨x, xs, hi, hx, hq⟩
    · rw [hq, if_neg (by simp), if_pos hr.2, hi]
      simp only [getTimeoutLoop, resOf, if_true]
      cases q; simp_all
    · rw [hq, if_neg (by simp), if_pos hr.2, hi]
      simp [getTimeoutLoop, resOf]
    · rw [hq, if_pos hx, hi]
      simp [getTimeoutLoop, resOf, hx]
  | cons p pre ih =>
    have hp := hpre p (by simp)
    have hpre' : ∀ a ∈ pre, a.others = [] ∧ timeto - a.now > 0 := fun a ha => hpre a (by simp [ha])
    simp only [List.cons_append, List.length_cons, timedGetQ, hp.1, run]
    rcases qpoll_cases q with ⟨hi, hq⟩ | ⟨xs, hi, hq⟩ | ⟨x, xs, hi, hx, hq⟩
    · rw [hq, if_neg (by simp), if_neg (by omega),
        timedGetQ_empty_no_others timeto q pre r post hi hpre' hr, hi]
      simp only [getTimeoutLoop, resOf, if_true]
      cases q; simp_all
    · rw [hq, if_neg (by simp), if_neg (by omega), ih _ hpre', hi]
      simp [getTimeoutLoop]
    · rw [hq, if_pos hx, hi]
      simp [getTimeoutLoop, resOf, hx]

/-- the same, against `step q (.getTimeout k)` -/
theorem timedGetQ_no_others_step (timeto : Int) (q : Q) (pre : List Round) (r : Round)
    (post : List Round)
    (hpre : ∀ p ∈ pre, p.others = [] ∧ timeto - p.now > 0)
    (hr : r.others = [] ∧ timeto - r.now ≤ 0) :
    timedGetQ timeto q (pre ++ r :: post) =
      ((step q (.getTimeout pre.length)).1,
       some (resOf r.now (retVal (step q (.getTimeout pre.length)).2.1)),
       (step q (.getTimeout pre.length)).2.2) :=
  timedGetQ_no_others timeto q pre r post hpre hr

/-! #### non-vacuity -/

/-- nothing arrives: the call gives up at the first reading at or after the deadline (12 ≥ 10) -/
example :
    timedGetQ 10 ⟨[], 0⟩ [⟨[], 3⟩, ⟨[], 7⟩, ⟨[], 12⟩, ⟨[.put 4], 13⟩] =
      (⟨[], 0⟩, some (.timedOut 12), []) := by decide

/-- an element put by another thread before the third poll is returned, although that round's
    clock reading is already past the deadline -/
example :
    timedGetQ 10 ⟨[], 0⟩ [⟨[], 3⟩, ⟨[], 7⟩, ⟨[.put 9, .put 8], 12⟩] =
      (⟨[8], 0⟩, some (.got 9), [.delivered 9]) := by decide

/-- another consumer was faster: the element is gone when this thread polls -/
example :
    timedGetQ 10 ⟨[], 0⟩ [⟨[.put 9, .get], 3⟩, ⟨[], 12⟩] =
      (⟨[], 0⟩, some (.timedOut 12), []) := by decide

/-- nil elements are consumed one per poll and reported to nobody; here the real element behind
    them is not reached before the deadline -/
example :
    timedGetQ 10 ⟨[0, 0, 5], 0⟩ [⟨[], 3⟩, ⟨[], 12⟩] =
      (⟨[5], 0⟩, some (.timedOut 12), [.swallowed 0, .swallowed 0]) := by decide

example :
    timedGetQ 10 ⟨[0, 5], 0⟩ [⟨[], 3⟩, ⟨[], 12⟩] =
      (⟨[], 0⟩, some (.got 5), [.swallowed 0, .delivered 5]) := by decide

/-- the environment ended -/
example : timedGetQ 10 ⟨[0], 0⟩ [⟨[], 3⟩, ⟨[], 7⟩] = (⟨[], 0⟩, none, [.swallowed 0]) := by decide

/-- `afterRounds`: two empty-handed rounds, then `timedGetQ_returns_arrival` applies -/
example : afterRounds 10 ⟨[0], 0⟩ [⟨[], 3⟩, ⟨[.put 0, .clear], 7⟩] = some (⟨[], 0⟩, [.swallowed 0]) := by
  decide

example : afterRounds 10 ⟨[], 0⟩ [⟨[], 3⟩, ⟨[], 12⟩] = none := by decide

/-- `timedGetQ_no_others` on an instance: k = 2 in-time readings, the third is late -/
example :
    timedGetQ 10 ⟨[0, 0, 0, 5], 3⟩ [⟨[], 3⟩, ⟨[], 7⟩, ⟨[], 12⟩] =
      (⟨[5], 3⟩, some (.timedOut 12), (step ⟨[0, 0, 0, 5], 3⟩ (.getTimeout 2)).2.2) := by decide

end Queue
