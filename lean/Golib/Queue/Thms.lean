/-
  Golib.Queue.Thms — theorems about the sequential CodeModel of RequestQueue / RequestDoubleQueue
  (`Golib.Queue.Seq`): FIFO, boundedness, conservation, per-producer order, nil-swallowing,
  double-queue priority, timed get.
-/
import Golib.Queue.Seq

namespace Queue

/-! ### projections: append distribution and values on mapped lists -/

@[simp] theorem acceptedOf_append (a b : List Ev) :
    acceptedOf (a ++ b) = acceptedOf a ++ acceptedOf b := by
  induction a with
  | nil => rfl
  | cons e r ih => cases e <;> simp [acceptedOf, ih]

@[simp] theorem leftOf_append (a b : List Ev) : leftOf (a ++ b) = leftOf a ++ leftOf b := by
  induction a with
  | nil => rfl
  | cons e r ih => cases e <;> simp [leftOf, ih]

@[simp] theorem deliveredOf_append (a b : List Ev) :
    deliveredOf (a ++ b) = deliveredOf a ++ deliveredOf b := by
  induction a with
  | nil => rfl
  | cons e r ih => cases e <;> simp [deliveredOf, ih]

@[simp] theorem overflowedOf_append (a b : List Ev) :
    overflowedOf (a ++ b) = overflowedOf a ++ overflowedOf b := by
  induction a with
  | nil => rfl
  | cons e r ih => cases e <;> simp [overflowedOf, ih]

@[simp] theorem clearedOf_append (a b : List Ev) :
    clearedOf (a ++ b) = clearedOf a ++ clearedOf b := by
  induction a with
  | nil => rfl
  | cons e r ih => cases e <;> simp [clearedOf, ih]

@[simp] theorem swallowedOf_append (a b : List Ev) :
    swallowedOf (a ++ b) = swallowedOf a ++ swallowedOf b := by
  induction a with
  | nil => rfl
  | cons e r ih => cases e <;> simp [swallowedOf, ih]

@[simp] theorem failedOf_append (a b : List Ev) :
    failedOf (a ++ b) = failedOf a ++ failedOf b := by
  induction a with
  | nil => rfl
  | cons e r ih => cases e <;> simp [failedOf, ih]

@[simp] theorem acceptedOf_map_overflowed (xs : List Nat) :
    acceptedOf (xs.map .overflowed) = [] := by
  induction xs with
  | nil => rfl
  | cons x r ih => simp [acceptedOf, ih]

@[simp] theorem leftOf_map_overflowed (xs : List Nat) : leftOf (xs.map .overflowed) = xs := by
  induction xs with
  | nil => rfl
  | cons x r ih => simp [leftOf, ih]

@[simp] theorem deliveredOf_map_overflowed (xs : List Nat) :
    deliveredOf (xs.map .overflowed) = [] := by
  induction xs with
  | nil => rfl
  | cons x r ih => simp [deliveredOf, ih]

@[simp] theorem overflowedOf_map_overflowed (xs : List Nat) :
    overflowedOf (xs.map .overflowed) = xs := by
  induction xs with
  | nil => rfl
  | cons x r ih => simp [overflowedOf, ih]

@[simp] theorem clearedOf_map_overflowed (xs : List Nat) :
    clearedOf (xs.map .overflowed) = [] := by
  induction xs with
  | nil => rfl
  | cons x r ih => simp [clearedOf, ih]

@[simp] theorem swallowedOf_map_overflowed (xs : List Nat) :
    swallowedOf (xs.map .overflowed) = [] := by
  induction xs with
  | nil => rfl
  | cons x r ih => simp [swallowedOf, ih]

@[simp] theorem failedOf_map_overflowed (xs : List Nat) :
    failedOf (xs.map .overflowed) = [] := by
  induction xs with
  | nil => rfl
  | cons x r ih => simp [failedOf, ih]

@[simp] theorem acceptedOf_map_cleared (xs : List Nat) : acceptedOf (xs.map .cleared) = [] := by
  induction xs with
  | nil => rfl
  | cons x r ih => simp [acceptedOf, ih]

@[simp] theorem leftOf_map_cleared (xs : List Nat) : leftOf (xs.map .cleared) = xs := by
  induction xs with
  | nil => rfl
  | cons x r ih => simp [leftOf, ih]

@[simp] theorem deliveredOf_map_cleared (xs : List Nat) : deliveredOf (xs.map .cleared) = [] := by
  induction xs with
  | nil => rfl
  | cons x r ih => simp [deliveredOf, ih]

@[simp] theorem overflowedOf_map_cleared (xs : List Nat) :
    overflowedOf (xs.map .cleared) = [] := by
  induction xs with
  | nil => rfl
  | cons x r ih => simp [overflowedOf, ih]

@[simp] theorem clearedOf_map_cleared (xs : List Nat) : clearedOf (xs.map .cleared) = xs := by
  induction xs with
  | nil => rfl
  | cons x r ih => simp [clearedOf, ih]

@[simp] theorem swallowedOf_map_cleared (xs : List Nat) : swallowedOf (xs.map .cleared) = [] := by
  induction xs with
  | nil => rfl
  | cons x r ih => simp [swallowedOf, ih]

@[simp] theorem failedOf_map_cleared (xs : List Nat) : failedOf (xs.map .cleared) = [] := by
  induction xs with
  | nil => rfl
  | cons x r ih => simp [failedOf, ih]

/-! ### 1. evict -/

theorem evict_spec (cap : Int) (l : List Nat) : (evict cap l).1 ++ (evict cap l).2 = l := by
  induction l with
  | nil => rfl
  | cons x xs ih =>
    unfold evict
    split
    · simp [ih]
    · rfl

theorem evict_small (cap : Int) (l : List Nat) (h : (l.length : Int) < cap) :
    evict cap l = ([], l) := by
  cases l with
  | nil => rfl
  | cons x xs =>
    unfold evict
    rw [if_neg (by omega)]

theorem evict_len (cap : Int) (l : List Nat) (h : cap > 0) (hl : (l.length : Int) ≥ cap) :
    ((evict cap l).2.length : Int) = cap - 1 := by
  induction l with
  | nil => simp at hl; omega
  | cons x xs ih =>
    unfold evict
    rw [if_pos hl]
    simp only []
    by_cases hx : (xs.length : Int) ≥ cap
    · exact ih hx
    · rw [evict_small cap xs (by omega)]
      simp only [List.length_cons] at hl ⊢
      omega

/-- when anything has to go, something goes -/
theorem evict_ne_nil (cap : Int) (l : List Nat) (h : cap > 0) (hl : (l.length : Int) ≥ cap) :
    (evict cap l).1 ≠ [] := by
  cases l with
  | nil => simp at hl; omega
  | cons x xs =>
    unfold evict
    rw [if_pos hl]
    simp

/-! ### 2. the polling loop of GetTimeout -/

theorem getTimeoutLoop_spec (k : Nat) (items : List Nat) :
    let t := getTimeoutLoop k items
    leftOf t.2.2 ++ t.1 = items ∧ acceptedOf t.2.2 = [] := by
  induction k generalizing items with
  | zero => simp [getTimeoutLoop, leftOf, acceptedOf]
  | succ k ih =>
    cases items with
    | nil => simp [getTimeoutLoop, leftOf, acceptedOf]
    | cons x r =>
      unfold getTimeoutLoop
      split
      · simp [leftOf, acceptedOf]
      · rename_i hx
        have hx0 : x = 0 := by simpa using hx
        have := ih r
        simp only [] at this
        simp [leftOf, acceptedOf, this.1, this.2, hx0]

theorem getTimeoutLoop_swallowed (k : Nat) (items : List Nat) :
    ∀ x ∈ swallowedOf (getTimeoutLoop k items).2.2, x = 0 := by
  induction k generalizing items with
  | zero => simp [getTimeoutLoop, swallowedOf]
  | succ k ih =>
    cases items with
    | nil => simp [getTimeoutLoop, swallowedOf]
    | cons x r =>
      unfold getTimeoutLoop
      split
      · simp [swallowedOf]
      · simp only [swallowedOf, List.mem_cons]
        intro y hy
        rcases hy with hy | hy
        · exact hy
        · exact ih r y hy

theorem getTimeoutLoop_val (k : Nat) (items : List Nat) :
    let t := getTimeoutLoop k items
    deliveredOf t.2.2 = if t.2.1 = 0 then [] else [t.2.1] := by
  induction k generalizing items with
  | zero => simp [getTimeoutLoop, deliveredOf]
  | succ k ih =>
    cases items with
    | nil => simp [getTimeoutLoop, deliveredOf]
    | cons x r =>
      unfold getTimeoutLoop
      split
      · rename_i hx
        simp [deliveredOf, hx]
      · have := ih r
        simp only [] at this
        simp only [deliveredOf]
        exact this

/-- the other projections of the polling loop are empty -/
theorem getTimeoutLoop_others (k : Nat) (items : List Nat) :
    overflowedOf (getTimeoutLoop k items).2.2 = [] ∧ clearedOf (getTimeoutLoop k items).2.2 = [] ∧
    failedOf (getTimeoutLoop k items).2.2 = [] := by
  induction k generalizing items with
  | zero => simp [getTimeoutLoop, overflowedOf, clearedOf, failedOf]
  | succ k ih =>
    cases items with
    | nil => simp [getTimeoutLoop, overflowedOf, clearedOf, failedOf]
    | cons x r =>
      unfold getTimeoutLoop
      split
      · simp [overflowedOf, clearedOf, failedOf]
      · simpa [overflowedOf, clearedOf, failedOf] using ih r

/-! ### 3. FIFO -/

theorem step_fifo (q : Q) (op : Op) :
    q.items ++ acceptedOf (step q op).2.2 = leftOf (step q op).2.2 ++ (step q op).1.items := by
  cases op with
  | put x =>
    simp only [step]
    split <;> simp [acceptedOf, leftOf]
  | putForce x =>
    simp only [step]
    split
    · simp [acceptedOf, leftOf]
    · have := evict_spec q.cap q.items
      simp [acceptedOf, leftOf, ← List.append_assoc, this]
  | get =>
    simp only [step]
    split <;> rename_i h <;> simp [acceptedOf, leftOf, h]
  | getNoWait =>
    simp only [step]
    split <;> rename_i h <;> simp [acceptedOf, leftOf, h]
  | getTimeout k =>
    have := getTimeoutLoop_spec (k + 1) q.items
    simp only [] at this
    simp [step, this.1, this.2]
  | clear => simp [step]
  | setCapacity c => simp [step, acceptedOf, leftOf]
  | size => simp [step, acceptedOf, leftOf]
  | getCapacity => simp [step, acceptedOf, leftOf]

theorem run_fifo (q : Q) (ops : List Op) :
    q.items ++ acceptedOf (run q ops).2.2 = leftOf (run q ops).2.2 ++ (run q ops).1.items := by
  induction ops generalizing q with
  | nil => simp [run, acceptedOf, leftOf]
  | cons op ops ih =>
    simp only [run, acceptedOf_append, leftOf_append]
    rw [← List.append_assoc, step_fifo, List.append_assoc, ih, List.append_assoc]

/-! ### 4./5. put and putForce -/

theorem put_full (q : Q) (x : Nat) (hc : q.cap > 0) (hs : (q.size : Int) ≥ q.cap) :
    step q (.put x) = (q, .bool false, [.failed x]) := by
  have : q.room = false := by simp [Q.room]; omega
  simp [step, this]

theorem put_room (q : Q) (x : Nat) (h : q.cap ≤ 0 ∨ (q.size : Int) < q.cap) :
    step q (.put x) = ({ q with items := q.items ++ [x] }, .bool true, [.accepted x]) := by
  have : q.room = true := by simpa [Q.room] using h
  simp [step, this]

theorem putForce_full (q : Q) (x : Nat) (hc : q.cap > 0) (hs : (q.size : Int) ≥ q.cap) :
    ∃ ev rest, q.items = ev ++ rest ∧
      step q (.putForce x) =
        ({ q with items := rest ++ [x] }, .bool false, ev.map .overflowed ++ [.accepted x]) ∧
      ((rest.length : Int) + 1 = q.cap) ∧ ev ≠ [] := by
  have hr : q.room = false := by simp [Q.room]; omega
  refine ⟨(evict q.cap q.items).1, (evict q.cap q.items).2, (evict_spec _ _).symm, ?_, ?_, ?_⟩
  · simp [step, hr]
  · have := evict_len q.cap q.items hc hs
    omega
  · exact evict_ne_nil q.cap q.items hc hs

theorem putForce_room (q : Q) (x : Nat) (h : q.cap ≤ 0 ∨ (q.size : Int) < q.cap) :
    step q (.putForce x) = ({ q with items := q.items ++ [x] }, .bool true, [.accepted x]) := by
  have : q.room = true := by simpa [Q.room] using h
  simp [step, this]

/-! ### 6. boundedness -/

/-- only SetCapacity changes the capacity -/
theorem step_cap (q : Q) (op : Op) (hno : ∀ c, op ≠ .setCapacity c) : (step q op).1.cap = q.cap := by
  cases op with
  | put x => simp only [step]; split <;> rfl
  | putForce x => simp only [step]; split <;> rfl
  | get => simp only [step]; split <;> rfl
  | getNoWait => simp only [step]; split <;> rfl
  | setCapacity c => exact absurd rfl (hno c)
  | _ => rfl

/-- no operation but the two puts makes the queue longer -/
theorem step_size_le (q : Q) (op : Op) (hp : ∀ x, op ≠ .put x) (hf : ∀ x, op ≠ .putForce x) :
    (step q op).1.size ≤ q.size := by
  cases op with
  | put x => exact absurd rfl (hp x)
  | putForce x => exact absurd rfl (hf x)
  | get => simp only [step]; split <;> rename_i h <;> simp [Q.size, h]
  | getNoWait => simp only [step]; split <;> rename_i h <;> simp [Q.size, h]
  | getTimeout k =>
    have := (getTimeoutLoop_spec (k + 1) q.items).1
    have h2 := congrArg List.length this
    simp only [List.length_append] at h2
    simp only [step, Q.size]
    omega
  | clear => simp [step, Q.size]
  | setCapacity c => simp [step, Q.size]
  | size => simp [step]
  | getCapacity => simp [step]

theorem putForce_bounded (q : Q) (x : Nat) (h : q.cap > 0) :
    ((step q (.putForce x)).1.size : Int) ≤ q.cap := by
  by_cases hs : (q.size : Int) ≥ q.cap
  · obtain ⟨ev, rest, _, hst, hlen, _⟩ := putForce_full q x h hs
    rw [hst]
    simp only [Q.size, List.length_append, List.length_cons, List.length_nil]
    omega
  · rw [putForce_room q x (Or.inr (by omega))]
    simp only [Q.size, List.length_append, List.length_cons, List.length_nil] at hs ⊢
    omega

theorem bounded_step (q : Q) (op : Op) (h : (step q op).1.cap > 0) :
    ((step q op).1.size : Int) ≤ max (q.size : Int) (step q op).1.cap := by
  by_cases hp : ∃ x, op = .put x
  · obtain ⟨x, rfl⟩ := hp
    have hc : q.cap > 0 := by rw [step_cap q _ (by simp)] at h; exact h
    rw [step_cap q _ (by simp)]
    by_cases hs : (q.size : Int) ≥ q.cap
    · rw [put_full q x hc hs]; show (q.size : Int) ≤ _; omega
    · rw [put_room q x (Or.inr (by omega))]
      simp only [Q.size, List.length_append, List.length_cons, List.length_nil] at hs ⊢
      omega
  by_cases hf : ∃ x, op = .putForce x
  · obtain ⟨x, rfl⟩ := hf
    have hc : q.cap > 0 := by rw [step_cap q _ (by simp)] at h; exact h
    rw [step_cap q _ (by simp)]
    have := putForce_bounded q x hc
    omega
  have := step_size_le q op (fun x hx => hp ⟨x, hx⟩) (fun x hx => hf ⟨x, hx⟩)
  omega

theorem bounded_run (q : Q) (ops : List Op) (hc : q.cap > 0)
    (hno : ∀ op ∈ ops, ∀ c, op ≠ .setCapacity c) :
    ((run q ops).1.size : Int) ≤ max (q.size : Int) q.cap ∧ (run q ops).1.cap = q.cap := by
  induction ops generalizing q with
  | nil => refine ⟨?_, rfl⟩; show (q.size : Int) ≤ _; omega
  | cons op ops ih =>
    have hcap := step_cap q op (hno op (by simp))
    have hb := bounded_step q op (by rw [hcap]; exact hc)
    have := ih (step q op).1 (by rw [hcap]; exact hc) (fun o ho => hno o (by simp [ho]))
    simp only [run]
    omega

/-! ### 7. conservation -/

theorem left_partition (evs : List Ev) :
    (leftOf evs).Perm (deliveredOf evs ++ overflowedOf evs ++ clearedOf evs ++ swallowedOf evs) := by
  induction evs with
  | nil => simp [leftOf, deliveredOf, overflowedOf, clearedOf, swallowedOf]
  | cons e r ih =>
    cases e with
    | accepted x => simpa [leftOf, deliveredOf, overflowedOf, clearedOf, swallowedOf] using ih
    | failed x => simpa [leftOf, deliveredOf, overflowedOf, clearedOf, swallowedOf] using ih
    | delivered x =>
      simp only [leftOf, deliveredOf, overflowedOf, clearedOf, swallowedOf, List.cons_append]
      exact ih.cons x
    | overflowed x =>
      simp only [leftOf, deliveredOf, overflowedOf, clearedOf, swallowedOf]
      refine (ih.cons x).trans ?_
      simp only [List.append_assoc]
      exact List.perm_middle.symm
    | cleared x =>
      simp only [leftOf, deliveredOf, overflowedOf, clearedOf, swallowedOf]
      refine (ih.cons x).trans ?_
      simp only [List.append_assoc]
      rw [← List.append_assoc (deliveredOf r)]
      rw [← List.append_assoc (deliveredOf r)]
      exact List.perm_middle.symm
    | swallowed x =>
      simp only [leftOf, deliveredOf, overflowedOf, clearedOf, swallowedOf]
      refine (ih.cons x).trans ?_
      exact List.perm_middle.symm

theorem conservation (q : Q) (ops : List Op) :
    (q.items ++ acceptedOf (run q ops).2.2).Perm
      (deliveredOf (run q ops).2.2 ++ overflowedOf (run q ops).2.2 ++ clearedOf (run q ops).2.2 ++
        swallowedOf (run q ops).2.2 ++ (run q ops).1.items) := by
  rw [run_fifo]
  exact (left_partition _).append_right _

/-! ### 8. order -/

theorem delivered_sublist (evs : List Ev) : (deliveredOf evs).Sublist (leftOf evs) := by
  induction evs with
  | nil => simp [leftOf, deliveredOf]
  | cons e r ih =>
    cases e with
    | delivered x => simpa [leftOf, deliveredOf] using ih
    | accepted x => simpa [leftOf, deliveredOf] using ih
    | failed x => simpa [leftOf, deliveredOf] using ih
    | overflowed x => simp only [leftOf, deliveredOf]; exact ih.cons x
    | cleared x => simp only [leftOf, deliveredOf]; exact ih.cons x
    | swallowed x => simp only [leftOf, deliveredOf]; exact ih.cons x

theorem fifo_order (q : Q) (ops : List Op) :
    (deliveredOf (run q ops).2.2).Sublist (q.items ++ acceptedOf (run q ops).2.2) := by
  rw [run_fifo]
  exact (delivered_sublist _).trans (List.sublist_append_left _ _)

theorem per_producer_order (q : Q) (ops : List Op) (p : Nat → Bool) :
    ((deliveredOf (run q ops).2.2).filter p).Sublist
      ((q.items ++ acceptedOf (run q ops).2.2).filter p) :=
  (fifo_order q ops).filter p

/-! ### 9. a nil element is consumed and reported to nobody; nothing else is -/

theorem step_swallowed_nil (q : Q) (op : Op) : ∀ x ∈ swallowedOf (step q op).2.2, x = 0 := by
  cases op with
  | put x => simp only [step]; split <;> simp [swallowedOf]
  | putForce x => simp only [step]; split <;> simp [swallowedOf]
  | get => simp only [step]; split <;> simp [swallowedOf]
  | getNoWait => simp only [step]; split <;> simp [swallowedOf]
  | getTimeout k => exact getTimeoutLoop_swallowed (k + 1) q.items
  | clear => simp [step]
  | setCapacity c => simp [step, swallowedOf]
  | size => simp [step, swallowedOf]
  | getCapacity => simp [step, swallowedOf]

theorem run_swallowed_nil (q : Q) (ops : List Op) : ∀ x ∈ swallowedOf (run q ops).2.2, x = 0 := by
  induction ops generalizing q with
  | nil => simp [run, swallowedOf]
  | cons op ops ih =>
    simp only [run, swallowedOf_append, List.mem_append]
    intro x hx
    rcases hx with hx | hx
    · exact step_swallowed_nil q op x hx
    · exact ih _ x hx

theorem finding_nil_swallowed :
    (step ⟨[0, 5], 0⟩ (.getTimeout 3)).2 = (.val 5, [.swallowed 0, .delivered 5]) := by decide

/-! ### 10. exact delivery -/

theorem leftOf_eq_deliveredOf (evs : List Ev) (h1 : overflowedOf evs = []) (h2 : clearedOf evs = [])
    (h3 : swallowedOf evs = []) : leftOf evs = deliveredOf evs := by
  induction evs with
  | nil => rfl
  | cons e r ih =>
    cases e <;> simp_all [leftOf, deliveredOf, overflowedOf, clearedOf, swallowedOf]

theorem exact_delivery (q : Q) (ops : List Op) (h1 : overflowedOf (run q ops).2.2 = [])
    (h2 : clearedOf (run q ops).2.2 = []) (h3 : swallowedOf (run q ops).2.2 = []) :
    q.items ++ acceptedOf (run q ops).2.2 = deliveredOf (run q ops).2.2 ++ (run q ops).1.items := by
  rw [run_fifo, leftOf_eq_deliveredOf _ h1 h2 h3]

/-! ### 11. the double queue -/

@[simp] theorem untag_nil (i : Nat) : untag i [] = [] := rfl

theorem untag_cons (i j : Nat) (e : Ev) (r : List DEv) :
    untag i ((j, e) :: r) = if j = i then e :: untag i r else untag i r := by
  by_cases h : j = i <;> simp [untag, h]

@[simp] theorem untag_append (i : Nat) (a b : List DEv) :
    untag i (a ++ b) = untag i a ++ untag i b := by
  simp [untag]

@[simp] theorem untag_tag_same (i : Nat) (es : List Ev) : untag i (tag i es) = es := by
  induction es with
  | nil => rfl
  | cons e r ih =>
    have : tag i (e :: r) = (i, e) :: tag i r := rfl
    rw [this, untag_cons, if_pos rfl, ih]

theorem untag_tag_other (i j : Nat) (h : j ≠ i) (es : List Ev) : untag i (tag j es) = [] := by
  induction es with
  | nil => rfl
  | cons e r ih =>
    have : tag j (e :: r) = (j, e) :: tag j r := rfl
    rw [this, untag_cons, if_neg h, ih]

theorem poll_cons1 (d : DQ) (x : Nat) (r : List Nat) (h : d.q1.items = x :: r) :
    d.poll = ({ d with q1 := { d.q1 with items := r } }, x, [(1, .delivered x)]) := by
  simp [DQ.poll, h]

theorem poll_cons2 (d : DQ) (x : Nat) (r : List Nat) (h1 : d.q1.items = [])
    (h2 : d.q2.items = x :: r) :
    d.poll = ({ d with q2 := { d.q2 with items := r } }, x, [(2, .delivered x)]) := by
  simp [DQ.poll, h1, h2]

theorem poll_nil (d : DQ) (h1 : d.q1.items = []) (h2 : d.q2.items = []) : d.poll = (d, 0, []) := by
  simp [DQ.poll, h1, h2]

/-- both FIFO equations for a transition `d → d'` with tagged events `es` -/
def DFifo (d d' : DQ) (es : List DEv) : Prop :=
  (d.q1.items ++ acceptedOf (untag 1 es) = leftOf (untag 1 es) ++ d'.q1.items) ∧
  (d.q2.items ++ acceptedOf (untag 2 es) = leftOf (untag 2 es) ++ d'.q2.items)

theorem DFifo.refl (d : DQ) : DFifo d d [] := by simp [DFifo, acceptedOf, leftOf]

theorem DFifo.trans {a b c : DQ} {e1 e2 : List DEv} (h1 : DFifo a b e1) (h2 : DFifo b c e2) :
    DFifo a c (e1 ++ e2) := by
  obtain ⟨h11, h12⟩ := h1
  obtain ⟨h21, h22⟩ := h2
  constructor
  · simp only [untag_append, acceptedOf_append, leftOf_append]
    rw [← List.append_assoc, h11, List.append_assoc, h21, List.append_assoc]
  · simp only [untag_append, acceptedOf_append, leftOf_append]
    rw [← List.append_assoc, h12, List.append_assoc, h22, List.append_assoc]

theorem poll_fifo (d : DQ) : DFifo d d.poll.1 d.poll.2.2 := by
  cases h1 : d.q1.items with
  | cons x r => rw [poll_cons1 d x r h1]; simp [DFifo, untag_cons, acceptedOf, leftOf, h1]
  | nil =>
    cases h2 : d.q2.items with
    | cons x r => rw [poll_cons2 d x r h1 h2]; simp [DFifo, untag_cons, acceptedOf, leftOf, h1, h2]
    | nil => rw [poll_nil d h1 h2]; exact DFifo.refl d

/-- the same transition with the delivery relabelled as thrown away -/
theorem poll_fifo_swallowed (d : DQ) : DFifo d d.poll.1 (asSwallowed d.poll.2.2) := by
  cases h1 : d.q1.items with
  | cons x r =>
    rw [poll_cons1 d x r h1]; simp [DFifo, asSwallowed, untag_cons, acceptedOf, leftOf, h1]
  | nil =>
    cases h2 : d.q2.items with
    | cons x r =>
      rw [poll_cons2 d x r h1 h2]
      simp [DFifo, asSwallowed, untag_cons, acceptedOf, leftOf, h1, h2]
    | nil => rw [poll_nil d h1 h2]; exact DFifo.refl d

theorem dGetTimeoutLoop_fifo (k : Nat) (d : DQ) :
    DFifo d (dGetTimeoutLoop k d).1 (dGetTimeoutLoop k d).2.2 := by
  induction k generalizing d with
  | zero => exact DFifo.refl d
  | succ k ih =>
    unfold dGetTimeoutLoop
    simp only []
    split
    · exact poll_fifo d
    · split
      · exact DFifo.refl d
      · exact (poll_fifo_swallowed d).trans (ih d.poll.1)

theorem dstep_fifo (d : DQ) (op : DOp) : DFifo d (dstep d op).1 (dstep d op).2.2 := by
  cases op with
  | put1 x =>
    have := step_fifo d.q1 (.put x)
    simp [dstep, DFifo, untag_tag_other, this, acceptedOf, leftOf]
  | put2 x =>
    have := step_fifo d.q2 (.put x)
    simp [dstep, DFifo, untag_tag_other, this, acceptedOf, leftOf]
  | putForce1 x =>
    have := step_fifo d.q1 (.putForce x)
    simp [dstep, DFifo, untag_tag_other, this, acceptedOf, leftOf]
  | putForce2 x =>
    have := step_fifo d.q2 (.putForce x)
    simp [dstep, DFifo, untag_tag_other, this, acceptedOf, leftOf]
  | get =>
    simp only [dstep]
    split
    · exact DFifo.refl d
    · exact poll_fifo d
  | getNoWait => exact poll_fifo d
  | getTimeout k => exact dGetTimeoutLoop_fifo (k + 1) d
  | clear => simp [dstep, DFifo, untag_tag_other]
  | setCapacity c1 c2 => simp [dstep, DFifo, acceptedOf, leftOf]
  | size => exact DFifo.refl d
  | size1 => exact DFifo.refl d
  | size2 => exact DFifo.refl d
  | getCapacity1 => exact DFifo.refl d
  | getCapacity2 => exact DFifo.refl d

theorem drun_fifo (d : DQ) (ops : List DOp) : DFifo d (drun d ops).1 (drun d ops).2.2 := by
  induction ops generalizing d with
  | nil => exact DFifo.refl d
  | cons op ops ih =>
    simp only [drun]
    exact (dstep_fifo d op).trans (ih _)

theorem dstep_fifo1 (d : DQ) (op : DOp) :
    d.q1.items ++ acceptedOf (untag 1 (dstep d op).2.2) =
      leftOf (untag 1 (dstep d op).2.2) ++ (dstep d op).1.q1.items := (dstep_fifo d op).1

theorem dstep_fifo2 (d : DQ) (op : DOp) :
    d.q2.items ++ acceptedOf (untag 2 (dstep d op).2.2) =
      leftOf (untag 2 (dstep d op).2.2) ++ (dstep d op).1.q2.items := (dstep_fifo d op).2

theorem drun_fifo1 (d : DQ) (ops : List DOp) :
    d.q1.items ++ acceptedOf (untag 1 (drun d ops).2.2) =
      leftOf (untag 1 (drun d ops).2.2) ++ (drun d ops).1.q1.items := (drun_fifo d ops).1

theorem drun_fifo2 (d : DQ) (ops : List DOp) :
    d.q2.items ++ acceptedOf (untag 2 (drun d ops).2.2) =
      leftOf (untag 2 (drun d ops).2.2) ++ (drun d ops).1.q2.items := (drun_fifo d ops).2

theorem double_priority (d : DQ) (x : Nat) (r : List Nat) (h : d.q1.items = x :: r) :
    dstep d .get = ({ d with q1 := { d.q1 with items := r } }, .val x, [(1, .delivered x)]) ∧
    dstep d .getNoWait =
      ({ d with q1 := { d.q1 with items := r } }, .val x, [(1, .delivered x)]) := by
  simp [dstep, poll_cons1 d x r h, h]

/-- an event of queue 2 in a poll means queue 1 was empty -/
theorem poll_second (d : DQ) (e : Ev) (h : (2, e) ∈ d.poll.2.2) : d.q1.items = [] := by
  cases h1 : d.q1.items with
  | nil => rfl
  | cons x r => rw [poll_cons1 d x r h1] at h; simp at h

/-- Get / GetNoWait touch queue 2 (deliver or swallow one of its elements — in fact any event of
    queue 2) only when queue 1 is empty. -/
theorem double_second_only_if_first_empty (d : DQ) (op : DOp) (hop : op = .get ∨ op = .getNoWait)
    (x : Nat)
    (h : (2, Ev.delivered x) ∈ (dstep d op).2.2 ∨ (2, Ev.swallowed x) ∈ (dstep d op).2.2) :
    d.q1.items = [] := by
  have key : ∀ e, (2, e) ∈ (dstep d op).2.2 → d.q1.items = [] := by
    intro e he
    rcases hop with rfl | rfl
    · simp only [dstep] at he
      split at he
      · simp at he
      · exact poll_second d e he
    · exact poll_second d e he
  rcases h with h | h
  · exact key _ h
  · exact key _ h

theorem mem_asSwallowed_second (es : List DEv) (e : Ev) (h : (2, e) ∈ asSwallowed es) :
    ∃ e', (2, e') ∈ es := by
  induction es with
  | nil => simp [asSwallowed] at h
  | cons a r ih =>
    obtain ⟨j, ev⟩ := a
    cases ev with
    | delivered y =>
      simp only [asSwallowed, List.mem_cons] at h
      rcases h with h | h
      · exact ⟨.delivered y, by simp [(Prod.mk.inj h).1]⟩
      · obtain ⟨e', he'⟩ := ih h; exact ⟨e', by simp [he']⟩
    | _ =>
      simp only [asSwallowed, List.mem_cons] at h
      rcases h with h | h
      · exact ⟨e, by simp [h]⟩
      · obtain ⟨e', he'⟩ := ih h; exact ⟨e', by simp [he']⟩

/-- GetTimeout polls repeatedly: it reaches queue 2 only after everything in queue 1 turned out to
    be `nil` (and was swallowed). -/
theorem dGetTimeoutLoop_second (k : Nat) (d : DQ) (e : Ev)
    (h : (2, e) ∈ (dGetTimeoutLoop k d).2.2) : ∀ y ∈ d.q1.items, y = 0 := by
  induction k generalizing d with
  | zero => simp [dGetTimeoutLoop] at h
  | succ k ih =>
    cases h1 : d.q1.items with
    | nil => simp
    | cons x r =>
      unfold dGetTimeoutLoop at h
      simp only [poll_cons1 d x r h1] at h
      split at h
      · simp at h
      · rename_i hx
        have hx0 : x = 0 := by simpa using hx
        simp only [List.isEmpty_cons, Bool.false_eq_true, if_false, asSwallowed, List.cons_append,
          List.nil_append, List.mem_cons] at h
        rcases h with h | h
        · simp at h
        · have := ih _ h
          intro y hy
          simp only [List.mem_cons] at hy
          rcases hy with rfl | hy
          · exact hx0
          · exact this y hy

theorem double_second_timeout (d : DQ) (k : Nat) (x : Nat)
    (h : (2, Ev.delivered x) ∈ (dstep d (.getTimeout k)).2.2 ∨
         (2, Ev.swallowed x) ∈ (dstep d (.getTimeout k)).2.2) :
    ∀ y ∈ d.q1.items, y = 0 := by
  rcases h with h | h
  · exact dGetTimeoutLoop_second (k + 1) d _ h
  · exact dGetTimeoutLoop_second (k + 1) d _ h

/-- witness: GetTimeout does serve queue 2 while queue 1 is non-empty, when queue 1 holds `nil` -/
theorem finding_double_timeout_second :
    (dstep ⟨⟨[0], 2⟩, ⟨[5], 2⟩⟩ (.getTimeout 3)).2 =
      (.val 5, [(1, .swallowed 0), (2, .delivered 5)]) := by decide

/-! ### 12. timed get -/

theorem timed_get (timeto : Int) (ticks : List Tick) (t : Int)
    (h : timedGet timeto ticks = some (.timedOut t)) :
    t ≥ timeto ∧ ∃ tk ∈ ticks, tk.now = t ∧ tk.polled = 0 := by
  induction ticks with
  | nil => simp [timedGet] at h
  | cons tk rest ih =>
    unfold timedGet at h
    split at h
    · simp at h
    · rename_i hp
      have hp0 : tk.polled = 0 := by simpa using hp
      split at h
      · rename_i hto
        have : tk.now = t := by simpa using h
        exact ⟨by omega, tk, by simp, this, hp0⟩
      · obtain ⟨h1, tk', hm, h2⟩ := ih h
        exact ⟨h1, tk', by simp [hm], h2⟩

theorem timed_get_got (timeto : Int) (ticks : List Tick) (x : Nat)
    (h : timedGet timeto ticks = some (.got x)) : x ≠ 0 ∧ ∃ tk ∈ ticks, tk.polled = x := by
  induction ticks with
  | nil => simp [timedGet] at h
  | cons tk rest ih =>
    unfold timedGet at h
    split at h
    · rename_i hp
      have : tk.polled = x := by simpa using h
      exact ⟨this ▸ hp, tk, by simp, this⟩
    · split at h
      · simp at h
      · obtain ⟨h1, tk', hm, h2⟩ := ih h
        exact ⟨h1, tk', by simp [hm], h2⟩

theorem timed_get_lower_bound (start timeout : Int) (ticks : List Tick) (t : Int)
    (h : timedGet (start + timeout) ticks = some (.timedOut t)) : t - start ≥ timeout := by
  have := (timed_get (start + timeout) ticks t h).1
  omega

/-! ### 13. non-vacuity: concrete histories -/

/-- capacity 2: the third put is refused, putForce evicts the oldest, gets come out in order -/
example :
    run ⟨[], 2⟩ [.put 1, .put 2, .put 3, .putForce 4, .get, .getNoWait, .get, .getNoWait] =
      (⟨[], 2⟩,
       [.bool true, .bool true, .bool false, .bool false, .val 2, .val 4, .blocked, .val 0],
       [.accepted 1, .accepted 2, .failed 3, .overflowed 1, .accepted 4, .delivered 2,
        .delivered 4]) := by decide

/-- SetCapacity below the size, then putForce: several elements are evicted at once -/
example :
    run ⟨[], 0⟩ [.put 1, .put 2, .put 3, .put 4, .setCapacity 2, .putForce 5, .size, .clear] =
      (⟨[], 2⟩,
       [.bool true, .bool true, .bool true, .bool true, .unit, .bool false, .int 2, .unit],
       [.accepted 1, .accepted 2, .accepted 3, .accepted 4, .overflowed 1, .overflowed 2,
        .overflowed 3, .accepted 5, .cleared 4, .cleared 5]) := by decide

/-- nil elements: one poll swallows one, the next GetTimeout swallows the other and delivers 7 -/
example :
    run ⟨[], 3⟩ [.put 0, .put 0, .put 7, .getTimeout 0, .getTimeout 5, .getTimeout 5] =
      (⟨[], 3⟩,
       [.bool true, .bool true, .bool true, .val 0, .val 7, .val 0],
       [.accepted 0, .accepted 0, .accepted 7, .swallowed 0, .swallowed 0, .delivered 7]) := by
  decide

/-- hypotheses of `put_full` / `putForce_full` / `bounded_run` / `exact_delivery` are satisfiable -/
example : (⟨[1, 2], 2⟩ : Q).cap > 0 ∧ (((⟨[1, 2], 2⟩ : Q).size : Int) ≥ (⟨[1, 2], 2⟩ : Q).cap) := by
  decide

example : ∀ op ∈ [Op.put 1, .putForce 2, .get], ∀ c, op ≠ .setCapacity c := by simp

example :
    overflowedOf (run ⟨[], 2⟩ [.put 1, .put 2, .get]).2.2 = [] ∧
    clearedOf (run ⟨[], 2⟩ [.put 1, .put 2, .get]).2.2 = [] ∧
    swallowedOf (run ⟨[], 2⟩ [.put 1, .put 2, .get]).2.2 = [] := by decide

/-- the double queue: queue 1 is served first although its element arrived later -/
example :
    drun ⟨⟨[], 2⟩, ⟨[], 2⟩⟩
        [.put2 5, .put1 1, .put2 6, .put2 7, .putForce2 8, .get, .get, .getNoWait, .get,
         .getNoWait] =
      (⟨⟨[], 2⟩, ⟨[], 2⟩⟩,
       [.bool true, .bool true, .bool true, .bool false, .bool false, .val 1, .val 6, .val 8,
        .blocked, .val 0],
       [(2, .accepted 5), (1, .accepted 1), (2, .accepted 6), (2, .failed 7), (2, .overflowed 5),
        (2, .accepted 8), (1, .delivered 1), (2, .delivered 6), (2, .delivered 8)]) := by decide

example : (2, Ev.delivered 5) ∈ (dstep ⟨⟨[], 2⟩, ⟨[5], 2⟩⟩ .get).2.2 := by decide

/-- timed get: times out at the first reading at or after the deadline; gets a late element -/
example : timedGet 10 [⟨0, 3⟩, ⟨0, 7⟩, ⟨0, 12⟩, ⟨4, 13⟩] = some (.timedOut 12) := by decide
example : timedGet 10 [⟨0, 3⟩, ⟨0, 7⟩, ⟨9, 8⟩] = some (.got 9) := by decide
example : timedGet 10 [⟨0, 3⟩, ⟨0, 7⟩] = none := by decide

end Queue
