/-
  Golib.Queue.Findings — complete characterisations (iff) of the two known findings of
  RequestQueue / RequestDoubleQueue:

  1. a `nil` element is popped and thrown away by the polling loop of GetTimeout: closed form of
     the loop, "a timed get loses an element iff the head of the queue is a nil element", the exact
     number lost, and "without nil elements nothing is ever lost";
  2. the timed get of the double queue serves queue 2 although queue 1 is not empty: exactly when
     queue 1 holds only nil elements and the polls suffice to reach a non-nil element of queue 2.
     Get / GetNoWait never do that.
-/
import Golib.Queue.Thms

namespace Queue

/-! ### 1. nil elements swallowed by the timed get -/

/-- number of leading nil elements -/
def leadingNils (items : List Nat) : Nat := (items.takeWhile (· = 0)).length

theorem leadingNils_nil : leadingNils [] = 0 := rfl

theorem leadingNils_cons_zero (r : List Nat) : leadingNils (0 :: r) = leadingNils r + 1 := by
  simp [leadingNils, List.takeWhile]

theorem leadingNils_cons_ne (x : Nat) (r : List Nat) (hx : x ≠ 0) : leadingNils (x :: r) = 0 := by
  simp [leadingNils, List.takeWhile, hx]

@[simp] theorem swallowedOf_replicate (n : Nat) :
    swallowedOf (List.replicate n (.swallowed 0)) = List.replicate n 0 := by
  induction n with
  | zero => rfl
  | succ n ih => simp [List.replicate_succ, swallowedOf, ih]

@[simp] theorem deliveredOf_replicate (n : Nat) :
    deliveredOf (List.replicate n (.swallowed 0)) = [] := by
  induction n with
  | zero => rfl
  | succ n ih => simp [List.replicate_succ, deliveredOf, ih]

/-- closed form of the polling loop: it eats leading nil elements, one per poll, and then either
    runs out of polls, or finds the queue empty, or delivers the first non-nil element -/
theorem getTimeoutLoop_closed (n : Nat) (items : List Nat) :
    getTimeoutLoop n items =
      if n ≤ (items.takeWhile (· = 0)).length then
        (items.drop n, 0, List.replicate n (.swallowed 0))
      else
        match items.drop (items.takeWhile (· = 0)).length with
        | [] => ([], 0, List.replicate (items.takeWhile (· = 0)).length (.swallowed 0))
        | x :: r =>
          (r, x, List.replicate (items.takeWhile (· = 0)).length (.swallowed 0) ++ [.delivered x]) := by
  induction n generalizing items with
  | zero => simp [getTimeoutLoop]
  | succ n ih =>
    cases items with
    | nil => simp [getTimeoutLoop]
    | cons x r =>
      by_cases hx : x = 0
      · subst hx
        have h0 : getTimeoutLoop (n + 1) (0 :: r) =
            ((getTimeoutLoop n r).1, (getTimeoutLoop n r).2.1,
              .swallowed 0 :: (getTimeoutLoop n r).2.2) := by
          simp [getTimeoutLoop]
        have htw : ((0 :: r).takeWhile (· = 0)).length = (r.takeWhile (· = 0)).length + 1 := by
          simp [List.takeWhile]
        rw [h0, ih r, htw]
        by_cases hn : n ≤ (r.takeWhile (· = 0)).length
        · rw [if_pos hn, if_pos (by omega)]
          simp [List.replicate_succ]
        · rw [if_neg hn, if_neg (by omega)]
          simp only [List.drop_succ_cons]
          split <;> simp [List.replicate_succ]
      · have htw : ((x :: r).takeWhile (· = 0)).length = 0 := by
          simp [List.takeWhile, hx]
        rw [htw, if_neg (by omega)]
        simp [getTimeoutLoop, hx]

/-- the number of elements a timed get with `k` extra polls loses: one per poll, at most the
    leading nil elements -/
theorem swallowed_count (q : Q) (k : Nat) :
    (swallowedOf (step q (.getTimeout k)).2.2).length =
      min (k + 1) (q.items.takeWhile (· = 0)).length := by
  simp only [step]
  rw [getTimeoutLoop_closed]
  split
  · simp only [swallowedOf_replicate, List.length_replicate]; omega
  · split <;> simp [swallowedOf] <;> omega

theorem takeWhile_zero_pos_iff (items : List Nat) :
    0 < (items.takeWhile (· = 0)).length ↔ items.head? = some 0 := by
  cases items with
  | nil => simp
  | cons x r =>
    by_cases hx : x = 0
    · simp [List.takeWhile, hx]
    · simp [List.takeWhile, hx]

/-- **a timed get loses an element iff the head of the queue is a nil element** -/
theorem swallows_iff (q : Q) (k : Nat) :
    swallowedOf (step q (.getTimeout k)).2.2 ≠ [] ↔ q.items.head? = some 0 := by
  rw [← takeWhile_zero_pos_iff, ← List.length_pos_iff, swallowed_count]
  omega

/-- what is lost is exactly a prefix of the queue consisting of nil elements -/
theorem swallowed_eq (q : Q) (k : Nat) :
    swallowedOf (step q (.getTimeout k)).2.2 =
      List.replicate (min (k + 1) (q.items.takeWhile (· = 0)).length) 0 := by
  have h := swallowed_count q k
  have hall := step_swallowed_nil q (.getTimeout k)
  rw [← h]
  exact List.eq_replicate_iff.mpr ⟨rfl, hall⟩

/-! #### without nil elements nothing is ever swallowed -/

theorem evict_snd_subset (cap : Int) (l : List Nat) : ∀ x ∈ (evict cap l).2, x ∈ l := by
  intro x hx
  rw [← evict_spec cap l]
  exact List.mem_append_right _ hx

/-- the invariant "no nil element in the queue" is preserved by every step that does not put one -/
theorem step_no_nil (q : Q) (op : Op) (hq : 0 ∉ q.items)
    (hop : op ≠ .put 0 ∧ op ≠ .putForce 0) : 0 ∉ (step q op).1.items := by
  cases op with
  | put x =>
    have hx : x ≠ 0 := fun h => hop.1 (by rw [h])
    simp only [step]
    split
    · simp only [List.mem_append, List.mem_singleton, not_or]
      exact ⟨hq, fun h => hx h.symm⟩
    · exact hq
  | putForce x =>
    have hx : x ≠ 0 := fun h => hop.2 (by rw [h])
    simp only [step]
    split
    · simp only [List.mem_append, List.mem_singleton, not_or]
      exact ⟨hq, fun h => hx h.symm⟩
    · simp only [List.mem_append, List.mem_singleton, not_or]
      exact ⟨fun h => hq (evict_snd_subset _ _ _ h), fun h => hx h.symm⟩
  | get =>
    simp only [step]
    split
    · exact hq
    · rename_i x r h
      rw [h] at hq
      exact fun hm => hq (List.mem_cons_of_mem _ hm)
  | getNoWait =>
    simp only [step]
    split
    · exact hq
    · rename_i x r h
      rw [h] at hq
      exact fun hm => hq (List.mem_cons_of_mem _ hm)
  | getTimeout k =>
    have h := (getTimeoutLoop_spec (k + 1) q.items).1
    simp only [step]
    intro hm
    apply hq
    rw [← h]
    exact List.mem_append_right _ hm
  | clear => simp [step]
  | setCapacity c => exact hq
  | size => exact hq
  | getCapacity => exact hq

theorem step_no_nil_no_swallow (q : Q) (op : Op) (hq : 0 ∉ q.items) :
    swallowedOf (step q op).2.2 = [] := by
  cases op with
  | put x => simp only [step]; split <;> simp [swallowedOf]
  | putForce x => simp only [step]; split <;> simp [swallowedOf]
  | get => simp only [step]; split <;> simp [swallowedOf]
  | getNoWait => simp only [step]; split <;> simp [swallowedOf]
  | getTimeout k =>
    have h := swallows_iff q k
    cases hs : swallowedOf (step q (.getTimeout k)).2.2 with
    | nil => rfl
    | cons a l =>
      have : q.items.head? = some 0 := h.mp (by rw [hs]; simp)
      exact absurd (List.mem_of_head? this) hq
  | clear => simp [step]
  | setCapacity c => simp [step, swallowedOf]
  | size => simp [step, swallowedOf]
  | getCapacity => simp [step, swallowedOf]

/-- **without nil elements the full conservation law holds: nothing is ever swallowed** -/
theorem run_no_nil_no_swallow (q : Q) (ops : List Op) (hq : 0 ∉ q.items)
    (hops : ∀ op ∈ ops, op ≠ .put 0 ∧ op ≠ .putForce 0) :
    swallowedOf (run q ops).2.2 = [] := by
  induction ops generalizing q with
  | nil => rfl
  | cons op ops ih =>
    simp only [run, swallowedOf_append]
    rw [step_no_nil_no_swallow q op hq,
      ih _ (step_no_nil q op hq (hops op (by simp))) (fun o ho => hops o (by simp [ho]))]
    rfl

/-- the invariant along a run -/
theorem run_no_nil (q : Q) (ops : List Op) (hq : 0 ∉ q.items)
    (hops : ∀ op ∈ ops, op ≠ .put 0 ∧ op ≠ .putForce 0) : 0 ∉ (run q ops).1.items := by
  induction ops generalizing q with
  | nil => exact hq
  | cons op ops ih =>
    simp only [run]
    exact ih _ (step_no_nil q op hq (hops op (by simp))) (fun o ho => hops o (by simp [ho]))

/-- … so every element that entered is delivered, evicted, cleared or still queued -/
theorem conservation_no_nil (q : Q) (ops : List Op) (hq : 0 ∉ q.items)
    (hops : ∀ op ∈ ops, op ≠ .put 0 ∧ op ≠ .putForce 0) :
    (q.items ++ acceptedOf (run q ops).2.2).Perm
      (deliveredOf (run q ops).2.2 ++ overflowedOf (run q ops).2.2 ++ clearedOf (run q ops).2.2 ++
        (run q ops).1.items) := by
  have h := conservation q ops
  rw [run_no_nil_no_swallow q ops hq hops, List.append_nil] at h
  exact h

/-! ### 2. the double queue: the timed get serves queue 2 although queue 1 is not empty -/

theorem dLoop_q1_val (n : Nat) (d : DQ) (y : Nat) (r : List Nat) (h1 : d.q1.items = y :: r)
    (hy : y ≠ 0) :
    dGetTimeoutLoop (n + 1) d =
      ({ d with q1 := { d.q1 with items := r } }, y, [(1, .delivered y)]) := by
  rw [dGetTimeoutLoop]
  simp only [poll_cons1 d y r h1]
  rw [if_pos hy]

theorem dLoop_q1_nil (n : Nat) (d : DQ) (r : List Nat) (h1 : d.q1.items = 0 :: r) :
    dGetTimeoutLoop (n + 1) d =
      ((dGetTimeoutLoop n { d with q1 := { d.q1 with items := r } }).1,
       (dGetTimeoutLoop n { d with q1 := { d.q1 with items := r } }).2.1,
       (1, .swallowed 0) :: (dGetTimeoutLoop n { d with q1 := { d.q1 with items := r } }).2.2) := by
  rw [dGetTimeoutLoop]
  simp only [poll_cons1 d 0 r h1]
  simp [asSwallowed]

theorem dLoop_q2_val (n : Nat) (d : DQ) (y : Nat) (r : List Nat) (h1 : d.q1.items = [])
    (h2 : d.q2.items = y :: r) (hy : y ≠ 0) :
    dGetTimeoutLoop (n + 1) d =
      ({ d with q2 := { d.q2 with items := r } }, y, [(2, .delivered y)]) := by
  rw [dGetTimeoutLoop]
  simp only [poll_cons2 d y r h1 h2]
  rw [if_pos hy]

theorem dLoop_q2_nil (n : Nat) (d : DQ) (r : List Nat) (h1 : d.q1.items = [])
    (h2 : d.q2.items = 0 :: r) :
    dGetTimeoutLoop (n + 1) d =
      ((dGetTimeoutLoop n { d with q2 := { d.q2 with items := r } }).1,
       (dGetTimeoutLoop n { d with q2 := { d.q2 with items := r } }).2.1,
       (2, .swallowed 0) :: (dGetTimeoutLoop n { d with q2 := { d.q2 with items := r } }).2.2) := by
  rw [dGetTimeoutLoop]
  simp only [poll_cons2 d 0 r h1 h2]
  simp [asSwallowed]

theorem dLoop_empty (n : Nat) (d : DQ) (h1 : d.q1.items = []) (h2 : d.q2.items = []) :
    dGetTimeoutLoop n d = (d, 0, []) := by
  cases n with
  | zero => rfl
  | succ n =>
    rw [dGetTimeoutLoop]
    simp [poll_nil d h1 h2]

/-- exactly when `n` polls of the timed get deliver `x` from queue 2 -/
theorem dGetTimeoutLoop_second_delivered_iff (n : Nat) (d : DQ) (x : Nat) :
    (2, Ev.delivered x) ∈ (dGetTimeoutLoop n d).2.2 ↔
      (∀ y ∈ d.q1.items, y = 0) ∧ x ≠ 0 ∧ ∃ pre post, d.q2.items = pre ++ x :: post ∧
        (∀ y ∈ pre, y = 0) ∧ d.q1.items.length + pre.length < n := by
  induction n generalizing d with
  | zero => simp [dGetTimeoutLoop]
  | succ n ih =>
    cases h1 : d.q1.items with
    | cons y r =>
      by_cases hy : y = 0
      · subst hy
        rw [dLoop_q1_nil n d r h1]
        simp only [List.mem_cons, Prod.mk.injEq, reduceCtorEq, and_false, false_or]
        rw [ih]
        simp only [List.length_cons, forall_eq_or_imp, true_and]
        constructor
        · rintro ⟨a, b, pre, post, c, e, f⟩
          exact ⟨a, b, pre, post, c, e, by omega⟩
        · rintro ⟨a, b, pre, post, c, e, f⟩
          exact ⟨a, b, pre, post, c, e, by omega⟩
      · rw [dLoop_q1_val n d y r h1 hy]
        constructor
        · intro h; simp at h
        · rintro ⟨h, _⟩; exact absurd (h y (by simp)) hy
    | nil =>
      simp only [List.not_mem_nil, false_implies, implies_true, true_and, List.length_nil,
        Nat.zero_add]
      cases h2 : d.q2.items with
      | nil =>
        rw [dLoop_empty (n + 1) d h1 h2]
        constructor
        · intro h; simp at h
        · rintro ⟨_, pre, post, h, _⟩; simp at h
      | cons y r =>
        by_cases hy : y = 0
        · subst hy
          rw [dLoop_q2_nil n d r h1 h2]
          simp only [List.mem_cons, Prod.mk.injEq, reduceCtorEq, and_false, false_or]
          rw [ih]
          simp only [h1, List.not_mem_nil, false_implies, implies_true, true_and, List.length_nil,
            Nat.zero_add]
          constructor
          · rintro ⟨hx, pre, post, c, e, f⟩
            refine ⟨hx, 0 :: pre, post, by rw [c]; rfl, ?_, by simp only [List.length_cons]; omega⟩
            intro z hz
            simp only [List.mem_cons] at hz
            rcases hz with rfl | hz
            · rfl
            · exact e z hz
          · rintro ⟨hx, pre, post, c, e, f⟩
            rw [List.cons_eq_append_iff] at c
            rcases c with ⟨rfl, c⟩ | ⟨pre', rfl, c⟩
            · simp only [List.cons.injEq] at c
              exact absurd c.1 hx
            · refine ⟨hx, pre', post, c, fun z hz => e z (by simp [hz]), ?_⟩
              simp only [List.length_cons] at f
              omega
        · rw [dLoop_q2_val n d y r h1 h2 hy]
          simp only [List.mem_singleton, Prod.mk.injEq, true_and, Ev.delivered.injEq]
          constructor
          · rintro rfl
            exact ⟨hy, [], r, rfl, by simp, by simp⟩
          · rintro ⟨hx, pre, post, c, e, f⟩
            rw [List.cons_eq_append_iff] at c
            rcases c with ⟨rfl, c⟩ | ⟨pre', rfl, c⟩
            · simp only [List.cons.injEq] at c
              exact c.1
            · exact absurd (e y (by simp)) hy

/-- **the timed get serves queue 2 while queue 1 is not empty, iff** queue 1 holds nothing but nil
    elements and the `k + 1` polls suffice to eat them, to eat the leading nil elements of queue 2,
    and to reach a non-nil element of queue 2 -/
theorem double_second_while_first_nonempty_iff (d : DQ) (k : Nat) :
    (d.q1.items ≠ [] ∧ ∃ x, (2, Ev.delivered x) ∈ (dstep d (.getTimeout k)).2.2) ↔
      (d.q1.items ≠ [] ∧ (∀ y ∈ d.q1.items, y = 0) ∧
        ∃ x, x ≠ 0 ∧ ∃ pre post, d.q2.items = pre ++ x :: post ∧ (∀ y ∈ pre, y = 0) ∧
          d.q1.items.length + pre.length < k + 1) := by
  have key : ∀ x, (2, Ev.delivered x) ∈ (dstep d (.getTimeout k)).2.2 ↔ _ :=
    fun x => dGetTimeoutLoop_second_delivered_iff (k + 1) d x
  constructor
  · rintro ⟨hne, x, hx⟩
    obtain ⟨a, b, c⟩ := (key x).mp hx
    exact ⟨hne, a, x, b, c⟩
  · rintro ⟨hne, a, x, b, c⟩
    exact ⟨hne, x, (key x).mpr ⟨a, b, c⟩⟩

/-- without the side condition on queue 1: exactly when the timed get delivers `x` from queue 2 -/
theorem double_second_delivered_iff (d : DQ) (k x : Nat) :
    (2, Ev.delivered x) ∈ (dstep d (.getTimeout k)).2.2 ↔
      (∀ y ∈ d.q1.items, y = 0) ∧ x ≠ 0 ∧ ∃ pre post, d.q2.items = pre ++ x :: post ∧
        (∀ y ∈ pre, y = 0) ∧ d.q1.items.length + pre.length < k + 1 :=
  dGetTimeoutLoop_second_delivered_iff (k + 1) d x

/-- Get / GetNoWait deliver `x` from queue 2 iff queue 1 is empty and `x` is the head of queue 2
    (`double_second_only_if_first_empty` as an iff): the priority violation never happens -/
theorem double_second_get_iff (d : DQ) (op : DOp) (hop : op = .get ∨ op = .getNoWait) (x : Nat) :
    (2, Ev.delivered x) ∈ (dstep d op).2.2 ↔ d.q1.items = [] ∧ d.q2.items.head? = some x := by
  have hpoll : (2, Ev.delivered x) ∈ d.poll.2.2 ↔ d.q1.items = [] ∧ d.q2.items.head? = some x := by
    cases h1 : d.q1.items with
    | cons y r => rw [poll_cons1 d y r h1]; simp
    | nil =>
      cases h2 : d.q2.items with
      | cons y r => rw [poll_cons2 d y r h1 h2]; simp [eq_comm]
      | nil => rw [poll_nil d h1 h2]; simp
  rcases hop with rfl | rfl
  · simp only [dstep]
    split
    · rename_i he
      simp only [Bool.and_eq_true, List.isEmpty_iff] at he
      simp [he.2]
    · exact hpoll
  · exact hpoll

/-- Get / GetNoWait serve queue 2 iff queue 1 is empty and queue 2 is not -/
theorem double_second_get_iff' (d : DQ) (op : DOp) (hop : op = .get ∨ op = .getNoWait) :
    (∃ x, (2, Ev.delivered x) ∈ (dstep d op).2.2) ↔ d.q1.items = [] ∧ d.q2.items ≠ [] := by
  constructor
  · rintro ⟨x, hx⟩
    obtain ⟨h1, h2⟩ := (double_second_get_iff d op hop x).mp hx
    exact ⟨h1, fun h => by rw [h] at h2; simp at h2⟩
  · rintro ⟨h1, h2⟩
    cases h : d.q2.items with
    | nil => exact absurd h h2
    | cons y r => exact ⟨y, (double_second_get_iff d op hop y).mpr ⟨h1, by simp [h]⟩⟩

/-- … in particular never while queue 1 is non-empty -/
theorem double_get_never_violates (d : DQ) (op : DOp) (hop : op = .get ∨ op = .getNoWait) :
    ¬ (d.q1.items ≠ [] ∧ ∃ x, (2, Ev.delivered x) ∈ (dstep d op).2.2) := by
  rintro ⟨hne, hx⟩
  exact hne ((double_second_get_iff' d op hop).mp hx).1

/-- the timed get of the double queue is the timed get of the single queue `q1 ++ q2`: same
    value, same remaining elements, same events (tags dropped) — the two-queue priority is lost
    exactly where the single queue loses nil elements -/
theorem dGetTimeoutLoop_concat (n : Nat) (d : DQ) :
    (dGetTimeoutLoop n d).1.q1.items ++ (dGetTimeoutLoop n d).1.q2.items =
      (getTimeoutLoop n (d.q1.items ++ d.q2.items)).1 ∧
    (dGetTimeoutLoop n d).2.1 = (getTimeoutLoop n (d.q1.items ++ d.q2.items)).2.1 ∧
    (dGetTimeoutLoop n d).2.2.map (·.2) = (getTimeoutLoop n (d.q1.items ++ d.q2.items)).2.2 := by
  induction n generalizing d with
  | zero => simp [dGetTimeoutLoop, getTimeoutLoop]
  | succ n ih =>
    cases h1 : d.q1.items with
    | cons y r =>
      by_cases hy : y = 0
      · subst hy
        have := ih { d with q1 := { d.q1 with items := r } }
        rw [dLoop_q1_nil n d r h1]
        simpa [getTimeoutLoop] using this
      · rw [dLoop_q1_val n d y r h1 hy]
        simp [getTimeoutLoop, hy]
    | nil =>
      cases h2 : d.q2.items with
      | nil => rw [dLoop_empty (n + 1) d h1 h2]; simp [getTimeoutLoop, h1, h2]
      | cons y r =>
        by_cases hy : y = 0
        · subst hy
          have := ih { d with q2 := { d.q2 with items := r } }
          rw [dLoop_q2_nil n d r h1 h2]
          simpa [getTimeoutLoop, h1] using this
        · rw [dLoop_q2_val n d y r h1 h2 hy]
          simp [getTimeoutLoop, hy, h1]

/-! ### 3. non-vacuity -/

/-- closed form on instances: out of polls / queue exhausted / delivery behind two nils -/
example : getTimeoutLoop 2 [0, 0, 0, 5] = ([0, 5], 0, [.swallowed 0, .swallowed 0]) := by decide
example : getTimeoutLoop 5 [0, 0] = ([], 0, [.swallowed 0, .swallowed 0]) := by decide
example : getTimeoutLoop 5 [0, 0, 5, 6] = ([6], 5, [.swallowed 0, .swallowed 0, .delivered 5]) := by
  decide

/-- both sides of `swallows_iff` hold / fail -/
example : swallowedOf (step ⟨[0, 5], 0⟩ (.getTimeout 0)).2.2 ≠ [] ∧
    (⟨[0, 5], 0⟩ : Q).items.head? = some 0 := by decide
example : swallowedOf (step ⟨[5, 0], 0⟩ (.getTimeout 7)).2.2 = [] ∧
    (⟨[5, 0], 0⟩ : Q).items.head? ≠ some 0 := by decide

/-- `swallowed_count`: min (k+1) z with k+1 = 2 < z = 3, and with k+1 = 4 > z = 3 -/
example : (swallowedOf (step ⟨[0, 0, 0, 5], 0⟩ (.getTimeout 1)).2.2).length = 2 := by decide
example : (swallowedOf (step ⟨[0, 0, 0, 5], 0⟩ (.getTimeout 3)).2.2).length = 3 := by decide

/-- hypotheses of `run_no_nil_no_swallow` are satisfiable, and dropping one breaks the conclusion -/
example : 0 ∉ (⟨[3, 4], 2⟩ : Q).items ∧
    ∀ op ∈ [Op.put 1, .putForce 2, .getTimeout 3, .clear], op ≠ .put 0 ∧ op ≠ .putForce 0 := by
  decide
example : swallowedOf (run ⟨[], 2⟩ [.put 0, .getTimeout 3]).2.2 = [0] := by decide

/-- the double-queue violation: both sides of the iff hold (queue 1 = [nil, nil], 3 polls needed) -/
example :
    (dstep ⟨⟨[0, 0], 2⟩, ⟨[5], 2⟩⟩ (.getTimeout 2)).2 =
      (.val 5, [(1, .swallowed 0), (1, .swallowed 0), (2, .delivered 5)]) := by decide
/-- one poll less: queue 2 is not reached -/
example :
    (dstep ⟨⟨[0, 0], 2⟩, ⟨[5], 2⟩⟩ (.getTimeout 1)).2 =
      (.val 0, [(1, .swallowed 0), (1, .swallowed 0)]) := by decide
/-- a non-nil element in queue 1: queue 2 is never served -/
example :
    (dstep ⟨⟨[0, 7], 2⟩, ⟨[5], 2⟩⟩ (.getTimeout 9)).2 =
      (.val 7, [(1, .swallowed 0), (1, .delivered 7)]) := by decide
/-- Get serves queue 2 only with queue 1 empty -/
example : (dstep ⟨⟨[], 2⟩, ⟨[5, 6], 2⟩⟩ .get).2 = (.val 5, [(2, .delivered 5)]) := by decide
example : (dstep ⟨⟨[0], 2⟩, ⟨[5, 6], 2⟩⟩ .get).2 = (.val 0, [(1, .delivered 0)]) := by decide

end Queue
