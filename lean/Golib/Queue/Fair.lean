/-
  Golib.Queue.Fair — progress of a blocked `Get` of util/queue/RequestQueue.go on infinite
  executions of the monitor machine, for ANY number of producers and consumers, under an explicit
  fairness assumption on the actions of the consumer thread only (`Golib.Conc.Fair`).

  The schedule is adversarial; the other threads are not constrained at all except through the
  stated hypotheses on the lock and the queue contents.
-/
import Golib.Conc.Fair
import Golib.Queue.Conc

namespace Queue

open Conc.Cond

theorem cstep_isSome_of_nonempty (q : Q) (op : Op) (h : q.items ≠ []) : (cstep q op).isSome := by
  cases hc : cstep q op with
  | some _ => rfl
  | none => exact absurd ((cstep_none_iff q op).1 hc).2 h

theorem cstep_get_isSome (q : Q) : (cstep q .get).isSome ↔ q.items ≠ [] := by
  constructor
  · intro h hi
    have : cstep q .get = none := (cstep_none_iff q .get).2 ⟨rfl, hi⟩
    rw [this] at h
    simp at h
  · exact cstep_isSome_of_nonempty q .get

/-- an enabled `get` returns the head of the queue and removes it -/
theorem cstep_get_some (q v : Q) (r : CRet) (h : cstep q .get = some (v, r)) :
    ∃ x rest, q.items = x :: rest ∧ v = { q with items := rest } ∧
      r = (.val x, [.delivered x]) := by
  cases hi : q.items with
  | nil =>
    have : cstep q .get = none := (cstep_none_iff q .get).2 ⟨rfl, hi⟩
    rw [this] at h
    simp at h
  | cons x rest =>
    rw [cstep_get_cons q x rest hi] at h
    simp at h
    exact ⟨x, rest, rfl, h.1.symm, h.2.symm⟩

variable {st : Nat → St Q Op CRet} {acts : Nat → Act Op}

/-- **The element returned is the head of the queue at the moment `t` got the lock.**  `t` holds
    the lock with a `get` at `i` and the queue is `x :: rest`; under weak fairness of `t`'s
    body/rel/ret, whatever the other threads do, `t` returns exactly `x`, and its body (index `k`)
    found the queue unchanged and left `rest`. -/
theorem get_result_is_head (hE : IsExec cstep qbcast st acts) (q0 : Q) (h0 : Reach q0 st)
    (t : Nat)
    (hwb : WF cstep qbcast st acts (.body t)) (hwr : WF cstep qbcast st acts (.rel t))
    (hwt : WF cstep qbcast st acts (.ret t))
    (i : Nat) (x : Nat) (rest : List Nat) (hp : (st i).ph t = .locked .get)
    (hq : (st i).sh.items = x :: rest) :
    ∃ j, i < j ∧ (st j).ph t = .idle ∧
      (∃ l, (st j).log = .ret t .get (.val x, [.delivered x]) :: l) ∧
      ∃ k, i ≤ k ∧ k < j ∧ acts k = .body t ∧ (st k).sh = (st i).sh ∧
        (st (k + 1)).sh = { (st i).sh with items := rest } :=
  fair_completes hE q0 h0 t .get hwb hwr hwt i _ _ hp (cstep_get_cons (st i).sh x rest hq)

/-- **A blocked (or starting) `Get` returns under weak fairness** — any number of other producers
    and consumers, adversarial schedule.  `t` is about to (re-)acquire the lock at `i`; as long as
    it has not acquired, the lock is free and the queue non-empty.  Then `t` returns an element
    `x`: it acquired at `a`, its body ran at `k` on the queue it found at `a`, `x` is the head of
    that queue and the body left the tail. -/
theorem fair_blocked_get_returns_head (hE : IsExec cstep qbcast st acts) (q0 : Q)
    (h0 : Reach q0 st) (t : Nat)
    (hwa : WF cstep qbcast st acts (.acq t)) (hwb : WF cstep qbcast st acts (.body t))
    (hwr : WF cstep qbcast st acts (.rel t)) (hwt : WF cstep qbcast st acts (.ret t))
    (i : Nat) (hp : (st i).ph t = .invoked .get ∨ (st i).ph t = .woken .get)
    (hG : ∀ j, i ≤ j → ((st j).ph t = .invoked .get ∨ (st j).ph t = .woken .get) →
      (st j).holder = none ∧ (st j).sh.items ≠ []) :
    ∃ j, i < j ∧ ∃ x l, (st j).log = .ret t .get (.val x, [.delivered x]) :: l ∧
      (st j).ph t = .idle ∧
      ∃ a k rest, i ≤ a ∧ a < k ∧ k < j ∧ acts a = .acq t ∧ acts k = .body t ∧
        (st k).sh = (st a).sh ∧ (st a).sh.items = x :: rest ∧
        (st (k + 1)).sh = { (st a).sh with items := rest } := by
  obtain ⟨j, h1, h2, r, l, h3, a, k, v', g1, g2, g3, g4, g5, g6, g7, g8⟩ :=
    fair_get_returns_lin hE q0 h0 t .get hwa hwb hwr hwt i hp
      (fun j hj hw => ⟨(hG j hj hw).1, (cstep_get_isSome _).2 (hG j hj hw).2⟩)
  obtain ⟨x, rest, e1, e2, e3⟩ := cstep_get_some _ _ _ g7
  subst e3
  refine ⟨j, h1, x, l, h3, h2, a, k, rest, g1, g2, g3, g4, g5, g6, by rw [← g6]; exact e1, ?_⟩
  rw [g8, e2, g6]

/-- the statement asked for -/
theorem fair_blocked_get_returns (hE : IsExec cstep qbcast st acts) (q0 : Q)
    (h0 : Reach q0 st) (t : Nat)
    (hwa : WF cstep qbcast st acts (.acq t)) (hwb : WF cstep qbcast st acts (.body t))
    (hwr : WF cstep qbcast st acts (.rel t)) (hwt : WF cstep qbcast st acts (.ret t))
    (i : Nat) (hp : (st i).ph t = .invoked .get ∨ (st i).ph t = .woken .get)
    (hG : ∀ j, i ≤ j → ((st j).ph t = .invoked .get ∨ (st j).ph t = .woken .get) →
      (st j).holder = none ∧ (st j).sh.items ≠ []) :
    ∃ j, i < j ∧ ∃ x l, (st j).log = .ret t .get (.val x, [.delivered x]) :: l ∧
      (st j).ph t = .idle := by
  obtain ⟨j, h1, x, l, h2, h3, _⟩ :=
    fair_blocked_get_returns_head hE q0 h0 t hwa hwb hwr hwt i hp hG
  exact ⟨j, h1, x, l, h2, h3⟩

/-- **Contended lock.**  With *strong* fairness of `acq t` other threads may take the lock in
    between: it is enough that, while `t` wants the lock, the lock is free again and again and
    the queue is non-empty whenever `t` wants the lock and the lock is free. -/
theorem sfair_blocked_get_returns (hE : IsExec cstep qbcast st acts) (q0 : Q)
    (h0 : Reach q0 st) (t : Nat)
    (hsa : SF cstep qbcast st acts (.acq t)) (hwb : WF cstep qbcast st acts (.body t))
    (hwr : WF cstep qbcast st acts (.rel t)) (hwt : WF cstep qbcast st acts (.ret t))
    (i : Nat) (hp : (st i).ph t = .invoked .get ∨ (st i).ph t = .woken .get)
    (hfree : ∀ j, i ≤ j → ((st j).ph t = .invoked .get ∨ (st j).ph t = .woken .get) →
      ∃ k, j ≤ k ∧ (st k).holder = none)
    (hG : ∀ j, i ≤ j → ((st j).ph t = .invoked .get ∨ (st j).ph t = .woken .get) →
      (st j).holder = none → (st j).sh.items ≠ []) :
    ∃ j, i < j ∧ ∃ x l, (st j).log = .ret t .get (.val x, [.delivered x]) :: l ∧
      (st j).ph t = .idle ∧
      ∃ a k rest, i ≤ a ∧ a < k ∧ k < j ∧ acts a = .acq t ∧ acts k = .body t ∧
        (st k).sh = (st a).sh ∧ (st a).sh.items = x :: rest ∧
        (st (k + 1)).sh = { (st a).sh with items := rest } := by
  obtain ⟨j, h1, h2, r, l, h3, a, k, v', g1, g2, g3, g4, g5, g6, g7, g8⟩ :=
    sfair_get_returns hE q0 h0 t .get hsa hwb hwr hwt i hp hfree
      (fun j hj hw hf => (cstep_get_isSome _).2 (hG j hj hw hf))
  obtain ⟨x, rest, e1, e2, e3⟩ := cstep_get_some _ _ _ g7
  subst e3
  refine ⟨j, h1, x, l, h3, h2, a, k, rest, g1, g2, g3, g4, g5, g6, by rw [← g6]; exact e1, ?_⟩
  rw [g8, e2, g6]

/-- **A consumer in the wait set has left it by the first moment the queue is non-empty.**
    `t` waits at `i` (then its operation is a `get` and the queue is empty at `i`); the queue is
    non-empty at `k ≥ i`.  Then `i < k`, and at some `j ∈ (i, k]` the thread is `woken`
    (runnable), having been in the wait set at every index before `j`. -/
theorem fair_waiter_leaves_wait_set (hE : IsExec cstep qbcast st acts) (q0 : Q)
    (h0 : Reach q0 st) (t : Nat) (op : Op) (i k : Nat) (hik : i ≤ k)
    (hw : (st i).ph t = .waiting op) (hq : (st k).sh.items ≠ []) :
    op = .get ∧ (st i).sh.items = [] ∧
    ∃ j, i < j ∧ j ≤ k ∧ (st j).ph t = .woken op ∧
      ∀ m, i ≤ m → m < j → (st m).ph t = .waiting op := by
  have hb := (cstep_none_iff _ _).1 ((exec_cinv hE queue_H q0 h0 i).blocked t op hw)
  exact ⟨hb.1, hb.2, waiting_wakes hE queue_H q0 h0 t op i k hik hw
    (cstep_isSome_of_nonempty _ op hq)⟩

/-- waiter + contended lock: a consumer in the wait set at `i`, the queue non-empty at some later
    `k`; from then on the hypotheses of `sfair_blocked_get_returns`.  Then it returns an element. -/
theorem sfair_waiting_get_returns (hE : IsExec cstep qbcast st acts) (q0 : Q)
    (h0 : Reach q0 st) (t : Nat)
    (hsa : SF cstep qbcast st acts (.acq t)) (hwb : WF cstep qbcast st acts (.body t))
    (hwr : WF cstep qbcast st acts (.rel t)) (hwt : WF cstep qbcast st acts (.ret t))
    (i k : Nat) (hik : i ≤ k) (hw : (st i).ph t = .waiting .get) (hq : (st k).sh.items ≠ [])
    (hfree : ∀ j, i ≤ j → ((st j).ph t = .invoked .get ∨ (st j).ph t = .woken .get) →
      ∃ k, j ≤ k ∧ (st k).holder = none)
    (hG : ∀ j, i ≤ j → ((st j).ph t = .invoked .get ∨ (st j).ph t = .woken .get) →
      (st j).holder = none → (st j).sh.items ≠ []) :
    ∃ j, i < j ∧ ∃ x l, (st j).log = .ret t .get (.val x, [.delivered x]) :: l ∧
      (st j).ph t = .idle := by
  obtain ⟨_, _, w, hiw, _, hww, _⟩ := fair_waiter_leaves_wait_set hE q0 h0 t .get i k hik hw hq
  obtain ⟨j, h1, x, l, h2, h3, _⟩ := sfair_blocked_get_returns hE q0 h0 t hsa hwb hwr hwt w
    (Or.inr hww) (fun j hj => hfree j (by omega)) (fun j hj => hG j (by omega))
  exact ⟨j, by omega, x, l, h2, h3⟩

/-! ### Non-vacuity -/

/-- the hypotheses of `fair_blocked_get_returns` are satisfiable: producer 1 puts 7, consumer 0
    gets it, forever (an infinite execution from the empty queue, weakly fair for thread 0) -/
theorem fair_hyps_satisfiable :
    ∃ (st : Nat → St Q Op CRet) (acts : Nat → Act Op),
      IsExec cstep qbcast st acts ∧ Reach demoQ st ∧
      WF cstep qbcast st acts (.acq 0) ∧ WF cstep qbcast st acts (.body 0) ∧
      WF cstep qbcast st acts (.rel 0) ∧ WF cstep qbcast st acts (.ret 0) ∧
      (st 6).ph 0 = .invoked .get ∧
      ∀ j, ((st j).ph 0 = .invoked .get ∨ (st j).ph 0 = .woken .get) →
        (st j).holder = none ∧ (st j).sh.items ≠ [] := by
  obtain ⟨st, acts, hE, h0, a, b, c, d, hp, hG⟩ :=
    pingpong_fair_exec cstep qbcast demoQ ⟨[7], 2⟩ (.put 7) .get (.bool true, [.accepted 7])
      (.val 7, [.delivered 7]) (by decide) (by decide)
  exact ⟨st, acts, hE, h0, a, b, c, d, hp,
    fun j hj => ⟨(hG j hj).1, (cstep_get_isSome _).1 (hG j hj).2⟩⟩

example : ∃ (st : Nat → St Q Op CRet) (acts : Nat → Act Op), IsExec cstep qbcast st acts ∧
    ∃ j, 6 < j ∧ ∃ x l, (st j).log = .ret 0 .get (.val x, [.delivered x]) :: l ∧
      (st j).ph 0 = .idle := by
  obtain ⟨st, acts, hE, h0, a, b, c, d, hp, hG⟩ := fair_hyps_satisfiable
  exact ⟨st, acts, hE,
    fair_blocked_get_returns hE demoQ h0 0 a b c d 6 (Or.inl hp) (fun j _ h => hG j h)⟩

end Queue
