/-
  Golib.Queue.Conc — util/queue/RequestQueue.go as a *monitor object* (`Golib.Conc.Cond`):
  the sequential queue `Queue.step` guarded by the mutex of a `sync.Cond`.

    Get:  Lock; for size <= 0 { Wait() }; RemoveFirst; Unlock      -- guard: items ≠ []
    Put / PutForce: Lock; …; Broadcast(); Unlock                   -- broadcast on every path
    Clear, GetNoWait, GetTimeout (a polling loop of GetNoWait), Size, SetCapacity, GetCapacity:
          Lock; …; Unlock                                          -- no broadcast

  `cstep` is `Queue.step` with the blocking branch of `get` turned into "guard false" (`none`);
  `qbcast` says which operations broadcast (tie A checks on the Go source that exactly `Put` and
  `PutForce` broadcast, on every path).  Everything below holds for ALL schedules and any number of
  producer/consumer threads (threads are natural numbers, a schedule is an arbitrary action list).
-/
import Golib.Conc.Cond
import Golib.Queue.Thms

namespace Queue

/-- what an operation hands back at its linearization point: the return value and the events -/
abbrev CRet := Ret × List Ev

/-- the queue operation as a guarded operation: `none` = the caller must `Wait()` -/
def cstep (q : Q) (op : Op) : Option (Q × CRet) :=
  if op = .get ∧ q.items = [] then none else some (step q op)

/-- the operations that call `Broadcast()` before unlocking -/
def qbcast : Op → Bool
  | .put _ | .putForce _ => true
  | _ => false

theorem cstep_none_iff (q : Q) (op : Op) : cstep q op = none ↔ op = .get ∧ q.items = [] := by
  unfold cstep
  split <;> simp_all

theorem cstep_some (q : Q) (op : Op) (v : Q) (r : CRet) (h : cstep q op = some (v, r)) :
    step q op = (v, r) := by
  unfold cstep at h
  split at h
  · simp at h
  · simpa using h

theorem cstep_get_cons (q : Q) (x : Nat) (rest : List Nat) (h : q.items = x :: rest) :
    cstep q .get = some ({ q with items := rest }, (.val x, [.delivered x])) := by
  simp [cstep, step, h]

theorem getTimeoutLoop_nil (k : Nat) : getTimeoutLoop k [] = ([], 0, []) := by
  cases k <;> rfl

/-- a non-broadcasting operation leaves an empty queue empty -/
theorem step_keeps_empty (q : Q) (op : Op) (hb : qbcast op = false) (hi : q.items = []) :
    (step q op).1.items = [] := by
  cases op with
  | put x => simp [qbcast] at hb
  | putForce x => simp [qbcast] at hb
  | get => simp [step, hi]
  | getNoWait => simp [step, hi]
  | getTimeout k => simp [step, hi, getTimeoutLoop_nil]
  | clear => simp [step]
  | setCapacity c => simp [step, hi]
  | size => simp [step, hi]
  | getCapacity => simp [step, hi]

/-- **The broadcast obligation holds for the request queue**: the only blockable operation is
    `get`, blocked iff the queue is empty, and none of get / getNoWait / getTimeout / clear /
    setCapacity / size / getCapacity makes an empty queue non-empty. -/
theorem queue_H : Conc.Cond.NoEnable cstep qbcast := by
  intro v op v' r hs hb op' hn
  rw [cstep_none_iff] at hn ⊢
  obtain ⟨hop, hi⟩ := hn
  refine ⟨hop, ?_⟩
  have h1 := cstep_some v op v' r hs
  have h2 := step_keeps_empty v op hb hi
  rw [h1] at h2
  exact h2

/-- the obligation is *not* met if `put` stops broadcasting (cf. `lost_wakeup_without_broadcast`) -/
theorem queue_H_needs_put_broadcast : ¬ Conc.Cond.NoEnable cstep (fun _ => false) := by
  intro H
  have := H ⟨[], 0⟩ (.put 7) ⟨[7], 0⟩ (.bool true, [.accepted 7]) (by decide) rfl .get (by decide)
  revert this
  decide

/-- **No lost wake-up.**  In every reachable state, whatever the schedule and the number of
    threads: a thread in the wait set is a `get` and the queue is empty. -/
theorem queue_no_lost_wakeup (q0 : Q) (as : List (Conc.Cond.Act Op)) (s : Conc.Cond.St Q Op CRet)
    (h : Conc.Cond.runActs cstep qbcast (Conc.Cond.initSt q0) as = some s) (t : Nat) (op : Op)
    (hw : s.ph t = .waiting op) : op = .get ∧ s.sh.items = [] :=
  (cstep_none_iff _ _).1 (Conc.Cond.no_lost_wakeup cstep qbcast queue_H q0 as s h t op hw)

/-- **A blocked (or starting) get returns once an element is available and it is scheduled.** -/
theorem blocked_get_returns (q0 : Q) (as : List (Conc.Cond.Act Op)) (s : Conc.Cond.St Q Op CRet)
    (h : Conc.Cond.runActs cstep qbcast (Conc.Cond.initSt q0) as = some s) (t : Nat)
    (x : Nat) (rest : List Nat)
    (hp : s.ph t = .invoked .get ∨ s.ph t = .woken .get) (hfree : s.holder = none)
    (hi : s.sh.items = x :: rest) :
    ∃ s', Conc.Cond.runActs cstep qbcast s [.acq t, .body t, .rel t, .ret t] = some s' ∧
      s'.sh = { s.sh with items := rest } ∧
      s'.log = .ret t .get (.val x, [.delivered x]) :: .lin t .get (.val x, [.delivered x]) :: s.log ∧
      s'.ph t = .idle :=
  Conc.Cond.enabled_op_completes cstep qbcast queue_H q0 as s h t .get _ _ hp hfree
    (cstep_get_cons s.sh x rest hi)

/-- the waiter is made runnable by the producer that makes the queue non-empty: a consumer in the
    wait set, a producer holding the lock with `put x` / `putForce x`; after the producer's body
    the consumer is `woken`. -/
theorem put_wakes_consumer (s s1 : Conc.Cond.St Q Op CRet) (t u : Nat) (op' : Op)
    (hw : s.ph t = .waiting .get) (hl : s.ph u = .locked op') (hb : qbcast op' = true)
    (hn : Conc.Cond.next cstep qbcast s (.body u) = some s1) : s1.ph t = .woken .get := by
  have hs : cstep s.sh op' = some (step s.sh op') := by
    have : op' ≠ .get := by intro e; subst e; simp [qbcast] at hb
    simp [cstep, this]
  exact (Conc.Cond.woken_by_enabler cstep qbcast s s1 t u .get op' _ _ hw hl hs hb hn).1

/-! ### The linearization is a run of the sequential queue -/

def opsOf (l : List (Nat × Op × CRet)) : List Op := l.map (fun x => x.2.1)
def retsOf (l : List (Nat × Op × CRet)) : List Ret := l.map (fun x => x.2.2.1)
/-- all events in linearization order (chronological) -/
def evsOf (l : List (Nat × Op × CRet)) : List Ev := l.flatMap (fun x => x.2.2.2)

theorem run_append (q : Q) (a b : List Op) :
    run q (a ++ b) = ((run (run q a).1 b).1, (run q a).2.1 ++ (run (run q a).1 b).2.1,
      (run q a).2.2 ++ (run (run q a).1 b).2.2) := by
  induction a generalizing q with
  | nil => simp [run]
  | cons op a ih => simp [run, ih]

theorem run_of_retsOk (q0 : Q) (log : List (Conc.Ev Op CRet))
    (h : Conc.Cond.retsOk cstep q0 log) :
    run q0 (opsOf (Conc.linOps log)) =
      (Conc.Cond.seqState cstep q0 log, retsOf (Conc.linOps log), evsOf (Conc.linOps log)) := by
  induction log with
  | nil => rfl
  | cons e rest ih =>
    cases e with
    | inv t op => simpa [Conc.linOps, Conc.Cond.seqState] using ih h
    | ret t op r => simpa [Conc.linOps, Conc.Cond.seqState] using ih h
    | lin t op r =>
      obtain ⟨h1, h2⟩ := h
      have hs := cstep_some _ _ _ _ h1
      have ih' := ih h2
      simp only [Conc.linOps, opsOf, retsOf, evsOf, List.map_append, List.flatMap_append,
        List.map_cons, List.map_nil, List.flatMap_cons, List.flatMap_nil] at ih' ⊢
      rw [run_append, ih']
      simp [run, hs]

/-- **conc_run.**  In every reachable state the chronological list of linearization points
    `L = linOps s.log` is a run of the *sequential* queue: replaying its operations with
    `Queue.run` from the initial queue yields the shared state, the recorded return values and the
    recorded events.  (Only enabled operations are ever linearized: a `get` on an empty queue
    waits instead, see `lin_never_blocked`.) -/
theorem conc_run (q0 : Q) (as : List (Conc.Cond.Act Op)) (s : Conc.Cond.St Q Op CRet)
    (h : Conc.Cond.runActs cstep qbcast (Conc.Cond.initSt q0) as = some s) :
    (run q0 (opsOf (Conc.linOps s.log))).1 = s.sh ∧
    (run q0 (opsOf (Conc.linOps s.log))).2.2 = evsOf (Conc.linOps s.log) ∧
    (run q0 (opsOf (Conc.linOps s.log))).2.1 = retsOf (Conc.linOps s.log) := by
  obtain ⟨_, h2, h3⟩ := Conc.Cond.monitor_linearizable cstep qbcast q0 as s h
  rw [run_of_retsOk q0 s.log h2]
  exact ⟨h3.symm, rfl, rfl⟩

theorem cstep_ret_ne_blocked (q : Q) (op : Op) (v : Q) (r : CRet) (h : cstep q op = some (v, r)) :
    r.1 ≠ .blocked := by
  unfold cstep at h
  split at h
  · simp at h
  · rename_i hg
    simp at h
    have hr : r.1 = (step q op).2.1 := by rw [h]
    rw [hr]
    cases op with
    | put x => simp only [step]; split <;> simp
    | putForce x => simp only [step]; split <;> simp
    | get =>
      simp only [step]
      split
      · rename_i hi; simp [hi] at hg
      · simp
    | getNoWait => simp only [step]; split <;> simp
    | getTimeout k => simp [step]
    | clear => simp [step]
    | setCapacity c => simp [step]
    | size => simp [step]
    | getCapacity => simp [step]

theorem retsOk_ne_blocked (q0 : Q) (log : List (Conc.Ev Op CRet))
    (h : Conc.Cond.retsOk cstep q0 log) : ∀ x ∈ Conc.linOps log, x.2.2.1 ≠ .blocked := by
  induction log with
  | nil => simp [Conc.linOps]
  | cons e rest ih =>
    cases e with
    | inv t op => simpa [Conc.linOps] using ih h
    | ret t op r => simpa [Conc.linOps] using ih h
    | lin t op r =>
      obtain ⟨h1, h2⟩ := h
      intro x hx
      simp only [Conc.linOps, List.mem_append, List.mem_singleton] at hx
      rcases hx with hx | hx
      · exact ih h2 x hx
      · subst hx; exact cstep_ret_ne_blocked _ _ _ _ h1

/-- no linearized operation is a blocked get: in the concurrent object "blocked" is never a return
    value, it is the wait set -/
theorem lin_never_blocked (q0 : Q) (as : List (Conc.Cond.Act Op)) (s : Conc.Cond.St Q Op CRet)
    (h : Conc.Cond.runActs cstep qbcast (Conc.Cond.initSt q0) as = some s) :
    ∀ x ∈ Conc.linOps s.log, x.2.2.1 ≠ .blocked :=
  retsOk_ne_blocked q0 s.log (Conc.Cond.monitor_linearizable cstep qbcast q0 as s h).2.1

/-! ### Consequences for every reachable state (any schedule, any number of threads) -/

/-- **Every accepted element is delivered to exactly one consumer, or reported evicted / cleared
    (or is a `nil` swallowed by GetTimeout's polling loop), or is still in the queue** — as
    multisets, for the events of the linearization of any reachable state. -/
theorem exactly_once (q0 : Q) (as : List (Conc.Cond.Act Op)) (s : Conc.Cond.St Q Op CRet)
    (h : Conc.Cond.runActs cstep qbcast (Conc.Cond.initSt q0) as = some s) :
    (q0.items ++ acceptedOf (evsOf (Conc.linOps s.log))).Perm
      (deliveredOf (evsOf (Conc.linOps s.log)) ++ overflowedOf (evsOf (Conc.linOps s.log)) ++
        clearedOf (evsOf (Conc.linOps s.log)) ++ swallowedOf (evsOf (Conc.linOps s.log)) ++
        s.sh.items) := by
  obtain ⟨h1, h2, _⟩ := conc_run q0 as s h
  have := conservation q0 (opsOf (Conc.linOps s.log))
  rw [h1, h2] at this
  exact this

/-- FIFO: what was in the queue plus what was accepted, in order, is what left, in order, followed
    by what is still there -/
theorem conc_fifo (q0 : Q) (as : List (Conc.Cond.Act Op)) (s : Conc.Cond.St Q Op CRet)
    (h : Conc.Cond.runActs cstep qbcast (Conc.Cond.initSt q0) as = some s) :
    q0.items ++ acceptedOf (evsOf (Conc.linOps s.log)) =
      leftOf (evsOf (Conc.linOps s.log)) ++ s.sh.items := by
  obtain ⟨h1, h2, _⟩ := conc_run q0 as s h
  have := run_fifo q0 (opsOf (Conc.linOps s.log))
  rw [h1, h2] at this
  exact this

/-- the delivered elements, in delivery order, are a subsequence of the accepted ones -/
theorem conc_fifo_order (q0 : Q) (as : List (Conc.Cond.Act Op)) (s : Conc.Cond.St Q Op CRet)
    (h : Conc.Cond.runActs cstep qbcast (Conc.Cond.initSt q0) as = some s) :
    (deliveredOf (evsOf (Conc.linOps s.log))).Sublist
      (q0.items ++ acceptedOf (evsOf (Conc.linOps s.log))) := by
  obtain ⟨_, h2, _⟩ := conc_run q0 as s h
  have := fifo_order q0 (opsOf (Conc.linOps s.log))
  rw [h2] at this
  exact this

/-- per-producer order: for any class `p` of elements (e.g. "put by producer i"), the delivered
    elements of the class come out in the order they were accepted -/
theorem conc_per_producer_order (q0 : Q) (as : List (Conc.Cond.Act Op)) (s : Conc.Cond.St Q Op CRet)
    (h : Conc.Cond.runActs cstep qbcast (Conc.Cond.initSt q0) as = some s) (p : Nat → Bool) :
    ((deliveredOf (evsOf (Conc.linOps s.log))).filter p).Sublist
      ((q0.items ++ acceptedOf (evsOf (Conc.linOps s.log))).filter p) :=
  (conc_fifo_order q0 as s h).filter p

/-- **Program order.**  For every thread `t`, the sub-list of the linearization belonging to `t`
    (the operations of `t`'s `lin` events, chronological), followed by `t`'s pending operation if
    it has one (invoked but not yet linearized: starting, holding the lock before its body, in the
    wait set, or woken), is exactly the list of operations `t` invoked, in invocation order.  So
    the order in which one producer's puts are accepted is the order in which it called them. -/
theorem program_order (q0 : Q) (as : List (Conc.Cond.Act Op)) (s : Conc.Cond.St Q Op CRet)
    (h : Conc.Cond.runActs cstep qbcast (Conc.Cond.initSt q0) as = some s) (t : Nat) :
    (Conc.Cond.invsN t s.log).reverse =
      ((Conc.linOps s.log).filter (fun x => x.1 == t)).map (fun x => x.2.1) ++
        Conc.Cond.pendOf (Conc.Cond.absPh (s.ph t)) := by
  rw [Conc.Cond.phase_agrees_with_log cstep qbcast q0 as s h t]
  exact Conc.Cond.program_order_wn s.log t
    (Conc.Cond.monitor_linearizable cstep qbcast q0 as s h).1

/-! ### Non-vacuity: a consumer that blocks first -/

/-- consumer 0 finds the queue empty and waits -/
def demoA : List (Conc.Cond.Act Op) := [.inv 0 .get, .acq 0, .body 0]
/-- producer 1 puts 5 (and broadcasts), returns -/
def demoB : List (Conc.Cond.Act Op) := [.inv 1 (.put 5), .acq 1, .body 1, .rel 1, .ret 1]
/-- consumer 0 re-acquires the lock, re-checks, takes the element, returns -/
def demoC : List (Conc.Cond.Act Op) := [.acq 0, .body 0, .rel 0, .ret 0]

def demoQ : Q := ⟨[], 2⟩

example : (Conc.Cond.runActs cstep qbcast (Conc.Cond.initSt demoQ) demoA).map
    (fun s => (s.ph 0, s.holder, s.sh.items, s.log)) =
    some (.waiting .get, none, [], [.inv 0 .get]) := by rfl

example : (Conc.Cond.runActs cstep qbcast (Conc.Cond.initSt demoQ) (demoA ++ demoB)).map
    (fun s => (s.ph 0, s.ph 1, s.holder, s.sh.items)) =
    some (.woken .get, .idle, none, [5]) := by rfl

example : (Conc.Cond.runActs cstep qbcast (Conc.Cond.initSt demoQ) (demoA ++ demoB ++ demoC)).map
    (fun s => (s.ph 0, s.holder, s.sh.items, Conc.linOps s.log)) =
    some (.idle, none, [],
      [(1, .put 5, (.bool true, [.accepted 5])), (0, .get, (.val 5, [.delivered 5]))]) := by rfl

example : (Conc.Cond.runActs cstep qbcast (Conc.Cond.initSt demoQ) (demoA ++ demoB ++ demoC)).map
    (fun s => (evsOf (Conc.linOps s.log), Conc.Cond.invsN 0 s.log)) =
    some ([.accepted 5, .delivered 5], [.get]) := by rfl

/-- the hypotheses of the theorems above are satisfiable by that schedule -/
example : ∃ s, Conc.Cond.runActs cstep qbcast (Conc.Cond.initSt demoQ) (demoA ++ demoB ++ demoC)
    = some s := Option.isSome_iff_exists.1 (by rfl)

/-- a second consumer that arrives while the first one is only `woken` (has not yet re-acquired
    the lock) may take the element; the first one then re-checks, finds the queue empty and waits
    again — nothing is delivered twice and nothing is lost -/
example : (Conc.Cond.runActs cstep qbcast (Conc.Cond.initSt demoQ)
      (demoA ++ demoB ++ [.inv 2 .get, .acq 2, .body 2, .rel 2, .ret 2, .acq 0, .body 0])).map
    (fun s => (s.ph 0, s.holder, s.sh.items, evsOf (Conc.linOps s.log))) =
    some (.waiting .get, none, [], [.accepted 5, .delivered 5]) := by rfl

end Queue
