/-
  Golib.Queue.OverLinked — RequestQueue on top of the *pointer-level* model of util/list/LinkedList.go.

  `Queue.step` / `stepF` keep the content as a plain list (`items`): that the linked list is a FIFO is
  built into that model.  Here the queue is written the way the Go code is: its state is a
  `Lists.Linked.LL` (nodes in a heap, `first` / `last` / `prev` / `next` pointers, the `size` counter —
  property C13's CodeModel of LinkedList.go) plus `capacity`, and every method calls `Size()`, `Add`,
  `RemoveFirst`, `Clear` of that list, in the order the Go method does:

      Put / PutForce   capacity <= 0 || queue.Size() < capacity  →  queue.Add(v)
                       else (PutForce)  for queue.Size() >= capacity { o := queue.RemoveFirst(); Overflowed(o) }; queue.Add(v)
      Get              queue.Size() <= 0 → wait;  x := queue.RemoveFirst()
      GetNoWait, poll  if queue.Size() > 0 { return queue.RemoveFirst() }
      Clear            queue.Clear()

  `stepL_refines`: from a well-formed list (`Rep`, the representation invariant proved for every LinkedList
  operation in Lists/LinkedProof.lean) every queue operation returns the same value and causes the same
  events as `stepF` on the abstract content, and leaves a well-formed list representing the new content;
  `runL_refines`: so does every history from the empty queue.  Hence FIFO, refusal, eviction of the oldest,
  boundedness and conservation — proved for `stepF` — hold for the queue over the doubly linked list.
-/
import Golib.Queue.Fixed
import Golib.Lists.LinkedProof

namespace Queue
open Lists.Linked

structure QL where
  list : LL
  cap  : Int

/-- an element as the list stores it -/
def encE (x : Nat) : Int := x

/-- what a caller of `RemoveFirst()` holds (`nil` = 0) -/
def decOut : Out → Nat
  | .val v => v.toNat
  | _ => 0

def decArr : Out → List Nat
  | .arr xs => xs.map Int.toNat
  | _ => []

/-- `this.queue.Size()` -/
def QL.size (q : QL) : Nat := q.list.size

/-- `this.capacity <= 0 || this.queue.Size() < this.capacity` -/
def QL.room (q : QL) : Bool := q.cap ≤ 0 || (q.size : Int) < q.cap

/-- `for this.queue.Size() >= this.capacity { o := this.queue.RemoveFirst(); Overflowed(o) }`;
    the fuel is the size on entry (the loop is entered with `capacity > 0`, every turn removes one) -/
def evictL (cap : Int) : Nat → LL → List Nat × LL
  | 0, o => ([], o)
  | n + 1, o =>
    if (o.size : Int) ≥ cap then
      let r := LL.step .removeFirst o
      let t := evictL cap n r.2
      (decOut r.1 :: t.1, t.2)
    else ([], o)

/-- `if this.queue.Size() > 0 { return this.queue.RemoveFirst() }; return nil` (GetNoWait, poll) -/
def pollL (q : QL) : QL × Ret × List Ev :=
  if q.size > 0 then
    let r := LL.step .removeFirst q.list
    ({ q with list := r.2 }, .val (decOut r.1), [.delivered (decOut r.1)])
  else (q, .val 0, [])

def stepL (q : QL) : Op → QL × Ret × List Ev
  | .put x =>
    if q.room then ({ q with list := (LL.step (.add (encE x)) q.list).2 }, .bool true, [.accepted x])
    else (q, .bool false, [.failed x])
  | .putForce x =>
    if q.room then ({ q with list := (LL.step (.add (encE x)) q.list).2 }, .bool true, [.accepted x])
    else
      let r := evictL q.cap q.size q.list
      ({ q with list := (LL.step (.add (encE x)) r.2).2 }, .bool false, r.1.map .overflowed ++ [.accepted x])
  | .get =>
    if q.size ≤ 0 then (q, .blocked, [])
    else
      let r := LL.step .removeFirst q.list
      ({ q with list := r.2 }, .val (decOut r.1), [.delivered (decOut r.1)])
  | .getNoWait => pollL q
  | .getTimeout _ => pollL q
  | .clear => ({ q with list := (LL.step .clear q.list).2 }, .unit, (decArr (LL.step .toArray q.list).1).map .cleared)
  | .setCapacity c => ({ q with cap := c }, .unit, [])
  | .size => (q, .int q.size, [])
  | .getCapacity => (q, .int q.cap, [])

def runL (q : QL) : List Op → QL × List Ret × List Ev
  | [] => (q, [], [])
  | op :: ops =>
    let s := stepL q op
    let r := runL s.1 ops
    (r.1, s.2.1 :: r.2.1, s.2.2 ++ r.2.2)

/-- `NewRequestQueue(capacity)` -/
def QL.new (cap : Int) : QL := ⟨LL.empty, cap⟩

/-! ### refinement -/

/-- the list is well-formed and holds exactly `q.items`, the capacities agree -/
def RefL (ql : QL) (q : Q) : Prop :=
  ql.cap = q.cap ∧ ∃ ids, Rep ql.list ids (q.items.map encE)

theorem RefL.size {ql : QL} {q : Q} (h : RefL ql q) : ql.size = q.size := by
  obtain ⟨_, ids, hr⟩ := h
  simp [QL.size, Q.size, hr.size, hr.len]

theorem RefL.room {ql : QL} {q : Q} (h : RefL ql q) : ql.room = q.room := by
  simp [QL.room, Q.room, h.size, h.1]

theorem add_refines {o : LL} {ids : List Nat} {items : List Nat} (x : Nat) (h : Rep o ids (items.map encE)) :
    ∃ ids', Rep (LL.step (.add (encE x)) o).2 ids' ((items ++ [x]).map encE) := by
  obtain ⟨_, ids', h2⟩ := step_refines (.add (encE x)) o ids _ h
  exact ⟨ids', by simpa [Spec.step] using h2⟩

theorem pop_refines {o : LL} {ids : List Nat} {x : Nat} {r : List Nat} (h : Rep o ids ((x :: r).map encE)) :
    decOut (LL.step .removeFirst o).1 = x ∧ ∃ ids', Rep (LL.step .removeFirst o).2 ids' (r.map encE) := by
  obtain ⟨h1, ids', h2⟩ := step_refines .removeFirst o ids _ h
  refine ⟨?_, ids', by simpa [Spec.step] using h2⟩
  rw [h1]; simp [Spec.step, decOut, encE]

theorem evictL_refines (cap : Int) (hc : cap > 0) (n : Nat) (o : LL) (ids : List Nat) (items : List Nat)
    (h : Rep o ids (items.map encE)) (hn : items.length ≤ n) :
    (evictL cap n o).1 = (evict cap items).1 ∧
    ∃ ids', Rep (evictL cap n o).2 ids' ((evict cap items).2.map encE) := by
  induction n generalizing o ids items with
  | zero =>
    have : items = [] := List.length_eq_zero_iff.mp (by omega)
    subst this
    exact ⟨by simp [evictL, evict], ids, by simpa [evictL, evict] using h⟩
  | succ n ih =>
    have hsz : o.size = items.length := by simp [h.size, h.len]
    cases items with
    | nil =>
      have hno : ¬ ((o.size : Int) ≥ cap) := by simp [hsz]; omega
      simp only [evictL, evict, if_neg hno]
      exact ⟨by first | trivial | rfl, ids, by simpa using h⟩
    | cons x r =>
      by_cases hge : ((x :: r).length : Int) ≥ cap
      · have hge' : (o.size : Int) ≥ cap := by rw [hsz]; exact hge
        obtain ⟨hx, ids', h2⟩ := pop_refines h
        obtain ⟨e1, ids'', e2⟩ := ih (LL.step .removeFirst o).2 ids' r h2 (by simpa using hn)
        simp only [evictL, evict, if_pos hge', if_pos hge]
        exact ⟨by rw [hx, e1], ids'', e2⟩
      · have hge' : ¬ (o.size : Int) ≥ cap := by rw [hsz]; exact hge
        simp only [evictL, evict, if_neg hge', if_neg hge]
        exact ⟨by first | trivial | rfl, ids, h⟩

theorem poll_refines {ql : QL} {q : Q} (h : RefL ql q) :
    (pollL ql).2 = (step q .getNoWait).2 ∧ RefL (pollL ql).1 (step q .getNoWait).1 := by
  have hs := h.size
  obtain ⟨hc, ids, hr⟩ := h
  cases hq : q.items with
  | nil =>
    have : ql.size = 0 := by simp [hs, Q.size, hq]
    simp only [pollL, this, step, hq]
    exact ⟨by simp, hc, ids, by simpa [hq] using hr⟩
  | cons x r =>
    have : ql.size > 0 := by simp [hs, Q.size, hq]
    rw [hq] at hr
    obtain ⟨hx, ids', h2⟩ := pop_refines hr
    simp only [pollL, if_pos this, step, hq, hx]
    exact ⟨by first | trivial | rfl, hc, ids', h2⟩

theorem stepL_refines (ql : QL) (q : Q) (op : Op) (h : RefL ql q) :
    (stepL ql op).2 = (stepF q op).2 ∧ RefL (stepL ql op).1 (stepF q op).1 := by
  have hs := h.size
  have hroom := h.room
  cases op with
  | put x =>
    obtain ⟨hc, ids, hr⟩ := h
    simp only [stepL, stepF, step, hroom]
    split
    · obtain ⟨ids', h2⟩ := add_refines x hr
      exact ⟨by first | trivial | rfl, hc, ids', h2⟩
    · exact ⟨by first | trivial | rfl, hc, ids, hr⟩
  | putForce x =>
    obtain ⟨hc, ids, hr⟩ := h
    simp only [stepL, stepF, step, hroom]
    split
    · obtain ⟨ids', h2⟩ := add_refines x hr
      exact ⟨by first | trivial | rfl, hc, ids', h2⟩
    · rename_i hnr
      have hcap : q.cap > 0 := by
        simp only [Q.room, Bool.or_eq_true, decide_eq_true_eq, not_or] at hnr
        omega
      obtain ⟨e1, ids', e2⟩ := evictL_refines ql.cap (by rw [hc]; exact hcap) ql.size ql.list ids q.items hr
        (by rw [hs]; exact Nat.le_refl _)
      rw [hc] at e1 e2
      obtain ⟨ids'', h3⟩ := add_refines x e2
      rw [hc]
      exact ⟨by rw [e1], rfl, ids'', h3⟩
  | get =>
    obtain ⟨hc, ids, hr⟩ := h
    cases hq : q.items with
    | nil =>
      have : ql.size ≤ 0 := by simp [hs, Q.size, hq]
      simp only [stepL, stepF, step, if_pos this, hq]
      exact ⟨by first | trivial | rfl, hc, ids, by simpa [hq] using hr⟩
    | cons y r =>
      have : ¬ ql.size ≤ 0 := by simp [hs, Q.size, hq]
      rw [hq] at hr
      obtain ⟨hx, ids', h2⟩ := pop_refines hr
      simp only [stepL, stepF, step, if_neg this, hq, hx]
      exact ⟨by first | trivial | rfl, hc, ids', h2⟩
  | getNoWait => exact poll_refines h
  | getTimeout k =>
    have := poll_refines h
    rw [stepF_getTimeout]
    exact this
  | clear =>
    obtain ⟨hc, ids, hr⟩ := h
    obtain ⟨h1, _⟩ := step_refines .toArray ql.list ids _ hr
    obtain ⟨_, ids', h2⟩ := step_refines .clear ql.list ids _ hr
    simp only [stepL, stepF, step, h1]
    refine ⟨?_, hc, ids', by simpa [Spec.step] using h2⟩
    simp [Spec.step, decArr, encE, Function.comp_def]
  | setCapacity c =>
    obtain ⟨_, ids, hr⟩ := h
    exact ⟨rfl, rfl, ids, hr⟩
  | size =>
    refine ⟨?_, h⟩
    simp [stepL, stepF, step, hs]
  | getCapacity =>
    refine ⟨?_, h⟩
    simp [stepL, stepF, step, h.1]

/-- a fresh queue: the empty list represents the empty content -/
theorem RefL.new (cap : Int) : RefL (QL.new cap) ⟨[], cap⟩ := ⟨rfl, [], by simpa [QL.new] using Rep.empty⟩

/-- **every history**: return values and events of the queue over the doubly linked list are those of the
    abstract queue, and the list stays well-formed, holding exactly the abstract content -/
theorem runL_refines (ql : QL) (q : Q) (ops : List Op) (h : RefL ql q) :
    (runL ql ops).2 = (runF q ops).2 ∧ RefL (runL ql ops).1 (runF q ops).1 := by
  induction ops generalizing ql q with
  | nil => exact ⟨rfl, h⟩
  | cons op ops ih =>
    obtain ⟨h1, h2⟩ := stepL_refines ql q op h
    obtain ⟨h3, h4⟩ := ih _ _ h2
    simp only [runL, runF]
    refine ⟨?_, h4⟩
    rw [Prod.ext_iff] at h1 h3
    rw [h1.1, h1.2, h3.1, h3.2]

end Queue
