/-
  Golib.Layout.PrimRT — well-formedness and round trip of the layout primitives.

  The tagged value codec's round trip is the C02 theorem; it is taken here as the structure
  `ValueRT` (a well-formedness predicate and the round-trip statement for `Value.decode`), so that
  everything in Golib.Layout is proved *relative to* C02 and nothing is assumed silently.
-/
import Golib.Layout.IR

namespace Layout
open _root_.Prim

/-- the round trip of the tagged value codec (property C02), as a hypothesis bundle -/
structure ValueRT where
  wf : Value → Prop
  rt : ∀ v r, wf v → Value.decode (Value.encV v ++ r) = some (v, r)

def u32 (v : Int) : Prop := 0 ≤ v ∧ v < 4294967296
def u64 (v : Int) : Prop := 0 ≤ v ∧ v < 18446744073709551616

theorem run_decList (w : Nat) (enc : α → Bytes) (dec : P α) (wf : α → Prop)
    (rt : ∀ x r, wf x → P.run dec (enc x ++ r) = some (x, r))
    (xs : List α) (r : Bytes) (hl : inRange w (xs.length : Int)) (h : ∀ x ∈ xs, wf x) :
    P.run (decList w dec) (encList w enc xs ++ r) = some (xs, r) := by
  unfold decList encList
  rw [List.append_assoc, P.run_bind_some _ _ _ _ _ (run_rdI w (xs.length : Int) _ hl)]
  simp only [Int.toNat_natCast]
  exact run_decMany enc dec wf rt xs r h

theorem run_map_some (f : α → β) (p : P α) (bs r : Bytes) (a : α) (h : P.run p bs = some (a, r)) :
    P.run (P.map f p) bs = some (f a, r) := by
  unfold P.map
  rw [P.run_bind_some _ _ _ _ _ h]; rfl

/-- typed lists: the count fits 3 signed bytes; ints/longs are int64, floats/doubles bit patterns -/
def anyListWF : Val → Prop
  | .ints (t :: xs) => xs.length < 8388608 ∧
      ((t = 1 ∨ t = 2) ∧ (∀ x ∈ xs, inRange 8 x) ∨ t = 3 ∧ (∀ x ∈ xs, u32 x) ∨ t = 4 ∧ (∀ x ∈ xs, u64 x))
  | .strs xs => xs.length < 8388608 ∧ ∀ x ∈ xs, x.length < 2147483648
  | _ => False

theorem listU_rt (w : Nat) (xs : List Int) (r : Bytes) (hl : xs.length < 8388608)
    (_h0 : ∀ x ∈ xs, 0 ≤ x) (h1 : ∀ x ∈ xs, x.toNat < 256 ^ w) :
    P.run (decList 3 (rdU w)) (encList 3 (fun v : Int => beN w v.toNat) xs ++ r) = some (xs.map Int.toNat, r) := by
  have e : encList 3 (fun v : Int => beN w v.toNat) xs = encList 3 (beN w) (xs.map Int.toNat) := by
    unfold encList
    have : ∀ ys : List Int, encMany (fun v : Int => beN w v.toNat) ys = encMany (beN w) (ys.map Int.toNat) := by
      intro ys; induction ys with
      | nil => rfl
      | cons y ys ih => simp [encMany, ih]
    rw [this]; simp
  rw [e]
  exact run_decList 3 (beN w) (rdU w) (fun n => n < 256 ^ w) (fun n r h => run_rdU w n r h)
    (xs.map Int.toNat) r ((inRange_3 _).mpr (by simp; omega))
    (by intro n hn; simp only [List.mem_map] at hn; obtain ⟨x, hx, rfl⟩ := hn; exact h1 x hx)

theorem map_toNat_ofNat' (xs : List Int) (h : ∀ x ∈ xs, 0 ≤ x) :
    (xs.map Int.toNat).map Int.ofNat = xs := by
  induction xs with
  | nil => rfl
  | cons x xs ih =>
    simp only [List.map_cons]
    rw [ih (fun y hy => h y (by simp [hy]))]
    congr 1
    exact Int.toNat_of_nonneg (h x (by simp))

theorem anyList_rt (v : Val) (r : Bytes) (h : anyListWF v) :
    P.run decAnyList (encAnyList v ++ r) = some (v, r) := by
  cases v with
  | ints ys =>
    cases ys with
    | nil => simp [anyListWF] at h
    | cons t xs =>
      obtain ⟨hl, hc⟩ := h
      have hlen : inRange 3 (xs.length : Int) := (inRange_3 _).mpr (by omega)
      rcases hc with ⟨ht, hx⟩ | ⟨rfl, hx⟩ | ⟨rfl, hx⟩
      · rcases ht with rfl | rfl
        · simp only [encAnyList, decAnyList, List.cons_append, P.run_read1, List.headD_cons]
          exact run_map_some _ _ _ _ _ (run_decList 3 encDecimal decDecimal (inRange 8)
            (fun x r h => run_decDecimal x r h) xs r hlen hx)
        · simp only [encAnyList, decAnyList, List.cons_append, P.run_read1, List.headD_cons]
          exact run_map_some _ _ _ _ _ (run_decList 3 encDecimal decDecimal (inRange 8)
            (fun x r h => run_decDecimal x r h) xs r hlen hx)
      · simp only [encAnyList, decAnyList, List.cons_append, P.run_read1, List.headD_cons]
        rw [run_map_some _ _ _ _ _ (listU_rt 4 xs r hl (fun x hx' => (hx x hx').1)
          (fun x hx' => by have := (hx x hx').2; show x.toNat < 4294967296; omega))]
        rw [map_toNat_ofNat' xs (fun x hx' => (hx x hx').1)]
      · simp only [encAnyList, decAnyList, List.cons_append, P.run_read1, List.headD_cons]
        rw [run_map_some _ _ _ _ _ (listU_rt 8 xs r hl (fun x hx' => (hx x hx').1)
          (fun x hx' => by have := (hx x hx').2; show x.toNat < 18446744073709551616; omega))]
        rw [map_toNat_ofNat' xs (fun x hx' => (hx x hx').1)]
  | strs xs =>
    obtain ⟨hl, hx⟩ := h
    simp only [encAnyList, decAnyList, List.cons_append, P.run_read1, List.headD_cons]
    exact run_map_some _ _ _ _ _ (run_decList 3 encBlob decBlob (fun b => b.length < 2147483648)
      (fun x r h => run_decBlob x r h) xs r ((inRange_3 _).mpr (by omega)) hx)
  | int _ => simp [anyListWF] at h
  | bytes _ => simp [anyListWF] at h
  | value _ => simp [anyListWF] at h

namespace Prim

/-- the guards the real code needs for a value to travel through a primitive unchanged -/
def wf (vr : ValueRT) : Prim → Val → Prop
  | .bool, .int v => v = 0 ∨ v = 1
  | .u8, .int v => 0 ≤ v ∧ v < 256
  | .i16, .int v => inRange 2 v
  | .i24, .int v => inRange 3 v
  | .i32, .int v => inRange 4 v
  | .i64, .int v => inRange 8 v
  | .f32, .int v => u32 v
  | .f64, .int v => u64 v
  | .dec, .int v => inRange 8 v
  | .blob, .bytes bs => bs.length < 2147483648
  | .aI16, .ints xs => xs.length ≤ 32767 ∧ ∀ x ∈ xs, inRange 2 x
  | .aI32, .ints xs => xs.length ≤ 32767 ∧ ∀ x ∈ xs, inRange 4 x
  | .aI64, .ints xs => xs.length ≤ 32767 ∧ ∀ x ∈ xs, inRange 8 x
  | .aF32, .ints xs => xs.length ≤ 32767 ∧ ∀ x ∈ xs, u32 x
  | .aF64, .ints xs => xs.length ≤ 32767 ∧ ∀ x ∈ xs, u64 x
  | .aText, .strs xs => xs.length ≤ 32767 ∧ ∀ x ∈ xs, x.length < 2147483648
  | .value, .value v => vr.wf v
  | .mapV, .value v => vr.wf v ∧ ∃ kvs, v = .map kvs
  | .imapV, .value v => vr.wf v ∧ ∃ kvs, v = .imap kvs
  | .mapBody, .value v => vr.wf v ∧ ∃ kvs, v = .map kvs
  | .imapBody, .value v => vr.wf v ∧ ∃ kvs, v = .imap kvs
  | .u16, .int v => 0 ≤ v ∧ v < 65536
  | .a8I16, .ints xs => xs.length ≤ 255 ∧ ∀ x ∈ xs, inRange 2 x
  | .b24, .bytes bs => bs.length < 8388608
  | .anylist, v => anyListWF v
  | _, _ => False

theorem ofP_rt (p : P α) (f : α → Val) (bs r : Bytes) (a : α) (h : P.run p (bs ++ r) = some (a, r)) :
    ofP p f (bs ++ r) = some (f a, r) := by
  simp [ofP, h]

theorem toNat_rt_u (w : Nat) (v : Int) (r : Bytes) (h0 : 0 ≤ v) (h1 : v.toNat < 256 ^ w) :
    ofP (rdU w) (fun n => Val.int n) (beN w v.toNat ++ r) = some (.int v, r) := by
  rw [ofP_rt _ _ _ _ _ (run_rdU w v.toNat r h1)]
  simp [Int.toNat_of_nonneg h0]

theorem map_toNat_ofNat (xs : List Int) (h : ∀ x ∈ xs, 0 ≤ x) :
    (xs.map Int.toNat).map Int.ofNat = xs := by
  induction xs with
  | nil => rfl
  | cons x xs ih =>
    simp only [List.map_cons]
    rw [ih (fun y hy => h y (by simp [hy]))]
    have := h x (by simp)
    congr 1
    exact Int.toNat_of_nonneg this

theorem encMany_map (f : Nat → Bytes) (xs : List Int) :
    encMany (fun v : Int => f v.toNat) xs = encMany f (xs.map Int.toNat) := by
  induction xs with
  | nil => rfl
  | cons x xs ih => simp [encMany, ih]

theorem arrU_rt (w : Nat) (xs : List Int) (r : Bytes) (hl : xs.length ≤ 32767)
    (h0 : ∀ x ∈ xs, 0 ≤ x) (h1 : ∀ x ∈ xs, x.toNat < 256 ^ w) :
    ofP (decArr (rdU w)) (fun ys => Val.ints (ys.map Int.ofNat))
      (encArr (fun v : Int => beN w v.toNat) xs ++ r) = some (.ints xs, r) := by
  have e : encArr (fun v : Int => beN w v.toNat) xs = encArr (beN w) (xs.map Int.toNat) := by
    unfold encArr; rw [encMany_map]; simp
  rw [e]
  have := run_decArr (beN w) (rdU w) (fun n => n < 256 ^ w) (fun n r h => run_rdU w n r h)
    (xs.map Int.toNat) r (by simpa using hl)
    (by intro n hn; simp only [List.mem_map] at hn; obtain ⟨x, hx, rfl⟩ := hn; exact h1 x hx)
  rw [ofP_rt _ _ _ _ _ this]
  simp [map_toNat_ofNat xs h0]

theorem rt (vr : ValueRT) (p : Prim) (v : Val) (r : Bytes) (h : wf vr p v) :
    p.decode (p.encode v ++ r) = some (v, r) := by
  cases p <;> cases v <;> simp only [wf] at h <;> simp only [encode, decode]
  case bool.int v =>
    rw [ofP_rt _ _ _ _ _ (run_rdBool (v == 1) r)]
    rcases h with rfl | rfl <;> simp
  case u8.int v =>
    exact toNat_rt_u 1 v r h.1 (by have := h.2; omega)
  case i16.int v => exact ofP_rt _ _ _ _ _ (run_rdI 2 v r h)
  case i24.int v => exact ofP_rt _ _ _ _ _ (run_rdI 3 v r h)
  case i32.int v => exact ofP_rt _ _ _ _ _ (run_rdI 4 v r h)
  case i64.int v => exact ofP_rt _ _ _ _ _ (run_rdI 8 v r h)
  case f32.int v =>
    exact toNat_rt_u 4 v r h.1 (by have := h.2; show v.toNat < 4294967296; omega)
  case f64.int v =>
    exact toNat_rt_u 8 v r h.1 (by have := h.2; show v.toNat < 18446744073709551616; omega)
  case dec.int v => exact ofP_rt _ _ _ _ _ (run_decDecimal v r h)
  case blob.bytes bs => exact ofP_rt _ _ _ _ _ (run_decBlob bs r h)
  case aI16.ints xs =>
    exact ofP_rt _ _ _ _ _ (run_decArr (encI 2) (rdI 2) (inRange 2) (fun x r h => run_rdI 2 x r h) xs r h.1 h.2)
  case aI32.ints xs =>
    exact ofP_rt _ _ _ _ _ (run_decArr (encI 4) (rdI 4) (inRange 4) (fun x r h => run_rdI 4 x r h) xs r h.1 h.2)
  case aI64.ints xs =>
    exact ofP_rt _ _ _ _ _ (run_decArr (encI 8) (rdI 8) (inRange 8) (fun x r h => run_rdI 8 x r h) xs r h.1 h.2)
  case aF32.ints xs =>
    exact arrU_rt 4 xs r h.1 (fun x hx => (h.2 x hx).1)
      (fun x hx => by have := (h.2 x hx).2; show x.toNat < 4294967296; omega)
  case aF64.ints xs =>
    exact arrU_rt 8 xs r h.1 (fun x hx => (h.2 x hx).1)
      (fun x hx => by have := (h.2 x hx).2; show x.toNat < 18446744073709551616; omega)
  case aText.strs xs =>
    exact ofP_rt _ _ _ _ _ (run_decArr encBlob decBlob (fun b => b.length < 2147483648)
      (fun x r h => run_decBlob x r h) xs r h.1 h.2)
  case value.value v => simp [vr.rt v r h]
  case mapV.value v => simp [vr.rt v r h.1]
  case imapV.value v => simp [vr.rt v r h.1]
  case mapBody.value v =>
    obtain ⟨hw, kvs, rfl⟩ := h
    have := vr.rt _ r hw
    rw [Value.encV] at this ⊢
    simpa using this
  case imapBody.value v =>
    obtain ⟨hw, kvs, rfl⟩ := h
    have := vr.rt _ r hw
    rw [Value.encV] at this ⊢
    simpa using this
  case u16.int v =>
    have e : encI 2 v = beN 2 v.toNat := by
      unfold encI toU
      rw [modulus_2, Int.emod_eq_of_lt h.1 (by omega)]
    rw [e]
    exact toNat_rt_u 2 v r h.1 (by have := h.2; show v.toNat < 65536; omega)
  case a8I16.ints xs =>
    apply ofP_rt
    rw [List.append_assoc, P.run_bind_some _ _ _ _ _ (run_rdU 1 xs.length _ (by have := h.1; show xs.length < 256; omega))]
    exact run_decMany (encI 2) (rdI 2) (inRange 2) (fun x r h => run_rdI 2 x r h) xs r h.2
  case anylist.int => exact ofP_rt _ _ _ _ _ (anyList_rt _ r h)
  case anylist.bytes => exact ofP_rt _ _ _ _ _ (anyList_rt _ r h)
  case anylist.ints => exact ofP_rt _ _ _ _ _ (anyList_rt _ r h)
  case anylist.strs => exact ofP_rt _ _ _ _ _ (anyList_rt _ r h)
  case anylist.value => exact ofP_rt _ _ _ _ _ (anyList_rt _ r h)
  case b24.bytes bs =>
    apply ofP_rt
    rw [List.append_assoc, P.run_bind_some _ _ _ _ _ (run_rdI 3 (bs.length : Int) _ ((inRange_3 _).mpr (by omega)))]
    have : ¬ ((bs.length : Int) < 0) := by omega
    simp only [this, if_false, Int.toNat_natCast]
    exact run_rdBytes bs r

/-- a tagged map is its tag byte followed by the untagged body -/
def untag : Prim → Option Prim
  | .mapV => some .mapBody
  | .imapV => some .imapBody
  | _ => none

theorem untag_rt (vr : ValueRT) (p q : Prim) (v : Val) (r : Bytes) (hq : untag p = some q) (h : wf vr p v) :
    ∃ t tl, p.encode v = t :: tl ∧ t < 256 ∧ q.decode (tl ++ r) = some (v, r) := by
  cases p <;> simp only [untag, Option.some.injEq] at hq <;> try exact absurd hq (by simp)
  all_goals
    subst hq
    cases v <;> simp only [wf] at h
    obtain ⟨hw, kvs, rfl⟩ := h
    have := vr.rt _ r hw
    rw [Value.encV] at this
    simp only [encode, decode]
    rw [Value.encV]
    refine ⟨_, _, rfl, by decide, ?_⟩
    simpa using this

end Prim
end Layout
