/-
  Golib.Layout.Header — CodeModel of lang/pack/AbstractPack.go (the common pack header).

  `encHeader` follows `AbstractPack.Write`: when `(Okind | Onode) == 0` the header is
  `decimal(Pcode) int(Oid) long(Time)`; otherwise a marker byte 9 comes first and Okind/Onode
  are carried.  `decHeader` follows `AbstractPack.Read`: the first byte is read as `ver`; when
  `ver <= 8` it is the length byte of the decimal Pcode (`ReadDecimalLen(ver)`), otherwise the
  long form follows.  The two forms cannot be confused because the length byte of a decimal is
  one of 0,1,2,3,4,5,8 (`Prim.encDecimal_head`), never 9.
-/
import Golib.Prim.Codec

namespace Layout
open _root_.Prim

structure Hdr where
  pcode : Int
  oid : Int
  okind : Int
  onode : Int
  time : Int
deriving DecidableEq, Repr

def Hdr.WF (h : Hdr) : Prop :=
  inRange 8 h.pcode ∧ inRange 4 h.oid ∧ inRange 4 h.okind ∧ inRange 4 h.onode ∧ inRange 8 h.time

instance (h : Hdr) : Decidable h.WF := by unfold Hdr.WF; infer_instance

/-- `(this.Okind | this.Onode) == 0` — a bitwise or of two int32 is zero iff both are -/
def Hdr.short (h : Hdr) : Bool := h.okind == 0 && h.onode == 0

def encHeader (h : Hdr) : Bytes :=
  if h.short then
    encDecimal h.pcode ++ (encI 4 h.oid ++ encI 8 h.time)
  else
    9 :: (encDecimal h.pcode ++ (encI 4 h.oid ++ (encI 4 h.okind ++ (encI 4 h.onode ++ encI 8 h.time))))

def decHeader : P Hdr :=
  .read 1 (fun b =>
    let ver := b.headD 0
    if ver ≤ 8 then
      P.bind (decDecimalLen ver) (fun pc =>
      P.bind (rdI 4) (fun oid =>
      P.bind (rdI 8) (fun t => .pure ⟨pc, oid, 0, 0, t⟩)))
    else
      P.bind decDecimal (fun pc =>
      P.bind (rdI 4) (fun oid =>
      P.bind (rdI 4) (fun okind =>
      P.bind (rdI 4) (fun onode =>
      P.bind (rdI 8) (fun t => .pure ⟨pc, oid, okind, onode, t⟩))))))

/-- the decimal's first byte is its length class (≤ 8), and the rest decodes by `decDecimalLen` -/
theorem encDecimal_split (v : Int) (r : Bytes) (h : inRange 8 v) :
    ∃ c tl, encDecimal v = c :: tl ∧ c ≤ 8 ∧ P.run (decDecimalLen c) (tl ++ r) = some (v, r) := by
  have hl := encDecimal_length v
  have hh := encDecimal_head v
  have hr := run_decDecimal v r h
  cases he : encDecimal v with
  | nil => rw [he] at hl; simp at hl; omega
  | cons c tl =>
    rw [he] at hh hr
    simp only [List.headD_cons] at hh
    refine ⟨c, tl, rfl, ?_, ?_⟩
    · rw [hh]; unfold leastClass; repeat' split
      all_goals omega
    · unfold decDecimal at hr
      rw [List.cons_append, P.run_read1] at hr
      simpa using hr

theorem header_roundtrip (h : Hdr) (r : Bytes) (wf : h.WF) :
    P.run decHeader (encHeader h ++ r) = some (h, r) := by
  obtain ⟨h1, h2, h3, h4, h5⟩ := wf
  obtain ⟨pc, oid, okind, onode, t⟩ := h
  simp only at h1 h2 h3 h4 h5
  unfold encHeader decHeader
  cases hs : Hdr.short ⟨pc, oid, okind, onode, t⟩
  · -- long form
    simp only [Bool.false_eq_true, if_false, List.cons_append, P.run_read1, List.headD_cons,
      List.append_assoc]
    have : ¬ (9 ≤ 8) := by omega
    simp only [this, if_false]
    rw [P.run_bind_some _ _ _ _ _ (run_decDecimal pc _ h1)]
    rw [P.run_bind_some _ _ _ _ _ (run_rdI 4 oid _ h2)]
    rw [P.run_bind_some _ _ _ _ _ (run_rdI 4 okind _ h3)]
    rw [P.run_bind_some _ _ _ _ _ (run_rdI 4 onode _ h4)]
    rw [P.run_bind_some _ _ _ _ _ (run_rdI 8 t _ h5)]
    rfl
  · -- short form: okind = onode = 0
    simp only [Hdr.short, Bool.and_eq_true, beq_iff_eq] at hs
    obtain ⟨ho, hn⟩ := hs
    subst ho; subst hn
    simp only [if_true, List.append_assoc]
    obtain ⟨c, tl, he, hc, hrun⟩ := encDecimal_split pc (encI 4 oid ++ (encI 8 t ++ r)) h1
    rw [he, List.cons_append, P.run_read1]
    simp only [List.headD_cons, hc, if_true]
    rw [P.run_bind_some _ _ _ _ _ hrun]
    rw [P.run_bind_some _ _ _ _ _ (run_rdI 4 oid _ h2)]
    rw [P.run_bind_some _ _ _ _ _ (run_rdI 8 t _ h5)]
    rfl

/-- which form was chosen is visible in the first byte: 9 iff Okind or Onode is non-zero -/
theorem header_form (h : Hdr) :
    (encHeader h).headD 0 = 9 ↔ h.short = false := by
  unfold encHeader
  cases hs : h.short
  · simp
  · simp only [if_true]
    have hl := encDecimal_length h.pcode
    have hh := encDecimal_head h.pcode
    cases he : encDecimal h.pcode with
    | nil => rw [he] at hl; simp at hl; omega
    | cons c tl =>
      rw [he] at hh
      simp only [List.headD_cons] at hh
      simp only [List.cons_append, List.headD_cons]
      constructor
      · intro h9
        rw [h9] at hh
        unfold leastClass at hh
        repeat' split at hh
        all_goals omega
      · intro hf; cases hf

end Layout
