/-
  Golib.Layout.HeaderProg — the statements of `AbstractPack.Write` / `AbstractPack.Read` as DATA with a
  semantics (tie A, interpreted).

  xlate/c03 transcribes the two function bodies of lang/pack/AbstractPack.go statement by statement
  into `Gen.Packs.AbstractPack.wProg : WS` and `Gen.Packs.AbstractPack.rProg : RS` (anything it does not
  know becomes `.unknown`, whose semantics is "writes nothing" / "fails": every obligation about it then
  fails).  `WS.write` / `RS.toP` below give those statements their meaning; Props/C03Gen proves, for ALL
  headers and ALL inputs, that the meaning is the hand-written model `encHeader` / `decHeader` the layout
  IR uses for `.hdr` (before this round the two functions were pinned by a golden statement skeleton only).

  Also here: the header's public setters / getters (`SetPCODE`, `SetOID`, `SetOKIND`, `SetONODE`,
  `SetTime`, `GetPCODE`, `GetTime`) and decoding a header INTO A USED object (`decHeaderInto`: the short
  form assigns Pcode, Oid, Time and leaves Okind / Onode as they were — what the Go code does).
-/
import Golib.Layout.Header

namespace Layout
open _root_.Prim

/-! ### field access by the Go field name -/

def Hdr.get (h : Hdr) (f : String) : Int :=
  if f = "Pcode" then h.pcode else if f = "Oid" then h.oid else if f = "Okind" then h.okind
  else if f = "Onode" then h.onode else if f = "Time" then h.time else 0

/-- assignment `this.f = v`; a name that is not a header field assigns nothing (the value is lost: an
    obligation about such a program fails) -/
def Hdr.set (h : Hdr) (f : String) (v : Int) : Hdr :=
  if f = "Pcode" then { h with pcode := v } else if f = "Oid" then { h with oid := v }
  else if f = "Okind" then { h with okind := v } else if f = "Onode" then { h with onode := v }
  else if f = "Time" then { h with time := v } else h

def hdr0 : Hdr := ⟨0, 0, 0, 0, 0⟩

/-! ### the public accessors of AbstractPack (Pack interface) -/

def Hdr.setPCODE (h : Hdr) (v : Int) : Hdr := { h with pcode := v }
def Hdr.setOID (h : Hdr) (v : Int) : Hdr := { h with oid := v }
def Hdr.setOKIND (h : Hdr) (v : Int) : Hdr := { h with okind := v }
def Hdr.setONODE (h : Hdr) (v : Int) : Hdr := { h with onode := v }
def Hdr.setTime (h : Hdr) (v : Int) : Hdr := { h with time := v }
def Hdr.getPCODE (h : Hdr) : Int := h.pcode
def Hdr.getTime (h : Hdr) : Int := h.time

/-! ### `(a | b) == 0` on two int32 -/

/-- Go's `(a | b) == 0` for two `int32`: bitwise or of the two's-complement words -/
def or32Zero (a b : Int) : Bool := (BitVec.ofInt 32 a ||| BitVec.ofInt 32 b) == 0#32

theorem ofInt32_eq_zero (a : Int) (h : inRange 4 a) : BitVec.ofInt 32 a = 0#32 ↔ a = 0 := by
  simp only [inRange, modulus] at h
  constructor
  · intro e
    have := congrArg BitVec.toInt e
    rw [BitVec.toInt_ofInt] at this
    simp [Int.bmod] at this
    omega
  · rintro rfl; rfl

/-- the bridge from the transcribed test to the arithmetic model: for int32 values the bitwise or is
    zero iff both are zero -/
theorem or32Zero_eq (a b : Int) (ha : inRange 4 a) (hb : inRange 4 b) :
    or32Zero a b = (a == 0 && b == 0) := by
  unfold or32Zero
  rw [Bool.eq_iff_iff]
  simp only [beq_iff_eq, Bool.and_eq_true, BitVec.or_eq_zero_iff, ofInt32_eq_zero a ha, ofInt32_eq_zero b hb]

/-! ### writer statements -/

/-- the statements of a header writer, continuation style -/
inductive WS where
  | dec (f : String) (k : WS)                       -- dout.WriteDecimal(this.f)
  | int (f : String) (k : WS)                       -- dout.WriteInt(this.f)
  | long (f : String) (k : WS)                      -- dout.WriteLong(this.f)
  | byte (n : Nat) (k : WS)                         -- dout.WriteByte(n)
  | ifOrZero (a b : String) (thn els k : WS)        -- if (this.a | this.b) == 0 { thn } else { els } ; k
  | done
  | unknown (why : String)
deriving DecidableEq, Repr

def WS.write : WS → Hdr → Bytes
  | .dec f k, h => encDecimal (h.get f) ++ k.write h
  | .int f k, h => encI 4 (h.get f) ++ k.write h
  | .long f k, h => encI 8 (h.get f) ++ k.write h
  | .byte n k, h => n :: k.write h
  | .ifOrZero a b thn els k, h =>
    (if or32Zero (h.get a) (h.get b) then thn.write h else els.write h) ++ k.write h
  | .done, _ => []
  | .unknown _, _ => []

/-- no `.unknown` statement -/
def WS.total : WS → Bool
  | .dec _ k | .int _ k | .long _ k | .byte _ k => k.total
  | .ifOrZero _ _ t e k => t.total && e.total && k.total
  | .done => true
  | .unknown _ => false

/-! ### reader statements -/

abbrev NEnv := String → Nat
def NEnv.set (e : NEnv) (n : String) (v : Nat) : NEnv := fun m => if m = n then v else e m
def nenv0 : NEnv := fun _ => 0

/-- the statements of a header reader.  `ifLe v n thn els`: `if v <= n { thn; return }` followed by
    `els` (the translator only emits it when the then-block ends in `return`) -/
inductive RS where
  | byteVar (v : String) (k : RS)                   -- v := din.ReadByte()
  | decLen (f v : String) (k : RS)                  -- this.f = din.ReadDecimalLen(int(v))
  | dec (f : String) (k : RS)                       -- this.f = din.ReadDecimal()
  | int (f : String) (k : RS)                       -- this.f = din.ReadInt()
  | long (f : String) (k : RS)                      -- this.f = din.ReadLong()
  | ifLe (v : String) (n : Nat) (thn els : RS)
  | done
  | unknown (why : String)
deriving DecidableEq, Repr

/-- reading INTO the object `h` (fields not assigned keep their content) -/
def RS.toP : RS → NEnv → Hdr → P Hdr
  | .byteVar v k, e, h => .read 1 (fun b => k.toP (e.set v (b.headD 0)) h)
  | .decLen f v k, e, h => P.bind (decDecimalLen (e v)) (fun x => k.toP e (h.set f x))
  | .dec f k, e, h => P.bind decDecimal (fun x => k.toP e (h.set f x))
  | .int f k, e, h => P.bind (rdI 4) (fun x => k.toP e (h.set f x))
  | .long f k, e, h => P.bind (rdI 8) (fun x => k.toP e (h.set f x))
  | .ifLe v n thn els, e, h => if e v ≤ n then thn.toP e h else els.toP e h
  | .done, _, h => .pure h
  | .unknown _, _, _ => .fail

/-! ### the model of decoding into a used object -/

/-- `AbstractPack.Read` on an object that already holds `h0`: the short form assigns Pcode, Oid, Time
    only — Okind / Onode keep what the object held -/
def decHeaderInto (h0 : Hdr) : P Hdr :=
  .read 1 (fun b =>
    let ver := b.headD 0
    if ver ≤ 8 then
      P.bind (decDecimalLen ver) (fun pc =>
      P.bind (rdI 4) (fun oid =>
      P.bind (rdI 8) (fun t => .pure ⟨pc, oid, h0.okind, h0.onode, t⟩)))
    else
      P.bind decDecimal (fun pc =>
      P.bind (rdI 4) (fun oid =>
      P.bind (rdI 4) (fun okind =>
      P.bind (rdI 4) (fun onode =>
      P.bind (rdI 8) (fun t => .pure ⟨pc, oid, okind, onode, t⟩))))))

/-- a fresh object (what `CreatePack` hands to `Read`) has Okind = Onode = 0: the model of the layout IR -/
theorem decHeaderInto_fresh : decHeaderInto hdr0 = decHeader := rfl

/-- what a used object holds after receiving `h`: the long form replaces everything, the short form
    leaves Okind / Onode -/
def Hdr.into (h0 h : Hdr) : Hdr := if h.short then ⟨h.pcode, h.oid, h0.okind, h0.onode, h.time⟩ else h

theorem header_into_used (h0 h : Hdr) (r : Bytes) (wf : h.WF) :
    P.run (decHeaderInto h0) (encHeader h ++ r) = some (h0.into h, r) := by
  obtain ⟨h1, h2, h3, h4, h5⟩ := wf
  obtain ⟨pc, oid, okind, onode, t⟩ := h
  simp only at h1 h2 h3 h4 h5
  unfold encHeader decHeaderInto Hdr.into
  cases hs : Hdr.short ⟨pc, oid, okind, onode, t⟩
  · simp only [Bool.false_eq_true, if_false, List.cons_append, P.run_read1, List.headD_cons,
      List.append_assoc]
    have : ¬ (9 ≤ 8) := by omega
    simp only [this, if_false]
    rw [P.run_bind_some _ _ _ _ _ (run_decDecimal pc _ h1)]
    rw [P.run_bind_some _ _ _ _ _ (run_rdI 4 oid _ h2)]
    rw [P.run_bind_some _ _ _ _ _ (run_rdI 4 okind _ h3)]
    rw [P.run_bind_some _ _ _ _ _ (run_rdI 4 onode _ h4)]
    rw [P.run_bind_some _ _ _ _ _ (run_rdI 8 t _ h5)]
    rfl
  · simp only [if_true, List.append_assoc]
    obtain ⟨c, tl, he, hc, hrun⟩ := encDecimal_split pc (encI 4 oid ++ (encI 8 t ++ r)) h1
    rw [he, List.cons_append, P.run_read1]
    simp only [List.headD_cons, hc, if_true]
    rw [P.run_bind_some _ _ _ _ _ hrun]
    rw [P.run_bind_some _ _ _ _ _ (run_rdI 4 oid _ h2)]
    rw [P.run_bind_some _ _ _ _ _ (run_rdI 8 t _ h5)]
    rfl

/-- a fresh object receives exactly the header written when that header is in canonical form … and in
    general whatever the object held in Okind / Onode shows through a short header -/
theorem into_fresh (h : Hdr) : hdr0.into h = h := by
  unfold Hdr.into
  cases hs : h.short
  · simp
  · simp only [Hdr.short, Bool.and_eq_true, beq_iff_eq] at hs
    obtain ⟨pc, oid, okind, onode, t⟩ := h
    simp only at hs
    simp [hdr0, hs.1, hs.2]

/-! ### ToBytesPackECB: the encoding padded with zero bytes to a multiple of the block length -/

/-- `ToBytesPackECB(p, fmtLen)`: `remainder := size % fmtLen; if remainder != 0 { append fmtLen-remainder zero bytes }` -/
def ecbPad (n : Nat) (bs : Bytes) : Bytes :=
  if bs.length % n = 0 then bs else bs ++ List.replicate (n - bs.length % n) 0

/-- the padding alone -/
def ecbTail (n : Nat) (bs : Bytes) : Bytes :=
  if bs.length % n = 0 then [] else List.replicate (n - bs.length % n) 0

theorem ecbPad_eq (n : Nat) (bs : Bytes) : ecbPad n bs = bs ++ ecbTail n bs := by
  unfold ecbPad ecbTail; split <;> simp

theorem ecbPad_length (n : Nat) (hn : 0 < n) (bs : Bytes) : (ecbPad n bs).length % n = 0 := by
  unfold ecbPad
  split
  · assumption
  · rename_i h
    rw [List.length_append, List.length_replicate]
    have hlt := Nat.mod_lt bs.length hn
    have hd := Nat.div_add_mod bs.length n
    have : bs.length + (n - bs.length % n) = n * (bs.length / n + 1) := by
      rw [Nat.mul_add, Nat.mul_one]; omega
    rw [this]; exact Nat.mul_mod_right _ _

theorem ecbTail_zero (n : Nat) (bs : Bytes) : ∀ b ∈ ecbTail n bs, b = 0 := by
  unfold ecbTail; split
  · intro b hb; cases hb
  · intro b hb; exact (List.mem_replicate.mp hb).2

end Layout
