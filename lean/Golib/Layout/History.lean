/-
  Golib.Layout.History — re-use: one object that receives a sequence of packs, one stream that
  carries a sequence of packs.

  `store y o` is the object `y` after a reader assigned the fields `o` (in the order delivered; a later
  assignment to the same path wins).  Frame condition (`store_frame`): a path the reader did not
  deliver keeps its old content.  `decode_into_used`: decoding the encoding of `x` into a used object
  `y` gives `x`'s value at every carried path and `y`'s old value everywhere else.

  `history_roundtrip`: packs written one after the other into one stream are read back one after the
  other, in order, each with exactly its carried fields, whatever follows the stream; and the object
  that received them all (`foldl store`) holds, path by path, the value of the LAST pack that carried
  the path — otherwise its initial content (`history_frame`).

  Limit of the model: a reader that *adds* to a table it finds in the object (`table.Put` without
  re-creating the table: StatRemoteIpPack, StatUserAgentPack, ParamPack, the maps of values) merges
  rows when the object is re-used; `store` describes assignment, i.e. readers on a fresh table.  The
  writer side has no such state: the encoding is a function of the carried fields
  (`Layout.write_eq_of_expect_eq`).
-/
import Golib.Layout.Reencode

namespace Layout

def store (y : Rec) : Out → Rec
  | [] => y
  | (k, v) :: o => store (fun p => if p = k then v else y p) o

def keys (o : Out) : List String := o.map Prod.fst

/-- frame: what the reader did not assign is unchanged -/
theorem store_frame (y : Rec) (o : Out) (p : String) (h : p ∉ keys o) : store y o p = y p := by
  induction o generalizing y with
  | nil => rfl
  | cons kv o ih =>
    obtain ⟨k, v⟩ := kv
    simp only [keys, List.map_cons, List.mem_cons, not_or] at h
    simp only [store]
    rw [ih _ (by simpa [keys] using h.2)]
    simp [h.1]

/-- an assigned path holds the value assigned (each path assigned once) -/
theorem store_get (y : Rec) (o : Out) (hn : (keys o).Nodup) (k : String) (v : Val) (h : (k, v) ∈ o) :
    store y o k = v := by
  induction o generalizing y with
  | nil => cases h
  | cons kv o ih =>
    obtain ⟨k', v'⟩ := kv
    simp only [keys, List.map_cons, List.nodup_cons] at hn
    simp only [store]
    rcases List.mem_cons.mp h with h1 | h1
    · cases h1
      rw [store_frame _ o k (by simpa [keys] using hn.1)]
      simp
    · exact ih _ (by simpa [keys] using hn.2) h1

/-- **decoding into a used object**: every carried path gets the new pack's value, every other path keeps
    what the object held -/
theorem decode_into_used (vr : ValueRT) (w r : L) (h : agrees w r = true)
    (E : Env) (pfx : String) (x y : Rec) (rest : Bytes) (hwf : w.WF vr E pfx x)
    (hn : (keys (w.expect E pfx x)).Nodup) :
    ∃ o E', r.read pfx E (w.write E pfx x ++ rest) = some (o, E', rest) ∧
      (∀ k v, (k, v) ∈ w.expect E pfx x → store y o k = v) ∧
      (∀ p, p ∉ keys (w.expect E pfx x) → store y o p = y p) := by
  obtain ⟨E', hr⟩ := agree_roundtrip vr w r h E pfx x rest hwf
  exact ⟨_, E', hr, fun k v hkv => store_get y _ hn k v hkv, fun p hp => store_frame y _ p hp⟩

/-! ### a sequence of packs in one stream, received by one object -/

def writeAll (w : L) (E : Env) (pfx : String) : List Rec → Bytes
  | [] => []
  | x :: xs => w.write E pfx x ++ writeAll w E pfx xs

/-- read `n` packs one after the other (every pack with the reader's initial locals) -/
def readAll (r : L) (E : Env) (pfx : String) : Nat → Bytes → Option (List Out × Bytes)
  | 0, bs => some ([], bs)
  | n+1, bs =>
    match r.read pfx E bs with
    | none => none
    | some (o, _, rest) =>
      match readAll r E pfx n rest with
      | none => none
      | some (os, rest') => some (o :: os, rest')

theorem history_roundtrip (vr : ValueRT) (w r : L) (h : agrees w r = true) (E : Env) (pfx : String)
    (xs : List Rec) (rest : Bytes) (hwf : ∀ x ∈ xs, w.WF vr E pfx x) :
    readAll r E pfx xs.length (writeAll w E pfx xs ++ rest) = some (xs.map (w.expect E pfx), rest) := by
  induction xs with
  | nil => rfl
  | cons x xs ih =>
    simp only [List.length_cons, readAll, writeAll, List.append_assoc, List.map_cons]
    obtain ⟨E', hr⟩ := agree_roundtrip vr w r h E pfx x (writeAll w E pfx xs ++ rest) (hwf x (by simp))
    rw [hr]
    simp only []
    rw [ih (fun y hy => hwf y (by simp [hy]))]

/-- the object after it received the packs one after the other -/
def received (y : Rec) (os : List Out) : Rec := os.foldl store y

/-- frame over a history: a path none of the packs carried still holds the object's initial content -/
theorem history_frame (y : Rec) (os : List Out) (p : String) (h : ∀ o ∈ os, p ∉ keys o) :
    received y os p = y p := by
  induction os generalizing y with
  | nil => rfl
  | cons o os ih =>
    simp only [received, List.foldl_cons]
    have := ih (store y o) (fun o' ho' => h o' (by simp [ho']))
    simp only [received] at this
    rw [this, store_frame y o p (h o (by simp))]

/-- … and a path carried by the last pack holds the last pack's value (whatever the earlier ones did) -/
theorem history_last (y : Rec) (os : List Out) (o : Out) (hn : (keys o).Nodup) (k : String) (v : Val)
    (h : (k, v) ∈ o) : received y (os ++ [o]) k = v := by
  simp only [received, List.foldl_append, List.foldl_cons, List.foldl_nil]
  exact store_get _ o hn k v h

end Layout
