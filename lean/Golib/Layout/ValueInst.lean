/-
  Golib.Layout.ValueInst — the C02 theorem discharges the `ValueRT` hypothesis of the layout
  theorems: `Value.decode (encV v ++ r) = some (v, r)` for every well-formed value
  (Golib/Value/Facts.lean, `Value.decode_encV`).  Proof file only (not imported by the driver).
-/
import Golib.Layout.PrimRT
import Golib.Value.Facts

namespace Layout

/-- `Value.WFV` with the C02 round trip -/
def valueRT : ValueRT := ⟨Value.WFV, fun v r h => Value.decode_encV v r h⟩

end Layout
