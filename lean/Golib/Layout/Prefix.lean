/-
  Golib.Layout.Prefix — a strict prefix of a pack encoding never decodes.

  `Stable d`: a decoder that succeeded on `q` does the same, with the same result, when more input
  follows (`d (q ++ s) = (v, r ++ s)`).  Every primitive decoder is stable (the `P` programs by
  `P.locality`, the tagged value decoder by C04's `run_append` for the tail-free instrumented
  decoder), and stability is inherited by every layout construct except `avail` — the one place
  where the real reader asks whether the input has ended (SMBasePack's older-version tail; the
  documented exception of C04).  Hence `read_prefix_fails`: if `q ++ s` decodes completely and
  `s ≠ []`, the strict prefix `q` does not decode.
-/
import Golib.Layout.Agree
import Golib.FailClosed.ValueFuel
import Golib.FailClosed.Tail

set_option linter.unusedSimpArgs false

namespace Layout
open _root_.Prim

def Stable1 (d : Dec α) : Prop := ∀ q s v r, d q = some (v, r) → d (q ++ s) = some (v, r ++ s)

def Stable (d : RDec) : Prop :=
  ∀ e q s o e' r, d e q = some (o, e', r) → d e (q ++ s) = some (o, e', r ++ s)

theorem run_stable (p : P α) : Stable1 (P.run p) := by
  intro q s v r h
  obtain ⟨a, ha, hc⟩ := P.locality p q v r h
  rw [ha, List.append_assoc]
  exact hc (r ++ s)

theorem ofP_stable (p : P α) (f : α → Val) : Stable1 (Prim.ofP p f) := by
  intro q s v r h
  simp only [Prim.ofP] at h ⊢
  cases hp : P.run p q with
  | none => rw [hp] at h; simp at h
  | some y =>
    obtain ⟨a, r1⟩ := y
    rw [hp] at h
    simp only [Option.map_some, Option.some.injEq, Prod.mk.injEq] at h
    obtain ⟨rfl, rfl⟩ := h
    rw [run_stable p q s a r1 hp]; rfl

theorem decode_stable1 : Stable1 Value.decode := by
  intro q s v r h
  unfold Value.decode at h ⊢
  have h1 : Value.decV (q.length + 1) (q ++ s) = some (v, r ++ s) := by
    rw [← FailClosed.run_decVA true] at h ⊢
    exact FailClosed.A.run_append _ (FailClosed.tailFree_decVA true _) q s v r h
  exact FailClosed.decV_fuel_mono _ _ (by rw [List.length_append]; omega) _ _ h1

theorem decodeTagged_stable (t : Nat) :
    Stable1 (fun bs => (Value.decode (t :: bs)).map (fun (v, r) => (Val.value v, r))) := by
  intro q s v r h
  simp only at h ⊢
  cases hd : Value.decode (t :: q) with
  | none => rw [hd] at h; simp at h
  | some y =>
    obtain ⟨a, r1⟩ := y
    rw [hd] at h
    simp only [Option.map_some, Option.some.injEq, Prod.mk.injEq] at h
    obtain ⟨rfl, rfl⟩ := h
    have := decode_stable1 (t :: q) s a r1 hd
    rw [List.cons_append] at this
    rw [this]; rfl

theorem prim_stable (p : Prim) : Stable1 p.decode := by
  cases p <;> simp only [Prim.decode] <;> first
    | exact ofP_stable _ _
    | exact decodeTagged_stable _
    | skip
  all_goals
    intro q s v r h
    simp only at h ⊢
    cases hd : Value.decode q with
    | none => rw [hd] at h; simp at h
    | some y =>
      obtain ⟨a, r1⟩ := y
      rw [hd] at h
      simp only [Option.map_some, Option.some.injEq, Prod.mk.injEq] at h
      obtain ⟨rfl, rfl⟩ := h
      rw [decode_stable1 q s a r1 hd]; rfl

/-- no `avail` anywhere -/
def L.tailFree : L → Bool
  | .nil => true
  | .fld _ _ _ rest => rest.tailFree
  | .lit _ _ rest => rest.tailFree
  | .skip _ rest => rest.tailFree
  | .var _ _ rest => rest.tailFree
  | .ite _ t e rest => t.tailFree && e.tailFree && rest.tailFree
  | .guard _ rest => rest.tailFree
  | .opt _ b rest => b.tailFree && rest.tailFree
  | .rep _ _ b rest => b.tailFree && rest.tailFree
  | .wrap _ rest => rest.tailFree
  | .hdr rest => rest.tailFree
  | .times _ _ b rest => b.tailFree && rest.tailFree
  | .sub _ b rest => b.tailFree && rest.tailFree
  | .kfld _ _ _ rest => rest.tailFree
  | .key _ _ _ rest => rest.tailFree
  | .mopt _ _ b rest => b.tailFree && rest.tailFree
  | .vopt _ _ b rest => b.tailFree && rest.tailFree
  | .mrep _ _ b rest => b.tailFree && rest.tailFree
  | .vrep _ _ b rest => b.tailFree && rest.tailFree
  | .srep _ b rest => b.tailFree && rest.tailFree
  | .avail _ => false
  | .unknown _ => true

theorem elems_stable (f : String → RDec) (hf : ∀ q, Stable (f q)) (pfx name : String) :
    ∀ n i, Stable (readElems f pfx name i n) := by
  intro n
  induction n with
  | zero =>
    intro i e q s o e' r h
    simp only [readElems, Option.some.injEq, Prod.mk.injEq] at h ⊢
    obtain ⟨rfl, rfl, rfl⟩ := h
    exact ⟨rfl, rfl, rfl⟩
  | succ n ih =>
    intro i e q s o e' r h
    simp only [readElems] at h ⊢
    cases h1 : f (elemPfx pfx name i) e q with
    | none => rw [h1] at h; simp at h
    | some y =>
      obtain ⟨o1, e1, r1⟩ := y
      rw [h1] at h; simp only at h
      rw [hf _ e q s o1 e1 r1 h1]; simp only
      cases h2 : readElems f pfx name (i + 1) n e1 r1 with
      | none => rw [h2] at h; simp at h
      | some z =>
        obtain ⟨o2, e2, r2⟩ := z
        rw [h2] at h
        simp only [Option.some.injEq, Prod.mk.injEq] at h
        obtain ⟨rfl, rfl, rfl⟩ := h
        rw [ih (i + 1) e1 r1 s o2 e2 r2 h2]


theorem read_stable (l : L) (hn : l.tailFree = true) (pfx : String) : Stable (l.read pfx) := by
  induction l generalizing pfx with
  | nil =>
    intro e q s o e' r h
    simp only [L.read, Option.some.injEq, Prod.mk.injEq] at h ⊢
    obtain ⟨rfl, rfl, rfl⟩ := h
    exact ⟨rfl, rfl, rfl⟩
  | unknown w => intro e q s o e' r h; simp [L.read] at h
  | avail b _ => simp [L.tailFree] at hn
  | lit p v rest ih =>
    simp only [L.tailFree] at hn
    intro e q s o e' r h
    simp only [L.read] at h ⊢
    exact ih hn pfx e q s o e' r h
  | guard c rest ih =>
    simp only [L.tailFree] at hn
    intro e q s o e' r h
    simp only [L.read] at h ⊢
    split at h
    · simp at h
    · rename_i hc; simp only [hc, if_false]; exact ih hn pfx e q s o e' r h
  | fld n p g rest ih =>
    simp only [L.tailFree] at hn
    intro e q s o e' r h
    simp only [L.read] at h ⊢
    cases hd : p.decode q with
    | none => rw [hd] at h; simp at h
    | some y =>
      obtain ⟨v, r1⟩ := y
      rw [hd] at h; simp only at h
      rw [prim_stable p q s v r1 hd]; simp only
      cases h1 : rest.read pfx e r1 with
      | none => rw [h1] at h; simp at h
      | some z =>
        obtain ⟨o1, e1, r2⟩ := z
        rw [h1] at h; simp only at h
        simp only [Option.some.injEq, Prod.mk.injEq] at h
        obtain ⟨rfl, rfl, rfl⟩ := h
        rw [ih hn pfx e r1 s o1 e1 r2 h1]
  | kfld n p k rest ih =>
    simp only [L.tailFree] at hn
    intro e q s o e' r h
    simp only [L.read] at h ⊢
    cases hd : p.decode q with
    | none => rw [hd] at h; simp at h
    | some y =>
      obtain ⟨v, r1⟩ := y
      rw [hd] at h; simp only at h
      rw [prim_stable p q s v r1 hd]; simp only
      cases h1 : rest.read pfx e r1 with
      | none => rw [h1] at h; simp at h
      | some z =>
        obtain ⟨o1, e1, r2⟩ := z
        rw [h1] at h; simp only at h
        simp only [Option.some.injEq, Prod.mk.injEq] at h
        obtain ⟨rfl, rfl, rfl⟩ := h
        rw [ih hn pfx e r1 s o1 e1 r2 h1]
  | key n p vn rest ih =>
    simp only [L.tailFree] at hn
    intro e q s o e' r h
    simp only [L.read] at h ⊢
    cases hd : p.decode q with
    | none => rw [hd] at h; simp at h
    | some y =>
      obtain ⟨v, r1⟩ := y
      rw [hd] at h; simp only at h
      rw [prim_stable p q s v r1 hd]; simp only
      cases h1 : rest.read pfx (e.set vn v.toInt) r1 with
      | none => rw [h1] at h; simp at h
      | some z =>
        obtain ⟨o1, e1, r2⟩ := z
        rw [h1] at h; simp only at h
        simp only [Option.some.injEq, Prod.mk.injEq] at h
        obtain ⟨rfl, rfl, rfl⟩ := h
        rw [ih hn pfx _ r1 s o1 e1 r2 h1]
  | skip p rest ih =>
    simp only [L.tailFree] at hn
    intro e q s o e' r h
    simp only [L.read] at h ⊢
    cases hd : p.decode q with
    | none => rw [hd] at h; simp at h
    | some y =>
      obtain ⟨v, r1⟩ := y
      rw [hd] at h; simp only at h
      rw [prim_stable p q s v r1 hd]; simp only
      exact ih hn pfx e r1 s o e' r h
  | var n p rest ih =>
    simp only [L.tailFree] at hn
    intro e q s o e' r h
    simp only [L.read] at h ⊢
    cases hd : p.decode q with
    | none => rw [hd] at h; simp at h
    | some y =>
      obtain ⟨v, r1⟩ := y
      rw [hd] at h; simp only at h
      rw [prim_stable p q s v r1 hd]; simp only
      exact ih hn pfx _ r1 s o e' r h
  | hdr rest ih =>
    simp only [L.tailFree] at hn
    intro e q s o e' r h
    simp only [L.read] at h ⊢
    cases hd : P.run decHeader q with
    | none => rw [hd] at h; simp at h
    | some y =>
      obtain ⟨v, r1⟩ := y
      rw [hd] at h; simp only at h
      rw [run_stable decHeader q s v r1 hd]; simp only
      cases h1 : rest.read pfx e r1 with
      | none => rw [h1] at h; simp at h
      | some z =>
        obtain ⟨o1, e1, r2⟩ := z
        rw [h1] at h; simp only at h
        simp only [Option.some.injEq, Prod.mk.injEq] at h
        obtain ⟨rfl, rfl, rfl⟩ := h
        rw [ih hn pfx e r1 s o1 e1 r2 h1]
  | wrap body rest _ ih =>
    simp only [L.tailFree] at hn
    intro e q s o e' r h
    simp only [L.read] at h ⊢
    cases hd : P.run decBlob q with
    | none => rw [hd] at h; simp at h
    | some y =>
      obtain ⟨v, r1⟩ := y
      rw [hd] at h; simp only at h
      rw [run_stable decBlob q s v r1 hd]; simp only
      cases hb : body.read pfx e v with
      | none => rw [hb] at h; simp at h
      | some z =>
        obtain ⟨o1, e1, r0⟩ := z
        rw [hb] at h; simp only at h
        simp only []
        cases h1 : rest.read pfx e1 r1 with
        | none => rw [h1] at h; simp at h
        | some z =>
          obtain ⟨o2, e2, r2⟩ := z
          rw [h1] at h; simp only at h
          simp only [Option.some.injEq, Prod.mk.injEq] at h
          obtain ⟨rfl, rfl, rfl⟩ := h
          rw [ih hn pfx e1 r1 s o2 e2 r2 h1]
  | ite c t el rest iht ihe ihr =>
    simp only [L.tailFree, Bool.and_eq_true] at hn
    intro e q s o e' r h
    simp only [L.read] at h ⊢
    have hbr : Stable (fun e bs => if c.eval e then t.read pfx e bs else el.read pfx e bs) := by
      intro e q s o e' r h
      simp only at h ⊢
      split
      · rename_i hc; simp only [hc, if_true] at h; exact iht hn.1.1 pfx e q s o e' r h
      · rename_i hc; simp only [hc, if_false] at h; exact ihe hn.1.2 pfx e q s o e' r h
    cases h0 : (if c.eval e then t.read pfx e q else el.read pfx e q) with
    | none => rw [h0] at h; simp at h
    | some z =>
      obtain ⟨o1, e1, r1⟩ := z
      rw [h0] at h; simp only at h
      have hbr' := hbr e q s o1 e1 r1 h0
      simp only at hbr'
      rw [hbr']; simp only
      cases h1 : rest.read pfx e1 r1 with
      | none => rw [h1] at h; simp at h
      | some z =>
        obtain ⟨o2, e2, r2⟩ := z
        rw [h1] at h; simp only at h
        simp only [Option.some.injEq, Prod.mk.injEq] at h
        obtain ⟨rfl, rfl, rfl⟩ := h
        rw [ihr hn.2 pfx e1 r1 s o2 e2 r2 h1]
  | sub n body rest ihb ihr =>
    simp only [L.tailFree, Bool.and_eq_true] at hn
    intro e q s o e' r h
    simp only [L.read] at h ⊢
    cases h0 : body.read (pfx ++ n ++ ".") e q with
    | none => rw [h0] at h; simp at h
    | some z =>
      obtain ⟨o1, e1, r1⟩ := z
      rw [h0] at h; simp only at h
      rw [ihb hn.1 _ e q s o1 e1 r1 h0]; simp only
      cases h1 : rest.read pfx e1 r1 with
      | none => rw [h1] at h; simp at h
      | some z =>
        obtain ⟨o2, e2, r2⟩ := z
        rw [h1] at h; simp only at h
        simp only [Option.some.injEq, Prod.mk.injEq] at h
        obtain ⟨rfl, rfl, rfl⟩ := h
        rw [ihr hn.2 pfx e1 r1 s o2 e2 r2 h1]
  | times k n body rest ihb ihr =>
    simp only [L.tailFree, Bool.and_eq_true] at hn
    intro e q s o e' r h
    simp only [L.read] at h ⊢
    have hel := elems_stable (fun q => body.read q) (fun q => ihb hn.1 q) pfx n k 0
    cases h0 : readElems (fun q => body.read q) pfx n 0 k e q with
    | none => rw [h0] at h; simp at h
    | some z =>
      obtain ⟨o1, e1, r1⟩ := z
      rw [h0] at h; simp only at h
      rw [hel e q s o1 e1 r1 h0]; simp only
      cases h1 : rest.read pfx e1 r1 with
      | none => rw [h1] at h; simp at h
      | some z =>
        obtain ⟨o2, e2, r2⟩ := z
        rw [h1] at h; simp only at h
        simp only [Option.some.injEq, Prod.mk.injEq] at h
        obtain ⟨rfl, rfl, rfl⟩ := h
        rw [ihr hn.2 pfx e1 r1 s o2 e2 r2 h1]
  | rep cnt n body rest ihb ihr =>
    simp only [L.tailFree, Bool.and_eq_true] at hn
    intro e q s o e' r h
    simp only [L.read] at h ⊢
    cases hd : cnt.decode q with
    | none => rw [hd] at h; simp at h
    | some y =>
      obtain ⟨v, r1⟩ := y
      rw [hd] at h; simp only at h
      rw [prim_stable cnt q s v r1 hd]; simp only
      have hel := elems_stable (fun q => body.read q) (fun q => ihb hn.1 q) pfx n v.toInt.toNat 0
      cases h0 : readElems (fun q => body.read q) pfx n 0 v.toInt.toNat e r1 with
      | none => rw [h0] at h; simp at h
      | some z =>
        obtain ⟨o1, e1, r0⟩ := z
        rw [h0] at h; simp only at h
        rw [hel e r1 s o1 e1 r0 h0]; simp only
        cases h1 : rest.read pfx e1 r0 with
        | none => rw [h1] at h; simp at h
        | some z =>
          obtain ⟨o2, e2, r2⟩ := z
          rw [h1] at h; simp only at h
          simp only [Option.some.injEq, Prod.mk.injEq] at h
          obtain ⟨rfl, rfl, rfl⟩ := h
          rw [ihr hn.2 pfx e1 r0 s o2 e2 r2 h1]
  | srep cnt body rest ihb ihr =>
    simp only [L.tailFree, Bool.and_eq_true] at hn
    intro e q s o e' r h
    simp only [L.read] at h ⊢
    cases hd : cnt.decode q with
    | none => rw [hd] at h; simp at h
    | some y =>
      obtain ⟨v, r1⟩ := y
      rw [hd] at h; simp only at h
      rw [prim_stable cnt q s v r1 hd]; simp only
      have hel := elems_stable (fun q => body.read q) (fun q => ihb hn.1 q) pfx "" v.toInt.toNat 0
      cases h0 : readElems (fun q => body.read q) pfx "" 0 v.toInt.toNat e r1 with
      | none => rw [h0] at h; simp at h
      | some z =>
        obtain ⟨o1, e1, r0⟩ := z
        rw [h0] at h; simp only at h
        rw [hel e r1 s o1 e1 r0 h0]; simp only
        exact ihr hn.2 pfx e1 r0 s o e' r h
  | opt n body rest ihb ihr =>
    simp only [L.tailFree, Bool.and_eq_true] at hn
    intro e q s o e' r h
    simp only [L.read] at h ⊢
    cases hd : Prim.decode .u8 q with
    | none => rw [hd] at h; simp at h
    | some y =>
      obtain ⟨v, r1⟩ := y
      rw [hd] at h; simp only at h
      rw [prim_stable .u8 q s v r1 hd]; simp only
      split at h
      · rename_i hf
        simp only [hf, if_true]
        cases h0 : body.read pfx e r1 with
        | none => rw [h0] at h; simp at h
        | some z =>
          obtain ⟨o1, e1, r0⟩ := z
          rw [h0] at h; simp only at h
          rw [ihb hn.1 pfx e r1 s o1 e1 r0 h0]; simp only
          cases h1 : rest.read pfx e1 r0 with
          | none => rw [h1] at h; simp at h
          | some z =>
            obtain ⟨o2, e2, r2⟩ := z
            rw [h1] at h; simp only at h
            simp only [Option.some.injEq, Prod.mk.injEq] at h
            obtain ⟨rfl, rfl, rfl⟩ := h
            rw [ihr hn.2 pfx e1 r0 s o2 e2 r2 h1]
      · rename_i hf
        simp only [hf, if_false]
        cases h1 : rest.read pfx e r1 with
        | none => rw [h1] at h; simp at h
        | some z =>
          obtain ⟨o2, e2, r2⟩ := z
          rw [h1] at h; simp only at h
          simp only [Option.some.injEq, Prod.mk.injEq] at h
          obtain ⟨rfl, rfl, rfl⟩ := h
          rw [ihr hn.2 pfx e r1 s o2 e2 r2 h1]
          simp
  | mopt m n body rest ihb ihr =>
    simp only [L.tailFree, Bool.and_eq_true] at hn
    intro e q s o e' r h
    simp only [L.read] at h ⊢
    cases hd : Prim.decode .u8 q with
    | none => rw [hd] at h; simp at h
    | some y =>
      obtain ⟨v, r1⟩ := y
      rw [hd] at h; simp only at h
      rw [prim_stable .u8 q s v r1 hd]; simp only
      split at h
      · rename_i hf
        simp only [hf, if_true]
        cases h0 : body.read pfx e r1 with
        | none => rw [h0] at h; simp at h
        | some z =>
          obtain ⟨o1, e1, r0⟩ := z
          rw [h0] at h; simp only at h
          rw [ihb hn.1 pfx e r1 s o1 e1 r0 h0]; simp only
          cases h1 : rest.read pfx e1 r0 with
          | none => rw [h1] at h; simp at h
          | some z =>
            obtain ⟨o2, e2, r2⟩ := z
            rw [h1] at h; simp only at h
            simp only [Option.some.injEq, Prod.mk.injEq] at h
            obtain ⟨rfl, rfl, rfl⟩ := h
            rw [ihr hn.2 pfx e1 r0 s o2 e2 r2 h1]
      · rename_i hf
        simp only [hf, if_false]
        cases h1 : rest.read pfx e r1 with
        | none => rw [h1] at h; simp at h
        | some z =>
          obtain ⟨o2, e2, r2⟩ := z
          rw [h1] at h; simp only at h
          simp only [Option.some.injEq, Prod.mk.injEq] at h
          obtain ⟨rfl, rfl, rfl⟩ := h
          rw [ihr hn.2 pfx e r1 s o2 e2 r2 h1]
          simp
  | vopt vn n body rest ihb ihr =>
    simp only [L.tailFree, Bool.and_eq_true] at hn
    intro e q s o e' r h
    simp only [L.read] at h ⊢
    cases hd : Prim.decode .u8 q with
    | none => rw [hd] at h; simp at h
    | some y =>
      obtain ⟨v, r1⟩ := y
      rw [hd] at h; simp only at h
      rw [prim_stable .u8 q s v r1 hd]; simp only
      split at h
      · rename_i hf
        simp only [hf, if_true]
        cases h0 : body.read pfx (e.set vn v.toInt) r1 with
        | none => rw [h0] at h; simp at h
        | some z =>
          obtain ⟨o1, e1, r0⟩ := z
          rw [h0] at h; simp only at h
          rw [ihb hn.1 pfx _ r1 s o1 e1 r0 h0]; simp only
          cases h1 : rest.read pfx e1 r0 with
          | none => rw [h1] at h; simp at h
          | some z =>
            obtain ⟨o2, e2, r2⟩ := z
            rw [h1] at h; simp only at h
            simp only [Option.some.injEq, Prod.mk.injEq] at h
            obtain ⟨rfl, rfl, rfl⟩ := h
            rw [ihr hn.2 pfx e1 r0 s o2 e2 r2 h1]
      · rename_i hf
        simp only [hf, if_false]
        cases h1 : rest.read pfx (e.set vn 0) r1 with
        | none => rw [h1] at h; simp at h
        | some z =>
          obtain ⟨o2, e2, r2⟩ := z
          rw [h1] at h; simp only at h
          simp only [Option.some.injEq, Prod.mk.injEq] at h
          obtain ⟨rfl, rfl, rfl⟩ := h
          rw [ihr hn.2 pfx _ r1 s o2 e2 r2 h1]
          simp
  | mrep m n body rest ihb ihr =>
    simp only [L.tailFree, Bool.and_eq_true] at hn
    intro e q s o e' r h
    simp only [L.read] at h ⊢
    cases hd : Prim.decode .u8 q with
    | none => rw [hd] at h; simp at h
    | some y =>
      obtain ⟨v, r1⟩ := y
      rw [hd] at h; simp only at h
      rw [prim_stable .u8 q s v r1 hd]; simp only
      split at h
      · rename_i hf
        simp only [hf, if_true]
        cases h1 : rest.read pfx (e.set "" 0) r1 with
        | none => rw [h1] at h; simp at h
        | some z =>
          obtain ⟨o2, e2, r2⟩ := z
          rw [h1] at h; simp only at h
          simp only [Option.some.injEq, Prod.mk.injEq] at h
          obtain ⟨rfl, rfl, rfl⟩ := h
          rw [ihr hn.2 pfx _ r1 s o2 e2 r2 h1]
      · rename_i hf
        simp only [hf, if_false]
        have hcnt : Stable1 (fun bs => if v.toInt ≤ 8 then P.run (decDecimalLen v.toInt.toNat) bs else P.run decDecimal bs) := by
          intro q s a r hh
          simp only at hh ⊢
          split
          · rename_i h8; simp only [h8, if_true] at hh; exact run_stable _ q s a r hh
          · rename_i h8; simp only [h8, if_false] at hh; exact run_stable _ q s a r hh
        cases hc : (if v.toInt ≤ 8 then P.run (decDecimalLen v.toInt.toNat) r1 else P.run decDecimal r1) with
        | none => rw [hc] at h; simp at h
        | some w =>
          obtain ⟨cnt, r0⟩ := w
          rw [hc] at h; simp only at h
          have hcnt' := hcnt r1 s cnt r0 hc
          simp only at hcnt'
          rw [hcnt']; simp only
          have hel := elems_stable (fun q => body.read q) (fun q => ihb hn.1 q) pfx n cnt.toNat 0
          cases h0 : readElems (fun q => body.read q) pfx n 0 cnt.toNat (e.set "" v.toInt) r0 with
          | none => rw [h0] at h; simp at h
          | some z =>
            obtain ⟨o1, e1, r3⟩ := z
            rw [h0] at h; simp only at h
            rw [hel _ r0 s o1 e1 r3 h0]; simp only
            cases h1 : rest.read pfx e1 r3 with
            | none => rw [h1] at h; simp at h
            | some z =>
              obtain ⟨o2, e2, r2⟩ := z
              rw [h1] at h; simp only at h
              simp only [Option.some.injEq, Prod.mk.injEq] at h
              obtain ⟨rfl, rfl, rfl⟩ := h
              rw [ihr hn.2 pfx e1 r3 s o2 e2 r2 h1]
  | vrep vn n body rest ihb ihr =>
    simp only [L.tailFree, Bool.and_eq_true] at hn
    intro e q s o e' r h
    simp only [L.read] at h ⊢
    cases hd : Prim.decode .u8 q with
    | none => rw [hd] at h; simp at h
    | some y =>
      obtain ⟨v, r1⟩ := y
      rw [hd] at h; simp only at h
      rw [prim_stable .u8 q s v r1 hd]; simp only
      split at h
      · rename_i hf
        simp only [hf, if_true]
        cases h1 : rest.read pfx (e.set vn 0) r1 with
        | none => rw [h1] at h; simp at h
        | some z =>
          obtain ⟨o2, e2, r2⟩ := z
          rw [h1] at h; simp only at h
          simp only [Option.some.injEq, Prod.mk.injEq] at h
          obtain ⟨rfl, rfl, rfl⟩ := h
          rw [ihr hn.2 pfx _ r1 s o2 e2 r2 h1]
      · rename_i hf
        simp only [hf, if_false]
        have hcnt : Stable1 (fun bs => if v.toInt ≤ 8 then P.run (decDecimalLen v.toInt.toNat) bs else P.run decDecimal bs) := by
          intro q s a r hh
          simp only at hh ⊢
          split
          · rename_i h8; simp only [h8, if_true] at hh; exact run_stable _ q s a r hh
          · rename_i h8; simp only [h8, if_false] at hh; exact run_stable _ q s a r hh
        cases hc : (if v.toInt ≤ 8 then P.run (decDecimalLen v.toInt.toNat) r1 else P.run decDecimal r1) with
        | none => rw [hc] at h; simp at h
        | some w =>
          obtain ⟨cnt, r0⟩ := w
          rw [hc] at h; simp only at h
          have hcnt' := hcnt r1 s cnt r0 hc
          simp only at hcnt'
          rw [hcnt']; simp only
          have hel := elems_stable (fun q => body.read q) (fun q => ihb hn.1 q) pfx n cnt.toNat 0
          cases h0 : readElems (fun q => body.read q) pfx n 0 cnt.toNat (e.set vn v.toInt) r0 with
          | none => rw [h0] at h; simp at h
          | some z =>
            obtain ⟨o1, e1, r3⟩ := z
            rw [h0] at h; simp only at h
            rw [hel _ r0 s o1 e1 r3 h0]; simp only
            cases h1 : rest.read pfx e1 r3 with
            | none => rw [h1] at h; simp at h
            | some z =>
              obtain ⟨o2, e2, r2⟩ := z
              rw [h1] at h; simp only at h
              simp only [Option.some.injEq, Prod.mk.injEq] at h
              obtain ⟨rfl, rfl, rfl⟩ := h
              rw [ihr hn.2 pfx e1 r3 s o2 e2 r2 h1]

/-- **prefix failure for layouts**: if `q ++ s` is read completely (nothing left) by a reader layout
    without an end-of-input test and `s ≠ []`, the strict prefix `q` is not read at all -/
theorem read_prefix_fails (l : L) (hn : l.tailFree = true) (pfx : String) (e : Env) (q s : Bytes)
    (o : Out) (e' : Env) (hs : s ≠ []) (h : l.read pfx e (q ++ s) = some (o, e', [])) :
    l.read pfx e q = none := by
  cases hq : l.read pfx e q with
  | none => rfl
  | some x =>
    obtain ⟨o1, e1, r1⟩ := x
    have := read_stable l hn pfx e q s o1 e1 r1 hq
    rw [h] at this
    simp only [Option.some.injEq, Prod.mk.injEq] at this
    have : r1 ++ s = [] := this.2.2.symm
    simp at this
    exact absurd this.2 hs

/-- … in particular for the encoding of any well-formed record under agreeing layouts -/
theorem encoding_prefix_fails (vr : ValueRT) (w r : L) (h : agrees w r = true) (hn : r.tailFree = true)
    (E : Env) (pfx : String) (x : Rec) (hwf : w.WF vr E pfx x) (q s : Bytes) (hs : s ≠ [])
    (hq : q ++ s = w.write E pfx x) : r.read pfx E q = none := by
  obtain ⟨E', hr⟩ := agree_roundtrip vr w r h E pfx x [] hwf
  rw [List.append_nil, ← hq] at hr
  exact read_prefix_fails r hn pfx E q s _ E' hs hr

end Layout
