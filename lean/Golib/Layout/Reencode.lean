/-
  Golib.Layout.Reencode — the encoding is a function of the carried fields.

  `L.encodeOut w E o` serialises from the *list of carried fields* `o` (what a decoded pack holds),
  consuming it in wire order.  `encodeOut_expect`: for every record `x` the bytes written for `x`
  are exactly `encodeOut` of `x`'s carried fields.  Hence two packs with the same carried fields have
  the same encoding, and — with the round trip — re-encoding what was decoded gives back the bytes
  byte for byte (`reencode_identical`).
-/
import Golib.Layout.Agree

namespace Layout
open _root_.Prim

def encodeElems (f : Out → Option (Bytes × Out)) : Nat → Out → Option (Bytes × Out)
  | 0, o => some ([], o)
  | n+1, o =>
    match f o with
    | none => none
    | some (b1, o1) =>
      match encodeElems f n o1 with
      | none => none
      | some (b2, o2) => some (b1 ++ b2, o2)

def L.encodeOut : L → Env → Out → Option (Bytes × Out)
  | .nil, _, o => some ([], o)
  | .fld _ p _ rest, e, o =>
    match o with
    | [] => none
    | (_, v) :: o' => (rest.encodeOut e o').map (fun (bs, o'') => (p.encode v ++ bs, o''))
  | .lit p v rest, e, o => (rest.encodeOut e o).map (fun (bs, o') => (p.encode (.int v) ++ bs, o'))
  | .skip _ rest, e, o => rest.encodeOut e o
  | .var n p rest, e, o => (rest.encodeOut e o).map (fun (bs, o') => (p.encode (.int (e n)) ++ bs, o'))
  | .ite c t el rest, e, o =>
    match (if c.eval e then t.encodeOut e o else el.encodeOut e o) with
    | none => none
    | some (b1, o1) => (rest.encodeOut e o1).map (fun (b2, o2) => (b1 ++ b2, o2))
  | .guard _ rest, e, o => rest.encodeOut e o
  | .opt _ body rest, e, o =>
    match o with
    | [] => none
    | (_, flag) :: o' =>
      if flag.toInt != 0 then
        match body.encodeOut e o' with
        | none => none
        | some (b1, o1) => (rest.encodeOut e o1).map (fun (b2, o2) => (1 :: (b1 ++ b2), o2))
      else (rest.encodeOut e o').map (fun (b2, o2) => (0 :: b2, o2))
  | .rep cnt _ body rest, e, o =>
    match o with
    | [] => none
    | (_, n) :: o' =>
      match encodeElems (fun q => body.encodeOut e q) n.toInt.toNat o' with
      | none => none
      | some (b1, o1) => (rest.encodeOut e o1).map (fun (b2, o2) => (cnt.encode (.int n.toInt.toNat) ++ (b1 ++ b2), o2))
  | .wrap body rest, e, o =>
    match body.encodeOut e o with
    | none => none
    | some (b1, o1) => (rest.encodeOut e o1).map (fun (b2, o2) => (encBlob b1 ++ b2, o2))
  | .hdr rest, e, o =>
    match o with
    | (_, a) :: (_, b) :: (_, c) :: (_, d) :: (_, t) :: o' =>
      (rest.encodeOut e o').map (fun (bs, o'') => (encHeader ⟨a.toInt, b.toInt, c.toInt, d.toInt, t.toInt⟩ ++ bs, o''))
    | _ => none
  | .times n _ body rest, e, o =>
    match encodeElems (fun q => body.encodeOut e q) n o with
    | none => none
    | some (b1, o1) => (rest.encodeOut e o1).map (fun (b2, o2) => (b1 ++ b2, o2))
  | .sub _ body rest, e, o =>
    match body.encodeOut e o with
    | none => none
    | some (b1, o1) => (rest.encodeOut e o1).map (fun (b2, o2) => (b1 ++ b2, o2))
  | .kfld _ p _ rest, e, o =>
    match o with
    | [] => none
    | (_, v) :: o' => (rest.encodeOut e o').map (fun (bs, o'') => (p.encode v ++ bs, o''))
  | .key _ p _ rest, e, o =>
    match o with
    | [] => none
    | (_, v) :: o' => (rest.encodeOut e o').map (fun (bs, o'') => (p.encode v ++ bs, o''))
  | .mopt m _ body rest, e, o =>
    match o with
    | [] => none
    | (_, flag) :: o' =>
      if flag.toInt != 0 then
        match body.encodeOut e o' with
        | none => none
        | some (b1, o1) => (rest.encodeOut e o1).map (fun (b2, o2) => (m :: (b1 ++ b2), o2))
      else (rest.encodeOut e o').map (fun (b2, o2) => (0 :: b2, o2))
  | .vopt _ _ body rest, e, o =>
    match o with
    | [] => none
    | (_, flag) :: o' =>
      if flag.toInt != 0 then
        match body.encodeOut e o' with
        | none => none
        | some (b1, o1) => (rest.encodeOut e o1).map (fun (b2, o2) => (1 :: (b1 ++ b2), o2))
      else (rest.encodeOut e o').map (fun (b2, o2) => (0 :: b2, o2))
  | .mrep _ _ _ _, _, _ => none      -- nil and empty tables encode differently but carry the same rows
  | .vrep _ _ body rest, e, o =>
    match o with
    | [] => none
    | (_, n) :: o' =>
      match encodeElems (fun q => body.encodeOut e q) n.toInt.toNat o' with
      | none => none
      | some (b1, o1) => (rest.encodeOut e o1).map (fun (b2, o2) => (encDecimal n.toInt.toNat ++ (b1 ++ b2), o2))
  | .srep cnt _ rest, e, o => (rest.encodeOut e o).map (fun (bs, o') => (cnt.encode (.int 0) ++ bs, o'))
  | .avail body, e, o => body.encodeOut e o
  | .unknown _, _, _ => none

def L.known : L → Bool
  | .nil => true
  | .fld _ _ _ rest => rest.known
  | .lit _ _ rest => rest.known
  | .skip _ rest => rest.known
  | .var _ _ rest => rest.known
  | .ite _ t e rest => t.known && e.known && rest.known
  | .guard _ rest => rest.known
  | .opt _ b rest => b.known && rest.known
  | .rep _ _ b rest => b.known && rest.known
  | .wrap b rest => b.known && rest.known
  | .hdr rest => rest.known
  | .times _ _ b rest => b.known && rest.known
  | .sub _ b rest => b.known && rest.known
  | .kfld _ _ _ rest => rest.known
  | .key _ _ _ rest => rest.known
  | .mopt _ _ b rest => b.known && rest.known
  | .vopt _ _ b rest => b.known && rest.known
  | .mrep _ _ _ _ => false
  | .vrep _ _ b rest => b.known && rest.known
  | .srep _ _ rest => rest.known
  | .avail b => b.known
  | .unknown _ => false

theorem encodeElems_expect (bw : L) (E : Env) (pfx name : String) (x : Rec)
    (hb : ∀ (q : String) (more : Out), bw.encodeOut E (bw.expect E q x ++ more) = some (bw.write E q x, more)) :
    ∀ (n i : Nat) (more : Out),
      encodeElems (fun o => bw.encodeOut E o) n (expectElems (fun q => bw.expect E q x) pfx name i n ++ more)
        = some (writeElems (fun q => bw.write E q x) pfx name i n, more) := by
  intro n
  induction n with
  | zero => intro i more; simp [encodeElems, expectElems, writeElems]
  | succ n ih =>
    intro i more
    simp only [encodeElems, expectElems, writeElems, List.append_assoc]
    rw [hb]
    simp only []
    rw [ih]

/-- the bytes written for a record are a function of its carried fields -/
theorem encodeOut_expect (w : L) (hk : w.known = true) (E : Env) (pfx : String) (x : Rec) (more : Out) :
    w.encodeOut E (w.expect E pfx x ++ more) = some (w.write E pfx x, more) := by
  induction w generalizing pfx more with
  | nil => simp [L.encodeOut, L.expect, L.write]
  | fld n p g rest ih =>
    simp only [L.known] at hk
    simp [L.encodeOut, L.expect, L.write, ih hk]
  | lit p v rest ih =>
    simp only [L.known] at hk
    simp [L.encodeOut, L.expect, L.write, ih hk]
  | skip p rest ih =>
    simp only [L.known] at hk
    simp [L.encodeOut, L.expect, L.write, ih hk]
  | var n p rest ih =>
    simp only [L.known] at hk
    simp [L.encodeOut, L.expect, L.write, ih hk]
  | ite c t el rest iht ihe ihr =>
    simp only [L.known, Bool.and_eq_true] at hk
    simp only [L.encodeOut, L.expect, L.write, List.append_assoc]
    cases c.eval E
    · simp only [Bool.false_eq_true, if_false]
      rw [ihe hk.1.2]; simp [ihr hk.2]
    · simp only [if_true]
      rw [iht hk.1.1]; simp [ihr hk.2]
  | guard c rest ih =>
    simp only [L.known] at hk
    simp [L.encodeOut, L.expect, L.write, ih hk]
  | opt n body rest ihb ihr =>
    simp only [L.known, Bool.and_eq_true] at hk
    simp only [L.encodeOut, L.expect, L.write, List.append_assoc]
    cases present pfx n x
    · simp [Val.toInt, ihr hk.2]
    · have e10 : ((1 : Int) != 0) = true := by decide
      simp only [if_true, List.cons_append, Val.toInt, e10]
      rw [ihb hk.1]; simp [ihr hk.2]
  | rep cnt n body rest ihb ihr =>
    simp only [L.known, Bool.and_eq_true] at hk
    simp only [L.encodeOut, L.expect, L.write, List.cons_append, List.append_assoc, Val.toInt,
      Int.toNat_natCast]
    rw [encodeElems_expect body E pfx n x (fun q m => ihb hk.1 q m)]
    simp [ihr hk.2]
  | wrap body rest ihb ihr =>
    simp only [L.known, Bool.and_eq_true] at hk
    simp only [L.encodeOut, L.expect, L.write, List.append_assoc]
    rw [ihb hk.1]; simp [ihr hk.2]
  | hdr rest ih =>
    simp only [L.known] at hk
    simp [L.encodeOut, L.expect, L.write, hdrOut, hdrOf, Val.toInt, ih hk]
  | times n nm body rest ihb ihr =>
    simp only [L.known, Bool.and_eq_true] at hk
    simp only [L.encodeOut, L.expect, L.write, List.append_assoc]
    rw [encodeElems_expect body E pfx nm x (fun q m => ihb hk.1 q m)]
    simp [ihr hk.2]
  | sub nm body rest ihb ihr =>
    simp only [L.known, Bool.and_eq_true] at hk
    simp only [L.encodeOut, L.expect, L.write, List.append_assoc]
    rw [ihb hk.1]; simp [ihr hk.2]
  | kfld n p k rest ih =>
    simp only [L.known] at hk
    simp [L.encodeOut, L.expect, L.write, ih hk]
  | key n p v rest ih =>
    simp only [L.known] at hk
    simp [L.encodeOut, L.expect, L.write, ih hk]
  | mopt m n body rest ihb ihr =>
    simp only [L.known, Bool.and_eq_true] at hk
    simp only [L.encodeOut, L.expect, L.write, List.append_assoc]
    cases present pfx n x
    · simp [Val.toInt, ihr hk.2]
    · have e10 : ((1 : Int) != 0) = true := by decide
      simp only [if_true, List.cons_append, Val.toInt, e10]
      rw [ihb hk.1]; simp [ihr hk.2]
  | vopt v n body rest ihb ihr =>
    simp only [L.known, Bool.and_eq_true] at hk
    simp only [L.encodeOut, L.expect, L.write, List.append_assoc]
    cases present pfx n x
    · simp [Val.toInt, ihr hk.2]
    · have e10 : ((1 : Int) != 0) = true := by decide
      simp only [if_true, List.cons_append, Val.toInt, e10]
      rw [ihb hk.1]; simp [ihr hk.2]
  | mrep m n body rest _ _ => simp [L.known] at hk
  | vrep v n body rest ihb ihr =>
    simp only [L.known, Bool.and_eq_true] at hk
    simp only [L.encodeOut, L.expect, L.write, List.cons_append, List.append_assoc, Val.toInt,
      Int.toNat_natCast]
    rw [encodeElems_expect body E pfx n x (fun q m => ihb hk.1 q m)]
    simp [ihr hk.2]
  | srep c body rest _ ihr =>
    simp only [L.known] at hk
    simp [L.encodeOut, L.expect, L.write, ihr hk]
  | avail body ih =>
    simp only [L.known] at hk
    simp [L.encodeOut, L.expect, L.write, ih hk]
  | unknown w => simp [L.known] at hk

/-- two records with the same carried fields have the same encoding -/
theorem write_eq_of_expect_eq (w : L) (hk : w.known = true) (E : Env) (pfx : String) (x y : Rec)
    (h : w.expect E pfx x = w.expect E pfx y) : w.write E pfx x = w.write E pfx y := by
  have hx := encodeOut_expect w hk E pfx x []
  have hy := encodeOut_expect w hk E pfx y []
  rw [h, hy] at hx
  simpa using hx.symm

/-- **re-encoding is byte-identical**: serialising the fields the reader delivered gives back exactly
    the bytes that were read -/
theorem reencode_identical (vr : ValueRT) (w r : L) (h : agrees w r = true) (hk : w.known = true)
    (E : Env) (pfx : String) (x : Rec) (rest : Bytes) (hwf : w.WF vr E pfx x) :
    ∃ o E', r.read pfx E (w.write E pfx x ++ rest) = some (o, E', rest) ∧
      w.encodeOut E o = some (w.write E pfx x, []) := by
  obtain ⟨E', hr⟩ := agree_roundtrip vr w r h E pfx x rest hwf
  refine ⟨_, E', hr, ?_⟩
  have := encodeOut_expect w hk E pfx x []
  simpa using this

end Layout
