/-
  Golib.Layout.Agree — when do a writer layout and a reader layout agree, and what follows.

  `agree w r` is a decidable comparison of the transcription `w` of a `Write` body with the
  transcription `r` of the matching `Read` body.  It walks the two in lockstep and demands the same
  primitive, the same field and the same Go range at every position; it knows the three idioms by
  which the real readers differ textually from their writers:

    * writer emits a constant, reader discards it                      (`lit` ~ `skip`)
    * writer emits a constant, reader binds it to a local and later
      branches on that local: the branch is resolved with the constant  (`lit` ~ `var`, static `ite`)
    * writer emits a parameter (`version`), reader binds a local (`ver`):
      conditions are compared modulo that renaming                      (`var` ~ `var`, dynamic `ite`)
    * writer emits a tagged map (`WriteValue`), reader discards one byte
      and reads the map body                                            (`fld mapV` ~ `skip u8; fld mapBody`)

  `agree_sound` (proved once, by induction): if the layouts agree then reading what was written
  yields exactly the carried fields `w.expect` and consumes exactly the bytes written, for every
  record meeting the explicit guards `w.WF`, every continuation of the input and every path prefix.
-/
import Golib.Layout.PrimRT

namespace Layout
open _root_.Prim

abbrev SEnv := List (String × Int)       -- reader local ↦ the constant the writer emitted for it
abbrev DEnv := List (String × String)    -- (writer parameter, reader local) known to hold the same value

def fresh (n : String) (s : SEnv) (d : DEnv) : Bool :=
  (s.lookup n).isNone && d.all (fun p => p.2 != n)

def condMatch (d : DEnv) (cw cr : Cond) : Bool :=
  cw.op == cr.op && cw.n == cr.n && d.contains (cw.var, cr.var)

/-- the writer certainly emits at least one byte here (a presence flag) -/
def nonEmptyHead : L → Bool
  | .opt _ _ _ => true
  | .mopt _ _ _ _ => true
  | _ => false

def agree : Nat → L → L → SEnv → DEnv → Bool
  | 0, _, _, _, _ => false
  | f+1, w, .ite c t e rest, s, d =>
    match s.lookup c.var with
    | some v => (if c.test v then t else e).noAvail && agree f w ((if c.test v then t else e).append rest) s d
    | none =>
      match w with
      | .ite cw tw ew restw =>
        condMatch d cw c && agree f tw t s d && agree f ew e s d && agree f restw rest s d
      | _ => false
  | f+1, w, .guard c r, s, d =>
    match s.lookup c.var with
    | some v => !c.test v && agree f w r s d
    | none => false
  | f+1, w, .avail r, s, d => nonEmptyHead w && agree f w r s d
  | _+1, .nil, .nil, _, _ => true
  | f+1, .fld n p g w, .fld n' p' g' r, s, d => n == n' && p == p' && g == g' && agree f w r s d
  | f+1, .fld n p _ w, .skip q r, s, d =>
    -- a tagged map written whole; the reader discards the tag byte, then reads the body
    match q, r with
    | .u8, .fld n' p' _ r' => n == n' && Prim.untag p == some p' && agree f w r' s d
    | _, _ => false
  | f+1, .lit p _ w, .skip p' r, s, d => p == p' && agree f w r s d
  | f+1, .lit p v w, .var n p' r, s, d => p == p' && fresh n s d && agree f w r ((n, v) :: s) d
  | f+1, .var a p w, .var b p' r, s, d => p == p' && fresh b s d && agree f w r s ((a, b) :: d)
  | f+1, .opt n b w, .opt n' b' r, s, d => n == n' && agree f b b' s d && agree f w r s d
  | f+1, .rep c n b w, .rep c' n' b' r, s, d =>
    c == c' && n == n' && agree f b b' s d && agree f w r s d
  | f+1, .wrap b w, .wrap b' r, s, d => agree f b b' s d && agree f w r s d
  | f+1, .hdr w, .hdr r, s, d => agree f w r s d
  | f+1, .times n nm b w, .times n' nm' b' r, s, d =>
    n == n' && nm == nm' && agree f b b' s d && agree f w r s d
  | f+1, .sub nm b w, .sub nm' b' r, s, d => nm == nm' && agree f b b' s d && agree f w r s d
  | f+1, .kfld nm p k w, .key nm' p' v r, s, d =>
    nm == nm' && p == p' && fresh v s d && agree f w r ((v, k) :: s) d
  | f+1, .mopt m nm b w, .vopt v nm' b' r, s, d =>
    nm == nm' && decide (1 ≤ m ∧ m < 256) && fresh v s d && agree f b b' ((v, (m : Int)) :: s) d && agree f w r s d
  | f+1, .mrep m nm b w, .vrep v nm' b' r, s, d =>
    nm == nm' && decide (9 ≤ m ∧ m < 256) && fresh v s d && agree f b b' ((v, (m : Int)) :: s) d && agree f w r s d
  | f+1, .rep c nm b w, .vrep v nm' b' r, s, d =>
    c == .dec && nm == nm' && fresh v s d && agree f b b' s d && agree f w r s d
  | f+1, .lit p v w, .srep p' _ r, s, d => p == p' && v == 0 && agree f w r s d
  | _+1, _, _, _, _ => false

/-- the comparison used by the generated obligations: enough fuel for every unfolding -/
def agrees (w r : L) : Bool := agree (w.size + 2 * r.size + 1) w r [] []

/-! ### the guards -/

def rngOk (g : Rng) (v : Val) : Prop :=
  match v with
  | .int i => g.ok i
  | _ => g = .any

def L.WF (vr : ValueRT) : L → Env → String → Rec → Prop
  | .nil, _, _, _ => True
  | .fld name p g rest, e, pfx, x =>
      Prim.wf vr p (x (pfx ++ name)) ∧ rngOk g (x (pfx ++ name)) ∧ rest.WF vr e pfx x
  | .lit p v rest, e, pfx, x => Prim.wf vr p (.int v) ∧ rest.WF vr e pfx x
  | .skip _ rest, e, pfx, x => rest.WF vr e pfx x
  | .var name p rest, e, pfx, x => Prim.wf vr p (.int (e name)) ∧ rest.WF vr e pfx x
  | .ite c t el rest, e, pfx, x =>
      (if c.eval e then t.WF vr e pfx x else el.WF vr e pfx x) ∧ rest.WF vr e pfx x
  | .guard _ rest, e, pfx, x => rest.WF vr e pfx x
  | .opt name body rest, e, pfx, x =>
      (present pfx name x = true → body.WF vr e pfx x) ∧ rest.WF vr e pfx x
  | .rep cnt name body rest, e, pfx, x =>
      Prim.wf vr cnt (.int (countOf pfx name x)) ∧
      (∀ i, i < countOf pfx name x → body.WF vr e (elemPfx pfx name i) x) ∧ rest.WF vr e pfx x
  | .wrap body rest, e, pfx, x =>
      body.WF vr e pfx x ∧ (body.write e pfx x).length < 2147483648 ∧ rest.WF vr e pfx x
  | .hdr rest, e, pfx, x => (hdrOf pfx x).WF ∧ rest.WF vr e pfx x
  | .times n name body rest, e, pfx, x =>
      (∀ i, i < n → body.WF vr e (elemPfx pfx name i) x) ∧ rest.WF vr e pfx x
  | .sub name body rest, e, pfx, x => body.WF vr e (pfx ++ name ++ ".") x ∧ rest.WF vr e pfx x
  | .kfld name p k rest, e, pfx, x =>
      Prim.wf vr p (x (pfx ++ name)) ∧ x (pfx ++ name) = .int k ∧ rest.WF vr e pfx x
  | .key name p _ rest, e, pfx, x => Prim.wf vr p (x (pfx ++ name)) ∧ rest.WF vr e pfx x
  | .mopt _ name body rest, e, pfx, x =>
      (present pfx name x = true → body.WF vr e pfx x) ∧ rest.WF vr e pfx x
  | .vopt _ name body rest, e, pfx, x =>
      (present pfx name x = true → body.WF vr e pfx x) ∧ rest.WF vr e pfx x
  | .mrep _ name body rest, e, pfx, x =>
      (present pfx name x = false → countOf pfx name x = 0) ∧ inRange 8 (countOf pfx name x : Int) ∧
      (∀ i, i < countOf pfx name x → body.WF vr e (elemPfx pfx name i) x) ∧ rest.WF vr e pfx x
  | .vrep _ name body rest, e, pfx, x =>
      inRange 8 (countOf pfx name x : Int) ∧
      (∀ i, i < countOf pfx name x → body.WF vr e (elemPfx pfx name i) x) ∧ rest.WF vr e pfx x
  | .srep cnt _ rest, e, pfx, x => Prim.wf vr cnt (.int 0) ∧ rest.WF vr e pfx x
  | .avail body, e, pfx, x => body.WF vr e pfx x
  | .unknown _, _, _, _ => False

/-! ### reading an appended layout -/

def RDec.seq (a b : RDec) : RDec := fun e bs =>
  match a e bs with
  | none => none
  | some (o1, e1, r1) =>
    match b e1 r1 with
    | none => none
    | some (o2, e2, r2) => some (o1 ++ o2, e2, r2)

theorem read_append (a b : L) (h : a.noAvail = true) (pfx : String) (e : Env) (bs : Bytes) :
    (a.append b).read pfx e bs = RDec.seq (a.read pfx) (b.read pfx) e bs := by
  induction a generalizing e bs with
  | nil =>
    simp only [L.append, L.read, RDec.seq]
    cases b.read pfx e bs with
    | none => rfl
    | some x => obtain ⟨o, e', r⟩ := x; simp
  | fld n p g rest ih =>
    simp only [L.noAvail] at h
    have ih := ih h
    simp only [L.append, L.read, RDec.seq]
    cases p.decode bs with
    | none => rfl
    | some x =>
      obtain ⟨v, r⟩ := x
      simp only [ih, RDec.seq]
      cases rest.read pfx e r with
      | none => rfl
      | some y =>
        obtain ⟨o1, e1, r1⟩ := y
        simp only []
        cases b.read pfx e1 r1 with
        | none => rfl
        | some z => obtain ⟨o2, e2, r2⟩ := z; simp
  | lit p v rest ih => simp only [L.noAvail] at h; simp only [L.append, L.read]; exact ih h e bs
  | skip p rest ih =>
    simp only [L.noAvail] at h
    have ih := ih h
    simp only [L.append, L.read, RDec.seq]
    cases p.decode bs with
    | none => rfl
    | some x => obtain ⟨v, r⟩ := x; simp only [ih, RDec.seq]
  | var n p rest ih =>
    simp only [L.noAvail] at h
    have ih := ih h
    simp only [L.append, L.read, RDec.seq]
    cases p.decode bs with
    | none => rfl
    | some x => obtain ⟨v, r⟩ := x; simp only [ih, RDec.seq]
  | ite c t el rest _ _ ih =>
    simp only [L.noAvail, Bool.and_eq_true] at h
    have ih := ih h.2
    simp only [L.append, L.read, RDec.seq]
    cases (if c.eval e then t.read pfx e bs else el.read pfx e bs) with
    | none => rfl
    | some x =>
      obtain ⟨o1, e1, r1⟩ := x
      simp only [ih, RDec.seq]
      cases rest.read pfx e1 r1 with
      | none => rfl
      | some y =>
        obtain ⟨o2, e2, r2⟩ := y
        simp only []
        cases b.read pfx e2 r2 with
        | none => rfl
        | some z => obtain ⟨o3, e3, r3⟩ := z; simp
  | guard c rest ih =>
    simp only [L.noAvail] at h
    have ih := ih h
    simp only [L.append, L.read, RDec.seq]
    split
    · rfl
    · have := ih e bs; simp only [RDec.seq] at this; exact this
  | opt n body rest _ ih =>
    simp only [L.noAvail] at h
    have ih := ih h
    simp only [L.append, L.read, RDec.seq]
    cases Prim.decode .u8 bs with
    | none => rfl
    | some x =>
      obtain ⟨flag, r⟩ := x
      simp only []
      split
      · cases body.read pfx e r with
        | none => rfl
        | some y =>
          obtain ⟨o1, e1, r1⟩ := y
          simp only [ih, RDec.seq]
          cases rest.read pfx e1 r1 with
          | none => rfl
          | some z =>
            obtain ⟨o2, e2, r2⟩ := z
            simp only []
            cases b.read pfx e2 r2 with
            | none => rfl
            | some u => obtain ⟨o3, e3, r3⟩ := u; simp
      · simp only [ih, RDec.seq]
        cases rest.read pfx e r with
        | none => rfl
        | some z =>
          obtain ⟨o2, e2, r2⟩ := z
          simp only []
          cases b.read pfx e2 r2 with
          | none => rfl
          | some u => obtain ⟨o3, e3, r3⟩ := u; simp
  | rep cnt n body rest _ ih =>
    simp only [L.noAvail] at h
    have ih := ih h
    simp only [L.append, L.read, RDec.seq]
    cases cnt.decode bs with
    | none => rfl
    | some x =>
      obtain ⟨k, r⟩ := x
      simp only []
      cases readElems (fun q => body.read q) pfx n 0 k.toInt.toNat e r with
      | none => rfl
      | some y =>
        obtain ⟨o1, e1, r1⟩ := y
        simp only [ih, RDec.seq]
        cases rest.read pfx e1 r1 with
        | none => rfl
        | some z =>
          obtain ⟨o2, e2, r2⟩ := z
          simp only []
          cases b.read pfx e2 r2 with
          | none => rfl
          | some u => obtain ⟨o3, e3, r3⟩ := u; simp
  | wrap body rest _ ih =>
    simp only [L.noAvail] at h
    have ih := ih h
    simp only [L.append, L.read, RDec.seq]
    cases P.run decBlob bs with
    | none => rfl
    | some x =>
      obtain ⟨inner, r⟩ := x
      simp only []
      cases body.read pfx e inner with
      | none => rfl
      | some y =>
        obtain ⟨o1, e1, _⟩ := y
        simp only [ih, RDec.seq]
        cases rest.read pfx e1 r with
        | none => rfl
        | some z =>
          obtain ⟨o2, e2, r2⟩ := z
          simp only []
          cases b.read pfx e2 r2 with
          | none => rfl
          | some u => obtain ⟨o3, e3, r3⟩ := u; simp
  | hdr rest ih =>
    simp only [L.noAvail] at h
    have ih := ih h
    simp only [L.append, L.read, RDec.seq]
    cases P.run decHeader bs with
    | none => rfl
    | some x =>
      obtain ⟨h, r⟩ := x
      simp only [ih, RDec.seq]
      cases rest.read pfx e r with
      | none => rfl
      | some y =>
        obtain ⟨o1, e1, r1⟩ := y
        simp only []
        cases b.read pfx e1 r1 with
        | none => rfl
        | some z => obtain ⟨o2, e2, r2⟩ := z; simp
  | times k n body rest _ ih =>
    simp only [L.noAvail] at h
    have ih := ih h
    simp only [L.append, L.read, RDec.seq]
    cases readElems (fun q => body.read q) pfx n 0 k e bs with
    | none => rfl
    | some y =>
      obtain ⟨o1, e1, r1⟩ := y
      simp only [ih, RDec.seq]
      cases rest.read pfx e1 r1 with
      | none => rfl
      | some z =>
        obtain ⟨o2, e2, r2⟩ := z
        simp only []
        cases b.read pfx e2 r2 with
        | none => rfl
        | some u => obtain ⟨o3, e3, r3⟩ := u; simp
  | sub n body rest _ ih =>
    simp only [L.noAvail] at h
    have ih := ih h
    simp only [L.append, L.read, RDec.seq]
    cases body.read (pfx ++ n ++ ".") e bs with
    | none => rfl
    | some y =>
      obtain ⟨o1, e1, r1⟩ := y
      simp only [ih, RDec.seq]
      cases rest.read pfx e1 r1 with
      | none => rfl
      | some z =>
        obtain ⟨o2, e2, r2⟩ := z
        simp only []
        cases b.read pfx e2 r2 with
        | none => rfl
        | some u => obtain ⟨o3, e3, r3⟩ := u; simp
  | kfld n p k rest ih =>
    simp only [L.noAvail] at h
    have ih := ih h
    simp only [L.append, L.read, RDec.seq]
    cases p.decode bs with
    | none => rfl
    | some x =>
      obtain ⟨v, r⟩ := x
      simp only [ih, RDec.seq]
      cases rest.read pfx e r with
      | none => rfl
      | some y =>
        obtain ⟨o1, e1, r1⟩ := y
        simp only []
        cases b.read pfx e1 r1 with
        | none => rfl
        | some z => obtain ⟨o2, e2, r2⟩ := z; simp
  | key n p vn rest ih =>
    simp only [L.noAvail] at h
    have ih := ih h
    simp only [L.append, L.read, RDec.seq]
    cases p.decode bs with
    | none => rfl
    | some x =>
      obtain ⟨v, r⟩ := x
      simp only [ih, RDec.seq]
      cases rest.read pfx (e.set vn v.toInt) r with
      | none => rfl
      | some y =>
        obtain ⟨o1, e1, r1⟩ := y
        simp only []
        cases b.read pfx e1 r1 with
        | none => rfl
        | some z => obtain ⟨o2, e2, r2⟩ := z; simp
  | mopt m n body rest _ ih =>
    simp only [L.noAvail] at h
    have ih := ih h
    simp only [L.append, L.read, RDec.seq]
    cases Prim.decode .u8 bs with
    | none => rfl
    | some x =>
      obtain ⟨flag, r⟩ := x
      simp only []
      split
      · cases body.read pfx e r with
        | none => rfl
        | some y =>
          obtain ⟨o1, e1, r1⟩ := y
          simp only [ih, RDec.seq]
          cases rest.read pfx e1 r1 with
          | none => rfl
          | some z =>
            obtain ⟨o2, e2, r2⟩ := z
            simp only []
            cases b.read pfx e2 r2 with
            | none => rfl
            | some u => obtain ⟨o3, e3, r3⟩ := u; simp
      · simp only [ih, RDec.seq]
        cases rest.read pfx e r with
        | none => rfl
        | some z =>
          obtain ⟨o2, e2, r2⟩ := z
          simp only []
          cases b.read pfx e2 r2 with
          | none => rfl
          | some u => obtain ⟨o3, e3, r3⟩ := u; simp
  | vopt vn n body rest _ ih =>
    simp only [L.noAvail] at h
    have ih := ih h
    simp only [L.append, L.read, RDec.seq]
    cases Prim.decode .u8 bs with
    | none => rfl
    | some x =>
      obtain ⟨flag, r⟩ := x
      simp only []
      split
      · cases body.read pfx (e.set vn flag.toInt) r with
        | none => rfl
        | some y =>
          obtain ⟨o1, e1, r1⟩ := y
          simp only [ih, RDec.seq]
          cases rest.read pfx e1 r1 with
          | none => rfl
          | some z =>
            obtain ⟨o2, e2, r2⟩ := z
            simp only []
            cases b.read pfx e2 r2 with
            | none => rfl
            | some u => obtain ⟨o3, e3, r3⟩ := u; simp
      · simp only [ih, RDec.seq]
        cases rest.read pfx (e.set vn 0) r with
        | none => rfl
        | some z =>
          obtain ⟨o2, e2, r2⟩ := z
          simp only []
          cases b.read pfx e2 r2 with
          | none => rfl
          | some u => obtain ⟨o3, e3, r3⟩ := u; simp
  | mrep m n body rest _ ih =>
    simp only [L.noAvail] at h
    have ih := ih h
    simp only [L.append, L.read, RDec.seq]
    cases Prim.decode .u8 bs with
    | none => rfl
    | some x =>
      obtain ⟨bb, r⟩ := x
      simp only []
      split
      · simp only [ih, RDec.seq]
        cases rest.read pfx (e.set "" 0) r with
        | none => rfl
        | some z =>
          obtain ⟨o2, e2, r2⟩ := z
          simp only []
          cases b.read pfx e2 r2 with
          | none => rfl
          | some u => obtain ⟨o3, e3, r3⟩ := u; simp
      · cases (if bb.toInt ≤ 8 then P.run (decDecimalLen bb.toInt.toNat) r else P.run decDecimal r) with
        | none => rfl
        | some w =>
          obtain ⟨cnt, r0⟩ := w
          simp only []
          cases readElems (fun q => body.read q) pfx n 0 cnt.toNat (e.set "" bb.toInt) r0 with
          | none => rfl
          | some y =>
            obtain ⟨o1, e1, r1⟩ := y
            simp only [ih, RDec.seq]
            cases rest.read pfx e1 r1 with
            | none => rfl
            | some z =>
              obtain ⟨o2, e2, r2⟩ := z
              simp only []
              cases b.read pfx e2 r2 with
              | none => rfl
              | some u => obtain ⟨o3, e3, r3⟩ := u; simp
  | vrep vn n body rest _ ih =>
    simp only [L.noAvail] at h
    have ih := ih h
    simp only [L.append, L.read, RDec.seq]
    cases Prim.decode .u8 bs with
    | none => rfl
    | some x =>
      obtain ⟨bb, r⟩ := x
      simp only []
      split
      · simp only [ih, RDec.seq]
        cases rest.read pfx (e.set vn 0) r with
        | none => rfl
        | some z =>
          obtain ⟨o2, e2, r2⟩ := z
          simp only []
          cases b.read pfx e2 r2 with
          | none => rfl
          | some u => obtain ⟨o3, e3, r3⟩ := u; simp
      · cases (if bb.toInt ≤ 8 then P.run (decDecimalLen bb.toInt.toNat) r else P.run decDecimal r) with
        | none => rfl
        | some w =>
          obtain ⟨cnt, r0⟩ := w
          simp only []
          cases readElems (fun q => body.read q) pfx n 0 cnt.toNat (e.set vn bb.toInt) r0 with
          | none => rfl
          | some y =>
            obtain ⟨o1, e1, r1⟩ := y
            simp only [ih, RDec.seq]
            cases rest.read pfx e1 r1 with
            | none => rfl
            | some z =>
              obtain ⟨o2, e2, r2⟩ := z
              simp only []
              cases b.read pfx e2 r2 with
              | none => rfl
              | some u => obtain ⟨o3, e3, r3⟩ := u; simp
  | srep cnt body rest _ ih =>
    simp only [L.noAvail] at h
    have ih := ih h
    simp only [L.append, L.read, RDec.seq]
    cases cnt.decode bs with
    | none => rfl
    | some x =>
      obtain ⟨k, r⟩ := x
      simp only []
      cases readElems (fun q => body.read q) pfx "" 0 k.toInt.toNat e r with
      | none => rfl
      | some y =>
        obtain ⟨o1, e1, r1⟩ := y
        simp only [ih, RDec.seq]
  | avail body _ => simp [L.noAvail] at h
  | unknown w => simp [L.append, L.read, RDec.seq]

/-! ### the invariant relating the reader's locals to the writer's constants and parameters -/

def Inv (E ER : Env) (s : SEnv) (d : DEnv) : Prop :=
  (∀ n v, s.lookup n = some v → ER n = v) ∧ (∀ a b, (a, b) ∈ d → ER b = E a)

theorem Inv.nil (E ER : Env) : Inv E ER [] [] := ⟨by intro n v h; simp at h, by intro a b h; simp at h⟩

theorem fresh_spec {n : String} {s : SEnv} {d : DEnv} (h : fresh n s d = true) :
    s.lookup n = none ∧ ∀ a b, (a, b) ∈ d → b ≠ n := by
  simp only [fresh, Bool.and_eq_true, Option.isNone_iff_eq_none, List.all_eq_true, bne_iff_ne] at h
  exact ⟨h.1, fun a b hab => h.2 (a, b) hab⟩

theorem Inv.bindStatic {E ER : Env} {s : SEnv} {d : DEnv} {n : String} (v : Int)
    (hf : fresh n s d = true) (h : Inv E ER s d) : Inv E (ER.set n v) ((n, v) :: s) d := by
  obtain ⟨hs, hd⟩ := fresh_spec hf
  constructor
  · intro m u hm
    simp only [List.lookup_cons] at hm
    by_cases e : m = n
    · subst e; simp at hm; simp [Env.set, hm]
    · have : (m == n) = false := by simpa using e
      rw [this] at hm
      simp only [Env.set, e, if_false]
      exact h.1 m u hm
  · intro a b hab
    have := hd a b hab
    simp only [Env.set, this, if_false]
    exact h.2 a b hab

theorem Inv.bindDyn {E ER : Env} {s : SEnv} {d : DEnv} {a b : String}
    (hf : fresh b s d = true) (h : Inv E ER s d) : Inv E (ER.set b (E a)) s ((a, b) :: d) := by
  obtain ⟨hs, hd⟩ := fresh_spec hf
  constructor
  · intro m u hm
    have : m ≠ b := by intro e; subst e; rw [hs] at hm; cases hm
    simp only [Env.set, this, if_false]
    exact h.1 m u hm
  · intro a' b' hab
    simp only [List.mem_cons, Prod.mk.injEq] at hab
    rcases hab with ⟨rfl, rfl⟩ | hab
    · simp [Env.set]
    · have := hd a' b' hab
      simp only [Env.set, this, if_false]
      exact h.2 a' b' hab

/-- forgetting knowledge keeps the invariant -/
theorem Inv.dropStatic {E ER : Env} {s : SEnv} {d : DEnv} {n : String} {v : Int}
    (hs : s.lookup n = none) (h : Inv E ER ((n, v) :: s) d) : Inv E ER s d := by
  constructor
  · intro m u hm
    apply h.1 m u
    simp only [List.lookup_cons]
    by_cases e : m = n
    · subst e; rw [hs] at hm; cases hm
    · have : (m == n) = false := by simpa using e
      rw [this]; exact hm
  · exact h.2

theorem Inv.dropDyn {E ER : Env} {s : SEnv} {d : DEnv} {p : String × String}
    (h : Inv E ER s (p :: d)) : Inv E ER s d :=
  ⟨h.1, fun a b hab => h.2 a b (List.mem_cons_of_mem _ hab)⟩

theorem condMatch_eval {E ER : Env} {s : SEnv} {d : DEnv} {cw cr : Cond}
    (hm : condMatch d cw cr = true) (h : Inv E ER s d) : cw.eval E = cr.eval ER := by
  simp only [condMatch, Bool.and_eq_true, beq_iff_eq, List.contains_iff_mem] at hm
  obtain ⟨⟨hop, hn⟩, hmem⟩ := hm
  have := h.2 _ _ hmem
  simp only [Cond.eval, Cond.test, hop, hn, this]

/-! ### the generic round trip -/

/-- what `agree_sound` promises for one pair of layouts, for all inputs -/
def Sound (vr : ValueRT) (w r : L) (s : SEnv) (d : DEnv) : Prop :=
  ∀ (E ER : Env) (pfx : String) (x : Rec) (rest : Bytes),
    Inv E ER s d → w.WF vr E pfx x →
    ∃ ER', r.read pfx ER (w.write E pfx x ++ rest) = some (w.expect E pfx x, ER', rest) ∧ Inv E ER' s d

theorem elems_sound (vr : ValueRT) (bw br : L) (s : SEnv) (d : DEnv) (hb : Sound vr bw br s d)
    (E : Env) (pfx name : String) (x : Rec) (rest : Bytes) :
    ∀ (n i : Nat) (ER : Env), Inv E ER s d →
      (∀ j, i ≤ j → j < i + n → bw.WF vr E (elemPfx pfx name j) x) →
      ∃ ER', readElems (fun q => br.read q) pfx name i n ER
          (writeElems (fun q => bw.write E q x) pfx name i n ++ rest)
        = some (expectElems (fun q => bw.expect E q x) pfx name i n, ER', rest) ∧ Inv E ER' s d := by
  intro n
  induction n with
  | zero => intro i ER hI _; exact ⟨ER, by simp [readElems, writeElems, expectElems], hI⟩
  | succ n ih =>
    intro i ER hI hwf
    simp only [readElems, writeElems, expectElems, List.append_assoc]
    obtain ⟨ER1, h1, hI1⟩ := hb E ER (elemPfx pfx name i) x
      (writeElems (fun q => bw.write E q x) pfx name (i+1) n ++ rest) hI (hwf i (Nat.le_refl _) (by omega))
    rw [h1]
    obtain ⟨ER2, h2, hI2⟩ := ih (i+1) ER1 hI1 (fun j hj1 hj2 => hwf j (by omega) (by omega))
    simp only []
    rw [h2]
    exact ⟨ER2, rfl, hI2⟩

/-- a reader-side version test whose local was bound to a writer constant is resolved statically -/
theorem static_ite (vr : ValueRT) {w t e rr : L} {c : Cond} {s : SEnv} {d : DEnv} {v : Int}
    (hl : s.lookup c.var = some v) (hna : (if c.test v then t else e).noAvail = true)
    (hs : Sound vr w ((if c.test v then t else e).append rr) s d) : Sound vr w (.ite c t e rr) s d := by
  intro E ER pfx x rest hI hwf
  obtain ⟨ER', h1, hI'⟩ := hs E ER pfx x rest hI hwf
  refine ⟨ER', ?_, hI'⟩
  rw [read_append _ _ hna] at h1
  have hc : c.eval ER = c.test v := by simp only [Cond.eval]; rw [hI.1 _ _ hl]
  simp only [L.read, hc]
  simp only [RDec.seq] at h1
  by_cases hv : c.test v = true
  · simp only [hv, if_true] at h1 ⊢; exact h1
  · have hv' : c.test v = false := by simpa using hv
    simp only [hv', Bool.false_eq_true, if_false] at h1 ⊢; exact h1

theorem nonEmptyHead_write {w : L} (h : nonEmptyHead w = true) (E : Env) (pfx : String) (x : Rec) (rest : Bytes) :
    (w.write E pfx x ++ rest).isEmpty = false := by
  cases w <;> simp only [nonEmptyHead] at h <;> try (exact absurd h (by decide))
  all_goals
    simp only [L.write]
    split <;> simp

theorem u8_cons (vr : ValueRT) (b : Nat) (r : Bytes) (h : b < 256) :
    Prim.decode .u8 (b :: r) = some (.int b, r) := by
  have := Prim.rt vr .u8 (.int b) r (by simp [Prim.wf]; omega)
  simpa [Prim.encode, beN, Nat.mod_eq_of_lt h] using this

theorem Inv.setFresh {E ER : Env} {s : SEnv} {d : DEnv} {n : String} (v : Int)
    (hf : fresh n s d = true) (h : Inv E ER s d) : Inv E (ER.set n v) s d :=
  (h.bindStatic v hf).dropStatic (fresh_spec hf).1

theorem encDecimal_zero_head (n : Int) (tl : Bytes) (h : encDecimal n = 0 :: tl) : n = 0 ∧ tl = [] := by
  have hh := encDecimal_head n
  rw [h] at hh
  simp only [List.headD_cons] at hh
  have : n = 0 := by
    unfold leastClass at hh
    by_cases h0 : n = 0
    · exact h0
    · simp only [h0, if_false] at hh
      repeat' split at hh
      all_goals omega
  subst this
  simp [encDecimal] at h
  exact ⟨rfl, h⟩

theorem agree_sound (vr : ValueRT) : ∀ (f : Nat) (w r : L) (s : SEnv) (d : DEnv),
    agree f w r s d = true → Sound vr w r s d := by
  intro f
  induction f with
  | zero => intro w r s d h; simp [agree] at h
  | succ f ih =>
    intro w r s d h
    -- the reader-side `ite` is examined first (as in `agree`)
    by_cases hr : ∃ c t e rest, r = .ite c t e rest
    · obtain ⟨c, t, e, rr, rfl⟩ := hr
      cases hl : s.lookup c.var with
      | some v =>
        have h' : ((if c.test v then t else e).noAvail && agree f w ((if c.test v then t else e).append rr) s d) = true := by
          cases w <;> simp only [agree, hl] at h <;> exact h
        simp only [Bool.and_eq_true] at h'
        exact static_ite vr hl h'.1 (ih _ _ _ _ h'.2)
      | none =>
        cases w with
        | ite cw tw ew rw' =>
          rw [agree.eq_2, hl] at h
          simp only [Bool.and_eq_true] at h
          obtain ⟨⟨⟨hcm, ht⟩, he⟩, hrest⟩ := h
          have st := ih _ _ _ _ ht
          have se := ih _ _ _ _ he
          have sr := ih _ _ _ _ hrest
          intro E ER pfx x rest hI hwf
          obtain ⟨hwf1, hwf2⟩ := hwf
          have hc := condMatch_eval hcm hI
          simp only [L.read, L.write, L.expect, List.append_assoc, ← hc]
          cases hcv : cw.eval E
          · simp only [hcv, Bool.false_eq_true, if_false] at hwf1 ⊢
            obtain ⟨ER1, h1, hI1⟩ := se E ER pfx x (rw'.write E pfx x ++ rest) hI hwf1
            rw [h1]
            obtain ⟨ER2, h2, hI2⟩ := sr E ER1 pfx x rest hI1 hwf2
            simp only []
            rw [h2]
            exact ⟨ER2, rfl, hI2⟩
          · simp only [hcv, if_true] at hwf1 ⊢
            obtain ⟨ER1, h1, hI1⟩ := st E ER pfx x (rw'.write E pfx x ++ rest) hI hwf1
            rw [h1]
            obtain ⟨ER2, h2, hI2⟩ := sr E ER1 pfx x rest hI1 hwf2
            simp only []
            rw [h2]
            exact ⟨ER2, rfl, hI2⟩
        | _ => simp [agree, hl] at h
    · -- the reader's head is not an `ite`
      by_cases hg : ∃ c rest, r = .guard c rest
      · obtain ⟨c, rr, rfl⟩ := hg
        have h2 : (match s.lookup c.var with
            | some v => !c.test v && agree f w rr s d
            | none => false) = true := by
          cases w <;> simpa only [agree] using h
        cases hl : s.lookup c.var with
        | none => rw [hl] at h2; cases h2
        | some v =>
          rw [hl] at h2
          simp only [Bool.and_eq_true, Bool.not_eq_true'] at h2
          have sr := ih _ _ _ _ h2.2
          intro E ER pfx x rest hI hwf
          obtain ⟨ER1, h1, hI1⟩ := sr E ER pfx x rest hI hwf
          have hc : c.eval ER = false := by simp only [Cond.eval]; rw [hI.1 _ _ hl]; exact h2.1
          refine ⟨ER1, ?_, hI1⟩
          simp only [L.read, hc, Bool.false_eq_true, if_false]
          exact h1
      by_cases ha : ∃ body, r = .avail body
      · obtain ⟨rb, rfl⟩ := ha
        have h2 : (nonEmptyHead w && agree f w rb s d) = true := by
          cases w <;> simpa only [agree] using h
        simp only [Bool.and_eq_true] at h2
        have sr := ih _ _ _ _ h2.2
        intro E ER pfx x rest hI hwf
        obtain ⟨ER1, h1, hI1⟩ := sr E ER pfx x rest hI hwf
        refine ⟨ER1, ?_, hI1⟩
        simp only [L.read, nonEmptyHead_write h2.1 E pfx x rest, Bool.false_eq_true, if_false]
        exact h1
      cases w <;> cases r <;> first
        | (exfalso; exact hr ⟨_, _, _, _, rfl⟩)
        | (exfalso; exact hg ⟨_, _, rfl⟩)
        | (exfalso; exact ha ⟨_, rfl⟩)
        | (exfalso; cases h; done)
        | skip
      case times.times n nm b w n' nm' b' r =>
        simp only [agree, Bool.and_eq_true, beq_iff_eq] at h
        obtain ⟨⟨⟨rfl, rfl⟩, hb⟩, hrest⟩ := h
        have sb := ih _ _ _ _ hb
        have sr := ih _ _ _ _ hrest
        intro E ER pfx x rest hI hwf
        obtain ⟨hwf1, hwf2⟩ := hwf
        simp only [L.read, L.write, L.expect, List.append_assoc]
        obtain ⟨ER1, h1, hI1⟩ := elems_sound vr b b' s d sb E pfx nm x (w.write E pfx x ++ rest)
          n 0 ER hI (fun j _ hj => hwf1 j (by omega))
        rw [h1]
        obtain ⟨ER2, h2, hI2⟩ := sr E ER1 pfx x rest hI1 hwf2
        simp only []
        rw [h2]
        exact ⟨ER2, rfl, hI2⟩
      case sub.sub nm b w nm' b' r =>
        simp only [agree, Bool.and_eq_true, beq_iff_eq] at h
        obtain ⟨⟨rfl, hb⟩, hrest⟩ := h
        have sb := ih _ _ _ _ hb
        have sr := ih _ _ _ _ hrest
        intro E ER pfx x rest hI hwf
        obtain ⟨hwf1, hwf2⟩ := hwf
        simp only [L.read, L.write, L.expect, List.append_assoc]
        obtain ⟨ER1, h1, hI1⟩ := sb E ER (pfx ++ nm ++ ".") x (w.write E pfx x ++ rest) hI hwf1
        rw [h1]
        obtain ⟨ER2, h2, hI2⟩ := sr E ER1 pfx x rest hI1 hwf2
        simp only []
        rw [h2]
        exact ⟨ER2, rfl, hI2⟩
      case kfld.key nm p k w nm' p' v r =>
        simp only [agree, Bool.and_eq_true, beq_iff_eq] at h
        obtain ⟨⟨⟨rfl, rfl⟩, hf⟩, hrest⟩ := h
        have sr := ih _ _ _ _ hrest
        intro E ER pfx x rest hI hwf
        obtain ⟨hp, hk, hwf2⟩ := hwf
        obtain ⟨ER1, h1, hI1⟩ := sr E (ER.set v k) pfx x rest (hI.bindStatic k hf) hwf2
        simp only [L.read, L.write, L.expect, List.append_assoc]
        rw [Prim.rt vr p _ _ hp]
        simp only [hk, Val.toInt]
        rw [h1]
        exact ⟨ER1, rfl, hI1.dropStatic (fresh_spec hf).1⟩
      case mopt.vopt m nm b w v nm' b' r =>
        simp only [agree, Bool.and_eq_true, beq_iff_eq, decide_eq_true_eq] at h
        obtain ⟨⟨⟨⟨rfl, hm⟩, hf⟩, hb⟩, hrest⟩ := h
        have sb := ih _ _ _ _ hb
        have sr := ih _ _ _ _ hrest
        intro E ER pfx x rest hI hwf
        obtain ⟨hwf1, hwf2⟩ := hwf
        simp only [L.read, L.write, L.expect, List.append_assoc]
        cases hp : present pfx nm x
        · simp only [Bool.false_eq_true, if_false, List.cons_append, List.nil_append]
          rw [u8_cons vr 0 _ (by omega)]
          obtain ⟨ER1, h1, hI1⟩ := sr E (ER.set v 0) pfx x rest (hI.setFresh 0 hf) hwf2
          simp only [Val.toInt, Int.natCast_zero, bne_self_eq_false, Bool.false_eq_true, if_false]
          rw [h1]
          exact ⟨ER1, rfl, hI1⟩
        · simp only [if_true, List.cons_append]
          rw [u8_cons vr m _ hm.2]
          obtain ⟨ER1, h1, hI1⟩ := sb E (ER.set v m) pfx x (w.write E pfx x ++ rest) (hI.bindStatic m hf) (hwf1 hp)
          obtain ⟨ER2, h2, hI2⟩ := sr E ER1 pfx x rest (hI1.dropStatic (fresh_spec hf).1) hwf2
          have em : (((m : Nat) : Int) != 0) = true := by simp; omega
          simp only [Val.toInt, em, if_true]
          rw [h1]
          simp only []
          rw [h2]
          exact ⟨ER2, rfl, hI2⟩
      case mrep.vrep m nm b w v nm' b' r =>
        simp only [agree, Bool.and_eq_true, beq_iff_eq, decide_eq_true_eq] at h
        obtain ⟨⟨⟨⟨rfl, hm⟩, hf⟩, hb⟩, hrest⟩ := h
        have sb := ih _ _ _ _ hb
        have sr := ih _ _ _ _ hrest
        intro E ER pfx x rest hI hwf
        obtain ⟨hz, hc, hwf1, hwf2⟩ := hwf
        simp only [L.read, L.write, L.expect, List.append_assoc]
        cases hp : present pfx nm x
        · simp only [Bool.false_eq_true, if_false, List.cons_append, List.nil_append]
          rw [u8_cons vr 0 _ (by omega)]
          obtain ⟨ER1, h1, hI1⟩ := sr E (ER.set v 0) pfx x rest (hI.setFresh 0 hf) hwf2
          simp only [Val.toInt, Int.natCast_zero, if_true]
          rw [h1, hz hp]
          exact ⟨ER1, by simp [expectElems], hI1⟩
        · simp only [if_true, List.cons_append, List.append_assoc]
          rw [u8_cons vr m _ hm.2]
          have em : ¬ (((m : Nat) : Int) = 0) := by omega
          have em8 : ¬ (((m : Nat) : Int) ≤ 8) := by omega
          simp only [Val.toInt, em, em8, if_false]
          rw [run_decDecimal _ _ hc]
          simp only [Int.toNat_natCast]
          obtain ⟨ER1, h1, hI1⟩ := elems_sound vr b b' ((v, (m : Int)) :: s) d sb E pfx nm x (w.write E pfx x ++ rest)
            (countOf pfx nm x) 0 (ER.set v m) (hI.bindStatic m hf) (fun j _ hj => hwf1 j (by omega))
          rw [h1]
          obtain ⟨ER2, h2, hI2⟩ := sr E ER1 pfx x rest (hI1.dropStatic (fresh_spec hf).1) hwf2
          simp only []
          rw [h2]
          exact ⟨ER2, rfl, hI2⟩
      case rep.vrep c nm b w v nm' b' r =>
        simp only [agree, Bool.and_eq_true, beq_iff_eq] at h
        obtain ⟨⟨⟨⟨rfl, rfl⟩, hf⟩, hb⟩, hrest⟩ := h
        have sb := ih _ _ _ _ hb
        have sr := ih _ _ _ _ hrest
        intro E ER pfx x rest hI hwf
        obtain ⟨hc, hwf1, hwf2⟩ := hwf
        simp only [Prim.wf] at hc
        simp only [L.read, L.write, L.expect, List.append_assoc, Prim.encode]
        obtain ⟨c, tl, he, hc8, hrun⟩ := encDecimal_split (countOf pfx nm x : Int)
          (writeElems (fun q => b.write E q x) pfx nm 0 (countOf pfx nm x) ++ (w.write E pfx x ++ rest)) hc
        rw [he, List.cons_append, u8_cons vr c _ (by omega)]
        simp only [Val.toInt]
        by_cases hc0 : c = 0
        · subst hc0
          obtain ⟨hn0, htl⟩ := encDecimal_zero_head _ _ he
          have hn : countOf pfx nm x = 0 := by omega
          subst htl
          simp only [Int.natCast_zero, if_true, List.nil_append, hn, writeElems, expectElems]
          obtain ⟨ER1, h1, hI1⟩ := sr E (ER.set v 0) pfx x rest (hI.setFresh 0 hf) hwf2
          rw [h1]
          exact ⟨ER1, by simp, hI1⟩
        · have e0 : ¬ ((c : Int) = 0) := by omega
          have e8 : ((c : Int) ≤ 8) := by omega
          simp only [e0, e8, if_true, if_false, Int.toNat_natCast]
          rw [hrun]
          simp only [Int.toNat_natCast]
          obtain ⟨ER1, h1, hI1⟩ := elems_sound vr b b' s d sb E pfx nm x (w.write E pfx x ++ rest)
            (countOf pfx nm x) 0 (ER.set v c) (hI.setFresh c hf) (fun j _ hj => hwf1 j (by omega))
          rw [h1]
          obtain ⟨ER2, h2, hI2⟩ := sr E ER1 pfx x rest hI1 hwf2
          simp only []
          rw [h2]
          exact ⟨ER2, rfl, hI2⟩
      case lit.srep p v w p' bb r =>
        simp only [agree, Bool.and_eq_true, beq_iff_eq] at h
        obtain ⟨⟨rfl, rfl⟩, hrest⟩ := h
        have sr := ih _ _ _ _ hrest
        intro E ER pfx x rest hI hwf
        obtain ⟨hp, hwf2⟩ := hwf
        obtain ⟨ER1, h1, hI1⟩ := sr E ER pfx x rest hI hwf2
        simp only [L.read, L.write, L.expect, List.append_assoc]
        rw [Prim.rt vr p _ _ hp]
        simp only [Val.toInt, Int.toNat_zero, readElems]
        exact ⟨ER1, h1, hI1⟩
      case nil.nil =>
        intro E ER pfx x rest hI _
        exact ⟨ER, by simp [L.read, L.write, L.expect], hI⟩
      case fld.fld n p g w n' p' g' r =>
        simp only [agree, Bool.and_eq_true, beq_iff_eq] at h
        obtain ⟨⟨⟨rfl, rfl⟩, rfl⟩, hrest⟩ := h
        have sr := ih _ _ _ _ hrest
        intro E ER pfx x rest hI hwf
        obtain ⟨hp, _, hwf2⟩ := hwf
        obtain ⟨ER1, h1, hI1⟩ := sr E ER pfx x rest hI hwf2
        simp only [L.read, L.write, L.expect, List.append_assoc]
        rw [Prim.rt vr p _ _ hp]
        simp only []
        rw [h1]
        exact ⟨ER1, rfl, hI1⟩
      case fld.skip n p g w q r =>
        cases q <;> cases r <;> first | (exfalso; cases h; done) | skip
        rename_i n' p' g' r'
        simp only [agree, Bool.and_eq_true, beq_iff_eq] at h
        obtain ⟨⟨rfl, hu⟩, hrest⟩ := h
        have sr := ih _ _ _ _ hrest
        intro E ER pfx x rest hI hwf
        obtain ⟨hp, _, hwf2⟩ := hwf
        obtain ⟨ER1, h1, hI1⟩ := sr E ER pfx x rest hI hwf2
        obtain ⟨t, tl, he, ht, hd⟩ := Prim.untag_rt vr p p' _ (w.write E pfx x ++ rest) hu hp
        simp only [L.read, L.write, L.expect, List.append_assoc]
        rw [he, List.cons_append]
        have hb : Prim.decode .u8 (t :: (tl ++ (w.write E pfx x ++ rest)))
            = some (.int t, tl ++ (w.write E pfx x ++ rest)) := by
          have := Prim.rt vr .u8 (.int t) (tl ++ (w.write E pfx x ++ rest)) (by simp [Prim.wf]; omega)
          simpa [Prim.encode, beN, Nat.mod_eq_of_lt ht] using this
        rw [hb]
        simp only []
        rw [hd]
        simp only []
        rw [h1]
        exact ⟨ER1, rfl, hI1⟩
      case lit.skip p v w p' r =>
        simp only [agree, Bool.and_eq_true, beq_iff_eq] at h
        obtain ⟨rfl, hrest⟩ := h
        have sr := ih _ _ _ _ hrest
        intro E ER pfx x rest hI hwf
        obtain ⟨hp, hwf2⟩ := hwf
        obtain ⟨ER1, h1, hI1⟩ := sr E ER pfx x rest hI hwf2
        simp only [L.read, L.write, L.expect, List.append_assoc]
        rw [Prim.rt vr p _ _ hp]
        simp only []
        exact ⟨ER1, h1, hI1⟩
      case lit.var p v w n p' r =>
        simp only [agree, Bool.and_eq_true, beq_iff_eq] at h
        obtain ⟨⟨rfl, hf⟩, hrest⟩ := h
        have sr := ih _ _ _ _ hrest
        intro E ER pfx x rest hI hwf
        obtain ⟨hp, hwf2⟩ := hwf
        obtain ⟨ER1, h1, hI1⟩ := sr E (ER.set n v) pfx x rest (hI.bindStatic v hf) hwf2
        simp only [L.read, L.write, L.expect, List.append_assoc]
        rw [Prim.rt vr p _ _ hp]
        simp only [Val.toInt]
        exact ⟨ER1, h1, hI1.dropStatic (fresh_spec hf).1⟩
      case var.var a p w b p' r =>
        simp only [agree, Bool.and_eq_true, beq_iff_eq] at h
        obtain ⟨⟨rfl, hf⟩, hrest⟩ := h
        have sr := ih _ _ _ _ hrest
        intro E ER pfx x rest hI hwf
        obtain ⟨hp, hwf2⟩ := hwf
        obtain ⟨ER1, h1, hI1⟩ := sr E (ER.set b (E a)) pfx x rest (hI.bindDyn hf) hwf2
        simp only [L.read, L.write, L.expect, List.append_assoc]
        rw [Prim.rt vr p _ _ hp]
        simp only [Val.toInt]
        exact ⟨ER1, h1, hI1.dropDyn⟩
      case opt.opt n b w n' b' r =>
        simp only [agree, Bool.and_eq_true, beq_iff_eq] at h
        obtain ⟨⟨rfl, hb⟩, hrest⟩ := h
        have sb := ih _ _ _ _ hb
        have sr := ih _ _ _ _ hrest
        intro E ER pfx x rest hI hwf
        obtain ⟨hwf1, hwf2⟩ := hwf
        simp only [L.read, L.write, L.expect, List.append_assoc]
        cases hp : present pfx n x
        · simp only [Bool.false_eq_true, if_false, List.cons_append, List.nil_append]
          have : Prim.decode .u8 (0 :: (w.write E pfx x ++ rest)) = some (.int 0, w.write E pfx x ++ rest) := by
            have := Prim.rt vr .u8 (.int 0) (w.write E pfx x ++ rest) (by simp [Prim.wf])
            simpa [Prim.encode, beN] using this
          rw [this]
          obtain ⟨ER1, h1, hI1⟩ := sr E ER pfx x rest hI hwf2
          simp only [Val.toInt, bne_self_eq_false, Bool.false_eq_true, if_false]
          rw [h1]
          exact ⟨ER1, rfl, hI1⟩
        · simp only [if_true, List.cons_append]
          have : Prim.decode .u8 (1 :: (b.write E pfx x ++ (w.write E pfx x ++ rest)))
              = some (.int 1, b.write E pfx x ++ (w.write E pfx x ++ rest)) := by
            have := Prim.rt vr .u8 (.int 1) (b.write E pfx x ++ (w.write E pfx x ++ rest)) (by simp [Prim.wf])
            simpa [Prim.encode, beN] using this
          rw [this]
          obtain ⟨ER1, h1, hI1⟩ := sb E ER pfx x (w.write E pfx x ++ rest) hI (hwf1 hp)
          obtain ⟨ER2, h2, hI2⟩ := sr E ER1 pfx x rest hI1 hwf2
          have e10 : ((1 : Int) != 0) = true := by decide
          simp only [Val.toInt, e10, if_true]
          rw [h1]
          simp only []
          rw [h2]
          exact ⟨ER2, rfl, hI2⟩
      case rep.rep c n b w c' n' b' r =>
        simp only [agree, Bool.and_eq_true, beq_iff_eq] at h
        obtain ⟨⟨⟨rfl, rfl⟩, hb⟩, hrest⟩ := h
        have sb := ih _ _ _ _ hb
        have sr := ih _ _ _ _ hrest
        intro E ER pfx x rest hI hwf
        obtain ⟨hc, hwf1, hwf2⟩ := hwf
        simp only [L.read, L.write, L.expect, List.append_assoc]
        rw [Prim.rt vr c _ _ hc]
        simp only [Val.toInt, Int.toNat_natCast]
        obtain ⟨ER1, h1, hI1⟩ := elems_sound vr b b' s d sb E pfx n x (w.write E pfx x ++ rest)
          (countOf pfx n x) 0 ER hI (fun j _ hj => hwf1 j (by omega))
        rw [h1]
        obtain ⟨ER2, h2, hI2⟩ := sr E ER1 pfx x rest hI1 hwf2
        simp only []
        rw [h2]
        exact ⟨ER2, rfl, hI2⟩
      case wrap.wrap b w b' r =>
        simp only [agree, Bool.and_eq_true] at h
        obtain ⟨hb, hrest⟩ := h
        have sb := ih _ _ _ _ hb
        have sr := ih _ _ _ _ hrest
        intro E ER pfx x rest hI hwf
        obtain ⟨hwf1, hlen, hwf2⟩ := hwf
        simp only [L.read, L.write, L.expect, List.append_assoc]
        rw [run_decBlob _ _ hlen]
        simp only []
        obtain ⟨ER1, h1, hI1⟩ := sb E ER pfx x [] hI hwf1
        rw [List.append_nil] at h1
        rw [h1]
        obtain ⟨ER2, h2, hI2⟩ := sr E ER1 pfx x rest hI1 hwf2
        simp only []
        rw [h2]
        exact ⟨ER2, rfl, hI2⟩
      case hdr.hdr w r =>
        simp only [agree] at h
        have sr := ih _ _ _ _ h
        intro E ER pfx x rest hI hwf
        obtain ⟨hh, hwf2⟩ := hwf
        simp only [L.read, L.write, L.expect, List.append_assoc]
        rw [header_roundtrip _ _ hh]
        simp only []
        obtain ⟨ER1, h1, hI1⟩ := sr E ER pfx x rest hI hwf2
        rw [h1]
        exact ⟨ER1, rfl, hI1⟩

/-- **the generic round trip**: layouts that agree round-trip every well-formed record -/
theorem agree_roundtrip (vr : ValueRT) (w r : L) (h : agrees w r = true)
    (E : Env) (pfx : String) (x : Rec) (rest : Bytes) (hwf : w.WF vr E pfx x) :
    ∃ ER', r.read pfx E (w.write E pfx x ++ rest) = some (w.expect E pfx x, ER', rest) := by
  obtain ⟨ER', h1, _⟩ := agree_sound vr _ w r [] [] h E E pfx x rest (Inv.nil E E) hwf
  exact ⟨ER', h1⟩

end Layout
