/-
  Golib.Layout.IR — the layout IR for pack bodies, with its writer and reader semantics.

  A `Write(*DataOutputX)` body and a `Read(*DataInputX)` body are each transcribed (by
  `xlate/c03`, separately) into a value of `L`:

    fld name p rng    out.WriteP(this.name)            this.name = in.ReadP()
    lit p v           out.WriteP(<constant v>)         (writer only)
    skip p                                             in.ReadP()  — result discarded (reader only)
    var name p        out.WriteP(<parameter name>)     name := in.ReadP()   (a local, not a field)
    guard c           if c { panic(..) }                                (reader only: the reader refuses)
    ite c t e rest    if c {t} else {e}; rest          (c over locals / parameters; `if c {return}`
                                                        is `ite c nil rest' nil`)
    opt name b rest   presence byte (0/1) then the section `b` when present
    rep cnt name b    count (primitive `cnt`) then `b` once per element of the slice/table `name`
    wrap b            `b` written to a sub-stream that travels as one blob
    times n name b    `b` exactly n times (`for i < CONST`), elements `name[i]`
    sub name b        a struct-valued field: `b` under the path prefix `name.`
    kfld / key        a field that selects what follows: the writer layout is given for one value `k`
                      of it (`kfld`, guard `x name = k`); the reader binds it to a local (`key`) and
                      dispatches on the local
    mopt m / vopt v   optional section whose presence byte is `m` (writer) and is bound to the
                      local `v` by the reader (`ver := in.ReadByte(); if ver > 0 {…}`)
    mrep m / vrep v   optional table: writer `0` when nil, else marker `m`, decimal count, rows;
                      reader: `ver := ReadByte()`, 0 = absent, `<= 8` = the byte is the length of the
                      decimal count (older layout), else a decimal count follows; `ver` is a local
    srep cnt b        reader: a counted loop whose rows are read and dropped
    avail b           reader: `if in.Available() == 0 { return }`, then `b`
    hdr               the common pack header (Golib.Layout.Header)
    unknown why       a shape the translator could not transcribe (never agrees with anything)

  Every item carries its continuation (`rest`), so `L` is a plain inductive type and plain
  structural induction works.  A record is a function from field *paths* to values; inside a
  `rep` the paths are `name[i].field`, an optional section's presence is the pseudo field
  `name?`, a table's size is `name#`.

    L.write  : writer semantics  (record → bytes)
    L.read   : reader semantics  (bytes → the fields assigned, in wire order)
    L.expect : what a correct reader must deliver for a record (the carried fields)
    L.WF     : the explicit guards the real code needs (ranges of the Go field types, lengths)
-/
import Golib.Prim.Codec
import Golib.Value.Model
import Golib.Layout.Header

namespace Layout
open _root_.Prim

/-- values of record fields -/
inductive Val where
  | int (v : Int)          -- every integer-like scalar; bools as 0/1; floats as IEEE-754 bit patterns
  | bytes (bs : Bytes)     -- string / []byte
  | ints (xs : List Int)   -- numeric arrays (floats as bit patterns)
  | strs (xs : List Bytes) -- []string
  | value (v : Value)      -- value.Value, *MapValue, *IntMapValue
deriving Repr

def Val.toInt : Val → Int
  | .int v => v
  | _ => 0

abbrev Rec := String → Val
abbrev Env := String → Int

def Env.set (e : Env) (n : String) (v : Int) : Env := fun m => if m = n then v else e m

/-- a raw decoder: consumes a prefix of the input -/
abbrev Dec (α : Type) := Bytes → Option (α × Bytes)

inductive Prim where
  | bool | u8 | i16 | i24 | i32 | i64 | f32 | f64 | dec | blob
  | aI16 | aI32 | aI64 | aF32 | aF64 | aText
  | value          -- value.WriteValue / value.ReadValue: type tag + body
  | mapV           -- the same for a field of static type *MapValue (tag 80 + body)
  | imapV          -- … of static type *IntMapValue (tag 81 + body)
  | mapBody        -- MapValue.Write / MapValue.Read: body without the tag
  | imapBody       -- IntMapValue.Write / .Read
  | u16            -- WriteShort(int16(x)) of a wider field, read back `& 0xffff`: the low 16 bits, unsigned
  | a8I16          -- one-byte count, then int16s (CounterPack1.writeShortArray; nil travels as empty)
  | b24            -- WriteInt3(len) + raw bytes (StatGeneralPack's cached table bytes)
  | anylist        -- a typed list of util/list behind its type byte: 1 int, 2 long (decimals),
                   --   3 float, 4 double (bit patterns), 5 string; 3-byte count
deriving DecidableEq, Repr

/-- range of the Go type of the field (the wire primitive may be wider, e.g. a decimal) -/
inductive Rng where
  | any | bool | u8 | i8 | i16 | i32 | i64
deriving DecidableEq, Repr

def Rng.ok : Rng → Int → Prop
  | .any, _ => True
  | .bool, v => v = 0 ∨ v = 1
  | .u8, v => 0 ≤ v ∧ v ≤ 255
  | .i8, v => inRange 1 v
  | .i16, v => inRange 2 v
  | .i32, v => inRange 4 v
  | .i64, v => inRange 8 v

/-- a list behind a signed `w`-byte count -/
def encList (w : Nat) (enc : α → Bytes) (xs : List α) : Bytes := encI w xs.length ++ encMany enc xs
/-- `count := int(in.ReadInt3()); for i := 0; i < count; i++ { add(read) }` — a negative count runs the
    loop zero times: an empty list (util/list *List.Read) -/
def decList (w : Nat) (dec : P α) : P (List α) :=
  P.bind (rdI w) (fun n => decMany dec n.toNat)

def encAnyList : Val → Bytes
  | .ints (1 :: xs) => 1 :: encList 3 encDecimal xs
  | .ints (2 :: xs) => 2 :: encList 3 encDecimal xs
  | .ints (3 :: xs) => 3 :: encList 3 (fun v : Int => beN 4 v.toNat) xs
  | .ints (4 :: xs) => 4 :: encList 3 (fun v : Int => beN 8 v.toNat) xs
  | .strs xs => 5 :: encList 3 encBlob xs
  | _ => []

/-- `StatGeneralPack.create(t)` then the list's `Read`: any type byte other than 1..4 is a string list -/
def decAnyList : P Val :=
  .read 1 (fun b =>
    match b.headD 0 with
    | 1 => P.map (fun xs => Val.ints (1 :: xs)) (decList 3 decDecimal)
    | 2 => P.map (fun xs => Val.ints (2 :: xs)) (decList 3 decDecimal)
    | 3 => P.map (fun xs => Val.ints (3 :: xs.map Int.ofNat)) (decList 3 (rdU 4))
    | 4 => P.map (fun xs => Val.ints (4 :: xs.map Int.ofNat)) (decList 3 (rdU 8))
    | _ => P.map Val.strs (decList 3 decBlob))

namespace Prim

def encode : Prim → Val → Bytes
  | .bool, .int v => encBool (v == 1)
  | .u8, .int v => beN 1 v.toNat
  | .i16, .int v => encI 2 v
  | .i24, .int v => encI 3 v
  | .i32, .int v => encI 4 v
  | .i64, .int v => encI 8 v
  | .f32, .int v => beN 4 v.toNat
  | .f64, .int v => beN 8 v.toNat
  | .dec, .int v => encDecimal v
  | .blob, .bytes bs => encBlob bs
  | .aI16, .ints xs => encArr (encI 2) xs
  | .aI32, .ints xs => encArr (encI 4) xs
  | .aI64, .ints xs => encArr (encI 8) xs
  | .aF32, .ints xs => encArr (fun v => beN 4 v.toNat) xs
  | .aF64, .ints xs => encArr (fun v => beN 8 v.toNat) xs
  | .aText, .strs xs => encArr encBlob xs
  | .value, .value v => Value.encV v
  | .mapV, .value v => Value.encV v
  | .imapV, .value v => Value.encV v
  | .mapBody, .value v => (Value.encV v).tail
  | .imapBody, .value v => (Value.encV v).tail
  | .u16, .int v => encI 2 v
  | .a8I16, .ints xs => beN 1 xs.length ++ encMany (encI 2) xs
  | .b24, .bytes bs => encI 3 bs.length ++ bs
  | .anylist, v => encAnyList v
  | _, _ => []

def ofP (p : P α) (f : α → Val) : Dec Val := fun bs => (P.run p bs).map (fun (a, r) => (f a, r))

def decode : Prim → Dec Val
  | .bool => ofP rdBool (fun b => .int (if b then 1 else 0))
  | .u8 => ofP (rdU 1) (fun n => .int n)
  | .i16 => ofP (rdI 2) .int
  | .i24 => ofP (rdI 3) .int
  | .i32 => ofP (rdI 4) .int
  | .i64 => ofP (rdI 8) .int
  | .f32 => ofP (rdU 4) (fun n => .int n)
  | .f64 => ofP (rdU 8) (fun n => .int n)
  | .dec => ofP decDecimal .int
  | .blob => ofP decBlob .bytes
  | .aI16 => ofP (decArr (rdI 2)) .ints
  | .aI32 => ofP (decArr (rdI 4)) .ints
  | .aI64 => ofP (decArr (rdI 8)) .ints
  | .aF32 => ofP (decArr (rdU 4)) (fun xs => .ints (xs.map Int.ofNat))
  | .aF64 => ofP (decArr (rdU 8)) (fun xs => .ints (xs.map Int.ofNat))
  | .aText => ofP (decArr decBlob) .strs
  | .value => fun bs => (Value.decode bs).map (fun (v, r) => (.value v, r))
  | .mapV => fun bs => (Value.decode bs).map (fun (v, r) => (.value v, r))
  | .imapV => fun bs => (Value.decode bs).map (fun (v, r) => (.value v, r))
  | .mapBody => fun bs => (Value.decode (80 :: bs)).map (fun (v, r) => (.value v, r))
  | .imapBody => fun bs => (Value.decode (81 :: bs)).map (fun (v, r) => (.value v, r))
  | .u16 => ofP (rdU 2) (fun n => .int n)
  | .a8I16 => ofP (P.bind (rdU 1) (fun n => decMany (rdI 2) n)) .ints
  | .b24 => ofP (P.bind (rdI 3) (fun n => if n < 0 then .fail else rdBytes n.toNat)) .bytes
  | .anylist => ofP decAnyList id

end Prim

/-- conditions over locals / parameters (version switches): `var op n` -/
inductive CmpOp where
  | le | lt | ge | gt | eq | ne
deriving DecidableEq, Repr

structure Cond where
  op : CmpOp
  var : String
  n : Int
deriving DecidableEq, Repr

def CmpOp.test : CmpOp → Int → Int → Bool
  | .le, x, n => decide (x ≤ n) | .lt, x, n => decide (x < n)
  | .ge, x, n => decide (x ≥ n) | .gt, x, n => decide (x > n)
  | .eq, x, n => decide (x = n) | .ne, x, n => decide (x ≠ n)

def Cond.test (c : Cond) (x : Int) : Bool := c.op.test x c.n

def Cond.eval (c : Cond) (e : Env) : Bool := c.test (e c.var)

inductive L where
  | nil
  | fld (name : String) (p : Prim) (rng : Rng) (rest : L)
  | lit (p : Prim) (v : Int) (rest : L)
  | skip (p : Prim) (rest : L)
  | var (name : String) (p : Prim) (rest : L)
  | ite (c : Cond) (t e : L) (rest : L)
  | guard (c : Cond) (rest : L)
  | opt (name : String) (body : L) (rest : L)
  | rep (cnt : Prim) (name : String) (body : L) (rest : L)
  | wrap (body : L) (rest : L)
  | hdr (rest : L)
  | times (n : Nat) (name : String) (body : L) (rest : L)
  | sub (name : String) (body : L) (rest : L)
  | kfld (name : String) (p : Prim) (k : Int) (rest : L)
  | key (name : String) (p : Prim) (v : String) (rest : L)
  | mopt (m : Nat) (name : String) (body : L) (rest : L)
  | vopt (v : String) (name : String) (body : L) (rest : L)
  | mrep (m : Nat) (name : String) (body : L) (rest : L)
  | vrep (v : String) (name : String) (body : L) (rest : L)
  | srep (cnt : Prim) (body : L) (rest : L)
  | avail (body : L)
  | unknown (why : String)
deriving DecidableEq, Repr

abbrev Out := List (String × Val)

def hdrOf (pfx : String) (x : Rec) : Hdr :=
  ⟨(x (pfx ++ "Pcode")).toInt, (x (pfx ++ "Oid")).toInt, (x (pfx ++ "Okind")).toInt,
   (x (pfx ++ "Onode")).toInt, (x (pfx ++ "Time")).toInt⟩

def hdrOut (pfx : String) (h : Hdr) : Out :=
  [(pfx ++ "Pcode", .int h.pcode), (pfx ++ "Oid", .int h.oid), (pfx ++ "Okind", .int h.okind),
   (pfx ++ "Onode", .int h.onode), (pfx ++ "Time", .int h.time)]

/-- path prefix of element `i` of the table `name` -/
def elemPfx (pfx name : String) (i : Nat) : String := pfx ++ name ++ "[" ++ toString i ++ "]."

/-- number of elements of the table `name` in record `x` -/
def countOf (pfx name : String) (x : Rec) : Nat := (x (pfx ++ name ++ "#")).toInt.toNat

def present (pfx name : String) (x : Rec) : Bool := (x (pfx ++ name ++ "?")).toInt != 0

/-- elements `i, i+1, …, i+n-1` written one after the other -/
def writeElems (f : String → Bytes) (pfx name : String) : Nat → Nat → Bytes
  | _, 0 => []
  | i, n+1 => f (elemPfx pfx name i) ++ writeElems f pfx name (i+1) n

def L.write : L → Env → String → Rec → Bytes
  | .nil, _, _, _ => []
  | .fld name p _ rest, e, pfx, x => p.encode (x (pfx ++ name)) ++ rest.write e pfx x
  | .lit p v rest, e, pfx, x => p.encode (.int v) ++ rest.write e pfx x
  | .skip _ rest, e, pfx, x => rest.write e pfx x            -- reader-only item: writes nothing
  | .var name p rest, e, pfx, x => p.encode (.int (e name)) ++ rest.write e pfx x
  | .ite c t el rest, e, pfx, x =>
      (if c.eval e then t.write e pfx x else el.write e pfx x) ++ rest.write e pfx x
  | .guard _ rest, e, pfx, x => rest.write e pfx x
  | .opt name body rest, e, pfx, x =>
      (if present pfx name x then 1 :: body.write e pfx x else [0]) ++ rest.write e pfx x
  | .rep cnt name body rest, e, pfx, x =>
      cnt.encode (.int (countOf pfx name x)) ++
        (writeElems (fun q => body.write e q x) pfx name 0 (countOf pfx name x) ++ rest.write e pfx x)
  | .wrap body rest, e, pfx, x => encBlob (body.write e pfx x) ++ rest.write e pfx x
  | .hdr rest, e, pfx, x => encHeader (hdrOf pfx x) ++ rest.write e pfx x
  | .times n name body rest, e, pfx, x =>
      writeElems (fun q => body.write e q x) pfx name 0 n ++ rest.write e pfx x
  | .sub name body rest, e, pfx, x => body.write e (pfx ++ name ++ ".") x ++ rest.write e pfx x
  | .kfld name p _ rest, e, pfx, x => p.encode (x (pfx ++ name)) ++ rest.write e pfx x
  | .key name p _ rest, e, pfx, x => p.encode (x (pfx ++ name)) ++ rest.write e pfx x
  | .mopt m name body rest, e, pfx, x =>
      (if present pfx name x then m :: body.write e pfx x else [0]) ++ rest.write e pfx x
  | .vopt _ name body rest, e, pfx, x =>
      (if present pfx name x then 1 :: body.write e pfx x else [0]) ++ rest.write e pfx x
  | .mrep m name body rest, e, pfx, x =>
      (if present pfx name x then
        m :: (encDecimal (countOf pfx name x) ++ writeElems (fun q => body.write e q x) pfx name 0 (countOf pfx name x))
       else [0]) ++ rest.write e pfx x
  | .vrep _ name body rest, e, pfx, x =>
      encDecimal (countOf pfx name x) ++
        (writeElems (fun q => body.write e q x) pfx name 0 (countOf pfx name x) ++ rest.write e pfx x)
  | .srep cnt _ rest, e, pfx, x => cnt.encode (.int 0) ++ rest.write e pfx x
  | .avail body, e, pfx, x => body.write e pfx x
  | .unknown _, _, _, _ => []

/-- what the reader must deliver: the carried fields in wire order -/
def expectElems (f : String → Out) (pfx name : String) : Nat → Nat → Out
  | _, 0 => []
  | i, n+1 => f (elemPfx pfx name i) ++ expectElems f pfx name (i+1) n

def L.expect : L → Env → String → Rec → Out
  | .nil, _, _, _ => []
  | .fld name _ _ rest, e, pfx, x => (pfx ++ name, x (pfx ++ name)) :: rest.expect e pfx x
  | .lit _ _ rest, e, pfx, x => rest.expect e pfx x
  | .skip _ rest, e, pfx, x => rest.expect e pfx x
  | .var _ _ rest, e, pfx, x => rest.expect e pfx x
  | .ite c t el rest, e, pfx, x =>
      (if c.eval e then t.expect e pfx x else el.expect e pfx x) ++ rest.expect e pfx x
  | .guard _ rest, e, pfx, x => rest.expect e pfx x
  | .opt name body rest, e, pfx, x =>
      (if present pfx name x then (pfx ++ name ++ "?", Val.int 1) :: body.expect e pfx x
       else [(pfx ++ name ++ "?", Val.int 0)]) ++ rest.expect e pfx x
  | .rep _ name body rest, e, pfx, x =>
      (pfx ++ name ++ "#", Val.int (countOf pfx name x)) ::
        (expectElems (fun q => body.expect e q x) pfx name 0 (countOf pfx name x) ++ rest.expect e pfx x)
  | .wrap body rest, e, pfx, x => body.expect e pfx x ++ rest.expect e pfx x
  | .hdr rest, e, pfx, x => hdrOut pfx (hdrOf pfx x) ++ rest.expect e pfx x
  | .times n name body rest, e, pfx, x =>
      expectElems (fun q => body.expect e q x) pfx name 0 n ++ rest.expect e pfx x
  | .sub name body rest, e, pfx, x => body.expect e (pfx ++ name ++ ".") x ++ rest.expect e pfx x
  | .kfld name _ _ rest, e, pfx, x => (pfx ++ name, x (pfx ++ name)) :: rest.expect e pfx x
  | .key name _ _ rest, e, pfx, x => (pfx ++ name, x (pfx ++ name)) :: rest.expect e pfx x
  | .mopt _ name body rest, e, pfx, x =>
      (if present pfx name x then (pfx ++ name ++ "?", Val.int 1) :: body.expect e pfx x
       else [(pfx ++ name ++ "?", Val.int 0)]) ++ rest.expect e pfx x
  | .vopt _ name body rest, e, pfx, x =>
      (if present pfx name x then (pfx ++ name ++ "?", Val.int 1) :: body.expect e pfx x
       else [(pfx ++ name ++ "?", Val.int 0)]) ++ rest.expect e pfx x
  | .mrep _ name body rest, e, pfx, x =>
      (pfx ++ name ++ "#", Val.int (countOf pfx name x)) ::
        (expectElems (fun q => body.expect e q x) pfx name 0 (countOf pfx name x) ++ rest.expect e pfx x)
  | .vrep _ name body rest, e, pfx, x =>
      (pfx ++ name ++ "#", Val.int (countOf pfx name x)) ::
        (expectElems (fun q => body.expect e q x) pfx name 0 (countOf pfx name x) ++ rest.expect e pfx x)
  | .srep _ _ rest, e, pfx, x => rest.expect e pfx x
  | .avail body, e, pfx, x => body.expect e pfx x
  | .unknown _, _, _, _ => []

/-- the reader threads its environment of locals; result: fields assigned, final env, rest -/
abbrev RDec := Env → Bytes → Option (Out × Env × Bytes)

def readElems (f : String → RDec) (pfx name : String) : Nat → Nat → RDec
  | _, 0 => fun e bs => some ([], e, bs)
  | i, n+1 => fun e bs =>
    match f (elemPfx pfx name i) e bs with
    | none => none
    | some (o1, e1, r1) =>
      match readElems f pfx name (i+1) n e1 r1 with
      | none => none
      | some (o2, e2, r2) => some (o1 ++ o2, e2, r2)

def L.read : L → String → RDec
  | .nil, _ => fun e bs => some ([], e, bs)
  | .fld name p _ rest, pfx => fun e bs =>
    match p.decode bs with
    | none => none
    | some (v, r) =>
      match rest.read pfx e r with
      | none => none
      | some (o, e', r') => some ((pfx ++ name, v) :: o, e', r')
  | .lit _ _ rest, pfx => rest.read pfx                       -- writer-only item: reads nothing
  | .skip p rest, pfx => fun e bs =>
    match p.decode bs with
    | none => none
    | some (_, r) => rest.read pfx e r
  | .var name p rest, pfx => fun e bs =>
    match p.decode bs with
    | none => none
    | some (v, r) => rest.read pfx (e.set name v.toInt) r
  | .ite c t el rest, pfx => fun e bs =>
    match (if c.eval e then t.read pfx e bs else el.read pfx e bs) with
    | none => none
    | some (o1, e1, r1) =>
      match rest.read pfx e1 r1 with
      | none => none
      | some (o2, e2, r2) => some (o1 ++ o2, e2, r2)
  | .guard c rest, pfx => fun e bs => if c.eval e then none else rest.read pfx e bs
  | .opt name body rest, pfx => fun e bs =>
    match Prim.decode .u8 bs with
    | none => none
    | some (flag, r) =>
      if flag.toInt != 0 then
        match body.read pfx e r with
        | none => none
        | some (o1, e1, r1) =>
          match rest.read pfx e1 r1 with
          | none => none
          | some (o2, e2, r2) => some ((pfx ++ name ++ "?", Val.int 1) :: (o1 ++ o2), e2, r2)
      else
        match rest.read pfx e r with
        | none => none
        | some (o2, e2, r2) => some ((pfx ++ name ++ "?", Val.int 0) :: o2, e2, r2)
  | .rep cnt name body rest, pfx => fun e bs =>
    match cnt.decode bs with
    | none => none
    | some (n, r) =>
      match readElems (fun q => body.read q) pfx name 0 n.toInt.toNat e r with
      | none => none
      | some (o1, e1, r1) =>
        match rest.read pfx e1 r1 with
        | none => none
        | some (o2, e2, r2) => some ((pfx ++ name ++ "#", Val.int n.toInt.toNat) :: (o1 ++ o2), e2, r2)
  | .wrap body rest, pfx => fun e bs =>
    match P.run decBlob bs with
    | none => none
    | some (inner, r) =>
      match body.read pfx e inner with       -- a sub-stream: what it leaves unread is dropped
      | none => none
      | some (o1, e1, _) =>
        match rest.read pfx e1 r with
        | none => none
        | some (o2, e2, r2) => some (o1 ++ o2, e2, r2)
  | .hdr rest, pfx => fun e bs =>
    match P.run decHeader bs with
    | none => none
    | some (h, r) =>
      match rest.read pfx e r with
      | none => none
      | some (o, e', r') => some (hdrOut pfx h ++ o, e', r')
  | .times n name body rest, pfx => fun e bs =>
    match readElems (fun q => body.read q) pfx name 0 n e bs with
    | none => none
    | some (o1, e1, r1) =>
      match rest.read pfx e1 r1 with
      | none => none
      | some (o2, e2, r2) => some (o1 ++ o2, e2, r2)
  | .sub name body rest, pfx => fun e bs =>
    match body.read (pfx ++ name ++ ".") e bs with
    | none => none
    | some (o1, e1, r1) =>
      match rest.read pfx e1 r1 with
      | none => none
      | some (o2, e2, r2) => some (o1 ++ o2, e2, r2)
  | .kfld name p _ rest, pfx => fun e bs =>
    match p.decode bs with
    | none => none
    | some (v, r) =>
      match rest.read pfx e r with
      | none => none
      | some (o, e', r') => some ((pfx ++ name, v) :: o, e', r')
  | .key name p vn rest, pfx => fun e bs =>
    match p.decode bs with
    | none => none
    | some (v, r) =>
      match rest.read pfx (e.set vn v.toInt) r with
      | none => none
      | some (o, e', r') => some ((pfx ++ name, v) :: o, e', r')
  | .mopt _ name body rest, pfx => fun e bs =>
    match Prim.decode .u8 bs with
    | none => none
    | some (flag, r) =>
      if flag.toInt != 0 then
        match body.read pfx e r with
        | none => none
        | some (o1, e1, r1) =>
          match rest.read pfx e1 r1 with
          | none => none
          | some (o2, e2, r2) => some ((pfx ++ name ++ "?", Val.int 1) :: (o1 ++ o2), e2, r2)
      else
        match rest.read pfx e r with
        | none => none
        | some (o2, e2, r2) => some ((pfx ++ name ++ "?", Val.int 0) :: o2, e2, r2)
  | .vopt vn name body rest, pfx => fun e bs =>
    match Prim.decode .u8 bs with
    | none => none
    | some (flag, r) =>
      if flag.toInt != 0 then
        match body.read pfx (e.set vn flag.toInt) r with
        | none => none
        | some (o1, e1, r1) =>
          match rest.read pfx e1 r1 with
          | none => none
          | some (o2, e2, r2) => some ((pfx ++ name ++ "?", Val.int 1) :: (o1 ++ o2), e2, r2)
      else
        match rest.read pfx (e.set vn 0) r with
        | none => none
        | some (o2, e2, r2) => some ((pfx ++ name ++ "?", Val.int 0) :: o2, e2, r2)
  | .mrep _ name body rest, pfx => fun e bs =>
    match Prim.decode .u8 bs with
    | none => none
    | some (b, r) =>
      let ver := b.toInt
      if ver = 0 then
        match rest.read pfx (e.set "" 0) r with
        | none => none
        | some (o2, e2, r2) => some ((pfx ++ name ++ "#", Val.int 0) :: o2, e2, r2)
      else
        match (if ver ≤ 8 then P.run (decDecimalLen ver.toNat) r else P.run decDecimal r) with
        | none => none
        | some (n, r0) =>
          match readElems (fun q => body.read q) pfx name 0 n.toNat (e.set "" ver) r0 with
          | none => none
          | some (o1, e1, r1) =>
            match rest.read pfx e1 r1 with
            | none => none
            | some (o2, e2, r2) => some ((pfx ++ name ++ "#", Val.int n.toNat) :: (o1 ++ o2), e2, r2)
  | .vrep vn name body rest, pfx => fun e bs =>
    match Prim.decode .u8 bs with
    | none => none
    | some (b, r) =>
      let ver := b.toInt
      if ver = 0 then
        match rest.read pfx (e.set vn 0) r with
        | none => none
        | some (o2, e2, r2) => some ((pfx ++ name ++ "#", Val.int 0) :: o2, e2, r2)
      else
        match (if ver ≤ 8 then P.run (decDecimalLen ver.toNat) r else P.run decDecimal r) with
        | none => none
        | some (n, r0) =>
          match readElems (fun q => body.read q) pfx name 0 n.toNat (e.set vn ver) r0 with
          | none => none
          | some (o1, e1, r1) =>
            match rest.read pfx e1 r1 with
            | none => none
            | some (o2, e2, r2) => some ((pfx ++ name ++ "#", Val.int n.toNat) :: (o1 ++ o2), e2, r2)
  | .srep cnt body rest, pfx => fun e bs =>
    match cnt.decode bs with
    | none => none
    | some (n, r) =>
      match readElems (fun q => body.read q) pfx "" 0 n.toInt.toNat e r with
      | none => none
      | some (_, e1, r1) => rest.read pfx e1 r1
  | .avail body, pfx => fun e bs => if bs.isEmpty then some ([], e, []) else body.read pfx e bs
  | .unknown _, _ => fun _ _ => none

/-- concatenation of layouts (used when a reader-side version test is resolved statically) -/
def L.append : L → L → L
  | .nil, b => b
  | .fld n p g rest, b => .fld n p g (rest.append b)
  | .lit p v rest, b => .lit p v (rest.append b)
  | .skip p rest, b => .skip p (rest.append b)
  | .var n p rest, b => .var n p (rest.append b)
  | .ite c t e rest, b => .ite c t e (rest.append b)
  | .guard c rest, b => .guard c (rest.append b)
  | .opt n body rest, b => .opt n body (rest.append b)
  | .rep c n body rest, b => .rep c n body (rest.append b)
  | .wrap body rest, b => .wrap body (rest.append b)
  | .hdr rest, b => .hdr (rest.append b)
  | .times n nm body rest, b => .times n nm body (rest.append b)
  | .sub nm body rest, b => .sub nm body (rest.append b)
  | .kfld nm p k rest, b => .kfld nm p k (rest.append b)
  | .key nm p v rest, b => .key nm p v (rest.append b)
  | .mopt m nm body rest, b => .mopt m nm body (rest.append b)
  | .vopt v nm body rest, b => .vopt v nm body (rest.append b)
  | .mrep m nm body rest, b => .mrep m nm body (rest.append b)
  | .vrep v nm body rest, b => .vrep v nm body (rest.append b)
  | .srep c body rest, b => .srep c body (rest.append b)
  | .avail body, b => .avail (body.append b)
  | .unknown w, _ => .unknown w

def L.size : L → Nat
  | .nil => 1
  | .fld _ _ _ rest => 1 + rest.size
  | .lit _ _ rest => 1 + rest.size
  | .skip _ rest => 1 + rest.size
  | .var _ _ rest => 1 + rest.size
  | .ite _ t e rest => 1 + t.size + e.size + rest.size
  | .guard _ rest => 1 + rest.size
  | .opt _ body rest => 1 + body.size + rest.size
  | .rep _ _ body rest => 1 + body.size + rest.size
  | .wrap body rest => 1 + body.size + rest.size
  | .hdr rest => 1 + rest.size
  | .times _ _ body rest => 1 + body.size + rest.size
  | .sub _ body rest => 1 + body.size + rest.size
  | .kfld _ _ _ rest => 1 + rest.size
  | .key _ _ _ rest => 1 + rest.size
  | .mopt _ _ body rest => 1 + body.size + rest.size
  | .vopt _ _ body rest => 1 + body.size + rest.size
  | .mrep _ _ body rest => 1 + body.size + rest.size
  | .vrep _ _ body rest => 1 + body.size + rest.size
  | .srep _ body rest => 1 + body.size + rest.size
  | .avail body => 1 + body.size
  | .unknown _ => 1

/-- no `avail` at the top level of the sequence (so that appending to it keeps its meaning) -/
def L.noAvail : L → Bool
  | .nil => true
  | .fld _ _ _ rest => rest.noAvail
  | .lit _ _ rest => rest.noAvail
  | .skip _ rest => rest.noAvail
  | .var _ _ rest => rest.noAvail
  | .ite _ t e rest => t.noAvail && e.noAvail && rest.noAvail
  | .guard _ rest => rest.noAvail
  | .opt _ _ rest => rest.noAvail
  | .rep _ _ _ rest => rest.noAvail
  | .wrap _ rest => rest.noAvail
  | .hdr rest => rest.noAvail
  | .times _ _ _ rest => rest.noAvail
  | .sub _ _ rest => rest.noAvail
  | .kfld _ _ _ rest => rest.noAvail
  | .key _ _ _ rest => rest.noAvail
  | .mopt _ _ _ rest => rest.noAvail
  | .vopt _ _ _ rest => rest.noAvail
  | .mrep _ _ _ rest => rest.noAvail
  | .vrep _ _ _ rest => rest.noAvail
  | .srep _ _ rest => rest.noAvail
  | .avail _ => false
  | .unknown _ => true

end Layout
