/-
  Golib.Cal.LoopIR — semantics of the transcribed rune loops of DateFormat.format / DateFormat.Parse
  (data types in Golib.Cal.PadIR, produced by xlate/c19) and the general lemmas that tie them to the
  CodeModel (`format`, `parseLoopZ`, `PStateZ.fill`).

  The semantics follows Go: the body statements run in order for every rune of the pattern; a `switch ch`
  runs the clause whose constant equals the rune, else the default clause; `break` leaves the loop, the
  error return of a field clause leaves the function.  `.other` (anything the translator does not know:
  a toggled flag, a `continue`, an extra test before the switch) has no meaning ⇒ `none`, so no
  statement about such a body can be proved.
-/
import Golib.Cal.PadIR
import Golib.Cal.DateFormatObj

namespace Cal

/-- the clause of `switch ch` that runs for rune `c` -/
def runeCase {α : Type} (cases : List (Nat × α)) (dflt : α) (c : Char) : α :=
  match cases.find? (fun p => p.1 == c.toNat) with
  | some p => p.2
  | none => dflt

/-- a rune other than `k` has another code point (used to walk through the clauses of a transcribed switch) -/
theorem toNat_beq_of_ne (c k : Char) (h : c ≠ k) : (k.toNat == c.toNat) = false := by
  simp only [beq_eq_false_iff_ne, ne_eq]
  intro e
  exact h (Char.toNat_inj.mp e).symm

/-- `int((t.UnixNano() / 10⁶) % 1000)` is the millisecond field: for an instant of `ms` milliseconds and
    `r < 10⁶` further nanoseconds -/
theorem nano_div_mod (ms r : Nat) (h : r < 1000000) : (ms * 1000000 + r) / 1000000 % 1000 = ms % 1000 := by omega

def TimeSel.eval : TimeSel → Fields → Option Nat
  | .year, f => some f.y
  | .month, f => some f.m
  | .day, f => some f.d
  | .hour, f => some f.H
  | .minute, f => some f.M
  | .second, f => some f.S
  | .nanoDivMod d m, f => if d = 1000000 ∧ m = 1000 then some f.s else none
  | .other, _ => none

def FmtAct.eval : FmtAct → Fields → Char → Option (List Char)
  | .writePad sel w, f, _ => (sel.eval f).map (pad0 w)
  | .writeRune, _, c => some [c]
  | .nop, _, _ => some []
  | .other, _, _ => none

/-- what the loop body appends to the buffer for one rune -/
def evalFmtBody : List FmtStmt → Fields → Char → Option (List Char)
  | [], _, _ => some []
  | .switchCh cases dflt :: r, f, c =>
    ((runeCase cases dflt c).eval f c).bind fun x => (evalFmtBody r f c).map (x ++ ·)
  | .other :: _, _, _ => none

/-- `for _, ch := range this.formatStr { body }` -/
def evalFormatLoop (body : List FmtStmt) : List Char → Fields → Option (List Char)
  | [], _ => some []
  | c :: r, f => (evalFmtBody body f c).bind fun x => (evalFormatLoop body r f).map (x ++ ·)

/-- if the body renders every rune as the model does, the loop is the model's `format` -/
theorem evalFormatLoop_eq (body : List FmtStmt)
    (h : ∀ f c, evalFmtBody body f c = some (fmtRune f c)) (pat : List Char) (f : Fields) :
    evalFormatLoop body pat f = some (format pat f) := by
  induction pat with
  | nil => rfl
  | cons c r ih => simp [evalFormatLoop, h, ih, format, List.flatMap_cons]

/-! #### Parse -/

inductive StepRes where
  | cont (inp : List Char) (p : PStateZ)
  | brk (p : PStateZ)
  | err (p : PStateZ)
  | stuck

def ParseAct.eval : ParseAct → Char → List Char → PStateZ → StepRes
  | .toIntStore w, c, inp, p =>
    match toIntZ inp w with
    | some (v, rest) => .cont rest (p.set c v)
    | none => .err p
  | .readRune, _, inp, p => .cont (inp.drop 1) p
  | .nop, _, inp, p => .cont inp p
  | .other, _, _, _ => .stuck

/-- one pass of the loop body for rune `c` at index `i` -/
def evalParseBody : List ParseStmt → (sz i : Nat) → Char → List Char → PStateZ → StepRes
  | [], _, _, _, inp, p => .cont inp p
  | .breakIfIdxGeSz :: r, sz, i, c, inp, p => if i ≥ sz then .brk p else evalParseBody r sz i c inp p
  | .switchCh cases dflt :: r, sz, i, c, inp, p =>
    match (runeCase cases dflt c).eval c inp p with
    | .cont inp' p' => evalParseBody r sz i c inp' p'
    | x => x
  | .other :: _, _, _, _, _, _ => .stuck

/-- `for i, ch := range this.formatStr { body }`; the Bool is `false` when Parse returned an error -/
def evalParseLoop (body : List ParseStmt) (sz : Nat) : List Char → Nat → List Char → PStateZ → Option (PStateZ × Bool)
  | [], _, _, p => some (p, true)
  | c :: pat, i, inp, p =>
    match evalParseBody body sz i c inp p with
    | .cont inp' p' => evalParseLoop body sz pat (i + 1) inp' p'
    | .brk p' => some (p', true)
    | .err p' => some (p', false)
    | .stuck => none

/-- one step of the model's loop, in the vocabulary of `StepRes` -/
def modelStep (sz i : Nat) (c : Char) (inp : List Char) (p : PStateZ) : StepRes :=
  if i ≥ sz then .brk p else
  match letterWidth c with
  | some w =>
    match toIntZ inp w with
    | some (v, rest) => .cont rest (p.set c v)
    | none => .err p
  | none => .cont (inp.drop 1) p

theorem evalParseLoop_eq (body : List ParseStmt) (sz : Nat)
    (h : ∀ i c inp p, evalParseBody body sz i c inp p = modelStep sz i c inp p)
    (pat : List Char) (i : Nat) (inp : List Char) (p : PStateZ) :
    evalParseLoop body sz pat i inp p = some (parseLoopZ sz pat i inp p) := by
  induction pat generalizing i inp p with
  | nil => rfl
  | cons c r ih =>
    simp only [evalParseLoop, h, modelStep, parseLoopZ]
    by_cases hi : i ≥ sz
    · simp [hi]
    · simp only [hi, if_false]
      cases hw : letterWidth c with
      | none => simp [ih]
      | some w =>
        cases ht : toIntZ inp w with
        | none => simp [ht]
        | some vr => obtain ⟨v, rest⟩ := vr; simp [ht, ih]

/-! #### the seven fill statements of Parse: `if _, ok := this.date[K]; !ok { this.date[K] = now.X() }` -/

def evalFills : List (Nat × TimeSel) → PStateZ → Fields → Option PStateZ
  | [], p, _ => some p
  | (k, sel) :: r, p, now =>
    match sel.eval now with
    | some v =>
      let c := Char.ofNat k
      if letterWidth c = none then none
      else evalFills r (if (p.getc c).isSome then p else p.set c (v : Int)) now
    | none => none

end Cal
