/-
  Golib.Cal.TableStruct — structural proof about the algorithm of DateTimeHelper.open():
  for ANY number of years, the three nested loops (month lengths from `mdayLen`, leap rule
  `isYun` applied to the offset from 2000, weekday index stepping modulo 7 from Saturday,
  `mtime` stepping by one day) produce, in order, exactly the days of the proleptic Gregorian
  calendar starting at 2000-01-01.  No evaluation over days or years: induction over the loops,
  the calendar bijection of Golib.Cal.CivilInverse, and `omega`.
  (The per-year kernel evaluation of Golib.Cal.TableChunk* stays as an independent cross-check.)
-/
import Golib.Cal.Table
import Golib.Cal.CivilInverse

namespace Cal

/-- the entry for absolute day number `z` (days since 1970-01-01) -/
def absDay (z : Nat) : Day :=
  ⟨(civil z).y, (civil z).m, (civil z).d, weekdayMon z, (z : Int) * MILLIS_PER_DAY⟩

/-- loop state when the next day to be written is day `z` -/
def stAbs (z : Nat) : St := ⟨weekdayMon z, (z : Int) * MILLIS_PER_DAY⟩

theorem next_mk (w : Nat) (t : Int) :
    (St.mk w t).next = ⟨if w = 6 then 0 else w + 1, t + MILLIS_PER_DAY⟩ := rfl

theorem wd_step (z : Nat) : (if weekdayMon z = 6 then 0 else weekdayMon z + 1) = weekdayMon (z + 1) := by
  unfold weekdayMon
  split <;> omega

theorem stAbs_next (z : Nat) : (stAbs z).next = stAbs (z + 1) := by
  have : ((z : Int) * MILLIS_PER_DAY + MILLIS_PER_DAY) = ((z + 1 : Nat) : Int) * MILLIS_PER_DAY := by
    simp only [MILLIS_PER_DAY]; omega
  rw [stAbs, next_mk, wd_step, stAbs, this]

theorem specDay_abs (i : Nat) : specDay i = absDay (BASE_DAY + i) := by
  simp only [specDay, absDay, BASE_TIME, BASE_DAY, MILLIS_PER_DAY, Day.mk.injEq, true_and]
  omega

/-! ### arithmetic of `daysFromCivil` along the calendar -/

/-- days before 1 March of the March-based year `y'` (plus the epoch offset): at least that of 1969 -/
theorem dby_ge (y' : Nat) (h : 1969 ≤ y') :
    719162 ≤ y' / 400 * 146097 + (y' % 400 * 365 + y' % 400 / 4 - y' % 400 / 100) := by
  have : y' / 400 = 4 ∨ 5 ≤ y' / 400 := by omega
  rcases this with e | e
  · have h1 : y' % 400 / 100 = 3 := by omega
    have h2 : 92 ≤ y' % 400 / 4 := by omega
    omega
  · omega

theorem dfc_unfold (y m d : Nat) (hy : 1970 ≤ y) (hm1 : 1 ≤ m) (hd : 1 ≤ d) :
    daysFromCivil y m d + 719469 =
      (if m ≤ 2 then y - 1 else y) / 400 * 146097 +
      ((if m ≤ 2 then y - 1 else y) % 400 * 365 + (if m ≤ 2 then y - 1 else y) % 400 / 4 -
        (if m ≤ 2 then y - 1 else y) % 400 / 100) +
      (153 * (if m > 2 then m - 3 else m + 9) + 2) / 5 + d := by
  have hb := dby_ge (if m ≤ 2 then y - 1 else y) (by split <;> omega)
  have hmp : m ≤ 2 → 306 ≤ (153 * (if m > 2 then m - 3 else m + 9) + 2) / 5 := by
    intro h; rw [if_neg (by omega)]; omega
  have hy2 : ¬ m ≤ 2 → 719162 + 365 ≤ (if m ≤ 2 then y - 1 else y) / 400 * 146097 +
      ((if m ≤ 2 then y - 1 else y) % 400 * 365 + (if m ≤ 2 then y - 1 else y) % 400 / 4 -
        (if m ≤ 2 then y - 1 else y) % 400 / 100) := by
    intro h; rw [if_neg h]
    have : y / 400 = 4 ∨ 5 ≤ y / 400 := by omega
    rcases this with e | e
    · have h1 : y % 400 / 100 = 3 := by omega
      have h2 : 92 ≤ y % 400 / 4 := by omega
      omega
    · omega
  unfold daysFromCivil
  simp only []
  by_cases h : m ≤ 2
  · have := hmp h; omega
  · have := hy2 h; omega

theorem dfc_day (y m d j : Nat) (hy : 1970 ≤ y) (hm1 : 1 ≤ m) (hd : 1 ≤ d) :
    daysFromCivil y m (d + j) = daysFromCivil y m d + j := by
  have a := dfc_unfold y m (d + j) hy hm1 (by omega)
  have b := dfc_unfold y m d hy hm1 hd
  omega

theorem isYun_eq_isLeap (y : Nat) : isYun y = isLeap (y + 2000) := by
  have h4 : (y + 2000) % 4 = y % 4 := by omega
  have h100 : (y + 2000) % 100 = y % 100 := by omega
  have h400 : (y + 2000) % 400 = y % 400 := by omega
  simp only [isYun, isLeap, h4, h100, h400]

theorem dfc_month (y m : Nat) (hy : 1970 ≤ y) (hm1 : 1 ≤ m) (hm2 : m ≤ 12) :
    daysFromCivil y (m + 1) 1 = daysFromCivil y m 1 + daysInMonth y m := by
  have hc := daysInMonth_cases y m hm1 hm2
  have hl := isLeap_iff y
  have a := dfc_unfold y (m + 1) 1 hy (by omega) (by omega)
  have b := dfc_unfold y m 1 hy hm1 (by omega)
  rcases hc with ⟨h2, hfeb⟩ | ⟨h2, e⟩
  · subst h2
    simp only [show ¬ (2 + 1 ≤ 2) by omega, show (2 + 1 > 2) by omega, show (2 : Nat) ≤ 2 by omega,
      show ¬ ((2 : Nat) > 2) by omega, if_true, if_false] at a b
    -- year y against year y-1
    have hq : (y % 400 = 0 ∧ (y - 1) / 400 + 1 = y / 400 ∧ (y - 1) % 400 = 399) ∨
        (y % 400 ≠ 0 ∧ (y - 1) / 400 = y / 400 ∧ (y - 1) % 400 + 1 = y % 400) := by omega
    rcases hfeb with ⟨hleap, e⟩ | ⟨hleap, e⟩
    · rw [e]
      have := hl.mp hleap
      rcases hq with ⟨q1, q2, q3⟩ | ⟨q1, q2, q3⟩
      · rw [q3] at b; omega
      · have h100 : y % 400 / 100 = (y - 1) % 400 / 100 := by omega
        omega
    · rw [e]
      have hn : ¬ ((y % 4 = 0 ∧ y % 100 ≠ 0) ∨ y % 400 = 0) := by
        intro h; have := hl.mpr h; rw [this] at hleap; cases hleap
      rcases hq with ⟨q1, q2, q3⟩ | ⟨q1, q2, q3⟩
      · omega
      · by_cases h4 : y % 4 = 0
        · have h100 : y % 100 = 0 := by omega
          have : y % 400 / 100 = (y - 1) % 400 / 100 + 1 := by omega
          omega
        · have : y % 400 / 100 = (y - 1) % 400 / 100 := by omega
          omega
  · have : m = 1 ∨ m = 3 ∨ m = 4 ∨ m = 5 ∨ m = 6 ∨ m = 7 ∨ m = 8 ∨ m = 9 ∨ m = 10 ∨ m = 11 ∨
        m = 12 := by omega
    clear e
    rcases this with h | h | h | h | h | h | h | h | h | h | h <;> subst h <;>
      simp [daysInMonth] at a b ⊢ <;> omega

theorem dfc_year (y : Nat) (hy : 1970 ≤ y) : daysFromCivil y 13 1 = daysFromCivil (y + 1) 1 1 := by
  have a := dfc_unfold y 13 1 hy (by omega) (by omega)
  have b := dfc_unfold (y + 1) 1 1 (by omega) (by omega) (by omega)
  simp only [show ¬ ((13 : Nat) ≤ 2) by omega, show ((13 : Nat) > 2) by omega, show (1 : Nat) ≤ 2 by omega,
    show ¬ ((1 : Nat) > 2) by omega, if_true, if_false, show y + 1 - 1 = y by omega] at a b
  omega

/-! ### the loops -/

theorem dayLoop_abs (year mm : Nat) : ∀ (n dd z : Nat),
    (∀ j, j < n → civil (z + j) = ⟨year + 2000, mm + 1, dd + 1 + j⟩) →
    dayLoop year mm n dd (stAbs z) = ((List.range' z n).map absDay, stAbs (z + n)) := by
  intro n
  induction n with
  | zero => intro dd z _; simp [dayLoop]
  | succ n ih =>
    intro dd z h
    have h0 := h 0 (by omega)
    simp only [Nat.add_zero] at h0
    have ih' := ih (dd + 1) (z + 1) (fun j hj => by
      have := h (j + 1) (by omega)
      rw [show z + 1 + j = z + (j + 1) by omega, this]
      simp only [YMD.mk.injEq, true_and]; omega)
    simp only [dayLoop, stAbs_next, ih', List.range'_succ, List.map_cons]
    refine Prod.ext ?_ ?_
    · simp only [List.cons.injEq, and_true]
      simp only [absDay, h0, stAbs]
    · simp only; congr 1; omega

theorem monLen_eq (year mm : Nat) (h : mm < 12) :
    monLen year mm = daysInMonth (year + 2000) (mm + 1) := by
  have hy := isYun_eq_isLeap year
  have : mm = 0 ∨ mm = 1 ∨ mm = 2 ∨ mm = 3 ∨ mm = 4 ∨ mm = 5 ∨ mm = 6 ∨ mm = 7 ∨ mm = 8 ∨ mm = 9 ∨
      mm = 10 ∨ mm = 11 := by omega
  rcases this with e | e | e | e | e | e | e | e | e | e | e | e <;> subst e <;>
    simp [monLen, mdayLen, daysInMonth, hy] <;> (cases isLeap (year + 2000) <;> rfl)

theorem range'_app (s m n : Nat) : List.range' s m ++ List.range' (s + m) n = List.range' s (m + n) := by
  have := @List.range'_append s m n 1
  rw [Nat.one_mul] at this; exact this

theorem map_range'_shift (f : Nat → Day) (a : Nat) : ∀ (len b : Nat),
    (List.range' (a + b) len).map f = (List.range' b len).map (fun i => f (a + i)) := by
  intro len
  induction len with
  | zero => intro b; rfl
  | succ n ih =>
    intro b
    rw [List.range'_succ, List.range'_succ, List.map_cons, List.map_cons, Nat.add_assoc, ih (b + 1)]

/-- one month: starting at day number `daysFromCivil Y (mm+1) 1`, the inner loop writes that
    month's days and stops at the first day of the next month -/
theorem month_abs (year mm : Nat) (h : mm < 12) :
    dayLoop year mm (monLen year mm) 0 (stAbs (daysFromCivil (year + 2000) (mm + 1) 1)) =
      ((List.range' (daysFromCivil (year + 2000) (mm + 1) 1) (daysInMonth (year + 2000) (mm + 1))).map absDay,
        stAbs (daysFromCivil (year + 2000) (mm + 1 + 1) 1)) := by
  have hstep := dfc_month (year + 2000) (mm + 1) (by omega) (by omega) (by omega)
  have key := dayLoop_abs year mm (daysInMonth (year + 2000) (mm + 1)) 0
    (daysFromCivil (year + 2000) (mm + 1) 1) (fun j hj => by
      have hd := dfc_day (year + 2000) (mm + 1) 1 j (by omega) (by omega) (by omega)
      rw [← hd, civil_days (year + 2000) (mm + 1) (1 + j) (by omega) ⟨by omega, by omega, by omega, by omega⟩])
  rw [monLen_eq year mm h, key, hstep]

theorem monthLoop_abs (year : Nat) : ∀ (n mm : Nat), mm + n = 12 →
    ∃ len, (monthLoop year n mm (stAbs (daysFromCivil (year + 2000) (mm + 1) 1))).2 =
        stAbs (daysFromCivil (year + 2000) (mm + n + 1) 1) ∧
      (monthLoop year n mm (stAbs (daysFromCivil (year + 2000) (mm + 1) 1))).1.flatten =
        (List.range' (daysFromCivil (year + 2000) (mm + 1) 1) len).map absDay ∧
      daysFromCivil (year + 2000) (mm + 1) 1 + len = daysFromCivil (year + 2000) (mm + n + 1) 1 := by
  intro n
  induction n with
  | zero =>
    intro mm _
    refine ⟨0, ?_, ?_, ?_⟩
    · rw [monthLoop, Nat.add_zero]
    · rw [monthLoop]; rfl
    · rw [Nat.add_zero, Nat.add_zero]
  | succ n ih =>
    intro mm h
    have hm := month_abs year mm (by omega)
    obtain ⟨len, h1, h2, h3⟩ := ih (mm + 1) (by omega)
    have hstep := dfc_month (year + 2000) (mm + 1) (by omega) (by omega) (by omega)
    have e : mm + (n + 1) + 1 = mm + 1 + n + 1 := by omega
    refine ⟨daysInMonth (year + 2000) (mm + 1) + len, ?_, ?_, ?_⟩
    · rw [monthLoop, hm, e]; exact h1
    · simp only [monthLoop, hm, List.flatten_cons, h2]
      rw [hstep, ← List.map_append, range'_app]
    · rw [hstep] at h3; rw [e, ← h3]; omega

theorem yearLoop_abs : ∀ (n y : Nat),
    ∃ len, (yearLoop n y (stAbs (daysFromCivil (y + 2000) 1 1))).2 =
        stAbs (daysFromCivil (y + n + 2000) 1 1) ∧
      ((yearLoop n y (stAbs (daysFromCivil (y + 2000) 1 1))).1.map List.flatten).flatten =
        (List.range' (daysFromCivil (y + 2000) 1 1) len).map absDay ∧
      daysFromCivil (y + 2000) 1 1 + len = daysFromCivil (y + n + 2000) 1 1 := by
  intro n
  induction n with
  | zero =>
    intro y
    refine ⟨0, ?_, ?_, ?_⟩
    · rw [yearLoop, Nat.add_zero]
    · rw [yearLoop]; rfl
    · rw [Nat.add_zero, Nat.add_zero]
  | succ n ih =>
    intro y
    obtain ⟨l1, a1, a2, a3⟩ := monthLoop_abs y 12 0 (by omega)
    have hy := dfc_year (y + 2000) (by omega)
    have e1 : daysFromCivil (y + 2000) (0 + 12 + 1) 1 = daysFromCivil (y + 1 + 2000) 1 1 := by
      rw [show (0 : Nat) + 12 + 1 = 13 from rfl, hy, show y + 2000 + 1 = y + 1 + 2000 by omega]
    rw [e1] at a1 a3
    obtain ⟨l2, b1, b2, b3⟩ := ih (y + 1)
    have e : y + (n + 1) + 2000 = y + 1 + n + 2000 := by omega
    refine ⟨l1 + l2, ?_, ?_, ?_⟩
    · simp only [yearLoop, yearTab, a1, b1, e]
    · simp only [yearLoop, yearTab, a1, List.map_cons, List.flatten_cons, a2, b2]
      rw [← a3, ← List.map_append, range'_app]
    · rw [Nat.zero_add] at a3; rw [e]; omega

theorem init_abs : St.init = stAbs BASE_DAY ∧ daysFromCivil 2000 1 1 = BASE_DAY := by decide

/-- **the algorithm of open() is the calendar, for any number of years**: running the year loop
    for `n` years from 2000-01-01 yields exactly the `specDay`s of the days before
    (2000+n)-01-01, in order -/
theorem open_loop_is_calendar (n : Nat) :
    ∃ len, ((yearLoop n 0 St.init).1.map List.flatten).flatten = (List.range' 0 len).map specDay ∧
      BASE_DAY + len = daysFromCivil (2000 + n) 1 1 := by
  obtain ⟨len, _, h2, h3⟩ := yearLoop_abs n 0
  rw [show 0 + 2000 = 2000 by rfl, init_abs.2, ← init_abs.1] at h2
  rw [show 0 + 2000 = 2000 by rfl, init_abs.2, show 0 + n + 2000 = 2000 + n by omega] at h3
  refine ⟨len, ?_, h3⟩
  have := map_range'_shift absDay BASE_DAY len 0
  rw [Nat.add_zero] at this
  rw [h2, this]
  exact List.map_congr_left (fun i _ => (specDay_abs i).symm)

/-- the century instance, obtained from the structural theorem alone (the evaluated
    `dateTable_eq` of Golib.Cal.TableProof says the same and stays as a cross-check) -/
theorem dateTable_eq_structural : dateTable = (List.range' 0 NDAYS).map specDay := by
  obtain ⟨len, h, hl⟩ := open_loop_is_calendar 100
  have e : daysFromCivil (2000 + 100) 1 1 = 47482 := by decide
  have : len = NDAYS := by rw [e] at hl; simp only [BASE_DAY] at hl; simp only [NDAYS]; omega
  rw [dateTable, table3, h, this]

end Cal
