/-
  Golib.Cal.Pkg — the exported surface of util/dateutil/DateUtil.go as a state machine, and the
  DateFormat object in a fixed-offset time zone.

  Package state: only the clock correction `delta` (DateUtil.go `var delta`); the sync-time clock
  is the harness's/Go's `SystemNow()` and enters every step as the parameter `clock`.
  * instant-taking helpers and GetYmdTime: pure functions of their argument (Golib.Cal.Helper);
  * `Now() = SystemNow() + delta`; `TimeStampNow/YmdNow/GetDateUnitNow` = helper of `Now()`;
  * `SetDelta d`, `SetServerTime srv 1.0` (`delta = srv - SystemNow()`; the float factor is modelled
    for 1.0 only), `GetDelta`.
  `run` folds `step` over a history; the theorems of C19 state that instant-taking calls answer the
  same at any position of any history (frame: only the two setters change the state).

  Zone: `DateFormat.format` reads the fields of its `time.Time` in that value's zone and `Parse`
  builds the instant in `time.Now().Location()`.  For a zone with constant offset `off` (ms, may be
  a non-hour value) the fields of instant t are those of t + off in UTC, and `time.Date` of fields
  is their UTC instant minus off.
-/
import Golib.Cal.Helper
import Golib.Cal.DateFormatObj

namespace Cal

structure Pkg where
  delta : Int
deriving DecidableEq, Repr

inductive Call where
  | dateTime (t : Int) | timeStamp (t : Int) | weekDay (t : Int) | ymdhms (t : Int) | yyyymmdd (t : Int)
  | hhmmss (t : Int) | hhmm (t : Int) | dateUnit (t : Int) | minUnit (t : Int) | fiveMinUnit (t : Int)
  | ymdTime (s : List Char)
  | now | timeStampNow | ymdNow | dateUnitNow
  | setDelta (d : Int) | setServerTime (srv : Int) | getDelta
deriving DecidableEq, Repr

inductive Ans where
  | str (o : Option (List Char))
  | label (o : Option String)
  | int (o : Option Int)
  | unit
deriving DecidableEq, Repr

def Call.isSetter : Call → Bool
  | .setDelta _ => true
  | .setServerTime _ => true
  | _ => false

def step (clock : Int) (s : Pkg) : Call → Pkg × Ans
  | .dateTime t => (s, .str (datetime t))
  | .timeStamp t => (s, .str (timestamp t))
  | .weekDay t => (s, .label (weekday t))
  | .ymdhms t => (s, .str (ymdhms t))
  | .yyyymmdd t => (s, .str (yyyymmdd t))
  | .hhmmss t => (s, .str (some (hhmmss t)))
  | .hhmm t => (s, .str (some (hhmm t)))
  | .dateUnit t => (s, .int (some (getDateUnit t)))
  | .minUnit t => (s, .int (some (getMinUnit t)))
  | .fiveMinUnit t => (s, .int (some (getFiveMinUnit t)))
  | .ymdTime str => (s, .int (getYmdTime str))
  | .now => (s, .int (some (clock + s.delta)))
  | .timeStampNow => (s, .str (timestamp (clock + s.delta)))
  | .ymdNow => (s, .str (yyyymmdd (clock + s.delta)))
  | .dateUnitNow => (s, .int (some (getDateUnit (clock + s.delta))))
  | .setDelta d => (⟨d⟩, .unit)
  | .setServerTime srv => (⟨srv - clock⟩, .int (some (srv - clock)))
  | .getDelta => (s, .int (some s.delta))

/-- a history: each call with the clock reading at that moment -/
def run : Pkg → List (Int × Call) → List Ans
  | _, [] => []
  | s, (clock, c) :: rest => (step clock s c).2 :: run (step clock s c).1 rest

def pkgAfter : Pkg → List (Int × Call) → Pkg
  | s, [] => s
  | s, (clock, c) :: rest => pkgAfter (step clock s c).1 rest

/-! ### DateFormat in a zone with constant offset -/

def fieldsOfIn (off : Int) (t : Nat) : Fields := fieldsOf ((t : Int) + off).toNat

def formatIn (off : Int) (pat : List Char) (t : Nat) : List Char := format pat (fieldsOfIn off t)

/-- one Parse call with `time.Local` at constant offset `off`; `now` is the clock instant -/
def parseObjIn (off : Int) (st : PStateZ) (pat : List Char) (now : Nat) (inp : List Char) : PStateZ × Option Int :=
  let r := parseObj st pat (fieldsOfIn off now) inp
  (r.1, r.2.map (· - off))

end Cal
