/-
  Golib.Cal.DateFormat — CodeModel of util/dateutil/DateFormat.go (`format`, `Parse`, `ToInt`,
  `LPadInt`) at the rune level.

  * `fieldsOf t` stands for the seven `time.Time` accessors of the instant `t`
    (milliseconds since 1970-01-01 UTC, zone pinned to UTC): Year/Month/Day from the Spec
    calendar `civil`, Hour/Minute/Second/millisecond from the remainder.
  * `format pat f`: one pass over the pattern runes, `y m d H M S s` ↦ LPadInt(field, 4|2|2|2|2|2|3),
    any other rune is copied.
  * `parse pat now inp`: the loop of `Parse` (index `i` over the pattern runes, stops when
    `i ≥ len(dateStr)` in bytes; a field letter reads a fixed number of characters through
    `ToInt`; any other rune skips one rune of the input), then **every field that the pattern did
    not set is taken from `now`** (candidate defect D41), then `time.Date(...)` ↦ milliseconds.
    `none` = `Parse` returned an error.
  * `ToInt`: nothing left ⇒ (0, nil); fewer than `size` left ⇒ error; `strconv.Atoi` error ⇒ error.
    (Signs are not modelled: a field text with a leading `+`/`-` is an error in the model.)
-/
import Golib.Cal.Civil
import Golib.Cal.Fmt

namespace Cal

structure Fields where
  y : Nat
  m : Nat
  d : Nat
  H : Nat
  M : Nat
  S : Nat
  s : Nat
deriving DecidableEq, Repr

def MS_DAY : Nat := 86400000

def fieldsOf (t : Nat) : Fields :=
  let c := civil (t / MS_DAY)
  let r := t % MS_DAY
  ⟨c.y, c.m, c.d, r / 3600000, r % 3600000 / 60000, r % 60000 / 1000, r % 1000⟩

/-- width of a field letter; `none` = literal rune -/
def letterWidth (c : Char) : Option Nat :=
  if c = 'y' then some 4
  else if c = 'm' ∨ c = 'd' ∨ c = 'H' ∨ c = 'M' ∨ c = 'S' then some 2
  else if c = 's' then some 3
  else none

def Fields.get (f : Fields) (c : Char) : Nat :=
  if c = 'y' then f.y else if c = 'm' then f.m else if c = 'd' then f.d else if c = 'H' then f.H
  else if c = 'M' then f.M else if c = 'S' then f.S else f.s

def fmtRune (f : Fields) (c : Char) : List Char :=
  match letterWidth c with
  | some w => pad0 w (f.get c)
  | none => [c]

def format (pat : List Char) (f : Fields) : List Char := pat.flatMap (fmtRune f)

/-- `this.date` : which letters have been set, and to what -/
structure PState where
  y : Option Nat := none
  m : Option Nat := none
  d : Option Nat := none
  H : Option Nat := none
  M : Option Nat := none
  S : Option Nat := none
  s : Option Nat := none
deriving DecidableEq, Repr

def PState.set (p : PState) (c : Char) (v : Nat) : PState :=
  if c = 'y' then { p with y := some v } else if c = 'm' then { p with m := some v }
  else if c = 'd' then { p with d := some v } else if c = 'H' then { p with H := some v }
  else if c = 'M' then { p with M := some v } else if c = 'S' then { p with S := some v }
  else { p with s := some v }

/-- `ToInt(r, size)`: result and remaining input; `none` = error -/
def toInt (inp : List Char) (size : Nat) : Option (Nat × List Char) :=
  if inp.isEmpty then some (0, [])
  else if inp.length < size then none
  else (atoiNat (inp.take size)).map fun v => (v, inp.drop size)

/-- the loop body over the remaining pattern; `i` = index of the current pattern rune,
    `sz` = byte length of the whole input -/
def parseLoop (sz : Nat) : List Char → Nat → List Char → PState → Option PState
  | [], _, _, p => some p
  | c :: pat, i, inp, p =>
    if i ≥ sz then some p else
    match letterWidth c with
    | some w =>
      match toInt inp w with
      | some (v, rest) => parseLoop sz pat (i + 1) rest (p.set c v)
      | none => none
    | none => parseLoop sz pat (i + 1) (inp.drop 1) p

def utf8Len (cs : List Char) : Nat := cs.foldl (fun n c => n + c.utf8Size) 0

/-- `time.Date(y, Month(m), d, H, M, S, ms·10⁶, UTC).UnixNano() / 10⁶` for y ≥ 1970:
    the month is normalised into 1..12 with carry into the year, everything else is linear -/
def dateToMs (f : Fields) : Nat :=
  let y := if f.m = 0 then f.y - 1 else f.y + (f.m - 1) / 12
  let m := if f.m = 0 then 12 else (f.m - 1) % 12 + 1
  daysFromCivil y m f.d * MS_DAY + f.H * 3600000 + f.M * 60000 + f.S * 1000 + f.s

/-- fields not set by the pattern are taken from `now` -/
def PState.fill (p : PState) (now : Fields) : Fields :=
  ⟨p.y.getD now.y, p.m.getD now.m, p.d.getD now.d, p.H.getD now.H, p.M.getD now.M,
   p.S.getD now.S, p.s.getD now.s⟩

/-- the seven arguments handed to `time.Date` -/
def parseFields (pat : List Char) (now : Fields) (inp : List Char) : Option Fields :=
  (parseLoop (utf8Len inp) pat 0 inp {}).map fun p => p.fill now

def parse (pat : List Char) (now : Fields) (inp : List Char) : Option Nat :=
  (parseFields pat now inp).map dateToMs

/-! Spec: the instant truncated to the fields present in the pattern — an absent field
    takes its least value (month 1, day 1, hour/minute/second/millisecond 0, year 1970). -/
def Fields.origin : Fields := ⟨1970, 1, 1, 0, 0, 0, 0⟩

def truncFields (pat : List Char) (f : Fields) : Fields :=
  ⟨if 'y' ∈ pat then f.y else 1970, if 'm' ∈ pat then f.m else 1, if 'd' ∈ pat then f.d else 1,
   if 'H' ∈ pat then f.H else 0, if 'M' ∈ pat then f.M else 0, if 'S' ∈ pat then f.S else 0,
   if 's' ∈ pat then f.s else 0⟩

def truncTo (pat : List Char) (t : Nat) : Nat := dateToMs (truncFields pat (fieldsOf t))

end Cal
