/-
  Golib.Cal.DateFormatProof — `Parse ∘ format` on the model of DateFormat.go.

  Main statement (`parseFields_format`): parsing the text that `format pat f` produced yields, for
  every field letter present in the pattern, the formatted field, and for every absent letter
  the field of `now` (that is the code's behaviour; it is the truncation only when nothing is
  absent).
-/
import Golib.Cal.DateFormat
import Golib.Cal.CivilLemmas
import Golib.Cal.FmtLemmas

namespace Cal

def letterList : List Char := ['y', 'm', 'd', 'H', 'M', 'S', 's']

/-- every field fits its printed width -/
def FieldsOk (f : Fields) : Prop :=
  f.y < 10000 ∧ f.m < 100 ∧ f.d < 100 ∧ f.H < 100 ∧ f.M < 100 ∧ f.S < 100 ∧ f.s < 1000

/-- present letters from `f`, absent ones from `now` -/
def merge (pat : List Char) (f now : Fields) : Fields :=
  ⟨if 'y' ∈ pat then f.y else now.y, if 'm' ∈ pat then f.m else now.m,
   if 'd' ∈ pat then f.d else now.d, if 'H' ∈ pat then f.H else now.H,
   if 'M' ∈ pat then f.M else now.M, if 'S' ∈ pat then f.S else now.S,
   if 's' ∈ pat then f.s else now.s⟩

def PState.getc (p : PState) (c : Char) : Option Nat :=
  if c = 'y' then p.y else if c = 'm' then p.m else if c = 'd' then p.d else if c = 'H' then p.H
  else if c = 'M' then p.M else if c = 'S' then p.S else p.s

theorem letterWidth_isSome (c : Char) : (letterWidth c).isSome = true ↔ c ∈ letterList := by
  simp only [letterWidth, letterList, List.mem_cons, List.not_mem_nil, or_false]
  constructor
  · intro h
    split at h
    · left; assumption
    · split at h
      · rename_i h2; rcases h2 with h2 | h2 | h2 | h2 | h2 <;> simp [h2]
      · split at h
        · simp [*]
        · simp at h
  · intro h
    rcases h with h | h | h | h | h | h | h <;> subst h <;> decide

theorem getc_set (p : PState) (c c' : Char) (v : Nat) (hc : c ∈ letterList) (hc' : c' ∈ letterList) :
    (p.set c v).getc c' = if c = c' then some v else p.getc c' := by
  simp only [letterList, List.mem_cons, List.not_mem_nil, or_false] at hc hc'
  rcases hc with h | h | h | h | h | h | h <;> subst h <;>
    rcases hc' with h | h | h | h | h | h | h <;> subst h <;>
    simp [PState.set, PState.getc]

/-- what the loop leaves in `this.date` after a text produced by `format` -/
def setAll (f : Fields) : List Char → PState → PState
  | [], p => p
  | c :: pat, p => if (letterWidth c).isSome then setAll f pat (p.set c (f.get c)) else setAll f pat p

theorem setAll_getc (f : Fields) (c' : Char) (hc' : c' ∈ letterList) :
    ∀ (pat : List Char) (p : PState),
      (setAll f pat p).getc c' = if c' ∈ pat then some (f.get c') else p.getc c' := by
  intro pat
  induction pat with
  | nil => intro p; simp [setAll]
  | cons c pat ih =>
    intro p
    by_cases hw : (letterWidth c).isSome = true
    · have hc := (letterWidth_isSome c).mp hw
      rw [setAll, if_pos hw, ih, getc_set p c c' _ hc hc']
      by_cases e : c = c'
      · subst e; simp
      · have : ¬ c' = c := fun h => e h.symm
        simp [e, this]
    · have hc : c ∉ letterList := fun h => hw ((letterWidth_isSome c).mpr h)
      have : ¬ c' = c := fun h => hc (h ▸ hc')
      rw [setAll, if_neg hw, ih]
      simp [this]

/-! ### one field -/

theorem toInt_render (v size : Nat) (digits rest : List Char) (hl : digits.length = size)
    (hpos : 0 < size) (ha : atoiNat digits = some v) :
    toInt (digits ++ rest) size = some (v, rest) := by
  have hne : (digits ++ rest).isEmpty = false := by
    cases digits with
    | nil => simp at hl; omega
    | cons a as => rfl
  have ht : (digits ++ rest).take size = digits := by rw [← hl]; simp
  have hd : (digits ++ rest).drop size = rest := by rw [← hl]; simp
  rw [toInt, hne]
  simp only [Bool.false_eq_true, if_false]
  rw [if_neg (by simp; omega), ht, hd, ha]
  rfl

theorem width_cases (f : Fields) (hf : FieldsOk f) (c : Char) (w : Nat) (h : letterWidth c = some w) :
    (w = 4 ∧ f.get c < 10000) ∨ (w = 2 ∧ f.get c < 100) ∨ (w = 3 ∧ f.get c < 1000) := by
  obtain ⟨h1, h2, h3, h4, h5, h6, h7⟩ := hf
  have hc : c ∈ letterList := (letterWidth_isSome c).mp (by rw [h]; rfl)
  simp only [letterList, List.mem_cons, List.not_mem_nil, or_false] at hc
  rcases hc with e | e | e | e | e | e | e <;> subst e <;>
    simp [letterWidth] at h <;> subst h <;> simp [Fields.get] <;> assumption

theorem toInt_field (f : Fields) (hf : FieldsOk f) (c : Char) (w : Nat) (h : letterWidth c = some w)
    (rest : List Char) : toInt (pad0 w (f.get c) ++ rest) w = some (f.get c, rest) := by
  rcases width_cases f hf c w h with ⟨e, hv⟩ | ⟨e, hv⟩ | ⟨e, hv⟩ <;> subst e
  · rw [pad0_4_eq _ hv]; exact toInt_render _ 4 _ rest rfl (by decide) (atoi_render4 _ hv)
  · rw [pad0_2_eq _ hv]; exact toInt_render _ 2 _ rest rfl (by decide) (atoi_render2 _ hv)
  · rw [pad0_3_eq _ hv]; exact toInt_render _ 3 _ rest rfl (by decide) (atoi_render3 _ hv)

/-! ### the loop -/

theorem parseLoop_format (f : Fields) (hf : FieldsOk f) (sz : Nat) :
    ∀ (pat : List Char) (i : Nat) (rest : List Char) (p : PState), i + pat.length ≤ sz →
      parseLoop sz pat i (format pat f ++ rest) p = some (setAll f pat p) := by
  intro pat
  induction pat with
  | nil => intro i rest p _; simp [parseLoop, setAll]
  | cons c pat ih =>
    intro i rest p hi
    have hlt : ¬ i ≥ sz := by simp only [List.length_cons] at hi; omega
    rw [parseLoop, if_neg hlt]
    simp only [format, List.flatMap_cons, List.append_assoc]
    cases hw : letterWidth c with
    | some w =>
      simp only [fmtRune, hw]
      rw [toInt_field f hf c w hw]
      simp only []
      have := ih (i + 1) rest (p.set c (f.get c)) (by simp only [List.length_cons] at hi; omega)
      simp only [format] at this
      rw [this, setAll, hw]; rfl
    | none =>
      simp only [fmtRune, hw, List.cons_append, List.nil_append, List.drop_succ_cons, List.drop_zero]
      have := ih (i + 1) rest p (by simp only [List.length_cons] at hi; omega)
      simp only [format] at this
      rw [this, setAll, hw]; rfl

/-! ### the byte length of a formatted text is at least the number of pattern runes -/

theorem utf8Len_foldl (cs : List Char) : ∀ n, n + cs.length ≤ cs.foldl (fun n c => n + c.utf8Size) n := by
  induction cs with
  | nil => intro n; simp
  | cons c cs ih =>
    intro n
    have := ih (n + c.utf8Size)
    have hp := Char.utf8Size_pos c
    simp only [List.foldl_cons, List.length_cons]
    omega

theorem length_le_utf8Len (cs : List Char) : cs.length ≤ utf8Len cs := by
  have := utf8Len_foldl cs 0
  simpa [utf8Len] using this

theorem fmtRune_length_pos (f : Fields) (c : Char) : 1 ≤ (fmtRune f c).length := by
  unfold fmtRune
  split
  · have := @Nat.length_toDigits_pos 10 (f.get c)
    simp only [pad0, itoa, List.length_append, List.length_replicate]; omega
  · simp

theorem format_length (f : Fields) (pat : List Char) : pat.length ≤ (format pat f).length := by
  induction pat with
  | nil => simp [format]
  | cons c pat ih =>
    have := fmtRune_length_pos f c
    simp only [format, List.flatMap_cons, List.length_append, List.length_cons] at ih ⊢
    omega

/-! ### result -/

theorem fill_setAll (f now : Fields) (pat : List Char) :
    (setAll f pat {}).fill now = merge pat f now := by
  have g := fun c hc => setAll_getc f c hc pat {}
  have gy := g 'y' (by decide)
  have gm := g 'm' (by decide)
  have gd := g 'd' (by decide)
  have gH := g 'H' (by decide)
  have gM := g 'M' (by decide)
  have gS := g 'S' (by decide)
  have gs := g 's' (by decide)
  simp only [PState.getc, Fields.get, Char.reduceEq, if_true, if_false] at gy gm gd gH gM gS gs
  simp only [PState.fill, merge, gy, gm, gd, gH, gM, gS, gs, Fields.mk.injEq]
  refine ⟨?_, ?_, ?_, ?_, ?_, ?_, ?_⟩ <;> split <;> rfl

/-- **Parse after format**: present letters give back the formatted fields, absent letters are
    taken from `now` -/
theorem parseFields_format (pat : List Char) (f now : Fields) (hf : FieldsOk f) :
    parseFields pat now (format pat f) = some (merge pat f now) := by
  have h := parseLoop_format f hf (utf8Len (format pat f)) pat 0 [] {}
    (by have := format_length f pat; have := length_le_utf8Len (format pat f); omega)
  rw [List.append_nil] at h
  rw [parseFields, h, Option.map_some, fill_setAll]

theorem merge_all (pat : List Char) (f now : Fields) (h : ∀ c ∈ letterList, c ∈ pat) :
    merge pat f now = f := by
  simp only [merge, h 'y' (by decide), h 'm' (by decide), h 'd' (by decide), h 'H' (by decide),
    h 'M' (by decide), h 'S' (by decide), h 's' (by decide), if_true]

theorem merge_origin (pat : List Char) (f : Fields) : merge pat f Fields.origin = truncFields pat f := rfl

/-! ### instants -/

theorem fieldsOf_ok (t : Nat) (h : (civil (t / MS_DAY)).y < 10000) : FieldsOk (fieldsOf t) := by
  have hf := civil_fields (t / MS_DAY)
  simp only [FieldsOk, fieldsOf]
  refine ⟨h, by omega, by omega, ?_, by omega, by omega, by omega⟩
  simp only [MS_DAY]; omega

theorem dateToMs_mk (y m d H M S s : Nat) (h1 : 1 ≤ m) (h2 : m ≤ 12) :
    dateToMs ⟨y, m, d, H, M, S, s⟩ =
      daysFromCivil y m d * MS_DAY + H * 3600000 + M * 60000 + S * 1000 + s := by
  simp only [dateToMs]
  rw [if_neg (by omega), if_neg (by omega), show y + (m - 1) / 12 = y by omega,
    show (m - 1) % 12 + 1 = m by omega]

theorem dateToMs_fieldsOf (t : Nat) : dateToMs (fieldsOf t) = t := by
  have hf := civil_fields (t / MS_DAY)
  have hd := days_civil (t / MS_DAY)
  rw [fieldsOf, dateToMs_mk _ _ _ _ _ _ _ hf.1 hf.2.1, hd]
  simp only [MS_DAY]; omega

/-- instants up to the year 9909 have fields that fit their printed widths -/
theorem fieldsOf_ok' (t : Nat) (h : t < 2900000 * MS_DAY) : FieldsOk (fieldsOf t) :=
  fieldsOf_ok t (civil_year_lt _ (by simp only [MS_DAY] at h ⊢; omega))

theorem parse_format (pat : List Char) (now : Fields) (t : Nat) (h : t < 2900000 * MS_DAY) :
    parse pat now (format pat (fieldsOf t)) = some (dateToMs (merge pat (fieldsOf t) now)) := by
  rw [parse, parseFields_format pat _ now (fieldsOf_ok' t h)]; rfl

theorem parse_format_all (pat : List Char) (now : Fields) (t : Nat) (h : t < 2900000 * MS_DAY)
    (hall : ∀ c ∈ letterList, c ∈ pat) : parse pat now (format pat (fieldsOf t)) = some t := by
  rw [parse_format pat now t h, merge_all pat _ now hall, dateToMs_fieldsOf]

theorem parse_format_origin (pat : List Char) (t : Nat) (h : t < 2900000 * MS_DAY) :
    parse pat Fields.origin (format pat (fieldsOf t)) = some (truncTo pat t) := by
  rw [parse_format pat _ t h, merge_origin]; rfl

end Cal
