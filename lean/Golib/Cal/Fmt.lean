/-
  Golib.Cal.Fmt — decimal rendering and parsing as the Go helpers do it.
  Strings are `List Char` (all digit fields are ASCII; see notes/C19.md for literal runes).

    itoa      strconv.Itoa / fmt "%d" for a non-negative int
    mk2, mk3  DateTimeHelper.go mk2 / mk3 (switch on 0..9, then `< 100`)
    pad0 w    fmt "%0wd" and DateFormat.go LPadInt(v, w) for non-negative v
    atoiNat   strconv.Atoi on an unsigned digit string (none = error)
    atoi      … with Go's optional sign; an error yields 0 (the callers drop `err`)

  Spec side: `render2/3/4` = the fixed-width decimal digits.
-/
namespace Cal

def itoa (n : Nat) : List Char := Nat.toDigits 10 n

def mk2 (n : Nat) : List Char := if n ≤ 9 then '0' :: itoa n else itoa n

def mk3 (n : Nat) : List Char :=
  if n ≤ 9 then '0' :: '0' :: itoa n else if n < 100 then '0' :: itoa n else itoa n

def pad0 (w n : Nat) : List Char :=
  let s := itoa n
  List.replicate (w - s.length) '0' ++ s

def isDig (c : Char) : Bool := 48 ≤ c.toNat && c.toNat ≤ 57

def atoiNat (cs : List Char) : Option Nat :=
  if cs.isEmpty then none
  else cs.foldl (fun acc c => acc.bind fun a => if isDig c then some (a * 10 + (c.toNat - 48)) else none)
    (some 0)

def atoi (cs : List Char) : Int :=
  match cs with
  | '-' :: r => - ((atoiNat r).getD 0 : Nat)
  | '+' :: r => ((atoiNat r).getD 0 : Nat)
  | _ => ((atoiNat cs).getD 0 : Nat)

/-! Spec: fixed-width decimal -/
def dig (n : Nat) : Char := Char.ofNat (48 + n % 10)
def render2 (n : Nat) : List Char := [dig (n / 10), dig n]
def render3 (n : Nat) : List Char := [dig (n / 100), dig (n / 10), dig n]
def render4 (n : Nat) : List Char := [dig (n / 1000), dig (n / 100), dig (n / 10), dig n]

end Cal
