/-
  Golib.Cal.HelperProof — the DateTimeHelper model agrees with the Spec calendar on the century.
-/
import Golib.Cal.Helper
import Golib.Cal.TableProof
import Golib.Cal.CivilLemmas
import Golib.Cal.FmtLemmas

namespace Cal

attribute [local irreducible] table3 dateTable dateTableA

/-- first instant after the table: 2100-01-01T00:00:00Z -/
def END_TIME : Int := 4102444800000

/-- the property's range of instants: 2000-01-01T00:00:00.000Z … 2099-12-31T23:59:59.999Z -/
def InCentury (t : Int) : Prop := BASE_TIME ≤ t ∧ t < END_TIME

instance (t : Int) : Decidable (InCentury t) := by unfold InCentury; infer_instance

/-- Spec: days since 1970-01-01 and millisecond of the day of an instant -/
def dayOf (t : Int) : Nat := (t / 86400000).toNat
def msOfDay (t : Int) : Nat := (t % 86400000).toNat

/-- Spec: the unique decomposition of a millisecond of the day -/
def specHMS (r : Nat) : HMS := ⟨r / 3600000, r / 60000 % 60, r / 1000 % 60, r % 1000⟩

def specYmd (c : YMD) : List Char := render4 c.y ++ render2 c.m ++ render2 c.d

theorem hmsOf_eq (r : Nat) : hmsOf r = specHMS r := by
  simp only [hmsOf, specHMS, MILLIS_PER_HOUR, MILLIS_PER_MINUTE, MILLIS_PER_SECOND, HMS.mk.injEq,
    true_and]
  omega

theorem specHMS_range (r : Nat) (h : r < 86400000) :
    (specHMS r).hh < 24 ∧ (specHMS r).mm < 60 ∧ (specHMS r).ss < 60 ∧ (specHMS r).sss < 1000 ∧
    r = (specHMS r).hh * 3600000 + (specHMS r).mm * 60000 + (specHMS r).ss * 1000 + (specHMS r).sss := by
  simp only [specHMS]; omega

theorem hms_unique (r a b c d : Nat) (hb : b < 60) (hc : c < 60) (hd : d < 1000)
    (h : r = a * 3600000 + b * 60000 + c * 1000 + d) : specHMS r = ⟨a, b, c, d⟩ := by
  simp only [specHMS, HMS.mk.injEq]; omega

section
variable (t : Int) (h : InCentury t)
include h

theorem idx_facts :
    dayIdx t = (t - BASE_TIME) / 86400000 ∧ 0 ≤ (t - BASE_TIME) / 86400000 ∧
    ((t - BASE_TIME) / 86400000).toNat < NDAYS ∧
    BASE_DAY + ((t - BASE_TIME) / 86400000).toNat = dayOf t ∧
    dtimeOf t = msOfDay t ∧ msOfDay t < 86400000 := by
  obtain ⟨h1, h2⟩ := h
  simp only [BASE_TIME, END_TIME] at h1 h2
  have e1 : dayIdx t = (t - BASE_TIME) / 86400000 := by
    simp only [dayIdx, MILLIS_PER_DAY, BASE_TIME]
    exact Int.tdiv_eq_ediv_of_nonneg (by omega)
  have e2 : dtimeOf t = msOfDay t := by
    simp only [dtimeOf, msOfDay, MILLIS_PER_DAY, BASE_TIME]
    rw [Int.tmod_eq_emod_of_nonneg (by omega)]; omega
  refine ⟨e1, ?_, ?_, ?_, e2, ?_⟩ <;>
    simp only [BASE_TIME, NDAYS, BASE_DAY, dayOf, msOfDay] <;> omega

theorem tab_at : dateTableA[(dayIdx t).toNat]? = some (specDay (dayOf t - BASE_DAY)) ∧
    clampIdx (dayIdx t) = (dayIdx t).toNat ∧ dayOf t - BASE_DAY < NDAYS ∧
    BASE_DAY + (dayOf t - BASE_DAY) = dayOf t := by
  obtain ⟨e1, e0, e3, e4, _, _⟩ := idx_facts t h
  have e5 : dayOf t - BASE_DAY = ((t - BASE_TIME) / 86400000).toNat := by omega
  refine ⟨?_, ?_, by omega, by omega⟩
  · rw [e1, dateTableA, List.getElem?_toArray, dateTable_get _ e3, e5]
  · rw [e1, clampIdx, if_neg (by omega)]

theorem day_date : (specDay (dayOf t - BASE_DAY)).date = specYmd (civil (dayOf t)) ∧
    (specDay (dayOf t - BASE_DAY)).wd = weekdayMon (dayOf t) ∧
    (specDay (dayOf t - BASE_DAY)).time = (dayOf t : Int) * 86400000 := by
  obtain ⟨_, _, e3, e4⟩ := tab_at t h
  have hy := specDay_year _ e3
  have hf := civil_fields (dayOf t)
  simp only [specDay, e4] at hy
  refine ⟨?_, ?_, ?_⟩
  · simp only [Day.date, specDay, e4, specYmd]
    rw [itoa_4_eq _ (by omega) (by omega), pad0_2_eq _ (by omega), pad0_2_eq _ (by omega)]
  · simp only [specDay, e4]
  · simp only [specDay, BASE_TIME, MILLIS_PER_DAY, BASE_DAY] at e4 ⊢
    omega

theorem yyyymmdd_eq : yyyymmdd t = some (specYmd (civil (dayOf t))) := by
  obtain ⟨a, b, _, _⟩ := tab_at t h
  rw [yyyymmdd, b, a, Option.map_some, (day_date t h).1]

theorem weekdayIdx_eq : weekdayIdx t = some (weekdayMon (dayOf t)) := by
  obtain ⟨a, b, _, _⟩ := tab_at t h
  rw [weekdayIdx, b, a, Option.map_some, (day_date t h).2.1]

theorem weekday_eq : weekday t = some (wdayLabels.getD (weekdayMon (dayOf t)) "") := by
  obtain ⟨a, b, _, _⟩ := tab_at t h
  rw [weekday, b, a, Option.map_some, Day.wday, (day_date t h).2.1]

theorem hms_facts : hmsOf (dtimeOf t) = specHMS (msOfDay t) ∧
    (specHMS (msOfDay t)).hh < 100 ∧ (specHMS (msOfDay t)).mm < 100 ∧
    (specHMS (msOfDay t)).ss < 100 ∧ (specHMS (msOfDay t)).sss < 1000 := by
  obtain ⟨_, _, _, _, e, r⟩ := idx_facts t h
  have := specHMS_range _ r
  rw [e, hmsOf_eq]
  exact ⟨rfl, by omega, by omega, by omega, by omega⟩

theorem datetime_eq : datetime t = some (specYmd (civil (dayOf t)) ++ ' ' ::
    render2 (specHMS (msOfDay t)).hh ++ ':' :: render2 (specHMS (msOfDay t)).mm ++ ':' ::
    render2 (specHMS (msOfDay t)).ss) := by
  obtain ⟨a, _, _, _⟩ := tab_at t h
  obtain ⟨e, h1, h2, h3, _⟩ := hms_facts t h
  rw [datetime, if_neg (by have := h.1; omega)]
  simp only [a, e, Option.map_some, (day_date t h).1, mk2_eq _ h1, mk2_eq _ h2, mk2_eq _ h3]

theorem timestampWith_eq (pad : Nat → List Char) :
    timestampWith pad t = some (specYmd (civil (dayOf t)) ++ ' ' ::
    render2 (specHMS (msOfDay t)).hh ++ ':' :: render2 (specHMS (msOfDay t)).mm ++ ':' ::
    render2 (specHMS (msOfDay t)).ss ++ '.' :: pad (specHMS (msOfDay t)).sss) := by
  obtain ⟨a, _, _, _⟩ := tab_at t h
  obtain ⟨e, h1, h2, h3, h4⟩ := hms_facts t h
  rw [timestampWith, if_neg (by have := h.1; omega)]
  simp only [a, e, Option.map_some, (day_date t h).1, mk2_eq _ h1, mk2_eq _ h2, mk2_eq _ h3]

theorem timestamp_eq : timestamp t = some (specYmd (civil (dayOf t)) ++ ' ' ::
    render2 (specHMS (msOfDay t)).hh ++ ':' :: render2 (specHMS (msOfDay t)).mm ++ ':' ::
    render2 (specHMS (msOfDay t)).ss ++ '.' :: render3 (specHMS (msOfDay t)).sss) := by
  rw [timestamp, timestampWith_eq t h, mk3_eq _ (hms_facts t h).2.2.2.2]

theorem logtimeWith_eq (pad : Nat → List Char) : logtimeWith pad t =
    render2 (specHMS (msOfDay t)).hh ++ ':' :: render2 (specHMS (msOfDay t)).mm ++ ':' ::
    render2 (specHMS (msOfDay t)).ss ++ '.' :: pad (specHMS (msOfDay t)).sss := by
  obtain ⟨e, h1, h2, h3, h4⟩ := hms_facts t h
  rw [logtimeWith, if_neg (by have := h.1; omega)]
  simp only [e, mk2_eq _ h1, mk2_eq _ h2, mk2_eq _ h3]

theorem logtime_eq : logtime t =
    render2 (specHMS (msOfDay t)).hh ++ ':' :: render2 (specHMS (msOfDay t)).mm ++ ':' ::
    render2 (specHMS (msOfDay t)).ss ++ '.' :: render3 (specHMS (msOfDay t)).sss := by
  rw [logtime, logtimeWith_eq t h, mk3_eq _ (hms_facts t h).2.2.2.2]

theorem ymdhms_eq : ymdhms t = some (specYmd (civil (dayOf t)) ++
    render2 (specHMS (msOfDay t)).hh ++ render2 (specHMS (msOfDay t)).mm ++
    render2 (specHMS (msOfDay t)).ss) := by
  obtain ⟨a, _, _, _⟩ := tab_at t h
  obtain ⟨e, h1, h2, h3, _⟩ := hms_facts t h
  rw [ymdhms, if_neg (by have := h.1; omega)]
  simp only [a, e, Option.map_some, (day_date t h).1, mk2_eq _ h1, mk2_eq _ h2, mk2_eq _ h3]

theorem hhmmss_eq : hhmmss t = render2 (specHMS (msOfDay t)).hh ++
    render2 (specHMS (msOfDay t)).mm ++ render2 (specHMS (msOfDay t)).ss := by
  obtain ⟨e, h1, h2, h3, _⟩ := hms_facts t h
  rw [hhmmss, if_neg (by have := h.1; omega)]
  simp only [e, pad0_2_eq _ h1, pad0_2_eq _ h2, pad0_2_eq _ h3]

theorem hhmm_eq : hhmm t = render2 (specHMS (msOfDay t)).hh ++ render2 (specHMS (msOfDay t)).mm := by
  obtain ⟨e, h1, h2, _, _⟩ := hms_facts t h
  rw [hhmm, if_neg (by have := h.1; omega)]
  simp only [e, pad0_2_eq _ h1, pad0_2_eq _ h2]

end

/-! ### units -/

theorem dateUnit_eq (t : Int) (h : BASE_TIME ≤ t) : getDateUnit t = (t - BASE_TIME) / 86400000 :=
  Int.tdiv_eq_ediv_of_nonneg (by omega)
theorem minUnit_eq (t : Int) (h : BASE_TIME ≤ t) : getMinUnit t = (t - BASE_TIME) / 60000 :=
  Int.tdiv_eq_ediv_of_nonneg (by omega)
theorem fiveMinUnit_eq (t : Int) (h : BASE_TIME ≤ t) : getFiveMinUnit t = (t - BASE_TIME) / 300000 :=
  Int.tdiv_eq_ediv_of_nonneg (by omega)

/-- a function `(t - base) / k` is a monotone step function with step `k` -/
theorem step_laws_day (b t t' : Int) (h : t ≤ t') :
    (t - b) / 86400000 ≤ (t' - b) / 86400000 ∧ (t + 86400000 - b) / 86400000 = (t - b) / 86400000 + 1 ∧
    (t + 1 - b) / 86400000 = (t - b) / 86400000 + (if (t + 1 - b) % 86400000 = 0 then 1 else 0) := by
  refine ⟨by omega, by omega, ?_⟩; split <;> omega
theorem step_laws_min (b t t' : Int) (h : t ≤ t') :
    (t - b) / 60000 ≤ (t' - b) / 60000 ∧ (t + 60000 - b) / 60000 = (t - b) / 60000 + 1 ∧
    (t + 1 - b) / 60000 = (t - b) / 60000 + (if (t + 1 - b) % 60000 = 0 then 1 else 0) := by
  refine ⟨by omega, by omega, ?_⟩; split <;> omega
theorem step_laws_5min (b t t' : Int) (h : t ≤ t') :
    (t - b) / 300000 ≤ (t' - b) / 300000 ∧ (t + 300000 - b) / 300000 = (t - b) / 300000 + 1 ∧
    (t + 1 - b) / 300000 = (t - b) / 300000 + (if (t + 1 - b) % 300000 = 0 then 1 else 0) := by
  refine ⟨by omega, by omega, ?_⟩; split <;> omega

end Cal
