/-
  Golib.Cal.DateFormatObj — the DateFormat *object* as Go has it: signed field values and the
  `this.date` map that survives between Parse calls.

  Compared with Golib.Cal.DateFormat (fresh object, unsigned fields):
  * `atoiZ` is `strconv.Atoi` on a short string: optional `+`/`-`, then at least one digit;
    anything else is an error.  So the field text "-5" parses as -5 and "+7" as 7.
  * `PStateZ` is the map `this.date`; `parseObj st pat now inp` runs one `Parse` call on an object
    whose map is `st` and returns the map afterwards together with the result
    (`none` = Parse returned an error; the map keeps what was stored before the error).
    After a successful call **all seven keys are set** (the absent ones were filled from `now`
    *and stored*), so later calls on the same object never consult the clock again.
  * `dateToMsZ` is `time.Date(...).UnixNano()/10⁶` on integers: month normalised with floor
    division, everything else linear; negative results are instants before 1970.
-/
import Golib.Cal.DateFormat

namespace Cal

def atoiZ (cs : List Char) : Option Int :=
  match cs with
  | '-' :: r => (atoiNat r).map fun v => - (v : Int)
  | '+' :: r => (atoiNat r).map fun v => (v : Int)
  | _ => (atoiNat cs).map fun v => (v : Int)

/-- `fmt.Sprintf("%d", v)` for any int -/
def itoaZ (v : Int) : List Char := if v < 0 then '-' :: itoa v.natAbs else itoa v.toNat

/-- the exported `LPadInt(v, size)` on all ints: the decimal text, left-padded with `0` up to `size` characters
    (a text longer than `size` is returned as it is; the sign of a negative `v` ends up behind the padding: "0-5") -/
def lpadInt (v size : Int) : List Char :=
  let s := itoaZ v
  if (s.length : Int) > size then s else List.replicate (size - s.length).toNat '0' ++ s

structure PStateZ where
  y : Option Int := none
  m : Option Int := none
  d : Option Int := none
  H : Option Int := none
  M : Option Int := none
  S : Option Int := none
  s : Option Int := none
deriving DecidableEq, Repr

def PStateZ.set (p : PStateZ) (c : Char) (v : Int) : PStateZ :=
  if c = 'y' then { p with y := some v } else if c = 'm' then { p with m := some v }
  else if c = 'd' then { p with d := some v } else if c = 'H' then { p with H := some v }
  else if c = 'M' then { p with M := some v } else if c = 'S' then { p with S := some v }
  else { p with s := some v }

def PStateZ.getc (p : PStateZ) (c : Char) : Option Int :=
  if c = 'y' then p.y else if c = 'm' then p.m else if c = 'd' then p.d else if c = 'H' then p.H
  else if c = 'M' then p.M else if c = 'S' then p.S else p.s

def toIntZ (inp : List Char) (size : Nat) : Option (Int × List Char) :=
  if inp.isEmpty then some (0, [])
  else if inp.length < size then none
  else (atoiZ (inp.take size)).map fun v => (v, inp.drop size)

/-- the loop of Parse on the object's map; the Bool is `false` when Parse returned an error -/
def parseLoopZ (sz : Nat) : List Char → Nat → List Char → PStateZ → PStateZ × Bool
  | [], _, _, p => (p, true)
  | c :: pat, i, inp, p =>
    if i ≥ sz then (p, true) else
    match letterWidth c with
    | some w =>
      match toIntZ inp w with
      | some (v, rest) => parseLoopZ sz pat (i + 1) rest (p.set c v)
      | none => (p, false)
    | none => parseLoopZ sz pat (i + 1) (inp.drop 1) p

/-- `if _, ok := this.date[k]; !ok { this.date[k] = now.… }` for the seven keys -/
def PStateZ.fill (p : PStateZ) (now : Fields) : PStateZ :=
  ⟨some (p.y.getD now.y), some (p.m.getD now.m), some (p.d.getD now.d), some (p.H.getD now.H),
   some (p.M.getD now.M), some (p.S.getD now.S), some (p.s.getD now.s)⟩

structure FieldsZ where
  y : Int
  m : Int
  d : Int
  H : Int
  M : Int
  S : Int
  s : Int
deriving DecidableEq, Repr

def PStateZ.fields (p : PStateZ) : FieldsZ :=
  ⟨p.y.getD 0, p.m.getD 0, p.d.getD 0, p.H.getD 0, p.M.getD 0, p.S.getD 0, p.s.getD 0⟩

def Fields.toZ (f : Fields) : FieldsZ := ⟨f.y, f.m, f.d, f.H, f.M, f.S, f.s⟩

/-- Hinnant's days-from-civil on integers (floor division), linear in `d` -/
def daysFromCivilZ (y m d : Int) : Int :=
  let y' := if m ≤ 2 then y - 1 else y
  let era := y' / 400
  let yoe := y' % 400
  let mp := if m > 2 then m - 3 else m + 9
  era * 146097 + (yoe * 365 + yoe / 4 - yoe / 100) + (153 * mp + 2) / 5 + d - 719469

def dateToMsZ (f : FieldsZ) : Int :=
  let y := f.y + (f.m - 1) / 12
  let m := (f.m - 1) % 12 + 1
  daysFromCivilZ y m f.d * 86400000 + f.H * 3600000 + f.M * 60000 + f.S * 1000 + f.s

/-- one `Parse` call on an object whose map is `st` -/
def parseObj (st : PStateZ) (pat : List Char) (now : Fields) (inp : List Char) : PStateZ × Option Int :=
  let r := parseLoopZ (utf8Len inp) pat 0 inp st
  if r.2 then
    let q := r.1.fill now
    (q, some (dateToMsZ q.fields))
  else (r.1, none)

/-- a history of `Parse` calls on one object (each with its own clock reading) -/
def parseHistory (pat : List Char) : PStateZ → List (Fields × List Char) → List (Option Int)
  | _, [] => []
  | st, (now, inp) :: rest =>
    let r := parseObj st pat now inp
    r.2 :: parseHistory pat r.1 rest

end Cal
