/-
  Golib.Cal.CivilLemmas — facts about the Spec calendar, for every day number (not only the
  century): field ranges and `daysFromCivil ∘ civil = id`.
-/
import Golib.Cal.Civil

namespace Cal

theorem yoe_bound (doe : Nat) (h : doe < 146097) :
    let yoe := (doe + doe / 36524 - doe / 1460 - doe / 146096) / 365
    yoe ≤ 399 ∧ 365 * yoe + yoe / 4 ≤ doe + yoe / 100 ∧
      doe + yoe / 100 - 365 * yoe - yoe / 4 ≤ 365 := by
  intro yoe
  have he : doe / 36524 = 0 ∨ doe / 36524 = 1 ∨ doe / 36524 = 2 ∨ doe / 36524 = 3 ∨
      doe / 36524 = 4 := by omega
  have hc : yoe / 100 = 0 ∨ yoe / 100 = 1 ∨ yoe / 100 = 2 ∨ yoe / 100 = 3 ∨ yoe / 100 = 4 := by
    omega
  rcases he with he | he | he | he | he <;> rcases hc with hc | hc | hc | hc | hc <;> omega

theorem mp_bound (doy : Nat) (h : doy ≤ 365) :
    let mp := (5 * doy + 2) / 153
    mp ≤ 11 ∧ (153 * mp + 2) / 5 ≤ doy ∧ doy - (153 * mp + 2) / 5 ≤ 30 := by
  intro mp; omega

theorem days_civil_core (era doe yoe doy mp d m y : Nat) (hyoe : yoe ≤ 399)
    (h1 : 365 * yoe + yoe / 4 ≤ doe + yoe / 100)
    (hdoy : doy = doe + yoe / 100 - 365 * yoe - yoe / 4) (hmp : mp ≤ 11)
    (h2 : (153 * mp + 2) / 5 ≤ doy) (hd : d = doy - (153 * mp + 2) / 5 + 1)
    (hm : m = if mp < 10 then mp + 3 else mp - 9) (hy : y = yoe + era * 400) :
    daysFromCivil (if m ≤ 2 then y + 1 else y) m d = era * 146097 + doe - 719468 := by
  unfold daysFromCivil
  simp only []
  have hy' : (if m ≤ 2 then (if m ≤ 2 then y + 1 else y) - 1 else (if m ≤ 2 then y + 1 else y)) = y := by
    split <;> omega
  rw [hy']
  have hmp' : (if m > 2 then m - 3 else m + 9) = mp := by
    subst hm; split <;> split <;> omega
  rw [hmp']
  have h3 : y / 400 = era := by omega
  have h4 : y % 400 = yoe := by omega
  rw [h3, h4]
  omega

/-- the month is 1..12 and the day 1..31, for every day number -/
theorem civil_fields (z : Nat) :
    1 ≤ (civil z).m ∧ (civil z).m ≤ 12 ∧ 1 ≤ (civil z).d ∧ (civil z).d ≤ 31 := by
  unfold civil
  extract_lets z1 era doe yoe doy mp d m y
  have hdoe : doe < 146097 := Nat.mod_lt _ (by decide)
  have hy := yoe_bound doe hdoe
  have hm := mp_bound doy hy.2.2
  simp only [] at hy hm
  refine ⟨?_, ?_, ?_, ?_⟩ <;> simp only [m, d] <;> (try split) <;> omega

/-- `daysFromCivil` inverts `civil` on every day number -/
theorem days_civil (z : Nat) : daysFromCivil (civil z).y (civil z).m (civil z).d = z := by
  unfold civil
  extract_lets z1 era doe yoe doy mp d m y
  have hdoe : doe < 146097 := Nat.mod_lt _ (by decide)
  have hy := yoe_bound doe hdoe
  have hm := mp_bound doy hy.2.2
  have hz : z1 = era * 146097 + doe := by simp only [era, doe]; omega
  have := days_civil_core era doe yoe doy mp d m y hy.1 hy.2.1 rfl hm.1 hm.2.1 rfl rfl rfl
  simp only []
  rw [this, ← hz]; simp only [z1]; omega

/-- hence `civil` is injective: distinct days have distinct dates -/
theorem civil_injective (a b : Nat) (h : civil a = civil b) : a = b := by
  have ha := days_civil a
  have hb := days_civil b
  rw [h] at ha; omega

/-- years stay four digits far beyond the century (day 2 900 000 is in year 9909) -/
theorem civil_year_lt (z : Nat) (h : z < 2900000) : (civil z).y < 10000 := by
  unfold civil
  extract_lets z1 era doe yoe doy mp d m y
  have hdoe : doe < 146097 := Nat.mod_lt _ (by decide)
  have hy := yoe_bound doe hdoe
  have he : era ≤ 24 := by simp only [era, z1]; omega
  simp only [] at hy ⊢
  split <;> simp only [y] <;> omega

end Cal
