/-
  Golib.Cal.DateFormatObjProof — the DateFormat object (signed fields, persistent map):
  a Parse call on ANY prior map simulates the fresh-object loop of Golib.Cal.DateFormat and lays
  its results over the prior map; hence Parse ∘ format on a reused object, the fact that a map
  filled by one successful call makes every later call ignore the clock, and the bridge from the
  integer result to the natural-number result of the fresh-object theorems.
-/
import Golib.Cal.DateFormatObj
import Golib.Cal.DateFormatProof
import Golib.Cal.TableStruct
import Golib.Cal.CivilSucc

namespace Cal

/-- lay the (unsigned) results `q` of a loop over a prior map `st` -/
def overlay (st : PStateZ) (q : PState) : PStateZ :=
  ⟨(q.y.map Int.ofNat).orElse fun _ => st.y, (q.m.map Int.ofNat).orElse fun _ => st.m,
   (q.d.map Int.ofNat).orElse fun _ => st.d, (q.H.map Int.ofNat).orElse fun _ => st.H,
   (q.M.map Int.ofNat).orElse fun _ => st.M, (q.S.map Int.ofNat).orElse fun _ => st.S,
   (q.s.map Int.ofNat).orElse fun _ => st.s⟩

theorem overlay_empty (st : PStateZ) : overlay st {} = st := by cases st; rfl

theorem overlay_set (st : PStateZ) (p : PState) (c : Char) (v : Nat) :
    overlay st (p.set c v) = (overlay st p).set c (v : Int) := by
  unfold PState.set PStateZ.set
  split; · rfl
  split; · rfl
  split; · rfl
  split; · rfl
  split; · rfl
  split; · rfl
  rfl

theorem foldl_none (l : List Char) :
    l.foldl (fun acc c => acc.bind fun a => if isDig c then some (a * 10 + (c.toNat - 48)) else none) none = none := by
  induction l with
  | nil => rfl
  | cons a l ih => simpa using ih

theorem atoiNat_sign (c : Char) (r : List Char) (h : isDig c = false) : atoiNat (c :: r) = none := by
  simp only [atoiNat, List.isEmpty_cons, Bool.false_eq_true, if_false, List.foldl_cons, Option.bind_some, h]
  exact foldl_none r

/-- an unsigned digit string means the same to the signed `Atoi` -/
theorem atoiZ_of_atoiNat (cs : List Char) (v : Nat) (h : atoiNat cs = some v) : atoiZ cs = some (v : Int) := by
  unfold atoiZ
  split
  · rw [atoiNat_sign '-' _ (by decide)] at h; cases h
  · rw [atoiNat_sign '+' _ (by decide)] at h; cases h
  · rw [h]; rfl

theorem toIntZ_of_toInt (inp : List Char) (w v : Nat) (rest : List Char)
    (h : toInt inp w = some (v, rest)) : toIntZ inp w = some ((v : Int), rest) := by
  unfold toInt at h
  unfold toIntZ
  split
  · rename_i he; rw [if_pos he] at h; cases h; rfl
  · rename_i he
    rw [if_neg he] at h
    split
    · rename_i hl; rw [if_pos hl] at h; cases h
    · rename_i hl
      rw [if_neg hl] at h
      cases ha : atoiNat (inp.take w) with
      | none => rw [ha] at h; cases h
      | some a =>
        rw [ha] at h
        simp only [Option.map_some, Option.some.injEq, Prod.mk.injEq] at h
        rw [atoiZ_of_atoiNat _ _ ha, Option.map_some, ← h.1, ← h.2]

/-- **simulation**: if the fresh-object loop succeeds from `p` with `q`, the object loop on any
    prior map `st` overlaid with `p` succeeds with `st` overlaid with `q` -/
theorem parseLoopZ_sim (sz : Nat) (st : PStateZ) : ∀ (pat : List Char) (i : Nat) (inp : List Char) (p q : PState),
    parseLoop sz pat i inp p = some q → parseLoopZ sz pat i inp (overlay st p) = (overlay st q, true) := by
  intro pat
  induction pat with
  | nil => intro i inp p q h; simp only [parseLoop, Option.some.injEq] at h; rw [parseLoopZ, h]
  | cons c pat ih =>
    intro i inp p q h
    rw [parseLoop] at h
    rw [parseLoopZ]
    by_cases hi : i ≥ sz
    · rw [if_pos hi] at h ⊢; simp only [Option.some.injEq] at h; rw [h]
    · rw [if_neg hi] at h ⊢
      cases hw : letterWidth c with
      | none => rw [hw] at h; exact ih _ _ _ _ h
      | some w =>
        rw [hw] at h
        simp only [] at h ⊢
        cases ht : toInt inp w with
        | none => rw [ht] at h; cases h
        | some vr =>
          obtain ⟨v, rest⟩ := vr
          rw [ht] at h
          rw [toIntZ_of_toInt inp w v rest ht]
          simp only [] at h ⊢
          rw [← overlay_set]
          exact ih _ _ _ _ h

/-- the fields `time.Date` receives when the text was produced by `format pat f` and the object's
    map was `st`: present letters from the text, absent ones from the map, else from the clock -/
def mergeZ (pat : List Char) (f : Fields) (st : PStateZ) (now : Fields) : FieldsZ :=
  ⟨if 'y' ∈ pat then f.y else st.y.getD now.y, if 'm' ∈ pat then f.m else st.m.getD now.m,
   if 'd' ∈ pat then f.d else st.d.getD now.d, if 'H' ∈ pat then f.H else st.H.getD now.H,
   if 'M' ∈ pat then f.M else st.M.getD now.M, if 'S' ∈ pat then f.S else st.S.getD now.S,
   if 's' ∈ pat then f.s else st.s.getD now.s⟩

def PStateZ.Full (p : PStateZ) : Prop :=
  p.y.isSome ∧ p.m.isSome ∧ p.d.isSome ∧ p.H.isSome ∧ p.M.isSome ∧ p.S.isSome ∧ p.s.isSome

theorem fill_full (p : PStateZ) (now : Fields) : (p.fill now).Full := by
  simp [PStateZ.fill, PStateZ.Full]

theorem setAll_fields (f : Fields) (pat : List Char) :
    (setAll f pat {}).y = (if 'y' ∈ pat then some f.y else none) ∧
    (setAll f pat {}).m = (if 'm' ∈ pat then some f.m else none) ∧
    (setAll f pat {}).d = (if 'd' ∈ pat then some f.d else none) ∧
    (setAll f pat {}).H = (if 'H' ∈ pat then some f.H else none) ∧
    (setAll f pat {}).M = (if 'M' ∈ pat then some f.M else none) ∧
    (setAll f pat {}).S = (if 'S' ∈ pat then some f.S else none) ∧
    (setAll f pat {}).s = (if 's' ∈ pat then some f.s else none) := by
  have g := fun c hc => setAll_getc f c hc pat {}
  have gy := g 'y' (by decide)
  have gm := g 'm' (by decide)
  have gd := g 'd' (by decide)
  have gH := g 'H' (by decide)
  have gM := g 'M' (by decide)
  have gS := g 'S' (by decide)
  have gs := g 's' (by decide)
  simp only [PState.getc, Fields.get, Char.reduceEq, if_true, if_false] at gy gm gd gH gM gS gs
  exact ⟨gy, gm, gd, gH, gM, gS, gs⟩

/-- **Parse after format on an object with any prior map** -/
theorem parseObj_format (st : PStateZ) (pat : List Char) (f now : Fields) (hf : FieldsOk f) :
    (parseObj st pat now (format pat f)).2 = some (dateToMsZ (mergeZ pat f st now)) ∧
    (parseObj st pat now (format pat f)).1.Full := by
  have h := parseLoop_format f hf (utf8Len (format pat f)) pat 0 [] {}
    (by have := format_length f pat; have := length_le_utf8Len (format pat f); omega)
  rw [List.append_nil] at h
  have hz := parseLoopZ_sim (utf8Len (format pat f)) st pat 0 (format pat f) {} _ h
  rw [overlay_empty] at hz
  obtain ⟨ey, em, ed, eH, eM, eS, es⟩ := setAll_fields f pat
  unfold parseObj
  rw [hz]
  simp only [if_true]
  refine ⟨?_, fill_full _ _⟩
  congr 2
  simp only [PStateZ.fields, PStateZ.fill, overlay, mergeZ, ey, em, ed, eH, eM, eS, es, Option.getD_some,
    FieldsZ.mk.injEq]
  refine ⟨?_, ?_, ?_, ?_, ?_, ?_, ?_⟩ <;> split <;> rfl

/-- once the map is full (after any successful call) the clock is never consulted again -/
theorem mergeZ_full (pat : List Char) (f : Fields) (st : PStateZ) (now₁ now₂ : Fields) (h : st.Full) :
    mergeZ pat f st now₁ = mergeZ pat f st now₂ := by
  obtain ⟨h1, h2, h3, h4, h5, h6, h7⟩ := h
  cases st with
  | mk y m d H M S s =>
    cases y <;> cases m <;> cases d <;> cases H <;> cases M <;> cases S <;> cases s <;>
      simp_all [mergeZ]

theorem mergeZ_fresh (pat : List Char) (f now : Fields) : mergeZ pat f {} now = (merge pat f now).toZ := by
  simp only [mergeZ, merge, Fields.toZ, FieldsZ.mk.injEq, Option.getD_none]
  refine ⟨?_, ?_, ?_, ?_, ?_, ?_, ?_⟩ <;> split <;> rfl

/-! ### integers and naturals agree on calendar fields -/

/-- fields of an actual date from 1971 on (no normalisation, no truncated subtraction) -/
def CalFields (f : Fields) : Prop := 1971 ≤ f.y ∧ 1 ≤ f.m ∧ f.m ≤ 12 ∧ 1 ≤ f.d

instance (f : Fields) : Decidable (CalFields f) := by unfold CalFields; infer_instance

theorem daysFromCivilZ_cast (y m d : Nat) (hy : 1970 ≤ y) (hm1 : 1 ≤ m) (hd : 1 ≤ d) :
    daysFromCivilZ y m d = (daysFromCivil y m d : Nat) := by
  have h := dfc_unfold y m d hy hm1 hd
  unfold daysFromCivilZ
  simp only []
  by_cases hm : m ≤ 2
  · simp only [if_pos hm, if_neg (show ¬ m > 2 by omega)] at h
    simp only [if_pos (show (m : Int) ≤ 2 by omega), if_neg (show ¬ (m : Int) > 2 by omega)]
    omega
  · simp only [if_neg hm, if_pos (show m > 2 by omega)] at h
    simp only [if_neg (show ¬ (m : Int) ≤ 2 by omega), if_pos (show (m : Int) > 2 by omega)]
    omega

theorem dateToMsZ_cast (f : Fields) (h : CalFields f) : dateToMsZ f.toZ = (dateToMs f : Nat) := by
  obtain ⟨hy, h1, h2, h3⟩ := h
  cases f with
  | mk y m d H M S s =>
    simp only [] at hy h1 h2 h3
    rw [dateToMs_mk y m d H M S s h1 h2]
    simp only [dateToMsZ, Fields.toZ]
    rw [show (y : Int) + ((m : Int) - 1) / 12 = (y : Int) by omega,
      show ((m : Int) - 1) % 12 + 1 = (m : Int) by omega,
      daysFromCivilZ_cast y m d (by omega) h1 h3]
    simp only [MS_DAY]
    omega

theorem fieldsOf_cal (t : Nat) (h : 365 * MS_DAY ≤ t) : CalFields (fieldsOf t) := by
  have hf := civil_fields (t / MS_DAY)
  have hy := civil_year_ge (t / MS_DAY) (by simp only [MS_DAY] at h ⊢; omega)
  exact ⟨hy, hf.1, hf.2.1, hf.2.2.1⟩

theorem mergeZ_all (pat : List Char) (f : Fields) (st : PStateZ) (now : Fields)
    (h : ∀ c ∈ letterList, c ∈ pat) : mergeZ pat f st now = f.toZ := by
  simp only [mergeZ, Fields.toZ, h 'y' (by decide), h 'm' (by decide), h 'd' (by decide), h 'H' (by decide),
    h 'M' (by decide), h 'S' (by decide), h 's' (by decide), if_true]

/-- all seven letters present: Parse ∘ format is the identity on instants **on any object,
    fresh or reused, whatever its map holds** -/
theorem parseObj_format_all (st : PStateZ) (pat : List Char) (now : Fields) (t : Nat)
    (h1 : 365 * MS_DAY ≤ t) (h2 : t < 2900000 * MS_DAY) (hall : ∀ c ∈ letterList, c ∈ pat) :
    (parseObj st pat now (format pat (fieldsOf t))).2 = some (t : Int) := by
  rw [(parseObj_format st pat _ now (fieldsOf_ok' t h2)).1, mergeZ_all pat _ st now hall,
    dateToMsZ_cast _ (fieldsOf_cal t h1), dateToMs_fieldsOf]

/-- a fresh object gives the fresh-object result of Golib.Cal.DateFormat (as an integer) -/
theorem parseObj_fresh (pat : List Char) (now : Fields) (t : Nat) (h1 : 365 * MS_DAY ≤ t)
    (h2 : t < 2900000 * MS_DAY) (hn : CalFields now) :
    (parseObj {} pat now (format pat (fieldsOf t))).2 = (parse pat now (format pat (fieldsOf t))).map Int.ofNat := by
  have hc := fieldsOf_cal t h1
  have hm : CalFields (merge pat (fieldsOf t) now) := by
    obtain ⟨a1, a2, a3, a4⟩ := hc
    obtain ⟨b1, b2, b3, b4⟩ := hn
    simp only [CalFields, merge]
    refine ⟨?_, ?_, ?_, ?_⟩ <;> split <;> assumption
  rw [(parseObj_format {} pat _ now (fieldsOf_ok' t h2)).1, mergeZ_fresh, dateToMsZ_cast _ hm,
    parse_format pat now t h2]
  rfl

/-- after a successful call the map is full, so the next call's result does not depend on the
    clock at all: absent fields are those the earlier call stored -/
theorem parseObj_reuse (st : PStateZ) (pat : List Char) (f now₁ now₂ : Fields) (hf : FieldsOk f)
    (hfull : st.Full) :
    (parseObj st pat now₁ (format pat f)).2 = (parseObj st pat now₂ (format pat f)).2 := by
  rw [(parseObj_format st pat f now₁ hf).1, (parseObj_format st pat f now₂ hf).1,
    mergeZ_full pat f st now₁ now₂ hfull]

theorem parseObj_success_full (st : PStateZ) (pat : List Char) (now : Fields) (inp : List Char)
    (h : (parseObj st pat now inp).2.isSome) : (parseObj st pat now inp).1.Full := by
  unfold parseObj at h ⊢
  simp only [] at h ⊢
  by_cases hb : (parseLoopZ (utf8Len inp) pat 0 inp st).2 = true
  · rw [if_pos hb]; exact fill_full _ _
  · rw [if_neg hb] at h; cases h

end Cal
