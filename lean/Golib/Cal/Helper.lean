/-
  Golib.Cal.Helper — CodeModel of the DateTimeHelper methods behind the exported functions of
  util/dateutil/DateUtil.go (helper for location "" = UTC):

    yyyymmdd, weekday, datetime, timestamp, logtime, ymdhms, hhmmss, hhmm,
    getDateUnit, getMinUnit, getFiveMinUnit, getYmdTime

  `t : Int` is Go's int64 millisecond instant; `/` and `%` of Go truncate toward zero
  (`Int.tdiv`, `Int.tmod`).  `none` = the Go code panics (index out of range: instant after
  2099-12-31, or a date string that does not name a day of the table).

  Defect D40: the Go `timestamp`/`logtime` pad the milliseconds with `mk2`; the model is
  parameterised by the pad (`timestampWith`) — `timestamp` is the repaired behaviour (`mk3`),
  `timestampWith mk2` is the code before the repair (see `C19.finding_D40`).
-/
import Golib.Cal.Table
import Golib.Cal.Fmt

namespace Cal

def MILLIS_PER_SECOND : Nat := 1000
def MILLIS_PER_MINUTE : Nat := 60000
def MILLIS_PER_FIVE_MINUTE : Nat := 300000
def MILLIS_PER_HOUR : Nat := 3600000

/-- `Day.date` = fmt.Sprintf("%d%02d%02d", year+2000, mm+1, dd+1) -/
def Day.date (d : Day) : List Char := itoa d.yyyy ++ pad0 2 d.mm ++ pad0 2 d.dd
/-- `Day.wday` = wday[wdayIdx] -/
def Day.wday (d : Day) : String := wdayLabels.getD d.wd ""

/-- `this.dateTable` as the driver uses it (constant-time index) -/
def dateTableA : Array Day := dateTable.toArray

/-- `int((time - BASE_TIME) / MILLIS_PER_DAY)` -/
def dayIdx (t : Int) : Int := (t - BASE_TIME).tdiv MILLIS_PER_DAY
/-- `(int)((time - BASE_TIME) % MILLIS_PER_DAY)`, only used for `time ≥ BASE_TIME` -/
def dtimeOf (t : Int) : Nat := ((t - BASE_TIME).tmod MILLIS_PER_DAY).toNat

def clampIdx (i : Int) : Nat := if i < 0 then 0 else i.toNat

def yyyymmdd (t : Int) : Option (List Char) :=
  (dateTableA[clampIdx (dayIdx t)]?).map Day.date

def weekdayIdx (t : Int) : Option Nat :=
  (dateTableA[clampIdx (dayIdx t)]?).map Day.wd

def weekday (t : Int) : Option String :=
  (dateTableA[clampIdx (dayIdx t)]?).map Day.wday

structure HMS where
  hh : Nat
  mm : Nat
  ss : Nat
  sss : Nat
deriving DecidableEq, Repr

/-- the chain `hh := dtime / H; dtime %= H; mm := dtime / M; dtime %= M; ss := dtime / 1000; sss := dtime % 1000` -/
def hmsOf (dtime : Nat) : HMS :=
  let hh := dtime / MILLIS_PER_HOUR
  let d1 := dtime % MILLIS_PER_HOUR
  let mm := d1 / MILLIS_PER_MINUTE
  let d2 := d1 % MILLIS_PER_MINUTE
  ⟨hh, mm, d2 / MILLIS_PER_SECOND, d2 % 1000⟩

def datetime (t : Int) : Option (List Char) :=
  if t < BASE_TIME then some "20000101 00:00:00".toList else
  let h := hmsOf (dtimeOf t)
  (dateTableA[(dayIdx t).toNat]?).map fun d =>
    d.date ++ ' ' :: mk2 h.hh ++ ':' :: mk2 h.mm ++ ':' :: mk2 h.ss

def timestampWith (msPad : Nat → List Char) (t : Int) : Option (List Char) :=
  if t < BASE_TIME then some "20000101 00:00:00".toList else
  let h := hmsOf (dtimeOf t)
  (dateTableA[(dayIdx t).toNat]?).map fun d =>
    d.date ++ ' ' :: mk2 h.hh ++ ':' :: mk2 h.mm ++ ':' :: mk2 h.ss ++ '.' :: msPad h.sss

/-- `timestamp` with the three-digit millisecond pad (the repair of D40) -/
def timestamp (t : Int) : Option (List Char) := timestampWith mk3 t

def logtimeWith (msPad : Nat → List Char) (t : Int) : List Char :=
  if t < BASE_TIME then "00:00:00.000".toList else
  let h := hmsOf (dtimeOf t)
  mk2 h.hh ++ ':' :: mk2 h.mm ++ ':' :: mk2 h.ss ++ '.' :: msPad h.sss

def logtime (t : Int) : List Char := logtimeWith mk3 t

def ymdhms (t : Int) : Option (List Char) :=
  if t < BASE_TIME then some "20000101000000".toList else
  let h := hmsOf (dtimeOf t)
  (dateTableA[(dayIdx t).toNat]?).map fun d => d.date ++ mk2 h.hh ++ mk2 h.mm ++ mk2 h.ss

def hhmmss (t : Int) : List Char :=
  if t < BASE_TIME then "000000".toList else
  let h := hmsOf (dtimeOf t)
  pad0 2 h.hh ++ pad0 2 h.mm ++ pad0 2 h.ss

def hhmm (t : Int) : List Char :=
  if t < BASE_TIME then "0000".toList else
  let h := hmsOf (dtimeOf t)
  pad0 2 h.hh ++ pad0 2 h.mm

def getDateUnit (t : Int) : Int := (t - BASE_TIME).tdiv MILLIS_PER_DAY
def getMinUnit (t : Int) : Int := (t - BASE_TIME).tdiv MILLIS_PER_MINUTE
def getFiveMinUnit (t : Int) : Int := (t - BASE_TIME).tdiv MILLIS_PER_FIVE_MINUTE

/-- an index expression `x - 1` of Go: negative ⇒ panic -/
def idxOf (i : Int) : Option Nat := if i < 0 then none else some i.toNat

/-- `getYmdTime`: substrings [0:4] [4:6] [6:8], `strconv.Atoi` with the error dropped -/
def getYmdTimeOn (table3 : List (List (List Day))) (s : List Char) : Option Int :=
  if s.isEmpty then some 0 else
  if s.length < 8 then none else
  let year := atoi (s.take 4)
  let mm := atoi ((s.drop 4).take 2)
  let dd := atoi ((s.drop 6).take 2)
  if year ≥ 2100 then (lookup3 table3 99 11 30).map fun d => d.time + MILLIS_PER_DAY
  else if year < 2000 then some BASE_TIME
  else do
    let y ← idxOf (year - 2000)
    let m ← idxOf (mm - 1)
    let d ← idxOf (dd - 1)
    (lookup3 table3 y m d).map Day.time

def getYmdTime (s : List Char) : Option Int := getYmdTimeOn table3 s

end Cal
