/-
  Golib.Cal.YmdProof — `getYmdTime` inverts `yyyymmdd` on the century.
-/
import Golib.Cal.HelperProof

namespace Cal

attribute [local irreducible] table3 dateTable dateTableA

theorem atoi_digits (cs : List Char) (n : Nat) (h : atoiNat cs = some n)
    (h1 : cs.head? ≠ some '-') (h2 : cs.head? ≠ some '+') : atoi cs = n := by
  unfold atoi
  split
  · simp at h1
  · simp at h2
  · rw [h]; rfl

theorem head_render2 (n : Nat) : (render2 n).head? ≠ some '-' ∧ (render2 n).head? ≠ some '+' := by
  have := dig_ne_sign (n / 10)
  simp only [render2, List.head?_cons, ne_eq, Option.some.injEq]
  exact this

theorem head_render4 (n : Nat) : (render4 n).head? ≠ some '-' ∧ (render4 n).head? ≠ some '+' := by
  have := dig_ne_sign (n / 1000)
  simp only [render4, List.head?_cons, ne_eq, Option.some.injEq]
  exact this

theorem idxOf_sub (n k : Nat) (h : k ≤ n) : idxOf ((n : Int) - k) = some (n - k) := by
  rw [idxOf, if_neg (by omega)]; congr 1; omega

/-- on any table: the eight digits of (y, m, d) select entry `[y-2000][m-1][d-1]` -/
theorem getYmdTimeOn_specYmd (tbl : List (List (List Day))) (c : YMD) (day : Day)
    (hy : 2000 ≤ c.y ∧ c.y ≤ 2099) (hm : 1 ≤ c.m ∧ c.m ≤ 12) (hd : 1 ≤ c.d ∧ c.d ≤ 31)
    (hl : lookup3 tbl (c.y - 2000) (c.m - 1) (c.d - 1) = some day) :
    getYmdTimeOn tbl (specYmd c) = some day.time := by
  have ey : atoi (render4 c.y) = c.y :=
    atoi_digits _ _ (atoi_render4 _ (by omega)) (head_render4 _).1 (head_render4 _).2
  have em : atoi (render2 c.m) = c.m :=
    atoi_digits _ _ (atoi_render2 _ (by omega)) (head_render2 _).1 (head_render2 _).2
  have ed : atoi (render2 c.d) = c.d :=
    atoi_digits _ _ (atoi_render2 _ (by omega)) (head_render2 _).1 (head_render2 _).2
  have t4 : (specYmd c).take 4 = render4 c.y := by simp [specYmd, render4, render2]
  have t2 : ((specYmd c).drop 4).take 2 = render2 c.m := by simp [specYmd, render4, render2]
  have t3 : ((specYmd c).drop 6).take 2 = render2 c.d := by simp [specYmd, render4, render2]
  have len : (specYmd c).length = 8 := by simp [specYmd, render4, render2]
  have ne : (specYmd c).isEmpty = false := by simp [specYmd, render4]
  have i1 : idxOf ((c.y : Int) - 2000) = some (c.y - 2000) := by
    simpa using idxOf_sub c.y 2000 hy.1
  have i2 : idxOf ((c.m : Int) - 1) = some (c.m - 1) := by simpa using idxOf_sub c.m 1 hm.1
  have i3 : idxOf ((c.d : Int) - 1) = some (c.d - 1) := by simpa using idxOf_sub c.d 1 hd.1
  have g1 : ¬ ((c.y : Int) ≥ 2100) := by omega
  have g2 : ¬ ((c.y : Int) < 2000) := by omega
  unfold getYmdTimeOn
  rw [ne, t4, t2, t3, ey, em, ed]
  simp only [Bool.false_eq_true, if_false, len, Nat.lt_irrefl, g1, g2]
  simp only [i1, i2, i3, Option.bind_eq_bind, Option.bind_some, hl, Option.map_some]

/-- `getYmdTime` of the eight digits of a date of the table is that day's start -/
theorem getYmdTime_specYmd (i : Nat) (hi : i < NDAYS) :
    getYmdTime (specYmd (civil (BASE_DAY + i))) = some (BASE_TIME + (i : Int) * MILLIS_PER_DAY) := by
  have hy := specDay_year i hi
  have hf := civil_fields (BASE_DAY + i)
  have hl := table3_get i hi
  exact getYmdTimeOn_specYmd table3 (civil (BASE_DAY + i)) (specDay i) hy ⟨hf.1, hf.2.1⟩ hf.2.2 hl

theorem getYmdTime_yyyymmdd (t : Int) (h : InCentury t) :
    (yyyymmdd t).bind getYmdTime = some (t - (t - BASE_TIME) % MILLIS_PER_DAY) := by
  obtain ⟨_, _, e3, e4⟩ := tab_at t h
  obtain ⟨_, _, _, e5, _, _⟩ := idx_facts t h
  rw [yyyymmdd_eq t h, Option.bind_some, ← e4, getYmdTime_specYmd _ e3]
  obtain ⟨h1, h2⟩ := h
  have b1 : BASE_TIME = 946684800000 := rfl
  have b2 : END_TIME = 4102444800000 := rfl
  have b3 : MILLIS_PER_DAY = 86400000 := rfl
  have b4 : BASE_DAY = 10957 := rfl
  have b5 : dayOf t = (t / 86400000).toNat := rfl
  apply congrArg some
  rw [b3]
  omega

end Cal
