/-
  Golib.Cal.PkgProof — frame and purity over histories of the exported functions; Parse ∘ format in
  a fixed-offset zone.
-/
import Golib.Cal.Pkg
import Golib.Cal.DateFormatObjProof

namespace Cal

/-- frame: only SetDelta / SetServerTime change the package state -/
theorem step_frame (clock : Int) (s : Pkg) (c : Call) (h : c.isSetter = false) : (step clock s c).1 = s := by
  cases c <;> first | rfl | (simp [Call.isSetter] at h)

/-- what an instant- or string-taking call answers, as a function of the call alone -/
def pureAns : Call → Option Ans
  | .dateTime t => some (.str (datetime t))
  | .timeStamp t => some (.str (timestamp t))
  | .weekDay t => some (.label (weekday t))
  | .ymdhms t => some (.str (ymdhms t))
  | .yyyymmdd t => some (.str (yyyymmdd t))
  | .hhmmss t => some (.str (some (hhmmss t)))
  | .hhmm t => some (.str (some (hhmm t)))
  | .dateUnit t => some (.int (some (getDateUnit t)))
  | .minUnit t => some (.int (some (getMinUnit t)))
  | .fiveMinUnit t => some (.int (some (getFiveMinUnit t)))
  | .ymdTime s => some (.int (getYmdTime s))
  | _ => none

theorem step_pure (clock : Int) (s : Pkg) (c : Call) (a : Ans) (h : pureAns c = some a) :
    (step clock s c).2 = a := by
  cases c <;> simp [pureAns] at h <;> (subst h; rfl)

/-- **purity over histories**: at any position of any history (any earlier calls, setters
    included, any clock readings) an instant-taking call answers what it answers alone -/
theorem run_pure : ∀ (h : List (Int × Call)) (s : Pkg) (k : Nat) (clock : Int) (c : Call) (a : Ans),
    h[k]? = some (clock, c) → pureAns c = some a → (run s h)[k]? = some a := by
  intro h
  induction h with
  | nil => intro s k clock c a hk; simp at hk
  | cons x h ih =>
    intro s k clock c a hk hp
    obtain ⟨cl, cx⟩ := x
    cases k with
    | zero =>
      simp only [List.getElem?_cons_zero, Option.some.injEq, Prod.mk.injEq] at hk
      simp only [run, List.getElem?_cons_zero, Option.some.injEq]
      rw [hk.1, hk.2]; exact step_pure clock s c a hp
    | succ k =>
      simp only [List.getElem?_cons_succ] at hk
      simp only [run, List.getElem?_cons_succ]
      exact ih _ k clock c a hk hp

/-- the clock-reading variants render `SystemNow() + delta` with the delta left by the last setter -/
theorem run_now (h : List (Int × Call)) (s : Pkg) (clock : Int) :
    run s (h ++ [(clock, .timeStampNow)]) = run s h ++ [.str (timestamp (clock + (pkgAfter s h).delta))] ∧
    run s (h ++ [(clock, .ymdNow)]) = run s h ++ [.str (yyyymmdd (clock + (pkgAfter s h).delta))] ∧
    run s (h ++ [(clock, .dateUnitNow)]) = run s h ++ [.int (some (getDateUnit (clock + (pkgAfter s h).delta)))] ∧
    run s (h ++ [(clock, .now)]) = run s h ++ [.int (some (clock + (pkgAfter s h).delta))] := by
  induction h generalizing s with
  | nil => exact ⟨rfl, rfl, rfl, rfl⟩
  | cons x h ih =>
    obtain ⟨cl, cx⟩ := x
    obtain ⟨a, b, c, d⟩ := ih (step cl s cx).1
    simp only [List.cons_append, run, pkgAfter, a, b, c, d, and_self]

theorem pkgAfter_setDelta (h : List (Int × Call)) (s : Pkg) (clock d : Int) :
    pkgAfter s (h ++ [(clock, .setDelta d)]) = ⟨d⟩ := by
  induction h generalizing s with
  | nil => rfl
  | cons x h ih => obtain ⟨cl, cx⟩ := x; simp only [List.cons_append, pkgAfter, ih]

/-! ### zone with constant offset -/

theorem parseObjIn_format_all (off : Int) (st : PStateZ) (pat : List Char) (now t : Nat)
    (h1 : 365 * (MS_DAY : Int) ≤ (t : Int) + off) (h2 : (t : Int) + off < 2900000 * (MS_DAY : Int))
    (hall : ∀ c ∈ letterList, c ∈ pat) :
    (parseObjIn off st pat now (formatIn off pat t)).2 = some (t : Int) := by
  have e : (((t : Int) + off).toNat : Int) = (t : Int) + off := Int.toNat_of_nonneg (by simp only [MS_DAY] at h1; omega)
  have g1 : 365 * MS_DAY ≤ ((t : Int) + off).toNat := by simp only [MS_DAY] at h1 ⊢; omega
  have g2 : ((t : Int) + off).toNat < 2900000 * MS_DAY := by simp only [MS_DAY] at h2 ⊢; omega
  unfold parseObjIn formatIn fieldsOfIn
  simp only []
  rw [parseObj_format_all st pat _ _ g1 g2 hall, Option.map_some, e]
  congr 1; omega

end Cal
