/-
  Golib.Cal.PadIR — a small semantics for what `xlate/c19` transcribes from the source (tie A):

  * `PadStmt` — the statements of the pad functions `mk2`/`mk3` (`func(n int) string`):
    `switch n { case c₁,…: return "<lit>" + strconv.Itoa(n) }`, `if n < b { return … } else { return … }`,
    `return …`; every returned expression is a string literal followed by `strconv.Itoa(n)`.
    `evalPad prog n` runs the statements top to bottom (`none` = fell off the end / unknown shape).
  * `evalFmt fmt args` — `fmt.Sprintf` restricted to the verbs the package uses: `%d`, `%0<w>d`
    and literal characters, on non-negative arguments.
-/
import Golib.Cal.Fmt

namespace Cal

/-- `"<lit>" + strconv.Itoa(n)`; the literal as code points -/
structure PadExpr where
  lit : List Nat
deriving DecidableEq, Repr

inductive PadStmt where
  | switchRet (cases : List Nat) (e : PadExpr)
  | ifLt (bound : Nat) (thenE : PadExpr) (elseE : Option PadExpr)
  | ret (e : PadExpr)
  | unknown
deriving DecidableEq, Repr

def PadExpr.eval (e : PadExpr) (n : Nat) : List Char := e.lit.map Char.ofNat ++ itoa n

def evalPad : List PadStmt → Nat → Option (List Char)
  | [], _ => none
  | .switchRet cs e :: rest, n => if cs.contains n then some (e.eval n) else evalPad rest n
  | .ifLt b t e :: rest, n =>
    if n < b then some (t.eval n) else
    match e with
    | some e => some (e.eval n)
    | none => evalPad rest n
  | .ret e :: _, n => some (e.eval n)
  | .unknown :: _, _ => none

def evalFmt : List Char → List Nat → Option (List Char)
  | [], _ => some []
  | '%' :: 'd' :: r, a :: as => (evalFmt r as).map (itoa a ++ ·)
  | '%' :: '0' :: w :: 'd' :: r, a :: as =>
    if isDig w then (evalFmt r as).map (pad0 (w.toNat - 48) a ++ ·) else none
  | '%' :: _, _ => none
  | c :: r, as => (evalFmt r as).map (c :: ·)

/-- one `buffer.WriteString(…)` of a string helper: the table entry's date string, a literal,
    or a pad function applied to the next of (hh, mm, ss, sss) -/
inductive Piece where
  | date
  | lit (cps : List Nat)
  | callMk2
  | callMk3
  | other
deriving DecidableEq, Repr

/-- run the pieces: `p2`/`p3` are the semantics of mk2/mk3, `args` the numbers in the order the
    helper computes them (hh, mm, ss[, sss]) -/
def evalPieces (p2 p3 : Nat → Option (List Char)) : List Piece → List Char → List Nat → Option (List Char)
  | [], _, _ => some []
  | .date :: r, d, as => (evalPieces p2 p3 r d as).map (d ++ ·)
  | .lit cps :: r, d, as => (evalPieces p2 p3 r d as).map (cps.map Char.ofNat ++ ·)
  | .callMk2 :: r, d, a :: as => (p2 a).bind fun x => (evalPieces p2 p3 r d as).map (x ++ ·)
  | .callMk3 :: r, d, a :: as => (p3 a).bind fun x => (evalPieces p2 p3 r d as).map (x ++ ·)
  | _, _, _ => none

/-! ### whole helper bodies: the `/ %` chain and what is written

  `Assign`: `dst := (int)(src / k)` or `dst = (int)(src % k)`, where `src` is a local variable or the
  elapsed time `time - this.BASE_TIME`.  `Out`: what the helper appends / returns, with the *names*
  of the variables it passes.  Variables live in an association list, so renaming them in the
  source changes nothing. -/

inductive Src where
  | elapsed
  | var (n : String)
deriving DecidableEq, Repr

structure Assign where
  dst : String
  isMod : Bool
  src : Src
  k : Nat
deriving DecidableEq, Repr

abbrev Env := List (String × Nat)

def Env.get (e : Env) (n : String) : Nat :=
  match e with
  | [] => 0
  | (k, v) :: r => if k = n then v else Env.get r n

def evalAssigns : List Assign → Nat → Env → Env
  | [], _, e => e
  | a :: r, el, e =>
    let x := match a.src with | .elapsed => el | .var n => e.get n
    evalAssigns r el ((a.dst, if a.isMod then x % a.k else x / a.k) :: e)

inductive Out where
  | date (idx : String)
  | lit (cps : List Nat)
  | mk2 (v : String)
  | mk3 (v : String)
  | sprintf (fmt : List Nat) (args : List String)
  | other
deriving DecidableEq, Repr

def evalOuts (p2 p3 : Nat → Option (List Char)) (dateOf : Nat → List Char) : List Out → Env → Option (List Char)
  | [], _ => some []
  | .date i :: r, e => (evalOuts p2 p3 dateOf r e).map (dateOf (e.get i) ++ ·)
  | .lit cps :: r, e => (evalOuts p2 p3 dateOf r e).map (cps.map Char.ofNat ++ ·)
  | .mk2 v :: r, e => (p2 (e.get v)).bind fun x => (evalOuts p2 p3 dateOf r e).map (x ++ ·)
  | .mk3 v :: r, e => (p3 (e.get v)).bind fun x => (evalOuts p2 p3 dateOf r e).map (x ++ ·)
  | .sprintf f args :: r, e =>
    (evalFmt (f.map Char.ofNat) (args.map e.get)).bind fun x => (evalOuts p2 p3 dateOf r e).map (x ++ ·)
  | .other :: _, _ => none

/-- a helper body for `time ≥ BASE_TIME`: run the chain on the elapsed milliseconds, then write -/
def evalBody (p2 p3 : Nat → Option (List Char)) (dateOf : Nat → List Char)
    (as : List Assign) (os : List Out) (elapsed : Nat) : Option (List Char) :=
  evalOuts p2 p3 dateOf os (evalAssigns as elapsed [])

/-! ### the rune loops of `DateFormat.format` and `DateFormat.Parse` (data only; semantics in Golib.Cal.LoopIR)

  Both functions are one `for … range this.formatStr` whose body is a `switch ch` over rune constants.
  `xlate/c19` transcribes the *whole* loop body, statement by statement; a statement it does not know
  (a flag that is toggled, a `continue`, an extra test) is `.other`, to which the semantics gives no meaning. -/

/-- the `time.Time` accessor a `format` case (or a fill statement of `Parse`) reads -/
inductive TimeSel where
  | year | month | day | hour | minute | second
  | nanoDivMod (d m : Nat)      -- int((t.UnixNano() / d) % m)
  | other
deriving DecidableEq, Repr

/-- what a clause of `switch ch` in `format` does -/
inductive FmtAct where
  | writePad (sel : TimeSel) (w : Nat)   -- buf.WriteString(LPadInt(<sel>, w))
  | writeRune                            -- buf.WriteRune(ch)
  | nop                                  -- (no default clause)
  | other
deriving DecidableEq, Repr

inductive FmtStmt where
  | switchCh (cases : List (Nat × FmtAct)) (dflt : FmtAct)
  | other
deriving DecidableEq, Repr

/-- what a clause of `switch ch` in `Parse` does -/
inductive ParseAct where
  | toIntStore (w : Nat)   -- if v, err := this.ToInt(r, w); err == nil { this.date[ch] = v } else { return 0, <error> }
  | readRune               -- r.ReadRune()
  | nop
  | other
deriving DecidableEq, Repr

inductive ParseStmt where
  | breakIfIdxGeSz         -- if i >= sz { break }   (i: the range index, sz := len(dateStr))
  | switchCh (cases : List (Nat × ParseAct)) (dflt : ParseAct)
  | other
deriving DecidableEq, Repr

end Cal
