/-
  Golib.Cal.CivilSucc — the Spec calendar is the day-by-day calendar, for EVERY day number:
  `civil 0 = 1970-01-01`, `civil (z+1) = nextDay (civil z)`, and every `civil z` is a valid date.
  (Structural: induction on z over the bijection lemmas; no evaluation.)
-/
import Golib.Cal.TableStruct

namespace Cal

theorem daysInMonth_pos (y m : Nat) : 28 ≤ daysInMonth y m ∧ daysInMonth y m ≤ 31 := by
  unfold daysInMonth
  split
  · split <;> omega
  · split <;> omega

theorem ymd_eta (c : YMD) : (⟨c.y, c.m, c.d⟩ : YMD) = c := by cases c; rfl

theorem nextDay_valid (c : YMD) (hv : ValidDate c.y c.m c.d) :
    ValidDate (nextDay c).y (nextDay c).m (nextDay c).d ∧ c.y ≤ (nextDay c).y := by
  obtain ⟨h1, h2, h3, h4⟩ := hv
  by_cases a : c.d < daysInMonth c.y c.m
  · rw [nextDay, if_pos a]
    show ValidDate c.y c.m (c.d + 1) ∧ c.y ≤ c.y
    exact ⟨⟨h1, h2, by omega, by omega⟩, Nat.le_refl _⟩
  · by_cases b : c.m < 12
    · rw [nextDay, if_neg a, if_pos b]
      show ValidDate c.y (c.m + 1) 1 ∧ c.y ≤ c.y
      have := daysInMonth_pos c.y (c.m + 1)
      exact ⟨⟨by omega, by omega, by omega, by omega⟩, Nat.le_refl _⟩
    · rw [nextDay, if_neg a, if_neg b]
      show ValidDate (c.y + 1) 1 1 ∧ c.y ≤ c.y + 1
      have := daysInMonth_pos (c.y + 1) 1
      exact ⟨⟨by omega, by omega, by omega, by omega⟩, by omega⟩

theorem dfc_nextDay (c : YMD) (hy : 1970 ≤ c.y) (hv : ValidDate c.y c.m c.d) :
    daysFromCivil (nextDay c).y (nextDay c).m (nextDay c).d = daysFromCivil c.y c.m c.d + 1 := by
  obtain ⟨h1, h2, h3, h4⟩ := hv
  have hlast : ¬ c.d < daysInMonth c.y c.m →
      daysFromCivil c.y c.m c.d + 1 = daysFromCivil c.y c.m 1 + daysInMonth c.y c.m := by
    intro h
    have : c.d = 1 + (daysInMonth c.y c.m - 1) := by omega
    rw [this, dfc_day c.y c.m 1 _ hy h1 (by omega)]
    omega
  unfold nextDay
  split
  · exact dfc_day c.y c.m c.d 1 hy h1 h3
  · rename_i hd
    split
    · show daysFromCivil c.y (c.m + 1) 1 = _
      rw [dfc_month c.y c.m hy h1 h2, hlast hd]
    · have hm : c.m = 12 := by omega
      show daysFromCivil (c.y + 1) 1 1 = _
      rw [← dfc_year c.y hy, hlast hd, ← dfc_month c.y c.m hy h1 h2, hm]

/-- every day number from the epoch on is a valid date, and the next day number is the next date -/
theorem civil_day_by_day : ∀ z, ValidDate (civil z).y (civil z).m (civil z).d ∧ 1970 ≤ (civil z).y ∧
    civil (z + 1) = nextDay (civil z) := by
  have step : ∀ z, ValidDate (civil z).y (civil z).m (civil z).d → 1970 ≤ (civil z).y →
      civil (z + 1) = nextDay (civil z) := by
    intro z hv hy
    have hn := nextDay_valid (civil z) hv
    have hd := dfc_nextDay (civil z) hy hv
    rw [days_civil z] at hd
    have := civil_days (nextDay (civil z)).y (nextDay (civil z)).m (nextDay (civil z)).d (by omega) hn.1
    rw [hd, ymd_eta] at this
    exact this
  intro z
  induction z with
  | zero =>
    have h0 : civil 0 = ⟨1970, 1, 1⟩ := by decide
    have hd : daysInMonth 1970 1 = 31 := by decide
    have hv : ValidDate (civil 0).y (civil 0).m (civil 0).d := by
      rw [h0]; show ValidDate 1970 1 1
      exact ⟨by omega, by omega, by omega, by omega⟩
    have hy : 1970 ≤ (civil 0).y := by rw [h0]; show 1970 ≤ 1970; omega
    exact ⟨hv, hy, step 0 hv hy⟩
  | succ z ih =>
    obtain ⟨hv, hy, hs⟩ := ih
    have hn := nextDay_valid (civil z) hv
    have hv' : ValidDate (civil (z + 1)).y (civil (z + 1)).m (civil (z + 1)).d := by rw [hs]; exact hn.1
    have hy' : 1970 ≤ (civil (z + 1)).y := by rw [hs]; omega
    exact ⟨hv', hy', step (z + 1) hv' hy'⟩

/-- the year never decreases along the days -/
theorem civil_year_mono (a : Nat) : ∀ k, (civil a).y ≤ (civil (a + k)).y := by
  intro k
  induction k with
  | zero => exact Nat.le_refl _
  | succ k ih =>
    obtain ⟨hv, _, hs⟩ := civil_day_by_day (a + k)
    have := (nextDay_valid _ hv).2
    rw [show a + (k + 1) = a + k + 1 by omega, hs]
    omega

/-- from 1971-01-01 (day 365) on the year is at least 1971 -/
theorem civil_year_ge (z : Nat) (h : 365 ≤ z) : 1971 ≤ (civil z).y := by
  have h0 : civil 365 = ⟨1971, 1, 1⟩ := by decide
  have := civil_year_mono 365 (z - 365)
  rw [show 365 + (z - 365) = z by omega, h0] at this
  exact this

end Cal
