/-
  Golib.Cal.ObjHistory — statements about whole histories of Parse calls on one DateFormat object
  (`parseHistory` = fold of `parseObj` over the calls), including histories with failing calls and
  arbitrary texts in between, and about the variant of Parse that clears its map on entry
  (proposed repair `proposed/C19/fix-D41-reuse.diff`).
-/
import Golib.Cal.DateFormatObjProof

namespace Cal

/-- the object's map after a history of calls -/
def stateAfter (pat : List Char) : PStateZ → List (Fields × List Char) → PStateZ
  | st, [] => st
  | st, (now, inp) :: rest => stateAfter pat (parseObj st pat now inp).1 rest

theorem parseHistory_append (pat : List Char) : ∀ (h1 h2 : List (Fields × List Char)) (st : PStateZ),
    parseHistory pat st (h1 ++ h2) = parseHistory pat st h1 ++ parseHistory pat (stateAfter pat st h1) h2 := by
  intro h1
  induction h1 with
  | nil => intro h2 st; rfl
  | cons c h1 ih =>
    intro h2 st
    obtain ⟨now, inp⟩ := c
    simp only [List.cons_append, parseHistory, stateAfter, ih]

/-- **whole histories, all seven letters**: whatever happened on the object before (any calls, any
    texts, failures included — `st` is arbitrary), a run of calls each parsing the format of an
    instant returns exactly those instants, whatever the clocks show -/
theorem parseHistory_all (pat : List Char) (hall : ∀ c ∈ letterList, c ∈ pat) :
    ∀ (calls : List (Fields × Nat)) (st : PStateZ),
      (∀ c ∈ calls, 365 * MS_DAY ≤ c.2 ∧ c.2 < 2900000 * MS_DAY) →
      parseHistory pat st (calls.map fun c => (c.1, format pat (fieldsOf c.2))) =
        calls.map fun c => some (c.2 : Int) := by
  intro calls
  induction calls with
  | nil => intro st _; rfl
  | cons c calls ih =>
    intro st h
    have hc := h c (List.mem_cons_self ..)
    simp only [List.map_cons, parseHistory]
    rw [parseObj_format_all st pat c.1 c.2 hc.1 hc.2 hall, ih _ (fun x hx => h x (List.mem_cons_of_mem _ hx))]

/-! ### a full map makes every later call independent of the clock — for arbitrary texts -/

theorem set_full (p : PStateZ) (c : Char) (v : Int) (h : p.Full) : (p.set c v).Full := by
  obtain ⟨h1, h2, h3, h4, h5, h6, h7⟩ := h
  unfold PStateZ.set
  split; · exact ⟨rfl, h2, h3, h4, h5, h6, h7⟩
  split; · exact ⟨h1, rfl, h3, h4, h5, h6, h7⟩
  split; · exact ⟨h1, h2, rfl, h4, h5, h6, h7⟩
  split; · exact ⟨h1, h2, h3, rfl, h5, h6, h7⟩
  split; · exact ⟨h1, h2, h3, h4, rfl, h6, h7⟩
  split; · exact ⟨h1, h2, h3, h4, h5, rfl, h7⟩
  exact ⟨h1, h2, h3, h4, h5, h6, rfl⟩

theorem parseLoopZ_full (sz : Nat) : ∀ (pat : List Char) (i : Nat) (inp : List Char) (p : PStateZ),
    p.Full → (parseLoopZ sz pat i inp p).1.Full := by
  intro pat
  induction pat with
  | nil => intro i inp p h; exact h
  | cons c pat ih =>
    intro i inp p h
    rw [parseLoopZ]
    split
    · exact h
    · split
      · split
        · exact ih _ _ _ (set_full p c _ h)
        · exact h
      · exact ih _ _ _ h

theorem fill_of_full (p : PStateZ) (now₁ now₂ : Fields) (h : p.Full) : p.fill now₁ = p.fill now₂ := by
  obtain ⟨h1, h2, h3, h4, h5, h6, h7⟩ := h
  cases p with
  | mk y m d H M S s =>
    cases y <;> cases m <;> cases d <;> cases H <;> cases M <;> cases S <;> cases s <;>
      simp_all [PStateZ.fill]

/-- one call on a full map: result **and** new map do not depend on the clock, for any text -/
theorem parseObj_full_clock_free (st : PStateZ) (pat : List Char) (now₁ now₂ : Fields) (inp : List Char)
    (h : st.Full) : parseObj st pat now₁ inp = parseObj st pat now₂ inp := by
  have hf := parseLoopZ_full (utf8Len inp) pat 0 inp st h
  unfold parseObj
  simp only []
  rw [fill_of_full _ now₁ now₂ hf]

theorem parseObj_keeps_full (st : PStateZ) (pat : List Char) (now : Fields) (inp : List Char)
    (h : st.Full) : (parseObj st pat now inp).1.Full := by
  have hf := parseLoopZ_full (utf8Len inp) pat 0 inp st h
  unfold parseObj
  simp only []
  split
  · exact fill_full _ _
  · exact hf

/-- **whole histories after one success**: two histories with the same texts and different clock
    readings give the same results, call by call -/
theorem parseHistory_clock_free (pat : List Char) :
    ∀ (calls : List (Fields × Fields × List Char)) (st : PStateZ), st.Full →
      parseHistory pat st (calls.map fun c => (c.1, c.2.2)) =
        parseHistory pat st (calls.map fun c => (c.2.1, c.2.2)) := by
  intro calls
  induction calls with
  | nil => intro st _; rfl
  | cons c calls ih =>
    intro st h
    simp only [List.map_cons, parseHistory]
    rw [parseObj_full_clock_free st pat c.1 c.2.1 c.2.2 h]
    rw [ih _ (parseObj_keeps_full st pat c.2.1 c.2.2 h)]

/-! ### the repaired Parse: map cleared on entry -/

/-- `Parse` with `this.date = make(map[rune]int)` as its first statement -/
def parseObjReset (_st : PStateZ) (pat : List Char) (now : Fields) (inp : List Char) : PStateZ × Option Int :=
  parseObj {} pat now inp

def parseHistoryReset (pat : List Char) : PStateZ → List (Fields × List Char) → List (Option Int)
  | _, [] => []
  | st, (now, inp) :: rest =>
    let r := parseObjReset st pat now inp
    r.2 :: parseHistoryReset pat r.1 rest

/-- with the repair every call of a history is a call on a fresh object: no dependence on earlier
    calls (frame: the map before the call is irrelevant) -/
theorem parseHistoryReset_fresh (pat : List Char) : ∀ (calls : List (Fields × List Char)) (st : PStateZ),
    parseHistoryReset pat st calls = calls.map fun c => (parseObj {} pat c.1 c.2).2 := by
  intro calls
  induction calls with
  | nil => intro st; rfl
  | cons c calls ih => intro st; obtain ⟨now, inp⟩ := c; simp only [parseHistoryReset, parseObjReset, List.map_cons, ih]

end Cal
