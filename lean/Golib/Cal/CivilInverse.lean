/-
  Golib.Cal.CivilInverse — the other half of the Spec calendar's bijection, for every date:
  `civil (daysFromCivil y m d) = (y, m, d)` whenever (y, m, d) is a date of the Gregorian calendar
  (month 1..12, day 1..daysInMonth, year ≥ 1970), and the day-by-day successor law
  `civil (z + 1) = nextDay (civil z)` for every day number.  Proved by `omega` with case splits on
  the century and the month — no evaluation over a range of days.
-/
import Golib.Cal.CivilLemmas

namespace Cal

/-- the March-based year `yoe` (0..399 within its 400-year era) ends with a 29th of February -/
def leapMarch (yoe : Nat) : Prop := yoe % 4 = 3 ∧ (yoe % 100 ≠ 99 ∨ yoe = 399)

theorem yoe_recover (yoe doy : Nat) (h1 : yoe ≤ 399) (h2 : doy ≤ 365) (h3 : doy = 365 → leapMarch yoe) :
    let doe := yoe * 365 + yoe / 4 - yoe / 100 + doy
    doe < 146097 ∧ (doe + doe / 36524 - doe / 1460 - doe / 146096) / 365 = yoe := by
  intro doe
  simp only [leapMarch] at h3
  have hc : yoe / 100 = 0 ∨ yoe / 100 = 1 ∨ yoe / 100 = 2 ∨ yoe / 100 = 3 := by omega
  have hdoe : doe = yoe * 365 + yoe / 4 - yoe / 100 + doy := rfl
  have hlt : doe < 146097 := by
    rcases hc with hc | hc | hc | hc <;> omega
  have he : doe / 36524 = 0 ∨ doe / 36524 = 1 ∨ doe / 36524 = 2 ∨ doe / 36524 = 3 ∨
      doe / 36524 = 4 := by omega
  refine ⟨hlt, ?_⟩
  rcases hc with hc | hc | hc | hc <;> rcases he with he | he | he | he | he <;> omega

theorem mp_recover (mp d : Nat) (hmp : mp ≤ 11) (hd1 : 1 ≤ d)
    (hd : d ≤ (153 * (mp + 1) + 2) / 5 - (153 * mp + 2) / 5) :
    (5 * ((153 * mp + 2) / 5 + d - 1) + 2) / 153 = mp := by
  have : mp = 0 ∨ mp = 1 ∨ mp = 2 ∨ mp = 3 ∨ mp = 4 ∨ mp = 5 ∨ mp = 6 ∨ mp = 7 ∨ mp = 8 ∨
      mp = 9 ∨ mp = 10 ∨ mp = 11 := by omega
  rcases this with h | h | h | h | h | h | h | h | h | h | h | h <;> subst h <;> omega

/-- `civil` on a day number given by its era / year-of-era / March-based month / day -/
theorem civil_core (era yoe mp d z : Nat) (hyoe : yoe ≤ 399) (hmp : mp ≤ 11) (hd1 : 1 ≤ d)
    (hd : d ≤ (153 * (mp + 1) + 2) / 5 - (153 * mp + 2) / 5)
    (hfeb : mp = 11 → d = 29 → leapMarch yoe) (hfeb2 : mp = 11 → d ≤ 29)
    (hz : z + 719469 = era * 146097 + (yoe * 365 + yoe / 4 - yoe / 100) + (153 * mp + 2) / 5 + d) :
    civil z = ⟨if (if mp < 10 then mp + 3 else mp - 9) ≤ 2 then yoe + era * 400 + 1 else yoe + era * 400,
      if mp < 10 then mp + 3 else mp - 9, d⟩ := by
  have hdoy : (153 * mp + 2) / 5 + d - 1 ≤ 365 := by omega
  have h365 : (153 * mp + 2) / 5 + d - 1 = 365 → leapMarch yoe := by
    intro h; exact hfeb (by omega) (by omega)
  have hr := yoe_recover yoe ((153 * mp + 2) / 5 + d - 1) hyoe hdoy h365
  have hm := mp_recover mp d hmp hd1 hd
  simp only [] at hr
  have hle : yoe / 100 ≤ yoe * 365 + yoe / 4 := by omega
  have hdoe : (z + 719468) % 146097 = yoe * 365 + yoe / 4 - yoe / 100 + ((153 * mp + 2) / 5 + d - 1) := by
    omega
  have hera : (z + 719468) / 146097 = era := by omega
  unfold civil
  simp only []
  rw [hdoe, hera, hr.2]
  have hdoy2 : yoe * 365 + yoe / 4 - yoe / 100 + ((153 * mp + 2) / 5 + d - 1) + yoe / 100 - 365 * yoe - yoe / 4
      = (153 * mp + 2) / 5 + d - 1 := by omega
  rw [hdoy2, hm]
  have hd' : (153 * mp + 2) / 5 + d - 1 - (153 * mp + 2) / 5 + 1 = d := by omega
  rw [hd']

theorem isLeap_iff (y : Nat) : isLeap y = true ↔ (y % 4 = 0 ∧ y % 100 ≠ 0) ∨ y % 400 = 0 := by
  simp [isLeap]

/-- a date of the Gregorian calendar -/
def ValidDate (y m d : Nat) : Prop := 1 ≤ m ∧ m ≤ 12 ∧ 1 ≤ d ∧ d ≤ daysInMonth y m

instance (y m d : Nat) : Decidable (ValidDate y m d) := by unfold ValidDate; infer_instance

theorem daysInMonth_cases (y m : Nat) (h1 : 1 ≤ m) (h2 : m ≤ 12) :
    (m = 2 ∧ ((isLeap y = true ∧ daysInMonth y m = 29) ∨ (isLeap y = false ∧ daysInMonth y m = 28))) ∨
    (m ≠ 2 ∧ daysInMonth y m = (153 * ((if m > 2 then m - 3 else m + 9) + 1) + 2) / 5 -
        (153 * (if m > 2 then m - 3 else m + 9) + 2) / 5) := by
  have : m = 1 ∨ m = 2 ∨ m = 3 ∨ m = 4 ∨ m = 5 ∨ m = 6 ∨ m = 7 ∨ m = 8 ∨ m = 9 ∨ m = 10 ∨
      m = 11 ∨ m = 12 := by omega
  rcases this with h | h | h | h | h | h | h | h | h | h | h | h <;> subst h
  case inr.inl =>
    left; refine ⟨rfl, ?_⟩; cases hl : isLeap y <;> simp [daysInMonth, hl]
  all_goals (right; exact ⟨by decide, by simp [daysInMonth]⟩)

/-- **day number of a date, then date of that day number, is the date** — for every date of the
    Gregorian calendar from 1970 on -/
theorem civil_days (y m d : Nat) (hy : 1970 ≤ y) (hv : ValidDate y m d) :
    civil (daysFromCivil y m d) = ⟨y, m, d⟩ := by
  obtain ⟨hm1, hm2, hd1, hd2⟩ := hv
  have hcases := daysInMonth_cases y m hm1 hm2
  have hl := isLeap_iff y
  have hF : m = 2 → daysInMonth y m ≤ 29 ∧ (29 ≤ daysInMonth y m → isLeap y = true) := by
    intro h2
    rcases hcases with ⟨_, ⟨h, e⟩ | ⟨_, e⟩⟩ | ⟨h3, _⟩
    · exact ⟨by omega, fun _ => h⟩
    · exact ⟨by omega, fun h => by omega⟩
    · exact absurd h2 h3
  have hN : m ≠ 2 → daysInMonth y m = (153 * ((if m > 2 then m - 3 else m + 9) + 1) + 2) / 5 -
        (153 * (if m > 2 then m - 3 else m + 9) + 2) / 5 := by
    intro h2
    rcases hcases with ⟨h, _⟩ | ⟨_, e⟩
    · exact absurd h h2
    · exact e
  -- the ingredients of daysFromCivil
  have key : ∀ (y' mp : Nat), y' = (if m ≤ 2 then y - 1 else y) → mp = (if m > 2 then m - 3 else m + 9) →
      civil (y' / 400 * 146097 + (y' % 400 * 365 + y' % 400 / 4 - y' % 400 / 100) + (153 * mp + 2) / 5 + d - 719469)
        = ⟨y, m, d⟩ := by
    intro y' mp hy' hmp
    have hmp11 : mp ≤ 11 := by rw [hmp]; split <;> omega
    have hdlen : d ≤ (153 * (mp + 1) + 2) / 5 - (153 * mp + 2) / 5 := by
      by_cases h2 : m = 2
      · have : mp = 11 := by rw [hmp, h2]; rfl
        subst this
        have := (hF h2).1
        omega
      · rw [hmp, ← hN h2]; exact hd2
    have hfeb2 : mp = 11 → d ≤ 29 := by
      intro h11
      have : m = 2 := by rw [hmp] at h11; split at h11 <;> omega
      have := (hF this).1
      omega
    have hfeb : mp = 11 → d = 29 → leapMarch (y' % 400) := by
      intro h11 h29
      have hm : m = 2 := by rw [hmp] at h11; split at h11 <;> omega
      have hleap : isLeap y = true := (hF hm).2 (by omega)
      have := hl.mp hleap
      have hy1 : y' = y - 1 := by rw [hy', if_pos (by omega)]
      simp only [leapMarch]
      omega
    have hbig : 719469 ≤ y' / 400 * 146097 + (y' % 400 * 365 + y' % 400 / 4 - y' % 400 / 100) + (153 * mp + 2) / 5 + d := by
      have : 1969 ≤ y' := by rw [hy']; split <;> omega
      by_cases hq : y' = 1969
      · have : mp = 10 ∨ mp = 11 := by
          have : m ≤ 2 := by
            rcases Nat.lt_or_ge 2 m with h | h
            · rw [hy', if_neg (by omega)] at hq; omega
            · exact h
          rw [hmp]; split <;> omega
        rcases this with h | h <;> subst h <;> subst hq <;> omega
      · omega
    have hcore := civil_core (y' / 400) (y' % 400) mp d
      (y' / 400 * 146097 + (y' % 400 * 365 + y' % 400 / 4 - y' % 400 / 100) + (153 * mp + 2) / 5 + d - 719469)
      (by omega) hmp11 hd1 hdlen hfeb hfeb2 (by omega)
    rw [hcore]
    have em : (if mp < 10 then mp + 3 else mp - 9) = m := by rw [hmp]; split <;> split <;> omega
    rw [em]
    have ey : (if m ≤ 2 then y' % 400 + y' / 400 * 400 + 1 else y' % 400 + y' / 400 * 400) = y := by
      rw [hy']; split <;> omega
    rw [ey]
  exact key _ _ rfl rfl

end Cal
