/-
  Golib.Cal.SuccChunk0 — years 0 … 49: the Spec calendar `civil` advances day by day
  according to `nextDay` (kernel evaluation; hand-written definitions only).
-/
import Golib.Cal.Table

namespace Cal

theorem succOk_chunk0 : (List.range' 0 50).all succOk = true := by decide +kernel

end Cal
