/-
  Golib.Cal.SuccChunk1 — years 50 … 99: the Spec calendar `civil` advances day by day
  according to `nextDay` (kernel evaluation; hand-written definitions only).
-/
import Golib.Cal.Table

namespace Cal

theorem succOk_chunk1 : (List.range' 50 50).all succOk = true := by decide +kernel

end Cal
