/-
  Golib.Cal.TableChunk0 — years 0 … 24 of the century: the per-year obligation
  `Cal.yearOk` evaluated by the kernel.  Depends only on hand-written definitions
  (Golib.Cal.Civil, Golib.Cal.Table); generated constants are tied to them in Props/C19Gen.
-/
import Golib.Cal.Table

namespace Cal

theorem yearOk_chunk0 : (List.range' 0 25).all yearOk = true := by decide +kernel

end Cal
