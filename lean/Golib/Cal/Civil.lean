/-
  Golib.Cal.Civil — Spec of C19: the proleptic Gregorian calendar.

  `civil z` is Hinnant's civil-from-days on `Nat` (z = days since 1970-01-01, z ≥ 0),
  `daysFromCivil` its inverse; both are closed-form (no iteration, no month table, no
  leap-year test) and therefore independent of the table-building code of DateTimeHelper.open().
  Weekday index 0 = Monday … 6 = Sunday (the order of the Go table `wday`);
  1970-01-01 was a Thursday (index 3).
-/
namespace Cal

structure YMD where
  y : Nat
  m : Nat
  d : Nat
deriving DecidableEq, Repr

/-- days since 1970-01-01 ↦ (year, month 1..12, day 1..31) -/
def civil (z0 : Nat) : YMD :=
  let z := z0 + 719468
  let era := z / 146097
  let doe := z % 146097
  let yoe := (doe + doe / 36524 - doe / 1460 - doe / 146096) / 365
  let doy := doe + yoe / 100 - 365 * yoe - yoe / 4
  let mp := (5 * doy + 2) / 153
  let d := doy - (153 * mp + 2) / 5 + 1
  let m := if mp < 10 then mp + 3 else mp - 9
  let y := yoe + era * 400
  ⟨if m ≤ 2 then y + 1 else y, m, d⟩

/-- (year ≥ 1970, month, day) ↦ days since 1970-01-01 (linear in `d`, like `time.Date`) -/
def daysFromCivil (y m d : Nat) : Nat :=
  let y' := if m ≤ 2 then y - 1 else y
  let era := y' / 400
  let yoe := y' % 400
  let mp := if m > 2 then m - 3 else m + 9
  era * 146097 + (yoe * 365 + yoe / 4 - yoe / 100) + (153 * mp + 2) / 5 + d - 719469

/-- weekday index (0 = Monday) of day z since 1970-01-01 (a Thursday) -/
def weekdayMon (z : Nat) : Nat := (z + 3) % 7

/-- the Gregorian leap rule on the full year -/
def isLeap (y : Nat) : Bool := (y % 4 == 0 && y % 100 != 0) || y % 400 == 0

def daysInMonth (y m : Nat) : Nat :=
  if m == 2 then (if isLeap y then 29 else 28)
  else if m == 4 || m == 6 || m == 9 || m == 11 then 30 else 31

/-- the day after a date, by the textbook rule (month lengths, Gregorian leap years) -/
def nextDay (c : YMD) : YMD :=
  if c.d < daysInMonth c.y c.m then ⟨c.y, c.m, c.d + 1⟩
  else if c.m < 12 then ⟨c.y, c.m + 1, 1⟩ else ⟨c.y + 1, 1, 1⟩

end Cal
