/-
  Golib.Cal.FmtLemmas — the code's renderers produce the fixed-width digits on their ranges,
  and parsing those digits gives the number back.
-/
import Golib.Cal.Fmt

namespace Cal

theorem digitChar_lt10 : ∀ k, k < 10 → Nat.digitChar k = Char.ofNat (48 + k) := by decide

theorem ofNat_toNat_lt10 : ∀ k, k < 10 → (Char.ofNat (48 + k)).toNat = 48 + k := by decide

theorem digitChar_dig (k m : Nat) (h : k < 10) (hm : m % 10 = k) : Nat.digitChar k = dig m := by
  rw [digitChar_lt10 k h, dig, hm]

theorem dig_toNat (n : Nat) : (dig n).toNat = 48 + n % 10 :=
  ofNat_toNat_lt10 (n % 10) (Nat.mod_lt _ (by decide))

theorem dig_zero (n : Nat) (h : n % 10 = 0) : dig n = '0' := by rw [dig, h]

theorem itoa_1 (n : Nat) (h : n < 10) : itoa n = [dig n] := by
  rw [itoa, Nat.toDigits_of_lt_base h, digitChar_dig n n h (by omega)]

theorem itoa_2 (n : Nat) (h1 : 10 ≤ n) (h : n < 100) : itoa n = [dig (n / 10), dig n] := by
  rw [itoa, Nat.toDigits_of_base_le (by decide) h1, Nat.toDigits_of_lt_base (by omega),
    digitChar_dig (n / 10) (n / 10) (by omega) (by omega),
    digitChar_dig (n % 10) n (by omega) rfl]
  rfl

theorem itoa_3 (n : Nat) (h1 : 100 ≤ n) (h : n < 1000) :
    itoa n = [dig (n / 100), dig (n / 10), dig n] := by
  have := itoa_2 (n / 10) (by omega) (by omega)
  rw [itoa] at this ⊢
  rw [Nat.toDigits_of_base_le (by decide) (by omega), this,
    digitChar_dig (n % 10) n (by omega) rfl, show n / 10 / 10 = n / 100 by omega]
  rfl

theorem itoa_4 (n : Nat) (h1 : 1000 ≤ n) (h : n < 10000) :
    itoa n = [dig (n / 1000), dig (n / 100), dig (n / 10), dig n] := by
  have := itoa_3 (n / 10) (by omega) (by omega)
  rw [itoa] at this ⊢
  rw [Nat.toDigits_of_base_le (by decide) (by omega), this,
    digitChar_dig (n % 10) n (by omega) rfl, show n / 10 / 10 = n / 100 by omega,
    show n / 10 / 100 = n / 1000 by omega]
  rfl

theorem mk2_eq (n : Nat) (h : n < 100) : mk2 n = render2 n := by
  unfold mk2 render2
  split
  · rw [itoa_1 n (by omega), dig_zero (n / 10) (by omega)]
  · rw [itoa_2 n (by omega) h]

theorem mk3_eq (n : Nat) (h : n < 1000) : mk3 n = render3 n := by
  unfold mk3 render3
  split
  · rw [itoa_1 n (by omega), dig_zero (n / 10) (by omega), dig_zero (n / 100) (by omega)]
  · split
    · rw [itoa_2 n (by omega) (by omega), dig_zero (n / 100) (by omega)]
    · rw [itoa_3 n (by omega) h]

theorem pad0_2_eq (n : Nat) (h : n < 100) : pad0 2 n = render2 n := by
  unfold pad0 render2
  by_cases h1 : n < 10
  · rw [itoa_1 n h1, dig_zero (n / 10) (by omega)]; rfl
  · rw [itoa_2 n (by omega) h]; rfl

theorem pad0_3_eq (n : Nat) (h : n < 1000) : pad0 3 n = render3 n := by
  unfold pad0 render3
  by_cases h1 : n < 10
  · rw [itoa_1 n h1, dig_zero (n / 10) (by omega), dig_zero (n / 100) (by omega)]; rfl
  by_cases h2 : n < 100
  · rw [itoa_2 n (by omega) h2, dig_zero (n / 100) (by omega)]; rfl
  · rw [itoa_3 n (by omega) h]; rfl

theorem pad0_4_eq (n : Nat) (h : n < 10000) : pad0 4 n = render4 n := by
  unfold pad0 render4
  by_cases h1 : n < 10
  · rw [itoa_1 n h1, dig_zero (n / 10) (by omega), dig_zero (n / 100) (by omega),
      dig_zero (n / 1000) (by omega)]; rfl
  by_cases h2 : n < 100
  · rw [itoa_2 n (by omega) h2, dig_zero (n / 100) (by omega), dig_zero (n / 1000) (by omega)]; rfl
  by_cases h3 : n < 1000
  · rw [itoa_3 n (by omega) h3, dig_zero (n / 1000) (by omega)]; rfl
  · rw [itoa_4 n (by omega) h]; rfl

/-- `%d` of a four-digit year is its four digits -/
theorem itoa_4_eq (n : Nat) (h1 : 1000 ≤ n) (h : n < 10000) : itoa n = render4 n := itoa_4 n h1 h

theorem isDig_dig (n : Nat) : isDig (dig n) = true := by
  simp only [isDig, dig_toNat, Bool.and_eq_true, decide_eq_true_eq]; omega

theorem atoi_render2 (n : Nat) (h : n < 100) : atoiNat (render2 n) = some n := by
  simp only [atoiNat, render2, List.isEmpty_cons, Bool.false_eq_true, if_false, List.foldl_cons,
    List.foldl_nil, Option.bind_some, isDig_dig, if_true, dig_toNat]
  congr 1; omega

theorem atoi_render3 (n : Nat) (h : n < 1000) : atoiNat (render3 n) = some n := by
  simp only [atoiNat, render3, List.isEmpty_cons, Bool.false_eq_true, if_false, List.foldl_cons,
    List.foldl_nil, Option.bind_some, isDig_dig, if_true, dig_toNat]
  congr 1; omega

theorem atoi_render4 (n : Nat) (h : n < 10000) : atoiNat (render4 n) = some n := by
  simp only [atoiNat, render4, List.isEmpty_cons, Bool.false_eq_true, if_false, List.foldl_cons,
    List.foldl_nil, Option.bind_some, isDig_dig, if_true, dig_toNat]
  congr 1; omega

theorem dig_ne_sign (n : Nat) : dig n ≠ '-' ∧ dig n ≠ '+' := by
  have := dig_toNat n
  constructor <;> intro e <;> rw [e] at this <;> revert this <;> simp <;> omega

theorem render2_length (n : Nat) : (render2 n).length = 2 := rfl
theorem render3_length (n : Nat) : (render3 n).length = 3 := rfl
theorem render4_length (n : Nat) : (render4 n).length = 4 := rfl

end Cal
