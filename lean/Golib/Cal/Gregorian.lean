/-
  Golib.Cal.Gregorian — the calendar defined the way a person would: by counting days.

  `gregorian z` starts at 1970-01-01 and applies, z times, the textbook successor `nextDay`
  (month lengths 31/28|29/31/30/…, February has 29 days exactly in years divisible by 4 but not
  by 100, or divisible by 400).  `weekdayIter z` starts at Thursday (index 3, Monday = 0) and steps
  modulo 7.  These are the *independent definition*; the closed forms `civil`, `daysFromCivil`,
  `weekdayMon` used by the rest of the development are proved equal to them for ALL days.
-/
import Golib.Cal.CivilSucc

namespace Cal

def gregorian : Nat → YMD
  | 0 => ⟨1970, 1, 1⟩
  | z + 1 => nextDay (gregorian z)

def weekdayIter : Nat → Nat
  | 0 => 3
  | z + 1 => if weekdayIter z = 6 then 0 else weekdayIter z + 1

/-- the closed-form calendar is the counted calendar, for every day -/
theorem civil_eq_gregorian (z : Nat) : civil z = gregorian z := by
  induction z with
  | zero => decide
  | succ z ih => rw [(civil_day_by_day z).2.2, ih, gregorian]

theorem weekdayMon_eq_iter (z : Nat) : weekdayMon z = weekdayIter z := by
  induction z with
  | zero => rfl
  | succ z ih => rw [weekdayIter, ← ih, wd_step]

/-- counting `daysFromCivil y m d` days from 1970-01-01 arrives at (y, m, d) — for every valid date -/
theorem gregorian_of_date (y m d : Nat) (hy : 1970 ≤ y) (hv : ValidDate y m d) :
    gregorian (daysFromCivil y m d) = ⟨y, m, d⟩ := by
  rw [← civil_eq_gregorian, civil_days y m d hy hv]

/-- and the day number of the z-th counted date is z -/
theorem days_of_gregorian (z : Nat) :
    daysFromCivil (gregorian z).y (gregorian z).m (gregorian z).d = z := by
  rw [← civil_eq_gregorian, days_civil]

theorem gregorian_valid (z : Nat) : ValidDate (gregorian z).y (gregorian z).m (gregorian z).d := by
  rw [← civil_eq_gregorian]; exact (civil_day_by_day z).1

end Cal
