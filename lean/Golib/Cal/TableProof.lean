/-
  Golib.Cal.TableProof — from the hundred per-year kernel checks to statements about the
  whole table built by open(): `dateTable = map specDay (range 36525)` and the
  `table[y][m][d]` lookup of every day.
-/
import Golib.Cal.TableChunk0
import Golib.Cal.TableChunk1
import Golib.Cal.TableChunk2
import Golib.Cal.TableChunk3
import Golib.Cal.SuccChunk0
import Golib.Cal.SuccChunk1

namespace Cal

theorem yearOk_all (y : Nat) (h : y < 100) : yearOk y = true := by
  have h0 := List.all_eq_true.mp yearOk_chunk0
  have h1 := List.all_eq_true.mp yearOk_chunk1
  have h2 := List.all_eq_true.mp yearOk_chunk2
  have h3 := List.all_eq_true.mp yearOk_chunk3
  by_cases a : y < 25
  · exact h0 y (List.mem_range'_1.mpr ⟨by omega, by omega⟩)
  by_cases b : y < 50
  · exact h1 y (List.mem_range'_1.mpr ⟨by omega, by omega⟩)
  by_cases c : y < 75
  · exact h2 y (List.mem_range'_1.mpr ⟨by omega, by omega⟩)
  · exact h3 y (List.mem_range'_1.mpr ⟨by omega, by omega⟩)

/-- the year's part of `table` when the loop enters year `y` in state `stAt y` -/
def YT (y : Nat) : List (List Day) := (yearTab y (stAt y)).1

theorem yearOk_state (y : Nat) (h : y < 100) : (yearTab y (stAt y)).2 = stAt (y + 1) := by
  have := yearOk_all y h
  simp only [yearOk, Bool.and_eq_true, decide_eq_true_eq] at this
  exact this.1.1

theorem yearOk_flat (y : Nat) (h : y < 100) :
    (YT y).flatten = (List.range' (db y) (ylen y)).map specDay := by
  have := yearOk_all y h
  simp only [yearOk, Bool.and_eq_true, decide_eq_true_eq] at this
  exact this.1.2

theorem yearOk_lookup (y i : Nat) (h : y < 100) (h1 : db y ≤ i) (h2 : i < db y + ylen y) :
    (specDay i).yyyy = 2000 + y ∧
    ((YT y)[(specDay i).mm - 1]?.bind (·[(specDay i).dd - 1]?)) = some (specDay i) := by
  have := yearOk_all y h
  simp only [yearOk, Bool.and_eq_true, decide_eq_true_eq, List.all_eq_true] at this
  have hm : specDay i ∈ (List.range' (db y) (ylen y)).map specDay :=
    List.mem_map.mpr ⟨i, List.mem_range'_1.mpr ⟨h1, h2⟩, rfl⟩
  exact this.2 _ hm

theorem yearOk_succ (y i : Nat) (h : y < 100) (h1 : db y ≤ i) (h2 : i < db y + ylen y) :
    civil (BASE_DAY + i + 1) = nextDay (civil (BASE_DAY + i)) := by
  have h0 := List.all_eq_true.mp succOk_chunk0
  have h5 := List.all_eq_true.mp succOk_chunk1
  have : succOk y = true := by
    by_cases a : y < 50
    · exact h0 y (List.mem_range'_1.mpr ⟨by omega, by omega⟩)
    · exact h5 y (List.mem_range'_1.mpr ⟨by omega, by omega⟩)
  simp only [succOk, List.all_eq_true, decide_eq_true_eq] at this
  exact this i (List.mem_range'_1.mpr ⟨h1, h2⟩)

theorem yearLoop_eq (n : Nat) : ∀ (y : Nat) (s : St), y + n ≤ 100 → s = stAt y →
    yearLoop n y s = ((List.range' y n).map YT, stAt (y + n)) := by
  induction n with
  | zero => intro y s _ hs; simp [yearLoop, hs]
  | succ n ih =>
    intro y s hy hs
    subst hs
    have hst := yearOk_state y (by omega)
    simp only [yearLoop]
    rw [ih (y + 1) _ (by omega) hst]
    simp only [List.range'_succ, List.map_cons, YT]
    congr 2; omega

theorem table3_eq : table3 = (List.range' 0 100).map YT := by
  simp only [table3]
  have h0 : St.init = stAt 0 := by decide
  rw [yearLoop_eq 100 0 St.init (by omega) h0]

theorem db_succ (y : Nat) : db (y + 1) = db y + ylen y := by
  simp only [db, ylen]; split <;> omega

theorem ranges_flat (n : Nat) :
    ((List.range' 0 n).map (fun y => List.range' (db y) (ylen y))).flatten = List.range' 0 (db n) := by
  induction n with
  | zero => simp [db]
  | succ n ih =>
    rw [List.range'_concat, List.map_append, List.flatten_append, ih]
    simp only [List.map_cons, List.map_nil, List.flatten_cons, List.flatten_nil, List.append_nil,
      Nat.zero_add, Nat.one_mul]
    rw [db_succ]
    have := @List.range'_append 0 (db n) (ylen n) 1
    simpa using this

/-- **the table is the calendar**: `dateTable` is, entry by entry, the closed-form calendar
    of the 36 525 days from 2000-01-01 -/
theorem dateTable_eq : dateTable = (List.range' 0 NDAYS).map specDay := by
  simp only [dateTable, table3_eq, List.map_map]
  have h : ∀ y ∈ List.range' 0 100, (List.flatten ∘ YT) y =
      ((fun r => r.map specDay) ∘ (fun y => List.range' (db y) (ylen y))) y := by
    intro y hy
    have : y < 100 := by have := List.mem_range'_1.mp hy; omega
    simp only [Function.comp, yearOk_flat y this]
  rw [List.map_congr_left h, ← List.map_map, ← List.map_flatten, ranges_flat]
  rfl

theorem dateTable_length : dateTable.length = NDAYS := by
  rw [dateTable_eq]; simp

theorem dateTable_get (i : Nat) (h : i < NDAYS) : dateTable[i]? = some (specDay i) := by
  rw [dateTable_eq, List.getElem?_map, List.getElem?_range' (by omega)]
  simp

theorem dateTable_get_none (i : Nat) (h : NDAYS ≤ i) : dateTable[i]? = none := by
  rw [List.getElem?_eq_none]; rw [dateTable_length]; exact h

theorem year_of_day (i : Nat) : ∀ n, i < db n → ∃ y, y < n ∧ db y ≤ i ∧ i < db y + ylen y := by
  intro n
  induction n with
  | zero => intro h; simp [db] at h
  | succ n ih =>
    intro h
    by_cases hn : i < db n
    · obtain ⟨y, hy, h1, h2⟩ := ih hn
      exact ⟨y, by omega, h1, h2⟩
    · exact ⟨n, by omega, by omega, by rw [db_succ] at h; exact h⟩

theorem db_100 : db 100 = NDAYS := by decide

theorem table3_year (y : Nat) (h : y < 100) : table3[y]? = some (YT y) := by
  rw [table3_eq, List.getElem?_map, List.getElem?_range' (by omega)]
  simp

/-- the three-dimensional `table[yyyy-2000][mm-1][dd-1]` holds the same day -/
theorem table3_get (i : Nat) (h : i < NDAYS) :
    lookup3 table3 ((specDay i).yyyy - 2000) ((specDay i).mm - 1) ((specDay i).dd - 1) =
      some (specDay i) := by
  obtain ⟨y, hy, h1, h2⟩ := year_of_day i 100 (by rw [db_100]; exact h)
  obtain ⟨hyy, hl⟩ := yearOk_lookup y i hy h1 h2
  unfold lookup3
  rw [hyy, show 2000 + y - 2000 = y by omega, table3_year y hy, Option.bind_some]
  exact hl

/-- on the century the closed-form calendar is the day-by-day calendar -/
theorem civil_succ_century (i : Nat) (h : i < NDAYS) :
    civil (BASE_DAY + i + 1) = nextDay (civil (BASE_DAY + i)) := by
  obtain ⟨y, hy, h1, h2⟩ := year_of_day i 100 (by rw [db_100]; exact h)
  exact yearOk_succ y i hy h1 h2

/-- open() asks `isYun` about the offset from 2000; on 0..99 that is the Gregorian rule for the year -/
theorem isYun_is_leap : ∀ y, y < 100 → isYun y = isLeap (2000 + y) := by decide

theorem specDay_year (i : Nat) (h : i < NDAYS) :
    2000 ≤ (specDay i).yyyy ∧ (specDay i).yyyy ≤ 2099 := by
  obtain ⟨y, hy, h1, h2⟩ := year_of_day i 100 (by rw [db_100]; exact h)
  have := (yearOk_lookup y i hy h1 h2).1
  omega

end Cal
