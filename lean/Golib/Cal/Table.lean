/-
  Golib.Cal.Table — CodeModel of DateTimeHelper.open() (util/dateutil/DateTimeHelper.go):
  the three nested loops (year 0..99, month 0..11, day 0..monLen-1) that fill
  `table[year][mm][dd]` and, in iteration order, `dateTable[seq]`, threading the running
  weekday index (start 5 = Saturday, wrap after 6) and `mtime` (start BASE_TIME, + one day).

  A `Day` keeps the numeric fields; its two strings are functions of them
  (`Day.date` = Sprintf("%d%02d%02d"), `Day.wday` = wday[idx]) — see Golib.Cal.Helper.
-/
import Golib.Cal.Civil

namespace Cal

def MILLIS_PER_DAY : Int := 86400000
/-- time.Date(2000, January, 1, 0,0,0,0, UTC).Unix() * 1000 -/
def BASE_TIME : Int := 946684800000
/-- 2000-01-01 as days since 1970-01-01 -/
def BASE_DAY : Nat := 10957
/-- days in the table: 2000-01-01 … 2099-12-31 -/
def NDAYS : Nat := 36525

structure Day where
  yyyy : Nat
  mm : Nat
  dd : Nat
  wd : Nat
  time : Int
deriving DecidableEq, Repr

def mdayLen : List Nat := [31, 28, 31, 30, 31, 30, 31, 31, 30, 31, 30, 31]
def wdayLabels : List String := ["Mon", "Tue", "Wed", "Thr", "Fri", "Sat", "Sun"]

/-- `isYun(year)`; open() calls it with the offset 0..99 from 2000, not with the full year -/
def isYun (year : Nat) : Bool := (year % 4 == 0 && year % 100 != 0) || year % 400 == 0

/-- loop state of open(): running weekday index and `mtime` -/
structure St where
  wd : Nat
  mtime : Int
deriving DecidableEq, Repr

def St.next (s : St) : St := ⟨if s.wd = 6 then 0 else s.wd + 1, s.mtime + MILLIS_PER_DAY⟩

/-- `for dd := …; dd < monLen; dd++` (n iterations left) -/
def dayLoop (year mm : Nat) : Nat → Nat → St → List Day × St
  | 0, _, s => ([], s)
  | n + 1, dd, s =>
    let r := dayLoop year mm n (dd + 1) s.next
    (⟨year + 2000, mm + 1, dd + 1, s.wd, s.mtime⟩ :: r.1, r.2)

def monLen (year mm : Nat) : Nat :=
  mdayLen.getD mm 0 + (if mm == 1 && isYun year then 1 else 0)

/-- `for mm := …; mm < 12; mm++` (n iterations left) -/
def monthLoop (year : Nat) : Nat → Nat → St → List (List Day) × St
  | 0, _, s => ([], s)
  | n + 1, mm, s =>
    let a := dayLoop year mm (monLen year mm) 0 s
    let r := monthLoop year n (mm + 1) a.2
    (a.1 :: r.1, r.2)

/-- one iteration of the year loop: `table[year]` and the state after it -/
def yearTab (year : Nat) (s : St) : List (List Day) × St := monthLoop year 12 0 s

/-- `for year := …; year < 100; year++` (n iterations left) -/
def yearLoop : Nat → Nat → St → List (List (List Day)) × St
  | 0, _, s => ([], s)
  | n + 1, y, s =>
    let a := yearTab y s
    let r := yearLoop n (y + 1) a.2
    (a.1 :: r.1, r.2)

def St.init : St := ⟨5, BASE_TIME⟩

/-- `this.table` after open() -/
def table3 : List (List (List Day)) := (yearLoop 100 0 St.init).1

/-- `this.dateTable[0 .. seq)` after open(): the same days in iteration order -/
def dateTable : List Day := (table3.map List.flatten).flatten

def lookup3 (t : List (List (List Day))) (y m d : Nat) : Option Day :=
  (t[y]?.bind (·[m]?)).bind (·[d]?)

/-! ### Spec side: what the table should contain -/

/-- entry `i` of the calendar of the century, from the closed-form calendar -/
def specDay (i : Nat) : Day :=
  let c := civil (BASE_DAY + i)
  ⟨c.y, c.m, c.d, weekdayMon (BASE_DAY + i), BASE_TIME + (i : Int) * MILLIS_PER_DAY⟩

/-- days of the table before year 2000+y (y ≤ 100): 365·y + ⌈y/4⌉ -/
def db (y : Nat) : Nat := 365 * y + (y + 3) / 4
def ylen (y : Nat) : Nat := if y % 4 = 0 then 366 else 365
/-- hand-written closed form of the loop state at the start of year y -/
def stAt (y : Nat) : St := ⟨(5 + db y) % 7, BASE_TIME + (db y : Int) * MILLIS_PER_DAY⟩

/-- the per-year obligation (evaluated by the kernel, one year at a time):
    starting from `stAt y` the loop body for `year = y`
    (1) ends in `stAt (y+1)`, (2) produces, in order, exactly the `specDay`s of that year's
    day range, and (3) files each of them under `[mm-1][dd-1]` of a year 2000+y -/
def yearOk (y : Nat) : Bool :=
  let r := yearTab y (stAt y)
  let spec := (List.range' (db y) (ylen y)).map specDay
  decide (r.2 = stAt (y + 1)) && decide (r.1.flatten = spec) &&
    spec.all (fun d => decide (d.yyyy = 2000 + y) &&
      decide (((r.1)[d.mm - 1]?.bind (·[d.dd - 1]?)) = some d))

/-- Spec side alone: the closed-form calendar steps from each day of year 2000+y to the next by
    the textbook successor rule `nextDay` -/
def succOk (y : Nat) : Bool :=
  (List.range' (db y) (ylen y)).all (fun i =>
    decide (civil (BASE_DAY + i + 1) = nextDay (civil (BASE_DAY + i))))

end Cal
