/-
  Golib.Cal.TableChunk3 — years 75 … 99 of the century: the per-year obligation
  `Cal.yearOk` evaluated by the kernel.  Depends only on hand-written definitions
  (Golib.Cal.Civil, Golib.Cal.Table); generated constants are tied to them in Props/C19Gen.
-/
import Golib.Cal.Table

namespace Cal

theorem yearOk_chunk3 : (List.range' 75 25).all yearOk = true := by decide +kernel

end Cal
