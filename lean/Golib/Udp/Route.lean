/-
  Golib.Udp.Route — CreatePack / ClosePack over the pools of SEVERAL pack types at once.

  The two switches of UdpPack.go route a pack type to a `sync.Pool`: `ClosePack` files the cleared
  pack into the pool its switch names for `p.GetPackType()`, `CreatePack` takes an object out of
  the pool its switch names for the requested type and asserts the type (`.(*UdpTxSqlPack)`): an
  object of another type makes the assertion panic.  `Routing` holds the two maps (type name ↦ pool
  variable) as data — they are regenerated from the source by tie A.

  A pooled object is tagged with the type that was filed; `sync.Pool` hands back any object of the
  pool or a new one and may drop objects (its contract).  A history interleaves events of any
  types; the packs being released are arbitrary.

  Theorem `route_clean`: if both switches name the same pool for every type and no two types share
  a pool, then in every history no CreatePack panics and every pack handed out for type B is, on
  all of B's struct fields, B's Clear() constants or B's constructor constants (with Ver set) —
  whatever was released before, of whatever types.
-/
import Golib.Udp.ProcessThm

namespace Udp

structure Routing where
  closePool : String → String
  createPool : String → String

abbrev Pools := String → List (String × Rec)

def Pools.put (ps : Pools) (pool : String) (o : String × Rec) : Pools :=
  fun q => if q = pool then o :: ps q else ps q
def Pools.setPool (ps : Pools) (pool : String) (l : List (String × Rec)) : Pools :=
  fun q => if q = pool then l else ps q

inductive MEv where
  | close (t : PackT) (p : Rec)
  | create (t : PackT) (pick : Option Nat) (ver : Int)
  | drop (pool : String) (i : Nat)

/-- run a history; `none` = a CreatePack met an object of another type in its pool (type-assertion
    panic); otherwise the packs handed out, in order, with the type and version asked for -/
def runM (R : Routing) : List MEv → Pools → Option (List (PackT × Int × Rec))
  | [], _ => some []
  | .close t p :: evs, ps => runM R evs (ps.put (R.closePool t.name) (t.name, t.clearOp p))
  | .drop pool i :: evs, ps => runM R evs (ps.setPool pool ((ps pool).eraseIdx i))
  | .create t pick ver :: evs, ps =>
    let pool := R.createPool t.name
    let taken : Option (Option (String × Rec) × Pools) :=
      match pick with
      | some i =>
        if h : i < (ps pool).length then some (some (ps pool)[i], ps.setPool pool ((ps pool).eraseIdx i))
        else some (none, ps)
      | none => some (none, ps)
    match taken with
    | some (some (tag, o), ps') =>
      if tag = t.name then (runM R evs ps').map ((t, ver, o.set "Ver" (.int ver)) :: ·) else none
    | some (none, ps') => (runM R evs ps').map ((t, ver, t.freshRec.set "Ver" (.int ver)) :: ·)
    | none => none

/-- a pooled object of pool `P` was filed for a type routed to `P` and carries that type's Clear() constants -/
def PoolsInv (R : Routing) (types : List PackT) (ps : Pools) : Prop :=
  ∀ P, ∀ o ∈ ps P, ∃ t ∈ types, t.name = o.1 ∧ R.createPool t.name = P ∧
    ∀ f ∈ t.fieldNames, o.2 f = t.clearedRec f

/-- the pack handed out is a never-used pack of its type -/
def CleanOut (out : PackT × Int × Rec) : Prop :=
  (∀ f ∈ out.1.fieldNames, out.2.2 f = (out.1.clearedRec.set "Ver" (.int out.2.1)) f) ∨
  (∀ f ∈ out.1.fieldNames, out.2.2 f = (out.1.freshRec.set "Ver" (.int out.2.1)) f)

def evTypeIn (types : List PackT) : MEv → Prop
  | .close t _ => t ∈ types
  | .create t _ _ => t ∈ types
  | .drop _ _ => True

theorem name_inj (types : List PackT) (hn : (types.map (·.name)).Nodup) (t u : PackT)
    (ht : t ∈ types) (hu : u ∈ types) (h : t.name = u.name) : t = u := by
  induction types with
  | nil => cases ht
  | cons a l ih =>
    simp only [List.map_cons, List.nodup_cons, List.mem_map, not_exists, not_and] at hn
    rcases List.mem_cons.mp ht with rfl | ht' <;> rcases List.mem_cons.mp hu with rfl | hu'
    · rfl
    · exact absurd h.symm (hn.1 u hu')
    · exact absurd h (hn.1 t ht')
    · exact ih hn.2 ht' hu'

theorem clean_set_ver (t : PackT) (o : Rec) (ver : Int) (h : ∀ f ∈ t.fieldNames, o f = t.clearedRec f) :
    ∀ f ∈ t.fieldNames, (o.set "Ver" (.int ver)) f = (t.clearedRec.set "Ver" (.int ver)) f := by
  intro f hf; simp only [Rec.set]; split
  · rfl
  · exact h f hf

theorem route_inv (R : Routing) (types : List PackT)
    (hn : (types.map (·.name)).Nodup)
    (hsame : ∀ t ∈ types, R.closePool t.name = R.createPool t.name)
    (hinj : ∀ t ∈ types, ∀ u ∈ types, R.createPool t.name = R.createPool u.name → t.name = u.name)
    (hclr : ∀ t ∈ types, t.clearTotal = true)
    (evs : List MEv) (hev : ∀ e ∈ evs, evTypeIn types e) (ps : Pools) (hinv : PoolsInv R types ps) :
    ∃ outs, runM R evs ps = some outs ∧ ∀ out ∈ outs, out.1 ∈ types ∧ CleanOut out := by
  induction evs generalizing ps with
  | nil => exact ⟨[], rfl, by intro o ho; cases ho⟩
  | cons ev evs ih =>
    have hrest : ∀ e ∈ evs, evTypeIn types e := fun e he => hev e (by simp [he])
    have herase : ∀ (pool : String) (i : Nat), PoolsInv R types (ps.setPool pool ((ps pool).eraseIdx i)) := by
      intro pool i P o ho
      simp only [Pools.setPool] at ho
      split at ho
      · rename_i hP; subst hP; exact hinv P o (List.mem_of_mem_eraseIdx ho)
      · exact hinv P o ho
    cases ev with
    | close t p =>
      have ht : t ∈ types := hev (.close t p) (by simp)
      simp only [runM]
      apply ih hrest
      intro P o ho
      simp only [Pools.put] at ho
      split at ho
      · rename_i hP
        rcases List.mem_cons.mp ho with rfl | ho
        · exact ⟨t, ht, rfl, by rw [← hsame t ht, hP], fun f hf => t.clear_const (hclr t ht) p f hf⟩
        · exact hinv P o ho
      · exact hinv P o ho
    | drop pool i =>
      simp only [runM]
      exact ih hrest _ (herase pool i)
    | create t pick ver =>
      have ht : t ∈ types := hev (.create t pick ver) (by simp)
      simp only [runM]
      -- a new object
      have hfresh : ∀ ps', PoolsInv R types ps' →
          ∃ outs, Option.map (fun x => (t, ver, t.freshRec.set "Ver" (.int ver)) :: x) (runM R evs ps') = some outs ∧
            ∀ out ∈ outs, out.1 ∈ types ∧ CleanOut out := by
        intro ps' hinv'
        obtain ⟨outs, hr, ho⟩ := ih hrest ps' hinv'
        refine ⟨_, by rw [hr]; rfl, ?_⟩
        intro out hout
        rcases List.mem_cons.mp hout with rfl | hout
        · exact ⟨ht, Or.inr (fun f _ => rfl)⟩
        · exact ho out hout
      cases pick with
      | none => exact hfresh ps hinv
      | some i =>
        by_cases hi : i < (ps (R.createPool t.name)).length
        · simp only [hi, dite_true]
          obtain ⟨u, hu, hname, hpool, hclean⟩ := hinv _ _ (List.getElem_mem hi)
          have hnm : u.name = t.name := hinj u hu t ht hpool
          have hut : u = t := name_inj types hn u t hu ht hnm
          subst hut
          have htag : (ps (R.createPool u.name))[i].1 = u.name := hname.symm
          obtain ⟨outs, hr, ho⟩ := ih hrest _ (herase (R.createPool u.name) i)
          refine ⟨_, by simp only [htag, if_true, hr]; rfl, ?_⟩
          intro out hout
          rcases List.mem_cons.mp hout with rfl | hout
          · exact ⟨ht, Or.inl (clean_set_ver u _ ver hclean)⟩
          · exact ho out hout
        · simp only [hi, dite_false]
          exact hfresh ps hinv

/-- **pool routing**: every history of CreatePack / ClosePack / drops over the pools of several
    types, starting with empty pools, runs without a type-assertion panic and hands out only
    never-used packs of the type asked for -/
theorem route_clean (R : Routing) (types : List PackT)
    (hn : (types.map (·.name)).Nodup)
    (hsame : ∀ t ∈ types, R.closePool t.name = R.createPool t.name)
    (hinj : ∀ t ∈ types, ∀ u ∈ types, R.createPool t.name = R.createPool u.name → t.name = u.name)
    (hclr : ∀ t ∈ types, t.clearTotal = true)
    (evs : List MEv) (hev : ∀ e ∈ evs, evTypeIn types e) :
    ∃ outs, runM R evs (fun _ => []) = some outs ∧ ∀ out ∈ outs, out.1 ∈ types ∧ CleanOut out :=
  route_inv R types hn hsame hinj hclr evs hev _ (by intro P o ho; cases ho)

/-- … and whatever such a pack is used for next (decode or fill, then Process()) ends as on a
    never-used pack of that type -/
theorem route_use_clean (out : PackT × Int × Rec) (hc : CleanOut out) (hr : readsInFields out.1 = true) (u : Use) :
    (match u.run out.1 out.2.1 out.2.2, u.run out.1 out.2.1 (out.1.clearedRec.set "Ver" (.int out.2.1)) with
      | none, none => True
      | some a, some b => ∀ f ∈ out.1.fieldNames, a f = b f
      | _, _ => False) ∨
    (match u.run out.1 out.2.1 out.2.2, u.run out.1 out.2.1 (out.1.freshRec.set "Ver" (.int out.2.1)) with
      | none, none => True
      | some a, some b => ∀ f ∈ out.1.fieldNames, a f = b f
      | _, _ => False) := by
  rcases hc with h | h
  · exact Or.inl (use_congr out.1 hr out.2.1 u _ _ h)
  · exact Or.inr (use_congr out.1 hr out.2.1 u _ _ h)

/-- the routing of the model: both switches use the type's own pool -/
def modelRouting : Routing where
  closePool := fun n => match allPacks.find? (·.name == n) with | some t => t.pool | none => ""
  createPool := fun n => match allPacks.find? (·.name == n) with | some t => t.pool | none => ""

/-- what goes wrong without the routing hypothesis: ACTIVE_STACK filed into the ACTIVE_STACK_1 pool -/
def misRouting : Routing where
  closePool := fun n => if n = "UdpActiveStackPack" then "udpActiveStack1Pool" else modelRouting.closePool n
  createPool := modelRouting.createPool

end Udp
