/-
  Golib.Udp.NumText — numbers carried as decimal text.

  CodeModel of
    stringutil.ParseStringZeroToEmpty   (v = 0 ↦ "", else fmt.Sprintf("%d", v))
    stringutil.ParseInt32 / ParseInt64  (strconv.ParseInt(s, 10, bits); any error ↦ 0)
    string(int32)                       (the rune conversion met in UdpTxSqlPack.Write, D19)
    stringutil.ArrayInt16ToString       (strconv.Itoa joined by a separator)
  by explicit digit functions over bytes (ASCII).  `strconv`/`fmt` themselves are
  modelled, not verified (trusted base); the correspondence harness compares
  these functions with the real ones on boundary and malformed numerals.
-/
import Golib.Prim.Codec

namespace Udp
open Prim

/-- decimal digits of `n`, most significant first (`0 ↦ [0]`); structural recursion on a fuel
    that is never exhausted when it starts at `n` -/
def natDigitsF : Nat → Nat → List Nat
  | 0, n => [n % 10]
  | f + 1, n => if n < 10 then [n] else natDigitsF f (n / 10) ++ [n % 10]

def natDigits (n : Nat) : List Nat := natDigitsF n n

/-- value of a digit list, most significant first -/
def ofDigits (ds : List Nat) : Nat := ds.foldl (fun a d => a * 10 + d) 0

theorem ofDigits_append (a b : List Nat) :
    ofDigits (a ++ b) = b.foldl (fun a d => a * 10 + d) (ofDigits a) := by
  simp [ofDigits, List.foldl_append]

theorem ofDigits_natDigitsF (f n : Nat) (h : n ≤ f) : ofDigits (natDigitsF f n) = n := by
  induction f generalizing n with
  | zero => have : n = 0 := by omega
            subst this; simp [natDigitsF, ofDigits]
  | succ f ih =>
    simp only [natDigitsF]
    split
    · simp [ofDigits]
    · rw [ofDigits_append, ih (n / 10) (by omega)]
      simp only [List.foldl_cons, List.foldl_nil]
      omega

theorem ofDigits_natDigits (n : Nat) : ofDigits (natDigits n) = n :=
  ofDigits_natDigitsF n n (Nat.le_refl n)

theorem natDigitsF_lt10 (f n : Nat) : ∀ d ∈ natDigitsF f n, d < 10 := by
  induction f generalizing n with
  | zero => intro d hd; simp [natDigitsF] at hd; omega
  | succ f ih =>
    simp only [natDigitsF]
    split
    · intro d hd; simp at hd; omega
    · intro d hd
      rcases List.mem_append.mp hd with h1 | h1
      · exact ih _ d h1
      · simp at h1; omega

theorem natDigits_lt10 (n : Nat) : ∀ d ∈ natDigits n, d < 10 := natDigitsF_lt10 n n

theorem natDigitsF_ne_nil (f n : Nat) : natDigitsF f n ≠ [] := by
  cases f with
  | zero => simp [natDigitsF]
  | succ f => simp only [natDigitsF]; split <;> simp

theorem natDigits_ne_nil (n : Nat) : natDigits n ≠ [] := natDigitsF_ne_nil n n

/-- a number below 10^(k+1) has at most k+1 digits -/
theorem natDigitsF_length_le (f k n : Nat) (h : n < 10 ^ (k + 1)) : (natDigitsF f n).length ≤ k + 1 := by
  induction f generalizing k n with
  | zero => simp [natDigitsF]
  | succ f ih =>
    simp only [natDigitsF]
    split
    · simp
    · rename_i h10
      cases k with
      | zero => simp at h; omega
      | succ k =>
        have h2 : n / 10 < 10 ^ (k + 1) := by
          rw [Nat.pow_succ] at h
          omega
        have := ih k (n / 10) h2
        simp; omega

theorem natDigits_length_le (k n : Nat) (h : n < 10 ^ (k + 1)) : (natDigits n).length ≤ k + 1 :=
  natDigitsF_length_le n k n h

def showNat (n : Nat) : Bytes := (natDigits n).map (· + 48)

/-- `fmt.Sprintf("%d", v)` / `strconv.Itoa` -/
def showInt (v : Int) : Bytes := if v < 0 then 45 :: showNat v.natAbs else showNat v.natAbs

/-- `stringutil.ParseStringZeroToEmpty` -/
def zeroToEmpty (v : Int) : Bytes := if v = 0 then [] else showInt v

def isDigit (b : Nat) : Bool := 48 ≤ b && b ≤ 57

def parseNat? (bs : Bytes) : Option Nat :=
  if bs.isEmpty then none
  else if bs.all isDigit then some (ofDigits (bs.map (· - 48))) else none

/-- `strconv.ParseInt(s, 10, _)` before the range check: optional sign, then one or more digits -/
def signed (neg : Bool) : Option Nat → Option Int
  | some n => some (if neg then -(n : Int) else (n : Int))
  | none => none

def parseInt? (bs : Bytes) : Option Int :=
  match bs with
  | 43 :: r => signed false (parseNat? r)
  | 45 :: r => signed true (parseNat? r)
  | _ => signed false (parseNat? bs)

/-- `stringutil.ParseInt32` (`w = 4`) / `ParseInt64` (`w = 8`): syntax or range error ↦ 0 -/
def parseIntW (w : Nat) (bs : Bytes) : Int :=
  match parseInt? bs with
  | some v => if inRange w v then v else 0
  | none => 0

theorem parseNat_showNat (n : Nat) : parseNat? (showNat n) = some n := by
  unfold parseNat? showNat
  have hne : ((natDigits n).map (· + 48)).isEmpty = false := by
    cases h : natDigits n with
    | nil => exact absurd h (natDigits_ne_nil n)
    | cons a b => simp
  have hall : ((natDigits n).map (· + 48)).all isDigit = true := by
    rw [List.all_eq_true]
    intro b hb
    obtain ⟨d, hd, rfl⟩ := List.mem_map.mp hb
    have := natDigits_lt10 n d hd
    simp [isDigit]; omega
  rw [hne, hall]
  simp only [Bool.false_eq_true, if_false, if_true, List.map_map]
  have : ((fun x => x - 48) ∘ fun x => x + 48) = (id : Nat → Nat) := by
    funext x; simp
  rw [this, List.map_id, ofDigits_natDigits]

theorem showNat_head (n : Nat) : ∃ d r, showNat n = d :: r ∧ 48 ≤ d ∧ d ≤ 57 := by
  unfold showNat
  cases h : natDigits n with
  | nil => exact absurd h (natDigits_ne_nil n)
  | cons a b =>
    have := natDigits_lt10 n a (by rw [h]; simp)
    exact ⟨a + 48, b.map (· + 48), by simp, by omega, by omega⟩

theorem parseInt_showInt (v : Int) : parseInt? (showInt v) = some v := by
  unfold showInt
  split
  · rename_i h
    simp only [parseInt?, parseNat_showNat, signed, if_true]
    congr 1; omega
  · rename_i h
    obtain ⟨d, r, hs, h1, h2⟩ := showNat_head v.natAbs
    have hp := parseNat_showNat v.natAbs
    rw [hs] at hp ⊢
    unfold parseInt?
    split
    · rename_i heq; simp at heq; omega
    · rename_i heq; simp at heq; omega
    · rw [hp]; simp only [signed, Bool.false_eq_true, if_false]; congr 1; omega

/-- zero travels as the empty text and is read back as zero -/
theorem parseIntW_nil (w : Nat) : parseIntW w [] = 0 := by
  simp [parseIntW, parseInt?, parseNat?, signed]

/-- the number-as-text conversion is lossless within the field's width -/
theorem numtext_roundtrip (w : Nat) (v : Int) (h : inRange w v) :
    parseIntW w (zeroToEmpty v) = v := by
  unfold zeroToEmpty
  split
  · rename_i h0; subst h0; exact parseIntW_nil w
  · unfold parseIntW
    rw [parseInt_showInt]
    simp [h]

/-- the text of a 64-bit number is at most 20 bytes -/
theorem zeroToEmpty_length (v : Int) (h : inRange 8 v) : (zeroToEmpty v).length ≤ 20 := by
  unfold zeroToEmpty showInt showNat
  have hb : v.natAbs < 10 ^ (18 + 1) := by
    have := (inRange_8 v).mp h
    have e : (10 : Nat) ^ (18 + 1) = 10000000000000000000 := by decide
    rw [e]; omega
  have := natDigits_length_le 18 v.natAbs hb
  split
  · simp
  · split <;> simp <;> omega

/-! ### `string(int32)`: the UTF-8 form of a code point (Go: invalid ↦ U+FFFD) -/

def utf8Rune (v : Int) : Bytes :=
  if v < 0 ∨ v > 1114111 ∨ (55296 ≤ v ∧ v ≤ 57343) then [239, 191, 189]
  else
    let n := v.toNat
    if n < 128 then [n]
    else if n < 2048 then [192 + n / 64, 128 + n % 64]
    else if n < 65536 then [224 + n / 4096, 128 + n / 64 % 64, 128 + n % 64]
    else [240 + n / 262144, 128 + n / 4096 % 64, 128 + n / 64 % 64, 128 + n % 64]

theorem utf8Rune_length (v : Int) : (utf8Rune v).length ≤ 4 := by
  unfold utf8Rune
  simp only []
  repeat' split
  all_goals simp

/-! ### `stringutil.ArrayInt16ToString(a, ",")` -/

def joinBytes (sep : Nat) : List Bytes → Bytes
  | [] => []
  | [x] => x
  | x :: y :: r => x ++ sep :: joinBytes sep (y :: r)

def joinInts (sep : Nat) (xs : List Int) : Bytes := joinBytes sep (xs.map showInt)

end Udp
