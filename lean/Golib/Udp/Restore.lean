/-
  Golib.Udp.Restore — "reading what was written restores every field that version carries", field by field.

  `post` is a fold over the layout; this file says what it holds for each field: `lastOf l ver f` is the
  last thing the reader does to field `f` at version `ver` (a transfer with its format and conversion, a
  constant, the raw payload) or `none` (untouched), and `post_lastOf` evaluates `post` accordingly.  For a
  well-formed pack the value of a transferred field is `carry c (x f)`: the written value itself, or its
  documented cap.
-/
import Golib.Udp.Gates

namespace Udp
open Prim
namespace Layout

inductive Last where
  | xfer (p : Fmt) (c : Conv)
  | const (v : Val)
  | raw
deriving DecidableEq, Repr

def lastOf : Layout → Int → String → Option Last
  | .nil, _, _ => none
  | .fld nm p c rest, ver, f =>
    match lastOf rest ver f with
    | some a => some a
    | none => if f = nm then some (.xfer p c) else none
  | .ite c t e rest, ver, f =>
    match lastOf rest ver f with
    | some a => some a
    | none => if c.eval ver then lastOf t ver f else lastOf e ver f
  | .setC nm v rest, ver, f =>
    match lastOf rest ver f with
    | some a => some a
    | none => if f = nm then some (.const v) else none
  | .setJoin _ _ rest, ver, f => lastOf rest ver f
  | .rawLen nm _ rest, ver, f =>
    match lastOf rest ver f with
    | some a => some a
    | none => if f = nm then some .raw else none
  | .unknown _, _, _ => none

def noSetJoin : Layout → Bool
  | .nil => true
  | .fld _ _ _ rest => noSetJoin rest
  | .ite _ t e rest => noSetJoin t && noSetJoin e && noSetJoin rest
  | .setC _ _ rest => noSetJoin rest
  | .setJoin _ _ _ => false
  | .rawLen _ _ rest => noSetJoin rest
  | .unknown _ => true

theorem lastOf_none_unassigned (l : Layout) (ver : Int) (f : String) (h : lastOf l ver f = none) :
    f ∉ assigned l ver := by
  induction l with
  | nil => simp [assigned]
  | fld nm p c rest ih =>
    simp only [lastOf] at h
    cases hr : lastOf rest ver f with
    | some a => rw [hr] at h; cases h
    | none =>
      rw [hr] at h; simp only [] at h
      have hne : ¬ f = nm := by intro e; simp [e] at h
      simp only [assigned, List.mem_cons, not_or]; exact ⟨hne, ih hr⟩
  | ite c t e rest iht ihe ihr =>
    simp only [lastOf] at h
    cases hr : lastOf rest ver f with
    | some a => rw [hr] at h; cases h
    | none =>
      rw [hr] at h; simp only [] at h
      simp only [assigned, List.mem_append, not_or]
      refine ⟨?_, ihr hr⟩
      cases hc : c.eval ver
      · simp only [hc, Bool.false_eq_true, if_false] at h ⊢; exact ihe h
      · simp only [hc, if_true] at h ⊢; exact iht h
  | setC nm v rest ih =>
    simp only [lastOf] at h
    cases hr : lastOf rest ver f with
    | some a => rw [hr] at h; cases h
    | none =>
      rw [hr] at h; simp only [] at h
      have hne : ¬ f = nm := by intro e; simp [e] at h
      simp only [assigned, List.mem_cons, not_or]; exact ⟨hne, ih hr⟩
  | setJoin nm src rest ih => simp only [lastOf] at h; simp only [assigned]; exact ih h
  | rawLen nm ln rest ih =>
    simp only [lastOf] at h
    cases hr : lastOf rest ver f with
    | some a => rw [hr] at h; cases h
    | none =>
      rw [hr] at h; simp only [] at h
      have hne : ¬ f = nm := by intro e; simp [e] at h
      simp only [assigned, List.mem_cons, not_or]; exact ⟨hne, ih hr⟩
  | unknown why => simp [assigned]

/-- what the receiving pack holds for field `f` after reading what `x` wrote -/
def expect (x st : Rec) (f : String) : Option Last → Val
  | some (.xfer _ c) => convR c (convW c (x f))
  | some (.const v) => v
  | some .raw => .str (x f).asStr
  | none => st f

theorem post_lastOf (l : Layout) (hj : noSetJoin l = true) (ver : Int) (x st : Rec) (f : String) :
    post l ver x st f = expect x st f (lastOf l ver f) := by
  induction l generalizing st with
  | nil => rfl
  | fld nm p c rest ih =>
    simp only [noSetJoin] at hj
    simp only [post, lastOf, ih hj]
    cases hr : lastOf rest ver f with
    | some a => cases a <;> rfl
    | none =>
      simp only [expect]
      by_cases he : f = nm
      · subst he; simp [Rec.set, expect]
      · simp [Rec.set, he, expect]
  | ite c t e rest iht ihe ihr =>
    simp only [noSetJoin, Bool.and_eq_true] at hj
    simp only [post, lastOf, ihr hj.2]
    cases hr : lastOf rest ver f with
    | some a => cases a <;> rfl
    | none =>
      simp only [expect]
      cases hc : c.eval ver
      · simp only [Bool.false_eq_true, if_false]; exact ihe hj.1.2 st
      · simp only [if_true]; exact iht hj.1.1 st
  | setC nm v rest ih =>
    simp only [noSetJoin] at hj
    simp only [post, lastOf, ih hj]
    cases hr : lastOf rest ver f with
    | some a => cases a <;> rfl
    | none =>
      simp only [expect]
      by_cases he : f = nm
      · subst he; simp [Rec.set, expect]
      · simp [Rec.set, he, expect]
  | setJoin nm src rest ih => simp [noSetJoin] at hj
  | rawLen nm ln rest ih =>
    simp only [noSetJoin] at hj
    simp only [post, lastOf, ih hj]
    cases hr : lastOf rest ver f with
    | some a => cases a <;> rfl
    | none =>
      simp only [expect]
      by_cases he : f = nm
      · subst he; simp [Rec.set, expect]
      · simp [Rec.set, he, expect]
  | unknown why => rfl

/-- a well-formed pack is well-formed at the last transfer of each field -/
theorem WF_lastOf (l : Layout) (hj : noSetJoin l = true) (ver : Int) (x st : Rec) (f : String) (p : Fmt) (c : Conv)
    (h : WF l ver x st) (hl : lastOf l ver f = some (.xfer p c)) : wfFld p c (x f) := by
  induction l generalizing st with
  | nil => simp [lastOf] at hl
  | fld nm p' c' rest ih =>
    simp only [noSetJoin] at hj
    obtain ⟨h1, h2⟩ := h
    simp only [lastOf] at hl
    cases hr : lastOf rest ver f with
    | some a => rw [hr] at hl; exact ih hj _ h2 (by rw [hr]; exact hl)
    | none =>
      rw [hr] at hl; simp only [] at hl
      by_cases he : f = nm
      · subst he; simp only [if_true] at hl; injection hl with hl; injection hl with e1 e2; subst e1; subst e2; exact h1
      · simp [he] at hl
  | ite cd t e rest iht ihe ihr =>
    simp only [noSetJoin, Bool.and_eq_true] at hj
    obtain ⟨h1, h2⟩ := h
    simp only [lastOf] at hl
    cases hr : lastOf rest ver f with
    | some a => rw [hr] at hl; exact ihr hj.2 _ h2 (by rw [hr]; exact hl)
    | none =>
      rw [hr] at hl; simp only [] at hl
      cases hc : cd.eval ver
      · simp only [hc, Bool.false_eq_true, if_false] at hl h1; exact ihe hj.1.2 st h1 hl
      · simp only [hc, if_true] at hl h1; exact iht hj.1.1 st h1 hl
  | setC nm v rest ih =>
    simp only [noSetJoin] at hj
    simp only [lastOf] at hl
    cases hr : lastOf rest ver f with
    | some a => rw [hr] at hl; exact ih hj _ h (by rw [hr]; exact hl)
    | none => rw [hr] at hl; simp only [] at hl; split at hl <;> cases hl
  | setJoin nm src rest ih => simp [noSetJoin] at hj
  | rawLen nm ln rest ih =>
    simp only [noSetJoin] at hj
    obtain ⟨_, h2⟩ := h
    simp only [lastOf] at hl
    cases hr : lastOf rest ver f with
    | some a => rw [hr] at hl; exact ih hj _ h2 (by rw [hr]; exact hl)
    | none => rw [hr] at hl; simp only [] at hl; split at hl <;> cases hl
  | unknown why => simp [lastOf] at hl

/-- `lastOf` and `carried` depend on the version only through the gates -/
theorem lastOf_same (l : Layout) (v r : Int) (h : ∀ c ∈ conds l, c.eval v = c.eval r) (f : String) :
    lastOf l v f = lastOf l r f := by
  induction l with
  | nil => rfl
  | fld nm p c rest ih => simp only [lastOf, ih h]
  | ite c t e rest iht ihe ihr =>
    have hc : c.eval v = c.eval r := h c (by simp [conds])
    simp only [lastOf, hc, iht (fun k hk => h k (by simp [conds, hk])), ihe (fun k hk => h k (by simp [conds, hk])),
      ihr (fun k hk => h k (by simp [conds, hk]))]
  | setC nm val rest ih => simp only [lastOf, ih h]
  | setJoin nm src rest ih => simp only [lastOf, ih h]
  | rawLen nm ln rest ih => simp only [lastOf, ih h]
  | unknown why => rfl

/-- at version `ver` every carried field's last assignment is a transfer (checked on one version) -/
def carriedAreTransfers (l : Layout) (ver : Int) : Bool :=
  (carried l ver).all fun f => match lastOf l ver f with
    | some (.xfer _ _) => true
    | some .raw => true
    | _ => false

/-- … hence on all versions, if it holds on the representatives -/
theorem carriedAreTransfers_all (l : Layout) (h : ∀ r ∈ versionReps l, carriedAreTransfers l r = true) (v : Int) :
    carriedAreTransfers l v = true := by
  obtain ⟨r, hr, hs⟩ := reps_exist ((conds l).map Cond.gate) v
  have hrep : r ∈ versionReps l := by
    unfold versionReps
    rcases List.mem_cons.mp hr with h0 | h0
    · simp [h0]
    · apply List.mem_cons_of_mem
      obtain ⟨n, hn, hrn⟩ := List.mem_flatMap.mp h0
      obtain ⟨c, hc, rfl⟩ := List.mem_map.mp hn
      exact List.mem_flatMap.mpr ⟨c, hc, hrn⟩
  have hev : ∀ c ∈ conds l, c.eval v = c.eval r :=
    fun c hc => eval_same c v r (hs _ (List.mem_map.mpr ⟨c, hc, rfl⟩))
  have hcar := (same_behaviour l v r hev).2.2.2
  have := h r hrep
  unfold carriedAreTransfers at this ⊢
  rw [hcar]
  rw [List.all_eq_true] at this ⊢
  intro f hf
  rw [lastOf_same l v r hev f]
  exact this f hf

end Layout
end Udp
