/-
  Golib.Udp.ProcessThm — theorems about `Process()` (Golib.Udp.Process) and about pooled packs that
  are processed between uses.
-/
import Golib.Udp.Process
import Golib.Udp.Pool
import Golib.Udp.Mask

namespace Udp
open Prim Layout

/-- the fields Process() of a type may assign -/
def processTargets (t : PackT) : List String := (derivsOf t.name).flatMap (·.targets)

/-- Process() changes nothing but its derived fields -/
theorem process_only_targets (t : PackT) (ver : Int) (st st' : Rec) (f : String)
    (h : t.process ver st = some st') (hf : f ∉ processTargets t) : st' f = st f := by
  apply runDerivs_other (derivsOf t.name) ver st st' f _ h
  intro d hd hm
  exact hf (List.mem_flatMap.mpr ⟨d, hd, hm⟩)

theorem derivs_Sql : derivsOf "UdpTxSqlPack" = [dMaskDbc, dSqlTooLong] := by simp [derivsOf]
theorem derivs_SqlParam : derivsOf "UdpTxSqlParamPack" = [dMaskDbc, dSqlTooLong] := by simp [derivsOf]
theorem derivs_Dbc : derivsOf "UdpTxDbcPack" = [dMaskDbc] := by simp [derivsOf]
theorem derivs_End : derivsOf "UdpTxEndPack" = [dServiceUrlIfBoth, dCallerHash endHashActive] := by simp [derivsOf]
theorem derivs_ActiveStack : derivsOf "UdpActiveStackPack" = [dActiveStack] := by simp [derivsOf]
theorem derivs_ActiveStats : derivsOf "UdpActiveStatsPack" = [dActiveStats] := by simp [derivsOf]

theorem process_Sql (ver : Int) (st : Rec) : UdpTxSqlPack.process ver st = runDerivs [dMaskDbc, dSqlTooLong] ver st := by
  show runDerivs (derivsOf "UdpTxSqlPack") ver st = _; rw [derivs_Sql]
theorem process_SqlParam (ver : Int) (st : Rec) : UdpTxSqlParamPack.process ver st = runDerivs [dMaskDbc, dSqlTooLong] ver st := by
  show runDerivs (derivsOf "UdpTxSqlParamPack") ver st = _; rw [derivs_SqlParam]
theorem process_Dbc (ver : Int) (st : Rec) : UdpTxDbcPack.process ver st = runDerivs [dMaskDbc] ver st := by
  show runDerivs (derivsOf "UdpTxDbcPack") ver st = _; rw [derivs_Dbc]
theorem process_End (ver : Int) (st : Rec) :
    UdpTxEndPack.process ver st = runDerivs [dServiceUrlIfBoth, dCallerHash endHashActive] ver st := by
  show runDerivs (derivsOf "UdpTxEndPack") ver st = _; rw [derivs_End]
theorem process_ActiveStack (ver : Int) (st : Rec) : UdpActiveStackPack.process ver st = runDerivs [dActiveStack] ver st := by
  show runDerivs (derivsOf "UdpActiveStackPack") ver st = _; rw [derivs_ActiveStack]
theorem process_ActiveStats (ver : Int) (st : Rec) : UdpActiveStatsPack.process ver st = runDerivs [dActiveStats] ver st := by
  show runDerivs (derivsOf "UdpActiveStatsPack") ver st = _; rw [derivs_ActiveStats]

/-! ### totality -/

theorem runDerivs_total (ds : List Deriv) (h : ∀ d ∈ ds, ∀ vs, (d.f vs).isSome = true) (ver : Int) (st : Rec) :
    (runDerivs ds ver st).isSome = true := by
  induction ds generalizing st with
  | nil => rfl
  | cons d ds ih =>
    simp only [runDerivs, Deriv.apply]
    cases hact : d.active ver
    · simp only [Bool.false_eq_true, if_false]
      exact ih (fun d' hd' => h d' (by simp [hd'])) _
    · simp only [if_true]
      have := h d (by simp) (d.reads.map st)
      cases hf : d.f (d.reads.map st) with
      | none => rw [hf] at this; cases this
      | some outs => exact ih (fun d' hd' => h d' (by simp [hd'])) _

theorem total_dServiceUrlAlways (vs : List Val) : (dServiceUrlAlways.f vs).isSome = true := by
  unfold dServiceUrlAlways; simp only []; split <;> rfl
theorem total_dServiceUrlIfBoth (vs : List Val) : (dServiceUrlIfBoth.f vs).isSome = true := by
  unfold dServiceUrlIfBoth; simp only []; split
  · split <;> rfl
  · rfl
theorem total_dRefererUrl (vs : List Val) : (dRefererUrl.f vs).isSome = true := by
  unfold dRefererUrl; simp only []; split <;> rfl
theorem total_dIsStatic (vs : List Val) : (dIsStatic.f vs).isSome = true := by
  unfold dIsStatic; simp only []; split
  · split
    · rfl
    · split <;> rfl
  · rfl
theorem total_dCallerHash (a : Int → Bool) (vs : List Val) : ((dCallerHash a).f vs).isSome = true := by
  unfold dCallerHash; simp only []; split
  · split <;> rfl
  · rfl
theorem total_dMaskDbc (vs : List Val) : (dMaskDbc.f vs).isSome = true := by
  unfold dMaskDbc; simp only []; split <;> rfl
theorem total_dSqlTooLong (vs : List Val) : (dSqlTooLong.f vs).isSome = true := by
  unfold dSqlTooLong; simp only []; split
  · split <;> rfl
  · rfl
theorem total_dHttpcUrl (vs : List Val) : (dHttpcUrl.f vs).isSome = true := by
  unfold dHttpcUrl; simp only []; split <;> rfl
theorem total_dParam (vs : List Val) : (dParam.f vs).isSome = true := by
  unfold dParam; simp only []; split <;> rfl
theorem total_dActiveStats (vs : List Val) : (dActiveStats.f vs).isSome = true := by
  unfold dActiveStats; simp only []; split
  · split <;> rfl
  · rfl
theorem total_dDbConPool (vs : List Val) : (dDbConPool.f vs).isSome = true := by
  unfold dDbConPool; simp only []; split
  · split <;> rfl
  · rfl
theorem total_dConfig (vs : List Val) : (dConfig.f vs).isSome = true := by
  unfold dConfig; simp only []; split <;> rfl

/-- Process() of every pack type other than UdpActiveStackPack never panics -/
theorem process_total (t : PackT) (ht : t ∈ allPacks) (hn : t.name ≠ "UdpActiveStackPack") (ver : Int) (st : Rec) :
    (t.process ver st).isSome = true := by
  unfold PackT.process
  apply runDerivs_total
  simp only [allPacks, List.mem_cons, List.mem_nil_iff, or_false] at ht
  rcases ht with rfl | rfl | rfl | rfl | rfl | rfl | rfl | rfl | rfl | rfl | rfl | rfl | rfl | rfl | rfl | rfl | rfl | rfl | rfl
  all_goals first
    | exact absurd rfl hn
    | (intro d hd
       simp [derivsOf, UdpTxStartPack, UdpTxEndPack, UdpTxStartEndPack, UdpTxSqlPack, UdpTxSqlParamPack, UdpTxDbcPack,
         UdpTxHttpcPack, UdpTxErrorPack, UdpTxMessagePack, UdpTxSecureMessagePack, UdpTxMethodPack, UdpTxResultSetPack,
         UdpTxParamPack, UdpActiveStackPack1, UdpActiveStatsPack, UdpDBConPoolPack, UdpConfigPack, UdpRelayPack] at hd <;>
       first
         | (rcases hd with rfl | rfl | rfl | rfl <;>
             first | exact total_dServiceUrlAlways | exact total_dRefererUrl | exact total_dIsStatic | exact total_dCallerHash _)
         | (rcases hd with rfl | rfl | rfl <;>
             first | exact total_dServiceUrlAlways | exact total_dRefererUrl | exact total_dIsStatic)
         | (rcases hd with rfl | rfl <;>
             first | exact total_dServiceUrlIfBoth | exact total_dCallerHash _ | exact total_dMaskDbc | exact total_dSqlTooLong)
         | (subst hd
            first | exact total_dMaskDbc | exact total_dHttpcUrl | exact total_dParam | exact total_dActiveStats
                  | exact total_dDbConPool | exact total_dConfig))

/-- … and UdpActiveStackPack.Process panics exactly when Data has fewer than three ", "-separated parts -/
theorem process_activeStack_panics (ver : Int) (st : Rec) :
    (UdpActiveStackPack.process ver st).isSome = decide (3 ≤ (splitCommaSp (st "Data").asStr).length) := by
  rw [process_ActiveStack]
  simp only [runDerivs, Deriv.apply, dActiveStack, always, if_true, List.map]
  rcases hs : splitCommaSp (st "Data").asStr with _ | ⟨a, _ | ⟨b, _ | ⟨c, r⟩⟩⟩ <;> simp

/-! ### masking -/

theorem masks_run (ver : Int) (st : Rec) (h : masksAt ver = true) :
    dMaskDbc.apply ver st = some (st.set "Dbc" (.str (maskDbc (st "Dbc").asStr))) := by
  simp [Deriv.apply, dMaskDbc, masksAtB, h, assignAll]

/-- Dbc after Process() of an SQL, SQL-param or DB-connection pack, for every version -/
theorem process_dbc (t : PackT) (ht : t = UdpTxSqlPack ∨ t = UdpTxSqlParamPack ∨ t = UdpTxDbcPack)
    (ver : Int) (st : Rec) (hd : ∃ b, st "Dbc" = .str b) :
    ∃ st', t.process ver st = some st' ∧ st' "Dbc" = .str (processDbc ver (st "Dbc").asStr) := by
  obtain ⟨b, hb⟩ := hd
  have hsome := process_total t (by rcases ht with rfl | rfl | rfl <;> simp [allPacks])
    (by rcases ht with rfl | rfl | rfl <;> decide) ver st
  cases hp : t.process ver st with
  | none => rw [hp] at hsome; cases hsome
  | some st' =>
    refine ⟨st', rfl, ?_⟩
    unfold processDbc
    cases hm : masksAt ver
    · -- not a masking family: no derivation is active
      have : st' = st := by
        have : t.process ver st = some st := by
          rcases ht with rfl | rfl | rfl
          · rw [process_Sql]; simp [runDerivs, Deriv.apply, dMaskDbc, dSqlTooLong, masksAtB, hm]
          · rw [process_SqlParam]; simp [runDerivs, Deriv.apply, dMaskDbc, dSqlTooLong, masksAtB, hm]
          · rw [process_Dbc]; simp [runDerivs, Deriv.apply, dMaskDbc, masksAtB, hm]
        rw [hp] at this; exact Option.some.inj this
      simp [this, hb, Val.asStr]
    · -- Go / PHP
      have hkeep : ∀ s : Rec, ∀ s', dSqlTooLong.apply ver s = some s' → s' "Dbc" = s "Dbc" := by
        intro s s' hs
        have : runDerivs [dSqlTooLong] ver s = some s' := by simp [runDerivs, hs]
        exact runDerivs_other [dSqlTooLong] ver s s' "Dbc" (by intro d hd; simp at hd; subst hd; decide) this
      have h1 := masks_run ver st hm
      rcases ht with rfl | rfl | rfl
      · rw [process_Sql] at hp; simp only [runDerivs, h1] at hp
        cases h2 : dSqlTooLong.apply ver (st.set "Dbc" (.str (maskDbc (st "Dbc").asStr))) with
        | none => rw [h2] at hp; simp at hp
        | some s2 =>
          rw [h2] at hp; simp at hp; subst hp
          rw [hkeep _ _ h2]; simp [Rec.set]
      · rw [process_SqlParam] at hp; simp only [runDerivs, h1] at hp
        cases h2 : dSqlTooLong.apply ver (st.set "Dbc" (.str (maskDbc (st "Dbc").asStr))) with
        | none => rw [h2] at hp; simp at hp
        | some s2 =>
          rw [h2] at hp; simp at hp; subst hp
          rw [hkeep _ _ h2]; simp [Rec.set]
      · rw [process_Dbc] at hp; simp only [runDerivs, h1] at hp
        simp at hp; subst hp; simp [Rec.set]

/-- **no password after Process()**: an SQL / SQL-param / DB-connection pack of a masking family
    (Go, PHP) whose Dbc is a connection string of the grammar has, after Process(), no token with
    the key `password` and a value other than `#` -/
theorem process_no_password (t : PackT) (ht : t = UdpTxSqlPack ∨ t = UdpTxSqlParamPack ∨ t = UdpTxDbcPack)
    (ver : Int) (st : Rec) (tok : Tok) (rest : List (Nat × Tok)) (htok : PlainTok tok)
    (hrest : ∀ cu ∈ rest, (cu.1 = 32 ∨ cu.1 = 59) ∧ PlainTok cu.2) (hv : masksAt ver = true)
    (hd : st "Dbc" = .str (renderFlat tok rest)) :
    ∃ st', t.process ver st = some st' ∧ ∃ b, st' "Dbc" = .str b ∧ leakFree b := by
  obtain ⟨st', hp, hdbc⟩ := process_dbc t ht ver st ⟨_, hd⟩
  refine ⟨st', hp, _, hdbc, ?_⟩
  rw [hd]; exact mask_password ver tok rest htok hrest hv

/-! ### derived numbers -/

theorem parseIntGo_showInt (w : Nat) (v : Int) (h : inRange w v) : parseIntGo w (showInt v) = (v, true) := by
  unfold parseIntGo; rw [parseInt_showInt]; simp [h]

/-- the caller's URL hash travels as decimal text in McallerUrl (SetMcallerUrlHash) and Process()
    restores it, in every family / version where the code parses it -/
theorem process_caller_hash (ver : Int) (st : Rec) (v : Int) (hv : inRange 4 v) (ha : endHashActive ver = true)
    (hu : st "McallerUrl" = .str (showInt v)) :
    ∃ st', UdpTxEndPack.process ver st = some st' ∧ st' "McallerUrlHash" = .int v := by
  have hsome := process_total UdpTxEndPack (by simp [allPacks]) (by decide) ver st
  cases hp : UdpTxEndPack.process ver st with
  | none => rw [hp] at hsome; cases hsome
  | some st' =>
    refine ⟨st', rfl, ?_⟩
    rw [process_End] at hp; simp only [runDerivs] at hp
    cases h1 : dServiceUrlIfBoth.apply ver st with
    | none => rw [h1] at hp; simp at hp
    | some s1 =>
      rw [h1] at hp; simp only [] at hp
      have hk : s1 "McallerUrl" = st "McallerUrl" :=
        runDerivs_other [dServiceUrlIfBoth] ver st s1 "McallerUrl"
          (by intro d hd; simp at hd; subst hd; decide) (by simp [runDerivs, h1])
      simp only [Deriv.apply, dCallerHash, ha, if_true, List.map, hk, hu, Val.asStr,
        parseIntGo_showInt 4 v hv, assignAll] at hp
      simp at hp; subst hp; simp [Rec.set]

theorem joinBytes_eq_joinOn (c : Nat) (xs : List Bytes) : joinBytes c xs = joinOn c xs := by
  induction xs with
  | nil => rfl
  | cons x r ih =>
    cases r with
    | nil => rfl
    | cons y r' => simp only [joinBytes, joinOn, ih]

theorem showInt_no_comma (v : Int) : 44 ∉ showInt v := by
  unfold showInt showNat
  have hd : ∀ n : Nat, 44 ∉ (natDigits n).map (· + 48) := by
    intro n hm
    obtain ⟨d, hd, he⟩ := List.mem_map.mp hm
    have := natDigits_lt10 n d hd
    omega
  split
  · intro hm; rcases List.mem_cons.mp hm with h | h
    · cases h
    · exact hd _ h
  · exact hd _

/-- five int16 activity counters written by UdpActiveStatsPack come back from Process() -/
theorem process_active_stats (ver : Int) (st : Rec) (xs : List Int) (hl : xs.length = 5)
    (hx : ∀ x ∈ xs, inRange 2 x) (hd : st "Data" = .str (joinInts 44 xs)) :
    ∃ st', UdpActiveStatsPack.process ver st = some st' ∧ st' "ActiveStats" = .ints xs := by
  have hsplit : splitOn 44 (joinInts 44 xs) = xs.map showInt := by
    unfold joinInts
    rw [joinBytes_eq_joinOn]
    apply splitOn_joinOn 44 _ (by cases xs <;> simp_all)
    intro b hb
    obtain ⟨v, _, rfl⟩ := List.mem_map.mp hb
    exact showInt_no_comma v
  refine ⟨st.set "ActiveStats" (.ints xs), ?_, by simp [Rec.set]⟩
  rw [process_ActiveStats]
  simp only [runDerivs, Deriv.apply, dActiveStats, always, if_true,
    List.map, hd, Val.asStr, hsplit, List.length_map, hl, assignAll]
  simp only [List.map_map]
  congr 3
  have : xs.map ((fun p => match parseIntGo 4 p with | (v, true) => wrapI 2 v | _ => 0) ∘ showInt) = xs.map id := by
    apply List.map_congr_left
    intro x hxm
    have h2 := hx x hxm
    have h4 : inRange 4 x := by rw [inRange_2] at h2; rw [inRange_4]; omega
    simp only [Function.comp, parseIntGo_showInt 4 x h4, wrapI_id 2 x h2, id]
  exact this.trans (List.map_id xs)

/-! ### pooled packs that are processed between uses -/

theorem post_congr (l : Layout) (ver : Int) (x s1 s2 : Rec) (L : List String)
    (h : ∀ f ∈ L, s1 f = s2 f) : ∀ f ∈ L, post l ver x s1 f = post l ver x s2 f := by
  induction l generalizing x s1 s2 with
  | nil => exact h
  | fld nm p c rest ih =>
    simp only [post]; apply ih
    intro f hf; simp only [Rec.set]; split
    · rfl
    · exact h f hf
  | ite c t e rest iht ihe ihr =>
    simp only [post]; apply ihr
    cases c.eval ver
    · simp only [Bool.false_eq_true, if_false]; exact ihe x s1 s2 h
    · simp only [if_true]; exact iht x s1 s2 h
  | setC nm v rest ih =>
    simp only [post]; apply ih
    intro f hf; simp only [Rec.set]; split
    · rfl
    · exact h f hf
  | setJoin nm src rest ih => simp only [post]; exact ih _ s1 s2 h
  | rawLen nm ln rest ih =>
    simp only [post]; apply ih
    intro f hf; simp only [Rec.set]; split
    · rfl
    · exact h f hf
  | unknown why => exact h

theorem ofList_congr (as : List (String × Val)) (s1 s2 : Rec) (L : List String)
    (h : ∀ f ∈ L, s1 f = s2 f) : ∀ f ∈ L, Rec.ofList as s1 f = Rec.ofList as s2 f := by
  induction as generalizing s1 s2 with
  | nil => exact h
  | cons a as ih =>
    simp only [Rec.ofList, List.foldl_cons]
    apply ih
    intro f hf; simp only [Rec.set]; split
    · rfl
    · exact h f hf

/-- one use of a pack: decode what a writer produced for `x` (or assign fields directly), then Process() -/
inductive Use where
  | decode (x : Rec)
  | fill (as : List (String × Val))

def Use.run (t : PackT) (ver : Int) (st : Rec) : Use → Option Rec
  | .decode x => t.process ver (post t.layout ver x st)
  | .fill as => t.process ver (Rec.ofList as st)

/-- Process() of every type reads struct fields only -/
def readsInFields (t : PackT) : Bool :=
  (derivsOf t.name).all fun d => d.reads.all fun r => t.fieldNames.contains r

/-- two packs that agree on the struct fields behave alike in any use: both uses panic or the
    results agree on every struct field -/
theorem use_congr (t : PackT) (hr : readsInFields t = true) (ver : Int) (u : Use) (s1 s2 : Rec)
    (h : ∀ f ∈ t.fieldNames, s1 f = s2 f) :
    match u.run t ver s1, u.run t ver s2 with
    | none, none => True
    | some a, some b => ∀ f ∈ t.fieldNames, a f = b f
    | _, _ => False := by
  have hreads : ∀ d ∈ derivsOf t.name, ∀ r ∈ d.reads, r ∈ t.fieldNames := by
    intro d hd r hrm
    unfold readsInFields at hr
    rw [List.all_eq_true] at hr
    have := hr d hd
    rw [List.all_eq_true] at this
    simpa [List.contains_iff_mem] using this r hrm
  cases u with
  | decode x => exact runDerivs_congr _ ver _ _ t.fieldNames hreads (post_congr t.layout ver x s1 s2 _ h)
  | fill as => exact runDerivs_congr _ ver _ _ t.fieldNames hreads (ofList_congr as s1 s2 _ h)

/-- **no residue through Process()**: in any CreatePack / ClosePack history (the released packs are
    arbitrary — filled, decoded into, processed any number of times), whatever a handed-out pack is
    used for next (decode + Process, or fill + Process), the outcome is, on every struct field, the
    outcome of the same use on a pack that was never used before (the Clear() constants or the
    constructor constants) -/
theorem pool_process_no_residue (t : PackT) (hc : t.clearTotal = true) (hr : readsInFields t = true)
    (evs : List PoolEv) (u : Use) :
    ∀ vq ∈ (runPool t evs []).2,
      (match u.run t vq.1 vq.2, u.run t vq.1 (t.clearedRec.set "Ver" (.int vq.1)) with
        | none, none => True
        | some a, some b => ∀ f ∈ t.fieldNames, a f = b f
        | _, _ => False) ∨
      (match u.run t vq.1 vq.2, u.run t vq.1 (t.freshRec.set "Ver" (.int vq.1)) with
        | none, none => True
        | some a, some b => ∀ f ∈ t.fieldNames, a f = b f
        | _, _ => False) := by
  intro vq hvq
  rcases runPool_spec t hc evs [] (by intro o ho; cases ho) vq hvq with h | h
  · exact Or.inl (use_congr t hr vq.1 u _ _ h)
  · exact Or.inr (use_congr t hr vq.1 u _ _ h)

end Udp
