/-
  Golib.Udp.Api — the remaining exported surface of the anchor files, as model functions
  (each is run by the driver and compared with the implementation, harness stage `api`):

    ParamKV.ExistsKey / GetValue        `existsKey`, `getValue`   (the map built by the constructor)
    UdpTxEndPack.SetMcallerUrlHash      `setMcallerUrlHash`       (hash + its decimal text)
    UdpTxStartPack / UdpTxStartEndPack.SetStaticContents   `setStaticContents`
    WritePack … WritePack into one DataOutputX, ReadPack … ReadPack from one DataInputX
                                        `writeStream`, `readStream` (a datagram with several packs)
-/
import Golib.Udp.Packs
import Golib.Udp.ParamKV
import Golib.Udp.Process

namespace Udp
open Layout

/-- `NewParamKVSeperate(s, c, "=").ExistsKey(key)`: the constructor stores only non-empty keys -/
def existsKey (c : Nat) (key s : Bytes) : Bool :=
  !key.isEmpty && (splitOn c s).any (fun t => keyOf t == key)

/-- `NewParamKVSeperate(s, c, "=").GetValue(key)`: the value of the last token with that key, `""` without one -/
def getValue (c : Nat) (key s : Bytes) : Bytes :=
  if existsKey c key s then lookupLast key (splitOn c s) else []

/-- `UdpTxEndPack.SetMcallerUrlHash(v)` -/
def setMcallerUrlHash (v : Int) (st : Rec) : Rec :=
  (st.set "McallerUrlHash" (.int v)).set "McallerUrl" (.str (showInt v))

/-- `SetStaticContents(b)` of UdpTxStartPack / UdpTxStartEndPack -/
def setStaticContents (b : Bool) (st : Rec) : Rec :=
  (st.set "IsStatic" (.bool b)).set "IsStaticContents" (.str (if b then [49] else [48]))

/-- several packs written one after the other into the same buffer (`WritePack` … `WritePack`) -/
def writeStream : List (PackT × Int × Rec) → Bytes
  | [] => []
  | (t, ver, x) :: r => write t.layout ver x ++ writeStream r

/-- … and read one after the other from the same reader (`Read` of a pack of each type; third
    component = the receiving pack) -/
def readStream : List (PackT × Int × Rec) → P (List Rec)
  | [] => .pure []
  | (t, ver, st) :: r => (read t.layout ver st).bind fun a => (readStream r).bind fun as => .pure (a :: as)

end Udp
