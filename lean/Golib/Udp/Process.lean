/-
  Golib.Udp.Process — CodeModel of `Process()` of every UDP pack type.

  `Process()` computes *derived* fields from the fields `Read` filled in.  Every pack's Process is a
  list of derivations: target fields, the fields it reads, the versions (agent families) in which it
  runs, and a function of the values read.  A derivation may leave a target unchanged (Go: `if err
  == nil { … }`) and — UdpActiveStackPack only — may panic (index out of range).

  Values of derived fields:  *urlutil.URL ↦ `.str url` (the string handed to `NewURL`; the URL's
  own parsing is `util/urlutil`, outside this property) or `.null`;  *pack.ParamPack ↦
  `.ints [Id, Response]` (its clock reading is not modelled);  []string and map[string]string ↦
  `.strs` (the map as `k=v` entries in insertion order).
-/
import Golib.Udp.Packs
import Golib.Udp.ParamKV

namespace Udp
open Prim

/-! ### library functions met in the Process bodies -/

/-- `strconv.ParseInt(s, 10, 8*w)`: value and `err == nil`; a range error yields the nearest bound -/
def parseIntGo (w : Nat) (s : Bytes) : Int × Bool :=
  match parseInt? s with
  | none => (0, false)
  | some v =>
    if inRange w v then (v, true)
    else (if v < 0 then -(modulus w / 2) else modulus w / 2 - 1, false)

theorem parseIntGo_ok (w : Nat) (s : Bytes) :
    parseIntW w s = if (parseIntGo w s).2 then (parseIntGo w s).1 else 0 := by
  unfold parseIntW parseIntGo
  cases parseInt? s with
  | none => rfl
  | some v => simp only []; split <;> simp

/-- Go's integer conversion to a `w`-byte signed type (wraps) -/
def wrapI (w : Nat) (v : Int) : Int := ofU w (toU w v)

theorem wrapI_id (w : Nat) (v : Int) (h : inRange w v) : wrapI w v = v := ofU_toU w v h

/-- `strconv.ParseBool` -/
def parseBool? (s : Bytes) : Option Bool :=
  if s = [49] ∨ s = [116] ∨ s = [84] ∨ s = [116, 114, 117, 101] ∨ s = [84, 82, 85, 69] ∨ s = [84, 114, 117, 101] then some true
  else if s = [48] ∨ s = [102] ∨ s = [70] ∨ s = [102, 97, 108, 115, 101] ∨ s = [70, 65, 76, 83, 69] ∨ s = [70, 97, 108, 115, 101] then some false
  else none

/-- `strings.Split(s, sep)` for the two-byte separator `", "` -/
def splitCommaSp : Bytes → List Bytes
  | [] => [[]]
  | 44 :: 32 :: r => [] :: splitCommaSp r
  | x :: r =>
    match splitCommaSp r with
    | [] => [[x]]
    | h :: t => (x :: h) :: t

/-- the lines `bufio.Scanner` yields: split at `\n`, a final empty line dropped, one trailing `\r`
    dropped from each -/
def scanLines (s : Bytes) : List Bytes :=
  let ls := splitOn 10 s
  let ls := if ls.getLast? = some [] then ls.dropLast else ls
  ls.map fun l => if l.getLast? = some 13 then l.dropLast else l

/-- `m[k] = v` on a map kept as `k=v` entries in insertion order -/
def mapPut (m : List Bytes) (k v : Bytes) : List Bytes :=
  if m.any (fun e => e.takeWhile (· != 61) == k) then
    m.map fun e => if e.takeWhile (· != 61) == k then k ++ 61 :: v else e
  else m ++ [k ++ 61 :: v]

def Val.asStrs : Val → List Bytes
  | .strs xs => xs
  | _ => []

/-! ### derivations -/

structure Deriv where
  targets : List String
  reads : List String
  active : Int → Bool
  f : List Val → Option (List (Option Val))   -- none: panic; per target none: unchanged

def assignAll : List String → List (Option Val) → Rec → Rec
  | t :: ts, some v :: vs, st => assignAll ts vs (st.set t v)
  | _ :: ts, none :: vs, st => assignAll ts vs st
  | _, _, st => st

def Deriv.apply (d : Deriv) (ver : Int) (st : Rec) : Option Rec :=
  if d.active ver then
    match d.f (d.reads.map st) with
    | none => none
    | some outs => some (assignAll d.targets outs st)
  else some st

def runDerivs : List Deriv → Int → Rec → Option Rec
  | [], _, st => some st
  | d :: ds, ver, st =>
    match d.apply ver st with
    | none => none
    | some st' => runDerivs ds ver st'

/-! families -/
def always : Int → Bool := fun _ => true
def famGo (v : Int) : Bool := decide (v > 50000)
def famNet (v : Int) : Bool := decide (v > 30000) && !decide (v > 40000)
def famPy (v : Int) : Bool := decide (v > 20000) && !decide (v > 30000)
def famPhp (v : Int) : Bool := !decide (v > 20000)

def slash : Bytes := [47]
def tooLongPrefix : Bytes :=
  [91, 81, 85, 69, 82, 89, 32, 84, 79, 79, 32, 76, 79, 78, 71, 93, 13, 10]   -- "[QUERY TOO LONG]\r\n"

/-- `NewURL(Host + Uri)` or `NewURL(Host + "/" + Uri)` -/
def serviceUrl (host uri : Bytes) : Bytes :=
  if uri.head? = some 47 then host ++ uri else host ++ 47 :: uri

def dServiceUrlAlways : Deriv where
  targets := ["ServiceURL"]; reads := ["Host", "Uri"]; active := always
  f := fun vs => match vs with
    | [h, u] => some [some (.str (serviceUrl h.asStr u.asStr))]
    | _ => some [none]

def dServiceUrlIfBoth : Deriv where
  targets := ["ServiceURL"]; reads := ["Host", "Uri"]; active := always
  f := fun vs => match vs with
    | [h, u] => if h.asStr ≠ [] ∧ u.asStr ≠ [] then some [some (.str (serviceUrl h.asStr u.asStr))] else some [none]
    | _ => some [none]

def dRefererUrl : Deriv where
  targets := ["RefererURL"]; reads := ["Ref"]; active := always
  f := fun vs => match vs with
    | [r] => some [some (.str r.asStr)]
    | _ => some [none]

def dIsStatic : Deriv where
  targets := ["IsStatic"]; reads := ["IsStaticContents"]; active := always
  f := fun vs => match vs with
    | [c] => if c.asStr = [] then some [some (.bool false)]
             else match parseBool? c.asStr with
               | some b => some [some (.bool b)]
               | none => some [none]
    | _ => some [none]

def dCallerHash (active : Int → Bool) : Deriv where
  targets := ["McallerUrlHash"]; reads := ["McallerUrl"]; active := active
  f := fun vs => match vs with
    | [u] => match parseIntGo 4 u.asStr with
      | (v, true) => some [some (.int v)]
      | _ => some [none]
    | _ => some [none]

def masksAtB (v : Int) : Bool := masksAt v

def dMaskDbc : Deriv where
  targets := ["Dbc"]; reads := ["Dbc"]; active := masksAtB
  f := fun vs => match vs with
    | [d] => some [some (.str (maskDbc d.asStr))]
    | _ => some [none]

def dSqlTooLong : Deriv where
  targets := ["Sql"]; reads := ["Sql"]; active := masksAtB
  f := fun vs => match vs with
    | [q] => if q.asStr.length ≥ 32768 then some [some (.str (tooLongPrefix ++ q.asStr))] else some [none]
    | _ => some [none]

def dHttpcUrl : Deriv where
  targets := ["HttpcURL"]; reads := ["Url"]; active := always
  f := fun vs => match vs with
    | [u] => some [some (.str u.asStr)]
    | _ => some [none]

/-- `strconv.Atoi` result used without looking at the error (64-bit int) -/
def atoiVal (s : Bytes) : Int := (parseIntGo 8 s).1

def dParam : Deriv where
  targets := ["ParamPack", "StrDatas"]; reads := ["ParamId", "ParamResponse", "Data"]; active := always
  f := fun vs => match vs with
    | [i, r, d] => some [some (.ints [wrapI 4 (atoiVal i.asStr), atoiVal r.asStr]),
                         some (.strs (splitCommaSp d.asStr))]
    | _ => some [none, none]

def dActiveStack : Deriv where
  targets := ["TxId", "Stack"]; reads := ["Data"]; active := always
  f := fun vs => match vs with
    | [d] => match splitCommaSp d.asStr with
      | _ :: tx :: stack :: _ =>
        some [(match parseIntGo 8 tx with | (v, true) => some (.int v) | _ => none), some (.str stack)]
      | _ => none      -- strDatas[1] / strDatas[2]: index out of range
    | _ => some [none, none]

def dActiveStats : Deriv where
  targets := ["ActiveStats"]; reads := ["Data"]; active := always
  f := fun vs => match vs with
    | [d] =>
      let parts := splitOn 44 d.asStr
      if parts.length = 5 then
        some [some (.ints (parts.map fun p => match parseIntGo 4 p with | (v, true) => wrapI 2 v | _ => 0))]
      else some [none]
    | _ => some [none]

/-- the last `pid|url|act|inact` entry with exactly four words -/
def lastConn (d : Bytes) : Option (List Bytes) :=
  ((splitOn 44 d).map (splitOn 124)).reverse.find? (fun ws => ws.length == 4)

def dDbConPool : Deriv where
  targets := ["Pid", "Url", "ActCnt", "InactCnt"]; reads := ["Data"]; active := always
  f := fun vs => match vs with
    | [d] => match lastConn d.asStr with
      | some [p, u, a, i] =>
        some [some (.int (parseIntGo 4 p).1), some (.str u), some (.int (parseIntGo 4 a).1), some (.int (parseIntGo 4 i).1)]
      | _ => some [none, none, none, none]
    | _ => some [none, none, none, none]

def dConfig : Deriv where
  targets := ["MapData"]; reads := ["Data", "MapData"]; active := always
  f := fun vs => match vs with
    | [d, m] =>
      some [some (.strs ((scanLines d.asStr).foldl (fun acc line =>
        if line.contains 61 then mapPut acc (line.takeWhile (· != 61)) ((line.dropWhile (· != 61)).drop 1) else acc)
        m.asStrs))]
    | _ => some [none]

def endHashActive (v : Int) : Bool :=
  famGo v || (famNet v && decide (v ≥ 30102)) || famPy v || (famPhp v && decide (v ≥ 10102))
def startEndHashActive (v : Int) : Bool :=
  famGo v || famPy v || (famPhp v && decide (v ≥ 10102))

/-- the derivations of each pack type's Process(), in statement order -/
def derivsOf (name : String) : List Deriv :=
  if name = "UdpTxStartPack" then [dServiceUrlAlways, dRefererUrl, dIsStatic]
  else if name = "UdpTxEndPack" then [dServiceUrlIfBoth, dCallerHash endHashActive]
  else if name = "UdpTxStartEndPack" then [dServiceUrlAlways, dRefererUrl, dIsStatic, dCallerHash startEndHashActive]
  else if name = "UdpTxSqlPack" ∨ name = "UdpTxSqlParamPack" then [dMaskDbc, dSqlTooLong]
  else if name = "UdpTxDbcPack" then [dMaskDbc]
  else if name = "UdpTxHttpcPack" then [dHttpcUrl]
  else if name = "UdpTxParamPack" then [dParam]
  else if name = "UdpActiveStackPack" then [dActiveStack]
  else if name = "UdpActiveStatsPack" then [dActiveStats]
  else if name = "UdpDBConPoolPack" then [dDbConPool]
  else if name = "UdpConfigPack" then [dConfig]
  else []

/-- `p.Process()`; `none` = the call panics -/
def PackT.process (t : PackT) (ver : Int) (st : Rec) : Option Rec := runDerivs (derivsOf t.name) ver st

/-! ### general facts -/

theorem assignAll_other (ts : List String) (vs : List (Option Val)) (st : Rec) (f : String)
    (h : f ∉ ts) : assignAll ts vs st f = st f := by
  induction ts generalizing vs st with
  | nil => cases vs <;> rfl
  | cons t ts ih =>
    simp only [List.mem_cons, not_or] at h
    cases vs with
    | nil => rfl
    | cons v vs =>
      cases v with
      | none => simp only [assignAll]; exact ih vs st h.2
      | some v => simp only [assignAll]; rw [ih vs _ h.2]; simp [Rec.set, h.1]

/-- a field that is no target of any derivation is not changed by Process() -/
theorem runDerivs_other (ds : List Deriv) (ver : Int) (st st' : Rec) (f : String)
    (h : ∀ d ∈ ds, f ∉ d.targets) (hr : runDerivs ds ver st = some st') : st' f = st f := by
  induction ds generalizing st with
  | nil => simp [runDerivs] at hr; rw [← hr]
  | cons d ds ih =>
    simp only [runDerivs] at hr
    cases ha : d.apply ver st with
    | none => rw [ha] at hr; cases hr
    | some s1 =>
      rw [ha] at hr
      rw [ih s1 (fun d' hd' => h d' (by simp [hd'])) hr]
      unfold Deriv.apply at ha
      split at ha
      · split at ha
        · cases ha
        · injection ha with ha; rw [← ha]; exact assignAll_other _ _ _ _ (h d (by simp))
      · injection ha with ha; rw [ha]

/-- two packs that agree on the fields `L` (containing everything the derivations read) are
    processed alike: both panic, or the results agree on `L` -/
theorem assignAll_congr (ts : List String) (vs : List (Option Val)) (s1 s2 : Rec) (L : List String)
    (h : ∀ f ∈ L, s1 f = s2 f) : ∀ f ∈ L, assignAll ts vs s1 f = assignAll ts vs s2 f := by
  induction ts generalizing vs s1 s2 with
  | nil => cases vs <;> exact h
  | cons t ts ih =>
    cases vs with
    | nil => exact h
    | cons v vs =>
      cases v with
      | none => simp only [assignAll]; exact ih vs s1 s2 h
      | some v =>
        simp only [assignAll]
        apply ih
        intro f hf
        simp only [Rec.set]; split
        · rfl
        · exact h f hf

theorem runDerivs_congr (ds : List Deriv) (ver : Int) (s1 s2 : Rec) (L : List String)
    (hreads : ∀ d ∈ ds, ∀ r ∈ d.reads, r ∈ L) (h : ∀ f ∈ L, s1 f = s2 f) :
    match runDerivs ds ver s1, runDerivs ds ver s2 with
    | none, none => True
    | some a, some b => ∀ f ∈ L, a f = b f
    | _, _ => False := by
  induction ds generalizing s1 s2 with
  | nil => simpa [runDerivs] using h
  | cons d ds ih =>
    simp only [runDerivs]
    have hmap : d.reads.map s1 = d.reads.map s2 := by
      apply List.map_congr_left
      intro r hr; exact h r (hreads d (by simp) r hr)
    unfold Deriv.apply
    rw [hmap]
    cases hact : d.active ver
    · simp only [Bool.false_eq_true, if_false]
      exact ih _ _ (fun d' hd' => hreads d' (by simp [hd'])) h
    · simp only [if_true]
      cases hf : d.f (d.reads.map s2) with
      | none => trivial
      | some outs =>
        simp only []
        exact ih _ _ (fun d' hd' => hreads d' (by simp [hd'])) (assignAll_congr _ _ _ _ L h)

end Udp
