/-
  Golib.Udp.WFB — a decidable form of `Layout.WF`, for concrete instances (non-vacuity examples,
  witnesses of findings).
-/
import Golib.Udp.Layout

namespace Udp
open Prim

def wfFldB : Fmt → Conv → Val → Bool
  | .i32, .id, .int n => decide (inRange 4 n)
  | .i64, .id, .int n => decide (inRange 8 n)
  | .text16, .id, .str b => decide (b.length ≤ 65535)
  | .text16, .trunc n, .str b => decide ((b.take n).length ≤ 65535)
  | .text16, .numText w, .int n => decide (inRange w n) && (w == 4 || w == 8)
  | .text16, .rune, .int _ => true
  | _, _, _ => false

theorem wfFld_of_B (p : Fmt) (c : Conv) (v : Val) (h : wfFldB p c v = true) : Layout.wfFld p c v := by
  cases p <;> cases c <;> cases v <;> simp only [wfFldB, Layout.wfFld] at h ⊢ <;>
    first
    | (simp only [decide_eq_true_eq] at h; exact ⟨_, rfl, h⟩)
    | (simp only [Bool.and_eq_true, Bool.or_eq_true, decide_eq_true_eq, beq_iff_eq] at h
       exact ⟨_, rfl, h.1, h.2⟩)
    | exact ⟨_, rfl⟩
    | (exfalso; simp at h)

namespace Layout

def wfB : Layout → Int → Rec → Rec → Bool
  | .nil, _, _, _ => true
  | .fld nm p c rest, ver, x, st =>
      wfFldB p c (x nm) && wfB rest ver x (st.set nm (convR c (convW c (x nm))))
  | .ite c t e rest, ver, x, st =>
      (if c.eval ver then wfB t ver x st else wfB e ver x st) &&
      wfB rest ver x (if c.eval ver then post t ver x st else post e ver x st)
  | .setC nm v rest, ver, x, st => wfB rest ver x (st.set nm v)
  | .setJoin nm src rest, ver, x, st => wfB rest ver (x.set nm (.str (joinInts 44 (x src).asInts))) st
  | .rawLen nm ln rest, ver, x, st =>
      (match x nm, st ln with
        | .str b, .int n => decide (n = b.length)
        | _, _ => false) && wfB rest ver x (st.set nm (.str (x nm).asStr))
  | .unknown _, _, _, _ => false

theorem WF_of_wfB (l : Layout) (ver : Int) (x st : Rec) (h : wfB l ver x st = true) : WF l ver x st := by
  induction l generalizing x st with
  | nil => trivial
  | fld nm p c rest ih =>
    simp only [wfB, Bool.and_eq_true] at h
    exact ⟨wfFld_of_B p c _ h.1, ih _ _ h.2⟩
  | ite c t e rest iht ihe ihr =>
    simp only [wfB, Bool.and_eq_true] at h
    refine ⟨?_, ihr _ _ h.2⟩
    cases hc : c.eval ver
    · simp only [hc, Bool.false_eq_true, if_false] at h ⊢; exact ihe _ _ h.1
    · simp only [hc, if_true] at h ⊢; exact iht _ _ h.1
  | setC nm v rest ih => exact ih _ _ h
  | setJoin nm src rest ih => exact ih _ _ h
  | rawLen nm ln rest ih =>
    simp only [wfB, Bool.and_eq_true] at h
    refine ⟨?_, ih _ _ h.2⟩
    have h1 := h.1
    split at h1
    · rename_i b n hx hs
      simp only [decide_eq_true_eq] at h1
      exact ⟨b, hx, by rw [hs, h1]⟩
    · cases h1
  | unknown why => simp [wfB] at h

end Layout
end Udp
