/-
  Golib.Udp.MaskExact — what the masking writes, exactly.

  `mask_password` (Golib.Udp.Mask) is token-level: no token of the result has the key `password`
  with a value other than `#`.  A rewriting that damages the *key* instead of replacing the value
  (`password=word` ↦ `pass#=word`: the value found by searching the token for its text) satisfies
  that statement and still keeps the password.  The statements here say what the result *is*:

    maskPass_exact      one ParamKV pass (`NewParamKVSeperate(s, sep, "=").ToStringStr(key, val)`) over
                        `sep`-joined plain tokens rewrites every token to `key=value'` where `value'` is
                        `val` for the key asked for and the value of the last token with that key otherwise;
                        tokens with an empty key are copied
    maskDbc_uniform     both passes of `Process()` over a string with one kind of separator: the same,
                        with `password` / `#`
    mask_exact_distinct with pairwise distinct keys: every token other than `password=…` is unchanged,
                        `password=v` becomes `password=#` — for any `v`, also a piece of the key
-/
import Golib.Udp.Mask

namespace Udp

/-- the value of the last token of `toks` with key `k` (`kvMap[k]` after the constructor) -/
def lastValOf (k : Bytes) (toks : List Tok) : Bytes :=
  match toks.reverse.find? (fun u => u.1 == k) with
  | some u => u.2
  | none => []

/-- the token `ToStringStr(key, val)` writes in the place of `t` -/
def substTok (key val : Bytes) (toks : List Tok) (t : Tok) : Tok :=
  if t.1 = [] then t else (t.1, if t.1 = key then val else lastValOf t.1 toks)

theorem find_render (k : Bytes) (l : List Tok) (hl : ∀ u ∈ l, PlainTok u) :
    (l.map render).find? (fun t => keyOf t == k) = (l.find? (fun u => u.1 == k)).map render := by
  induction l with
  | nil => rfl
  | cons u r ih =>
    have hu := hl u (by simp)
    simp only [List.map_cons, List.find?_cons, keyOf_render u hu]
    cases h : u.1 == k
    · simpa using ih (fun v hv => hl v (by simp [hv]))
    · simp

theorem lookupLast_render (k : Bytes) (toks : List Tok) (h : ∀ u ∈ toks, PlainTok u) :
    lookupLast k (toks.map render) = lastValOf k toks := by
  unfold lookupLast lastValOf
  rw [← List.map_reverse, find_render k toks.reverse (fun u hu => h u (List.mem_reverse.mp hu))]
  cases hf : toks.reverse.find? (fun u => u.1 == k) with
  | none => rfl
  | some u =>
    have hm := List.mem_reverse.mp (List.mem_of_find?_eq_some hf)
    simp [valOf_render u (h u hm)]

theorem lastValOf_spec (k : Bytes) (toks : List Tok) :
    (∃ u ∈ toks, u.1 = k ∧ lastValOf k toks = u.2) ∨ ((∀ u ∈ toks, u.1 ≠ k) ∧ lastValOf k toks = []) := by
  unfold lastValOf
  cases hf : toks.reverse.find? (fun u => u.1 == k) with
  | none =>
    right
    refine ⟨?_, rfl⟩
    intro u hu hk
    have := List.find?_eq_none.mp hf u (List.mem_reverse.mpr hu)
    simp [hk] at this
  | some u =>
    left
    exact ⟨u, List.mem_reverse.mp (List.mem_of_find?_eq_some hf), by simpa using List.find?_some hf, rfl⟩

theorem plain_nil : Plain [] := ⟨by simp, by simp, by simp, clean_nil⟩

theorem lastValOf_plain (k : Bytes) (toks : List Tok) (h : ∀ u ∈ toks, PlainTok u) : Plain (lastValOf k toks) := by
  rcases lastValOf_spec k toks with ⟨u, hu, _, he⟩ | ⟨_, he⟩
  · rw [he]; exact (h u hu).2
  · rw [he]; exact plain_nil

theorem substTok_plain (key val : Bytes) (hval : Plain val) (toks : List Tok) (h : ∀ u ∈ toks, PlainTok u)
    (t : Tok) (ht : PlainTok t) : PlainTok (substTok key val toks t) := by
  unfold substTok
  by_cases h0 : t.1 = []
  · rw [if_pos h0]; exact ht
  · rw [if_neg h0]
    refine ⟨ht.1, ?_⟩
    by_cases hk : t.1 = key
    · simpa [hk] using hval
    · simpa [hk] using lastValOf_plain t.1 toks h

theorem substTok_key (key val : Bytes) (toks : List Tok) (t : Tok) : (substTok key val toks t).1 = t.1 := by
  unfold substTok; split <;> rfl

/-- **one ParamKV pass, exactly**: over `c`-joined plain tokens (`c` blank or semicolon),
    `NewParamKVSeperate(s, c, "=").ToStringStr(key, val)` writes, token by token, `substTok` -/
theorem maskPass_exact (c : Nat) (hc : c = 32 ∨ c = 59) (key val : Bytes) (toks : List Tok) (hne : toks ≠ [])
    (h : ∀ u ∈ toks, PlainTok u) :
    maskPass c key val (renderGrp c toks) = renderGrp c (toks.map (substTok key val toks)) := by
  have hsep : sepByte c = true ∧ c ≠ 61 := by rcases hc with rfl | rfl <;> decide
  have hsplit : splitOn c (renderGrp c toks) = toks.map render := by
    unfold renderGrp
    apply splitOn_joinOn c _ (by simpa using hne)
    intro x hx
    obtain ⟨t, ht, rfl⟩ := List.mem_map.mp hx
    exact render_nomem t (h t ht) c hsep.1 hsep.2
  rw [maskPass_eq, hsplit]
  unfold renderGrp
  rw [List.map_map, List.map_map]
  congr 1
  apply List.map_congr_left
  intro t ht
  have hp := h t ht
  simp only [Function.comp, rebuild, keyOf_render t hp, substTok]
  by_cases h0 : t.1 = []
  · simp [h0]
  · have hne0 : t.1.isEmpty = false := by simpa using h0
    rw [if_neg h0]
    simp only [hne0, Bool.false_eq_true, if_false, render]
    by_cases hk : t.1 = key
    · simp [hk]
    · have hb : (t.1 == key) = false := by simpa using hk
      simp only [hb, Bool.false_eq_true, if_false, if_neg hk]
      rw [lookupLast_render t.1 toks h]

/-- a pass with the *other* separator sees the whole string as one token and, unless its first key
    is the key asked for, writes it back unchanged (given that `TrimSpace` leaves its value text alone) -/
theorem maskPass_whole (c d : Nat) (hcd : c ≠ d) (hc : c = 32 ∨ c = 59) (key val : Bytes)
    (t : Tok) (r : List Tok) (h : ∀ u ∈ t :: r, PlainTok u) (hk : t.1 ≠ key)
    (htrim : trim (valStr d t r) = valStr d t r) :
    maskPass c key val (renderGrp d (t :: r)) = renderGrp d (t :: r) := by
  have hsep : sepByte c = true ∧ c ≠ 61 := by rcases hc with rfl | rfl <;> decide
  have hno : c ∉ renderGrp d (t :: r) := renderGrp_nomem d c (t :: r) h hsep.1 hsep.2 hcd
  have ht := h t (by simp)
  rw [maskPass_eq, splitOn_nosep c _ hno]
  simp only [List.map_cons, List.map_nil, joinOn, rebuild, keyOf_grp d t r ht]
  by_cases h0 : t.1 = []
  · simp [h0]
  · have hne0 : t.1.isEmpty = false := by simpa using h0
    have hb : (t.1 == key) = false := by simpa using hk
    simp only [hne0, Bool.false_eq_true, if_false, hb]
    have hl : lookupLast t.1 [renderGrp d (t :: r)] = valStr d t r := by
      simp [lookupLast, keyOf_grp d t r ht, valOf_grp d t r ht, htrim]
    rw [hl, renderGrp_kv]

theorem renderGrp_ne_nil (d : Nat) (t : Tok) (r : List Tok) : (renderGrp d (t :: r)).isEmpty = false := by
  rw [renderGrp_kv]; cases t.1 <;> rfl

/-- **both passes of `Process()`, exactly, on a string with one kind of separator**: tokens
    `t :: r` joined by blanks (or by semicolons), first key not `password`: the result is the same
    tokens with every `password` value replaced by `#` and every other keyed token carrying the value
    of the last token with its key (Go map semantics).  (Blank-joined: the tokens with the first
    token's key have non-empty values — otherwise `TrimSpace` glues `k= b=1` to `k=b=1`.) -/
theorem maskDbc_uniform (c : Nat) (hc : c = 32 ∨ c = 59) (t : Tok) (r : List Tok) (h : ∀ u ∈ t :: r, PlainTok u)
    (hk : t.1 ≠ kwPassword) (hfirst : c = 32 → ∀ u ∈ t :: r, u.1 = t.1 → u.2 ≠ []) :
    maskDbc (renderGrp c (t :: r)) = renderGrp c ((t :: r).map (substTok kwPassword kwHash (t :: r))) := by
  unfold maskDbc
  rw [renderGrp_ne_nil]
  simp only [Bool.false_eq_true, if_false]
  have ht := h t (by simp)
  have hr : ∀ u ∈ r, PlainTok u := fun u hu => h u (by simp [hu])
  rcases hc with rfl | rfl
  · -- blanks: pass 1 rewrites the tokens, pass 2 sees one token
    rw [maskPass_exact 32 (Or.inl rfl) _ _ (t :: r) (by simp) h]
    have hp' : ∀ u ∈ (t :: r).map (substTok kwPassword kwHash (t :: r)), PlainTok u := by
      intro u hu
      obtain ⟨v, hv, rfl⟩ := List.mem_map.mp hu
      exact substTok_plain _ _ kwHash_plain _ h v (h v hv)
    simp only [List.map_cons] at hp' ⊢
    apply maskPass_whole 59 32 (by decide) (Or.inr rfl) _ _ _ _ hp'
    · rw [substTok_key]; exact hk
    · rw [trim_valStr32 _ _ (hp' _ (by simp)) (fun u hu => hp' u (by simp [hu]))]
      have : ¬ ((substTok kwPassword kwHash (t :: r) t).2 = [] ∧ r.map (substTok kwPassword kwHash (t :: r)) ≠ []) := by
        intro hh
        have h2 := hh.1
        unfold substTok at h2
        by_cases h0 : t.1 = []
        · rw [if_pos h0] at h2
          exact hfirst rfl t (by simp) rfl h2
        · rw [if_neg h0] at h2
          simp only [if_neg hk] at h2
          rcases lastValOf_spec t.1 (t :: r) with ⟨u, hu, huk, he⟩ | ⟨hno, _⟩
          · exact hfirst rfl u hu huk (by rw [← he]; exact h2)
          · exact hno t (by simp) rfl
      rw [if_neg this]
  · -- semicolons: pass 1 sees one token, pass 2 rewrites the tokens
    rw [maskPass_whole 32 59 (by decide) (Or.inl rfl) _ _ t r h hk (trim_valStr59 t r ht hr)]
    exact maskPass_exact 59 (Or.inr rfl) _ _ (t :: r) (by simp) h

theorem lastValOf_nodup (toks : List Tok) (hn : (toks.map (·.1)).Nodup) (t : Tok) (ht : t ∈ toks) :
    lastValOf t.1 toks = t.2 := by
  have key : toks.reverse.find? (fun u => u.1 == t.1) = some t := by
    induction toks with
    | nil => cases ht
    | cons u r ih =>
      simp only [List.map_cons, List.nodup_cons] at hn
      rw [List.reverse_cons, List.find?_append]
      rcases List.mem_cons.mp ht with rfl | htr
      · have : r.reverse.find? (fun u => u.1 == t.1) = none := by
          apply List.find?_eq_none.mpr
          intro v hv
          have hv' := List.mem_reverse.mp hv
          simp only [beq_iff_eq, ne_eq]
          intro he
          exact hn.1 (List.mem_map.mpr ⟨v, hv', he⟩)
        rw [this]; simp
      · rw [ih hn.2 htr]; rfl
  unfold lastValOf; rw [key]

/-- with pairwise distinct keys the rewriting touches the token of the key and nothing else -/
theorem substTok_nodup (key val : Bytes) (toks : List Tok) (hn : (toks.map (·.1)).Nodup) (t : Tok) (ht : t ∈ toks)
    (hkey : key ≠ []) :
    substTok key val toks t = if t.1 = key then (key, val) else t := by
  unfold substTok
  by_cases h0 : t.1 = []
  · have : t.1 ≠ key := by rw [h0]; exact fun e => hkey e.symm
    rw [if_pos h0, if_neg this]
  · rw [if_neg h0]
    by_cases hk : t.1 = key
    · simp [hk]
    · rw [if_neg hk, if_neg hk, lastValOf_nodup toks hn t ht]

/-- the masked form of one token -/
def maskTok (t : Tok) : Tok := if t.1 = kwPassword then (kwPassword, kwHash) else t

/-- **the masking replaces the password value and nothing else**: tokens with pairwise distinct
    keys joined by blanks (or by semicolons), first key not `password`, at a version of a masking
    family: the result is the same string with `password=v` rewritten to `password=#` — whatever
    `v` is (a piece of the word `password` included) — and every other token byte for byte as it was. -/
theorem mask_exact_distinct (ver : Int) (hv : masksAt ver = true) (c : Nat) (hc : c = 32 ∨ c = 59)
    (t : Tok) (r : List Tok) (h : ∀ u ∈ t :: r, PlainTok u) (hn : ((t :: r).map (·.1)).Nodup)
    (hk : t.1 ≠ kwPassword) (hfirst : c = 32 → t.2 ≠ []) :
    processDbc ver (renderGrp c (t :: r)) = renderGrp c ((t :: r).map maskTok) := by
  unfold processDbc
  rw [hv]; simp only [if_true]
  rw [maskDbc_uniform c hc t r h hk]
  · congr 1
    apply List.map_congr_left
    intro u hu
    rw [substTok_nodup _ _ _ hn u hu kw_ne_nil]; rfl
  · intro hc32 u hu huk
    have : u = t := by
      have h1 := lastValOf_nodup (t :: r) hn u hu
      have h2 := lastValOf_nodup (t :: r) hn t (by simp)
      rw [huk] at h1
      -- same key in a list with distinct keys: same token
      have : u.2 = t.2 := by rw [← h1, ← h2]
      exact Prod.ext huk this
    rw [this]; exact hfirst hc32

end Udp
