/-
  Golib.Udp.Split — lemmas about `splitOn` / `joinOn` / `trim` / `toPair` (Golib.Udp.ParamKV).
-/
import Golib.Udp.ParamKV

namespace Udp

/-! ### split / join -/

theorem splitOn_ne_nil (c : Nat) (s : Bytes) : splitOn c s ≠ [] := by
  induction s with
  | nil => simp [splitOn]
  | cons x xs ih =>
    simp only [splitOn]
    split
    · simp
    · split <;> simp

/-- prepend `a` to the first piece -/
def consHead (a : Bytes) : List Bytes → List Bytes
  | [] => [a]
  | h :: t => (a ++ h) :: t

theorem splitOn_cons_ne (c x : Nat) (xs : Bytes) (h : x ≠ c) :
    splitOn c (x :: xs) = consHead [x] (splitOn c xs) := by
  simp only [splitOn, h, if_false]
  cases splitOn c xs <;> rfl

theorem splitOn_cons_eq (c : Nat) (xs : Bytes) : splitOn c (c :: xs) = [] :: splitOn c xs := by
  simp [splitOn]

theorem consHead_append (a b : Bytes) (l : List Bytes) (hl : l ≠ []) :
    consHead a (consHead b l) = consHead (a ++ b) l := by
  cases l with
  | nil => exact absurd rfl hl
  | cons h t => simp [consHead]

/-- a separator-free prefix stays in the first piece -/
theorem splitOn_append_nosep (c : Nat) (a b : Bytes) (h : c ∉ a) :
    splitOn c (a ++ b) = consHead a (splitOn c b) := by
  induction a with
  | nil => cases hb : splitOn c b with
    | nil => exact absurd hb (splitOn_ne_nil c b)
    | cons x y => simp [consHead, hb]
  | cons x xs ih =>
    have hx : x ≠ c := by intro e; apply h; simp [e]
    have hxs : c ∉ xs := by intro e; apply h; simp [e]
    rw [List.cons_append, splitOn_cons_ne c x _ hx, ih hxs]
    rw [consHead_append _ _ _ (splitOn_ne_nil c b)]; rfl

theorem splitOn_nosep (c : Nat) (a : Bytes) (h : c ∉ a) : splitOn c a = [a] := by
  have := splitOn_append_nosep c a [] h
  simpa [splitOn, consHead] using this

/-- splitting at an occurrence of the separator -/
theorem splitOn_append_sep (c : Nat) (a b : Bytes) :
    splitOn c (a ++ c :: b) = splitOn c a ++ splitOn c b := by
  induction a with
  | nil => simp [splitOn]
  | cons x xs ih =>
    by_cases hx : x = c
    · subst hx
      rw [List.cons_append, splitOn_cons_eq, splitOn_cons_eq, ih]; rfl
    · rw [List.cons_append, splitOn_cons_ne c x _ hx, splitOn_cons_ne c x _ hx, ih]
      cases hs : splitOn c xs with
      | nil => exact absurd hs (splitOn_ne_nil c xs)
      | cons p q => simp [consHead]

/-- `Split ∘ Join = id` on separator-free pieces -/
theorem splitOn_joinOn (c : Nat) (xs : List Bytes) (hne : xs ≠ []) (h : ∀ x ∈ xs, c ∉ x) :
    splitOn c (joinOn c xs) = xs := by
  induction xs with
  | nil => exact absurd rfl hne
  | cons x r ih =>
    cases r with
    | nil => simp only [joinOn]; exact splitOn_nosep c x (h x (by simp))
    | cons y r' =>
      simp only [joinOn]
      rw [splitOn_append_sep, splitOn_nosep c x (h x (by simp)),
        ih (by simp) (fun z hz => h z (by simp [hz]))]
      rfl

theorem joinOn_nomem (c d : Nat) (xs : List Bytes) (hd : d ≠ c) (h : ∀ x ∈ xs, d ∉ x) :
    d ∉ joinOn c xs := by
  induction xs with
  | nil => simp [joinOn]
  | cons x r ih =>
    cases r with
    | nil => simpa [joinOn] using h x (by simp)
    | cons y r' =>
      simp only [joinOn, List.mem_append, List.mem_cons, not_or]
      exact ⟨h x (by simp), hd, ih (fun z hz => h z (by simp [hz]))⟩

theorem joinOn_bytes (c : Nat) (xs : List Bytes) (P : Nat → Prop) (hc : P c)
    (h : ∀ x ∈ xs, ∀ b ∈ x, P b) : ∀ b ∈ joinOn c xs, P b := by
  induction xs with
  | nil => intro b hb; simp [joinOn] at hb
  | cons x r ih =>
    cases r with
    | nil => simpa [joinOn] using h x (by simp)
    | cons y r' =>
      intro b hb
      simp only [joinOn, List.mem_append, List.mem_cons] at hb
      rcases hb with hb | rfl | hb
      · exact h x (by simp) b hb
      · exact hc
      · exact ih (fun z hz => h z (by simp [hz])) b hb

/-! ### white space -/

/-- the bytes that can begin a white-space character -/
def isLead (b : Nat) : Bool :=
  b == 9 || b == 10 || b == 11 || b == 12 || b == 13 || b == 32 || b == 194 || b == 225 || b == 226 || b == 227

/-- every white-space sequence contains a lead byte, and the only one made of the byte 32 alone… -/
theorem spaceSeqs_lead : ∀ q ∈ spaceSeqs, ∃ b ∈ q, isLead b = true := by decide

theorem spaceSeqsRev_lead : ∀ q ∈ spaceSeqs.map List.reverse, ∃ b ∈ q, isLead b = true := by decide

theorem isPrefixOf_mem {q s : Bytes} (h : q.isPrefixOf s = true) : ∀ b ∈ q, b ∈ s := by
  induction q generalizing s with
  | nil => intro b hb; simp at hb
  | cons x q ih =>
    cases s with
    | nil => simp [List.isPrefixOf] at h
    | cons y s =>
      simp only [List.isPrefixOf, Bool.and_eq_true, beq_iff_eq] at h
      intro b hb
      rcases List.mem_cons.mp hb with rfl | hb
      · simp [h.1]
      · exact List.mem_cons_of_mem _ (ih h.2 b hb)

theorem dropOne_none (seqs : List Bytes) (s : Bytes)
    (hseq : ∀ q ∈ seqs, ∃ b ∈ q, isLead b = true) (hs : ∀ b ∈ s, isLead b = false) :
    dropOne seqs s = none := by
  unfold dropOne
  rw [List.findSome?_eq_none_iff]
  intro q hq
  split
  · rename_i hp
    obtain ⟨b, hb, hl⟩ := hseq q hq
    have := hs b (isPrefixOf_mem hp b hb)
    rw [hl] at this; cases this
  · rfl

theorem dropAll_noLead (seqs : List Bytes) (n : Nat) (s : Bytes)
    (hseq : ∀ q ∈ seqs, ∃ b ∈ q, isLead b = true) (hs : ∀ b ∈ s, isLead b = false) :
    dropAll seqs n s = s := by
  cases n with
  | zero => rfl
  | succ n => simp only [dropAll, dropOne_none seqs s hseq hs]

/-- text without any white-space lead byte is not changed by TrimSpace -/
theorem trim_noLead (s : Bytes) (hs : ∀ b ∈ s, isLead b = false) : trim s = s := by
  unfold trim trimRight trimLeft
  rw [dropAll_noLead _ _ _ spaceSeqs_lead hs]
  rw [dropAll_noLead _ _ _ spaceSeqsRev_lead (by intro b hb; exact hs b (List.mem_reverse.mp hb))]
  simp

/-- on text whose only white-space lead byte is the blank, one step removes one leading blank -/
theorem dropOne_blank (seqs : List Bytes) (s : Bytes)
    (hseq : ∀ q ∈ seqs, q = [32] ∨ ∃ b ∈ q, isLead b = true ∧ b ≠ 32)
    (hs : ∀ b ∈ s, b = 32 ∨ isLead b = false) :
    dropOne seqs s = none ∨ ∃ r, s = 32 :: r ∧ dropOne seqs s = some r := by
  unfold dropOne
  induction seqs with
  | nil => left; rfl
  | cons q qs ih =>
    simp only [List.findSome?_cons]
    split
    · rename_i r hr
      split at hr
      · rename_i hp
        rcases hseq q (by simp) with rfl | ⟨b, hb, hl, hne⟩
        · cases s with
          | nil => simp [List.isPrefixOf] at hp
          | cons y s' =>
            simp only [List.isPrefixOf, Bool.and_eq_true, beq_iff_eq] at hp
            right
            refine ⟨s', by rw [hp.1], ?_⟩
            simp at hr; rw [← hr]
        · have hm := isPrefixOf_mem hp b hb
          rcases hs b hm with h32 | hnl
          · exact absurd h32 hne
          · rw [hl] at hnl; cases hnl
      · cases hr
    · exact ih (fun q' hq' => hseq q' (by simp [hq']))

theorem spaceSeqs_blank : ∀ q ∈ spaceSeqs, q = [32] ∨ ∃ b ∈ q, isLead b = true ∧ b ≠ 32 := by decide
theorem spaceSeqsRev_blank :
    ∀ q ∈ spaceSeqs.map List.reverse, q = [32] ∨ ∃ b ∈ q, isLead b = true ∧ b ≠ 32 := by decide

/-- … so all steps together remove the leading blanks and nothing else -/
theorem dropAll_blank (seqs : List Bytes) (n : Nat) (s : Bytes)
    (hseq : ∀ q ∈ seqs, q = [32] ∨ ∃ b ∈ q, isLead b = true ∧ b ≠ 32)
    (hs : ∀ b ∈ s, b = 32 ∨ isLead b = false) :
    ∃ w, (∀ b ∈ w, b = 32) ∧ s = w ++ dropAll seqs n s := by
  induction n generalizing s with
  | zero => exact ⟨[], by simp, by simp [dropAll]⟩
  | succ n ih =>
    simp only [dropAll]
    rcases dropOne_blank seqs s hseq hs with h | ⟨r, hsr, h⟩
    · rw [h]; exact ⟨[], by simp, by simp⟩
    · rw [h]
      have hr : ∀ b ∈ r, b = 32 ∨ isLead b = false := by
        intro b hb; exact hs b (by rw [hsr]; simp [hb])
      obtain ⟨w, hw, hrw⟩ := ih r hr
      refine ⟨32 :: w, ?_, ?_⟩
      · intro b hb; rcases List.mem_cons.mp hb with rfl | hb
        · rfl
        · exact hw b hb
      · rw [hsr, List.cons_append, ← hrw]

/-- TrimSpace of text whose only white space is the blank: blanks removed at both ends -/
theorem trim_blank (s : Bytes) (hs : ∀ b ∈ s, b = 32 ∨ isLead b = false) :
    ∃ w1 w2, (∀ b ∈ w1, b = 32) ∧ (∀ b ∈ w2, b = 32) ∧ s = w1 ++ trim s ++ w2 := by
  unfold trim
  obtain ⟨w1, hw1, e1⟩ := dropAll_blank spaceSeqs s.length s spaceSeqs_blank hs
  have hs2 : ∀ b ∈ trimLeft s, b = 32 ∨ isLead b = false := by
    intro b hb; apply hs; unfold trimLeft at hb; rw [e1]; simp [hb]
  have hs3 : ∀ b ∈ (trimLeft s).reverse, b = 32 ∨ isLead b = false := by
    intro b hb; exact hs2 b (List.mem_reverse.mp hb)
  obtain ⟨w2, hw2, e2⟩ := dropAll_blank (spaceSeqs.map List.reverse) (trimLeft s).length
    (trimLeft s).reverse spaceSeqsRev_blank hs3
  refine ⟨w1, w2.reverse, hw1, ?_, ?_⟩
  · intro b hb; exact hw2 b (List.mem_reverse.mp hb)
  · have e3 : trimLeft s = trimRight (trimLeft s) ++ w2.reverse := by
      unfold trimRight
      have := congrArg List.reverse e2
      rw [List.reverse_reverse, List.reverse_append] at this
      exact this
    rw [List.append_assoc, ← e3]
    exact e1

/-- pieces of a blank-trimmed text are pieces of the text (or empty) -/
theorem splitOn_trim_blank (s : Bytes) (hs : ∀ b ∈ s, b = 32 ∨ isLead b = false) :
    ∀ p ∈ splitOn 32 (trim s), p ∈ splitOn 32 s := by
  obtain ⟨w1, w2, hw1, hw2, e⟩ := trim_blank s hs
  have right : ∀ (t w : Bytes), (∀ b ∈ w, b = 32) → ∀ p ∈ splitOn 32 t, p ∈ splitOn 32 (t ++ w) := by
    intro t w hw p hp
    cases w with
    | nil => simpa using hp
    | cons x w' =>
      have : x = 32 := hw x (by simp)
      subst this
      rw [splitOn_append_sep]; exact List.mem_append_left _ hp
  have left : ∀ (w t : Bytes), (∀ b ∈ w, b = 32) → ∀ p ∈ splitOn 32 t, p ∈ splitOn 32 (w ++ t) := by
    intro w
    induction w with
    | nil => intro t _ p hp; simpa using hp
    | cons x w' ih =>
      intro t hw p hp
      have : x = 32 := hw x (by simp)
      subst this
      rw [List.cons_append, splitOn_cons_eq]
      exact List.mem_cons_of_mem _ (ih t (fun b hb => hw b (by simp [hb])) p hp)
  intro p hp
  rw [e, List.append_assoc]
  exact left w1 _ hw1 p (right _ w2 hw2 p hp)

/-! ### ToPair -/

theorem takeWhile_ne_append (k rest : Bytes) (h : 61 ∉ k) :
    (k ++ 61 :: rest).takeWhile (· != 61) = k := by
  induction k with
  | nil => simp
  | cons x xs ih =>
    have hx : x ≠ 61 := by intro e; apply h; simp [e]
    have hxs : 61 ∉ xs := by intro e; apply h; simp [e]
    simp [hx, ih hxs]

theorem dropWhile_ne_append (k rest : Bytes) (h : 61 ∉ k) :
    (k ++ 61 :: rest).dropWhile (· != 61) = 61 :: rest := by
  induction k with
  | nil => simp
  | cons x xs ih =>
    have hx : x ≠ 61 := by intro e; apply h; simp [e]
    have hxs : 61 ∉ xs := by intro e; apply h; simp [e]
    simp [hx, ih hxs]

/-- a token `k=rest` with an `=`-free `k` -/
theorem toPair_kv (k rest : Bytes) (h : 61 ∉ k) :
    toPair (k ++ 61 :: rest) = (trim k, trim rest) := by
  unfold toPair
  have hc : (k ++ 61 :: rest).contains 61 = true := by simp
  rw [hc, takeWhile_ne_append k rest h, dropWhile_ne_append k rest h]
  simp

theorem toPair_noEq (s : Bytes) (h : 61 ∉ s) : toPair s = ([], []) := by
  unfold toPair
  have : s.contains 61 = false := by simpa using h
  rw [this]; simp

end Udp

namespace Udp

/-! ### TrimSpace on arbitrary bytes: only the two ends matter -/

theorem dropOne_none_iff (seqs : List Bytes) (s : Bytes) :
    dropOne seqs s = none ↔ ∀ q ∈ seqs, q.isPrefixOf s = false := by
  unfold dropOne
  rw [List.findSome?_eq_none_iff]
  constructor
  · intro h q hq
    have := h q hq
    cases hp : q.isPrefixOf s
    · rfl
    · rw [hp] at this; simp at this
  · intro h q hq; simp [h q hq]

theorem prefix_append_sep (q a Y : Bytes) (c : Nat) (h : q.isPrefixOf (a ++ c :: Y) = true) :
    q.isPrefixOf a = true ∨ c ∈ q := by
  induction a generalizing q with
  | nil =>
    cases q with
    | nil => left; rfl
    | cons x q' =>
      simp only [List.nil_append, List.isPrefixOf, Bool.and_eq_true, beq_iff_eq] at h
      right; rw [h.1]; simp
  | cons y a' ih =>
    cases q with
    | nil => left; rfl
    | cons x q' =>
      simp only [List.cons_append, List.isPrefixOf, Bool.and_eq_true, beq_iff_eq] at h
      rcases ih q' h.2 with h' | h'
      · left; simp [List.isPrefixOf, h.1, h']
      · right; simp [h']

/-- text that does not begin with white space still does not when an ASCII separator and more follow -/
theorem dropOne_append_sep (seqs : List Bytes) (a Y : Bytes) (c : Nat) (hc : ∀ q ∈ seqs, c ∉ q)
    (ha : dropOne seqs a = none) : dropOne seqs (a ++ c :: Y) = none := by
  rw [dropOne_none_iff] at ha ⊢
  intro q hq
  cases hp : q.isPrefixOf (a ++ c :: Y)
  · rfl
  · rcases prefix_append_sep q a Y c hp with h | h
    · rw [ha q hq] at h; cases h
    · exact absurd h (hc q hq)

/-- … also when a blank follows, provided the text is not empty -/
theorem dropOne_append_blank (seqs : List Bytes) (a Y : Bytes) (hq : ∀ q ∈ seqs, q = [32] ∨ 32 ∉ q)
    (hne : a ≠ []) (ha : dropOne seqs a = none) : dropOne seqs (a ++ 32 :: Y) = none := by
  rw [dropOne_none_iff] at ha ⊢
  intro q hqm
  cases hp : q.isPrefixOf (a ++ 32 :: Y)
  · rfl
  · rcases prefix_append_sep q a Y 32 hp with h | h
    · rw [ha q hqm] at h; cases h
    · rcases hq q hqm with rfl | h'
      · cases a with
        | nil => exact absurd rfl hne
        | cons y a' =>
          simp only [List.cons_append, List.isPrefixOf, Bool.and_eq_true, beq_iff_eq] at hp
          have := ha [32] hqm
          simp [List.isPrefixOf, hp.1] at this
      · exact absurd h h'

theorem spaceSeqs_no59 : ∀ q ∈ spaceSeqs, 59 ∉ q := by decide
theorem spaceSeqs_no61 : ∀ q ∈ spaceSeqs, 61 ∉ q := by decide
theorem spaceSeqsRev_no61 : ∀ q ∈ spaceSeqs.map List.reverse, 61 ∉ q := by decide
theorem spaceSeqs_blank32 : ∀ q ∈ spaceSeqs, q = [32] ∨ 32 ∉ q := by decide

theorem dropOne_blank_head (Y : Bytes) : dropOne spaceSeqs (32 :: Y) = some Y := by
  simp [dropOne, spaceSeqs, List.findSome?, List.isPrefixOf]

theorem dropAll_of_none (seqs : List Bytes) (n : Nat) (s : Bytes) (h : dropOne seqs s = none) :
    dropAll seqs n s = s := by
  cases n with
  | zero => rfl
  | succ n => simp only [dropAll, h]

theorem trimLeft_of_none (s : Bytes) (h : dropOne spaceSeqs s = none) : trimLeft s = s :=
  dropAll_of_none _ _ _ h

theorem trimRight_of_none (s : Bytes) (h : dropOne (spaceSeqs.map List.reverse) s.reverse = none) :
    trimRight s = s := by
  unfold trimRight; rw [dropAll_of_none _ _ _ h]; simp

/-- one leading blank before text that does not begin with white space -/
theorem trimLeft_blank (Y : Bytes) (h : dropOne spaceSeqs Y = none) : trimLeft (32 :: Y) = Y := by
  unfold trimLeft
  simp only [List.length_cons, dropAll, dropOne_blank_head]
  exact dropAll_of_none _ _ _ h

/-- a text neither begins nor ends with a white-space character -/
def Clean (s : Bytes) : Prop :=
  dropOne spaceSeqs s = none ∧ dropOne (spaceSeqs.map List.reverse) s.reverse = none

instance (s : Bytes) : Decidable (Clean s) := by unfold Clean; infer_instance

theorem trim_clean (s : Bytes) (h : Clean s) : trim s = s := by
  unfold trim; rw [trimLeft_of_none s h.1, trimRight_of_none s h.2]

theorem clean_nil : Clean [] := by decide

/-- text without white-space lead bytes is clean -/
theorem clean_noLead (s : Bytes) (hs : ∀ b ∈ s, isLead b = false) : Clean s :=
  ⟨dropOne_none _ _ spaceSeqs_lead hs,
   dropOne_none _ _ spaceSeqsRev_lead (by intro b hb; exact hs b (List.mem_reverse.mp hb))⟩

end Udp
