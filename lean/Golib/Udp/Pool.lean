/-
  Golib.Udp.Pool — CreatePack / ClosePack over sync.Pool: no residue.

  `sync.Pool` is modelled by what its contract allows: `Get` hands back *any* object that was `Put`
  and not handed out since, or a new one from `New`; it may also drop pooled objects at any time.
  `ClosePack p` runs `p.Clear()` and puts `p`; `CreatePack t ver` gets an object and sets `Ver`.
  A history is any sequence of these events; the packs released are arbitrary (whatever the user
  did with them while they were out).

  (Not modelled: a caller that keeps using a pack after `ClosePack` — aliasing of live objects.)
-/
import Golib.Udp.Packs

namespace Udp

/-- applying a list of assignments: a field that is assigned ends up with a value that does not
    depend on the record the assignments were applied to -/
theorem ofList_indep (as : List (String × Val)) (p q : Rec) (f : String)
    (h : f ∈ as.map (·.1)) : Rec.ofList as p f = Rec.ofList as q f := by
  induction as generalizing p q with
  | nil => simp at h
  | cons a as ih =>
    simp only [Rec.ofList, List.foldl_cons]
    by_cases hf : f ∈ as.map (·.1)
    · exact ih _ _ hf
    · have hfa : f = a.1 := by
        simp only [List.map_cons, List.mem_cons] at h
        rcases h with h | h
        · exact h
        · exact absurd h hf
      have key : ∀ (r : Rec), Rec.ofList as r f = r f := by
        intro r
        clear ih h
        induction as generalizing r with
        | nil => rfl
        | cons b bs ihb =>
          simp only [List.map_cons, List.mem_cons, not_or] at hf
          simp only [Rec.ofList, List.foldl_cons]
          have := ihb hf.2 (r.set b.1 b.2)
          simp only [Rec.ofList] at this
          rw [this]; simp [Rec.set, hf.1]
      have e1 := key (p.set a.1 a.2)
      have e2 := key (q.set a.1 a.2)
      simp only [Rec.ofList] at e1 e2
      rw [e1, e2]; simp [Rec.set, hfa]

namespace PackT

/-- after `Clear()` every struct field holds the constant of the Clear table, whatever the pack
    held before -/
theorem clear_const (t : PackT) (h : t.clearTotal = true) (p : Rec) (f : String)
    (hf : f ∈ t.fieldNames) : t.clearOp p f = t.clearedRec f := by
  unfold clearOp clearedRec
  apply ofList_indep
  unfold clearTotal at h
  rw [List.all_eq_true] at h
  have := h f hf
  simpa [List.contains_iff_mem] using this

end PackT

/-! ### histories -/

inductive PoolEv where
  | close (p : Rec)                        -- ClosePack(p): p.Clear(); pool.Put(p)
  | create (pick : Option Nat) (ver : Int) -- CreatePack: Get (the runtime picks a pooled object or New), set Ver
  | drop (i : Nat)                         -- the runtime drops a pooled object (GC)

/-- run a history; returns the pool and the packs handed out by the `create` events, in order -/
def runPool (t : PackT) : List PoolEv → List Rec → List Rec × List (Int × Rec)
  | [], pool => (pool, [])
  | .close p :: evs, pool => runPool t evs (t.clearOp p :: pool)
  | .drop i :: evs, pool => runPool t evs (pool.eraseIdx i)
  | .create pick ver :: evs, pool =>
    let (obj, pool') :=
      match pick with
      | some i => if h : i < pool.length then (pool[i], pool.eraseIdx i) else (t.freshRec, pool)
      | none => (t.freshRec, pool)
    let (pl, outs) := runPool t evs pool'
    (pl, (ver, obj.set "Ver" (.int ver)) :: outs)

/-- every pooled object agrees with the Clear constants on the struct fields -/
def PoolInv (t : PackT) (pool : List Rec) : Prop :=
  ∀ o ∈ pool, ∀ f ∈ t.fieldNames, o f = t.clearedRec f

theorem runPool_spec (t : PackT) (h : t.clearTotal = true) (evs : List PoolEv) (pool : List Rec)
    (hinv : PoolInv t pool) :
    ∀ vq ∈ (runPool t evs pool).2,
      (∀ f ∈ t.fieldNames, vq.2 f = (t.clearedRec.set "Ver" (.int vq.1)) f) ∨
      (∀ f ∈ t.fieldNames, vq.2 f = (t.freshRec.set "Ver" (.int vq.1)) f) := by
  induction evs generalizing pool with
  | nil => intro vq hvq; simp [runPool] at hvq
  | cons ev evs ih =>
    cases ev with
    | close p =>
      simp only [runPool]
      apply ih
      intro o ho f hf
      rcases List.mem_cons.mp ho with rfl | ho
      · exact t.clear_const h p f hf
      · exact hinv o ho f hf
    | drop i =>
      simp only [runPool]
      apply ih
      intro o ho f hf
      exact hinv o (List.mem_of_mem_eraseIdx ho) f hf
    | create pick ver =>
      simp only [runPool]
      intro vq hvq
      -- the object handed out and the remaining pool
      have hcases : ∀ (obj : Rec) (pool' : List Rec),
          ((∀ f ∈ t.fieldNames, obj f = t.clearedRec f) ∨ obj = t.freshRec) → PoolInv t pool' →
          vq ∈ ((runPool t evs pool').1, (ver, obj.set "Ver" (.int ver)) :: (runPool t evs pool').2).2 →
          (∀ f ∈ t.fieldNames, vq.2 f = (t.clearedRec.set "Ver" (.int vq.1)) f) ∨
          (∀ f ∈ t.fieldNames, vq.2 f = (t.freshRec.set "Ver" (.int vq.1)) f) := by
        intro obj pool' hobj hinv' hmem
        rcases List.mem_cons.mp hmem with rfl | hmem
        · rcases hobj with hobj | rfl
          · left; intro f hf
            simp only [Rec.set]
            split
            · rfl
            · exact hobj f hf
          · right; intro f _; rfl
        · exact ih pool' hinv' vq hmem
      cases pick with
      | none => exact hcases _ _ (Or.inr rfl) hinv hvq
      | some i =>
        by_cases hi : i < pool.length
        · simp only [hi, dite_true] at hvq
          refine hcases _ _ (Or.inl ?_) ?_ hvq
          · exact hinv _ (List.getElem_mem hi)
          · intro o ho f hf
            exact hinv o (List.mem_of_mem_eraseIdx ho) f hf
        · simp only [hi, dite_false] at hvq
          exact hcases _ _ (Or.inr rfl) hinv hvq

end Udp
