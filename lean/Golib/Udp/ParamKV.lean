/-
  Golib.Udp.ParamKV — CodeModel of util/paramtext/ParamKV.go and of the connection-string
  masking in `Process()` of UdpTxSqlPack / UdpTxSqlParamPack / UdpTxDbcPack.

  Strings are byte lists (Go strings are; UTF-8 only matters to `TrimSpace`, which is modelled by
  the byte forms of the white-space characters).  The model describes the repaired `ToPair` (D52):
  the key ends at the first `=` *of the string itself*; the unchanged code takes the offset of the
  first `=` in `strings.ToLower(s)` and applies it to `s`, which is a different offset whenever
  lower-casing changes the UTF-8 length of the key.

    NewParamKVSeperate(s, sep, "=")   tokens = strings.Split(s, sep); kvMap[k] = v for every token
                                      whose trimmed key is non-empty (a later token overwrites)
    ToStringStr(key, val)             if key is in the map: kvMap[key] = val; then ToString()
    ToString()                        every token with a key is rebuilt as k "=" kvMap[k], the others
                                      are copied; joined by sep
-/
import Golib.Basic

namespace Udp

/-- `strings.Split(s, string(c))` for a one-byte separator (never empty: `"" ↦ [""]`) -/
def splitOn (c : Nat) : Bytes → List Bytes
  | [] => [[]]
  | x :: xs =>
    if x = c then [] :: splitOn c xs
    else match splitOn c xs with
      | [] => [[x]]
      | h :: t => (x :: h) :: t

/-- `strings.Join(parts, string(c))` -/
def joinOn (c : Nat) : List Bytes → Bytes
  | [] => []
  | [x] => x
  | x :: y :: r => x ++ c :: joinOn c (y :: r)

/-- the UTF-8 forms of the characters `unicode.IsSpace` accepts: U+0009–000D, U+0020, U+0085,
    U+00A0, U+1680, U+2000–200A, U+2028, U+2029, U+202F, U+205F, U+3000 -/
def spaceSeqs : List Bytes :=
  [[9], [10], [11], [12], [13], [32], [194, 133], [194, 160], [225, 154, 128],
   [226, 128, 128], [226, 128, 129], [226, 128, 130], [226, 128, 131], [226, 128, 132], [226, 128, 133],
   [226, 128, 134], [226, 128, 135], [226, 128, 136], [226, 128, 137], [226, 128, 138],
   [226, 128, 168], [226, 128, 169], [226, 128, 175], [226, 129, 159], [227, 128, 128]]

/-- remove one leading sequence of `seqs`, if there is one -/
def dropOne (seqs : List Bytes) (s : Bytes) : Option Bytes :=
  seqs.findSome? fun q => if q.isPrefixOf s then some (s.drop q.length) else none

def dropAll (seqs : List Bytes) : Nat → Bytes → Bytes
  | 0, s => s
  | n + 1, s =>
    match dropOne seqs s with
    | some r => dropAll seqs n r
    | none => s

def trimLeft (s : Bytes) : Bytes := dropAll spaceSeqs s.length s
def trimRight (s : Bytes) : Bytes := (dropAll (spaceSeqs.map List.reverse) s.length s.reverse).reverse
/-- `strings.TrimSpace`: leading and trailing white-space characters removed (an invalid byte is
    not white space) -/
def trim (s : Bytes) : Bytes := trimRight (trimLeft s)

/-- `paramtext.ToPair(s, "=")`: split at the first `=`; no `=` ↦ ("", "") -/
def toPair (s : Bytes) : Bytes × Bytes :=
  if s.contains 61 then
    (trim (s.takeWhile (· != 61)), trim ((s.dropWhile (· != 61)).drop 1))
  else ([], [])

def keyOf (s : Bytes) : Bytes := (toPair s).1
def valOf (s : Bytes) : Bytes := (toPair s).2

/-- `kvMap[k]` after the constructor: the value of the last token with key `k` -/
def lookupLast (k : Bytes) (toks : List Bytes) : Bytes :=
  match toks.reverse.find? (fun t => keyOf t == k) with
  | some t => valOf t
  | none => []

/-- `NewParamKVSeperate(s, sep, "=").ToStringStr(key, val)` -/
def maskPass (c : Nat) (key val : Bytes) (s : Bytes) : Bytes :=
  let toks := splitOn c s
  joinOn c (toks.map fun t =>
    let k := keyOf t
    if k.isEmpty then t
    else k ++ 61 :: (if k == key then val else lookupLast k toks))

def kwPassword : Bytes := [112, 97, 115, 115, 119, 111, 114, 100]   -- "password"
def kwHash : Bytes := [35]                                            -- "#"

/-- the `if this.Dbc != "" { … " " … ";" … }` block of `Process()` -/
def maskDbc (s : Bytes) : Bytes :=
  if s.isEmpty then s else maskPass 59 kwPassword kwHash (maskPass 32 kwPassword kwHash s)

/-- families whose `Process()` masks the connection string: Go (`Ver > 50000`) and PHP (the final
    `else`, `Ver ≤ 20000`) -/
def masksAt (ver : Int) : Bool := decide (ver > 50000) || decide (ver ≤ 20000)

/-- `Dbc` after `Process()` of an SQL / SQL-param / DB-connection pack at version `ver` -/
def processDbc (ver : Int) (dbc : Bytes) : Bytes := if masksAt ver then maskDbc dbc else dbc

/-- the tokens of a connection string: split at `;` and at space -/
def tokens2 (s : Bytes) : List Bytes := (splitOn 59 s).flatMap (splitOn 32)

/-- no password key keeps a value -/
def leakFree (s : Bytes) : Prop := ∀ t ∈ tokens2 s, keyOf t = kwPassword → valOf t = kwHash

end Udp
