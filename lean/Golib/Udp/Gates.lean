/-
  Golib.Udp.Gates — finitely many versions represent all versions.

  A layout looks at the version only through comparisons with its gate constants.  For every
  version `v` there is a representative among `0` and `g-1, g, g+1` (g a gate of the layout) on
  which every comparison has the same outcome, hence on which writer, reader, `post` and the carried
  fields coincide with those at `v`.  This is why the correspondence harness exercises exactly the
  versions around every gate (plus random ones).
-/
import Golib.Udp.Layout

namespace Udp
namespace Layout

def Cond.gate : Cond → Int
  | .verGt n | .verGe n | .verLt n | .verLe n | .verEq n | .verNe n => n

def conds : Layout → List Cond
  | .nil => []
  | .fld _ _ _ rest => conds rest
  | .ite c t e rest => c :: (conds t ++ conds e ++ conds rest)
  | .setC _ _ rest => conds rest
  | .setJoin _ _ rest => conds rest
  | .rawLen _ _ rest => conds rest
  | .unknown _ => []

/-- the representative versions of a layout -/
def versionReps (l : Layout) : List Int :=
  0 :: (conds l).flatMap (fun c => [Cond.gate c - 1, Cond.gate c, Cond.gate c + 1])

/-- largest element `≤ v`, if any -/
def maxLe (v : Int) : List Int → Option Int
  | [] => none
  | c :: cs =>
    match maxLe v cs with
    | some r => if c ≤ v ∧ r < c then some c else some r
    | none => if c ≤ v then some c else none

theorem maxLe_none (v : Int) (cs : List Int) (h : maxLe v cs = none) : ∀ c ∈ cs, v < c := by
  induction cs with
  | nil => intro c hc; cases hc
  | cons c cs ih =>
    simp only [maxLe] at h
    cases hm : maxLe v cs with
    | some r => rw [hm] at h; simp only at h; split at h <;> cases h
    | none =>
      rw [hm] at h; simp only at h
      split at h
      · cases h
      · rename_i hc
        intro d hd
        rcases List.mem_cons.mp hd with rfl | hd
        · omega
        · exact ih hm d hd

theorem maxLe_some (v : Int) (cs : List Int) (r : Int) (h : maxLe v cs = some r) :
    r ∈ cs ∧ r ≤ v ∧ ∀ c ∈ cs, c ≤ v → c ≤ r := by
  induction cs generalizing r with
  | nil => simp [maxLe] at h
  | cons c cs ih =>
    simp only [maxLe] at h
    cases hm : maxLe v cs with
    | none =>
      rw [hm] at h
      simp only at h
      split at h
      · rename_i hc
        have e : r = c := (Option.some.inj h).symm
        subst e
        refine ⟨by simp, hc, ?_⟩
        intro d hd hdv
        rcases List.mem_cons.mp hd with rfl | hd
        · exact Int.le_refl _
        · have := maxLe_none v cs hm d hd; omega
      · cases h
    | some r0 =>
      rw [hm] at h
      simp only at h
      obtain ⟨h1, h2, h3⟩ := ih r0 hm
      split at h
      · rename_i hc
        have e : r = c := (Option.some.inj h).symm
        subst e
        refine ⟨by simp, hc.1, ?_⟩
        intro d hd hdv
        rcases List.mem_cons.mp hd with rfl | hd
        · exact Int.le_refl _
        · have := h3 d hd hdv; omega
      · rename_i hc
        have e : r = r0 := (Option.some.inj h).symm
        subst e
        refine ⟨by simp [h1], h2, ?_⟩
        intro d hd hdv
        rcases List.mem_cons.mp hd with rfl | hd
        · have : ¬ (d ≤ v ∧ r < d) := hc
          omega
        · exact h3 d hd hdv

/-- least element of a non-empty list -/
def minOf : Int → List Int → Int
  | a, [] => a
  | a, c :: cs => minOf (if c < a then c else a) cs

theorem minOf_spec (a : Int) (cs : List Int) :
    minOf a cs ∈ a :: cs ∧ minOf a cs ≤ a ∧ ∀ c ∈ cs, minOf a cs ≤ c := by
  induction cs generalizing a with
  | nil => simp [minOf]
  | cons c cs ih =>
    simp only [minOf]
    by_cases hca : c < a
    · simp only [hca, if_true]
      obtain ⟨h1, h2, h3⟩ := ih c
      refine ⟨by simp only [List.mem_cons] at h1 ⊢; rcases h1 with h | h <;> simp [h], by omega, ?_⟩
      intro d hd
      rcases List.mem_cons.mp hd with rfl | hd
      · exact h2
      · exact h3 d hd
    · simp only [hca, if_false]
      obtain ⟨h1, h2, h3⟩ := ih a
      refine ⟨by simp only [List.mem_cons] at h1 ⊢; rcases h1 with h | h <;> simp [h], h2, ?_⟩
      intro d hd
      rcases List.mem_cons.mp hd with rfl | hd
      · omega
      · exact h3 d hd

/-- same outcome of every comparison with `n` -/
def sameSide (n v r : Int) : Prop :=
  (v > n ↔ r > n) ∧ (v ≥ n ↔ r ≥ n) ∧ (v < n ↔ r < n) ∧ (v ≤ n ↔ r ≤ n) ∧ (v = n ↔ r = n)

theorem reps_exist (ns : List Int) (v : Int) :
    ∃ r ∈ (0 :: ns.flatMap (fun n => [n - 1, n, n + 1])), ∀ n ∈ ns, sameSide n v r := by
  have hmem : ∀ n ∈ ns, n - 1 ∈ (0 :: ns.flatMap (fun n => [n - 1, n, n + 1])) ∧
      n ∈ (0 :: ns.flatMap (fun n => [n - 1, n, n + 1])) ∧ n + 1 ∈ (0 :: ns.flatMap (fun n => [n - 1, n, n + 1])) := by
    intro n hn
    refine ⟨?_, ?_, ?_⟩ <;>
      exact List.mem_cons_of_mem _ (List.mem_flatMap.mpr ⟨n, hn, by simp⟩)
  cases hm : maxLe v (0 :: ns.flatMap (fun n => [n - 1, n, n + 1])) with
  | some r =>
    obtain ⟨h1, h2, h3⟩ := maxLe_some v _ r hm
    refine ⟨r, h1, ?_⟩
    intro n hn
    obtain ⟨m1, m2, m3⟩ := hmem n hn
    unfold sameSide
    by_cases ha : n + 1 ≤ v
    · have := h3 _ m3 ha; omega
    · by_cases hb : n ≤ v
      · have := h3 _ m2 hb; omega
      · omega
  | none =>
    have hall := maxLe_none v _ hm
    obtain ⟨h1, _, h3⟩ := minOf_spec 0 (ns.flatMap (fun n => [n - 1, n, n + 1]))
    refine ⟨_, h1, ?_⟩
    intro n hn
    obtain ⟨m1, m2, m3⟩ := hmem n hn
    have hv := hall _ m1
    have hr : minOf 0 (ns.flatMap (fun n => [n - 1, n, n + 1])) ≤ n - 1 := by
      rcases List.mem_cons.mp m1 with h | h
      · have := (minOf_spec 0 (ns.flatMap (fun n => [n - 1, n, n + 1]))).2.1; omega
      · exact h3 _ h
    unfold sameSide; omega

theorem eval_same (c : Cond) (v r : Int) (h : sameSide (Cond.gate c) v r) : c.eval v = c.eval r := by
  obtain ⟨h1, h2, h3, h4, h5⟩ := h
  cases c <;> simp only [Cond.eval, Cond.gate] at * <;> simp only [decide_eq_decide] <;>
    first | exact h1 | exact h2 | exact h3 | exact h4 | exact h5 | (exact not_congr h5)

/-- a layout behaves at `v` as at any `r` on the same side of all its gates -/
theorem same_behaviour (l : Layout) (v r : Int) (h : ∀ c ∈ conds l, c.eval v = c.eval r) :
    (∀ x, write l v x = write l r x) ∧ (∀ st, read l v st = read l r st) ∧
    (∀ x st, post l v x st = post l r x st) ∧ carried l v = carried l r := by
  induction l with
  | nil => exact ⟨fun _ => rfl, fun _ => rfl, fun _ _ => rfl, rfl⟩
  | fld nm p c rest ih =>
    obtain ⟨a, b, c', d⟩ := ih h
    exact ⟨fun x => by simp only [write, a], fun st => by simp only [read, b],
      fun x st => by simp only [post, c'], by simp only [carried, d]⟩
  | ite c t e rest iht ihe ihr =>
    have hc : c.eval v = c.eval r := h c (by simp [conds])
    obtain ⟨a1, b1, c1, d1⟩ := iht (fun k hk => h k (by simp [conds, hk]))
    obtain ⟨a2, b2, c2, d2⟩ := ihe (fun k hk => h k (by simp [conds, hk]))
    obtain ⟨a3, b3, c3, d3⟩ := ihr (fun k hk => h k (by simp [conds, hk]))
    refine ⟨?_, ?_, ?_, ?_⟩
    · intro x; simp only [write, hc, a1, a2, a3]
    · intro st
      simp only [read, hc, b1, b2]
      congr 1; funext st'; exact b3 st'
    · intro x st; simp only [post, hc, c1, c2, c3]
    · simp only [carried, hc, d1, d2, d3]
  | setC nm val rest ih =>
    obtain ⟨a, b, c', d⟩ := ih h
    exact ⟨fun x => by simp only [write, a], fun st => by simp only [read, b],
      fun x st => by simp only [post, c'], by simp only [carried, d]⟩
  | setJoin nm src rest ih =>
    obtain ⟨a, b, c', d⟩ := ih h
    exact ⟨fun x => by simp only [write, a], fun st => by simp only [read, b],
      fun x st => by simp only [post, c'], by simp only [carried, d]⟩
  | rawLen nm ln rest ih =>
    obtain ⟨a, b, c', d⟩ := ih h
    refine ⟨fun x => by simp only [write, a], ?_, fun x st => by simp only [post, c'], by simp only [carried, d]⟩
    intro st
    simp only [read]
    split
    · rfl
    · congr 1; funext bs; exact b _
  | unknown why => exact ⟨fun _ => rfl, fun _ => rfl, fun _ _ => rfl, rfl⟩

/-- **version coverage**: every version behaves like one of the representatives -/
theorem version_coverage (l : Layout) (v : Int) :
    ∃ r ∈ versionReps l,
      (∀ x, write l v x = write l r x) ∧ (∀ st, read l v st = read l r st) ∧
      (∀ x st, post l v x st = post l r x st) ∧ carried l v = carried l r := by
  obtain ⟨r, hr, hs⟩ := reps_exist ((conds l).map Cond.gate) v
  refine ⟨r, ?_, same_behaviour l v r ?_⟩
  · unfold versionReps
    rcases List.mem_cons.mp hr with h | h
    · simp [h]
    · apply List.mem_cons_of_mem
      obtain ⟨n, hn, hrn⟩ := List.mem_flatMap.mp h
      obtain ⟨c, hc, rfl⟩ := List.mem_map.mp hn
      exact List.mem_flatMap.mpr ⟨c, hc, hrn⟩
  · intro c hc
    exact eval_same c v r (hs _ (List.mem_map.mpr ⟨c, hc, rfl⟩))

end Layout
end Udp
