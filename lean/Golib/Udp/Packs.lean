/-
  Golib.Udp.Packs — CodeModel of the 19 UDP tracer pack types of lang/pack/udp.

  One merged layout per type (what `Write` emits and what `Read` takes back, version gate by
  version gate, as the code has them), the struct fields, the assignments of `Clear()` and of the
  constructor, the type code.  The model describes the *repaired* code where a proposed fix exists
  (D19: UdpTxSqlPack.Fetch travels as number text; D20: Relay/Config `Clear` reset Data/MapData;
  D51: UdpTxResultSetPack is poolable) and keeps the quirks recorded as known findings
  (UdpTxMessagePack caps; UdpRelayPack's length is not on the wire).

  Tie A: `xlate/c07` regenerates `Write`, `Read`, `Clear`, constructors and the pool switches from
  the source; Golib/Props/C07Gen.lean compares them with this file.
-/
import Golib.Udp.Layout

namespace Udp
open Layout

/-! ### combinators (notation only) -/

/-- text field -/
abbrev T (nm : String) (rest : Layout) : Layout := .fld nm .text16 .id rest
/-- text field capped by the writer -/
abbrev Tc (nm : String) (cap : Nat) (rest : Layout) : Layout := .fld nm .text16 (.trunc cap) rest
/-- int32 / int64 field carried as decimal text (zero as empty) -/
abbrev N4 (nm : String) (rest : Layout) : Layout := .fld nm .text16 (.numText 4) rest
abbrev N8 (nm : String) (rest : Layout) : Layout := .fld nm .text16 (.numText 8) rest
/-- binary int32 / int64 -/
abbrev I4 (nm : String) (rest : Layout) : Layout := .fld nm .i32 .id rest
abbrev I8 (nm : String) (rest : Layout) : Layout := .fld nm .i64 .id rest
/-- `if this.Ver >= n { body }` -/
abbrev since (n : Int) (body : Layout) (rest : Layout) : Layout := .ite (.verGe n) body .nil rest
/-- the agent-family ladder `if Ver > 50000 {go} else if > 40000 {batch} else if > 30000 {net}
    else if > 20000 {py} else {php}` -/
abbrev fam (go batch net py php : Layout) (rest : Layout) : Layout :=
  .ite (.verGt 50000) go (.ite (.verGt 40000) batch (.ite (.verGt 30000) net
    (.ite (.verGt 20000) py php .nil) .nil) .nil) rest

/-! ### AbstractPack header -/

def pidTid : Layout := I4 "Pid" <| I8 "ThreadId" <| .nil

/-- AbstractPack.Write / Read, followed by the pack's own fields -/
def hdr (rest : Layout) : Layout :=
  I8 "Txid" <| I8 "Time" <| I4 "Elapsed" <| I8 "Cpu" <| I8 "Mem" <|
  fam pidTid pidTid pidTid pidTid
    (.setC "Index" (.int (-1)) <| .setC "Parent" (.int (-1)) <|     -- reader: reset before the gates
     since 10101 (I4 "Pid" .nil) <|
     since 10104 (I8 "ThreadId" .nil) <|
     since 10109 (I4 "Index" <| I4 "Parent" <| .nil) <| .nil) <|
  rest

def err3 : Layout := T "ErrorType" <| T "ErrorMessage" <| T "Stack" <| .nil

/-! ### the pack layouts -/

def UdpTxStartPack.layout : Layout :=
  hdr <|
  Tc "Host" 2048 <| Tc "Uri" 2048 <| Tc "Ipaddr" 256 <| Tc "UAgent" 2048 <| Tc "Ref" 2048 <| Tc "WClientId" 2048 <|
  fam (Tc "HttpMethod" 256 .nil)
      .nil
      (T "IsStaticContents" .nil)
      (T "IsStaticContents" <| since 20104 (Tc "HttpMethod" 256 .nil) <| .nil)
      (since 10103 (Tc "HttpMethod" 256 .nil) <| .nil) <|
  .nil

/-- Mtid … McallerPoidKey as the Go / Python / PHP branches have them -/
def mcallerFull (rest : Layout) : Layout :=
  N8 "Mtid" <| N4 "Mdepth" <| N8 "McallerTxid" <| N8 "McallerPcode" <|
  T "McallerSpec" <| T "McallerUrl" <| T "McallerPoidKey" <| rest

def phpCounters : Layout :=
  N8 "PeakMem" <| N4 "ElapsedUserCPUTime" <| N4 "ElapsedSystemCPUTime" <| N4 "EFuncCount" <|
  N4 "ProfEFuncCount" <| N4 "IFuncCount" <| N4 "ProfIFuncCount" <| .nil

def UdpTxEndPack.layout : Layout :=
  hdr <|
  fam (T "Host" <| T "Uri" <| mcallerFull <|
         since 50100 (N4 "Status" .nil) <|
         since 50101 (N8 "McallerStepId" <| T "XTraceId" <| .nil) <| .nil)
      .nil
      (T "Host" <| T "Uri" <| N8 "Mtid" <| N4 "Mdepth" <| N8 "McallerTxid" <|
         since 30102 (N8 "McallerPcode" <| T "McallerSpec" <| T "McallerUrl" <| T "McallerPoidKey" <| .nil) <|
         since 30103 (N4 "Status" <| N8 "McallerStepId" <| T "XTraceId" <| .nil) <| .nil)
      (T "Host" <| T "Uri" <| mcallerFull <|
         since 20104 (N4 "Status" .nil) <| .nil)
      (since 10102 (T "Host" <| T "Uri" <| mcallerFull .nil) <|
       since 10107 (N4 "Status" .nil) <|
       since 10108 (N8 "McallerStepId" <| T "XTraceId" <| .nil) <|
       since 10110 phpCounters <| .nil) <|
  .nil

def UdpTxStartEndPack.layout : Layout :=
  hdr <|
  T "Host" <| T "Uri" <| T "Ipaddr" <| T "UAgent" <| T "Ref" <| T "WClientId" <|
  fam (T "HttpMethod" <| mcallerFull <|
         since 50100 (N4 "Status" .nil) <|
         since 50101 (N8 "McallerStepId" <| T "XTraceId" <| .nil) <| .nil)
      .nil
      (T "IsStaticContents" <| N8 "Mtid" <| N4 "Mdepth" <| N8 "Mcaller" <| .nil)
      (T "IsStaticContents" <| mcallerFull .nil)
      (T "HttpMethod" <| mcallerFull <|
         since 10107 (N4 "Status" .nil) <|
         since 10108 (N8 "McallerStepId" <| T "XTraceId" <| .nil) <|
         since 10110 phpCounters <| .nil) <|
  .nil

/-- D19 repaired: Python ≥ 20102 carries Fetch as number text (the unchanged code has `.rune`) -/
def UdpTxSqlPack.layout : Layout :=
  hdr <| T "Dbc" <| T "Sql" <|
  fam err3 .nil err3 (since 20102 (N4 "Fetch" .nil) <| .nil) (since 10105 err3 <| .nil) <| .nil

/-- the unchanged code: `dout.WriteTextShortLength(string(this.Fetch))` -/
def UdpTxSqlPack.layoutD19 : Layout :=
  hdr <| T "Dbc" <| T "Sql" <|
  fam err3 .nil err3 (since 20102 (.fld "Fetch" .text16 .rune .nil) <| .nil) (since 10105 err3 <| .nil) <| .nil

def UdpTxSqlParamPack.layout : Layout :=
  hdr <| T "Dbc" <| T "Sql" <| T "Param" <| T "ErrorType" <| T "ErrorMessage" <| T "Stack" <| .nil

def UdpTxDbcPack.layout : Layout :=
  hdr <| T "Dbc" <|
  fam err3 .nil err3 .nil (since 10105 err3 <| .nil) <| .nil

def stepErr : Layout := N8 "StepId" <| err3

def UdpTxHttpcPack.layout : Layout :=
  hdr <| T "Url" <|
  fam stepErr .nil stepErr (N8 "StepId" .nil)
      (.ite (.verGe 10105) stepErr (.ite (.verGe 10102) (N8 "StepId" .nil) .nil .nil) .nil) <|
  .nil

def UdpTxErrorPack.layout : Layout :=
  hdr <| T "ErrorType" <| T "ErrorMessage" <|
  fam .nil .nil (T "Stack" .nil) (T "Stack" .nil) .nil <| .nil

/-- known finding: Hash and Desc are capped by the writer although they are not transaction-start fields -/
def UdpTxMessagePack.layout : Layout :=
  hdr <| Tc "Hash" 2048 <| T "Value" <| Tc "Desc" 32768 <| .nil

def UdpTxSecureMessagePack.layout : Layout :=
  hdr <| T "Hash" <| T "Value" <| T "Desc" <| .nil

def UdpTxMethodPack.layout : Layout :=
  hdr <| T "Method" <| T "Stack" <| .nil

def UdpTxResultSetPack.layout : Layout :=
  hdr <| T "Dbc" <| T "Sql" <| N4 "Fetch" <| .nil

def UdpActiveStackPack1.layout : Layout :=
  hdr <| T "Stack" <| .nil

/-- the remaining packs do not write the header -/
def UdpTxParamPack.layout : Layout :=
  T "ParamId" <| T "ParamResponse" <| T "Data" <| .nil

def UdpActiveStackPack.layout : Layout := T "Data" .nil
def UdpDBConPoolPack.layout : Layout := T "Data" .nil
def UdpConfigPack.layout : Layout := T "Data" .nil

/-- Write first assigns `Data = ArrayInt16ToString(ActiveStats, ",")`, then sends Data -/
def UdpActiveStatsPack.layout : Layout := .setJoin "Data" "ActiveStats" <| T "Data" .nil

/-- known finding: the payload length `Len` is not on the wire; the reader takes `Len` bytes -/
def UdpRelayPack.layout : Layout := .rawLen "Data" "Len" .nil

/-! ### struct fields, Clear(), constructors, type codes -/

def hdrFields : List (String × String) :=
  [("Ver", "int32"), ("Txid", "int64"), ("Time", "int64"), ("Elapsed", "int32"), ("Cpu", "int64"),
   ("Mem", "int64"), ("Pid", "int32"), ("ThreadId", "int64"), ("Index", "int32"), ("Parent", "int32"),
   ("Flush", "bool")]

/-- AbstractPack.Clear() followed by `this.AbstractPack.Flush = flush` -/
def hdrClear (flush : Bool) : List (String × Val) :=
  [("Ver", .int 50100), ("Txid", .int 0), ("Time", .int 0), ("Elapsed", .int 0), ("Cpu", .int 0),
   ("Mem", .int 0), ("Pid", .int 0), ("ThreadId", .int 0), ("Index", .int (-1)), ("Parent", .int (-1)),
   ("Flush", .bool false), ("Flush", .bool flush)]

def S (nm : String) : String × Val := (nm, .str [])
def Z (nm : String) : String × Val := (nm, .int 0)
def Nl (nm : String) : String × Val := (nm, .null)

structure PackT where
  name : String
  code : Nat
  layout : Layout
  fields : List (String × String)      -- struct fields with their Go types, header first
  clear : List (String × Val)          -- assignments of Clear(), in order
  fresh : List (String × Val)          -- assignments of the constructor (after `new`)
  pool : String                        -- the sync.Pool CreatePack / ClosePack use for it

def str (nm : String) : String × String := (nm, "string")
def i32 (nm : String) : String × String := (nm, "int32")
def i64 (nm : String) : String × String := (nm, "int64")

def startOwn : List (String × String) :=
  [str "Host", str "Uri", str "Ipaddr", str "UAgent", str "Ref", str "WClientId", str "HttpMethod",
   str "IsStaticContents"]
def endOwn : List (String × String) :=
  [i64 "Mtid", i32 "Mdepth", i64 "Mcaller", i64 "McallerTxid", i64 "McallerPcode", str "McallerSpec",
   str "McallerUrl", str "McallerPoidKey", i32 "Status", i64 "McallerStepId", str "XTraceId",
   i64 "PeakMem", i32 "ElapsedUserCPUTime", i32 "ElapsedSystemCPUTime", i32 "EFuncCount",
   i32 "ProfEFuncCount", i32 "IFuncCount", i32 "ProfIFuncCount"]
def startClear : List (String × Val) :=
  [S "Host", S "Uri", S "Ipaddr", S "UAgent", S "Ref", S "WClientId", S "HttpMethod", S "IsStaticContents"]
def endClear : List (String × Val) :=
  [Z "Mtid", Z "Mdepth", Z "Mcaller", Z "McallerTxid", Z "McallerPcode", S "McallerSpec", S "McallerUrl",
   S "McallerPoidKey", Z "Status", Z "McallerStepId", S "XTraceId", Z "PeakMem", Z "ElapsedUserCPUTime",
   Z "ElapsedSystemCPUTime", Z "EFuncCount", Z "ProfEFuncCount", Z "IFuncCount", Z "ProfIFuncCount"]

def newOf (flush : Bool) : List (String × Val) := [("Ver", .int 50100), ("Flush", .bool flush)]

def UdpTxStartPack : PackT where
  name := "UdpTxStartPack"; code := 1; layout := UdpTxStartPack.layout; pool := "udpStartPool"
  fields := hdrFields ++ startOwn ++ [("ServiceURL", "*urlutil.URL"), ("RefererURL", "*urlutil.URL"), ("IsStatic", "bool")]
  clear := hdrClear true ++ startClear ++ [Nl "ServiceURL", Nl "RefererURL", ("IsStatic", .bool false)]
  fresh := newOf true

def UdpTxEndPack : PackT where
  name := "UdpTxEndPack"; code := 255; layout := UdpTxEndPack.layout; pool := "udpEndPool"
  fields := hdrFields ++ [str "Host", str "Uri"] ++ endOwn ++ [("ServiceURL", "*urlutil.URL"), i32 "McallerUrlHash"]
  clear := hdrClear true ++ [S "Host", S "Uri"] ++ endClear ++ [Nl "ServiceURL", Z "McallerUrlHash"]
  fresh := newOf true

def UdpTxStartEndPack : PackT where
  name := "UdpTxStartEndPack"; code := 254; layout := UdpTxStartEndPack.layout; pool := "udpStartEndPool"
  fields := hdrFields ++ startOwn ++ endOwn ++
    [("ServiceURL", "*urlutil.URL"), ("RefererURL", "*urlutil.URL"), ("IsStatic", "bool"), i32 "McallerUrlHash"]
  clear := hdrClear true ++ startClear ++ endClear ++
    [Nl "ServiceURL", Nl "RefererURL", ("IsStatic", .bool false), Z "McallerUrlHash"]
  fresh := newOf true

def UdpTxSqlPack : PackT where
  name := "UdpTxSqlPack"; code := 4; layout := UdpTxSqlPack.layout; pool := "udpSqlPool"
  fields := hdrFields ++ [str "Dbc", str "Sql", str "ErrorType", str "ErrorMessage", str "Stack", i32 "Fetch"]
  clear := hdrClear false ++ [S "Dbc", S "Sql", S "ErrorType", S "ErrorMessage", S "Stack", Z "Fetch"]
  fresh := newOf false

def UdpTxSqlParamPack : PackT where
  name := "UdpTxSqlParamPack"; code := 14; layout := UdpTxSqlParamPack.layout; pool := "udpSqlParamPool"
  fields := hdrFields ++ [str "Dbc", str "Sql", str "Param", str "ErrorType", str "ErrorMessage", str "Stack"]
  clear := hdrClear false ++ [S "Dbc", S "Sql", S "Param", S "ErrorType", S "ErrorMessage", S "Stack"]
  fresh := newOf false

def UdpTxDbcPack : PackT where
  name := "UdpTxDbcPack"; code := 2; layout := UdpTxDbcPack.layout; pool := "udpDbcPool"
  fields := hdrFields ++ [str "Dbc", str "ErrorType", str "ErrorMessage", str "Stack"]
  clear := hdrClear false ++ [S "Dbc", S "ErrorType", S "ErrorMessage", S "Stack"]
  fresh := newOf false

def UdpTxHttpcPack : PackT where
  name := "UdpTxHttpcPack"; code := 7; layout := UdpTxHttpcPack.layout; pool := "udpHttpcPool"
  fields := hdrFields ++ [str "Url", i64 "StepId", str "ErrorType", str "ErrorMessage", str "Stack", ("HttpcURL", "*urlutil.URL")]
  clear := hdrClear false ++ [S "Url", Z "StepId", S "ErrorType", S "ErrorMessage", S "Stack", Nl "HttpcURL"]
  fresh := newOf false

def UdpTxErrorPack : PackT where
  name := "UdpTxErrorPack"; code := 10; layout := UdpTxErrorPack.layout; pool := "udpErrorPool"
  fields := hdrFields ++ [str "ErrorType", str "ErrorMessage", str "Stack"]
  clear := hdrClear false ++ [S "ErrorType", S "ErrorMessage", S "Stack"]
  fresh := newOf false

def UdpTxMessagePack : PackT where
  name := "UdpTxMessagePack"; code := 11; layout := UdpTxMessagePack.layout; pool := "udpMessagePool"
  fields := hdrFields ++ [str "Hash", str "Value", str "Desc"]
  clear := hdrClear false ++ [S "Hash", S "Value", S "Desc"]
  fresh := newOf false

def UdpTxSecureMessagePack : PackT where
  name := "UdpTxSecureMessagePack"; code := 13; layout := UdpTxSecureMessagePack.layout; pool := "udpSecureMessagePool"
  fields := hdrFields ++ [str "Hash", str "Value", str "Desc"]
  clear := hdrClear false ++ [S "Hash", S "Value", S "Desc"]
  fresh := newOf false

def UdpTxMethodPack : PackT where
  name := "UdpTxMethodPack"; code := 12; layout := UdpTxMethodPack.layout; pool := "udpMethodPool"
  fields := hdrFields ++ [str "Method", str "Stack"]
  clear := hdrClear false ++ [S "Method", S "Stack"]
  fresh := newOf false

/-- D51 repaired: the unchanged code has no pool and no CreatePack / ClosePack case for this type -/
def UdpTxResultSetPack : PackT where
  name := "UdpTxResultSetPack"; code := 15; layout := UdpTxResultSetPack.layout; pool := "udpResultSetPool"
  fields := hdrFields ++ [str "Dbc", str "Sql", i32 "Fetch"]
  clear := hdrClear false ++ [S "Dbc", S "Sql", Z "Fetch"]
  fresh := newOf false

def UdpTxParamPack : PackT where
  name := "UdpTxParamPack"; code := 30; layout := UdpTxParamPack.layout; pool := "udpTxParamPool"
  fields := hdrFields ++ [str "ParamId", str "ParamResponse", str "Data", ("StrDatas", "[]string"), ("ParamPack", "*pack.ParamPack")]
  clear := hdrClear false ++ [S "ParamId", S "ParamResponse", S "Data", Nl "StrDatas", Nl "ParamPack"]
  fresh := newOf false

def UdpActiveStackPack1 : PackT where
  name := "UdpActiveStackPack1"; code := 39; layout := UdpActiveStackPack1.layout; pool := "udpActiveStack1Pool"
  fields := hdrFields ++ [str "Stack"]
  clear := hdrClear false ++ [S "Stack"]
  fresh := newOf false

def UdpActiveStackPack : PackT where
  name := "UdpActiveStackPack"; code := 40; layout := UdpActiveStackPack.layout; pool := "udpActiveStackPool"
  fields := hdrFields ++ [str "Data", i64 "TxId", str "Stack"]
  clear := hdrClear false ++ [S "Data", Z "TxId", S "Stack"]
  fresh := newOf false

def UdpActiveStatsPack : PackT where
  name := "UdpActiveStatsPack"; code := 41; layout := UdpActiveStatsPack.layout; pool := "udpActiveStatsPool"
  fields := hdrFields ++ [str "Data", ("ActiveStats", "[]int16")]
  clear := hdrClear false ++ [S "Data", Nl "ActiveStats"]
  fresh := newOf false

/-- its own `Pid` shadows the header's, which therefore appears qualified -/
def UdpDBConPoolPack : PackT where
  name := "UdpDBConPoolPack"; code := 42; layout := UdpDBConPoolPack.layout; pool := "udpDBConPool"
  fields := (hdrFields.map fun (n, t) => (if n = "Pid" then "AbstractPack.Pid" else n, t)) ++
    [str "Data", i32 "Pid", str "Url", i32 "ActCnt", i32 "InactCnt"]
  clear := ((hdrClear false).map fun (n, v) => (if n = "Pid" then "AbstractPack.Pid" else n, v)) ++
    [S "Data", Z "Pid", S "Url", Z "ActCnt", Z "InactCnt"]
  fresh := newOf false

/-- D20 repaired: `Clear` also resets `MapData` (to a fresh empty map; `Process` writes into it) -/
def UdpConfigPack : PackT where
  name := "UdpConfigPack"; code := 230; layout := UdpConfigPack.layout; pool := "udpConfigPool"
  fields := hdrFields ++ [str "Data", ("MapData", "map[string]string")]
  clear := hdrClear false ++ [S "Data", ("MapData", .strs [])]
  fresh := newOf true ++ [("MapData", .strs [])]

/-- D20 repaired: `Clear` also resets `Data` -/
def UdpRelayPack : PackT where
  name := "UdpRelayPack"; code := 244; layout := UdpRelayPack.layout; pool := "udpRelayPool"
  fields := hdrFields ++ [("RelayType", "int16"), i32 "Len", ("Data", "[]byte")]
  clear := hdrClear false ++ [Z "RelayType", Z "Len", Nl "Data"]
  fresh := newOf false

def allPacks : List PackT :=
  [UdpTxStartPack, UdpTxEndPack, UdpTxStartEndPack, UdpTxSqlPack, UdpTxSqlParamPack, UdpTxDbcPack,
   UdpTxHttpcPack, UdpTxErrorPack, UdpTxMessagePack, UdpTxSecureMessagePack, UdpTxMethodPack,
   UdpTxResultSetPack, UdpTxParamPack, UdpActiveStackPack1, UdpActiveStackPack, UdpActiveStatsPack,
   UdpDBConPoolPack, UdpConfigPack, UdpRelayPack]

def findPack (name : String) : Option PackT := allPacks.find? (fun t => t.name == name)

/-! ### Clear() and the constructor as functions on packs -/

/-- Go zero value of a field of the given type -/
def zeroOf (typ : String) : Val :=
  if typ = "string" then .str []
  else if typ = "bool" then .bool false
  else if typ = "int16" ∨ typ = "int32" ∨ typ = "int64" ∨ typ = "uint8" ∨ typ = "int" then .int 0
  else .null

namespace PackT

def fieldNames (t : PackT) : List String := t.fields.map (·.1)

/-- `p.Clear()` -/
def clearOp (t : PackT) (p : Rec) : Rec := Rec.ofList t.clear p

/-- `NewT()` -/
def freshRec (t : PackT) : Rec :=
  Rec.ofList t.fresh (Rec.ofList (t.fields.map fun (n, ty) => (n, zeroOf ty)) (fun _ => .null))

/-- the constant a field holds after `Clear()` -/
def clearedRec (t : PackT) : Rec := Rec.ofList t.clear (fun _ => .null)

/-- every struct field is assigned by `Clear()` -/
def clearTotal (t : PackT) : Bool := t.fieldNames.all (fun f => (t.clear.map (·.1)).contains f)

end PackT

/-- the documented caps: the transaction-start fields (HTTP_*_MAX_SIZE constants of UdpPack.go) -/
def documentedCaps : List (String × String × Nat) :=
  [("UdpTxStartPack", "Host", 2048), ("UdpTxStartPack", "Uri", 2048), ("UdpTxStartPack", "Ipaddr", 256),
   ("UdpTxStartPack", "UAgent", 2048), ("UdpTxStartPack", "Ref", 2048), ("UdpTxStartPack", "WClientId", 2048),
   ("UdpTxStartPack", "HttpMethod", 256)]

/-- caps found outside the transaction-start fields (known finding) -/
def extraCaps : List (String × String × Nat) :=
  [("UdpTxMessagePack", "Hash", 2048), ("UdpTxMessagePack", "Desc", 32768)]

/-- all (type, field, cap) of the model's layouts, duplicates removed -/
def modelCaps : List (String × String × Nat) :=
  (allPacks.flatMap fun t => (t.layout.caps.map fun (f, n) => (t.name, f, n))).eraseDups

end Udp
