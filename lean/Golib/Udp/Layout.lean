/-
  Golib.Udp.Layout — the layout IR of the UDP tracer packs (lang/pack/udp).

  A `Layout` is the transcription of one `Write(*DataOutputX)` or
  `Read(*DataInputX)` body: a sequence (continuation style: every item carries
  the rest) of field transfers, version gates and the few plain assignments
  those bodies contain.  The same IR is

    * written by hand per pack type in Golib.Udp.Packs (the CodeModel, one merged
      layout per type), run by the driver `drv_c07` against the real code (tie B);
    * regenerated from the Go source by `xlate/c07`, separately for every `Write`
      and every `Read` (tie A), and compared with the hand-written layout through
      the writer's view `wv` and the reader's view `rv`.

  `write l ver x`        bytes produced by the writer for pack `x` at version `ver`
  `read l ver st`        decoder (a `P` program) updating the receiving pack `st`
  `post l ver x st`      the receiving pack after a successful read: what the wire carries
  `roundtrip`            proved once, by induction on the IR, for *every* `ver : Int`
-/
import Golib.Udp.NumText

namespace Udp
open Prim

/-- field values of a pack (strings are byte strings, as in Go) -/
inductive Val where
  | int (v : Int)
  | str (b : Bytes)
  | ints (xs : List Int)      -- []int16
  | bool (b : Bool)
  | strs (xs : List Bytes)    -- []string, map[string]string (as sorted "k=v" lines): only in Clear tables
  | null                      -- nil pointer / slice / map
deriving DecidableEq, Repr, Inhabited

def Val.asInt : Val → Int
  | .int v => v
  | _ => 0
def Val.asStr : Val → Bytes
  | .str b => b
  | _ => []
def Val.asInts : Val → List Int
  | .ints xs => xs
  | _ => []

/-- a pack: field name ↦ value -/
abbrev Rec := String → Val

def Rec.set (r : Rec) (k : String) (v : Val) : Rec := fun k' => if k' = k then v else r k'

def Rec.ofList (kvs : List (String × Val)) (dflt : Rec) : Rec :=
  kvs.foldl (fun r kv => r.set kv.1 kv.2) dflt

/-- wire primitive of a field transfer -/
inductive Fmt where
  | i32      -- WriteInt / ReadInt
  | i64      -- WriteLong / ReadLong
  | text16   -- WriteTextShortLength / ReadTextShortLength
deriving DecidableEq, Repr

/-- conversion between the field and the value handed to / taken from the stream -/
inductive Conv where
  | id
  | trunc (n : Nat)       -- writer: stringutil.Truncate(this.F, n)
  | numText (w : Nat)     -- writer: ParseStringZeroToEmpty(int64(this.F)); reader: ParseInt32 (w=4) / ParseInt64 (w=8)
  | rune                  -- writer: string(this.F) on an integer field (Go's rune conversion)
deriving DecidableEq, Repr

inductive Cond where
  | verGt (n : Int) | verGe (n : Int) | verLt (n : Int) | verLe (n : Int) | verEq (n : Int) | verNe (n : Int)
deriving DecidableEq, Repr

def Cond.eval : Cond → Int → Bool
  | .verGt n, v => decide (v > n)
  | .verGe n, v => decide (v ≥ n)
  | .verLt n, v => decide (v < n)
  | .verLe n, v => decide (v ≤ n)
  | .verEq n, v => decide (v = n)
  | .verNe n, v => decide (v ≠ n)

inductive Layout where
  | nil
  | fld (name : String) (p : Fmt) (c : Conv) (rest : Layout)
  | ite (c : Cond) (t e : Layout) (rest : Layout)
  | setC (name : String) (v : Val) (rest : Layout)        -- reader: this.F = <constant>
  | setJoin (name src : String) (rest : Layout)           -- writer: this.F = ArrayInt16ToString(this.G, ",")
  | rawLen (name len : String) (rest : Layout)            -- WriteBytes(this.F) / this.F = ReadBytes(this.G)
  | unknown (why : String)                                -- a statement the translator does not understand
deriving DecidableEq, Repr

/-! ### semantics -/

/-- writer side: field value ↦ wire value -/
def convW : Conv → Val → Val
  | .id, v => v
  | .trunc n, v => .str (v.asStr.take n)
  | .numText _, v => .str (zeroToEmpty v.asInt)
  | .rune, v => .str (utf8Rune v.asInt)

/-- reader side: wire value ↦ field value -/
def convR : Conv → Val → Val
  | .numText w, v => .int (parseIntW w v.asStr)
  | _, v => v

def encF : Fmt → Val → Bytes
  | .i32, v => encI 4 v.asInt
  | .i64, v => encI 8 v.asInt
  | .text16, v => encBytes16 v.asStr

def decF : Fmt → P Val
  | .i32 => P.bind (rdI 4) (fun v => .pure (.int v))
  | .i64 => P.bind (rdI 8) (fun v => .pure (.int v))
  | .text16 => P.bind decBytes16 (fun b => .pure (.str b))

namespace Layout

def write : Layout → Int → Rec → Bytes
  | .nil, _, _ => []
  | .fld nm p c rest, ver, x => encF p (convW c (x nm)) ++ write rest ver x
  | .ite c t e rest, ver, x => (if c.eval ver then write t ver x else write e ver x) ++ write rest ver x
  | .setC _ _ rest, ver, x => write rest ver x
  | .setJoin nm src rest, ver, x => write rest ver (x.set nm (.str (joinInts 44 (x src).asInts)))
  | .rawLen nm _ rest, ver, x => (x nm).asStr ++ write rest ver x
  | .unknown _, _, _ => []

def read : Layout → Int → Rec → P Rec
  | .nil, _, st => .pure st
  | .fld nm p c rest, ver, st => P.bind (decF p) (fun w => read rest ver (st.set nm (convR c w)))
  | .ite c t e rest, ver, st =>
      P.bind (if c.eval ver then read t ver st else read e ver st) (fun st' => read rest ver st')
  | .setC nm v rest, ver, st => read rest ver (st.set nm v)
  | .setJoin _ _ rest, ver, st => read rest ver st
  | .rawLen nm ln rest, ver, st =>
      let n := (st ln).asInt
      if n < 0 then .fail
      else P.bind (rdBytes n.toNat) (fun b => read rest ver (st.set nm (.str b)))
  | .unknown _, _, _ => .fail

/-- the receiving pack after reading what `x` wrote: every transferred field holds what the wire
    carried for it (`convR c (convW c v)`: the value itself, its truncation, or the re-parsed number),
    every other field is what it was (or the constant the reader assigns) -/
def post : Layout → Int → Rec → Rec → Rec
  | .nil, _, _, st => st
  | .fld nm _ c rest, ver, x, st => post rest ver x (st.set nm (convR c (convW c (x nm))))
  | .ite c t e rest, ver, x, st =>
      post rest ver x (if c.eval ver then post t ver x st else post e ver x st)
  | .setC nm v rest, ver, x, st => post rest ver x (st.set nm v)
  | .setJoin nm src rest, ver, x, st => post rest ver (x.set nm (.str (joinInts 44 (x src).asInts))) st
  | .rawLen nm _ rest, ver, x, st => post rest ver x (st.set nm (.str (x nm).asStr))
  | .unknown _, _, _, st => st

/-- well-formed field value for a transfer: integers within the declared width, texts within the
    16-bit length range (after the writer's cap) -/
def wfFld : Fmt → Conv → Val → Prop
  | .i32, .id, v => ∃ n, v = .int n ∧ inRange 4 n
  | .i64, .id, v => ∃ n, v = .int n ∧ inRange 8 n
  | .text16, .id, v => ∃ b, v = .str b ∧ b.length ≤ 65535
  | .text16, .trunc n, v => ∃ b, v = .str b ∧ (b.take n).length ≤ 65535
  | .text16, .numText w, v => ∃ n, v = .int n ∧ inRange w n ∧ (w = 4 ∨ w = 8)
  | .text16, .rune, v => ∃ n, v = .int n
  | _, _, _ => False

def WF : Layout → Int → Rec → Rec → Prop
  | .nil, _, _, _ => True
  | .fld nm p c rest, ver, x, st =>
      wfFld p c (x nm) ∧ WF rest ver x (st.set nm (convR c (convW c (x nm))))
  | .ite c t e rest, ver, x, st =>
      (if c.eval ver then WF t ver x st else WF e ver x st) ∧
      WF rest ver x (if c.eval ver then post t ver x st else post e ver x st)
  | .setC nm v rest, ver, x, st => WF rest ver x (st.set nm v)
  | .setJoin nm src rest, ver, x, st => WF rest ver (x.set nm (.str (joinInts 44 (x src).asInts))) st
  | .rawLen nm ln rest, ver, x, st =>
      (∃ b, x nm = .str b ∧ st ln = .int b.length) ∧ WF rest ver x (st.set nm (.str (x nm).asStr))
  | .unknown _, _, _, _ => False

end Layout

/-! ### per-transfer round trip -/

theorem run_decF_i32 (n : Int) (r : Bytes) (h : inRange 4 n) :
    P.run (decF .i32) (encF .i32 (.int n) ++ r) = some (.int n, r) := by
  simp only [decF, encF, Val.asInt]
  rw [P.run_bind_some _ _ _ _ _ (run_rdI 4 n r h)]; rfl

theorem run_decF_i64 (n : Int) (r : Bytes) (h : inRange 8 n) :
    P.run (decF .i64) (encF .i64 (.int n) ++ r) = some (.int n, r) := by
  simp only [decF, encF, Val.asInt]
  rw [P.run_bind_some _ _ _ _ _ (run_rdI 8 n r h)]; rfl

theorem run_decF_text16 (b r : Bytes) (h : b.length ≤ 65535) :
    P.run (decF .text16) (encF .text16 (.str b) ++ r) = some (.str b, r) := by
  simp only [decF, encF, Val.asStr]
  rw [P.run_bind_some _ _ _ _ _ (run_decBytes16 b r h)]; rfl

theorem inRange_4_8 (n : Int) (h : inRange 4 n) : inRange 8 n := by
  rw [inRange_4] at h; rw [inRange_8]; omega

/-- one field transfer: the reader takes back exactly the wire value -/
theorem run_decF (p : Fmt) (c : Conv) (v : Val) (r : Bytes) (h : Layout.wfFld p c v) :
    P.run (decF p) (encF p (convW c v) ++ r) = some (convW c v, r) := by
  cases p <;> cases c <;> simp only [Layout.wfFld] at h
  · obtain ⟨n, rfl, hn⟩ := h; exact run_decF_i32 n r hn
  · obtain ⟨n, rfl, hn⟩ := h; exact run_decF_i64 n r hn
  · obtain ⟨b, rfl, hb⟩ := h; exact run_decF_text16 b r hb
  · obtain ⟨b, rfl, hb⟩ := h; exact run_decF_text16 _ r hb
  · obtain ⟨n, rfl, hn, hw⟩ := h
    refine run_decF_text16 _ r ?_
    have h8 : inRange 8 n := by
      rcases hw with rfl | rfl
      · exact inRange_4_8 n hn
      · exact hn
    have := zeroToEmpty_length n h8
    simp only [Val.asInt]; omega
  · obtain ⟨n, rfl⟩ := h
    refine run_decF_text16 _ r ?_
    have := utf8Rune_length n
    simp only [Val.asInt]; omega

namespace Layout

/-- **generic round trip**: for every layout, every version, every well-formed pack and whatever
    follows on the wire, the reader consumes exactly the writer's bytes and leaves `post` -/
theorem roundtrip (l : Layout) (ver : Int) (x st : Rec) (r : Bytes) (h : WF l ver x st) :
    P.run (read l ver st) (write l ver x ++ r) = some (post l ver x st, r) := by
  induction l generalizing x st r with
  | nil => simp [read, write, post]
  | fld nm p c rest ih =>
    obtain ⟨h1, h2⟩ := h
    simp only [read, write, post, List.append_assoc]
    rw [P.run_bind_some _ _ _ _ _ (run_decF p c (x nm) _ h1)]
    exact ih x _ r h2
  | ite c t e rest iht ihe ihr =>
    obtain ⟨h1, h2⟩ := h
    simp only [read, write, post, List.append_assoc]
    cases hc : c.eval ver
    · simp only [hc, Bool.false_eq_true, if_false] at h1 h2 ⊢
      rw [P.run_bind_some _ _ _ _ _ (ihe x st _ h1)]
      exact ihr x _ r h2
    · simp only [hc, if_true] at h1 h2 ⊢
      rw [P.run_bind_some _ _ _ _ _ (iht x st _ h1)]
      exact ihr x _ r h2
  | setC nm v rest ih =>
    simp only [read, write, post]
    exact ih x _ r h
  | setJoin nm src rest ih =>
    simp only [read, write, post]
    exact ih _ st r h
  | rawLen nm ln rest ih =>
    obtain ⟨⟨b, hb, hl⟩, h2⟩ := h
    simp only [read, write, post, List.append_assoc, hl, hb, Val.asInt, Val.asStr]
    have : ¬ ((b.length : Int) < 0) := by omega
    simp only [this, if_false, Int.toNat_natCast]
    rw [P.run_bind_some _ _ _ _ _ (run_rdBytes b _)]
    simp only [hb, Val.asStr] at h2
    exact ih x _ r h2
  | unknown why => exact absurd h (by simp [WF])

/-- a strict prefix of what the writer produced never reads back -/
theorem prefix_fails (l : Layout) (ver : Int) (x st : Rec) (q s : Bytes) (h : WF l ver x st)
    (hs : s ≠ []) (hq : q ++ s = write l ver x) : P.run (read l ver st) q = none := by
  have := roundtrip l ver x st [] h
  rw [List.append_nil, ← hq] at this
  exact P.prefix_fails _ q s _ hs this

/-! ### the writer's view and the reader's view (tie A)

  `xlate/c07` transcribes `Write` and `Read` separately.  The writer never executes the reader's
  constant assignments, the reader never sees the writer's caps or pre-assignments: `wv` and `rv`
  erase exactly what the other side cannot see.  A writer transcription `w` and a reader
  transcription `r` *agree through* a merged layout `m` when `wv w = wv m` and `rv r = rv m`;
  then `read r ∘ write w` is `read m ∘ write m`, to which `roundtrip` applies. -/

/-- a gate with two empty arms is no statement at all (the packs are full of empty
    `if this.Ver > 50000 { } else if … { }` family ladders) -/
def mkIte (c : Cond) (t e rest : Layout) : Layout :=
  if t = .nil ∧ e = .nil then rest else .ite c t e rest

theorem write_mkIte (c : Cond) (t e rest : Layout) (ver : Int) (x : Rec) :
    write (mkIte c t e rest) ver x = write (.ite c t e rest) ver x := by
  unfold mkIte
  split
  · rename_i h; obtain ⟨rfl, rfl⟩ := h; simp [write]
  · rfl

theorem read_mkIte (c : Cond) (t e rest : Layout) (ver : Int) (st : Rec) :
    read (mkIte c t e rest) ver st = read (.ite c t e rest) ver st := by
  unfold mkIte
  split
  · rename_i h; obtain ⟨rfl, rfl⟩ := h
    simp only [read]
    cases c.eval ver <;> rfl
  · rfl

def wv : Layout → Layout
  | .nil => .nil
  | .fld nm p c rest => .fld nm p c (wv rest)
  | .ite c t e rest => mkIte c (wv t) (wv e) (wv rest)
  | .setC _ _ rest => wv rest
  | .setJoin nm src rest => .setJoin nm src (wv rest)
  | .rawLen nm _ rest => .rawLen nm "" (wv rest)
  | .unknown why => .unknown why

/-- reader side of a conversion -/
def rconv : Conv → Conv
  | .numText w => .numText w
  | _ => .id

def rv : Layout → Layout
  | .nil => .nil
  | .fld nm p c rest => .fld nm p (rconv c) (rv rest)
  | .ite c t e rest => mkIte c (rv t) (rv e) (rv rest)
  | .setC nm v rest => .setC nm v (rv rest)
  | .setJoin _ _ rest => rv rest
  | .rawLen nm ln rest => .rawLen nm ln (rv rest)
  | .unknown why => .unknown why

theorem write_wv (l : Layout) (ver : Int) (x : Rec) : write (wv l) ver x = write l ver x := by
  induction l generalizing x with
  | nil => rfl
  | fld nm p c rest ih => simp only [wv, write, ih]
  | ite c t e rest iht ihe ihr => simp only [wv, write_mkIte, write, iht, ihe, ihr]
  | setC nm v rest ih => simp only [wv, write, ih]
  | setJoin nm src rest ih => simp only [wv, write, ih]
  | rawLen nm ln rest ih => simp only [wv, write, ih]
  | unknown why => rfl

theorem convR_rconv (c : Conv) : convR (rconv c) = convR c := by
  cases c <;> rfl

theorem read_rv (l : Layout) (ver : Int) (st : Rec) : read (rv l) ver st = read l ver st := by
  induction l generalizing st with
  | nil => rfl
  | fld nm p c rest ih => simp only [rv, read, ih, convR_rconv]
  | ite c t e rest iht ihe ihr => simp only [rv, read_mkIte, read, iht, ihe, ihr]
  | setC nm v rest ih => simp only [rv, read, ih]
  | setJoin nm src rest ih => simp only [rv, read, ih]
  | rawLen nm ln rest ih => simp only [rv, read, ih]
  | unknown why => rfl

/-- does the layout contain an untranslated statement? -/
def hasUnknown : Layout → Bool
  | .nil => false
  | .fld _ _ _ rest => hasUnknown rest
  | .ite _ t e rest => hasUnknown t || hasUnknown e || hasUnknown rest
  | .setC _ _ rest => hasUnknown rest
  | .setJoin _ _ rest => hasUnknown rest
  | .rawLen _ _ rest => hasUnknown rest
  | .unknown _ => true

/-- writer transcription `w` and reader transcription `r` agree through the merged layout `m` -/
def agree (w r m : Layout) : Bool :=
  decide (wv w = wv m) && decide (rv r = rv m) && !hasUnknown m

theorem agree_roundtrip (w r m : Layout) (ha : agree w r m = true)
    (ver : Int) (x st : Rec) (rest : Bytes) (h : WF m ver x st) :
    P.run (read r ver st) (write w ver x ++ rest) = some (post m ver x st, rest) := by
  simp only [agree, Bool.and_eq_true, decide_eq_true_eq] at ha
  obtain ⟨⟨hw, hr⟩, _⟩ := ha
  rw [← write_wv w, hw, write_wv, ← read_rv r, hr, read_rv]
  exact roundtrip m ver x st rest h

/-! ### structure: names, gates, caps -/

/-- the fields the reader assigns, in order, at version `ver` (transfers and constants) -/
def assigned : Layout → Int → List String
  | .nil, _ => []
  | .fld nm _ _ rest, ver => nm :: assigned rest ver
  | .ite c t e rest, ver => (if c.eval ver then assigned t ver else assigned e ver) ++ assigned rest ver
  | .setC nm _ rest, ver => nm :: assigned rest ver
  | .setJoin _ _ rest, ver => assigned rest ver
  | .rawLen nm _ rest, ver => nm :: assigned rest ver
  | .unknown _, _ => []

/-- the fields carried by the wire at version `ver`, in wire order -/
def carried : Layout → Int → List String
  | .nil, _ => []
  | .fld nm _ _ rest, ver => nm :: carried rest ver
  | .ite c t e rest, ver => (if c.eval ver then carried t ver else carried e ver) ++ carried rest ver
  | .setC _ _ rest, ver => carried rest ver
  | .setJoin _ _ rest, ver => carried rest ver
  | .rawLen nm _ rest, ver => nm :: carried rest ver
  | .unknown _, _ => []

/-- a field the reader does not assign keeps its value -/
theorem post_unassigned (l : Layout) (ver : Int) (x st : Rec) (f : String)
    (h : f ∉ assigned l ver) : post l ver x st f = st f := by
  induction l generalizing x st with
  | nil => rfl
  | fld nm p c rest ih =>
    simp only [assigned, List.mem_cons, not_or] at h
    simp only [post]; rw [ih _ _ h.2]; simp [Rec.set, h.1]
  | ite c t e rest iht ihe ihr =>
    simp only [assigned, List.mem_append, not_or] at h
    simp only [post]; rw [ihr _ _ h.2]
    cases hc : c.eval ver
    · simp only [hc, Bool.false_eq_true, if_false] at h ⊢; exact ihe _ _ h.1
    · simp only [hc, if_true] at h ⊢; exact iht _ _ h.1
  | setC nm v rest ih =>
    simp only [assigned, List.mem_cons, not_or] at h
    simp only [post]; rw [ih _ _ h.2]; simp [Rec.set, h.1]
  | setJoin nm src rest ih => simp only [assigned] at h; simp only [post]; exact ih _ _ h
  | rawLen nm ln rest ih =>
    simp only [assigned, List.mem_cons, not_or] at h
    simp only [post]; rw [ih _ _ h.2]; simp [Rec.set, h.1]
  | unknown why => rfl

/-- all version constants a layout compares with -/
def gates : Layout → List Int
  | .nil => []
  | .fld _ _ _ rest => gates rest
  | .ite c t e rest =>
      (match c with
        | .verGt n | .verGe n | .verLt n | .verLe n | .verEq n | .verNe n => n) :: (gates t ++ gates e ++ gates rest)
  | .setC _ _ rest => gates rest
  | .setJoin _ _ rest => gates rest
  | .rawLen _ _ rest => gates rest
  | .unknown _ => []

/-- the writer-side caps of a layout: (field, cap) -/
def caps : Layout → List (String × Nat)
  | .nil => []
  | .fld nm _ c rest => (match c with | .trunc n => [(nm, n)] | _ => []) ++ caps rest
  | .ite _ t e rest => caps t ++ caps e ++ caps rest
  | .setC _ _ rest => caps rest
  | .setJoin _ _ rest => caps rest
  | .rawLen _ _ rest => caps rest
  | .unknown _ => []

/-- the integer-as-text transfers of a layout: (field, width) -/
def numTexts : Layout → List (String × Nat)
  | .nil => []
  | .fld nm _ c rest => (match c with | .numText w => [(nm, w)] | _ => []) ++ numTexts rest
  | .ite _ t e rest => numTexts t ++ numTexts e ++ numTexts rest
  | .setC _ _ rest => numTexts rest
  | .setJoin _ _ rest => numTexts rest
  | .rawLen _ _ rest => numTexts rest
  | .unknown _ => []

def append : Layout → Layout → Layout
  | .nil, k => k
  | .fld nm p c rest, k => .fld nm p c (append rest k)
  | .ite c t e rest, k => .ite c t e (append rest k)
  | .setC nm v rest, k => .setC nm v (append rest k)
  | .setJoin nm src rest, k => .setJoin nm src (append rest k)
  | .rawLen nm ln rest, k => .rawLen nm ln (append rest k)
  | .unknown why, _ => .unknown why

end Layout

/-! ### what one transfer carries (Spec side of `post`) -/

/-- the value the reader ends up with for a well-formed field: itself, or its documented cap -/
def carry : Conv → Val → Val
  | .trunc n, v => .str (v.asStr.take n)
  | .rune, v => .str (utf8Rune v.asInt)
  | _, v => v

theorem carry_spec (p : Fmt) (c : Conv) (v : Val) (h : Layout.wfFld p c v) :
    convR c (convW c v) = carry c v := by
  cases p <;> cases c <;> simp only [Layout.wfFld] at h <;> try rfl
  obtain ⟨n, rfl, hn, _⟩ := h
  simp only [convR, convW, carry, Val.asInt, Val.asStr, numtext_roundtrip _ n hn]

end Udp
