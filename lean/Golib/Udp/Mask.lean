/-
  Golib.Udp.Mask — the connection-string masking of `Process()` leaves no password.

  Grammar: a connection string is a sequence of tokens `key=value` separated by blanks or
  semicolons (freely mixed); keys and values are *plain*: no `=`, no `;`, no byte that can begin a
  white-space character (so in particular no blank).  Keys and values may be empty.

  `maskDbc` runs ParamKV twice — first splitting at blanks, then at semicolons.  The proof follows
  the two passes on a grouped presentation of the string:

    pass 1   blank-separated groups of `;`-joined tokens: a group whose first key is `password`
             becomes `password=#`, every other group becomes (a copy of) a group of the input
    regroup  the `;`-separated pieces of that result are blank-joined runs in which every token
             but the first is the first token of a pass-1 group
    pass 2   a run whose first key is `password` becomes `password=#`; every other run is rebuilt
             from its key and the (trimmed) value of a run of the same shape
-/
import Golib.Udp.Split

namespace Udp

abbrev Tok := Bytes × Bytes

def render (t : Tok) : Bytes := t.1 ++ 61 :: t.2

/-- the bytes with a meaning in the grammar: blank, `;`, `=` -/
def sepByte (b : Nat) : Bool := b == 32 || b == 59 || b == 61

/-- a key or value of the grammar: free of blank, `;` and `=`, and neither beginning nor ending with
    a white-space character (`strings.TrimSpace` leaves it alone).  Any other bytes are allowed —
    UTF-8 text, invalid bytes, white space in the middle. -/
def Plain (s : Bytes) : Prop := 32 ∉ s ∧ 59 ∉ s ∧ 61 ∉ s ∧ Clean s
def PlainTok (t : Tok) : Prop := Plain t.1 ∧ Plain t.2

instance (s : Bytes) : Decidable (Plain s) := by unfold Plain; infer_instance

/-- a password token is masked -/
def pwOK (t : Tok) : Prop := t.1 = kwPassword → t.2 = kwHash

/-- the tokens of a group joined by `d` -/
def renderGrp (d : Nat) (g : List Tok) : Bytes := joinOn d (g.map render)
/-- groups joined by `c`, tokens inside a group by `d` -/
def renderAll (c d : Nat) (gs : List (List Tok)) : Bytes := joinOn c (gs.map (renderGrp d))

theorem plain_no (s : Bytes) (h : Plain s) (c : Nat) (hc : sepByte c = true) : c ∉ s := by
  simp only [sepByte, Bool.or_eq_true, beq_iff_eq] at hc
  rcases hc with (rfl | rfl) | rfl
  · exact h.1
  · exact h.2.1
  · exact h.2.2.1

theorem trim_plain {s : Bytes} (h : Plain s) : trim s = s := trim_clean s h.2.2.2

/-- text without white-space lead bytes, `;` and `=` is plain (the previous, narrower grammar) -/
theorem plain_of_noLead (s : Bytes) (h : ∀ b ∈ s, isLead b = false ∧ b ≠ 59 ∧ b ≠ 61) : Plain s := by
  refine ⟨?_, ?_, ?_, clean_noLead s (fun b hb => (h b hb).1)⟩
  · intro hm; have := (h 32 hm).1; simp [isLead] at this
  · intro hm; exact (h 59 hm).2.1 rfl
  · intro hm; exact (h 61 hm).2.2 rfl

theorem keyOf_render (t : Tok) (h : PlainTok t) : keyOf (render t) = t.1 := by
  unfold keyOf render
  rw [toPair_kv _ _ (plain_no _ h.1 61 (by decide))]
  exact trim_plain h.1

theorem valOf_render (t : Tok) (h : PlainTok t) : valOf (render t) = t.2 := by
  unfold valOf render
  rw [toPair_kv _ _ (plain_no _ h.1 61 (by decide))]
  exact trim_plain h.2

theorem render_nomem (t : Tok) (h : PlainTok t) (c : Nat) (hc : sepByte c = true) (h61 : c ≠ 61) :
    c ∉ render t := by
  simp only [render, List.mem_append, List.mem_cons, not_or]
  exact ⟨plain_no _ h.1 c hc, h61, plain_no _ h.2 c hc⟩

/-- the text after the first token of a group -/
def tailStr (d : Nat) (r : List Tok) : Bytes := r.flatMap (fun u => d :: render u)

theorem renderGrp_cons (d : Nat) (t : Tok) (r : List Tok) :
    renderGrp d (t :: r) = render t ++ tailStr d r := by
  induction r generalizing t with
  | nil => simp [renderGrp, joinOn, tailStr]
  | cons u r ih =>
    have := ih u
    simp only [renderGrp, List.map_cons, joinOn] at this ⊢
    rw [this]; simp [tailStr]

theorem renderGrp_cons_cons (d : Nat) (t u : Tok) (r : List Tok) :
    renderGrp d (t :: u :: r) = render t ++ d :: renderGrp d (u :: r) := by
  simp [renderGrp, joinOn]

theorem renderGrp_nomem (d c : Nat) (g : List Tok) (hg : ∀ t ∈ g, PlainTok t)
    (hc : sepByte c = true) (h61 : c ≠ 61) (hd : c ≠ d) : c ∉ renderGrp d g := by
  unfold renderGrp
  apply joinOn_nomem d c _ hd
  intro x hx
  obtain ⟨t, ht, rfl⟩ := List.mem_map.mp hx
  exact render_nomem t (hg t ht) c hc h61

/-- the value part of a group: what follows the first `=` -/
def valStr (d : Nat) (t : Tok) (r : List Tok) : Bytes := t.2 ++ tailStr d r

theorem renderGrp_kv (d : Nat) (t : Tok) (r : List Tok) :
    renderGrp d (t :: r) = t.1 ++ 61 :: valStr d t r := by
  rw [renderGrp_cons]; simp [render, valStr]

theorem keyOf_grp (d : Nat) (t : Tok) (r : List Tok) (h : PlainTok t) :
    keyOf (renderGrp d (t :: r)) = t.1 := by
  rw [renderGrp_kv]; unfold keyOf
  rw [toPair_kv _ _ (plain_no _ h.1 61 (by decide))]
  exact trim_plain h.1

theorem valOf_grp (d : Nat) (t : Tok) (r : List Tok) (h : PlainTok t) :
    valOf (renderGrp d (t :: r)) = trim (valStr d t r) := by
  rw [renderGrp_kv]; unfold valOf
  rw [toPair_kv _ _ (plain_no _ h.1 61 (by decide))]

/-- `valStr` as a join: the first value, then the other tokens -/
theorem valStr_join (d : Nat) (t : Tok) (r : List Tok) :
    valStr d t r = joinOn d (t.2 :: r.map render) := by
  unfold valStr tailStr
  induction r generalizing t with
  | nil => simp [joinOn]
  | cons u r ih =>
    have := ih (([], render u) : Tok)
    simp only [List.map_cons, joinOn, List.flatMap_cons] at this ⊢
    -- joinOn d (render u :: map render r) = render u ++ tail
    have e : joinOn d (render u :: r.map render) = render u ++ List.flatMap (fun u => d :: render u) r := by
      simpa using this.symm
    rw [e]; simp

/-! ### the rebuilt token of `ToString()` -/

def rebuild (key val : Bytes) (toks : List Bytes) (t : Bytes) : Bytes :=
  let k := keyOf t
  if k.isEmpty then t else k ++ 61 :: (if k == key then val else lookupLast k toks)

theorem maskPass_eq (c : Nat) (key val s : Bytes) :
    maskPass c key val s = joinOn c ((splitOn c s).map (rebuild key val (splitOn c s))) := rfl

theorem lookupLast_spec (k : Bytes) (toks : List Bytes) (h : ∃ u ∈ toks, keyOf u = k) :
    ∃ u ∈ toks, keyOf u = k ∧ lookupLast k toks = valOf u := by
  unfold lookupLast
  cases hf : toks.reverse.find? (fun t => keyOf t == k) with
  | none =>
    obtain ⟨u, hu, hk⟩ := h
    have := List.find?_eq_none.mp hf u (List.mem_reverse.mpr hu)
    simp [hk] at this
  | some u =>
    have h1 := List.find?_some hf
    have h2 := List.mem_of_find?_eq_some hf
    exact ⟨u, List.mem_reverse.mp h2, by simpa using h1, rfl⟩

/-- mapping with a pointwise representation result -/
theorem map_repr {α β γ : Type} (f : α → β) (h : γ → β) (P : γ → Prop) (l : List α)
    (hp : ∀ x ∈ l, ∃ y, f x = h y ∧ P y) :
    ∃ l' : List γ, l.map f = l'.map h ∧ (∀ y ∈ l', P y) ∧ l'.length = l.length := by
  induction l with
  | nil => exact ⟨[], rfl, by simp, rfl⟩
  | cons x xs ih =>
    obtain ⟨y, hy, py⟩ := hp x (by simp)
    obtain ⟨l', hl, pl, len⟩ := ih (fun z hz => hp z (by simp [hz]))
    refine ⟨y :: l', by simp [hy, hl], ?_, by simp [len]⟩
    intro z hz
    rcases List.mem_cons.mp hz with rfl | hz
    · exact py
    · exact pl z hz

/-! ### pass 1: split at blanks -/

/-- a group of pass 1 / a run of pass 2 -/
def GoodGrp (g : List Tok) : Prop := g ≠ [] ∧ ∀ t ∈ g, PlainTok t

theorem kw_ne_nil : kwPassword ≠ [] := by decide
theorem kwHash_plain : Plain kwHash := by decide
theorem kwPassword_plain : Plain kwPassword := by decide

/-- the value of the last token of `t :: r` -/
def lastVal : Tok → List Tok → Bytes
  | t, [] => t.2
  | _, u :: r => lastVal u r

theorem lastVal_plain (t : Tok) (r : List Tok) (ht : PlainTok t) (hr : ∀ u ∈ r, PlainTok u) :
    Plain (lastVal t r) := by
  induction r generalizing t with
  | nil => exact ht.2
  | cons u r ih => exact ih u (hr u (by simp)) (fun v hv => hr v (by simp [hv]))

/-- a value text with more than one token ends with `=` and the last value -/
theorem valStr_end (d : Nat) (t : Tok) (r : List Tok) (hne : r ≠ []) :
    ∃ Z, valStr d t r = Z ++ 61 :: lastVal t r := by
  induction r generalizing t with
  | nil => exact absurd rfl hne
  | cons u r ih =>
    cases r with
    | nil => exact ⟨t.2 ++ d :: u.1, by simp [valStr, tailStr, render, lastVal]⟩
    | cons u' r' =>
      obtain ⟨Z, hZ⟩ := ih u (by simp)
      refine ⟨t.2 ++ d :: u.1 ++ 61 :: Z, ?_⟩
      have e : valStr d t (u :: u' :: r') = t.2 ++ d :: u.1 ++ 61 :: valStr d u (u' :: r') := by
        simp [valStr, tailStr, render]
      rw [e, hZ]; simp [lastVal]

/-- TrimSpace does not touch the right end of a value text -/
theorem valStr_right (d : Nat) (t : Tok) (r : List Tok) (ht : PlainTok t) (hr : ∀ u ∈ r, PlainTok u) :
    dropOne (spaceSeqs.map List.reverse) (valStr d t r).reverse = none := by
  cases r with
  | nil => simpa [valStr, tailStr] using ht.2.2.2.2.2
  | cons u r' =>
    obtain ⟨Z, hZ⟩ := valStr_end d t (u :: r') (by simp)
    rw [hZ, List.reverse_append, List.reverse_cons, List.append_assoc, List.singleton_append]
    exact dropOne_append_sep _ _ _ 61 spaceSeqsRev_no61 (lastVal_plain t (u :: r') ht hr).2.2.2.2

theorem trim_valStr59 (t : Tok) (r : List Tok) (ht : PlainTok t) (hr : ∀ u ∈ r, PlainTok u) :
    trim (valStr 59 t r) = valStr 59 t r := by
  apply trim_clean
  refine ⟨?_, valStr_right 59 t r ht hr⟩
  cases r with
  | nil => simpa [valStr, tailStr] using ht.2.2.2.2.1
  | cons u r' =>
    have e : valStr 59 t (u :: r') = t.2 ++ 59 :: (render u ++ tailStr 59 r') := by simp [valStr, tailStr]
    rw [e]
    exact dropOne_append_sep _ _ _ 59 spaceSeqs_no59 ht.2.2.2.2.1

theorem pass1 (gs : List (List Tok)) (hne : gs ≠ []) (hg : ∀ g ∈ gs, GoodGrp g) :
    ∃ gs' : List (List Tok), gs' ≠ [] ∧
      (∀ g ∈ gs', GoodGrp g ∧ ∀ t, g.head? = some t → pwOK t) ∧
      maskPass 32 kwPassword kwHash (renderAll 32 59 gs) = renderAll 32 59 gs' := by
  have hsplit : splitOn 32 (renderAll 32 59 gs) = gs.map (renderGrp 59) := by
    unfold renderAll
    apply splitOn_joinOn 32 _ (by simpa using hne)
    intro x hx
    obtain ⟨g, hgm, rfl⟩ := List.mem_map.mp hx
    exact renderGrp_nomem 59 32 g (hg g hgm).2 (by decide) (by decide) (by decide)
  rw [maskPass_eq, hsplit, List.map_map]
  have hp : ∀ g ∈ gs, ∃ g' : List Tok,
      (rebuild kwPassword kwHash (gs.map (renderGrp 59)) ∘ renderGrp 59) g = renderGrp 59 g' ∧
      (GoodGrp g' ∧ ∀ t, g'.head? = some t → pwOK t) := by
    intro g hgm
    obtain ⟨gne, gpl⟩ := hg g hgm
    cases g with
    | nil => exact absurd rfl gne
    | cons t r =>
      have ht := gpl t (by simp)
      have hk := keyOf_grp 59 t r ht
      simp only [Function.comp, rebuild, hk]
      by_cases h0 : t.1 = []
      · refine ⟨t :: r, by simp [h0], ⟨gne, gpl⟩, ?_⟩
        intro t' ht'; simp at ht'; subst ht'
        intro hpw; rw [h0] at hpw; exact absurd hpw.symm kw_ne_nil
      · have hne0 : t.1.isEmpty = false := by simpa using h0
        simp only [hne0, Bool.false_eq_true, if_false]
        by_cases hpw : t.1 = kwPassword
        · refine ⟨[(kwPassword, kwHash)], by simp [hpw, renderGrp, joinOn, render], ⟨by simp, ?_⟩, ?_⟩
          · intro u hu; simp at hu; subst hu; exact ⟨kwPassword_plain, kwHash_plain⟩
          · intro t' ht'; simp at ht'; subst ht'; intro _; rfl
        · have hb : (t.1 == kwPassword) = false := by simpa using hpw
          simp only [hb, Bool.false_eq_true, if_false]
          obtain ⟨u, hu, huk, hlv⟩ := lookupLast_spec t.1 (gs.map (renderGrp 59))
            ⟨renderGrp 59 (t :: r), List.mem_map.mpr ⟨t :: r, hgm, rfl⟩, hk⟩
          obtain ⟨g2, hg2m, rfl⟩ := List.mem_map.mp hu
          obtain ⟨g2ne, g2pl⟩ := hg g2 hg2m
          cases g2 with
          | nil => exact absurd rfl g2ne
          | cons t2 r2 =>
            have ht2 := g2pl t2 (by simp)
            rw [keyOf_grp 59 t2 r2 ht2] at huk
            rw [hlv, valOf_grp 59 t2 r2 ht2, trim_valStr59 t2 r2 ht2 (fun u hu => g2pl u (by simp [hu]))]
            refine ⟨t2 :: r2, by rw [renderGrp_kv, huk], ⟨g2ne, g2pl⟩, ?_⟩
            intro t' ht'; simp at ht'; subst ht'
            intro h; rw [huk] at h; exact absurd h hpw
  obtain ⟨gs', hmap, hgood, hlen⟩ := map_repr _ (renderGrp 59) _ gs hp
  refine ⟨gs', ?_, hgood, by rw [hmap]; rfl⟩
  intro e; subst e; simp at hlen; exact hne (List.eq_nil_of_length_eq_zero hlen.symm)

/-! ### regrouping: the `;`-pieces of a blank-joined list of `;`-joined groups -/

/-- a run of pass 2: tokens joined by blanks, all but the first already masked -/
def GoodRun (run : List Tok) : Prop := GoodGrp run ∧ ∀ t ∈ run.tail, pwOK t

theorem renderGrp32_cons (t : Tok) (H : List Tok) (hH : H ≠ []) :
    renderGrp 32 (t :: H) = render t ++ 32 :: renderGrp 32 H := by
  cases H with
  | nil => exact absurd rfl hH
  | cons u r => exact renderGrp_cons_cons 32 t u r

theorem attach (g : List Tok) (hg : GoodGrp g) (R : Bytes) (H : List Tok) (tlR : List (List Tok))
    (hR : splitOn 59 R = renderGrp 32 H :: tlR.map (renderGrp 32))
    (hH : GoodGrp H) (hHok : ∀ t ∈ H, pwOK t) (htl : ∀ run ∈ tlR, GoodRun run) :
    ∃ (H' : List Tok) (tl' : List (List Tok)),
      splitOn 59 (renderGrp 59 g ++ 32 :: R) = renderGrp 32 H' :: tl'.map (renderGrp 32) ∧
      GoodGrp H' ∧ H'.head? = g.head? ∧ (∀ t ∈ H'.tail, pwOK t) ∧ ∀ run ∈ tl', GoodRun run := by
  obtain ⟨gne, gpl⟩ := hg
  induction g with
  | nil => exact absurd rfl gne
  | cons t r ih =>
    have ht := gpl t (by simp)
    cases r with
    | nil =>
      refine ⟨t :: H, tlR, ?_, ⟨by simp, ?_⟩, rfl, by simpa using hHok, htl⟩
      · have h59 : 59 ∉ render t ++ [32] := by
          simp only [List.mem_append, List.mem_singleton, not_or]
          exact ⟨render_nomem t ht 59 (by decide) (by decide), by decide⟩
        have : renderGrp 59 [t] ++ 32 :: R = (render t ++ [32]) ++ R := by
          simp [renderGrp, joinOn]
        rw [this, splitOn_append_nosep 59 _ _ h59, hR, renderGrp32_cons t H hH.1]
        simp [consHead]
      · intro u hu
        rcases List.mem_cons.mp hu with rfl | hu
        · exact ht
        · exact hH.2 u hu
    | cons t' r' =>
      obtain ⟨H2, tl2, hs2, hH2, hhead2, htail2, htl2⟩ :=
        ih (by simp) (fun u hu => gpl u (by simp [hu]))
      refine ⟨[t], H2 :: tl2, ?_, ⟨by simp, by intro u hu; simp at hu; subst hu; exact ht⟩, rfl,
        by simp, ?_⟩
      · rw [renderGrp_cons_cons, List.append_assoc, List.cons_append, splitOn_append_sep,
          splitOn_nosep 59 _ (render_nomem t ht 59 (by decide) (by decide)), hs2]
        simp [renderGrp, joinOn]
      · intro run hrun
        rcases List.mem_cons.mp hrun with rfl | hrun
        · exact ⟨hH2, htail2⟩
        · exact htl2 run hrun

theorem regroup (gs : List (List Tok)) (hne : gs ≠ [])
    (hg : ∀ g ∈ gs, GoodGrp g ∧ ∀ t, g.head? = some t → pwOK t) :
    ∃ (H : List Tok) (tl : List (List Tok)),
      splitOn 59 (renderAll 32 59 gs) = renderGrp 32 H :: tl.map (renderGrp 32) ∧
      GoodGrp H ∧ (∀ t ∈ H, pwOK t) ∧ ∀ run ∈ tl, GoodRun run := by
  induction gs with
  | nil => exact absurd rfl hne
  | cons g rest ih =>
    obtain ⟨⟨gne, gpl⟩, ghead⟩ := hg g (by simp)
    cases rest with
    | nil =>
      cases g with
      | nil => exact absurd rfl gne
      | cons t r =>
        refine ⟨[t], r.map (fun u => [u]), ?_, ⟨by simp, ?_⟩, ?_, ?_⟩
        · have : renderAll 32 59 [t :: r] = joinOn 59 ((t :: r).map render) := by
            simp [renderAll, renderGrp, joinOn]
          rw [this, splitOn_joinOn 59 _ (by simp)]
          · simp [renderGrp, joinOn, Function.comp]
          · intro x hx
            obtain ⟨u, hu, rfl⟩ := List.mem_map.mp hx
            exact render_nomem u (gpl u hu) 59 (by decide) (by decide)
        · intro u hu; simp at hu; subst hu; exact gpl u (by simp)
        · intro u hu; simp at hu; subst hu; exact ghead u rfl
        · intro run hrun
          obtain ⟨u, hu, rfl⟩ := List.mem_map.mp hrun
          exact ⟨⟨by simp, by intro v hv; simp at hv; subst hv; exact gpl v (by simp [hu])⟩, by simp⟩
    | cons g2 rest' =>
      obtain ⟨H, tl, hs, hH, hHok, htl⟩ := ih (by simp) (fun x hx => hg x (by simp [hx]))
      have e : renderAll 32 59 (g :: g2 :: rest') = renderGrp 59 g ++ 32 :: renderAll 32 59 (g2 :: rest') := by
        simp [renderAll, joinOn]
      obtain ⟨H', tl', hs', hH', hhead', htail', htl'⟩ := attach g ⟨gne, gpl⟩ _ H tl hs hH hHok htl
      refine ⟨H', tl', by rw [e, hs'], hH', ?_, htl'⟩
      intro u hu
      cases H' with
      | nil => exact absurd rfl hH'.1
      | cons a b =>
        rcases List.mem_cons.mp hu with rfl | hu
        · exact ghead u (by simpa using hhead'.symm)
        · exact htail' u hu

/-! ### pass 2: split at semicolons -/

/-- a token of the result is harmless: if its key is `password` its value is `#` -/
def leakOK (p : Bytes) : Prop := keyOf p = kwPassword → valOf p = kwHash

theorem leakOK_render (u : Tok) (hu : PlainTok u) (hok : pwOK u) : leakOK (render u) := by
  unfold leakOK; rw [keyOf_render u hu, valOf_render u hu]; exact hok

theorem valStr32_no59 (t : Tok) (r : List Tok) (ht : PlainTok t) (hr : ∀ u ∈ r, PlainTok u) :
    59 ∉ valStr 32 t r := by
  rw [valStr_join]
  apply joinOn_nomem 32 59 _ (by decide)
  intro x hx
  rcases List.mem_cons.mp hx with rfl | hx
  · exact plain_no _ ht.2 59 (by decide)
  · obtain ⟨u, hu, rfl⟩ := List.mem_map.mp hx
    exact render_nomem u (hr u hu) 59 (by decide) (by decide)

theorem splitOn32_valStr (t : Tok) (r : List Tok) (ht : PlainTok t) (hr : ∀ u ∈ r, PlainTok u) :
    splitOn 32 (valStr 32 t r) = t.2 :: r.map render := by
  rw [valStr_join]
  apply splitOn_joinOn 32 _ (by simp)
  intro x hx
  rcases List.mem_cons.mp hx with rfl | hx
  · exact plain_no _ ht.2 32 (by decide)
  · obtain ⟨u, hu, rfl⟩ := List.mem_map.mp hx
    exact render_nomem u (hr u hu) 32 (by decide) (by decide)

/-- TrimSpace of a blank-joined value text: only a leading blank (left by an empty first value) goes -/
theorem trim_valStr32 (t : Tok) (r : List Tok) (ht : PlainTok t) (hr : ∀ u ∈ r, PlainTok u) :
    trim (valStr 32 t r) = if t.2 = [] ∧ r ≠ [] then renderGrp 32 r else valStr 32 t r := by
  cases r with
  | nil =>
    simp only [ne_eq, not_true_eq_false, and_false, if_false]
    exact trim_clean _ ⟨by simpa [valStr, tailStr] using ht.2.2.2.2.1, valStr_right 32 t [] ht hr⟩
  | cons u r' =>
    have hu := hr u (by simp)
    have hr' : ∀ v ∈ r', PlainTok v := fun v hv => hr v (by simp [hv])
    have e : valStr 32 t (u :: r') = t.2 ++ 32 :: renderGrp 32 (u :: r') := by
      rw [renderGrp_cons]; simp [valStr, tailStr]
    by_cases h2 : t.2 = []
    · have hc : t.2 = [] ∧ u :: r' ≠ [] := ⟨h2, by simp⟩
      rw [if_pos hc]
      unfold trim
      have hY : dropOne spaceSeqs (renderGrp 32 (u :: r')) = none := by
        rw [renderGrp_kv]
        exact dropOne_append_sep _ _ _ 61 spaceSeqs_no61 hu.1.2.2.2.1
      have hR : dropOne (spaceSeqs.map List.reverse) (renderGrp 32 (u :: r')).reverse = none := by
        have := valStr_right 32 t (u :: r') ht hr
        rw [e, h2, List.nil_append, List.reverse_cons] at this
        -- the right end of `" " ++ Y` is the right end of `Y`
        rw [dropOne_none_iff] at this ⊢
        intro q hq
        cases hp : q.isPrefixOf (renderGrp 32 (u :: r')).reverse
        · rfl
        · have := this q hq
          have hpre : q.isPrefixOf ((renderGrp 32 (u :: r')).reverse ++ [32]) = true := by
            have : ∀ (q a b : Bytes), q.isPrefixOf a = true → q.isPrefixOf (a ++ b) = true := by
              intro q
              induction q with
              | nil => intros; rfl
              | cons x q ih =>
                intro a b h
                cases a with
                | nil => simp [List.isPrefixOf] at h
                | cons y a =>
                  simp only [List.isPrefixOf, Bool.and_eq_true, beq_iff_eq] at h
                  simp [List.isPrefixOf, h.1, ih a b h.2]
            exact this _ _ _ hp
          rw [hpre] at this; cases this
      rw [e, h2, List.nil_append, trimLeft_blank _ hY, trimRight_of_none _ hR]
    · have hc : ¬ (t.2 = [] ∧ u :: r' ≠ []) := fun h => h2 h.1
      rw [if_neg hc]
      apply trim_clean
      refine ⟨?_, valStr_right 32 t (u :: r') ht hr⟩
      rw [e]
      exact dropOne_append_blank _ _ _ spaceSeqs_blank32 h2 ht.2.2.2.2.1

/-- what pass 2 makes of one run: free of `;`, and every blank-separated piece is harmless -/
theorem pass2_run (runs : List (List Tok)) (hruns : ∀ run ∈ runs, GoodRun run)
    (run : List Tok) (hrun : run ∈ runs) :
    let T := rebuild kwPassword kwHash (runs.map (renderGrp 32)) (renderGrp 32 run)
    59 ∉ T ∧ ∀ p ∈ splitOn 32 T, leakOK p := by
  obtain ⟨⟨rne, rpl⟩, rtail⟩ := hruns run hrun
  cases run with
  | nil => exact absurd rfl rne
  | cons t r =>
    have ht := rpl t (by simp)
    have hr : ∀ u ∈ r, PlainTok u := fun u hu => rpl u (by simp [hu])
    have hk := keyOf_grp 32 t r ht
    simp only [rebuild, hk]
    by_cases h0 : t.1 = []
    · -- no key: the run is copied
      simp only [h0, List.isEmpty_nil, if_true]
      constructor
      · exact renderGrp_nomem 32 59 _ rpl (by decide) (by decide) (by decide)
      · have : splitOn 32 (renderGrp 32 (t :: r)) = (t :: r).map render := by
          apply splitOn_joinOn 32 _ (by simp)
          intro x hx
          obtain ⟨u, hu, rfl⟩ := List.mem_map.mp hx
          exact render_nomem u (rpl u hu) 32 (by decide) (by decide)
        rw [this]
        intro p hp
        obtain ⟨u, hu, rfl⟩ := List.mem_map.mp hp
        rcases List.mem_cons.mp hu with rfl | hu
        · apply leakOK_render u ht
          intro hpw; rw [h0] at hpw; exact absurd hpw.symm kw_ne_nil
        · exact leakOK_render u (hr u hu) (rtail u (by simpa using hu))
    · have hne0 : t.1.isEmpty = false := by simpa using h0
      simp only [hne0, Bool.false_eq_true, if_false]
      by_cases hpw : t.1 = kwPassword
      · -- the password run
        simp only [hpw, beq_self_eq_true, if_true]
        constructor
        · decide
        · have : splitOn 32 (kwPassword ++ 61 :: kwHash) = [kwPassword ++ 61 :: kwHash] := by decide
          rw [this]
          intro p hp; simp at hp; subst hp
          exact leakOK_render (kwPassword, kwHash) ⟨kwPassword_plain, kwHash_plain⟩ (fun _ => rfl)
      · have hb : (t.1 == kwPassword) = false := by simpa using hpw
        simp only [hb, Bool.false_eq_true, if_false]
        obtain ⟨u, hu, huk, hlv⟩ := lookupLast_spec t.1 (runs.map (renderGrp 32))
          ⟨renderGrp 32 (t :: r), List.mem_map.mpr ⟨t :: r, hrun, rfl⟩, hk⟩
        obtain ⟨run2, hrun2, rfl⟩ := List.mem_map.mp hu
        obtain ⟨⟨r2ne, r2pl⟩, r2tail⟩ := hruns run2 hrun2
        cases run2 with
        | nil => exact absurd rfl r2ne
        | cons t2 r2 =>
          have ht2 := r2pl t2 (by simp)
          have hr2 : ∀ u ∈ r2, PlainTok u := fun u hu => r2pl u (by simp [hu])
          rw [hlv, valOf_grp 32 t2 r2 ht2]
          have htrim := trim_valStr32 t2 r2 ht2 hr2
          -- what is left of the value text after TrimSpace: free of `;`, pieces among those of the text
          have h59 : 59 ∉ trim (valStr 32 t2 r2) := by
            rw [htrim]; split
            · exact renderGrp_nomem 32 59 r2 hr2 (by decide) (by decide) (by decide)
            · exact valStr32_no59 t2 r2 ht2 hr2
          have hpieces : ∀ p ∈ splitOn 32 (trim (valStr 32 t2 r2)), p ∈ t2.2 :: r2.map render := by
            rw [htrim]; split
            · rename_i hc
              have : splitOn 32 (renderGrp 32 r2) = r2.map render := by
                apply splitOn_joinOn 32 _ (by simpa using hc.2)
                intro x hx
                obtain ⟨u, hu, rfl⟩ := List.mem_map.mp hx
                exact render_nomem u (hr2 u hu) 32 (by decide) (by decide)
              rw [this]; intro p hp; exact List.mem_cons_of_mem _ hp
            · rw [splitOn32_valStr t2 r2 ht2 hr2]; intro p hp; exact hp
          constructor
          · simp only [List.mem_append, List.mem_cons, not_or]
            exact ⟨plain_no _ ht.1 59 (by decide), by decide, h59⟩
          · have h32 : 32 ∉ t.1 ++ [61] := by
              simp only [List.mem_append, List.mem_singleton, not_or]
              exact ⟨plain_no _ ht.1 32 (by decide), by decide⟩
            have e : t.1 ++ 61 :: trim (valStr 32 t2 r2) = (t.1 ++ [61]) ++ trim (valStr 32 t2 r2) := by simp
            rw [e, splitOn_append_nosep 32 _ _ h32]
            intro p hp
            cases hsp : splitOn 32 (trim (valStr 32 t2 r2)) with
            | nil => exact absurd hsp (splitOn_ne_nil _ _)
            | cons h tl =>
              rw [hsp] at hp
              simp only [consHead, List.mem_cons] at hp
              rcases hp with rfl | hp
              · -- the first piece keeps the run's own key, which is not `password`
                unfold leakOK
                intro hkp
                have : keyOf (t.1 ++ [61] ++ h) = t.1 := by
                  unfold keyOf
                  have e2 : t.1 ++ [61] ++ h = t.1 ++ 61 :: h := by simp
                  rw [e2, toPair_kv _ _ (plain_no _ ht.1 61 (by decide))]
                  exact trim_plain ht.1
                rw [this] at hkp; exact absurd hkp hpw
              · -- the other pieces are pieces of the value text of `run2`
                have hp2 : p ∈ splitOn 32 (trim (valStr 32 t2 r2)) := by rw [hsp]; simp [hp]
                have hp3 := hpieces p hp2
                rcases List.mem_cons.mp hp3 with rfl | hp3
                · unfold leakOK keyOf
                  rw [toPair_noEq _ (plain_no _ ht2.2 61 (by decide))]
                  intro hkp; exact absurd hkp.symm kw_ne_nil
                · obtain ⟨u, hu, rfl⟩ := List.mem_map.mp hp3
                  exact leakOK_render u (hr2 u hu) (r2tail u (by simpa using hu))

theorem leakFree_iff (s : Bytes) : leakFree s ↔ ∀ t ∈ tokens2 s, leakOK t := Iff.rfl

theorem pass2 (s1 : Bytes) (runs : List (List Tok)) (hne : runs ≠ [])
    (hruns : ∀ run ∈ runs, GoodRun run) (hs : splitOn 59 s1 = runs.map (renderGrp 32)) :
    leakFree (maskPass 59 kwPassword kwHash s1) := by
  rw [leakFree_iff, maskPass_eq, hs, List.map_map]
  unfold tokens2
  have hfree : ∀ x ∈ runs.map (rebuild kwPassword kwHash (runs.map (renderGrp 32)) ∘ renderGrp 32), 59 ∉ x := by
    intro x hx
    obtain ⟨run, hrun, rfl⟩ := List.mem_map.mp hx
    exact (pass2_run runs hruns run hrun).1
  rw [splitOn_joinOn 59 _ (by simpa using hne) hfree]
  intro p hp
  obtain ⟨x, hx, hpx⟩ := List.mem_flatMap.mp hp
  obtain ⟨run, hrun, rfl⟩ := List.mem_map.mp hx
  exact (pass2_run runs hruns run hrun).2 p hpx

/-! ### both passes -/

theorem maskDbc_groups (gs : List (List Tok)) (hne : gs ≠ []) (hg : ∀ g ∈ gs, GoodGrp g) :
    leakFree (maskDbc (renderAll 32 59 gs)) := by
  unfold maskDbc
  split
  · rename_i he
    have : renderAll 32 59 gs = [] := by simpa using he
    rw [this]
    intro t ht
    have : t = [] := by simpa [tokens2, splitOn] using ht
    subst this
    intro hk
    have : keyOf [] = [] := by decide
    rw [this] at hk; exact absurd hk.symm kw_ne_nil
  · obtain ⟨gs', hne', hg', he⟩ := pass1 gs hne hg
    rw [he]
    obtain ⟨H, tl, hs, hH, hHok, htl⟩ := regroup gs' hne' hg'
    apply pass2 _ (H :: tl) (by simp)
    · intro run hrun
      rcases List.mem_cons.mp hrun with rfl | hrun
      · exact ⟨hH, fun t ht => hHok t (List.mem_of_mem_tail ht)⟩
      · exact htl run hrun
    · simpa using hs

/-! ### every mixed-separator string of the grammar has a grouped presentation -/

/-- first token, then (separator, token) pairs -/
def renderFlat (t : Tok) : List (Nat × Tok) → Bytes
  | [] => render t
  | (c, u) :: rest => render t ++ c :: renderFlat u rest

theorem flat_groups (t : Tok) (rest : List (Nat × Tok)) (ht : PlainTok t)
    (hrest : ∀ cu ∈ rest, (cu.1 = 32 ∨ cu.1 = 59) ∧ PlainTok cu.2) :
    ∃ (g : List Tok) (gs : List (List Tok)), (∀ x ∈ (t :: g) :: gs, GoodGrp x) ∧
      renderFlat t rest = renderAll 32 59 ((t :: g) :: gs) := by
  induction rest generalizing t with
  | nil =>
    refine ⟨[], [], ?_, by simp [renderFlat, renderAll, renderGrp, joinOn]⟩
    intro x hx; simp at hx; subst hx
    exact ⟨by simp, by intro u hu; simp at hu; subst hu; exact ht⟩
  | cons cu rest ih =>
    obtain ⟨hc, hu⟩ := hrest cu (by simp)
    obtain ⟨g, gs, hgood, he⟩ := ih cu.2 hu (fun x hx => hrest x (by simp [hx]))
    simp only [renderFlat]
    rcases hc with hc | hc
    · -- a blank: the token starts a new group
      refine ⟨[], (cu.2 :: g) :: gs, ?_, ?_⟩
      · intro x hx
        rcases List.mem_cons.mp hx with rfl | hx
        · exact ⟨by simp, by intro u hu'; simp at hu'; subst hu'; exact ht⟩
        · exact hgood x hx
      · rw [he, hc]; simp [renderAll, renderGrp, joinOn]
    · -- a semicolon: the token joins the group of its successor
      refine ⟨cu.2 :: g, gs, ?_, ?_⟩
      · intro x hx
        rcases List.mem_cons.mp hx with rfl | hx
        · refine ⟨by simp, ?_⟩
          intro u hu'
          rcases List.mem_cons.mp hu' with rfl | hu'
          · exact ht
          · exact (hgood (cu.2 :: g) (by simp)).2 u hu'
        · exact hgood x (by simp [hx])
      · rw [he, hc]
        cases gs with
        | nil => simp [renderAll, renderGrp, joinOn]
        | cons g2 gs2 => simp [renderAll, renderGrp, joinOn]

/-- **masking**: for every connection string built from plain `key=value` tokens separated by
    blanks or semicolons, and every version of a family that masks (Go, PHP), no token of the
    result has the key `password` with a value other than `#` -/
theorem mask_password (ver : Int) (t : Tok) (rest : List (Nat × Tok)) (ht : PlainTok t)
    (hrest : ∀ cu ∈ rest, (cu.1 = 32 ∨ cu.1 = 59) ∧ PlainTok cu.2) (hv : masksAt ver = true) :
    leakFree (processDbc ver (renderFlat t rest)) := by
  unfold processDbc
  rw [hv]; simp only [if_true]
  obtain ⟨g, gs, hgood, he⟩ := flat_groups t rest ht hrest
  rw [he]
  exact maskDbc_groups _ (by simp) hgood

end Udp
