/-
  Golib.Udp.GoIR — a small interpreted IR for the string-handling Go functions tied by C07
  (util/paramtext/ParamKV.go; stringutil.Truncate / ParseInt32 / ParseInt64 / ParseStringZeroToEmpty).

  `xlate/c07` transcribes those function bodies *syntactically* into this IR (expressions,
  assignments, if / else, `for … range`, the counting `for`, return); the IR has a semantics in
  Lean (structural on the syntax; library calls are the byte-list functions of Golib.Udp.ParamKV /
  NumText), and Golib/Props/C07Gen.lean proves that the transcribed functions compute the
  hand-written CodeModel *for all inputs*.  An edit of the Go source changes the transcription and
  the proof no longer applies.

  Variables and receiver fields are numbered by the translator (a table is emitted as a comment).
-/
import Golib.Udp.ParamKV
import Golib.Udp.NumText
import Golib.Udp.Process

namespace Udp.Go
open Prim

inductive V where
  | str (b : Bytes)
  | int (n : Int)
  | bool (b : Bool)
  | strs (l : List Bytes)
  | map (m : List (Bytes × Bytes))
  | nil
  | pair (a b : V)
  | ints (l : List Int)
deriving Repr, Inhabited, DecidableEq

/-- library functions and conversions -/
inductive BI where
  | len | split | trimSpace | equalFold | toLower | index | makeMap | newObj
  | parseInt | sprintfD | toInt32 | toInt64 | bufString | mapGet | mapHas
  | makeStrs | itoa | toInt | join | mkKV
deriving DecidableEq, Repr

inductive Op where
  | add | sub | eq | ne | lt | le | and | or
deriving DecidableEq, Repr

mutual
inductive E where
  | var (i : Nat)
  | fld (i : Nat)
  | str (b : Bytes)
  | int (n : Int)
  | nil
  | bi (f : BI) (args : Es)
  | call (f : Nat) (args : Es)
  | slice (e lo hi : E)          -- e[lo:hi]
  | sliceFrom (e lo : E)         -- e[lo:]
  | bin (op : Op) (a b : E)
inductive Es where
  | nil
  | cons (e : E) (r : Es)
end

inductive L where
  | var (i : Nat) | fld (i : Nat) | blank

mutual
inductive S where
  | assign (l : L) (e : E)
  | assign2 (l1 l2 : L) (e : E)                       -- k, v := f(…) / r, err := ParseInt(…) / _, ok := m[k]
  | mapSet (m : L) (k v : E)                          -- m[k] = v
  | bufWrite (b : Nat) (e : E)                        -- b.WriteString(e)
  | idxSet (l : L) (i e : E)                          -- l[i] = e   (a []string)
  | forRangeI (iv vv : L) (e : E) (body : Ss)         -- for i, v := range e   (e an integer slice)
  | ifS (c : E) (t e : Ss)
  | forRange (iv vv : L) (e : E) (body : Ss)          -- for i, v := range e
  | forCount (i : Nat) (init cond bound : E) (body : Ss)   -- for i := init; cond; i++   (at most bound+1 rounds)
  | ret (e : E)
  | ret2 (a b : E)
  | unknown
inductive Ss where
  | nil
  | cons (s : S) (r : Ss)
end

/-- a function: number of parameters (variables 0 … n-1) and body -/
structure Fn where
  params : Nat
  body : Ss

abbrev Store := Nat → V
def upd (s : Store) (i : Nat) (v : V) : Store := fun j => if j = i then v else s j

@[simp] theorem upd_same (s : Store) (i : Nat) (v : V) : upd s i v i = v := by simp [upd]
theorem upd_other (s : Store) (i j : Nat) (v : V) (h : j ≠ i) : upd s i v j = s j := by simp [upd, h]

/-- semantics of already interpreted functions: arguments, receiver fields ↦ result -/
abbrev FEnv := Nat → List V → Store → Option V

/-! ### library semantics -/

/-- ASCII case folding -/
def foldByte (b : Nat) : Nat := if 65 ≤ b ∧ b ≤ 90 then b + 32 else b

/-- `strings.EqualFold` on ASCII text (exact whenever one side has no letter outside ASCII) -/
def equalFoldA (a b : Bytes) : Bool := a.map foldByte == b.map foldByte

/-- `strings.Index(s, sep)`; -1 when absent -/
def indexOf (sep : Bytes) : Bytes → Nat → Int
  | [], k => if sep.isEmpty then k else -1
  | x :: xs, k => if sep.isPrefixOf (x :: xs) then k else indexOf sep xs (k + 1)

def mapPutV (m : List (Bytes × Bytes)) (k v : Bytes) : List (Bytes × Bytes) :=
  if m.any (fun e => e.1 == k) then m.map (fun e => if e.1 == k then (k, v) else e) else m ++ [(k, v)]

def mapGetV (m : List (Bytes × Bytes)) (k : Bytes) : Bytes :=
  match m.find? (fun e => e.1 == k) with
  | some e => e.2
  | none => []

def biApply : BI → List V → Option V
  | .len, [.str b] => some (.int b.length)
  | .len, [.strs l] => some (.int l.length)
  | .len, [.ints l] => some (.int l.length)
  | .makeStrs, [.int n] => if 0 ≤ n then some (.strs (List.replicate n.toNat [])) else none
  | .itoa, [.int v] => some (.str (showInt v))
  | .toInt, [.int v] => some (.int v)
  | .join, [.strs l, .str [c]] => some (.str (joinOn c l))
  | .mkKV, [a, b, c] => some (.pair a (.pair b c))     -- the arguments of NewParamKVSeperate, kept for ToStringStr
  | .split, [.str s, .str [c]] => some (.strs (splitOn c s))
  | .trimSpace, [.str s] => some (.str (trim s))
  | .equalFold, [.str a, .str b] => some (.bool (equalFoldA a b))
  | .toLower, [.str a] => some (.str (a.map foldByte))
  | .index, [.str s, .str sep] => some (.int (indexOf sep s 0))
  | .makeMap, [] => some (.map [])
  | .newObj, [] => some .nil
  | .parseInt, [.str s, .int 10, .int bits] =>
      let r := parseIntGo (bits / 8).toNat s
      some (.pair (.int r.1) (if r.2 then .nil else .bool false))   -- (value, err): err is nil or an error object
  | .sprintfD, [.int v] => some (.str (showInt v))
  | .toInt32, [.int v] => some (.int (wrapI 4 v))
  | .toInt64, [.int v] => some (.int (wrapI 8 v))
  | .bufString, [.str b] => some (.str b)
  | .mapGet, [.map m, .str k] => some (.str (mapGetV m k))
  | .mapHas, [.map m, .str k] => some (.pair (.str (mapGetV m k)) (.bool (m.any fun e => e.1 == k)))
  | _, _ => none

def vEq : V → V → Option Bool
  | .str a, .str b => some (a == b)
  | .int a, .int b => some (a == b)
  | .bool a, .bool b => some (a == b)
  | .nil, .nil => some true
  | .strs _, .nil => some false      -- a slice produced by Split is never nil
  | .nil, .strs _ => some false
  | .map _, .nil => some false
  | .bool _, .nil => some false      -- an error object is not nil
  | .nil, .bool _ => some false
  | _, _ => none

def binApply : Op → V → V → Option V
  | .add, .int a, .int b => some (.int (a + b))
  | .add, .str a, .str b => some (.str (a ++ b))
  | .sub, .int a, .int b => some (.int (a - b))
  | .lt, .int a, .int b => some (.bool (decide (a < b)))
  | .le, .int a, .int b => some (.bool (decide (a ≤ b)))
  | .and, .bool a, .bool b => some (.bool (a && b))
  | .or, .bool a, .bool b => some (.bool (a || b))
  | .eq, a, b => (vEq a b).map .bool
  | .ne, a, b => (vEq a b).map (fun r => .bool (!r))
  | _, _, _ => none

/-- `s[lo:hi]`; out-of-range bounds panic -/
def sliceV (s : Bytes) (lo hi : Int) : Option V :=
  if 0 ≤ lo ∧ lo ≤ hi ∧ hi ≤ s.length then some (.str ((s.drop lo.toNat).take (hi.toNat - lo.toNat))) else none

/-! ### expressions -/

mutual
def evalE (fe : FEnv) (loc fld : Store) : E → Option V
  | .var i => some (loc i)
  | .fld i => some (fld i)
  | .str b => some (.str b)
  | .int n => some (.int n)
  | .nil => some .nil
  | .bi f args =>
    match evalEs fe loc fld args with
    | some vs => biApply f vs
    | none => none
  | .call f args =>
    match evalEs fe loc fld args with
    | some vs => fe f vs fld
    | none => none
  | .slice e lo hi =>
    match evalE fe loc fld e, evalE fe loc fld lo, evalE fe loc fld hi with
    | some (.str s), some (.int a), some (.int b) => sliceV s a b
    | _, _, _ => none
  | .sliceFrom e lo =>
    match evalE fe loc fld e, evalE fe loc fld lo with
    | some (.str s), some (.int a) => sliceV s a s.length
    | _, _ => none
  | .bin op a b =>
    match evalE fe loc fld a, evalE fe loc fld b with
    | some x, some y => binApply op x y
    | _, _ => none
def evalEs (fe : FEnv) (loc fld : Store) : Es → Option (List V)
  | .nil => some []
  | .cons e r =>
    match evalE fe loc fld e, evalEs fe loc fld r with
    | some v, some vs => some (v :: vs)
    | _, _ => none
end

/-! ### statements -/

structure St where
  loc : Store
  fld : Store

inductive R where
  | norm (st : St)
  | ret (v : V) (fld : Store)
  | fail

def setL (l : L) (v : V) (st : St) : St :=
  match l with
  | .var i => { st with loc := upd st.loc i v }
  | .fld i => { st with fld := upd st.fld i v }
  | .blank => st

def getL (l : L) (st : St) : V :=
  match l with
  | .var i => st.loc i
  | .fld i => st.fld i
  | .blank => .nil

/-- `for i, v := range xs` with early exit -/
def loopRange (body : Nat → Bytes → St → R) : List Bytes → Nat → St → R
  | [], _, st => .norm st
  | x :: xs, k, st =>
    match body k x st with
    | .norm st' => loopRange body xs (k + 1) st'
    | r => r

/-- the same over an integer slice -/
def loopRangeI (body : Nat → Int → St → R) : List Int → Nat → St → R
  | [], _, st => .norm st
  | x :: xs, k, st =>
    match body k x st with
    | .norm st' => loopRangeI body xs (k + 1) st'
    | r => r

/-- `for i := …; cond; i++` with early exit; `fuel` rounds at most -/
def loopCount (i : Nat) (cond : St → Option Bool) (body : St → R) : Nat → St → R
  | 0, _ => .fail
  | fuel + 1, st =>
    match cond st with
    | some true =>
      match body st with
      | .norm st' =>
        match st'.loc i with
        | .int k => loopCount i cond body fuel { st' with loc := upd st'.loc i (.int (k + 1)) }
        | _ => .fail
      | r => r
    | some false => .norm st
    | none => .fail

mutual
def execS (fe : FEnv) : S → St → R
  | .assign l e, st =>
    match evalE fe st.loc st.fld e with
    | some v => .norm (setL l v st)
    | none => .fail
  | .assign2 l1 l2 e, st =>
    match evalE fe st.loc st.fld e with
    | some (.pair a b) => .norm (setL l2 b (setL l1 a st))
    | _ => .fail
  | .mapSet m k v, st =>
    match getL m st, evalE fe st.loc st.fld k, evalE fe st.loc st.fld v with
    | .map mm, some (.str kk), some (.str vv) => .norm (setL m (.map (mapPutV mm kk vv)) st)
    | _, _, _ => .fail
  | .bufWrite b e, st =>
    match st.loc b, evalE fe st.loc st.fld e with
    | .str cur, some (.str x) => .norm { st with loc := upd st.loc b (.str (cur ++ x)) }
    | _, _ => .fail
  | .idxSet l i e, st =>
    match getL l st, evalE fe st.loc st.fld i, evalE fe st.loc st.fld e with
    | .strs xs, some (.int k), some (.str v) =>
      if 0 ≤ k ∧ k < xs.length then .norm (setL l (.strs (xs.set k.toNat v)) st) else .fail
    | _, _, _ => .fail
  | .forRangeI iv vv e body, st =>
    match evalE fe st.loc st.fld e with
    | some (.ints xs) =>
      loopRangeI (fun k x s => execSs fe body (setL vv (.int x) (setL iv (.int k) s))) xs 0 st
    | _ => .fail
  | .ifS c t e, st =>
    match evalE fe st.loc st.fld c with
    | some (.bool true) => execSs fe t st
    | some (.bool false) => execSs fe e st
    | _ => .fail
  | .forRange iv vv e body, st =>
    match evalE fe st.loc st.fld e with
    | some (.strs xs) =>
      loopRange (fun k x s => execSs fe body (setL vv (.str x) (setL iv (.int k) s))) xs 0 st
    | _ => .fail
  | .forCount i init cond bound body, st =>
    match evalE fe st.loc st.fld init, evalE fe st.loc st.fld bound with
    | some (.int a), some (.int b) =>
      loopCount i (fun s => match evalE fe s.loc s.fld cond with | some (.bool c) => some c | _ => none)
        (fun s => execSs fe body s) (b.toNat + 2) { st with loc := upd st.loc i (.int a) }
    | _, _ => .fail
  | .ret e, st =>
    match evalE fe st.loc st.fld e with
    | some v => .ret v st.fld
    | none => .fail
  | .ret2 a b, st =>
    match evalE fe st.loc st.fld a, evalE fe st.loc st.fld b with
    | some x, some y => .ret (.pair x y) st.fld
    | _, _ => .fail
  | .unknown, _ => .fail
def execSs (fe : FEnv) : Ss → St → R
  | .nil, st => .norm st
  | .cons s r, st =>
    match execS fe s st with
    | .norm st' => execSs fe r st'
    | res => res
end

/-! ### named unfolding lemmas

The proofs about transcribed functions (Golib/Props/C07Go.lean) unfold the interpreter with these
lemmas; loops stay folded (`condFn`, `bodyFn`, `rangeFn`) until they are applied to a concrete state. -/

def condFn (fe : FEnv) (cond : E) : St → Option Bool :=
  fun s => match evalE fe s.loc s.fld cond with | some (.bool c) => some c | _ => none
def bodyFn (fe : FEnv) (body : Ss) : St → R := fun s => execSs fe body s
def rangeFn (fe : FEnv) (iv vv : L) (body : Ss) : Nat → Bytes → St → R :=
  fun k x s => execSs fe body (setL vv (.str x) (setL iv (.int k) s))

theorem execS_assign (fe : FEnv) (l : L) (e : E) (st : St) :
    execS fe (.assign l e) st = match evalE fe st.loc st.fld e with
      | some v => .norm (setL l v st) | none => .fail := by simp only [execS]
theorem execS_assign2 (fe : FEnv) (l1 l2 : L) (e : E) (st : St) :
    execS fe (.assign2 l1 l2 e) st = match evalE fe st.loc st.fld e with
      | some (.pair a b) => .norm (setL l2 b (setL l1 a st)) | _ => .fail := by simp only [execS]
theorem execS_mapSet (fe : FEnv) (m : L) (k v : E) (st : St) :
    execS fe (.mapSet m k v) st = match getL m st, evalE fe st.loc st.fld k, evalE fe st.loc st.fld v with
      | .map mm, some (.str kk), some (.str vv) => .norm (setL m (.map (mapPutV mm kk vv)) st)
      | _, _, _ => .fail := by simp only [execS]
theorem execS_bufWrite (fe : FEnv) (b : Nat) (e : E) (st : St) :
    execS fe (.bufWrite b e) st = match st.loc b, evalE fe st.loc st.fld e with
      | .str cur, some (.str x) => .norm { st with loc := upd st.loc b (.str (cur ++ x)) }
      | _, _ => .fail := by simp only [execS]
theorem execS_if (fe : FEnv) (c : E) (t e : Ss) (st : St) :
    execS fe (.ifS c t e) st = match evalE fe st.loc st.fld c with
      | some (.bool true) => execSs fe t st
      | some (.bool false) => execSs fe e st
      | _ => .fail := by simp only [execS]
theorem execS_forRange (fe : FEnv) (iv vv : L) (e : E) (body : Ss) (st : St) :
    execS fe (.forRange iv vv e body) st = match evalE fe st.loc st.fld e with
      | some (.strs xs) => loopRange (rangeFn fe iv vv body) xs 0 st
      | _ => .fail := by simp only [execS]; rfl
theorem execS_forCount (fe : FEnv) (i : Nat) (init cond bound : E) (body : Ss) (st : St) :
    execS fe (.forCount i init cond bound body) st =
      match evalE fe st.loc st.fld init, evalE fe st.loc st.fld bound with
      | some (.int a), some (.int b) =>
        loopCount i (condFn fe cond) (bodyFn fe body) (b.toNat + 2) { st with loc := upd st.loc i (.int a) }
      | _, _ => .fail := by simp only [execS]; rfl
def rangeFnI (fe : FEnv) (iv vv : L) (body : Ss) : Nat → Int → St → R :=
  fun k x s => execSs fe body (setL vv (.int x) (setL iv (.int k) s))
theorem execS_idxSet (fe : FEnv) (l : L) (i e : E) (st : St) :
    execS fe (.idxSet l i e) st = match getL l st, evalE fe st.loc st.fld i, evalE fe st.loc st.fld e with
      | .strs xs, some (.int k), some (.str v) =>
        if 0 ≤ k ∧ k < xs.length then .norm (setL l (.strs (xs.set k.toNat v)) st) else .fail
      | _, _, _ => .fail := by simp only [execS]
theorem execS_forRangeI (fe : FEnv) (iv vv : L) (e : E) (body : Ss) (st : St) :
    execS fe (.forRangeI iv vv e body) st = match evalE fe st.loc st.fld e with
      | some (.ints xs) => loopRangeI (rangeFnI fe iv vv body) xs 0 st
      | _ => .fail := by simp only [execS]; rfl
theorem execS_ret (fe : FEnv) (e : E) (st : St) :
    execS fe (.ret e) st = match evalE fe st.loc st.fld e with
      | some v => .ret v st.fld | none => .fail := by simp only [execS]
theorem execS_ret2 (fe : FEnv) (a b : E) (st : St) :
    execS fe (.ret2 a b) st = match evalE fe st.loc st.fld a, evalE fe st.loc st.fld b with
      | some x, some y => .ret (.pair x y) st.fld | _, _ => .fail := by simp only [execS]
theorem execSs_nil (fe : FEnv) (st : St) : execSs fe .nil st = .norm st := by simp only [execSs]
theorem execSs_cons (fe : FEnv) (s : S) (r : Ss) (st : St) :
    execSs fe (.cons s r) st = match execS fe s st with
      | .norm st' => execSs fe r st' | res => res := by simp only [execSs]

/-- parameters are the first locals; the other locals start as the empty string (Go zero value
    of the named results and of `var buffer bytes.Buffer`) -/
def initLoc : List V → Store
  | [] => fun _ => .str []
  | v :: vs => fun j => if j = 0 then v else initLoc vs (j - 1)

/-- run a function: result value and receiver fields after the call -/
def runFn (fe : FEnv) (f : Fn) (args : List V) (fld : Store) : Option (V × Store) :=
  if args.length = f.params then
    match execSs fe f.body { loc := initLoc args, fld := fld } with
    | .ret v fld' => some (v, fld')
    | .norm st => some (.nil, st.fld)
    | .fail => none
  else none

/-- the function environment of a program whose functions only call functions listed before them -/
def mkFEnv : List Fn → FEnv
  | [] => fun _ _ _ => none
  | f :: fs => fun i args fld =>
    if i = fs.length then (runFn (mkFEnv fs) f args fld).map (·.1) else mkFEnv fs i args fld

end Udp.Go
