/-
  Golib.Udp.ApiThm — theorems about the functions of Golib.Udp.Api.
-/
import Golib.Udp.Api
import Golib.Udp.MaskExact
import Golib.Udp.ProcessThm
import Golib.Udp.Restore

namespace Udp
open Layout Prim

/-! ### streams of packs -/

/-- **any sequence of packs** (any types, any versions, any receiving packs) written one after the
    other is read back one after the other: each reader consumes exactly its own pack's bytes, the
    packs come out as `post`, and what follows the last pack is left untouched -/
theorem stream_roundtrip (items : List (PackT × Int × Rec × Rec)) (rest : Bytes)
    (h : ∀ i ∈ items, WF i.1.layout i.2.1 i.2.2.1 i.2.2.2) :
    P.run (readStream (items.map fun i => (i.1, i.2.1, i.2.2.2)))
        (writeStream (items.map fun i => (i.1, i.2.1, i.2.2.1)) ++ rest)
      = some (items.map fun i => post i.1.layout i.2.1 i.2.2.1 i.2.2.2, rest) := by
  induction items with
  | nil => simp [readStream, writeStream]
  | cons i r ih =>
    obtain ⟨t, ver, x, st⟩ := i
    have h1 := h (t, ver, x, st) (by simp)
    simp only [List.map_cons, readStream, writeStream, List.append_assoc]
    rw [P.run_bind_some _ _ _ _ _ (Layout.roundtrip t.layout ver x st _ h1)]
    rw [P.run_bind_some _ _ _ _ _ (ih (fun j hj => h j (by simp [hj])))]
    rfl

/-! ### ParamKV.GetValue / ExistsKey -/

theorem any_render (key : Bytes) (l : List Tok) (hl : ∀ u ∈ l, PlainTok u) :
    (l.map render).any (fun t => keyOf t == key) = l.any (fun u => u.1 == key) := by
  induction l with
  | nil => rfl
  | cons u r ih =>
    simp only [List.map_cons, List.any_cons, keyOf_render u (hl u (by simp)),
      ih (fun v hv => hl v (by simp [hv]))]

/-- on `c`-joined plain tokens `ExistsKey(key)` says whether a token has that key and `GetValue(key)`
    is the value of the last such token (`""` without one) -/
theorem getValue_plain (c : Nat) (hc : c = 32 ∨ c = 59) (key : Bytes) (toks : List Tok) (hne : toks ≠ [])
    (h : ∀ u ∈ toks, PlainTok u) (hk : key ≠ []) :
    existsKey c key (renderGrp c toks) = toks.any (fun u => u.1 == key) ∧
    getValue c key (renderGrp c toks) = lastValOf key toks := by
  have hsep : sepByte c = true ∧ c ≠ 61 := by rcases hc with rfl | rfl <;> decide
  have hsplit : splitOn c (renderGrp c toks) = toks.map render := by
    unfold renderGrp
    apply splitOn_joinOn c _ (by simpa using hne)
    intro x hx
    obtain ⟨t, ht, rfl⟩ := List.mem_map.mp hx
    exact render_nomem t (h t ht) c hsep.1 hsep.2
  have hne0 : key.isEmpty = false := by simpa using hk
  have hex : existsKey c key (renderGrp c toks) = toks.any (fun u => u.1 == key) := by
    unfold existsKey
    rw [hsplit, hne0, any_render key toks h]; rfl
  refine ⟨hex, ?_⟩
  unfold getValue
  rw [hex, hsplit]
  cases ha : toks.any (fun u => u.1 == key)
  · simp only [Bool.false_eq_true, if_false]
    rcases lastValOf_spec key toks with ⟨u, hu, huk, _⟩ | ⟨_, he⟩
    · have : toks.any (fun u => u.1 == key) = true := List.any_eq_true.mpr ⟨u, hu, by simp [huk]⟩
      rw [ha] at this; cases this
    · exact he.symm
  · simp only [if_true]
    exact lookupLast_render key toks h

/-! ### the setters whose value travels as text and comes back through Process() -/

/-- `SetMcallerUrlHash(v)` then `Process()`: the hash is `v` again wherever the code parses it
    (the text `McallerUrl` is what the wire carries: `udp_restores`) -/
theorem setCallerHash_process (ver : Int) (st : Rec) (v : Int) (hv : inRange 4 v) (ha : endHashActive ver = true) :
    ∃ st', UdpTxEndPack.process ver (setMcallerUrlHash v st) = some st' ∧ st' "McallerUrlHash" = .int v :=
  process_caller_hash ver _ v hv ha (by simp [setMcallerUrlHash, Rec.set])

end Udp
