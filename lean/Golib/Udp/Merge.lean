/-
  Golib.Udp.Merge — the merged layout of a pack type computed from the two transcriptions.

  `merge w r` walks the writer's view of the transcribed `Write` and the reader's view of the
  transcribed `Read` side by side and builds the layout that has the writer's caps and
  pre-assignments and the reader's constant assignments and length fields — or fails where the two
  do not fit (a field, a width, a gate, a conversion that differs).  It is only a *witness finder*:
  `agreeM` re-checks the result with `agree`, so nothing has to be proved about `merge`, and
  `merged_roundtrip` gives the round trip of the transcribed code for every version without any
  hand-written layout.
-/
import Golib.Udp.Layout

namespace Udp
namespace Layout

def size : Layout → Nat
  | .nil => 1
  | .fld _ _ _ rest => 1 + size rest
  | .ite _ t e rest => 1 + size t + size e + size rest
  | .setC _ _ rest => 1 + size rest
  | .setJoin _ _ rest => 1 + size rest
  | .rawLen _ _ rest => 1 + size rest
  | .unknown _ => 1

/-- `fuel` bounds the number of steps (`size w + size r` suffices) -/
def mergeF : Nat → Layout → Layout → Option Layout
  | 0, _, _ => none
  | n + 1, w, r =>
    match r with
    | .setC nm v r' => (mergeF n w r').map (.setC nm v ·)
    | _ =>
      match w with
      | .setJoin nm src w' => (mergeF n w' r).map (.setJoin nm src ·)
      | .nil => match r with | .nil => some .nil | _ => none
      | .fld nm p c w' =>
        match r with
        | .fld nm' p' c' r' =>
          if nm = nm' ∧ p = p' ∧ rconv c = c' then (mergeF n w' r').map (.fld nm p c ·) else none
        | _ => none
      | .ite c t e w' =>
        match r with
        | .ite c' t' e' r' =>
          if c = c' then
            match mergeF n t t', mergeF n e e', mergeF n w' r' with
            | some mt, some me, some mr => some (.ite c mt me mr)
            | _, _, _ => none
          else none
        | _ => none
      | .rawLen nm _ w' =>
        match r with
        | .rawLen nm' ln r' => if nm = nm' then (mergeF n w' r').map (.rawLen nm ln ·) else none
        | _ => none
      | .setC _ _ _ => none
      | .unknown _ => none

def merge (w r : Layout) : Option Layout := mergeF (size (wv w) + size (rv r) + 1) (wv w) (rv r)

/-- the transcribed writer and reader fit together: a merged layout exists and passes `agree` -/
def agreeM (w r : Layout) : Bool :=
  match merge w r with
  | some m => agree w r m
  | none => false

/-- **round trip of the transcribed code**, no hand-written layout involved: if `agreeM w r` then
    there is a layout `m` (the one `merge` found) such that for every version, every pack `x`
    well-formed for `m`, every receiving pack and every rest, the transcribed reader run on the
    transcribed writer's bytes consumes exactly those bytes and leaves `post m ver x st` -/
theorem merged_roundtrip (w r : Layout) (h : agreeM w r = true) :
    ∃ m, merge w r = some m ∧ ∀ (ver : Int) (x st : Rec) (rest : Bytes), WF m ver x st →
      P.run (read r ver st) (write w ver x ++ rest) = some (post m ver x st, rest) := by
  unfold agreeM at h
  cases hm : merge w r with
  | none => rw [hm] at h; cases h
  | some m =>
    rw [hm] at h
    exact ⟨m, rfl, fun ver x st rest hwf => agree_roundtrip w r m h ver x st rest hwf⟩

end Layout
end Udp
