/-
  Golib.Logger.Read — `FileLogger.Read(file, endpos, length)` over an abstract directory.

  The directory under `<home>/logs` is a list of (relative path, entry); an entry is a regular
  file with its bytes or a directory with the size `Stat` reports for it.  The model is the
  repaired code (proposed/C17/fix-D34.diff): names that escape `<home>/logs` and non-positive
  lengths are refused before anything is opened.
-/
import Golib.Logger.Path

namespace Logger

inductive Entry where
  | file (content : Bytes)
  | dir (size : Int)
deriving Repr, DecidableEq

structure LogData where
  before : Int
  next : Int
  text : Bytes
deriving Repr, DecidableEq

inductive ReadRes where
  /-- nil, nothing logged -/
  | nilQuiet
  /-- nil, `os.Open` failed: an `[Error] Read log file …` line is logged (rate limited) -/
  | nilOpenErr
  /-- nil, `ReadAt` failed (a directory): an `[Error] WA1000901 …` line is logged -/
  | nilReadErr
  | data (d : LogData)
deriving Repr, DecidableEq

/-- Go int64 wrap-around -/
def wrap64 (x : Int) : Int :=
  (x + 9223372036854775808) % 18446744073709551616 - 9223372036854775808

/-- the window: `none` when `endpos` lies behind the end of the file, else (start, readable) -/
def readWindow (size endpos length : Int) : Option (Int × Int) :=
  if size < endpos then none
  else
    let e := if endpos < 0 then size else endpos
    let start := max 0 (e - length)
    let avail := size - start
    some (start, min avail length)

/-- the `Next` field: `start+n+length`, or -1 when that lies behind the end (int64 arithmetic) -/
def nextPos (size start n length : Int) : Int :=
  if wrap64 (start + n + length) > size then -1 else wrap64 (start + n + length)

def readEntry (e : Entry) (endpos length : Int) : ReadRes :=
  match e with
  | .file c =>
    match readWindow c.length endpos length with
    | none => .nilQuiet
    | some (start, n) =>
      .data ⟨start, nextPos c.length start n length, (c.drop start.toNat).take n.toNat⟩
  | .dir sz =>
    match readWindow sz endpos length with
    | none => .nilQuiet
    | some (start, n) =>
      -- ReadAt with an empty buffer succeeds even on a directory
      if n = 0 then .data ⟨start, nextPos sz start 0 length, []⟩ else .nilReadErr

abbrev Snapshot := List (Bytes × Entry)

def lookupEntry (key : Bytes) : Snapshot → Option Entry
  | [] => none
  | (k, e) :: r => if k = key then some e else lookupEntry key r

/-- `Read` of the repaired code.  The snapshot lists what exists under `<home>/logs`, keyed by
    the '/'-joined relative path (the logs directory itself has the empty key). -/
def read (home file : Bytes) (snap : Snapshot) (endpos length : Int) : ReadRes :=
  if file = [] ∨ length ≤ 0 then .nilQuiet
  else
    match resolve home file with
    | none => .nilQuiet
    | some rel =>
      match lookupEntry (joinSlash rel) snap with
      | none => .nilOpenErr
      | some e => readEntry e endpos length

end Logger
