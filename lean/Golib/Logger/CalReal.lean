/-
  Golib.Logger.CalReal — the logger's calendar parameter instantiated with the CodeModel of
  util/dateutil that property C19 proves correct (Golib.Cal.Helper: the 2000–2099 day table,
  `yyyymmdd`, `getYmdTime`, `getDateUnit`).  The driver runs this instance.
-/
import Golib.Logger.Date
import Golib.Cal.Helper

namespace Logger

def charsToBytes (cs : List Char) : Bytes := cs.map Char.toNat
def bytesToChars (bs : Bytes) : List Char := bs.map Char.ofNat

/-- `dateutil.YYYYMMDD` of the first instant of day unit `u`, and
    `dateutil.GetDateUnit (dateutil.GetYmdTime s)`, as modelled (and proved) for C19 -/
def Cal.c19 : Cal where
  ymd u := charsToBytes ((_root_.Cal.yyyymmdd (_root_.Cal.BASE_TIME + u * 86400000)).getD [])
  unitOf d := (_root_.Cal.getYmdTime (bytesToChars d)).map _root_.Cal.getDateUnit

end Logger
