/-
  Golib.Logger.Retention — which files `clearOldLog` removes.

  Follows the code step by step: `strings.HasPrefix(name, logID+"-")`, `x = LastIndex(name, ".")`,
  `s = LastIndex(name, "-")`, skip when `s < 0 || s >= x-1`, `date = name[s+1:x]`,
  `len(date) == 8`, (repaired code, proposed/C17/fix-D44.diff: every byte of `date` is a digit),
  `fileUnit = GetDateUnit(GetYmdTime(date))` inside a recover, remove when
  `nowUnit - fileUnit > keepDays`.
-/
import Golib.Logger.Date

namespace Logger

/-- index of the last occurrence of `c`: one pass, `i` is the index of the head -/
def lastIdxAux (c : Nat) : Bytes → Nat → Option Nat → Option Nat
  | [], _, acc => acc
  | b :: r, i, acc => lastIdxAux c r (i + 1) (if b = c then some i else acc)

def lastIndexOf (c : Nat) (bs : Bytes) : Option Nat := lastIdxAux c bs 0 none

/-- the part of the name between the last '-' and the last '.' (at least one byte) -/
def datePart (name : Bytes) : Option Bytes :=
  match lastIndexOf cDot name with
  | none => none
  | some x =>
    match lastIndexOf cDash name with
    | none => none
    | some s => if s + 1 ≥ x then none else some ((name.drop (s + 1)).take (x - (s + 1)))

/-- the name passes every syntactic test of `clearOldLog` and `d` is its date part -/
def candidate (logID name : Bytes) : Option Bytes :=
  if (logID ++ [cDash]).isPrefixOf name then
    match datePart name with
    | some d => if d.length = 8 ∧ d.all isDigit = true then some d else none
    | none => none
  else none

inductive Verdict where
  | keep
  /-- the date lookup panicked (recovered): the file stays, a `WA10006` line is logged -/
  | panic
  | delete
deriving Repr, DecidableEq

def verdict (cal : Cal) (logID : Bytes) (keep nowUnit : Int) (name : Bytes) : Verdict :=
  match candidate logID name with
  | none => .keep
  | some d =>
    match cal.unitOf d with
    | none => .panic
    | some u => if nowUnit - u > keep then .delete else .keep

/-- is retention active at all -/
def retentionOn (rotation : Bool) (keep : Int) : Bool := rotation && decide (keep > 0)

def deleted (cal : Cal) (rotation : Bool) (logID : Bytes) (keep nowUnit : Int) (name : Bytes) : Bool :=
  retentionOn rotation keep && verdict cal logID keep nowUnit name == .delete

end Logger
