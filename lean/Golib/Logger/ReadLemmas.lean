/-
  Golib.Logger.ReadLemmas — containment and window arithmetic of `Read`.
-/
import Golib.Logger.Read

namespace Logger

/-- whatever `resolve` accepts is opened below `<home>/logs` -/
theorem resolve_contained {home file : Bytes} {rel : List Bytes} (h : resolve home file = some rel) :
    openedPath home file = logsDir home ++ rel := by
  unfold resolve at h
  simp only [] at h
  split at h
  · rename_i hp
    have hp' := List.isPrefixOf_iff_prefix.mp hp
    obtain ⟨t, ht⟩ := hp'
    injection h with h
    rw [← h, ← ht]
    simp
  · cases h

/-- a refused name is answered without looking at the directory -/
theorem read_refused {home file : Bytes} (snap : Snapshot) (endpos length : Int)
    (h : resolve home file = none) : read home file snap endpos length = .nilQuiet := by
  unfold read
  split
  · rfl
  · rw [h]

/-- data only ever comes from the entry stored under the resolved relative path -/
theorem read_data_source {home file : Bytes} {snap : Snapshot} {endpos length : Int} {d : LogData}
    (h : read home file snap endpos length = .data d) :
    0 < length ∧ ∃ rel e, resolve home file = some rel ∧
      openedPath home file = logsDir home ++ rel ∧
      lookupEntry (joinSlash rel) snap = some e ∧ readEntry e endpos length = .data d := by
  unfold read at h
  split at h
  · cases h
  · rename_i hc
    have hl : 0 < length := by
      have : ¬ length ≤ 0 := fun hh => hc (Or.inr hh)
      omega
    refine ⟨hl, ?_⟩
    cases hr : resolve home file with
    | none => rw [hr] at h; cases h
    | some rel =>
      rw [hr] at h
      simp only [] at h
      cases hk : lookupEntry (joinSlash rel) snap with
      | none => rw [hk] at h; cases h
      | some e =>
        rw [hk] at h
        exact ⟨rel, e, rfl, resolve_contained hr, hk, h⟩

theorem readWindow_some {size endpos length : Int} (h : endpos ≤ size) :
    readWindow size endpos length =
      some (max 0 ((if endpos < 0 then size else endpos) - length),
            min (size - max 0 ((if endpos < 0 then size else endpos) - length)) length) := by
  unfold readWindow
  have : ¬ size < endpos := by omega
  simp [this]

theorem readWindow_none {size endpos length : Int} (h : size < endpos) :
    readWindow size endpos length = none := by
  unfold readWindow
  simp [h]

/-- the window of a regular file: start, slice, bounds -/
theorem readEntry_file (c : Bytes) (endpos length : Int) (hl : 0 < length) (he : endpos ≤ c.length) :
    ∃ d, readEntry (.file c) endpos length = .data d ∧
      d.before = max 0 ((if endpos < 0 then (c.length : Int) else endpos) - length) ∧
      0 ≤ d.before ∧ d.before ≤ c.length ∧
      d.text = (c.drop d.before.toNat).take d.text.length ∧
      (d.text.length : Int) = min ((c.length : Int) - d.before) length ∧
      (d.text.length : Int) ≤ length ∧
      d.before + d.text.length ≤ c.length := by
  simp only [readEntry]
  rw [readWindow_some he]
  simp only []
  refine ⟨_, rfl, rfl, ?_⟩
  generalize hs : max 0 ((if endpos < 0 then (c.length : Int) else endpos) - length) = start
  have h0 : 0 ≤ start := by omega
  have h1 : start ≤ c.length := by
    split at hs <;> omega
  have hlen : ((List.take (min ((c.length : Int) - start) length).toNat (List.drop start.toNat c)).length : Int)
      = min ((c.length : Int) - start) length := by
    rw [List.length_take, List.length_drop]
    omega
  refine ⟨h0, h1, ?_, hlen, ?_, ?_⟩
  · dsimp only
    rw [List.length_take, List.length_drop]
    rw [List.take_eq_take_iff]
    omega
  · dsimp only
    omega
  · dsimp only
    omega

/-- an end position behind the end of the file: nothing is returned -/
theorem readEntry_beyond (c : Bytes) (endpos length : Int) (he : (c.length : Int) < endpos) :
    readEntry (.file c) endpos length = .nilQuiet := by
  simp only [readEntry]
  rw [readWindow_none he]

/-- whatever `readEntry` returns for a regular file is a slice of its content at `before`,
    of at most the requested length (for every end position and every positive length) -/
theorem readEntry_slice (c : Bytes) (endpos length : Int) (d : LogData) (hl : 0 < length)
    (h : readEntry (.file c) endpos length = .data d) :
    0 ≤ d.before ∧ d.text = (c.drop d.before.toNat).take d.text.length ∧ (d.text.length : Int) ≤ length
      ∧ d.before + d.text.length ≤ c.length := by
  by_cases he : endpos ≤ c.length
  · obtain ⟨d', hd, _, h0, _, hs, _, hle, hb⟩ := readEntry_file c endpos length hl he
    rw [hd] at h
    injection h with h
    subst h
    exact ⟨h0, hs, hle, hb⟩
  · rw [readEntry_beyond c endpos length (by omega)] at h
    cases h

/-- a directory never yields bytes -/
theorem readEntry_dir_empty (sz endpos length : Int) (d : LogData)
    (h : readEntry (.dir sz) endpos length = .data d) : d.text = [] := by
  simp only [readEntry] at h
  split at h
  · cases h
  · split at h
    · injection h with h; rw [← h]
    · cases h

end Logger
