/-
  Golib.Logger.Date — the two calendar functions the logger uses, as parameters (`Cal`), and a
  concrete instance for the driver.

  The property takes the calendar as given (its correctness is property C19): every theorem of
  C17 is stated for an arbitrary `Cal`.  The concrete `Cal.std` follows DateTimeHelper.go: a
  table of the days 2000-01-01 … 2099-12-31, `yyyymmdd(t) = table[(t-BASE)/day]` (index clamped
  at 0) and `getYmdTime(s)` = table[year-2000][mm-1][dd-1] with `year ≥ 2100 ↦ last+1 day`,
  `year < 2000 ↦ BASE`, and an index panic (here `none`) for a month or day outside the table.
-/
import Golib.Logger.Path

namespace Logger

/-- the calendar as the logger sees it -/
structure Cal where
  /-- `dateutil.YYYYMMDD` as a function of the day unit -/
  ymd : Int → Bytes
  /-- `dateutil.GetDateUnit (dateutil.GetYmdTime s)` for an 8-digit `s`; `none` = index panic -/
  unitOf : Bytes → Option Int

def baseTime : Int := 946684800000
def millisPerDay : Int := 86400000

/-- `DateTimeHelper.getDateUnit`: Go's `/` on int64 truncates toward zero (`Int.tdiv`), also for
    instants before 2000-01-01 -/
def unit (t : Int) : Int := (t - baseTime).tdiv 86400000

theorem unit_of_nonneg (t : Int) (h : baseTime ≤ t) : unit t = (t - baseTime) / 86400000 := by
  unfold unit
  exact Int.tdiv_eq_ediv_of_nonneg (by omega)

def isDigit (b : Nat) : Bool := 48 ≤ b && b ≤ 57

def num (ds : Bytes) : Nat := ds.foldl (fun a d => a * 10 + (d - 48)) 0

namespace Std

/-- `isYun` is called with the year offset 0‥99 -/
def isLeap (y : Nat) : Bool := (y % 4 == 0 && y % 100 != 0) || y % 400 == 0

def monthLen (y m : Nat) : Nat :=
  if m = 2 then (if isLeap y then 29 else 28)
  else if m = 4 ∨ m = 6 ∨ m = 9 ∨ m = 11 then 30 else 31

def yearLen (y : Nat) : Nat := if isLeap y then 366 else 365

def daysBeforeYear (y : Nat) : Nat := (List.range y).foldl (fun a k => a + yearLen k) 0

def daysBeforeMonth (y m : Nat) : Nat := (List.range (m - 1)).foldl (fun a k => a + monthLen y (k + 1)) 0

def unitOf (d : Bytes) : Option Int :=
  let y := num (d.take 4)
  let m := num ((d.drop 4).take 2)
  let dd := num (d.drop 6)
  if y ≥ 2100 then some 36525
  else if y < 2000 then some 0
  else if m < 1 ∨ m > 12 then none
  else if dd < 1 ∨ dd > monthLen (y - 2000) m then none
  else some (Int.ofNat (daysBeforeYear (y - 2000) + daysBeforeMonth (y - 2000) m + dd - 1))

def pad2 (n : Nat) : Bytes := [48 + n / 10 % 10, 48 + n % 10]
def pad4 (n : Nat) : Bytes := [48 + n / 1000 % 10, 48 + n / 100 % 10, 48 + n / 10 % 10, 48 + n % 10]

/-- find the year offset: largest y ≤ 99 with daysBeforeYear y ≤ u -/
def findYear (u : Nat) : Nat × Nat :=
  (List.range 100).foldl (fun (acc : Nat × Nat) y =>
    -- acc = (year, remaining days within that year)
    if acc.2 ≥ yearLen acc.1 ∧ acc.1 = y ∧ y < 99 then (y + 1, acc.2 - yearLen y) else acc) (0, u)

def findMonth (y r : Nat) : Nat × Nat :=
  (List.range 12).foldl (fun (acc : Nat × Nat) k =>
    if acc.2 ≥ monthLen y acc.1 ∧ acc.1 = k + 1 ∧ k + 1 < 12 then (k + 2, acc.2 - monthLen y (k + 1)) else acc) (1, r)

def ymd (u : Int) : Bytes :=
  let n := u.toNat
  let (y, r) := findYear n
  let (m, d) := findMonth y r
  pad4 (2000 + y) ++ pad2 m ++ pad2 (d + 1)

end Std

def Cal.std : Cal := ⟨Std.ymd, Std.unitOf⟩

end Logger
