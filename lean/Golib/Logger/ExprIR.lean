/-
  Golib.Logger.ExprIR — a small expression language for the facts that xlate/c17 transcribes
  from FileLogger.go, and its semantics.

  The translator emits the conditions and arguments of `checkOk`, `Read` and `clearOldLog` as
  terms of `E` (single-definition locals inlined; parameters written `#p0, #p1, …`, the loop
  variable `#rv`, the parameter of a function literal `#l0`, other reassigned locals `#m0, …`).
  `eval` gives them a meaning: Go's `int`/`int64` arithmetic as unbounded integers (the obligations
  state the ranges they need), `float64` conversion as the identity (exact below 2^53), strings
  as byte lists, `strings.LastIndex` with a one-byte separator, `strings.HasPrefix`,
  `strings.IndexFunc` over the bytes (the predicate of the source compares a rune with '0' and
  '9'; every byte ≥ 0x80 belongs to a rune ≥ 0x80, so the byte-wise reading decides the same),
  slicing.  Everything else (`.Size()`, `.Name()`, `dateutil.Now()`, `this.lastLog.Get`, fields
  of `this.conf`) is looked up in an environment `ρ`.  This semantics is the trusted part of tie A.
-/
import Golib.Logger.Retention

namespace Logger.IR

inductive E where
  | var (n : String)
  | int (i : Int)
  | str (s : String)
  | bin (op : String) (a b : E)
  | un (op : String) (a : E)
  | call0 (f : String)
  | call1 (f : String) (a : E)
  | call2 (f : String) (a b : E)
  | call3 (f : String) (a b c : E)
  | slice (x lo hi : E)
  | pred (body : E)
  | opaque (s : String)
deriving DecidableEq, Repr

inductive V where
  | i (n : Int)
  | b (x : Bool)
  | s (bs : Bytes)
  | bad
deriving DecidableEq, Repr

abbrev Env := String → List V → V

def strBytes (s : String) : Bytes := s.toList.map Char.toNat

def lastIndexV (s sep : Bytes) : V :=
  match sep with
  | [c] => match lastIndexOf c s with
    | some i => .i i
    | none => .i (-1)
  | _ => .bad

/-- index of the first byte satisfying `p`, or -1 -/
def indexFunc (p : Nat → Bool) : Bytes → Nat → Int
  | [], _ => -1
  | b :: r, i => if p b then i else indexFunc p r (i + 1)

def binop (op : String) (x y : V) : V :=
  match op, x, y with
  | "+", .i a, .i b => .i (a + b)
  | "+", .s a, .s b => .s (a ++ b)
  | "-", .i a, .i b => .i (a - b)
  | "*", .i a, .i b => .i (a * b)
  | "<", .i a, .i b => .b (decide (a < b))
  | "<=", .i a, .i b => .b (decide (a ≤ b))
  | ">", .i a, .i b => .b (decide (a > b))
  | ">=", .i a, .i b => .b (decide (a ≥ b))
  | "==", .i a, .i b => .b (decide (a = b))
  | "!=", .i a, .i b => .b (decide (a ≠ b))
  | "==", .s a, .s b => .b (decide (a = b))
  | "!=", .s a, .s b => .b (decide (a ≠ b))
  | "==", .b a, .b b => .b (decide (a = b))
  | "!=", .b a, .b b => .b (decide (a ≠ b))
  | "||", .b a, .b b => .b (a || b)
  | "&&", .b a, .b b => .b (a && b)
  | _, _, _ => .bad

def eval (ρ : Env) (l : Nat) : E → V
  | .var "#l0" => .i l
  | .var n => ρ n []
  | .int i => .i i
  | .str s => .s (strBytes s)
  | .bin op a b => binop op (eval ρ l a) (eval ρ l b)
  | .un "!" a => match eval ρ l a with
    | .b x => .b (!x)
    | _ => .bad
  | .un "-" a => match eval ρ l a with
    | .i x => .i (-x)
    | _ => .bad
  | .un _ _ => .bad
  | .call0 f => ρ f []
  | .call1 "len" a => match eval ρ l a with
    | .s bs => .i bs.length
    | _ => .bad
  | .call1 "int64" a => eval ρ l a
  | .call1 "int" a => eval ρ l a
  | .call1 "float64" a => eval ρ l a
  | .call1 f a => ρ f [eval ρ l a]
  | .call2 "math.Max" a b => match eval ρ l a, eval ρ l b with
    | .i x, .i y => .i (max x y)
    | _, _ => .bad
  | .call2 "math.Min" a b => match eval ρ l a, eval ρ l b with
    | .i x, .i y => .i (min x y)
    | _, _ => .bad
  | .call2 "strings.LastIndex" a b => match eval ρ l a, eval ρ l b with
    | .s x, .s y => lastIndexV x y
    | _, _ => .bad
  | .call2 "strings.HasPrefix" a b => match eval ρ l a, eval ρ l b with
    | .s x, .s y => .b (y.isPrefixOf x)
    | _, _ => .bad
  | .call2 "strings.IndexFunc" a (.pred body) => match eval ρ l a with
    | .s x => .i (indexFunc (fun c => eval ρ c body == .b true) x 0)
    | _ => .bad
  | .call2 f a b => ρ f [eval ρ l a, eval ρ l b]
  | .call3 f a b c => ρ f [eval ρ l a, eval ρ l b, eval ρ l c]
  | .slice x lo hi => match eval ρ l x, eval ρ l lo, eval ρ l hi with
    | .s bs, .i a, .i b => .s ((bs.drop a.toNat).take (b.toNat - a.toNat))
    | _, _, _ => .bad
  | .pred _ => .bad
  | .opaque _ => .bad

def evalB (ρ : Env) (e : E) : Bool := eval ρ 0 e == .b true

end Logger.IR
