/-
  Golib.Logger.CalRealLemmas — what the C19 calendar gives the logger: for every day unit of
  2000-01-01 … 2099-12-31 the file-name date is the proleptic-Gregorian date of that day (eight
  digits) and reading that date back yields the same day unit.
-/
import Golib.Logger.CalReal
import Golib.Logger.RetentionLemmas
import Golib.Cal.YmdProof

namespace Logger
open _root_.Cal (specYmd civil BASE_DAY BASE_TIME NDAYS InCentury)

/-- the civil date `yyyymmdd` of day `u` after 2000-01-01, as eight ASCII digits -/
def dateOfUnit (u : Nat) : Bytes := charsToBytes (specYmd (civil (BASE_DAY + u)))

theorem inCentury_of_unit (u : Nat) (h : u < 36525) : InCentury (BASE_TIME + (u : Int) * 86400000) := by
  unfold InCentury _root_.Cal.END_TIME BASE_TIME
  omega

theorem dayOf_of_unit (u : Nat) : _root_.Cal.dayOf (BASE_TIME + (u : Int) * 86400000) = BASE_DAY + u := by
  unfold _root_.Cal.dayOf BASE_TIME BASE_DAY
  omega

theorem c19_ymd (u : Nat) (h : u < 36525) : Cal.c19.ymd u = dateOfUnit u := by
  simp only [Cal.c19, dateOfUnit]
  rw [_root_.Cal.yyyymmdd_eq _ (inCentury_of_unit u h), dayOf_of_unit]
  rfl

theorem bytesToChars_charsToBytes (cs : List Char) : bytesToChars (charsToBytes cs) = cs := by
  induction cs with
  | nil => rfl
  | cons c r ih =>
    simp only [charsToBytes, bytesToChars, List.map_cons, List.map_map] at ih ⊢
    rw [ih]
    congr 1
    exact Char.ofNat_toNat c

theorem c19_unitOf_date (u : Nat) (h : u < 36525) : Cal.c19.unitOf (dateOfUnit u) = some (u : Int) := by
  simp only [Cal.c19, dateOfUnit]
  rw [bytesToChars_charsToBytes, _root_.Cal.getYmdTime_specYmd u h]
  simp only [Option.map_some, _root_.Cal.getDateUnit, _root_.Cal.MILLIS_PER_DAY]
  congr 1
  have : BASE_TIME + (u : Int) * 86400000 - BASE_TIME = (u : Int) * 86400000 := by omega
  rw [this, Int.tdiv_eq_ediv_of_nonneg (by omega)]
  omega

theorem dig_isDigit (n : Nat) : isDigit (_root_.Cal.dig n).toNat = true := by
  unfold _root_.Cal.dig isDigit
  have h : 48 + n % 10 < 58 := by omega
  have hv : (48 + n % 10).isValidChar := by
    left; omega
  rw [Char.ofNat, dif_pos hv]
  simp only [Char.toNat, Char.ofNatAux]
  simp
  omega

theorem dateOfUnit_digits (u : Nat) : (dateOfUnit u).length = 8 ∧ ∀ b ∈ dateOfUnit u, isDigit b = true := by
  refine ⟨rfl, ?_⟩
  intro b hb
  simp only [dateOfUnit, charsToBytes, specYmd, _root_.Cal.render4, _root_.Cal.render2, List.cons_append,
    List.nil_append, List.map_cons, List.map_nil, List.mem_cons, List.not_mem_nil, or_false] at hb
  rcases hb with h | h | h | h | h | h | h | h <;> rw [h] <;> exact dig_isDigit _

theorem isDigit_ne (b : Nat) (h : isDigit b = true) : b ≠ cDash ∧ b ≠ cDot := by
  unfold isDigit at h
  simp only [Bool.and_eq_true, decide_eq_true_eq] at h
  unfold cDash cDot
  omega

end Logger

namespace Logger

theorem fileName_c19 (logID oname : Bytes) (u : Nat) (h : u < 36525) :
    fileName Cal.c19 logID oname true (u : Int) =
      (logID ++ [cDash] ++ oname) ++ cDash :: (dateOfUnit u ++ cDot :: asc "log") := by
  have e : asc ".log" = cDot :: asc "log" := by decide
  simp only [fileName, if_true, c19_ymd u h, e]
  simp

/-- the logger's own dated file of day `u` passes every syntactic test with date part = its date -/
theorem candidate_own (logID oname : Bytes) (u : Nat) (h : u < 36525) :
    candidate logID (fileName Cal.c19 logID oname true (u : Int)) = some (dateOfUnit u) := by
  obtain ⟨hl, hd⟩ := dateOfUnit_digits u
  have hp : (logID ++ [cDash]) <+: fileName Cal.c19 logID oname true (u : Int) := by
    rw [fileName_c19 logID oname u h]
    exact ⟨oname ++ cDash :: (dateOfUnit u ++ cDot :: asc "log"), by simp⟩
  have hdp : datePart (fileName Cal.c19 logID oname true (u : Int)) = some (dateOfUnit u) := by
    rw [fileName_c19 logID oname u h]
    apply datePart_of_shape
    · intro he; rw [he] at hl; cases hl
    · decide
    · intro hm; exact (isDigit_ne _ (hd _ hm)).1 rfl
    · decide
  exact candidate_of hp hdp hl hd

theorem deleted_of_candidate (cal : Cal) (rot : Bool) (logID name d : Bytes) (keep nowUnit u : Int)
    (hc : candidate logID name = some d) (hu : cal.unitOf d = some u) :
    deleted cal rot logID keep nowUnit name = true ↔ rot = true ∧ keep > 0 ∧ nowUnit - u > keep := by
  unfold deleted retentionOn verdict
  rw [hc]
  simp only [hu, Bool.and_eq_true, decide_eq_true_eq, beq_iff_eq]
  constructor
  · rintro ⟨⟨hr, hk⟩, hv⟩
    refine ⟨hr, hk, ?_⟩
    split at hv
    · assumption
    · cases hv
  · rintro ⟨hr, hk, hgt⟩
    exact ⟨⟨hr, hk⟩, by rw [if_pos hgt]⟩

/-- retention on the logger's own files, with real dates: the file of day `u` goes exactly when
    retention is on and the day is more than `keep` days before today -/
theorem deleted_own (rot : Bool) (logID oname : Bytes) (keep nowUnit : Int) (u : Nat) (h : u < 36525) :
    deleted Cal.c19 rot logID keep nowUnit (fileName Cal.c19 logID oname true (u : Int)) = true ↔
      rot = true ∧ keep > 0 ∧ nowUnit - (u : Int) > keep :=
  deleted_of_candidate Cal.c19 rot logID _ _ keep nowUnit u (candidate_own logID oname u h) (c19_unitOf_date u h)

end Logger
