/-
  Golib.Logger.Model — the decision logic of logger/logfile/FileLogger.go over a virtual clock
  and an abstract directory.

  * `Conf`       the settings (`fileLoggerConfig`)
  * `Cache`      `lastLog` (StringLongLinkedMap with `SetMax(1000)`: insertion order, the
                 oldest entry is evicted when a new key arrives at capacity, `Get` of an absent
                 key is 0, `Put` of the empty key is ignored)
  * `Meth`       the entry points, with their level gate, rate-limit id and line format
  * `Chunk`      what one `myLog.Println` appends to the current file (one `Write` call)
  * `St`, `step` the logger: log calls, `process()` (retention + rotation), `clearOldLog()`,
                 `SetLevel`, `ApplyConfig`, `Read` (whose failures log `[Error]` lines)

  The standard library's `log.Logger` puts a 20-byte wall-clock stamp ("2006/01/02 15:04:05 ")
  in front of every line; it is not virtual time and is left out of the chunks.
-/
import Golib.Logger.Retention
import Golib.Logger.Read

namespace Logger

structure Conf where
  level : Int
  rotation : Bool
  keepDays : Int
  interval : Int
  oname : Bytes
  logID : Bytes
deriving Repr, DecidableEq

/-- `defaultFileLoggerConfig` + `WithLevel` + `WithOnameLogID` -/
def Conf.default (level : Int) (oname logID : Bytes) : Conf :=
  ⟨level, true, 7, 10, oname, logID⟩

/-! ### lastLog -/

abbrev Cache := List (Bytes × Int)

def cacheMax : Nat := 1000

def cacheGet : Cache → Bytes → Int
  | [], _ => 0
  | (k, v) :: r, key => if k = key then v else cacheGet r key

def cacheHas : Cache → Bytes → Bool
  | [], _ => false
  | (k, _) :: r, key => if k = key then true else cacheHas r key

def cacheSet : Cache → Bytes → Int → Cache
  | [], _, _ => []
  | (k, v) :: r, key, nv => if k = key then (k, nv) :: r else (k, v) :: cacheSet r key nv

def cachePut (c : Cache) (key : Bytes) (v : Int) : Cache :=
  if key = [] then c
  else if cacheHas c key then cacheSet c key v
  else (if c.length ≥ cacheMax then c.drop (c.length + 1 - cacheMax) else c) ++ [(key, v)]

/-- `checkOk(id, sec)`: may the message be written now, and the cache afterwards -/
def checkOk (c : Cache) (id : Bytes) (sec now : Int) : Bool × Cache :=
  if sec > 0 then
    if now < cacheGet c id + sec * 1000 then (false, c) else (true, cachePut c id now)
  else (true, c)

/-! ### entry points -/

inductive Meth where
  | errorf | error | warnf | warn | infof | info | infoln | debugf | debug | printf | println | printlnStd
deriving Repr, DecidableEq

/-- a call returns at once when `conf.level > gate` -/
def Meth.gate : Meth → Option Int
  | .errorf | .error => none
  | .warnf | .warn => some 2
  | .infof | .info | .infoln => some 1
  | .debugf | .debug => some 0
  | .printf | .println | .printlnStd => none

/-- the `Sprintln` variants: the message gets a trailing newline before anything else -/
def Meth.ln : Meth → Bool
  | .error | .warn | .info | .infoln | .debug | .println => true
  | _ => false

def idLen : Nat := 10

/-- `stringutil.Truncate(s, 10)` -/
def truncate (s : Bytes) (n : Nat) : Bytes := s.take n

/-- the rate-limit id: first 10 bytes of the formatted message, the explicit id for
    Printf/Println, none for the debug level and PrintlnStd -/
def Meth.rateId (m : Meth) (id s : Bytes) : Option Bytes :=
  match m with
  | .errorf | .error | .warnf | .warn | .infof | .info | .infoln => some (truncate s idLen)
  | .printf | .println => some id
  | .debugf | .debug | .printlnStd => none

def ansiRed : Bytes := [27, 91, 51, 49, 109]
def ansiReset : Bytes := [27, 91, 48, 109]

/-- the bytes handed to the file in one write (without the wall-clock stamp) -/
def Meth.text (m : Meth) (id s : Bytes) : Bytes :=
  match m with
  | .errorf | .error => ansiRed ++ asc "[Error] " ++ s ++ ansiReset ++ [cNl]
  | .warnf | .warn => asc "[Warn]  " ++ s ++ [cNl]
  | .infof | .info | .infoln => asc "[Info]  " ++ s ++ [cNl]
  | .debugf | .debug => asc "[Debug]  " ++ s ++ [cNl]
  | .printf | .println => [91] ++ id ++ [93, 32] ++ [91] ++ id ++ [93, 32] ++ s ++ [cNl]
  | .printlnStd => s ++ [cNl]

/-! ### files -/

inductive Chunk where
  /-- one whole line, exact bytes (after the stamp) -/
  | line (text : Bytes)
  /-- a line that starts with `pfx` and runs to the first newline (time stamps, panic texts) -/
  | toNl (pfx : Bytes)
  /-- a red `[Error]` line that starts with `pfx` and runs to RESET newline (OS error texts) -/
  | toReset (pfx : Bytes)
deriving Repr, DecidableEq

/-- a file: what was there before the logger, then the chunks appended (newest first) -/
structure File where
  init : Bytes
  recs : List Chunk
deriving Repr, DecidableEq

abbrev Dir := List (Bytes × File)

def dirHas : Dir → Bytes → Bool
  | [], _ => false
  | (k, _) :: r, n => if k = n then true else dirHas r n

/-- append to the named file; a name that is not there (removed while open) loses the chunks -/
def dirAppend : Dir → Bytes → List Chunk → Dir
  | [], _, _ => []
  | (k, f) :: r, n, cs => if k = n then (k, { f with recs := cs.reverse ++ f.recs }) :: r else (k, f) :: dirAppend r n cs

structure St where
  conf : Conf
  home : Bytes
  cache : Cache
  /-- name of the open file (`logfile`), `none` = no handle -/
  cur : Option Bytes
  last : Int
  lastUnit : Int
  lastRot : Bool
  dir : Dir
deriving Repr

def St.append (st : St) (cs : List Chunk) : St :=
  match st.cur with
  | none => st
  | some n => { st with dir := dirAppend st.dir n cs }

/-- `logID-oname-yyyymmdd.log` / `logID-oname.log` -/
def fileName (cal : Cal) (logID oname : Bytes) (rotation : Bool) (u : Int) : Bytes :=
  if rotation then logID ++ [cDash] ++ oname ++ [cDash] ++ cal.ymd u ++ asc ".log"
  else logID ++ [cDash] ++ oname ++ asc ".log"

def header (oname : Bytes) : List Chunk :=
  [.line [cNl], .toNl (asc "## OPEN LOG FILE  " ++ oname ++ asc "  "), .line [cNl]]

/-- `openFile()` -/
def openFile (cal : Cal) (now : Int) (st : St) : St :=
  match st.cur with
  | some _ => st
  | none =>
    let name := fileName cal st.conf.logID st.conf.oname st.conf.rotation (unit now)
    let dir := if dirHas st.dir name then st.dir else st.dir ++ [(name, ⟨[], []⟩)]
    { st with cur := some name, dir := dirAppend dir name (header st.conf.oname) }

/-- `clearOldLog()`: survivors, removed names, number of recovered date panics -/
def clearDir (cal : Cal) (logID : Bytes) (keep nowUnit : Int) : Dir → Dir × List Bytes × Nat
  | [] => ([], [], 0)
  | (n, f) :: r =>
    let (d, del, p) := clearDir cal logID keep nowUnit r
    match verdict cal logID keep nowUnit n with
    | .keep => ((n, f) :: d, del, p)
    | .panic => ((n, f) :: d, del, p + 1)
    | .delete => (d, n :: del, p)

def panicLine : Chunk := .toNl (asc "WA10006  File Delete Error ")

def clearOld (cal : Cal) (now : Int) (st : St) : St × List Bytes :=
  if retentionOn st.conf.rotation st.conf.keepDays then
    let (d, del, p) := clearDir cal st.conf.logID st.conf.keepDays (unit now) st.dir
    (({ st with dir := d } : St).append (List.replicate p panicLine), del)
  else (st, [])

/-- `process()` -/
def process (cal : Cal) (now : Int) (st : St) : St × List Bytes :=
  let (st1, del) := if now > st.last + 60000 then clearOld cal now { st with last := now } else (st, [])
  let st2 : St :=
    if st1.lastRot != st1.conf.rotation || st1.lastUnit != unit now || st1.cur.isNone then
      { st1 with cur := none, lastRot := st1.conf.rotation, lastUnit := unit now }
    else st1
  (openFile cal now st2, del)

/-- `NewFileLogger` at virtual time `t0` (openFile, then the first instructions of `run()`) -/
def St.new (cal : Cal) (t0 : Int) (conf : Conf) (home : Bytes) (dir : Dir) : St :=
  let st : St := ⟨conf, home, [], none, t0, unit t0, conf.rotation, dir⟩
  openFile cal t0 st

inductive Dec where
  | gate | rate | written
deriving Repr, DecidableEq

/-- the level gate: does a call of this entry point go on at the configured level -/
def Meth.passes (m : Meth) (level : Int) : Bool :=
  match m.gate with
  | none => true
  | some g => decide (level ≤ g)

/-- the decision of one log call (level gate, then rate limit) and the id cache afterwards -/
def logDecide (now : Int) (m : Meth) (id msg : Bytes) (st : St) : Dec × Cache :=
  if m.passes st.conf.level then
    match m.rateId id (if m.ln then msg ++ [cNl] else msg) with
    | none => (.written, st.cache)
    | some rid =>
      let oc := checkOk st.cache rid st.conf.interval now
      if oc.1 then (.written, oc.2) else (.rate, st.cache)
  else (.gate, st.cache)

/-- the line a call writes: one chunk, one `Write` -/
def lineOf (m : Meth) (id msg : Bytes) : Chunk := .line (m.text id (if m.ln then msg ++ [cNl] else msg))

/-- one log call -/
def logCall (now : Int) (m : Meth) (id msg : Bytes) (st : St) : St × Dec :=
  let dc := logDecide now m id msg st
  (({ st with cache := dc.2 } : St).append (if dc.1 = .written then [lineOf m id msg] else []), dc.1)

/-- `this.Error(args…)` from inside the logger with an OS-dependent tail -/
def logInternalError (now : Int) (sPfx : Bytes) (st : St) : St :=
  let oc := checkOk st.cache (truncate sPfx idLen) st.conf.interval now
  ({ st with cache := oc.2 } : St).append (if oc.1 then [.toReset (ansiRed ++ asc "[Error] " ++ sPfx)] else [])

def lower (b : Nat) : Nat := if 65 ≤ b ∧ b ≤ 90 then b + 32 else b

/-- `logger.LogLevel` (ASCII) -/
def logLevel (s : Bytes) : Int :=
  let l := s.map lower
  if l = asc "error" then 3 else if l = asc "warn" then 2 else if l = asc "info" then 1
  else if l = asc "debug" then 0 else 2

inductive Op where
  | log (t : Int) (m : Meth) (id msg : Bytes)
  | proc (t : Int)
  | clr (t : Int)
  | setLevel (lv : Int)
  | applyConfig (rot : Bool) (keep interval : Int) (level : Bytes)
  | read (t : Int) (file : Bytes) (endpos length : Int) (snap : Snapshot)

inductive Out where
  | dec (d : Dec)
  | del (names : List Bytes)
  | ok
  | read (r : ReadRes)

def step (cal : Cal) (st : St) : Op → St × Out
  | .log t m id msg => let (s, d) := logCall t m id msg st; (s, .dec d)
  | .proc t => let (s, d) := process cal t st; (s, .del d)
  | .clr t => let (s, d) := clearOld cal t st; (s, .del d)
  | .setLevel lv => ({ st with conf := { st.conf with level := lv } }, .ok)
  | .applyConfig rot keep interval level =>
    ({ st with conf := { st.conf with rotation := rot, keepDays := keep, interval := interval, level := logLevel level } }, .ok)
  | .read t file endpos length snap =>
    let r := read st.home file snap endpos length
    match r with
    | .nilOpenErr => (logInternalError t (asc "Read log file  ") st, .read r)
    | .nilReadErr => (logInternalError t (asc "WA1000901  Read Error  ") st, .read r)
    | _ => (st, .read r)

def run (cal : Cal) (st : St) (ops : List Op) : St := ops.foldl (fun s o => (step cal s o).1) st

/-- the bytes a chunk-free file holds; for files the logger wrote, the chunk list in order -/
def File.chunks (f : File) : List Chunk := f.recs.reverse

def dirGet : Dir → Bytes → Option File
  | [], _ => none
  | (k, f) :: r, n => if k = n then some f else dirGet r n

end Logger
