/-
  Golib.Logger.Path — the path arithmetic of `FileLogger.Read`.

  `filepath.Join(home, "logs", file)` joins with '/' and cleans the result.  For an absolute
  `home` cleaning is the usual stack normalisation of the '/'-separated segments: empty and "."
  segments vanish, ".." pops (and is dropped at the root).  `openedPath` is the path handed to
  `os.Open`; `resolve` adds the containment check of the repaired code
  (`filepath.Rel(logsDir, path)` must not start with ".."): the opened path must have the
  segments of `<home>/logs` as a prefix.

  Assumption (stated in notes/C17.md): `home` is absolute; symbolic links are not modelled.
-/
import Golib.Basic

namespace Logger

/-- ASCII literal → bytes -/
def asc (s : String) : Bytes := s.toList.map Char.toNat

def cSlash : Nat := 47
def cDot : Nat := 46
def cDash : Nat := 45
def cNl : Nat := 10

/-- split on a separator byte (like `strings.Split`): always at least one segment -/
def splitAux (sep : Nat) : Bytes → Bytes → List Bytes
  | [], acc => [acc.reverse]
  | b :: r, acc => if b = sep then acc.reverse :: splitAux sep r [] else splitAux sep r (b :: acc)

def splitSlash (bs : Bytes) : List Bytes := splitAux cSlash bs []

/-- one step of `filepath.Clean` on a rooted path; the stack is kept top-first -/
def pushSeg (stk : List Bytes) (s : Bytes) : List Bytes :=
  if s = [] ∨ s = [cDot] then stk
  else if s = [cDot, cDot] then stk.drop 1
  else s :: stk

/-- segments of the cleaned absolute path -/
def normAbs (segs : List Bytes) : List Bytes := (segs.foldl pushSeg []).reverse

def logsSeg : Bytes := asc "logs"

/-- segments of `filepath.Join(home, "logs")` -/
def logsDir (home : Bytes) : List Bytes := normAbs (splitSlash home ++ [logsSeg])

/-- segments of `filepath.Join(home, "logs", file)` — the path given to `os.Open` -/
def openedPath (home file : Bytes) : List Bytes :=
  normAbs (splitSlash home ++ [logsSeg] ++ splitSlash file)

/-- the repaired `Read`: `none` = the name escapes `<home>/logs` and is refused;
    `some rel` = the path opened is `<home>/logs/rel` -/
def resolve (home file : Bytes) : Option (List Bytes) :=
  let l := logsDir home
  let p := openedPath home file
  if l.isPrefixOf p then some (p.drop l.length) else none

/-- join segments with '/' -/
def joinSlash : List Bytes → Bytes
  | [] => []
  | [s] => s
  | s :: r => s ++ cSlash :: joinSlash r

end Logger
