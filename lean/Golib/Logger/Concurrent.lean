/-
  Golib.Logger.Concurrent — lines in order under any number of concurrent writers.

  Atomic-action model.  Every goroutine that logs goes through the one `log.Logger`, whose mutex
  serialises `Output` (format the line, one `Write`) and `SetOutput`; a schedule is therefore a
  sequence of actions: `write (writer, line)`, `install` (openFile: the new file becomes the
  logger's output) and `closeOld` (the old handle is closed).  The discipline of the repaired
  `process()` is `Safe`: the old handle is closed only after the new file is installed.

  What the operating system contributes is an explicit assumption, the field `atomic` of
  `AppendFS`: one write on an O_APPEND descriptor places its bytes, whole and contiguous, at
  the end of the file.  Nothing else about the runtime is assumed; the scheduler is the
  universally quantified schedule.
-/
import Golib.Basic

namespace Logger.Conc

/-- the file system as far as the logger relies on it -/
structure AppendFS where
  F : Type
  content : F → Bytes
  append : F → Bytes → F
  /-- ASSUMPTION (OS): a single `write(2)` with O_APPEND appends its bytes whole and contiguous -/
  atomic : ∀ (f : F) (bs : Bytes), content (append f bs) = content f ++ bs

structure Line where
  writer : Nat
  text : Bytes
deriving DecidableEq, Repr

inductive Act where
  | write (l : Line)
  | install
  | closeOld
deriving DecidableEq, Repr

/-- the lines a schedule writes, in schedule order -/
def writesOf : List Act → List Line
  | [] => []
  | .write l :: r => l :: writesOf r
  | _ :: r => writesOf r

/-- repaired discipline: `closeOld` only after `install` -/
def Safe : Bool → List Act → Prop
  | _, [] => True
  | tn, .write _ :: r => Safe tn r
  | _, .install :: r => Safe true r
  | tn, .closeOld :: r => tn = true ∧ Safe tn r

variable (fs : AppendFS)

structure CS where
  toNew : Bool
  oldOpen : Bool
  oldF : fs.F
  newF : fs.F
  /-- ghost: the lines that reached each file, in order -/
  oldL : List Line
  newL : List Line

def cstep (s : CS fs) : Act → CS fs
  | .write l =>
    if s.toNew then { s with newF := fs.append s.newF l.text, newL := s.newL ++ [l] }
    else if s.oldOpen then { s with oldF := fs.append s.oldF l.text, oldL := s.oldL ++ [l] }
    else s   -- a write on a closed handle fails; log.Logger drops the error
  | .install => { s with toNew := true }
  | .closeOld => { s with oldOpen := false }

def crun (s : CS fs) (as : List Act) : CS fs := as.foldl (cstep fs) s

def texts (ls : List Line) : Bytes := (ls.map (·.text)).flatten

theorem texts_append (a b : List Line) : texts (a ++ b) = texts a ++ texts b := by
  simp [texts]

/-- no line is lost or duplicated, whatever the schedule: the two files together hold the
    earlier lines followed by every written line, in schedule order -/
theorem all_lines_kept (s : CS fs) (as : List Act) (hs : Safe s.toNew as)
    (hopen : s.toNew = true ∨ s.oldOpen = true) (hnew : s.toNew = false → s.newL = []) :
    (crun fs s as).oldL ++ (crun fs s as).newL = s.oldL ++ s.newL ++ writesOf as := by
  induction as generalizing s with
  | nil => simp [crun, writesOf]
  | cons a r ih =>
    have hr : crun fs s (a :: r) = crun fs (cstep fs s a) r := rfl
    rw [hr]
    cases a with
    | write l =>
      simp only [Safe] at hs
      simp only [cstep, writesOf]
      cases htn : s.toNew with
      | true =>
        simp only [if_true]
        refine (ih ⟨true, s.oldOpen, s.oldF, fs.append s.newF l.text, s.oldL, s.newL ++ [l]⟩ (by simpa [htn] using hs) (Or.inl rfl) (by intro h; cases h)).trans ?_
        simp
      | false =>
        have ho : s.oldOpen = true := by
          rcases hopen with h | h
          · rw [htn] at h; cases h
          · exact h
        have hn := hnew htn
        simp only [Bool.false_eq_true, if_false, ho, if_true]
        refine (ih ⟨false, true, fs.append s.oldF l.text, s.newF, s.oldL ++ [l], s.newL⟩ (by simpa [htn] using hs) (Or.inr rfl) (fun _ => hn)).trans ?_
        simp [hn]
    | install =>
      simp only [Safe] at hs
      simp only [cstep, writesOf]
      exact ih _ hs (Or.inl rfl) (by intro h; cases h)
    | closeOld =>
      simp only [Safe] at hs
      simp only [cstep, writesOf]
      exact ih _ hs.2 (Or.inl hs.1) (by intro h; rw [hs.1] at h; cases h)

/-- per-writer order: the lines of each writer appear in the order that writer issued them
    (old file first), for any number of writers -/
theorem writer_order_kept (s : CS fs) (as : List Act) (hs : Safe s.toNew as)
    (hopen : s.toNew = true ∨ s.oldOpen = true) (hnew : s.toNew = false → s.newL = []) (w : Nat) :
    ((crun fs s as).oldL ++ (crun fs s as).newL).filter (fun l => l.writer == w) =
      (s.oldL ++ s.newL).filter (fun l => l.writer == w) ++ (writesOf as).filter (fun l => l.writer == w) := by
  rw [all_lines_kept fs s as hs hopen hnew, List.filter_append]

/-- every line is whole: with the OS assumption, the bytes of each file are the bytes it had
    followed by the concatenation of the whole lines that reached it -/
theorem files_hold_whole_lines (s : CS fs) (as : List Act) :
    ∃ lo ln, (crun fs s as).oldL = s.oldL ++ lo ∧ (crun fs s as).newL = s.newL ++ ln ∧
      fs.content (crun fs s as).oldF = fs.content s.oldF ++ texts lo ∧
      fs.content (crun fs s as).newF = fs.content s.newF ++ texts ln := by
  induction as generalizing s with
  | nil => exact ⟨[], [], by simp [crun], by simp [crun], by simp [crun, texts], by simp [crun, texts]⟩
  | cons a r ih =>
    have hr : crun fs s (a :: r) = crun fs (cstep fs s a) r := rfl
    rw [hr]
    obtain ⟨lo, ln, h1, h2, h3, h4⟩ := ih (cstep fs s a)
    cases a with
    | write l =>
      simp only [cstep] at h1 h2 h3 h4 ⊢
      cases htn : s.toNew with
      | true =>
        simp only [htn, if_true] at h1 h2 h3 h4 ⊢
        refine ⟨lo, l :: ln, h1, by rw [h2]; simp, h3, ?_⟩
        rw [h4, fs.atomic]
        simp [texts]
      | false =>
        cases ho : s.oldOpen with
        | true =>
          simp only [htn, ho, Bool.false_eq_true, if_false, if_true] at h1 h2 h3 h4 ⊢
          refine ⟨l :: lo, ln, by rw [h1]; simp, h2, ?_, h4⟩
          rw [h3, fs.atomic]
          simp [texts]
        | false =>
          simp only [htn, ho, Bool.false_eq_true, if_false] at h1 h2 h3 h4 ⊢
          exact ⟨lo, ln, h1, h2, h3, h4⟩
    | install => exact ⟨lo, ln, h1, h2, h3, h4⟩
    | closeOld => exact ⟨lo, ln, h1, h2, h3, h4⟩

/-- a logger in its steady state: output on the old file, open, nothing in the new file -/
def steady (oldF newF : fs.F) (oldL : List Line) : CS fs := ⟨false, true, oldF, newF, oldL, []⟩

/-- the repaired rotation at any two positions of any schedule of any number of writers -/
def rotated (a b c : List Act) : List Act := a ++ [.install] ++ b ++ [.closeOld] ++ c

def NoRot : List Act → Prop
  | [] => True
  | .write _ :: r => NoRot r
  | _ :: _ => False

theorem safe_noRot (tn : Bool) (as : List Act) (h : NoRot as) : Safe tn as := by
  induction as with
  | nil => trivial
  | cons a r ih =>
    cases a with
    | write l => exact ih h
    | install => exact absurd h (by simp [NoRot])
    | closeOld => exact absurd h (by simp [NoRot])

theorem safe_append (tn : Bool) (a b : List Act) (ha : NoRot a) (hb : Safe tn b) : Safe tn (a ++ b) := by
  induction a with
  | nil => exact hb
  | cons x r ih =>
    cases x with
    | write l => exact ih ha
    | install => exact absurd ha (by simp [NoRot])
    | closeOld => exact absurd ha (by simp [NoRot])

theorem rotated_safe (a b c : List Act) (ha : NoRot a) (hb : NoRot b) (hc : NoRot c) : Safe false (rotated a b c) := by
  unfold rotated
  have h3 : Safe true ([Act.closeOld] ++ c) := ⟨rfl, safe_noRot true c hc⟩
  have h2 : Safe true (b ++ ([Act.closeOld] ++ c)) := safe_append true b _ hb h3
  have h1 : Safe false ([Act.install] ++ (b ++ ([Act.closeOld] ++ c))) := h2
  have := safe_append false a _ ha h1
  simpa [List.append_assoc] using this

/-- the order of the code before the repair is not safe, and loses what is written in between -/
theorem unsafe_order_loses (oldF newF : fs.F) (l : Line) :
    let s := crun fs (steady fs oldF newF []) [.closeOld, .write l, .install]
    ¬ Safe false [Act.closeOld, .write l, .install] ∧ s.oldL ++ s.newL = [] := by
  refine ⟨by simp [Safe], by simp [crun, cstep, steady]⟩

end Logger.Conc
