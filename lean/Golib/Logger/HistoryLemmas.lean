/-
  Golib.Logger.HistoryLemmas — statements over whole histories (`run` = foldl step) with an
  arbitrary directory: files that do not carry the logger's prefix are never touched, everything
  a history removes is an own dated file, and the rotation theorem holds at every cycle of a history.
-/
import Golib.Logger.RunLemmas

namespace Logger

theorem run_append (cal : Cal) (st : St) (a b : List Op) : run cal st (a ++ b) = run cal (run cal st a) b := by
  simp [run, List.foldl_append]

theorem fileName_prefix (cal : Cal) (logID oname : Bytes) (rot : Bool) (u : Int) :
    (logID ++ [cDash]) <+: fileName cal logID oname rot u := by
  unfold fileName
  split
  · exact ⟨oname ++ [cDash] ++ cal.ymd u ++ asc ".log", by simp⟩
  · exact ⟨oname ++ asc ".log", by simp⟩

/-- the open file always carries the logger's own prefix -/
theorem cur_has_prefix (cal : Cal) (st : St) (hi : st.Inv cal) (m : Bytes) (hm : st.cur = some m) :
    (st.conf.logID ++ [cDash]) <+: m := by
  rw [hi m hm]
  exact fileName_prefix cal _ _ _ _

theorem process_conf (cal : Cal) (t : Int) (st : St) : (process cal t st).1.conf = st.conf := by
  unfold process
  simp only []
  generalize hs1 : (if t > st.last + 60000 then clearOld cal t { st with last := t } else (st, [])) = p1
  have f1 : p1.1.conf = st.conf := by
    rw [← hs1]
    split
    · exact (clearOld_frame cal t { st with last := t }).2.1
    · rfl
  obtain ⟨st1, del⟩ := p1
  simp only [] at f1 ⊢
  split
  · rw [(openFile_frame cal t _).1]; exact f1
  · rw [(openFile_frame cal t _).1]; exact f1

theorem step_conf_names (cal : Cal) (st : St) (op : Op) :
    (step cal st op).1.conf.logID = st.conf.logID ∧ (step cal st op).1.conf.oname = st.conf.oname := by
  by_cases hc : op.isCall = true
  · exact ⟨(step_call_frame cal st op hc).2.2.2.2.2.1, (step_call_frame cal st op hc).2.2.2.2.2.2.1⟩
  · cases op with
    | proc t => simp only [step]; rw [process_conf]; exact ⟨rfl, rfl⟩
    | clr t => simp only [step]; rw [(clearOld_frame cal t st).2.1]; exact ⟨rfl, rfl⟩
    | log _ _ _ _ => exact absurd rfl hc
    | setLevel _ => exact absurd rfl hc
    | applyConfig _ _ _ _ => exact absurd rfl hc
    | read _ _ _ _ _ => exact absurd rfl hc

theorem run_conf_names (cal : Cal) (st : St) (ops : List Op) :
    (run cal st ops).conf.logID = st.conf.logID ∧ (run cal st ops).conf.oname = st.conf.oname := by
  induction ops generalizing st with
  | nil => exact ⟨rfl, rfl⟩
  | cons o r ih =>
    rw [run_cons]
    obtain ⟨a, b⟩ := ih (step cal st o).1
    obtain ⟨c, d⟩ := step_conf_names cal st o
    exact ⟨a.trans c, b.trans d⟩

/-! ### foreign files -/

theorem ne_of_prefix {p n m : Bytes} (hm : p <+: m) (hn : ¬ p <+: n) : n ≠ m := by
  intro e; rw [e] at hn; exact hn hm

theorem openFile_foreign (cal : Cal) (now : Int) (st : St) (n : Bytes) (f : File) (h : (n, f) ∈ st.dir)
    (hp : ¬ (st.conf.logID ++ [cDash]) <+: n) : (n, f) ∈ (openFile cal now st).dir := by
  unfold openFile
  cases hc : st.cur with
  | some m => exact h
  | none =>
    simp only []
    have hne : n ≠ fileName cal st.conf.logID st.conf.oname st.conf.rotation (unit now) :=
      ne_of_prefix (fileName_prefix cal _ _ _ _) hp
    split
    · obtain ⟨g, hg, _, he⟩ := dirAppend_mem (fileName cal st.conf.logID st.conf.oname st.conf.rotation (unit now))
        (header st.conf.oname) h
      rw [← he hne]; exact hg
    · obtain ⟨g, hg, _, he⟩ := dirAppend_mem (fileName cal st.conf.logID st.conf.oname st.conf.rotation (unit now))
        (header st.conf.oname) (mem_append_new_dir (fileName cal st.conf.logID st.conf.oname st.conf.rotation (unit now), ⟨[], []⟩) h)
      rw [← he hne]; exact hg

theorem clearOld_foreign (cal : Cal) (now : Int) (st : St) (hi : st.Inv cal) (n : Bytes) (f : File) (h : (n, f) ∈ st.dir)
    (hp : ¬ (st.conf.logID ++ [cDash]) <+: n) : (n, f) ∈ (clearOld cal now st).1.dir := by
  have hd := not_deleted_of_no_prefix cal st.conf.rotation st.conf.logID st.conf.keepDays (unit now) n hp
  obtain ⟨g, hg, _, he⟩ := clearOld_left cal now st n f h hd
  have : st.cur ≠ some n := by
    intro hc
    exact hp (cur_has_prefix cal st hi n hc)
  rw [← he this]; exact hg

/-- one operation never touches a file that does not carry the logger's prefix -/
theorem step_foreign (cal : Cal) (st : St) (op : Op) (hi : st.Inv cal) (n : Bytes) (f : File) (h : (n, f) ∈ st.dir)
    (hp : ¬ (st.conf.logID ++ [cDash]) <+: n) : (n, f) ∈ (step cal st op).1.dir := by
  by_cases hc : op.isCall = true
  · rw [(step_call_frame cal st op hc).2.2.2.2.2.2.2, St.append_dir]
    cases hcur : st.cur with
    | none => exact h
    | some m =>
      simp only []
      obtain ⟨g, hg, _, he⟩ := dirAppend_mem m (emit st op) h
      have : n ≠ m := ne_of_prefix (cur_has_prefix cal st hi m hcur) hp
      rw [← he this]; exact hg
  · cases op with
    | clr t => exact clearOld_foreign cal t st hi n f h hp
    | proc t =>
      simp only [step]
      unfold process
      simp only []
      by_cases ht : t > st.last + 60000
      · simp only [ht, if_true]
        have hi' : ({ st with last := t } : St).Inv cal := hi
        have h1 := clearOld_foreign cal t { st with last := t } hi' n f h hp
        have hk := (clearOld_frame cal t { st with last := t }).2.1
        generalize clearOld cal t { st with last := t } = p at h1 hk ⊢
        obtain ⟨st1, del⟩ := p
        simp only [] at h1 hk ⊢
        have hp1 : ¬ (st1.conf.logID ++ [cDash]) <+: n := by rw [hk]; exact hp
        split
        · exact openFile_foreign cal t { st1 with cur := none, lastRot := st1.conf.rotation, lastUnit := unit t } n f h1 hp1
        · exact openFile_foreign cal t st1 n f h1 hp1
      · simp only [ht, if_false]
        split
        · exact openFile_foreign cal t { st with cur := none, lastRot := st.conf.rotation, lastUnit := unit t } n f h hp
        · exact openFile_foreign cal t st n f h hp
    | log _ _ _ _ => exact absurd rfl hc
    | setLevel _ => exact absurd rfl hc
    | applyConfig _ _ _ _ => exact absurd rfl hc
    | read _ _ _ _ _ => exact absurd rfl hc

/-- over any history: a file without the logger's prefix is still there, byte for byte -/
theorem run_foreign (cal : Cal) (st : St) (ops : List Op) (hi : st.Inv cal) (n : Bytes) (f : File) (h : (n, f) ∈ st.dir)
    (hp : ¬ (st.conf.logID ++ [cDash]) <+: n) : (n, f) ∈ (run cal st ops).dir := by
  induction ops generalizing st with
  | nil => exact h
  | cons o r ih =>
    rw [run_cons]
    apply ih _ (step_inv cal st o hi) (step_foreign cal st o hi n f h hp)
    rw [(step_conf_names cal st o).1]; exact hp

/-! ### what a history removes -/

/-- the names removed by the cycles and retention passes of a history, in order -/
def removedBy (cal : Cal) (st : St) : List Op → List Bytes
  | [] => []
  | o :: r => (match (step cal st o).2 with | .del d => d | _ => []) ++ removedBy cal (step cal st o).1 r

/-- everything a history removes carries the logger's prefix and an 8-digit date part -/
theorem removed_are_own_dated (cal : Cal) (st : St) (ops : List Op) (n : Bytes) (h : n ∈ removedBy cal st ops) :
    (st.conf.logID ++ [cDash]) <+: n ∧ ∃ d, datePart n = some d ∧ d.length = 8 ∧ ∀ b ∈ d, isDigit b = true := by
  induction ops generalizing st with
  | nil => cases h
  | cons o r ih =>
    simp only [removedBy] at h
    rcases List.mem_append.mp h with h | h
    · cases o with
      | proc t =>
        simp only [step] at h
        have := ((process_removed cal t st n).mp h).2.2
        obtain ⟨_, _, hp, d, hd, hl, hg, _⟩ := (deleted_iff ..).mp this
        exact ⟨hp, d, hd, hl, hg⟩
      | clr t =>
        simp only [step] at h
        have := ((clearOld_removed cal t st n).mp h).2
        obtain ⟨_, _, hp, d, hd, hl, hg, _⟩ := (deleted_iff ..).mp this
        exact ⟨hp, d, hd, hl, hg⟩
      | log t m id msg => simp [step] at h
      | setLevel lv => simp [step] at h
      | applyConfig a b c d => simp [step] at h
      | read t file e l snap =>
        have hout : ∃ r, (step cal st (.read t file e l snap)).2 = .read r := by
          simp only [step]; split <;> exact ⟨_, rfl⟩
        obtain ⟨r', hr'⟩ := hout
        rw [hr'] at h
        cases h
    · have := ih (step cal st o).1 h
      rw [(step_conf_names cal st o).1] at this
      exact this

end Logger
