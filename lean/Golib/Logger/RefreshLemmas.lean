/-
  Golib.Logger.RefreshLemmas — logging a RESIDENT id again (an update of a known key of the id
  table) forgets nothing, at any fill level: the case "table full, a known id whose interval is
  over is logged again" keeps every other id suppressed exactly as before.
-/
import Golib.Logger.CacheHMap

namespace Logger
open HMap

/-- the table after a `Put` of a resident id: same ids, same places, same length; the id's own
    time is the new one, every other id's time is unchanged -/
theorem refresh_cache {c : Cache} {k : Bytes} (v : Int) (hn : (AL.keys c).Nodup) (hne : k ≠ [])
    (hk : k ∈ AL.keys c) :
    AL.keys (cachePut c k v) = AL.keys c ∧ (cachePut c k v).length = c.length ∧
    cacheGet (cachePut c k v) k = v ∧ ∀ j, j ≠ k → cacheGet (cachePut c k v) j = cacheGet c j := by
  rw [put_known v hn hk hne]
  refine ⟨AL.keys_set c k v, AL.length_set c k v, ?_, ?_⟩
  · rw [cacheGet_eq, AL.get_set]
    have : (AL.get c k).isSome = true := AL.get_isSome_iff.mpr hk
    simp [this]
  · intro j hj
    rw [cacheGet_eq, cacheGet_eq, AL.get_set]
    have : ¬ k = j := fun e => hj e.symm
    simp [this]

/-- the cache of a logger that started with an empty one never holds an id twice -/
theorem run_cache_nodup (cal : Cal) (st0 : St) (ops : List Op) (h0 : st0.cache = []) :
    (AL.keys (run cal st0 ops).cache).Nodup := by
  rw [run_cache, h0]
  exact (dictAfter_is_hmap (puts cal st0 ops) [] List.nodup_nil).2

/-- what a log call does to the table: nothing, or the `Put` of its rate id at its time -/
theorem logCall_cache_cases (t : Int) (m : Meth) (id msg : Bytes) (st : St) :
    (logCall t m id msg st).1.cache = st.cache ∨
    ∃ rid, m.rateId id (if m.ln then msg ++ [cNl] else msg) = some rid ∧
      (logCall t m id msg st).1.cache = cachePut st.cache rid t := by
  simp only [logCall, St.append_cache]
  rcases logDecide_cases t m id msg st with ⟨_, hd⟩ | ⟨_, _, hd⟩ | ⟨rid, _, hr, hok, hd⟩ | ⟨rid, _, _, _, hd⟩
  · left; rw [hd]
  · left; rw [hd]
  · rw [hd]
    rcases checkOk_cases st.cache rid st.conf.interval t with ⟨_, hc⟩ | ⟨_, _, hc⟩ | ⟨_, _, hc⟩
    · left; rw [hc]
    · rw [hc] at hok; simp at hok
    · right; exact ⟨rid, hr, by rw [hc]⟩
  · left; rw [hd]

/-- the decision of a call depends on the settings and on the time the table holds for its id only -/
theorem logDecide_congr (t : Int) (m : Meth) (id msg : Bytes) (st st' : St) (hc : st'.conf = st.conf)
    (hg : ∀ j, m.rateId id (if m.ln then msg ++ [cNl] else msg) = some j → cacheGet st'.cache j = cacheGet st.cache j) :
    (logDecide t m id msg st').1 = (logDecide t m id msg st).1 := by
  unfold logDecide
  rw [hc]
  split
  · cases hr : m.rateId id (if m.ln = true then msg ++ [cNl] else msg) with
    | none => rfl
    | some rid =>
      have hj := hg rid hr
      simp only []
      have : (checkOk st'.cache rid st.conf.interval t).1 = (checkOk st.cache rid st.conf.interval t).1 := by
        unfold checkOk
        rw [hj]
        split
        · split <;> rfl
        · rfl
      rw [this]
      split <;> rfl
  · rfl

/-- a log call whose id is resident (whatever the call's outcome, whatever the fill level of the
    table): the table holds the same ids in the same places afterwards, and every call with a
    DIFFERENT rate id is decided exactly as it would have been before -/
theorem refresh_step (t : Int) (m : Meth) (id msg i : Bytes) (st : St) (hn : (AL.keys st.cache).Nodup)
    (hid : m.rateId id (if m.ln then msg ++ [cNl] else msg) = some i) (hk : i ∈ AL.keys st.cache) (hne : i ≠ []) :
    AL.keys (logCall t m id msg st).1.cache = AL.keys st.cache ∧
    (∀ j, j ≠ i → cacheGet (logCall t m id msg st).1.cache j = cacheGet st.cache j) ∧
    ∀ (t' : Int) (m' : Meth) (id' msg' j : Bytes),
      m'.rateId id' (if m'.ln then msg' ++ [cNl] else msg') = some j → j ≠ i →
      (logDecide t' m' id' msg' (logCall t m id msg st).1).1 = (logDecide t' m' id' msg' st).1 := by
  have hkeys : AL.keys (logCall t m id msg st).1.cache = AL.keys st.cache ∧
      ∀ j, j ≠ i → cacheGet (logCall t m id msg st).1.cache j = cacheGet st.cache j := by
    rcases logCall_cache_cases t m id msg st with h | ⟨rid, hr, h⟩
    · rw [h]; exact ⟨rfl, fun _ _ => rfl⟩
    · rw [hid] at hr
      cases hr
      rw [h]
      have := refresh_cache t hn hne hk
      exact ⟨this.1, this.2.2.2⟩
  refine ⟨hkeys.1, hkeys.2, ?_⟩
  intro t' m' id' msg' j hj hji
  apply logDecide_congr t' m' id' msg' st _ (logCall_conf t m id msg st)
  intro j' hj'
  rw [hj] at hj'
  cases hj'
  exact hkeys.2 j hji

end Logger
