/-
  Golib.Logger.RetentionLemmas — what `clearOldLog` removes, characterised.
-/
import Golib.Logger.Model

namespace Logger

/-! ### `LastIndex` -/

/-- reference definition: index of the last occurrence -/
def lastIdx (c : Nat) : Bytes → Option Nat
  | [] => none
  | b :: r =>
    match lastIdx c r with
    | some j => some (j + 1)
    | none => if b = c then some 0 else none

theorem lastIdxAux_eq (c : Nat) (bs : Bytes) (i : Nat) (acc : Option Nat) :
    lastIdxAux c bs i acc = (match lastIdx c bs with | some j => some (i + j) | none => acc) := by
  induction bs generalizing i acc with
  | nil => simp [lastIdxAux, lastIdx]
  | cons b r ih =>
    simp only [lastIdxAux, lastIdx]
    rw [ih]
    cases h : lastIdx c r with
    | some j => simp only []; congr 1; omega
    | none =>
      simp only []
      split <;> simp

theorem lastIndexOf_eq (c : Nat) (bs : Bytes) : lastIndexOf c bs = lastIdx c bs := by
  unfold lastIndexOf
  rw [lastIdxAux_eq]
  cases lastIdx c bs <;> simp

theorem lastIdx_none {c : Nat} {bs : Bytes} : lastIdx c bs = none ↔ c ∉ bs := by
  induction bs with
  | nil => simp [lastIdx]
  | cons b r ih =>
    simp only [lastIdx]
    cases h : lastIdx c r with
    | some j =>
      simp only [List.mem_cons, not_or]
      constructor
      · intro hh; cases hh
      · intro ⟨_, h2⟩
        have := ih.mpr h2
        rw [h] at this; cases this
    | none =>
      have hr := ih.mp h
      simp only [List.mem_cons, not_or]
      constructor
      · intro hh
        split at hh
        · cases hh
        · rename_i hne
          exact ⟨fun e => hne e.symm, hr⟩
      · intro ⟨h1, _⟩
        have : ¬ b = c := fun e => h1 e.symm
        simp [this]

/-- the last occurrence splits the string: `c` does not occur after it -/
theorem lastIdx_some {c : Nat} {bs : Bytes} {j : Nat} (h : lastIdx c bs = some j) :
    ∃ pre post, bs = pre ++ c :: post ∧ pre.length = j ∧ c ∉ post := by
  induction bs generalizing j with
  | nil => simp [lastIdx] at h
  | cons b r ih =>
    simp only [lastIdx] at h
    cases hr : lastIdx c r with
    | some k =>
      rw [hr] at h
      simp only [Option.some.injEq] at h
      obtain ⟨pre, post, e, hl, hn⟩ := ih hr
      refine ⟨b :: pre, post, by rw [e]; rfl, by simp [hl, h], hn⟩
    | none =>
      rw [hr] at h
      simp only [] at h
      split at h
      · rename_i hbc
        simp only [Option.some.injEq] at h
        refine ⟨[], r, by rw [hbc]; rfl, by simp [h], lastIdx_none.mp hr⟩
      · cases h

theorem lastIdx_of_split {c : Nat} (pre post : Bytes) (hn : c ∉ post) :
    lastIdx c (pre ++ c :: post) = some pre.length := by
  induction pre with
  | nil =>
    simp only [List.nil_append, lastIdx, List.length_nil]
    rw [lastIdx_none.mpr hn]
    simp
  | cons b r ih =>
    simp only [List.cons_append, lastIdx, ih, List.length_cons]

/-! ### the date part -/

/-- shape of a name that has a date part `d`: `pre-d.ext` where the dash is the last dash of the
    whole name, the dot the last dot, and `d` is not empty -/
theorem datePart_some {name d : Bytes} (h : datePart name = some d) :
    ∃ pre ext, name = pre ++ cDash :: (d ++ cDot :: ext) ∧ d ≠ [] ∧
      cDot ∉ ext ∧ cDash ∉ d ∧ cDash ∉ ext := by
  unfold datePart at h
  rw [lastIndexOf_eq, lastIndexOf_eq] at h
  cases hx : lastIdx cDot name with
  | none => rw [hx] at h; cases h
  | some x =>
    rw [hx] at h
    simp only [] at h
    cases hs : lastIdx cDash name with
    | none => rw [hs] at h; cases h
    | some s =>
      rw [hs] at h
      simp only [] at h
      split at h
      · cases h
      · rename_i hlt
        injection h with h
        obtain ⟨p1, e1, n1, l1, nd⟩ := lastIdx_some hx
        obtain ⟨p2, e2, n2, l2, ns⟩ := lastIdx_some hs
        -- name = p1 ++ '.' :: e1 = p2 ++ '-' :: e2 with |p2| + 1 < |p1|
        have hlen : p2.length + 1 < p1.length := by omega
        -- p1 = p2 ++ '-' :: m  and  e2 = m ++ '.' :: e1
        have hp : p1 = (p1.take (p2.length + 1)) ++ p1.drop (p2.length + 1) := (List.take_append_drop _ _).symm
        have htake : p1.take (p2.length + 1) = p2 ++ [cDash] := by
          have h1 : (p1 ++ cDot :: e1).take (p2.length + 1) = p1.take (p2.length + 1) := by
            rw [List.take_append_of_le_length (by omega)]
          have h2 : (p2 ++ cDash :: e2).take (p2.length + 1) = p2 ++ [cDash] := by
            rw [List.take_append, List.take_of_length_le (by omega)]
            simp
          rw [← h1, ← n1, n2, h2]
        let m := p1.drop (p2.length + 1)
        have hp1 : p1 = p2 ++ cDash :: m := by
          rw [hp, htake]; simp [m]
        have he2 : e2 = m ++ cDot :: e1 := by
          have : p2 ++ cDash :: e2 = p2 ++ cDash :: (m ++ cDot :: e1) := by
            rw [← n2, n1, hp1]; simp
          have := List.append_cancel_left this
          injection this
        have hd : d = m := by
          rw [← h, n1, hp1, ← l1, ← l2, hp1]
          simp
          have : p2.length + (m.length + 1) - (p2.length + 1) = m.length := by omega
          rw [this, List.take_left]
        subst hd
        refine ⟨p2, e1, ?_, ?_, nd, ?_, ?_⟩
        · rw [n1, hp1]; simp
        · intro hm
          have : p1.length = p2.length + 1 := by rw [hp1, hm]; simp
          omega
        · intro hin; exact ns (by rw [he2]; simp [hin])
        · intro hin; exact ns (by rw [he2]; simp [hin])

/-- conversely every name of that shape has that date part -/
theorem datePart_of_shape (pre d ext : Bytes) (hd : d ≠ []) (h1 : cDot ∉ ext) (h2 : cDash ∉ d)
    (h3 : cDash ∉ ext) : datePart (pre ++ cDash :: (d ++ cDot :: ext)) = some d := by
  unfold datePart
  rw [lastIndexOf_eq, lastIndexOf_eq]
  have e1 : pre ++ cDash :: (d ++ cDot :: ext) = (pre ++ cDash :: d) ++ cDot :: ext := by simp
  have hx : lastIdx cDot (pre ++ cDash :: (d ++ cDot :: ext)) = some (pre ++ cDash :: d).length := by
    rw [e1]; exact lastIdx_of_split _ _ h1
  have hs : lastIdx cDash (pre ++ cDash :: (d ++ cDot :: ext)) = some pre.length := by
    apply lastIdx_of_split
    intro hin
    rcases List.mem_append.mp hin with h | h
    · exact h2 h
    · rcases List.mem_cons.mp h with h | h
      · exact absurd h (by decide)
      · exact h3 h
  rw [hx, hs]
  simp only []
  have hdl : 0 < d.length := List.length_pos_iff.mpr hd
  have : ¬ (pre.length + 1 ≥ (pre ++ cDash :: d).length) := by simp; omega
  rw [if_neg this]
  congr 1
  have e2 : pre ++ cDash :: (d ++ cDot :: ext) = (pre ++ [cDash]) ++ (d ++ cDot :: ext) := by simp
  have e3 : pre.length + 1 = (pre ++ [cDash]).length := by simp
  rw [e2, e3, List.drop_left]
  have : (pre ++ cDash :: d).length - (pre ++ [cDash]).length = d.length := by simp; omega
  rw [this, List.take_left]

/-! ### verdicts -/

theorem candidate_some {logID name d : Bytes} (h : candidate logID name = some d) :
    (logID ++ [cDash]) <+: name ∧ datePart name = some d ∧ d.length = 8 ∧ ∀ b ∈ d, isDigit b = true := by
  unfold candidate at h
  split at h
  · rename_i hp
    cases hd : datePart name with
    | none => rw [hd] at h; cases h
    | some d' =>
      rw [hd] at h
      simp only [] at h
      split at h
      · rename_i hc
        injection h with h
        subst h
        exact ⟨List.isPrefixOf_iff_prefix.mp hp, rfl, hc.1, List.all_eq_true.mp hc.2⟩
      · cases h
  · cases h

theorem candidate_of {logID name d : Bytes} (hp : (logID ++ [cDash]) <+: name) (hd : datePart name = some d)
    (hl : d.length = 8) (hg : ∀ b ∈ d, isDigit b = true) : candidate logID name = some d := by
  unfold candidate
  rw [if_pos (List.isPrefixOf_iff_prefix.mpr hp), hd]
  simp only []
  rw [if_pos ⟨hl, List.all_eq_true.mpr hg⟩]

/-- a file is removed exactly when: retention is on, the name carries the logger's id prefix,
    its date part is 8 digits, the calendar knows the date, and it is older than keep days -/
theorem deleted_iff (cal : Cal) (rotation : Bool) (logID : Bytes) (keep nowUnit : Int) (name : Bytes) :
    deleted cal rotation logID keep nowUnit name = true ↔
      rotation = true ∧ keep > 0 ∧ (logID ++ [cDash]) <+: name ∧
      ∃ d, datePart name = some d ∧ d.length = 8 ∧ (∀ b ∈ d, isDigit b = true) ∧
        ∃ u, cal.unitOf d = some u ∧ nowUnit - u > keep := by
  unfold deleted retentionOn verdict
  constructor
  · intro h
    simp only [Bool.and_eq_true, decide_eq_true_eq, beq_iff_eq] at h
    obtain ⟨⟨hr, hk⟩, hv⟩ := h
    cases hc : candidate logID name with
    | none => rw [hc] at hv; cases hv
    | some d =>
      rw [hc] at hv
      simp only [] at hv
      obtain ⟨hp, hd, hl, hg⟩ := candidate_some hc
      cases hu : cal.unitOf d with
      | none => rw [hu] at hv; cases hv
      | some u =>
        rw [hu] at hv
        simp only [] at hv
        split at hv
        · rename_i hgt
          exact ⟨hr, hk, hp, d, hd, hl, hg, u, hu, hgt⟩
        · cases hv
  · intro ⟨hr, hk, hp, d, hd, hl, hg, u, hu, hgt⟩
    rw [candidate_of hp hd hl hg]
    simp only [hu, hr, hk, hgt]
    simp

/-- nothing without the prefix is ever removed -/
theorem not_deleted_of_no_prefix (cal : Cal) (rotation : Bool) (logID : Bytes) (keep nowUnit : Int)
    (name : Bytes) (h : ¬ (logID ++ [cDash]) <+: name) : deleted cal rotation logID keep nowUnit name = false := by
  cases hd : deleted cal rotation logID keep nowUnit name with
  | false => rfl
  | true => exact absurd ((deleted_iff ..).mp hd).2.2.1 h

/-! ### the pass over the directory -/

theorem clearDir_fst (cal : Cal) (logID : Bytes) (keep nowUnit : Int) (dir : Dir) :
    (clearDir cal logID keep nowUnit dir).1 =
      dir.filter (fun e => verdict cal logID keep nowUnit e.1 != .delete) := by
  induction dir with
  | nil => rfl
  | cons e r ih =>
    obtain ⟨n, f⟩ := e
    simp only [clearDir, List.filter_cons]
    cases hv : verdict cal logID keep nowUnit n <;> simp [ih]

theorem clearDir_del (cal : Cal) (logID : Bytes) (keep nowUnit : Int) (dir : Dir) :
    (clearDir cal logID keep nowUnit dir).2.1 =
      (dir.filter (fun e => verdict cal logID keep nowUnit e.1 == .delete)).map (·.1) := by
  induction dir with
  | nil => rfl
  | cons e r ih =>
    obtain ⟨n, f⟩ := e
    simp only [clearDir, List.filter_cons]
    cases hv : verdict cal logID keep nowUnit n <;> simp [ih]

end Logger
