/-
  Golib.Logger.FilesLemmas — facts about the model of `GetLogFiles` (Golib.Logger.Files):
  closed form of the listing, when the call cannot panic, the logger's own dated file is listed,
  and every listed name is served by `Read` from inside `<home>/logs`.
-/
import Golib.Logger.Files
import Golib.Logger.Model

namespace Logger

def listable (logID oname : Bytes) (e : DirEnt) : Bool := filesVerdict logID oname e = .list

def entPair (e : DirEnt) : Bytes × Int := (e.name, e.size)

/-- closed form of the loop when no entry panics -/
theorem logFilesLoop_closed (logID oname : Bytes) (ents : List DirEnt) (n : Nat) (hn : n < filesMax)
    (hp : ∀ e ∈ ents, filesVerdict logID oname e ≠ .panic) :
    logFilesLoop logID oname ents n =
      some (((ents.filter (listable logID oname)).take (filesMax - n)).map entPair) := by
  induction ents generalizing n with
  | nil => simp [logFilesLoop]
  | cons e r ih =>
    have hr : ∀ e ∈ r, filesVerdict logID oname e ≠ .panic := fun x hx => hp x (List.mem_cons_of_mem _ hx)
    have he := hp e List.mem_cons_self
    unfold logFilesLoop
    cases hv : filesVerdict logID oname e with
    | panic => exact absurd hv he
    | skip =>
      simp only []
      rw [ih n hn hr]
      have : listable logID oname e = false := by simp [listable, hv]
      simp [this]
    | list =>
      simp only []
      have hl : listable logID oname e = true := by simp [listable, hv]
      by_cases hfull : n + 1 ≥ filesMax
      · rw [if_pos hfull]
        have : filesMax - n = 1 := by omega
        simp [hl, this, entPair]
      · rw [if_neg hfull, ih (n + 1) (by omega) hr]
        have : filesMax - n = (filesMax - (n + 1)) + 1 := by omega
        rw [this]
        simp [hl, List.take_succ_cons, entPair]

/-- `GetLogFiles`, exactly: the first 100 listable entries in directory order, with their sizes -/
theorem logFiles_closed (logID oname : Bytes) (ents : List DirEnt)
    (hp : ∀ e ∈ ents, filesVerdict logID oname e ≠ .panic) :
    logFiles logID oname ents = some (((ents.filter (listable logID oname)).take filesMax).map entPair) := by
  have := logFilesLoop_closed logID oname ents 0 (by decide) hp
  simpa [logFiles] using this

/-! ### when the call cannot panic -/

theorem indexDot_mem {l : Bytes} {x : Nat} (h : indexDot l = some x) : cDot ∈ l.take (x + 1) := by
  induction l generalizing x with
  | nil => simp [indexDot] at h
  | cons b r ih =>
    unfold indexDot at h
    by_cases hb : b = cDot
    · simp [hb]
    · rw [if_neg hb] at h
      cases hi : indexDot r with
      | none => simp [hi] at h
      | some y =>
        simp [hi] at h
        subst h
        have := ih hi
        simp only [List.take_succ_cons, List.mem_cons]
        exact Or.inr this

theorem indexDot_append_nodot (a b : Bytes) (h : cDot ∉ a) :
    indexDot (a ++ b) = (indexDot b).map (· + a.length) := by
  induction a with
  | nil =>
    show indexDot b = (indexDot b).map (· + 0)
    cases indexDot b <;> rfl
  | cons x r ih =>
    have hx : ¬ x = cDot := fun e => h (by simp [e])
    have hr : cDot ∉ r := fun e => h (List.mem_cons_of_mem _ e)
    simp only [List.cons_append, indexDot, if_neg hx, ih hr, List.length_cons]
    cases indexDot b <;> simp
    omega

/-- no dot in the log id and the object name ⇒ no entry makes `GetLogFiles` panic -/
theorem filesVerdict_no_panic (logID oname : Bytes) (h1 : cDot ∉ logID) (h2 : cDot ∉ oname) (e : DirEnt) :
    filesVerdict logID oname e ≠ .panic := by
  unfold filesVerdict
  split
  · simp
  · split
    · simp
    · rename_i x hx
      split
      · simp
      · split
        · rename_i hpre
          split
          · rename_i hlt
            exfalso
            have hm := indexDot_mem hx
            have hpre' : filesPrefix logID oname <+: e.name := List.isPrefixOf_iff_prefix.mp hpre
            obtain ⟨t, ht⟩ := hpre'
            rw [← ht, List.take_append_of_le_length (by omega)] at hm
            have hm2 : cDot ∈ filesPrefix logID oname := List.mem_of_mem_take hm
            simp only [filesPrefix, List.mem_append, List.mem_singleton] at hm2
            have hd : cDot ≠ cDash := by decide
            rcases hm2 with ((h | h) | h) | h
            · exact h1 h
            · exact hd h
            · exact h2 h
            · exact hd h
          · split <;> simp
        · simp

/-! ### the logger's own dated file is listed -/

theorem own_file_listable (cal : Cal) (logID oname : Bytes) (u : Int) (sz : Int)
    (h1 : cDot ∉ logID) (h2 : cDot ∉ oname) (h8 : (cal.ymd u).length = 8) (hd : cDot ∉ cal.ymd u) :
    filesVerdict logID oname ⟨fileName cal logID oname true u, false, sz⟩ = .list := by
  have hname : fileName cal logID oname true u = filesPrefix logID oname ++ (cal.ymd u ++ asc ".log") := by
    simp [fileName, filesPrefix, List.append_assoc]
  have hnd : cDot ∉ filesPrefix logID oname ++ cal.ymd u := by
    simp only [filesPrefix, List.mem_append, List.mem_singleton]
    have hdd : cDot ≠ cDash := by decide
    rintro ((((h | h) | h) | h) | h)
    · exact h1 h
    · exact hdd h
    · exact h2 h
    · exact hdd h
    · exact hd h
  have hidx : indexDot (fileName cal logID oname true u) = some ((filesPrefix logID oname).length + 8) := by
    rw [hname, ← List.append_assoc, indexDot_append_nodot _ _ hnd]
    have : indexDot (asc ".log") = some 0 := by decide
    rw [this]
    simp [h8]
  unfold filesVerdict
  simp only [Bool.false_eq_true, if_false, hidx]
  split
  · rfl
  have hp : (filesPrefix logID oname).isPrefixOf (fileName cal logID oname true u) = true := by
    rw [List.isPrefixOf_iff_prefix, hname]
    exact List.prefix_append _ _
  rw [if_pos hp]
  have : ¬ (filesPrefix logID oname).length + 8 < (filesPrefix logID oname).length := by omega
  rw [if_neg this]
  simp

/-! ### every listed name is served by `Read` from inside the logs directory -/

theorem splitAux_noslash (n acc : Bytes) (h : cSlash ∉ n) : splitAux cSlash n acc = [acc.reverse ++ n] := by
  induction n generalizing acc with
  | nil => simp [splitAux]
  | cons b r ih =>
    have hb : ¬ b = cSlash := fun e => h (by simp [e])
    have hr : cSlash ∉ r := fun e => h (List.mem_cons_of_mem _ e)
    simp only [splitAux, if_neg hb]
    rw [ih _ hr]
    simp

/-- a plain entry name (no '/', not empty, not "." or "..") resolves to itself below `<home>/logs` -/
theorem resolve_plain (home n : Bytes) (h : cSlash ∉ n) (h0 : n ≠ []) (h1 : n ≠ [cDot]) (h2 : n ≠ [cDot, cDot]) :
    resolve home n = some [n] := by
  have hs : splitSlash n = [n] := by simpa [splitSlash] using splitAux_noslash n [] h
  have hpush : ∀ stk, pushSeg stk n = n :: stk := by
    intro stk
    unfold pushSeg
    rw [if_neg (by simp [h0, h1]), if_neg h2]
  have hop : openedPath home n = logsDir home ++ [n] := by
    simp only [openedPath, logsDir, normAbs, hs, List.foldl_append, List.foldl_cons, List.foldl_nil, hpush,
      List.reverse_cons]
  unfold resolve
  simp only [hop]
  have : (logsDir home).isPrefixOf (logsDir home ++ [n]) = true := by
    rw [List.isPrefixOf_iff_prefix]; exact List.prefix_append _ _
  rw [if_pos this]
  simp

/-- `Read` of a plain entry name looks up exactly that entry of `<home>/logs` -/
theorem read_plain (home n : Bytes) (snap : Snapshot) (endpos length : Int) (hl : 0 < length)
    (h : cSlash ∉ n) (h0 : n ≠ []) (h1 : n ≠ [cDot]) (h2 : n ≠ [cDot, cDot]) :
    read home n snap endpos length =
      match lookupEntry n snap with
      | none => .nilOpenErr
      | some e => readEntry e endpos length := by
  unfold read
  have : ¬ (n = [] ∨ length ≤ 0) := by
    rintro (h | h)
    · exact h0 h
    · omega
  rw [if_neg this, resolve_plain home n h h0 h1 h2]
  simp only [joinSlash]
  cases lookupEntry n snap <;> rfl

/-- what is listed: an entry of the directory, a regular file, with its size, of the shape
    `whatap-hook.log` or `logID-oname-` + 8 bytes + first dot -/
theorem logFilesLoop_sound (logID oname : Bytes) (ents : List DirEnt) (n : Nat) (out : List (Bytes × Int))
    (h : logFilesLoop logID oname ents n = some out) :
    ∀ p ∈ out, ∃ e ∈ ents, p = entPair e ∧ filesVerdict logID oname e = .list := by
  induction ents generalizing n out with
  | nil =>
    simp [logFilesLoop] at h
    subst h
    simp
  | cons e r ih =>
    unfold logFilesLoop at h
    cases hv : filesVerdict logID oname e with
    | panic => simp [hv] at h
    | skip =>
      simp only [hv] at h
      intro p hp
      obtain ⟨e', he', hq⟩ := ih n out h p hp
      exact ⟨e', List.mem_cons_of_mem _ he', hq⟩
    | list =>
      simp only [hv] at h
      by_cases hfull : n + 1 ≥ filesMax
      · rw [if_pos hfull] at h
        cases h
        intro p hp
        simp at hp
        exact ⟨e, List.mem_cons_self, by simp [hp, entPair], hv⟩
      · rw [if_neg hfull] at h
        cases hrest : logFilesLoop logID oname r (n + 1) with
        | none => simp [hrest] at h
        | some o =>
          simp [hrest] at h
          subst h
          intro p hp
          rcases List.mem_cons.mp hp with hp | hp
          · exact ⟨e, List.mem_cons_self, by simp [hp, entPair], hv⟩
          · obtain ⟨e', he', hq⟩ := ih (n + 1) o hrest p hp
            exact ⟨e', List.mem_cons_of_mem _ he', hq⟩

theorem listed_shape (logID oname : Bytes) (e : DirEnt) (h : filesVerdict logID oname e = .list) :
    e.isDir = false ∧
    (e.name = hookName ∨
      ((filesPrefix logID oname) <+: e.name ∧ indexDot e.name = some ((filesPrefix logID oname).length + 8))) := by
  unfold filesVerdict at h
  split at h
  · simp at h
  · rename_i hdir
    refine ⟨by simpa using hdir, ?_⟩
    split at h
    · simp at h
    · rename_i x hx
      split at h
      · rename_i hh; exact Or.inl hh
      · split at h
        · rename_i hpre
          split at h
          · simp at h
          · rename_i hlt
            split at h
            · rename_i h8
              refine Or.inr ⟨List.isPrefixOf_iff_prefix.mp hpre, ?_⟩
              rw [hx]
              congr 1
              omega
            · simp at h
        · simp at h

end Logger
