/-
  Golib.Logger.Rotate — rotation against concurrent writers, on atomic actions.

  All goroutines write through one `log.Logger`, whose mutex serialises `Output` (format +
  one `Write`) and `SetOutput`; so the writers form one sequence of `write` actions, and a
  rotation is two more actions somewhere in that sequence: closing the old handle and
  installing the new file as the logger's output.

    code before the repair:  closeOld … install      (process(): Close, then openFile/SetOutput)
    repaired code:           install … closeOld      (proposed/C17/fix-D35.diff)

  A write that finds the output still pointing at the closed handle fails and is dropped
  (`log.Logger` ignores the error).  What the runtime contributes (atomicity of one `Write`
  with O_APPEND, the scheduler) is assumed, not proved.
-/
import Golib.Basic

namespace Logger.Rot

structure RS where
  /-- the logger's output has been switched to the new file -/
  toNew : Bool
  oldOpen : Bool
  oldF : List Bytes
  newF : List Bytes
deriving DecidableEq, Repr

inductive RAct where
  | write (l : Bytes)
  | closeOld
  | install
deriving DecidableEq, Repr

def rstep (s : RS) : RAct → RS
  | .write l =>
    if s.toNew then { s with newF := s.newF ++ [l] }
    else if s.oldOpen then { s with oldF := s.oldF ++ [l] }
    else s
  | .closeOld => { s with oldOpen := false }
  | .install => { s with toNew := true }

def rrun (s : RS) (as : List RAct) : RS := as.foldl rstep s

def writes (ws : List Bytes) : List RAct := ws.map .write

theorem rrun_append (s : RS) (a b : List RAct) : rrun s (a ++ b) = rrun (rrun s a) b := by
  simp [rrun, List.foldl_append]

theorem rrun_writes (s : RS) (ws : List Bytes) :
    rrun s (writes ws) =
      if s.toNew then { s with newF := s.newF ++ ws }
      else if s.oldOpen then { s with oldF := s.oldF ++ ws }
      else s := by
  induction ws generalizing s with
  | nil => cases s; simp [rrun, writes]
  | cons w r ih =>
    have : rrun s (writes (w :: r)) = rrun (rstep s (.write w)) (writes r) := rfl
    rw [this, ih]
    cases s with
    | mk tn oo o n => cases tn <;> cases oo <;> simp [rstep]

/-- the start: output on the old file, which is open and holds `init` -/
def start (init : List Bytes) : RS := ⟨false, true, init, []⟩

/-- repaired order, any position of the two rotation actions among the writes -/
def fixedSchedule (w1 w2 w3 : List Bytes) : List RAct :=
  writes w1 ++ [.install] ++ writes w2 ++ [.closeOld] ++ writes w3

/-- order of the code before the repair -/
def oldSchedule (w1 w2 w3 : List Bytes) : List RAct :=
  writes w1 ++ [.closeOld] ++ writes w2 ++ [.install] ++ writes w3

/-- repaired order: every line is kept, whole and in order, old file first -/
theorem fixed_keeps_all (init w1 w2 w3 : List Bytes) :
    let s := rrun (start init) (fixedSchedule w1 w2 w3)
    s.oldF = init ++ w1 ∧ s.newF = w2 ++ w3 := by
  simp only [fixedSchedule, rrun_append, rrun_writes, start]
  simp [rrun, rstep]

/-- order before the repair: exactly the lines written between the two actions are dropped -/
theorem old_drops_between (init w1 w2 w3 : List Bytes) :
    let s := rrun (start init) (oldSchedule w1 w2 w3)
    s.oldF = init ++ w1 ∧ s.newF = w3 := by
  simp only [oldSchedule, rrun_append, rrun_writes, start]
  simp [rrun, rstep]

end Logger.Rot
