/-
  Golib.Logger.CacheHMap — the logger's id cache *is* C09's bounded insertion-ordered
  dictionary (`HMap.S`, the specification that C09 proves `StringLongLinkedMap`'s hash table
  + linked list refine): `Put` in mode LAST with `max = 1000`, the empty key refused, `Get`
  with the null value 0.  Consequences: the exact eviction semantics (which id is forgotten
  when) and an exact characterisation of suppression on every history.
-/
import Golib.Logger.RateLemmas
import Golib.HMap.SpecLemmas
import Golib.HMap.LinkedRefine

namespace Logger
open HMap

/-- `StringLongLinkedMap`: values add up under `Add`, `==` on values, the empty key is refused -/
def slDesc : Desc Bytes Int := { comb := (· + ·), veq := (· == ·), refuse := fun k => decide (k = []) }

theorem cacheGet_eq (c : Cache) (k : Bytes) : cacheGet c k = (AL.get c k).getD 0 := by
  induction c with
  | nil => rfl
  | cons e r ih =>
    obtain ⟨a, b⟩ := e
    simp only [cacheGet, AL.get]
    split
    · rfl
    · exact ih

theorem cacheHas_eq (c : Cache) (k : Bytes) : cacheHas c k = (AL.get c k).isSome := by
  induction c with
  | nil => rfl
  | cons e r ih =>
    obtain ⟨a, b⟩ := e
    simp only [cacheHas, AL.get]
    split
    · rfl
    · exact ih

theorem set_of_not_mem {c : Cache} {k : Bytes} (v : Int) (h : k ∉ AL.keys c) : AL.set c k v = c := by
  induction c with
  | nil => rfl
  | cons e r ih =>
    obtain ⟨a, b⟩ := e
    simp only [AL.keys, List.map_cons, List.mem_cons, not_or] at h
    have hak : ¬ a = k := fun e => h.1 e.symm
    simp only [AL.set, List.map_cons, hak, if_false]
    congr 1
    exact ih h.2

theorem cacheSet_eq {c : Cache} (k : Bytes) (v : Int) (hn : (AL.keys c).Nodup) : cacheSet c k v = AL.set c k v := by
  induction c with
  | nil => rfl
  | cons e r ih =>
    obtain ⟨a, b⟩ := e
    simp only [AL.keys, List.map_cons, List.nodup_cons] at hn
    simp only [cacheSet]
    by_cases hak : a = k
    · subst hak
      simp only [if_true, AL.set, List.map_cons]
      congr 1
      exact (set_of_not_mem v hn.1).symm
    · simp only [hak, if_false, AL.set, List.map_cons]
      congr 1
      exact ih hn.2

/-- the cache's `Put` is the dictionary's `put` (mode LAST, max 1000, empty key refused) -/
theorem cachePut_eq {c : Cache} (k : Bytes) (v : Int) (hn : (AL.keys c).Nodup) :
    cachePut c k v = (S.put slDesc ⟨c, cacheMax⟩ .last k v).1.ents := by
  unfold cachePut S.put S.putWith
  by_cases hk : k = []
  · simp [slDesc, hk]
  · simp only [hk, if_false, slDesc, decide_false, Bool.false_eq_true]
    rw [cacheHas_eq]
    cases hg : AL.get c k with
    | some old =>
      simp only [Option.isSome_some, if_true, AL.touch]
      exact cacheSet_eq k v hn
    | none =>
      simp only [Option.isSome_none, Bool.false_eq_true, if_false, AL.insertNew, Mode.atFront, AL.evictFront]
      have : (0 < cacheMax ∧ cacheMax ≤ c.length) ↔ c.length ≥ cacheMax := by
        unfold cacheMax; omega
      simp only [this]

theorem cachePut_nodup {c : Cache} (k : Bytes) (v : Int) (hn : (AL.keys c).Nodup) :
    (AL.keys (cachePut c k v)).Nodup := by
  rw [cachePut_eq k v hn]
  unfold S.put
  split
  · exact hn
  · exact S.WF_putWith (s := ⟨c, cacheMax⟩) hn .last k _

/-! ### exact eviction semantics -/

/-- a known id: its time is replaced, nothing moves, nothing is forgotten (re-logging an id
    does not renew its place in the queue) -/
theorem put_known {c : Cache} {k : Bytes} (v : Int) (hn : (AL.keys c).Nodup) (hk : k ∈ AL.keys c) (hne : k ≠ []) :
    cachePut c k v = AL.set c k v := by
  unfold cachePut
  rw [if_neg hne, cacheHas_eq]
  have : (AL.get c k).isSome = true := AL.get_isSome_iff.mpr hk
  rw [this, if_pos rfl]
  exact cacheSet_eq k v hn

/-- a new id below the capacity: appended, nothing forgotten -/
theorem put_new_below {c : Cache} {k : Bytes} (v : Int) (hk : k ∉ AL.keys c) (hne : k ≠ []) (hl : c.length < cacheMax) :
    cachePut c k v = c ++ [(k, v)] := by
  unfold cachePut
  rw [if_neg hne, cacheHas_eq]
  have : (AL.get c k).isSome = false := by
    cases h : AL.get c k with
    | none => rfl
    | some x => exact absurd (AL.get_isSome_iff.mp (by rw [h]; rfl)) hk
  have hl' : ¬ c.length ≥ cacheMax := by omega
  simp [this, hl']

/-- a new id at the capacity: exactly the id that entered the cache first is forgotten -/
theorem put_new_full {c : Cache} {k : Bytes} (v : Int) (hk : k ∉ AL.keys c) (hne : k ≠ []) (hl : c.length = cacheMax) :
    cachePut c k v = c.drop 1 ++ [(k, v)] := by
  unfold cachePut
  rw [if_neg hne, cacheHas_eq]
  have : (AL.get c k).isSome = false := by
    cases h : AL.get c k with
    | none => rfl
    | some x => exact absurd (AL.get_isSome_iff.mp (by rw [h]; rfl)) hk
  simp [this, hl]

/-- the cache never exceeds its capacity -/
theorem cachePut_length_le {c : Cache} (k : Bytes) (v : Int) (hl : c.length ≤ cacheMax) :
    (cachePut c k v).length ≤ cacheMax := by
  unfold cachePut
  split
  · exact hl
  · split
    · rw [length_cacheSet]; exact hl
    · split
      · simp only [List.length_append, List.length_drop, List.length_cons, List.length_nil]
        unfold cacheMax at *
        omega
      · simp only [List.length_append, List.length_cons, List.length_nil]
        omega

/-! ### the cache after any history -/

/-- the `lastLog.Put(id, now)` an operation performs (rate-limited line written with a positive interval) -/
def putOf (st : St) (op : Op) : List (Bytes × Int) :=
  if st.conf.interval > 0 then ratedOf st op else []

def puts (cal : Cal) (st : St) : List Op → List (Bytes × Int)
  | [] => []
  | o :: r => putOf st o ++ puts cal (step cal st o).1 r

/-- the dictionary after a list of `Put`s -/
def dictAfter (c : Cache) (ps : List (Bytes × Int)) : Cache := ps.foldl (fun c e => cachePut c e.1 e.2) c

theorem checkOk_cache (c : Cache) (id : Bytes) (sec now : Int) :
    (checkOk c id sec now).2 = if sec > 0 ∧ (checkOk c id sec now).1 = true then cachePut c id now else c := by
  rcases checkOk_cases c id sec now with ⟨h1, hc⟩ | ⟨h1, _, hc⟩ | ⟨h1, _, hc⟩ <;> rw [hc] <;> simp [h1]

/-- one operation changes the cache by exactly its `Put` -/
theorem step_cache (cal : Cal) (st : St) (op : Op) :
    (step cal st op).1.cache = dictAfter st.cache (putOf st op) := by
  unfold putOf dictAfter
  cases op with
  | log t m id msg =>
    simp only [step, logCall, St.append_cache, ratedOf]
    rcases logDecide_cases t m id msg st with ⟨_, hd⟩ | ⟨_, hr, hd⟩ | ⟨rid, _, hr, hok, hd⟩ | ⟨rid, _, hr, hok, hd⟩
    · rw [hd]
      cases m.rateId id (if m.ln = true then msg ++ [cNl] else msg) <;> simp <;> split <;> rfl
    · rw [hd, hr]; simp
    · rw [hd, hr]
      simp only [if_true]
      rw [checkOk_cache, hok]
      by_cases hs : st.conf.interval > 0 <;> simp [hs]
    · rw [hd, hr]
      have : ¬ (Dec.rate = Dec.written) := by simp
      simp only [this, if_false]
      split <;> rfl
  | proc t => simp only [step, process_cache, ratedOf]; split <;> rfl
  | clr t => simp only [step, ratedOf]; rw [(clearOld_frame cal t st).2.2.2.2.2.1]; split <;> rfl
  | setLevel lv => simp only [step, ratedOf]; split <;> rfl
  | applyConfig rot keep interval level => simp only [step, ratedOf]; split <;> rfl
  | read t file endpos length snap =>
    simp only [step, ratedOf]
    cases hr : read st.home file snap endpos length with
    | nilQuiet => simp only []; split <;> rfl
    | data d => simp only []; split <;> rfl
    | nilOpenErr =>
      simp only [logInternalError, St.append_cache]
      rw [checkOk_cache]
      by_cases hs : st.conf.interval > 0 <;>
        cases hok : (checkOk st.cache (truncate (asc "Read log file  ") idLen) st.conf.interval t).1 <;> simp [hs, hok]
    | nilReadErr =>
      simp only [logInternalError, St.append_cache]
      rw [checkOk_cache]
      by_cases hs : st.conf.interval > 0 <;>
        cases hok : (checkOk st.cache (truncate (asc "WA1000901  Read Error  ") idLen) st.conf.interval t).1 <;> simp [hs, hok]

theorem dictAfter_append (c : Cache) (a b : List (Bytes × Int)) : dictAfter c (a ++ b) = dictAfter (dictAfter c a) b := by
  simp [dictAfter, List.foldl_append]

/-- after any history the cache is the dictionary after the history's `Put`s, in order -/
theorem run_cache (cal : Cal) (st : St) (ops : List Op) :
    (run cal st ops).cache = dictAfter st.cache (puts cal st ops) := by
  induction ops generalizing st with
  | nil => rfl
  | cons o r ih =>
    rw [run_cons, ih, step_cache]
    simp only [puts]
    rw [dictAfter_append]

/-- … which is a run of C09's dictionary specification on those `Put`s -/
theorem dictAfter_is_hmap (ps : List (Bytes × Int)) (c : Cache) (hn : (AL.keys c).Nodup) :
    dictAfter c ps = (ps.foldl (fun (s : S Bytes Int) e => (S.put slDesc s .last e.1 e.2).1) ⟨c, cacheMax⟩).ents ∧
    (AL.keys (dictAfter c ps)).Nodup := by
  induction ps generalizing c with
  | nil => exact ⟨rfl, hn⟩
  | cons e r ih =>
    have h1 := cachePut_eq e.1 e.2 hn
    have h2 := cachePut_nodup e.1 e.2 hn
    obtain ⟨a, b⟩ := ih (cachePut c e.1 e.2) h2
    simp only [dictAfter, List.foldl_cons] at a b ⊢
    refine ⟨?_, b⟩
    rw [a]
    congr 1
    have hmax : (S.put slDesc ⟨c, cacheMax⟩ .last e.1 e.2).1.max = cacheMax := by
      unfold S.put S.putWith
      split
      · rfl
      · split <;> rfl
    rw [h1]
    cases hS : (S.put slDesc ⟨c, cacheMax⟩ .last e.1 e.2).1 with
    | mk ents mx =>
      rw [hS] at hmax
      simp only [] at hmax
      rw [hmax]

/-- suppression, exactly, after ANY history of a fresh logger (no bound on its length, any
    settings): a call is suppressed by the limiter iff it passes the gate, is rate limited with
    id `i`, the interval `s` is positive and `t < T + s·1000`, where `T` is what C09's
    dictionary holds for `i` after the history's `Put`s (0 when it holds nothing: never put,
    or forgotten by eviction) -/
theorem suppressed_iff (cal : Cal) (st0 : St) (ops : List Op) (t : Int) (m : Meth) (id msg : Bytes)
    (h0 : st0.cache = []) :
    let st := run cal st0 ops
    let dict := dictAfter [] (puts cal st0 ops)
    (logDecide t m id msg st).1 = .rate ↔
      m.passes st.conf.level = true ∧ ∃ i, m.rateId id (if m.ln then msg ++ [cNl] else msg) = some i ∧
        st.conf.interval > 0 ∧ t < (AL.get dict i).getD 0 + st.conf.interval * 1000 := by
  simp only []
  have hc : (run cal st0 ops).cache = dictAfter [] (puts cal st0 ops) := by rw [run_cache, h0]
  rw [← hc]
  simp only [← cacheGet_eq]
  rcases logDecide_cases t m id msg (run cal st0 ops) with ⟨hp, hd⟩ | ⟨hp, hr, hd⟩ | ⟨rid, hp, hr, hok, hd⟩ | ⟨rid, hp, hr, hok, hd⟩
  · rw [hd]; simp [hp]
  · rw [hd]; simp [hr]
  · rw [hd]
    simp only [reduceCtorEq, false_iff, not_and, not_exists]
    intro _ i hi hs hlt
    rw [hr] at hi; injection hi with hi; subst hi
    rcases checkOk_cases (run cal st0 ops).cache rid (run cal st0 ops).conf.interval t with ⟨h1, _⟩ | ⟨_, _, hc'⟩ | ⟨_, h2, _⟩
    · exact h1 hs
    · rw [hc'] at hok; cases hok
    · exact h2 hlt
  · rw [hd]
    simp only [true_iff]
    refine ⟨hp, rid, hr, ?_⟩
    rcases checkOk_cases (run cal st0 ops).cache rid (run cal st0 ops).conf.interval t with ⟨_, hc'⟩ | ⟨h1, h2, _⟩ | ⟨_, _, hc'⟩
    · rw [hc'] at hok; cases hok
    · exact ⟨h1, h2⟩
    · rw [hc'] at hok; cases hok

/-- down to the hash table: any state of C09's model of `StringLongLinkedMap` (buckets + insertion
    order, for every hash function and growth policy) that satisfies its invariant and is bounded
    by 1000 shows, through `Get`/`Put`, exactly `cacheGet`/`cachePut` of its entry list -/
theorem cache_refined_by_table {hash : Bytes → Nat} {thr : Nat → Nat} (m : LMap Bytes Int)
    (h : LMap.Inv hash slDesc m) (hm : m.max = cacheMax) (k : Bytes) (v : Int) :
    (LMap.abs hash (m.put hash thr slDesc .last k v).1).ents = cachePut (LMap.abs hash m).ents k v ∧
    (m.get hash k).getD 0 = cacheGet (LMap.abs hash m).ents k ∧
    LMap.Inv hash slDesc (m.put hash thr slDesc .last k v).1 := by
  obtain ⟨hi, _, ha⟩ := LMap.put_refines (thr := thr) h .last k v
  have hwf : (AL.keys (LMap.abs hash m).ents).Nodup := LMap.abs_WF h
  refine ⟨?_, ?_, hi⟩
  · rw [ha, cachePut_eq k v hwf]
    have : LMap.abs hash m = ⟨(LMap.abs hash m).ents, cacheMax⟩ := by
      rw [← hm]; rfl
    rw [← this]
  · rw [cacheGet_eq, LMap.abs_get h k]
    rfl

/-! ### the table over whole histories -/

/-- a rate-limited call that passes the gate under a positive interval is decided by the table
    alone, after ANY history: written iff the table does not hold its id, or holds it with a
    time at least one interval ago -/
theorem written_iff (cal : Cal) (st0 : St) (ops : List Op) (t : Int) (m : Meth) (id msg i : Bytes)
    (h0 : st0.cache = [])
    (hp : m.passes (run cal st0 ops).conf.level = true)
    (hid : m.rateId id (if m.ln then msg ++ [cNl] else msg) = some i)
    (hs : (run cal st0 ops).conf.interval > 0)
    (hclock : (run cal st0 ops).conf.interval * 1000 ≤ t) :
    let dict := dictAfter [] (puts cal st0 ops)
    (logDecide t m id msg (run cal st0 ops)).1 = .written ↔
      AL.get dict i = none ∨ ∃ T, AL.get dict i = some T ∧ T + (run cal st0 ops).conf.interval * 1000 ≤ t := by
  simp only []
  have hsup := suppressed_iff cal st0 ops t m id msg h0
  simp only [] at hsup
  have hdec : (logDecide t m id msg (run cal st0 ops)).1 = .written ↔ ¬ (logDecide t m id msg (run cal st0 ops)).1 = .rate := by
    rcases logDecide_cases t m id msg (run cal st0 ops) with ⟨hp', _⟩ | ⟨_, hr, _⟩ | ⟨rid, _, _, _, hd⟩ | ⟨rid, _, _, _, hd⟩
    · rw [hp] at hp'; cases hp'
    · rw [hid] at hr; cases hr
    · rw [hd]; simp
    · rw [hd]; simp
  rw [hdec, hsup]
  constructor
  · intro hn
    cases hg : AL.get (dictAfter [] (puts cal st0 ops)) i with
    | none => left; rfl
    | some T =>
      right
      refine ⟨T, rfl, ?_⟩
      have : ¬ t < T + (run cal st0 ops).conf.interval * 1000 := by
        intro hlt
        exact hn ⟨hp, i, hid, hs, by rw [hg]; exact hlt⟩
      omega
  · rintro (hnone | ⟨T, hT, hle⟩) ⟨_, j, hj, _, hlt⟩
    · rw [hid] at hj; injection hj with hj; subst hj
      rw [hnone] at hlt
      simp only [Option.getD_none] at hlt
      omega
    · rw [hid] at hj; injection hj with hj; subst hj
      rw [hT] at hlt
      simp only [Option.getD_some] at hlt
      omega

/-- closed form (C09's `foldl_put_keepLast`): when the `Put`s carry pairwise distinct new
    non-empty ids, the table afterwards holds exactly the most recent 1000 entries -/
theorem table_after_new_ids (c : Cache) (l : List (Bytes × Int)) (hn : (AL.keys (c ++ l)).Nodup)
    (hne : ∀ e ∈ l, e.1 ≠ []) (hb : c.length ≤ cacheMax) :
    dictAfter c l = AL.keepLast cacheMax (c ++ l) := by
  have hnc : (AL.keys c).Nodup := by
    rw [S.keys_append] at hn
    exact (List.nodup_append.mp hn).1
  rw [(dictAfter_is_hmap l c hnc).1]
  rw [S.foldl_put_keepLast slDesc l c cacheMax hn (fun e he => by simp [slDesc, hne e he]) (Or.inr hb)]

/-- hence: after 1000 or more new ids everything the table held before is forgotten -/
theorem ids_forgotten (c : Cache) (l : List (Bytes × Int)) (hn : (AL.keys (c ++ l)).Nodup)
    (hne : ∀ e ∈ l, e.1 ≠ []) (hb : c.length ≤ cacheMax) (hl : cacheMax ≤ l.length) (k : Bytes) (hk : k ∈ AL.keys c) :
    AL.get (dictAfter c l) k = none := by
  rw [table_after_new_ids c l hn hne hb]
  apply AL.get_none_iff.mpr
  unfold AL.keepLast
  have hmax : 0 < cacheMax := by decide
  by_cases hlt : cacheMax < (c ++ l).length
  · rw [if_pos ⟨hmax, hlt⟩]
    have hd : (c ++ l).length - cacheMax = c.length + (l.length - cacheMax) := by
      simp only [List.length_append]; omega
    rw [hd, ← List.drop_drop, List.drop_left]
    intro hmem
    have hsub : (AL.keys (l.drop (l.length - cacheMax))).Sublist (AL.keys l) := (List.drop_sublist _ _).map _
    have hkl : k ∈ AL.keys l := hsub.subset hmem
    rw [S.keys_append, List.nodup_append] at hn
    exact hn.2.2 k hk k hkl rfl
  · -- then c is empty
    have : c.length = 0 := by simp only [List.length_append] at hlt; omega
    have hc : c = [] := List.length_eq_zero_iff.mp this
    rw [hc] at hk
    cases hk

/-- … and not earlier than that: an id with `y` younger entries behind it survives any further
    `Put`s of other ids as long as `y` + their number stays below the capacity -/
theorem id_survives (pre young : Cache) (i : Bytes) (v : Int) (ps : List (Bytes × Int))
    (hn : (AL.keys (pre ++ (i, v) :: young)).Nodup) (hi : i ≠ [])
    (hps : ∀ e ∈ ps, e.1 ≠ i) (hlen : (pre ++ (i, v) :: young).length ≤ cacheMax)
    (hroom : young.length + ps.length < cacheMax) :
    AL.get (dictAfter (pre ++ (i, v) :: young) ps) i = some v := by
  induction ps generalizing pre young with
  | nil =>
    simp only [dictAfter, List.foldl_nil]
    rw [AL.get_append]
    have : AL.get pre i = none := by
      apply AL.get_none_iff.mpr
      intro hm
      rw [S.keys_append, List.nodup_append] at hn
      exact hn.2.2 i hm i (by simp [AL.keys]) rfl
    simp [this, AL.get]
  | cons e r ih =>
    obtain ⟨k, w⟩ := e
    have hki : k ≠ i := hps (k, w) (by simp)
    have hr : ∀ e ∈ r, e.1 ≠ i := fun e he => hps e (by simp [he])
    simp only [List.length_cons] at hroom
    simp only [dictAfter, List.foldl_cons]
    change AL.get (dictAfter (cachePut (pre ++ (i, v) :: young) k w) r) i = some v
    by_cases hk0 : k = []
    · have : cachePut (pre ++ (i, v) :: young) k w = pre ++ (i, v) :: young := by simp [cachePut, hk0]
      rw [this]
      exact ih pre young hn hr hlen (by omega)
    · by_cases hmem : k ∈ AL.keys (pre ++ (i, v) :: young)
      · -- known id: value replaced in place
        rw [put_known w hn hmem hk0]
        have hset : AL.set (pre ++ (i, v) :: young) k w = AL.set pre k w ++ (i, v) :: AL.set young k w := by
          have : ¬ i = k := fun e => hki e.symm
          simp [AL.set, this]
        rw [hset]
        refine ih _ _ ?_ hr ?_ ?_
        · have := AL.keys_set (pre ++ (i, v) :: young) k w
          rw [hset] at this
          rw [this]; exact hn
        · simpa using hlen
        · rw [AL.length_set]; omega
      · by_cases hfull : (pre ++ (i, v) :: young).length = cacheMax
        · -- at capacity: the eldest goes; it is not `i` because something older than `i` exists
          rw [put_new_full w hmem hk0 hfull]
          cases pre with
          | nil =>
            simp only [List.nil_append, List.length_cons] at hfull
            omega
          | cons p pre' =>
            have : List.drop 1 (p :: pre' ++ (i, v) :: young) ++ [(k, w)] = pre' ++ (i, v) :: (young ++ [(k, w)]) := by simp
            rw [this]
            refine ih _ _ ?_ hr ?_ ?_
            · have hsub : (AL.keys (pre' ++ (i, v) :: young)).Sublist (AL.keys (p :: pre' ++ (i, v) :: young)) :=
                (List.sublist_cons_self _ _).map _
              have hn' := List.Nodup.sublist hsub hn
              have e1 : pre' ++ (i, v) :: (young ++ [(k, w)]) = (pre' ++ (i, v) :: young) ++ [(k, w)] := by simp
              rw [e1, S.keys_append, List.nodup_append]
              refine ⟨hn', by simp [AL.keys], ?_⟩
              intro a ha b hb
              simp [AL.keys] at hb
              subst hb
              intro hab; subst hab
              exact hmem (hsub.subset ha)
            · simp at hfull ⊢
              omega
            · simp
              omega
        · have hlt : (pre ++ (i, v) :: young).length < cacheMax := by omega
          rw [put_new_below w hmem hk0 hlt]
          have : pre ++ (i, v) :: young ++ [(k, w)] = pre ++ (i, v) :: (young ++ [(k, w)]) := by simp
          rw [this]
          refine ih _ _ ?_ hr ?_ ?_
          · have e1 : pre ++ (i, v) :: (young ++ [(k, w)]) = (pre ++ (i, v) :: young) ++ [(k, w)] := by simp
            rw [e1, S.keys_append, List.nodup_append]
            refine ⟨hn, by simp [AL.keys], ?_⟩
            intro a ha b hb
            simp [AL.keys] at hb
            subst hb
            intro hab; subst hab
            exact hmem ha
          · simp only [List.length_append, List.length_cons, List.length_nil] at hlt ⊢
            omega
          · simp only [List.length_append, List.length_cons, List.length_nil]
            omega

end Logger
