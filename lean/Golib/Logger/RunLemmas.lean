/-
  Golib.Logger.RunLemmas — files are append-only, lines arrive in call order, a cycle
  rotates to the file named for its date, retention at the level of the logger state.
-/
import Golib.Logger.RetentionLemmas

namespace Logger

/-! ### the directory -/

theorem dirAppend_nil (dir : Dir) (n : Bytes) : dirAppend dir n [] = dir := by
  induction dir with
  | nil => rfl
  | cons e r ih =>
    obtain ⟨k, f⟩ := e
    simp only [dirAppend]
    split
    · simp
    · rw [ih]

theorem dirAppend_append (dir : Dir) (n : Bytes) (a b : List Chunk) :
    dirAppend (dirAppend dir n a) n b = dirAppend dir n (a ++ b) := by
  induction dir with
  | nil => rfl
  | cons e r ih =>
    obtain ⟨k, f⟩ := e
    simp only [dirAppend]
    split
    · rename_i hk
      simp [dirAppend, hk]
    · rename_i hk
      simp only [dirAppend, hk, if_false, ih]

theorem dirGet_dirAppend_same (dir : Dir) (n : Bytes) (cs : List Chunk) :
    dirGet (dirAppend dir n cs) n = (dirGet dir n).map (fun f => { f with recs := cs.reverse ++ f.recs }) := by
  induction dir with
  | nil => rfl
  | cons e r ih =>
    obtain ⟨k, f⟩ := e
    simp only [dirAppend, dirGet]
    split
    · rename_i hk
      simp [dirGet, hk]
    · rename_i hk
      simp only [dirGet, hk, if_false, ih]

theorem dirGet_dirAppend_other (dir : Dir) (n m : Bytes) (cs : List Chunk) (h : m ≠ n) :
    dirGet (dirAppend dir n cs) m = dirGet dir m := by
  induction dir with
  | nil => rfl
  | cons e r ih =>
    obtain ⟨k, f⟩ := e
    simp only [dirAppend, dirGet]
    split
    · rename_i hk
      subst hk
      have : ¬ k = m := fun e => h e.symm
      simp [dirGet, this]
    · rename_i hk
      simp only [dirGet, ih]

/-- `g` holds what `f` held, and possibly more at the end -/
def File.extends (g f : File) : Prop := g.init = f.init ∧ ∃ cs, g.recs = cs ++ f.recs

theorem File.extends_refl (f : File) : f.extends f := ⟨rfl, [], rfl⟩

theorem File.extends_trans {a b c : File} (h1 : a.extends b) (h2 : b.extends c) : a.extends c := by
  obtain ⟨i1, c1, r1⟩ := h1
  obtain ⟨i2, c2, r2⟩ := h2
  exact ⟨i1.trans i2, c1 ++ c2, by rw [r1, r2, List.append_assoc]⟩

/-- in call order: the chunks of `f` are a prefix of the chunks of an extension -/
theorem File.extends_chunks {g f : File} (h : g.extends f) : f.chunks <+: g.chunks := by
  obtain ⟨_, cs, r⟩ := h
  exact ⟨cs.reverse, by simp [File.chunks, r]⟩

theorem dirAppend_mem {dir : Dir} {n : Bytes} {f : File} (m : Bytes) (cs : List Chunk) (h : (n, f) ∈ dir) :
    ∃ g, (n, g) ∈ dirAppend dir m cs ∧ g.extends f ∧ (n ≠ m → g = f) := by
  induction dir with
  | nil => cases h
  | cons e r ih =>
    obtain ⟨k, f0⟩ := e
    simp only [dirAppend]
    rcases List.mem_cons.mp h with h | h
    · injection h with h1 h2
      subst h1; subst h2
      split
      · rename_i hk
        exact ⟨_, List.mem_cons_self, ⟨rfl, cs.reverse, rfl⟩, fun hne => absurd hk hne⟩
      · exact ⟨f, List.mem_cons_self, File.extends_refl f, fun _ => rfl⟩
    · split
      · exact ⟨f, List.mem_cons_of_mem _ h, File.extends_refl f, fun _ => rfl⟩
      · obtain ⟨g, hg, he, hn⟩ := ih h
        exact ⟨g, List.mem_cons_of_mem _ hg, he, hn⟩

/-! ### appending to the open file -/

@[simp] theorem St.append_cur (st : St) (cs : List Chunk) : (st.append cs).cur = st.cur := by
  unfold St.append; split <;> rfl
@[simp] theorem St.append_conf (st : St) (cs : List Chunk) : (st.append cs).conf = st.conf := by
  unfold St.append; split <;> rfl
@[simp] theorem St.append_lastRot (st : St) (cs : List Chunk) : (st.append cs).lastRot = st.lastRot := by
  unfold St.append; split <;> rfl
@[simp] theorem St.append_lastUnit (st : St) (cs : List Chunk) : (st.append cs).lastUnit = st.lastUnit := by
  unfold St.append; split <;> rfl
@[simp] theorem St.append_last (st : St) (cs : List Chunk) : (st.append cs).last = st.last := by
  unfold St.append; split <;> rfl
@[simp] theorem St.append_cache (st : St) (cs : List Chunk) : (st.append cs).cache = st.cache := by
  unfold St.append; split <;> rfl
@[simp] theorem St.append_home (st : St) (cs : List Chunk) : (st.append cs).home = st.home := by
  unfold St.append; split <;> rfl

theorem St.append_dir (st : St) (cs : List Chunk) :
    (st.append cs).dir = (match st.cur with | some n => dirAppend st.dir n cs | none => st.dir) := by
  unfold St.append; cases st.cur <;> rfl

theorem St.append_nil_dir (st : St) : (st.append []).dir = st.dir := by
  rw [St.append_dir]; cases st.cur <;> simp [dirAppend_nil]

/-! ### what one call emits -/

/-- the chunks a call appends to the open file, in order (cycle operations are not calls) -/
def emit (st : St) : Op → List Chunk
  | .log t m id msg => if (logDecide t m id msg st).1 = .written then [lineOf m id msg] else []
  | .read t file endpos length snap =>
    match read st.home file snap endpos length with
    | .nilOpenErr =>
      if (checkOk st.cache (truncate (asc "Read log file  ") idLen) st.conf.interval t).1
      then [.toReset (ansiRed ++ asc "[Error] " ++ asc "Read log file  ")] else []
    | .nilReadErr =>
      if (checkOk st.cache (truncate (asc "WA1000901  Read Error  ") idLen) st.conf.interval t).1
      then [.toReset (ansiRed ++ asc "[Error] " ++ asc "WA1000901  Read Error  ")] else []
    | _ => []
  | _ => []

/-- a call, as opposed to a background cycle -/
def Op.isCall : Op → Bool
  | .proc _ | .clr _ => false
  | _ => true

theorem logCall_frame (t : Int) (m : Meth) (id msg : Bytes) (st : St) :
    let st' := (logCall t m id msg st).1
    st'.cur = st.cur ∧ st'.conf = st.conf ∧ st'.lastRot = st.lastRot ∧ st'.lastUnit = st.lastUnit ∧
    st'.last = st.last ∧ st'.home = st.home ∧
    st'.dir = (st.append (emit st (.log t m id msg))).dir := by
  simp only [emit, logCall, St.append_cur, St.append_conf, St.append_lastRot, St.append_lastUnit,
    St.append_last, St.append_home, St.append_dir, and_self]

theorem logInternalError_frame (t : Int) (p : Bytes) (st : St) :
    let st' := logInternalError t p st
    st'.cur = st.cur ∧ st'.conf = st.conf ∧ st'.lastRot = st.lastRot ∧ st'.lastUnit = st.lastUnit ∧
    st'.last = st.last ∧ st'.home = st.home ∧
    st'.dir = (st.append (if (checkOk st.cache (truncate p idLen) st.conf.interval t).1
                          then [.toReset (ansiRed ++ asc "[Error] " ++ p)] else [])).dir := by
  simp only [logInternalError, St.append_cur, St.append_conf, St.append_lastRot, St.append_lastUnit,
    St.append_last, St.append_home, St.append_dir, and_self]

/-- a call changes nothing but the id cache, the level/settings it was asked to change, and the
    open file, to which it appends exactly `emit` -/
theorem step_call_frame (cal : Cal) (st : St) (op : Op) (hc : op.isCall = true) :
    let st' := (step cal st op).1
    st'.cur = st.cur ∧ st'.lastRot = st.lastRot ∧ st'.lastUnit = st.lastUnit ∧ st'.last = st.last ∧
    st'.home = st.home ∧ st'.conf.logID = st.conf.logID ∧ st'.conf.oname = st.conf.oname ∧
    st'.dir = (st.append (emit st op)).dir := by
  cases op with
  | log t m id msg =>
    have := logCall_frame t m id msg st
    simp only [step]
    obtain ⟨h1, h2, h3, h4, h5, h6, h7⟩ := this
    exact ⟨h1, h3, h4, h5, h6, by rw [h2], by rw [h2], h7⟩
  | proc t => cases hc
  | clr t => cases hc
  | setLevel lv => simp [step, emit, St.append_nil_dir]
  | applyConfig rot keep interval level => simp [step, emit, St.append_nil_dir]
  | read t file endpos length snap =>
    simp only [step, emit]
    cases hr : read st.home file snap endpos length with
    | nilQuiet => simp [St.append_nil_dir]
    | data d => simp [St.append_nil_dir]
    | nilOpenErr =>
      have := logInternalError_frame t (asc "Read log file  ") st
      simp only []
      obtain ⟨h1, h2, h3, h4, h5, h6, h7⟩ := this
      exact ⟨h1, h3, h4, h5, h6, by rw [h2], by rw [h2], h7⟩
    | nilReadErr =>
      have := logInternalError_frame t (asc "WA1000901  Read Error  ") st
      simp only []
      obtain ⟨h1, h2, h3, h4, h5, h6, h7⟩ := this
      exact ⟨h1, h3, h4, h5, h6, by rw [h2], by rw [h2], h7⟩

/-- everything a sequence of calls emits, in call order -/
def emits (cal : Cal) (st : St) : List Op → List Chunk
  | [] => []
  | o :: r => emit st o ++ emits cal (step cal st o).1 r

theorem run_cons (cal : Cal) (st : St) (o : Op) (r : List Op) :
    run cal st (o :: r) = run cal (step cal st o).1 r := rfl

/-- between two cycles: the open file does not change and receives exactly the emitted
    chunks, whole and in call order; nothing else in the directory changes -/
theorem calls_in_order (cal : Cal) (st : St) (ops : List Op) (h : ∀ o ∈ ops, o.isCall = true) :
    (run cal st ops).cur = st.cur ∧ (run cal st ops).dir = (st.append (emits cal st ops)).dir := by
  induction ops generalizing st with
  | nil => exact ⟨rfl, by simp [emits, run, St.append_nil_dir]⟩
  | cons o r ih =>
    have ho := h o List.mem_cons_self
    have hr : ∀ o' ∈ r, o'.isCall = true := fun o' hm => h o' (List.mem_cons_of_mem _ hm)
    obtain ⟨c1, _, _, _, _, _, _, d1⟩ := step_call_frame cal st o ho
    obtain ⟨c2, d2⟩ := ih (step cal st o).1 hr
    rw [run_cons]
    refine ⟨c2.trans c1, ?_⟩
    rw [d2, St.append_dir, St.append_dir, c1, d1, St.append_dir]
    cases st.cur with
    | none => rfl
    | some n => simp only [emits]; rw [dirAppend_append]

/-! ### the cycle -/

theorem clearOld_frame (cal : Cal) (now : Int) (st : St) :
    let st' := (clearOld cal now st).1
    st'.cur = st.cur ∧ st'.conf = st.conf ∧ st'.lastRot = st.lastRot ∧ st'.lastUnit = st.lastUnit ∧
    st'.last = st.last ∧ st'.cache = st.cache ∧ st'.home = st.home := by
  unfold clearOld
  split <;> simp

/-- the name under which the logger would open its file now -/
def St.nameAt (cal : Cal) (st : St) (rot : Bool) (u : Int) : Bytes :=
  fileName cal st.conf.logID st.conf.oname rot u

/-- the open file is the one named for the date and rotation flag of the last (re)opening -/
def St.Inv (cal : Cal) (st : St) : Prop :=
  ∀ n, st.cur = some n → n = st.nameAt cal st.lastRot st.lastUnit

theorem openFile_cur (cal : Cal) (now : Int) (st : St) :
    (openFile cal now st).cur = (match st.cur with | some n => some n | none => some (st.nameAt cal st.conf.rotation (unit now))) := by
  unfold openFile
  cases h : st.cur with
  | some n => simp [h]
  | none => simp [St.nameAt]

theorem openFile_frame (cal : Cal) (now : Int) (st : St) :
    let st' := openFile cal now st
    st'.conf = st.conf ∧ st'.lastRot = st.lastRot ∧ st'.lastUnit = st.lastUnit ∧ st'.last = st.last ∧
    st'.cache = st.cache ∧ st'.home = st.home := by
  unfold openFile
  cases st.cur <;> simp

theorem new_inv (cal : Cal) (t0 : Int) (conf : Conf) (home : Bytes) (dir : Dir) :
    (St.new cal t0 conf home dir).Inv cal := by
  intro n hn
  unfold St.new at hn ⊢
  simp only [] at hn ⊢
  rw [openFile_cur] at hn
  obtain ⟨h1, h2, h3, _⟩ := openFile_frame cal t0 ⟨conf, home, [], none, t0, unit t0, conf.rotation, dir⟩
  simp only [] at hn h1 h2 h3
  injection hn with hn
  rw [← hn]
  simp only [St.nameAt, h1, h2, h3]

/-- after a cycle at time `t` the open file is the one named for the day of `t` (and the
    rotation setting in force); the invariant is kept -/
theorem process_rotates (cal : Cal) (t : Int) (st : St) (hi : st.Inv cal) :
    let st' := (process cal t st).1
    st'.cur = some (st.nameAt cal st.conf.rotation (unit t)) ∧ st'.Inv cal ∧
    st'.conf = st.conf ∧ st'.lastRot = st.conf.rotation ∧ st'.lastUnit = unit t := by
  unfold process
  simp only []
  -- the state after the optional retention pass
  generalize hs1 : (if t > st.last + 60000 then clearOld cal t { st with last := t } else (st, [])) = p1
  have f1 : p1.1.cur = st.cur ∧ p1.1.conf = st.conf ∧ p1.1.lastRot = st.lastRot ∧ p1.1.lastUnit = st.lastUnit := by
    rw [← hs1]
    split
    · obtain ⟨a, b, c, d, _⟩ := clearOld_frame cal t { st with last := t }
      exact ⟨a, b, c, d⟩
    · exact ⟨rfl, rfl, rfl, rfl⟩
  obtain ⟨st1, del⟩ := p1
  simp only [] at f1 ⊢
  obtain ⟨c1, k1, r1, u1⟩ := f1
  split
  · -- reopened
    rename_i hcond
    obtain ⟨a, b, c, _⟩ := openFile_frame cal t { st1 with cur := none, lastRot := st1.conf.rotation, lastUnit := unit t }
    simp only [] at a b c
    have hc := openFile_cur cal t { st1 with cur := none, lastRot := st1.conf.rotation, lastUnit := unit t }
    simp only [] at hc
    refine ⟨?_, ?_, ?_, ?_, ?_⟩
    · rw [hc]; simp only [St.nameAt, k1]
    · intro n hn
      rw [hc] at hn
      injection hn with hn
      rw [← hn]
      simp only [St.nameAt, a, b, c]
    · rw [a, k1]
    · rw [b, k1]
    · rw [c]
  · rename_i hcond
    simp only [Bool.or_eq_true, bne_iff_ne, ne_eq, not_or, Decidable.not_not, Option.isNone_iff_eq_none] at hcond
    obtain ⟨⟨hr, hu⟩, hn⟩ := hcond
    obtain ⟨a, b, c, _⟩ := openFile_frame cal t st1
    have hc := openFile_cur cal t st1
    cases hcur : st1.cur with
    | none => exact absurd hcur hn
    | some n =>
      rw [hcur] at hc
      simp only [] at hc
      have hn' : n = st.nameAt cal st.lastRot st.lastUnit := hi n (by rw [← c1, hcur])
      refine ⟨?_, ?_, ?_, ?_, ?_⟩
      · rw [hc, hn', ← r1, hr, k1, ← u1, hu]
      · intro m hm
        rw [hc] at hm
        injection hm with hm
        rw [← hm, hn']
        simp only [St.nameAt, a, b, c, k1, r1, u1]
      · rw [a, k1]
      · rw [b, hr, k1]
      · rw [c, hu]

/-- every operation keeps the invariant -/
theorem step_inv (cal : Cal) (st : St) (op : Op) (hi : st.Inv cal) : (step cal st op).1.Inv cal := by
  by_cases hc : op.isCall = true
  · obtain ⟨c, r, u, _, _, i, o, _⟩ := step_call_frame cal st op hc
    intro n hn
    rw [c] at hn
    have := hi n hn
    simp only [St.nameAt, r, u, i, o] at this ⊢
    exact this
  · cases op with
    | proc t => exact (process_rotates cal t st hi).2.1
    | clr t =>
      obtain ⟨c, k, r, u, _⟩ := clearOld_frame cal t st
      intro n hn
      simp only [step] at hn ⊢
      rw [c] at hn
      have := hi n hn
      simp only [St.nameAt, r, u, k] at this ⊢
      exact this
    | log _ _ _ _ => exact absurd rfl hc
    | setLevel _ => exact absurd rfl hc
    | applyConfig _ _ _ _ => exact absurd rfl hc
    | read _ _ _ _ _ => exact absurd rfl hc

theorem run_inv (cal : Cal) (st : St) (ops : List Op) (hi : st.Inv cal) : (run cal st ops).Inv cal := by
  induction ops generalizing st with
  | nil => exact hi
  | cons o r ih => rw [run_cons]; exact ih _ (step_inv cal st o hi)

/-! ### retention on the logger state -/

/-- the names removed by one retention pass -/
theorem clearOld_removed (cal : Cal) (now : Int) (st : St) (n : Bytes) :
    n ∈ (clearOld cal now st).2 ↔
      (∃ f, (n, f) ∈ st.dir) ∧ deleted cal st.conf.rotation st.conf.logID st.conf.keepDays (unit now) n = true := by
  unfold clearOld deleted
  split
  · rename_i hon
    simp only [hon, Bool.true_and, beq_iff_eq]
    rw [clearDir_del]
    simp only [List.mem_map, List.mem_filter, beq_iff_eq]
    constructor
    · rintro ⟨⟨k, f⟩, ⟨hm, hv⟩, rfl⟩
      exact ⟨⟨f, hm⟩, hv⟩
    · rintro ⟨⟨f, hm⟩, hv⟩
      exact ⟨(n, f), ⟨hm, hv⟩, rfl⟩
  · rename_i hoff
    simp only [hoff, Bool.false_and]
    simp

/-- what is left after a pass: only files the pass does not condemn, each holding what it held
    (the open file may have received `WA10006` lines) -/
theorem clearOld_left (cal : Cal) (now : Int) (st : St) (n : Bytes) (f : File) (h : (n, f) ∈ st.dir)
    (hk : deleted cal st.conf.rotation st.conf.logID st.conf.keepDays (unit now) n = false) :
    ∃ g, (n, g) ∈ (clearOld cal now st).1.dir ∧ g.extends f ∧ (st.cur ≠ some n → g = f) := by
  unfold clearOld
  split
  · rename_i hon
    have hv : verdict cal st.conf.logID st.conf.keepDays (unit now) n ≠ .delete := by
      intro hv
      unfold deleted at hk
      rw [hon, hv] at hk
      simp at hk
    have hm : (n, f) ∈ (clearDir cal st.conf.logID st.conf.keepDays (unit now) st.dir).1 := by
      rw [clearDir_fst]
      exact List.mem_filter.mpr ⟨h, by simp [hv]⟩
    generalize clearDir cal st.conf.logID st.conf.keepDays (unit now) st.dir = cd at hm
    obtain ⟨d, del, p⟩ := cd
    simp only [] at hm ⊢
    rw [St.append_dir]
    simp only []
    cases hc : st.cur with
    | none => exact ⟨f, hm, File.extends_refl f, fun _ => rfl⟩
    | some m =>
      simp only []
      obtain ⟨g, hg, he, hn⟩ := dirAppend_mem m (List.replicate p panicLine) hm
      exact ⟨g, hg, he, fun hne => hn (fun e => hne (by rw [e]))⟩
  · exact ⟨f, h, File.extends_refl f, fun _ => rfl⟩

/-- no file that the pass condemns is left -/
theorem clearOld_gone (cal : Cal) (now : Int) (st : St) (n : Bytes) (g : File)
    (h : (n, g) ∈ (clearOld cal now st).1.dir) :
    deleted cal st.conf.rotation st.conf.logID st.conf.keepDays (unit now) n = false := by
  unfold clearOld at h
  unfold deleted
  split at h
  · rename_i hon
    rw [hon]
    simp only [Bool.true_and]
    generalize hcd : clearDir cal st.conf.logID st.conf.keepDays (unit now) st.dir = cd at h
    obtain ⟨d, del, p⟩ := cd
    simp only [] at h
    have hd : d = (clearDir cal st.conf.logID st.conf.keepDays (unit now) st.dir).1 := by rw [hcd]
    rw [clearDir_fst] at hd
    rw [St.append_dir] at h
    simp only [] at h
    have key : ∀ x, (n, x) ∈ d → (verdict cal st.conf.logID st.conf.keepDays (unit now) n == Verdict.delete) = false := by
      intro x hx
      rw [hd] at hx
      have := (List.mem_filter.mp hx).2
      simp only [bne_iff_ne, ne_eq] at this
      simp [this]
    cases hc : st.cur with
    | none => rw [hc] at h; exact key g h
    | some m =>
      rw [hc] at h
      simp only [] at h
      -- names of dirAppend are the names of d
      have names : ∀ (dd : Dir), (n, g) ∈ dirAppend dd m (List.replicate p panicLine) → ∃ x, (n, x) ∈ dd := by
        intro dd
        induction dd with
        | nil => intro hh; cases hh
        | cons e r ih =>
          obtain ⟨k, f0⟩ := e
          simp only [dirAppend]
          split
          · intro hh
            rcases List.mem_cons.mp hh with hh | hh
            · injection hh with h1 _
              exact ⟨f0, by rw [h1]; exact List.mem_cons_self⟩
            · exact ⟨g, List.mem_cons_of_mem _ hh⟩
          · intro hh
            rcases List.mem_cons.mp hh with hh | hh
            · exact ⟨g, by rw [hh]; exact List.mem_cons_self⟩
            · obtain ⟨x, hx⟩ := ih hh
              exact ⟨x, List.mem_cons_of_mem _ hx⟩
      obtain ⟨x, hx⟩ := names d h
      exact key x hx
  · rename_i hoff
    simp only [Bool.not_eq_true] at hoff
    rw [hoff]
    rfl

end Logger

namespace Logger

theorem mem_append_new_dir {dir : Dir} {n : Bytes} {f : File} (x : Bytes × File) (h : (n, f) ∈ dir) :
    (n, f) ∈ dir ++ [x] := List.mem_append_left _ h

/-- opening a file never alters what a file already holds: it appends the header to the file it
    opens (creating it empty when absent) -/
theorem openFile_mem (cal : Cal) (now : Int) (st : St) (n : Bytes) (f : File) (h : (n, f) ∈ st.dir) :
    ∃ g, (n, g) ∈ (openFile cal now st).dir ∧ g.extends f := by
  unfold openFile
  cases hc : st.cur with
  | some m => exact ⟨f, h, File.extends_refl f⟩
  | none =>
    simp only []
    split
    · obtain ⟨g, hg, he, _⟩ := dirAppend_mem (fileName cal st.conf.logID st.conf.oname st.conf.rotation (unit now))
        (header st.conf.oname) h
      exact ⟨g, hg, he⟩
    · obtain ⟨g, hg, he, _⟩ := dirAppend_mem (fileName cal st.conf.logID st.conf.oname st.conf.rotation (unit now))
        (header st.conf.oname) (mem_append_new_dir (fileName cal st.conf.logID st.conf.oname st.conf.rotation (unit now), ⟨[], []⟩) h)
      exact ⟨g, hg, he⟩

/-- a cycle removes only what retention condemns (and only when its minute has passed);
    every other file keeps what it held, possibly with lines appended -/
theorem process_append_only (cal : Cal) (t : Int) (st : St) (n : Bytes) (f : File) (h : (n, f) ∈ st.dir) :
    (t > st.last + 60000 ∧ deleted cal st.conf.rotation st.conf.logID st.conf.keepDays (unit t) n = true ∧
        n ∈ (process cal t st).2) ∨
    ∃ g, (n, g) ∈ (process cal t st).1.dir ∧ g.extends f := by
  unfold process
  simp only []
  by_cases ht : t > st.last + 60000
  · simp only [ht, if_true]
    cases hd : deleted cal st.conf.rotation st.conf.logID st.conf.keepDays (unit t) n with
    | true =>
      left
      refine ⟨trivial, rfl, ?_⟩
      exact (clearOld_removed cal t { st with last := t } n).mpr ⟨⟨f, h⟩, hd⟩
    | false =>
      right
      obtain ⟨g, hg, he, _⟩ := clearOld_left cal t { st with last := t } n f h hd
      generalize clearOld cal t { st with last := t } = p at hg ⊢
      obtain ⟨st1, del⟩ := p
      simp only [] at hg ⊢
      split
      · obtain ⟨g2, hg2, he2⟩ := openFile_mem cal t { st1 with cur := none, lastRot := st1.conf.rotation, lastUnit := unit t } n g hg
        exact ⟨g2, hg2, File.extends_trans he2 he⟩
      · obtain ⟨g2, hg2, he2⟩ := openFile_mem cal t st1 n g hg
        exact ⟨g2, hg2, File.extends_trans he2 he⟩
  · right
    simp only [ht, if_false]
    split
    · exact openFile_mem cal t { st with cur := none, lastRot := st.conf.rotation, lastUnit := unit t } n f h
    · exact openFile_mem cal t st n f h

/-- the names a cycle removes are exactly the condemned names of the directory, and only
    when more than a minute has passed since the last retention pass -/
theorem process_removed (cal : Cal) (t : Int) (st : St) (n : Bytes) :
    n ∈ (process cal t st).2 ↔
      t > st.last + 60000 ∧ (∃ f, (n, f) ∈ st.dir) ∧
      deleted cal st.conf.rotation st.conf.logID st.conf.keepDays (unit t) n = true := by
  unfold process
  simp only []
  by_cases ht : t > st.last + 60000
  · simp only [ht, if_true, true_and]
    have := clearOld_removed cal t { st with last := t } n
    generalize clearOld cal t { st with last := t } = p at this ⊢
    obtain ⟨st1, del⟩ := p
    exact this
  · simp only [ht, if_false, false_and]
    simp

/-- every line a call writes ends with a newline: a chunk is a whole line -/
theorem text_ends_newline (m : Meth) (id s : Bytes) : ∃ pre, m.text id s = pre ++ [cNl] := by
  cases m <;> exact ⟨_, rfl⟩

end Logger
