/-
  Golib.Logger.RateLemmas — the per-id rate limiter.

  A  (`rate_only_within`, any history, any settings, eviction allowed):
     a call is suppressed by the limiter only if a line with the same id was written less than
     `interval` seconds before it.
  B  (`rate_exact`, fresh logger, constant positive interval, fewer than 1000 calls, clock not
     running backwards): a call that passes the level gate with a non-empty id is written
     if and only if no line with the same id was written in the previous `interval` seconds.
-/
import Golib.Logger.RunLemmas

namespace Logger

/-! ### the id cache -/

theorem cacheGet_mem {c : Cache} {k : Bytes} (h : cacheGet c k ≠ 0) : (k, cacheGet c k) ∈ c := by
  induction c with
  | nil => exact absurd rfl h
  | cons e r ih =>
    obtain ⟨a, b⟩ := e
    simp only [cacheGet] at h ⊢
    split
    · rename_i hk; subst hk; exact List.mem_cons_self
    · rename_i hk
      rw [if_neg hk] at h
      exact List.mem_cons_of_mem _ (ih h)

theorem mem_cacheSet {c : Cache} {k : Bytes} {v : Int} {e : Bytes × Int} (h : e ∈ cacheSet c k v) :
    e ∈ c ∨ e = (k, v) := by
  induction c with
  | nil => cases h
  | cons x r ih =>
    obtain ⟨a, b⟩ := x
    simp only [cacheSet] at h
    split at h
    · rename_i hk
      rcases List.mem_cons.mp h with h | h
      · right; rw [h, hk]
      · left; exact List.mem_cons_of_mem _ h
    · rcases List.mem_cons.mp h with h | h
      · left; rw [h]; exact List.mem_cons_self
      · rcases ih h with h | h
        · left; exact List.mem_cons_of_mem _ h
        · right; exact h

theorem mem_cachePut {c : Cache} {k : Bytes} {v : Int} {e : Bytes × Int} (h : e ∈ cachePut c k v) :
    e ∈ c ∨ e = (k, v) := by
  unfold cachePut at h
  split at h
  · left; exact h
  · split at h
    · exact mem_cacheSet h
    · rcases List.mem_append.mp h with h | h
      · left
        split at h
        · exact List.mem_of_mem_drop h
        · exact h
      · right; simpa using h

theorem checkOk_cases (c : Cache) (id : Bytes) (sec now : Int) :
    (¬ 0 < sec ∧ checkOk c id sec now = (true, c)) ∨
    (0 < sec ∧ now < cacheGet c id + sec * 1000 ∧ checkOk c id sec now = (false, c)) ∨
    (0 < sec ∧ ¬ now < cacheGet c id + sec * 1000 ∧ checkOk c id sec now = (true, cachePut c id now)) := by
  unfold checkOk
  by_cases h1 : sec > 0
  · by_cases h2 : now < cacheGet c id + sec * 1000
    · right; left; simp [h1, h2]
    · right; right; simp [h1, h2]
  · left; simp [h1]

theorem mem_checkOk {c : Cache} {id : Bytes} {sec now : Int} {e : Bytes × Int}
    (h : e ∈ (checkOk c id sec now).2) : e ∈ c ∨ (e = (id, now) ∧ (checkOk c id sec now).1 = true) := by
  rcases checkOk_cases c id sec now with ⟨_, hc⟩ | ⟨_, _, hc⟩ | ⟨_, _, hc⟩ <;> rw [hc] at h ⊢
  · left; exact h
  · left; exact h
  · rcases mem_cachePut h with h | h
    · left; exact h
    · right; exact ⟨h, rfl⟩

/-- the four outcomes of a call -/
theorem logDecide_cases (t : Int) (m : Meth) (id msg : Bytes) (st : St) :
    (m.passes st.conf.level = false ∧ logDecide t m id msg st = (.gate, st.cache)) ∨
    (m.passes st.conf.level = true ∧ m.rateId id (if m.ln then msg ++ [cNl] else msg) = none ∧
      logDecide t m id msg st = (.written, st.cache)) ∨
    (∃ rid, m.passes st.conf.level = true ∧ m.rateId id (if m.ln then msg ++ [cNl] else msg) = some rid ∧
      (checkOk st.cache rid st.conf.interval t).1 = true ∧
      logDecide t m id msg st = (.written, (checkOk st.cache rid st.conf.interval t).2)) ∨
    (∃ rid, m.passes st.conf.level = true ∧ m.rateId id (if m.ln then msg ++ [cNl] else msg) = some rid ∧
      (checkOk st.cache rid st.conf.interval t).1 = false ∧
      logDecide t m id msg st = (.rate, st.cache)) := by
  unfold logDecide
  cases hp : m.passes st.conf.level with
  | false => left; simp
  | true =>
    right
    cases hr : m.rateId id (if m.ln = true then msg ++ [cNl] else msg) with
    | none => left; simp
    | some rid =>
      right
      cases hok : (checkOk st.cache rid st.conf.interval t).1 with
      | true => left; exact ⟨rid, rfl, rfl, hok, by simp [hok]⟩
      | false => right; exact ⟨rid, rfl, rfl, hok, by simp [hok]⟩

theorem cacheGet_cacheSet {c : Cache} {k : Bytes} (v : Int) (k' : Bytes) (h : cacheHas c k = true) :
    cacheGet (cacheSet c k v) k' = if k' = k then v else cacheGet c k' := by
  induction c with
  | nil => cases h
  | cons x r ih =>
    obtain ⟨a, b⟩ := x
    simp only [cacheSet, cacheHas] at h ⊢
    by_cases hak : a = k
    · simp only [hak, if_true, cacheGet]
      by_cases hk : k' = k
      · simp [hk]
      · have : ¬ k = k' := fun e => hk e.symm
        simp [hk, this]
    · simp only [hak, if_false, cacheGet] at h ⊢
      by_cases hk : a = k'
      · have : ¬ k' = k := fun e => hak (hk.trans e)
        simp [hk, this]
      · simp only [hk, if_false]
        exact ih h

theorem cacheGet_append_new {c : Cache} {k : Bytes} (v : Int) (k' : Bytes) (h : cacheHas c k = false) :
    cacheGet (c ++ [(k, v)]) k' = if k' = k then v else cacheGet c k' := by
  induction c with
  | nil =>
    simp only [List.nil_append, cacheGet]
    by_cases hk : k = k'
    · simp [hk]
    · have : ¬ k' = k := fun e => hk e.symm
      simp [hk, this]
  | cons x r ih =>
    obtain ⟨a, b⟩ := x
    simp only [cacheHas] at h
    by_cases hak : a = k
    · simp [hak] at h
    · simp only [hak, if_false] at h
      simp only [List.cons_append, cacheGet]
      by_cases hk : a = k'
      · have : ¬ k' = k := fun e => hak (hk.trans e)
        simp [hk, this]
      · simp only [hk, if_false]
        exact ih h

theorem length_cacheSet (c : Cache) (k : Bytes) (v : Int) : (cacheSet c k v).length = c.length := by
  induction c with
  | nil => rfl
  | cons x r ih =>
    obtain ⟨a, b⟩ := x
    simp only [cacheSet]
    split <;> simp [ih]

/-- below capacity the cache is a plain map -/
theorem cacheGet_cachePut {c : Cache} {k : Bytes} (v : Int) (k' : Bytes) (hk : k ≠ [])
    (hl : c.length < cacheMax) :
    cacheGet (cachePut c k v) k' = if k' = k then v else cacheGet c k' := by
  unfold cachePut
  rw [if_neg hk]
  cases hh : cacheHas c k with
  | true => simp only [if_true]; exact cacheGet_cacheSet v k' hh
  | false =>
    have : ¬ c.length ≥ cacheMax := by omega
    simp only [Bool.false_eq_true, if_false, this]
    exact cacheGet_append_new v k' hh

theorem length_cachePut (c : Cache) (k : Bytes) (v : Int) (hl : c.length < cacheMax) :
    (cachePut c k v).length ≤ c.length + 1 := by
  unfold cachePut
  split
  · omega
  · split
    · rw [length_cacheSet]; omega
    · have : ¬ c.length ≥ cacheMax := by omega
      simp [this]

/-! ### A: suppressed only within the interval -/

/-- the rate-limited line an operation writes, as (id, time) -/
def ratedOf (st : St) : Op → List (Bytes × Int)
  | .log t m id msg =>
    match m.rateId id (if m.ln then msg ++ [cNl] else msg) with
    | some rid => if (logDecide t m id msg st).1 = .written then [(rid, t)] else []
    | none => []
  | .read t file endpos length snap =>
    match read st.home file snap endpos length with
    | .nilOpenErr =>
      if (checkOk st.cache (truncate (asc "Read log file  ") idLen) st.conf.interval t).1
      then [(truncate (asc "Read log file  ") idLen, t)] else []
    | .nilReadErr =>
      if (checkOk st.cache (truncate (asc "WA1000901  Read Error  ") idLen) st.conf.interval t).1
      then [(truncate (asc "WA1000901  Read Error  ") idLen, t)] else []
    | _ => []
  | _ => []

/-- all rate-limited lines a history writes -/
def rated (cal : Cal) (st : St) : List Op → List (Bytes × Int)
  | [] => []
  | o :: r => ratedOf st o ++ rated cal (step cal st o).1 r

theorem process_cache (cal : Cal) (t : Int) (st : St) : (process cal t st).1.cache = st.cache := by
  unfold process
  simp only []
  generalize hs1 : (if t > st.last + 60000 then clearOld cal t { st with last := t } else (st, [])) = p1
  have f1 : p1.1.cache = st.cache := by
    rw [← hs1]
    split
    · exact (clearOld_frame cal t { st with last := t }).2.2.2.2.2.1
    · rfl
  obtain ⟨st1, del⟩ := p1
  simp only [] at f1 ⊢
  split
  · rw [(openFile_frame cal t _).2.2.2.2.1]; exact f1
  · rw [(openFile_frame cal t _).2.2.2.2.1]; exact f1

/-- every entry of the cache after an operation was there before or is the line just written -/
theorem step_cache_sub (cal : Cal) (st : St) (op : Op) (e : Bytes × Int)
    (h : e ∈ (step cal st op).1.cache) : e ∈ st.cache ∨ e ∈ ratedOf st op := by
  cases op with
  | log t m id msg =>
    simp only [step, logCall, St.append_cache] at h
    simp only [ratedOf]
    rcases logDecide_cases t m id msg st with ⟨_, hd⟩ | ⟨_, _, hd⟩ | ⟨rid, _, hr, hok, hd⟩ | ⟨rid, _, _, _, hd⟩
    · rw [hd] at h; left; exact h
    · rw [hd] at h; left; exact h
    · rw [hd] at h ⊢
      rw [hr]
      rcases mem_checkOk h with h | ⟨h, _⟩
      · left; exact h
      · right; simp [h]
    · rw [hd] at h; left; exact h
  | proc t => left; simpa [step, process_cache] using h
  | clr t =>
    left
    simp only [step] at h
    rw [(clearOld_frame cal t st).2.2.2.2.2.1] at h
    exact h
  | setLevel lv => left; exact h
  | applyConfig rot keep interval level => left; exact h
  | read t file endpos length snap =>
    simp only [step, ratedOf] at h ⊢
    cases hr : read st.home file snap endpos length with
    | nilQuiet => rw [hr] at h; left; exact h
    | data d => rw [hr] at h; left; exact h
    | nilOpenErr =>
      rw [hr] at h
      simp only [logInternalError, St.append_cache] at h
      rcases mem_checkOk h with h | ⟨h, hok⟩
      · left; exact h
      · right; simp [h, hok]
    | nilReadErr =>
      rw [hr] at h
      simp only [logInternalError, St.append_cache] at h
      rcases mem_checkOk h with h | ⟨h, hok⟩
      · left; exact h
      · right; simp [h, hok]

theorem run_cache_sub (cal : Cal) (st : St) (ops : List Op) (e : Bytes × Int)
    (h : e ∈ (run cal st ops).cache) : e ∈ st.cache ∨ e ∈ rated cal st ops := by
  induction ops generalizing st with
  | nil => left; exact h
  | cons o r ih =>
    rw [run_cons] at h
    rcases ih _ h with h | h
    · rcases step_cache_sub cal st o e h with h | h
      · left; exact h
      · right; simp only [rated]; exact List.mem_append_left _ h
    · right; simp only [rated]; exact List.mem_append_right _ h

/-- the limiter's verdict in terms of the cache -/
theorem logDecide_rate {t : Int} {m : Meth} {id msg : Bytes} {st : St}
    (h : (logDecide t m id msg st).1 = .rate) :
    ∃ rid, m.rateId id (if m.ln then msg ++ [cNl] else msg) = some rid ∧ st.conf.interval > 0 ∧
      t < cacheGet st.cache rid + st.conf.interval * 1000 := by
  rcases logDecide_cases t m id msg st with ⟨_, hd⟩ | ⟨_, _, hd⟩ | ⟨rid, _, hr, hok, hd⟩ | ⟨rid, _, hr, hok, hd⟩
  · rw [hd] at h; cases h
  · rw [hd] at h; cases h
  · rw [hd] at h; cases h
  · refine ⟨rid, hr, ?_⟩
    rcases checkOk_cases st.cache rid st.conf.interval t with ⟨_, hc⟩ | ⟨h1, h2, _⟩ | ⟨_, _, hc⟩
    · rw [hc] at hok; cases hok
    · exact ⟨h1, h2⟩
    · rw [hc] at hok; cases hok

/-- A. After any history on a fresh logger: a call suppressed by the limiter has a written
    line with the same id less than `interval` seconds before it. -/
theorem rate_only_within (cal : Cal) (st0 : St) (ops : List Op) (t : Int) (m : Meth) (id msg : Bytes)
    (h0 : st0.cache = [])
    (hclock : (run cal st0 ops).conf.interval * 1000 ≤ t)
    (h : (logDecide t m id msg (run cal st0 ops)).1 = .rate) :
    ∃ rid t', m.rateId id (if m.ln then msg ++ [cNl] else msg) = some rid ∧
      (rid, t') ∈ rated cal st0 ops ∧ t < t' + (run cal st0 ops).conf.interval * 1000 := by
  obtain ⟨rid, hr, _, hlt⟩ := logDecide_rate h
  have hne : cacheGet (run cal st0 ops).cache rid ≠ 0 := by
    intro h0'; rw [h0'] at hlt; omega
  have hm := cacheGet_mem hne
  rcases run_cache_sub cal st0 ops _ hm with hm | hm
  · rw [h0] at hm; cases hm
  · exact ⟨rid, _, hr, hm, hlt⟩

/-! ### B: exact behaviour below capacity -/

structure Call where
  t : Int
  m : Meth
  id : Bytes
  msg : Bytes

def Call.rid (c : Call) : Option Bytes := c.m.rateId c.id (if c.m.ln then c.msg ++ [cNl] else c.msg)

def Call.op (c : Call) : Op := .log c.t c.m c.id c.msg

def Call.passesGate (c : Call) (st : St) : Bool := c.m.passes st.conf.level

/-- the rate-limited lines written so far, newest first -/
def writesAcc (st : St) (W : List (Bytes × Int)) : List Call → List (Bytes × Int)
  | [] => W
  | c :: r => writesAcc (logCall c.t c.m c.id c.msg st).1 ((ratedOf st c.op).reverse ++ W) r

def runCalls (st : St) : List Call → St
  | [] => st
  | c :: r => runCalls (logCall c.t c.m c.id c.msg st).1 r

/-- the invariant of B -/
structure RInv (s : Int) (st : St) (W : List (Bytes × Int)) (tl : Int) : Prop where
  interval : st.conf.interval = s
  get : ∀ i, i ≠ [] → cacheGet st.cache i = cacheGet W i
  len : st.cache.length ≤ W.length
  le : ∀ e ∈ W, e.2 ≤ tl
  sorted : List.Pairwise (fun a b => b.2 ≤ a.2) W

theorem logCall_conf (t : Int) (m : Meth) (id msg : Bytes) (st : St) :
    (logCall t m id msg st).1.conf = st.conf := (logCall_frame t m id msg st).2.1

theorem logCall_cache (t : Int) (m : Meth) (id msg : Bytes) (st : St) :
    (logCall t m id msg st).1.cache = (logDecide t m id msg st).2 := by
  simp [logCall]

theorem rinv_step (s : Int) (hs : 0 < s) (st : St) (W : List (Bytes × Int)) (tl : Int) (c : Call)
    (hi : RInv s st W tl) (ht : tl ≤ c.t) (hcap : W.length < cacheMax) :
    RInv s (logCall c.t c.m c.id c.msg st).1 ((ratedOf st c.op).reverse ++ W) c.t := by
  have hconf := logCall_conf c.t c.m c.id c.msg st
  have hcache := logCall_cache c.t c.m c.id c.msg st
  have hclen : st.cache.length < cacheMax := by have := hi.len; omega
  have hi' : RInv s st W c.t :=
    ⟨hi.interval, hi.get, hi.len, fun e he => Int.le_trans (hi.le e he) ht, hi.sorted⟩
  have keep : (logDecide c.t c.m c.id c.msg st).2 = st.cache →
      RInv s (logCall c.t c.m c.id c.msg st).1 W c.t := by
    intro hc
    rw [← hcache] at hc
    exact ⟨by rw [hconf]; exact hi'.interval, by rw [hc]; exact hi'.get, by rw [hc]; exact hi'.len, hi'.le, hi'.sorted⟩
  simp only [Call.op, ratedOf]
  rcases logDecide_cases c.t c.m c.id c.msg st with ⟨_, hd⟩ | ⟨_, hr, hd⟩ | ⟨rid, _, hr, hok, hd⟩ | ⟨rid, _, hr, hok, hd⟩
  · have : ∀ (o : Option Bytes), (match o with
        | some rid => if (logDecide c.t c.m c.id c.msg st).1 = Dec.written then [(rid, c.t)] else []
        | none => ([] : List (Bytes × Int))) = [] := by
      intro o; cases o <;> simp [hd]
    rw [this]
    simp only [List.reverse_nil, List.nil_append]
    exact keep (by rw [hd])
  · rw [hr]
    simp only [List.reverse_nil, List.nil_append]
    exact keep (by rw [hd])
  · rw [hr]
    simp only [hd, if_true, List.reverse_cons, List.reverse_nil, List.nil_append, List.singleton_append]
    rw [hd] at hcache
    simp only [] at hcache
    have hck : (checkOk st.cache rid st.conf.interval c.t).2 = cachePut st.cache rid c.t := by
      rcases checkOk_cases st.cache rid st.conf.interval c.t with ⟨h1, _⟩ | ⟨_, _, hc⟩ | ⟨_, _, hc⟩
      · rw [hi.interval] at h1; exact absurd hs h1
      · rw [hc] at hok; cases hok
      · rw [hc]
    rw [hck] at hcache
    refine ⟨by rw [hconf]; exact hi.interval, ?_, ?_, ?_, ?_⟩
    · intro i hne
      rw [hcache]
      by_cases hrid : rid = []
      · subst hrid
        have : cachePut st.cache [] c.t = st.cache := by simp [cachePut]
        rw [this, hi.get i hne]
        have : ¬ ([] : Bytes) = i := fun e => hne e.symm
        simp [cacheGet, this]
      · rw [cacheGet_cachePut c.t i hrid hclen, hi.get i hne]
        simp only [cacheGet]
        by_cases hk : i = rid
        · simp [hk]
        · have : ¬ rid = i := fun e => hk e.symm
          simp [hk, this]
    · rw [hcache]
      have := length_cachePut st.cache rid c.t hclen
      have := hi.len
      simp only [List.length_cons]
      omega
    · intro e he
      rcases List.mem_cons.mp he with he | he
      · rw [he]; exact Int.le_refl _
      · exact Int.le_trans (hi.le e he) ht
    · exact List.Pairwise.cons (fun e he => Int.le_trans (hi.le e he) ht) hi.sorted
  · rw [hr]
    have : ¬ (Dec.rate = Dec.written) := by simp
    simp only [hd, this, if_false, List.reverse_nil, List.nil_append]
    exact keep (by rw [hd])

theorem length_ratedOf_call (st : St) (c : Call) : (ratedOf st c.op).length ≤ 1 := by
  simp only [Call.op, ratedOf]
  split
  · split <;> simp
  · simp

def timesFrom (tl : Int) : List Call → Prop
  | [] => True
  | c :: r => tl ≤ c.t ∧ timesFrom c.t r

def lastTime (tl : Int) : List Call → Int
  | [] => tl
  | c :: r => lastTime c.t r

theorem rinv_run (s : Int) (hs : 0 < s) (calls : List Call) (st : St) (W : List (Bytes × Int)) (tl : Int)
    (hi : RInv s st W tl) (ht : timesFrom tl calls) (hcap : W.length + calls.length < cacheMax) :
    RInv s (runCalls st calls) (writesAcc st W calls) (lastTime tl calls) := by
  induction calls generalizing st W tl with
  | nil => exact hi
  | cons c r ih =>
    simp only [runCalls, writesAcc, lastTime]
    simp only [List.length_cons] at hcap
    apply ih
    · exact rinv_step s hs st W tl c hi ht.1 (by omega)
    · exact ht.2
    · have := length_ratedOf_call st c
      simp only [List.length_append, List.length_reverse]
      omega

/-- with the writes sorted newest first, "some line with this id within the interval" is
    decided by the newest one -/
theorem within_iff_newest {W : List (Bytes × Int)} {i : Bytes} {t k : Int}
    (hsorted : List.Pairwise (fun a b => b.2 ≤ a.2) W) (hk : k ≤ t) :
    (∃ t', (i, t') ∈ W ∧ t < t' + k) ↔ t < cacheGet W i + k := by
  induction W with
  | nil =>
    simp only [cacheGet, List.not_mem_nil, false_and, exists_false, false_iff]
    omega
  | cons e r ih =>
    obtain ⟨a, b⟩ := e
    have hs' := (List.pairwise_cons.mp hsorted)
    simp only [cacheGet]
    by_cases ha : a = i
    · subst ha
      simp only [if_true]
      constructor
      · rintro ⟨t', hm, hlt⟩
        rcases List.mem_cons.mp hm with hm | hm
        · injection hm with _ h2; omega
        · have := hs'.1 _ hm
          simp only [] at this
          omega
      · intro hlt
        exact ⟨b, List.mem_cons_self, hlt⟩
    · simp only [ha, if_false]
      rw [← ih hs'.2]
      constructor
      · rintro ⟨t', hm, hlt⟩
        rcases List.mem_cons.mp hm with hm | hm
        · injection hm with h1 _; exact absurd h1.symm ha
        · exact ⟨t', hm, hlt⟩
      · rintro ⟨t', hm, hlt⟩
        exact ⟨t', List.mem_cons_of_mem _ hm, hlt⟩

/-- B. Fresh logger, constant interval `s > 0`, fewer than 1000 calls, clock not running
    backwards and past `s` seconds: the next call, if it passes the level gate and carries a
    non-empty id, is suppressed exactly when a line with that id was written less than `s`
    seconds ago — and written otherwise. -/
theorem rate_exact (s : Int) (hs : 0 < s) (st0 : St) (calls : List Call) (c : Call) (i : Bytes) (t0 : Int)
    (hc0 : st0.cache = []) (hint : st0.conf.interval = s)
    (htimes : timesFrom t0 (calls ++ [c])) (hclock : s * 1000 ≤ t0)
    (hcap : calls.length < cacheMax)
    (hgate : c.passesGate (runCalls st0 calls) = true) (hid : c.rid = some i) (hne : i ≠ []) :
    let W := writesAcc st0 [] calls
    ((logDecide c.t c.m c.id c.msg (runCalls st0 calls)).1 = .rate ↔ ∃ t', (i, t') ∈ W ∧ c.t < t' + s * 1000) ∧
    ((logDecide c.t c.m c.id c.msg (runCalls st0 calls)).1 = .written ↔ ¬ ∃ t', (i, t') ∈ W ∧ c.t < t' + s * 1000) := by
  have hi0 : RInv s st0 [] t0 :=
    ⟨hint, fun i _ => (by rw [hc0]), (by rw [hc0]; exact Nat.le_refl _), fun e he => (by cases he), List.Pairwise.nil⟩
  have split_times : ∀ (l : List Call) (tl : Int), timesFrom tl (l ++ [c]) → timesFrom tl l ∧ lastTime tl l ≤ c.t ∧ tl ≤ lastTime tl l := by
    intro l
    induction l with
    | nil => intro tl h; exact ⟨trivial, h.1, Int.le_refl _⟩
    | cons x r ih =>
      intro tl h
      obtain ⟨a, b, d⟩ := ih x.t h.2
      exact ⟨⟨h.1, a⟩, b, Int.le_trans h.1 d⟩
  obtain ⟨ht1, ht2, ht3⟩ := split_times calls t0 htimes
  have hinv := rinv_run s hs calls st0 [] t0 hi0 ht1 (by simpa using hcap)
  have hct : s * 1000 ≤ c.t := by omega
  have hw := within_iff_newest (W := writesAcc st0 [] calls) (i := i) (t := c.t) (k := s * 1000) hinv.sorted hct
  have hget := hinv.get i hne
  -- the decision
  have hdec : (logDecide c.t c.m c.id c.msg (runCalls st0 calls)).1 =
      if c.t < cacheGet (runCalls st0 calls).cache i + s * 1000 then .rate else .written := by
    unfold Call.passesGate at hgate
    unfold Call.rid at hid
    rcases logDecide_cases c.t c.m c.id c.msg (runCalls st0 calls) with ⟨hp, _⟩ | ⟨_, hr, _⟩ | ⟨rid, _, hr, hok, hd⟩ | ⟨rid, _, hr, hok, hd⟩
    · rw [hgate] at hp; cases hp
    · rw [hid] at hr; cases hr
    · rw [hid] at hr; injection hr with hr; subst hr
      rw [hd]
      rcases checkOk_cases (runCalls st0 calls).cache i (runCalls st0 calls).conf.interval c.t with ⟨h1, _⟩ | ⟨_, _, hc⟩ | ⟨_, h2, _⟩
      · rw [hinv.interval] at h1; exact absurd hs h1
      · rw [hc] at hok; cases hok
      · rw [hinv.interval] at h2; simp [h2]
    · rw [hid] at hr; injection hr with hr; subst hr
      rw [hd]
      rcases checkOk_cases (runCalls st0 calls).cache i (runCalls st0 calls).conf.interval c.t with ⟨_, hc⟩ | ⟨_, h2, _⟩ | ⟨_, _, hc⟩
      · rw [hc] at hok; cases hok
      · rw [hinv.interval] at h2; simp [h2]
      · rw [hc] at hok; cases hok
  simp only []
  rw [hdec, hw, ← hget]
  constructor
  · split <;> simp_all
  · split <;> simp_all

end Logger

namespace Logger

/-! ### the empty id is never limited -/

def Cache.noEmpty (c : Cache) : Prop := ∀ e ∈ c, e.1 ≠ []

theorem cachePut_noEmpty {c : Cache} (k : Bytes) (v : Int) (h : Cache.noEmpty c) : Cache.noEmpty (cachePut c k v) := by
  intro e he
  by_cases hk : k = []
  · have : cachePut c k v = c := by simp [cachePut, hk]
    rw [this] at he
    exact h e he
  · rcases mem_cachePut he with he | he
    · exact h e he
    · rw [he]; exact hk

theorem checkOk_noEmpty {c : Cache} (id : Bytes) (sec now : Int) (h : Cache.noEmpty c) :
    Cache.noEmpty (checkOk c id sec now).2 := by
  rcases checkOk_cases c id sec now with ⟨_, hc⟩ | ⟨_, _, hc⟩ | ⟨_, _, hc⟩ <;> rw [hc]
  · exact h
  · exact h
  · exact cachePut_noEmpty id now h

theorem step_noEmpty (cal : Cal) (st : St) (op : Op) (h : Cache.noEmpty st.cache) :
    Cache.noEmpty (step cal st op).1.cache := by
  cases op with
  | log t m id msg =>
    simp only [step, logCall, St.append_cache]
    rcases logDecide_cases t m id msg st with ⟨_, hd⟩ | ⟨_, _, hd⟩ | ⟨rid, _, _, _, hd⟩ | ⟨rid, _, _, _, hd⟩ <;> rw [hd]
    · exact h
    · exact h
    · exact checkOk_noEmpty rid _ _ h
    · exact h
  | proc t => simp only [step, process_cache]; exact h
  | clr t => simp only [step]; rw [(clearOld_frame cal t st).2.2.2.2.2.1]; exact h
  | setLevel lv => exact h
  | applyConfig rot keep interval level => exact h
  | read t file endpos length snap =>
    simp only [step]
    cases hr : read st.home file snap endpos length with
    | nilQuiet => exact h
    | data d => exact h
    | nilOpenErr => simp only [logInternalError, St.append_cache]; exact checkOk_noEmpty _ _ _ h
    | nilReadErr => simp only [logInternalError, St.append_cache]; exact checkOk_noEmpty _ _ _ h

theorem run_noEmpty (cal : Cal) (st : St) (ops : List Op) (h : Cache.noEmpty st.cache) :
    Cache.noEmpty (run cal st ops).cache := by
  induction ops generalizing st with
  | nil => exact h
  | cons o r ih => rw [run_cons]; exact ih _ (step_noEmpty cal st o h)

theorem cacheGet_empty_of_noEmpty {c : Cache} (h : Cache.noEmpty c) : cacheGet c [] = 0 := by
  cases hz : decide (cacheGet c [] = 0) with
  | true => exact of_decide_eq_true hz
  | false =>
    have hne : cacheGet c [] ≠ 0 := of_decide_eq_false hz
    exact absurd rfl (h _ (cacheGet_mem hne))

/-- a call whose id is empty is never suppressed by the limiter (fresh logger, any history) -/
theorem empty_id_never_limited (cal : Cal) (st0 : St) (ops : List Op) (t : Int) (m : Meth) (id msg : Bytes)
    (h0 : st0.cache = []) (hclock : (run cal st0 ops).conf.interval * 1000 ≤ t)
    (hid : m.rateId id (if m.ln then msg ++ [cNl] else msg) = some []) :
    (logDecide t m id msg (run cal st0 ops)).1 ≠ .rate := by
  intro h
  obtain ⟨rid, hr, _, hlt⟩ := logDecide_rate h
  rw [hid] at hr
  injection hr with hr
  subst hr
  have hne : Cache.noEmpty (run cal st0 ops).cache :=
    run_noEmpty cal st0 ops (by rw [h0]; intro e he; cases he)
  rw [cacheGet_empty_of_noEmpty hne] at hlt
  omega

end Logger
