/-
  Golib.Logger.Files — `FileLogger.GetLogFiles()` and `GetLogFilePath()` over an abstract listing.

  `GetLogFiles` walks `os.ReadDir(<home>/logs)` (sorted by name) and lists name ↦ size of the
  regular files that are the hook log (`whatap-hook.log`) or carry the prefix `logID-oname-`
  followed by exactly 8 bytes up to the FIRST dot; it stops after 100 entries.  Quirk kept in
  the model: the date part is cut as `name[len(prefix)+1 : x]` with `x = strings.Index(name, ".")`
  outside any recover, so a dot inside `logID`/`oname` makes the call panic on the logger's own files.
  The call does not change the logger (it is a query: not an `Op`).

  Not modelled: the extra entry for `%ProgramData%/WhaTap/dotnet-profiler.log` (absent in the check's
  environment).
-/
import Golib.Logger.Read

namespace Logger

/-- `strings.Index(name, ".")` -/
def indexDot : Bytes → Option Nat
  | [] => none
  | b :: r => if b = cDot then some 0 else (indexDot r).map (· + 1)

def hookName : Bytes := asc "whatap-hook.log"

/-- one entry of `os.ReadDir` -/
structure DirEnt where
  name : Bytes
  isDir : Bool
  size : Int
deriving Repr, DecidableEq

inductive FV where
  | skip | list | panic
deriving Repr, DecidableEq

/-- `whatapPrefix + "-"` -/
def filesPrefix (logID oname : Bytes) : Bytes := logID ++ [cDash] ++ oname ++ [cDash]

/-- the loop body of `GetLogFiles` for one entry -/
def filesVerdict (logID oname : Bytes) (e : DirEnt) : FV :=
  if e.isDir then .skip
  else
    match indexDot e.name with
    | none => .skip
    | some x =>
      if e.name = hookName then .list
      else if (filesPrefix logID oname).isPrefixOf e.name then
        if x < (filesPrefix logID oname).length then .panic
        else if x - (filesPrefix logID oname).length = 8 then .list else .skip
      else .skip

def filesMax : Nat := 100

/-- the loop: `n` entries are in the result already (`n < 100`); `none` = the call panics -/
def logFilesLoop (logID oname : Bytes) : List DirEnt → Nat → Option (List (Bytes × Int))
  | [], _ => some []
  | e :: r, n =>
    match filesVerdict logID oname e with
    | .skip => logFilesLoop logID oname r n
    | .panic => none
    | .list =>
      if n + 1 ≥ filesMax then some [(e.name, e.size)]
      else (logFilesLoop logID oname r (n + 1)).map ((e.name, e.size) :: ·)

/-- `GetLogFiles()` on the listing of `<home>/logs` in `ReadDir` order -/
def logFiles (logID oname : Bytes) (ents : List DirEnt) : Option (List (Bytes × Int)) :=
  logFilesLoop logID oname ents 0

/-- `GetLogFilePath()`: `filepath.Join(homePath, logfile.Name())`, where `logfile.Name()` is the path the
    file was opened with — `filepath.Join(home, "logs", name)` — so an absolute home appears twice -/
def logFilePath (home name : Bytes) : List Bytes :=
  normAbs (splitSlash home ++ (splitSlash home ++ [logsSeg] ++ splitSlash name))

end Logger
