/-
  Golib.Step.Prefix — truncated step streams.

  A reader that meets tagged values only INSIDE a blob (all layouts of this property: the nine
  registered step types and the services have none; TxRecord, MessageStepX and the ProfilePack body
  keep theirs in a length-prefixed blob, which is taken whole before its content is looked at) is a
  program of the decoder monad `P`, so `P.prefix_fails` applies:
  a strict prefix of one step never decodes.  Lifted to streams: reading a strict prefix of
  `ToBytesStep steps` until the input is used up either fails or returns a strict prefix of the steps
  (exactly the steps that fit completely) — never a wrong or fabricated step.
-/
import Golib.Step.Stream

namespace Step
open Prim

def L.pReadable : L → Bool
  | .nil => true
  | .fld _ _ rest => rest.pReadable
  | .lit _ _ rest => rest.pReadable
  | .sw _ c1 c2 rest => c1.pReadable && c2.pReadable && rest.pReadable
  | .opt _ _ _ body _ rest => body.pReadable && rest.pReadable
  | .dflt _ _ _ _ rest => rest.pReadable
  | .wrap _ _ rest => rest.pReadable     -- the body is read from the (complete) blob: any layout
  | .fields _ _ => false
  | .bit _ _ body rest => body.pReadable && rest.pReadable
  | .ver _ _ rest => rest.pReadable

def readFlatP : List (String × Kind) → Env → P Env
  | [], e => .pure e
  | (nm, k) :: fs, e => P.bind k.decP (fun v => readFlatP fs ((nm, v) :: e))

/-- the reader as a program of `P` (meaningful for value-free layouts) -/
def L.readP : L → Env → P Env
  | .nil, e => .pure e
  | .fld nm k rest, e => P.bind k.decP (fun v => rest.readP ((nm, v) :: e))
  | .lit k _ rest, e => P.bind k.decP (fun _ => rest.readP e)
  | .sw nm c1 c2 rest, e =>
    P.bind (if (e.get nm).toInt = 1 then c1.readP e else if (e.get nm).toInt = 2 then c2.readP e else .pure e)
      (fun e' => rest.readP e')
  | .opt flag anyPos _ body alts rest, e =>
    P.bind (rdU 1) (fun b =>
      P.bind (if b == flag || (anyPos && decide (0 < b)) then body.readP e
              else match alts.lookup b with
                | some fs => readFlatP fs e
                | none => .pure e)
        (fun e' => rest.readP e'))
  | .dflt nm k cond d rest, e => P.bind k.decP (fun v => rest.readP ((nm, dfl v (e.get cond) d) :: e))
  | .wrap body attr rest, e =>
    P.bind decBlob (fun bs =>
      match body.read e bs with
      | none => .fail
      | some (e', r') =>
        match readAttr attr e' r' with
        | none => .fail
        | some e'' => rest.readP e'')
  | .fields _ _, _ => .fail
  | .bit nm mask body rest, e =>
    P.bind (if bitSet (e.get nm) mask then body.readP e else .pure e) (fun e' => rest.readP e')
  | .ver min _ rest, e => P.bind (rdU 1) (fun b => if b < min then .fail else rest.readP e)

theorem run_bind_D (p : P α) (f : α → P β) (g : α → D β) (bs : Bytes)
    (h : ∀ a r, P.run (f a) r = g a r) : P.run (P.bind p f) bs = D.bind (D.ofP p) g bs := by
  rw [P.run_bind]
  simp only [D.bind, D.ofP]
  cases P.run p bs with
  | none => rfl
  | some ar => obtain ⟨a, r⟩ := ar; exact h a r

theorem readFlatP_run (fs : List (String × Kind)) (e : Env) (bs : Bytes) :
    P.run (readFlatP fs e) bs = readFlat fs e bs := by
  induction fs generalizing e bs with
  | nil => rfl
  | cons p fs ih =>
    obtain ⟨nm, k⟩ := p
    simp only [readFlatP, readFlat, Kind.dec]
    exact run_bind_D _ _ _ _ (fun a r => ih _ _)

theorem L.readP_run (l : L) (hv : l.pReadable = true) (e : Env) (bs : Bytes) :
    P.run (l.readP e) bs = l.read e bs := by
  induction l generalizing e bs with
  | nil => rfl
  | fld nm k rest ih =>
    simp only [L.readP, L.read, Kind.dec]
    exact run_bind_D _ _ _ _ (fun a r => ih hv _ _)
  | lit k v rest ih =>
    simp only [L.readP, L.read, Kind.dec]
    exact run_bind_D _ _ _ _ (fun a r => ih hv _ _)
  | sw nm c1 c2 rest ih1 ih2 ihr =>
    simp only [L.pReadable, Bool.and_eq_true] at hv
    simp only [L.readP, L.read]
    rw [P.run_bind]
    simp only [D.bind]
    have hc : P.run (if (e.get nm).toInt = 1 then c1.readP e else if (e.get nm).toInt = 2 then c2.readP e else .pure e) bs
        = (if (e.get nm).toInt = 1 then c1.read e else if (e.get nm).toInt = 2 then c2.read e else D.pure e) bs := by
      split
      · exact ih1 hv.1.1 _ _
      · split
        · exact ih2 hv.1.2 _ _
        · rfl
    rw [hc]
    cases (if (e.get nm).toInt = 1 then c1.read e else if (e.get nm).toInt = 2 then c2.read e else D.pure e) bs with
    | none => rfl
    | some ar => obtain ⟨a, r⟩ := ar; exact ihr hv.2 _ _
  | opt flag anyPos cond body alts rest ihb ihr =>
    simp only [L.pReadable, Bool.and_eq_true] at hv
    simp only [L.readP, L.read]
    refine run_bind_D _ _ _ _ (fun b r => ?_)
    rw [P.run_bind]
    simp only [D.bind]
    have hc : P.run (if (b == flag || (anyPos && decide (0 < b))) = true then body.readP e
              else match alts.lookup b with
                | some fs => readFlatP fs e
                | none => .pure e) r
        = (if (b == flag || (anyPos && decide (0 < b))) = true then body.read e
              else match alts.lookup b with
                | some fs => readFlat fs e
                | none => D.pure e) r := by
      by_cases hb : (b == flag || (anyPos && decide (0 < b))) = true
      · rw [if_pos hb, if_pos hb]; exact ihb hv.1 _ _
      · rw [if_neg hb, if_neg hb]
        cases alts.lookup b with
        | none => rfl
        | some fs => exact readFlatP_run _ _ _
    rw [hc]
    cases (if (b == flag || (anyPos && decide (0 < b))) = true then body.read e
              else match alts.lookup b with
                | some fs => readFlat fs e
                | none => D.pure e) r with
    | none => rfl
    | some ar => obtain ⟨a, r'⟩ := ar; exact ihr hv.2 _ _
  | dflt nm k cond d rest ih =>
    simp only [L.readP, L.read, Kind.dec]
    exact run_bind_D _ _ _ _ (fun a r => ih hv _ _)
  | wrap body attr rest _ ihr =>
    simp only [L.pReadable] at hv
    simp only [L.readP, L.read]
    refine run_bind_D _ _ _ _ (fun blob r => ?_)
    cases body.read e blob with
    | none => rfl
    | some ar =>
      obtain ⟨e', r'⟩ := ar
      simp only
      cases readAttr attr e' r' with
      | none => rfl
      | some e'' => exact ihr hv _ _
  | fields nm rest ih => simp [L.pReadable] at hv
  | bit nm mask body rest ihb ihr =>
    simp only [L.pReadable, Bool.and_eq_true] at hv
    simp only [L.readP, L.read]
    rw [P.run_bind]
    simp only [D.bind]
    have hc : P.run (if bitSet (e.get nm) mask = true then body.readP e else .pure e) bs
        = (if bitSet (e.get nm) mask = true then body.read e else D.pure e) bs := by
      split
      · exact ihb hv.1 _ _
      · rfl
    rw [hc]
    cases (if bitSet (e.get nm) mask = true then body.read e else D.pure e) bs with
    | none => rfl
    | some ar => obtain ⟨a, r⟩ := ar; exact ihr hv.2 _ _
  | ver min v rest ih =>
    simp only [L.readP, L.read]
    refine run_bind_D _ _ _ _ (fun b r => ?_)
    split
    · rfl
    · exact ih hv _ _

/-- `ReadStep` / `service.ToObject` as a program of `P` -/
def readOneP (tbl : List (Nat × String × L)) : P (Nat × Env) :=
  P.bind (rdU 1) (fun t =>
    match lookupLayout tbl t with
    | none => .fail
    | some l => P.bind (l.readP []) (fun e => .pure (t, e)))

def tablePReadable (tbl : List (Nat × String × L)) : Bool := tbl.all (fun p => p.2.2.pReadable)

theorem lookupLayout_pReadable (tbl : List (Nat × String × L)) (h : tablePReadable tbl = true) (t : Nat) (l : L)
    (hl : lookupLayout tbl t = some l) : l.pReadable = true := by
  induction tbl with
  | nil => simp [lookupLayout, List.lookup] at hl
  | cons p tbl ih =>
    obtain ⟨c, n, l'⟩ := p
    simp only [tablePReadable, List.all_cons, Bool.and_eq_true] at h
    simp only [lookupLayout, List.lookup] at hl
    by_cases hc : t == c
    · simp only [hc] at hl
      cases hl; exact h.1
    · have hc' : (t == c) = false := by simpa using hc
      simp only [hc'] at hl
      exact ih h.2 hl

theorem readOneP_run (tbl : List (Nat × String × L)) (h : tablePReadable tbl = true) (bs : Bytes) :
    P.run (readOneP tbl) bs = readOne tbl bs := by
  unfold readOneP readOne
  refine run_bind_D _ _ _ _ (fun t r => ?_)
  cases hl : lookupLayout tbl t with
  | none => rfl
  | some l =>
    simp only
    rw [P.run_bind, L.readP_run l (lookupLayout_pReadable tbl h t l hl)]
    simp only [D.bind]
    cases l.read [] r with
    | none => rfl
    | some ar => rfl

/-- a strict prefix of one tagged step (service record) never decodes -/
theorem tagged_prefix_fails (V : ValueRT) (tbl : List (Nat × String × L)) (hv : tablePReadable tbl = true)
    (s : Item) (h : s.ok V tbl) (q a : Bytes) (ha : a ≠ []) (hq : q ++ a = s.bytes) :
    readOne tbl q = none := by
  rw [← readOneP_run tbl hv]
  apply P.prefix_fails (readOneP tbl) q a s.expected ha
  rw [readOneP_run tbl hv, hq]
  have := tagged_roundtrip V tbl s [] h
  simpa using this

theorem readAllF_prefix (V : ValueRT) (tbl : List (Nat × String × L)) (hv : tablePReadable tbl = true)
    (ss : List Item) : ∀ (q s : Bytes) (f : Nat) (acc : List (Nat × Env)), s ≠ [] → q ++ s = toBytesStep ss →
    q.length ≤ f → (∀ t ∈ ss, t.ok V tbl) →
    readAllF tbl f acc q = none ∨
    ∃ k, k < ss.length ∧ readAllF tbl f acc q = some (acc.reverse ++ (ss.take k).map Item.expected) := by
  induction ss with
  | nil =>
    intro q s f acc hs hq _ _
    simp only [toBytesStep, List.append_eq_nil_iff] at hq
    exact absurd hq.2 hs
  | cons s1 ss ih =>
    intro q s f acc hs hq hf hok
    cases q with
    | nil =>
      right
      refine ⟨0, by simp, ?_⟩
      cases f <;> simp [readAllF]
    | cons b q0 =>
      cases f with
      | zero => simp at hf
      | succ f =>
        simp only [toBytesStep] at hq
        -- q holds the whole first step (and c' more)
        have caseB : ∀ c', b :: q0 = s1.bytes ++ c' → c' ++ s = toBytesStep ss →
            readAllF tbl (f + 1) acc (b :: q0) = none ∨
            ∃ k, k < (s1 :: ss).length ∧
              readAllF tbl (f + 1) acc (b :: q0) = some (acc.reverse ++ ((s1 :: ss).take k).map Item.expected) := by
          intro c' h1 h2
          have hr := tagged_roundtrip V tbl s1 c' (hok s1 (by simp))
          rw [← h1] at hr
          have step : readAllF tbl (f + 1) acc (b :: q0) = readAllF tbl f (s1.expected :: acc) c' := by
            simp only [readAllF, hr]
          rw [step]
          have hlen : c'.length ≤ f := by
            have := s1.bytes_length_pos
            have e : (b :: q0).length = s1.bytes.length + c'.length := by rw [h1]; simp
            simp only [List.length_cons] at e hf
            omega
          rcases ih c' s f (s1.expected :: acc) hs h2 hlen (fun t ht => hok t (by simp [ht])) with hn | ⟨k, hk, he⟩
          · left; exact hn
          · right
            refine ⟨k + 1, by simp only [List.length_cons]; omega, ?_⟩
            rw [he]; simp
        rcases List.append_eq_append_iff.mp hq with ⟨a', h1, h2⟩ | ⟨c', h1, h2⟩
        · by_cases ha : a' = []
          · subst ha
            exact caseB [] (by simpa using h1.symm) (by simpa using h2)
          · left
            have := tagged_prefix_fails V tbl hv s1 (hok s1 (by simp)) (b :: q0) a' ha h1.symm
            simp only [readAllF, this]
        · exact caseB c' h1 h2.symm

/-- a strict prefix of the encoding of one (untagged) record never decodes -/
theorem layout_prefix_fails (V : ValueRT) (l : L) (hp : l.pReadable = true) (x : Rec) (h : l.WF V x [])
    (q a : Bytes) (ha : a ≠ []) (hq : q ++ a = l.write x) : l.read [] q = none := by
  rw [← L.readP_run l hp]
  apply P.prefix_fails (l.readP []) q a (l.expect x []) ha
  rw [L.readP_run l hp, hq]
  have := L.roundtrip V l x [] [] h
  simpa using this

/-- reading a strict prefix of a step stream until the input is used up fails, or returns a strict
    prefix of the steps -/
theorem stream_prefix (V : ValueRT) (tbl : List (Nat × String × L)) (hv : tablePReadable tbl = true)
    (ss : List Item) (h : ∀ t ∈ ss, t.ok V tbl) (q s : Bytes) (hs : s ≠ []) (hq : q ++ s = toBytesStep ss) :
    readAll tbl q = none ∨ ∃ k, k < ss.length ∧ readAll tbl q = some ((ss.take k).map Item.expected) := by
  unfold readAll
  rcases readAllF_prefix V tbl hv ss q s q.length [] hs hq (Nat.le_refl _) h with hn | ⟨k, hk, he⟩
  · left; exact hn
  · right; exact ⟨k, hk, by simpa using he⟩

end Step
