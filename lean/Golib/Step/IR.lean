/-
  Golib.Step.IR — a small layout language for the wire bodies of lang/step, lang/service and
  the profile-carrying packs, with ONE generic round-trip theorem.

  A layout `L` is the ordered list of `Write*`/`Read*` calls of a Go `Write`/`Read` pair,
  including the shapes these files actually use:

    fld    this.F  written/read with one DataOutputX/DataInputX primitive
    lit    a constant written, read and dropped        (out.WriteByte(0) / in.ReadByte())
    sw     switch on a byte field written earlier      (HttpcStepX: switch this.Version {1:…; 2:…})
    opt    presence byte + section                     (TxRecord: Mtid != 0 → 1,…  / caller pcode → 6,…)
    dflt   a field the reader post-processes           (TxRecord.ErrorLevel: 0 → WARNING if Error != 0)
    wrap   sub-stream inside a blob                    (TxRecord, MessageStepX), optionally ending in
           an optional tagged map                      (MessageStepX.Attr)
    fields count byte + (text key, tagged value)*      (TxRecord.Fields)
    bit    section guarded by a flag bit of a byte     (SqlStep_3.Opt)

  `L.write` follows the writer, `L.read` the reader (threading the fields read so far, because
  `sw`, `bit` and `dflt` look at them), `L.expect` is what the reader is *supposed* to return,
  `L.WF` collects the ranges of the Go field types and the scoping side conditions.

  Decoders here are plain functions on bytes (`D`), not programs of `P`, because the tagged
  value decoder of Golib.Value.Model is a fuelled function on bytes; every `P` program embeds
  by `P.run`.
-/
import Golib.Value.Model

namespace Step
open Prim

/-! ### decoders on raw bytes -/

abbrev D (α : Type) := Bytes → Option (α × Bytes)

namespace D
@[inline] def pure (a : α) : D α := fun bs => some (a, bs)
@[inline] def fail : D α := fun _ => none
@[inline] def bind (p : D α) (f : α → D β) : D β := fun bs =>
  match p bs with
  | none => none
  | some (a, r) => f a r
@[inline] def ofP (p : P α) : D α := fun bs => P.run p bs

theorem bind_some {p : D α} {f : α → D β} {bs r : Bytes} {a : α} (h : p bs = some (a, r)) :
    bind p f bs = f a r := by
  simp only [bind, h]
end D

/-! ### field values -/

inductive Val where
  | i (v : Int)                                   -- integers, bytes, booleans (0/1)
  | b (bs : Bytes)                                -- []byte and string (UTF-8 bytes)
  | is (xs : List Int)                            -- []int32
  | m (kvs : Option (List (Bytes × Value)))       -- *value.MapValue (none = nil)
  | mn (kvs : Option (List (Bytes × Option Value))) -- a MapValue some of whose entries hold a nil value

instance : Inhabited Val := ⟨.i 0⟩

def Val.toInt : Val → Int | .i v => v | _ => 0
def Val.toBytes : Val → Bytes | .b bs => bs | _ => []
def Val.toInts : Val → List Int | .is xs => xs | _ => []
def Val.toMap : Val → Option (List (Bytes × Value)) | .m kvs => kvs | _ => none

/-- `TxRecord.Write` emits an entry whose value is nil as the key with an empty TextValue -/
def normKVs : List (Bytes × Option Value) → List (Bytes × Value)
  | [] => []
  | (k, some v) :: t => (k, v) :: normKVs t
  | (k, none) :: t => (k, .text []) :: normKVs t

/-- the custom-field map as `TxRecord.Write` sees it (nil values already replaced) -/
def Val.toMapN : Val → Option (List (Bytes × Value))
  | .m kvs => kvs
  | .mn (some kvs) => some (normKVs kvs)
  | _ => none

/-- the primitive used for a field -/
inductive Kind where
  | u8       -- WriteByte / ReadByte
  | bool     -- WriteBool / ReadBool
  | i32      -- WriteInt / ReadInt
  | i64      -- WriteLong / ReadLong
  | dec32    -- WriteDecimal(int64(x)) / int32(ReadDecimal())
  | dec64    -- WriteDecimal(x) / ReadDecimal()   (int64 and int fields)
  | blob     -- WriteBlob / ReadBlob
  | text     -- WriteText / ReadText
  | intArr   -- WriteIntArray / ReadIntArray
deriving DecidableEq, Repr

def Kind.enc : Kind → Val → Bytes
  | .u8, v => [v.toInt.toNat % 256]
  | .bool, v => encBool (v.toInt != 0)
  | .i32, v => encI 4 v.toInt
  | .i64, v => encI 8 v.toInt
  | .dec32, v => encDecimal v.toInt
  | .dec64, v => encDecimal v.toInt
  | .blob, v => encBlob v.toBytes
  | .text, v => encBlob v.toBytes
  | .intArr, v => encArr (encI 4) v.toInts

def Kind.decP : Kind → P Val
  | .u8 => P.bind (rdU 1) (fun n => .pure (.i n))
  | .bool => P.bind rdBool (fun b => .pure (.i (if b then 1 else 0)))
  | .i32 => P.bind (rdI 4) (fun v => .pure (.i v))
  | .i64 => P.bind (rdI 8) (fun v => .pure (.i v))
  | .dec32 => P.bind decDecimal (fun v => .pure (.i (ofU 4 (toU 4 v))))   -- int32(…) conversion
  | .dec64 => P.bind decDecimal (fun v => .pure (.i v))
  | .blob => P.bind decBlob (fun bs => .pure (.b bs))
  | .text => P.bind decBlob (fun bs => .pure (.b bs))
  | .intArr => P.bind (decArr (rdI 4)) (fun xs => .pure (.is xs))

def Kind.dec (k : Kind) : D Val := D.ofP k.decP

/-- the range of the Go type behind a field of this kind -/
def Kind.wf : Kind → Val → Prop
  | .u8, .i v => 0 ≤ v ∧ v < 256
  | .bool, .i v => v = 0 ∨ v = 1
  | .i32, .i v => inRange 4 v
  | .i64, .i v => inRange 8 v
  | .dec32, .i v => inRange 4 v
  | .dec64, .i v => inRange 8 v
  | .blob, .b bs => bs.length < 2147483648
  | .text, .b bs => bs.length < 2147483648
  | .intArr, .is xs => xs.length ≤ 32767 ∧ ∀ a ∈ xs, inRange 4 a
  | _, _ => False

theorem inRange_4_8 (v : Int) (h : inRange 4 v) : inRange 8 v := by
  rw [inRange_4] at h; rw [inRange_8]; omega

theorem Kind.rt (k : Kind) (v : Val) (r : Bytes) (h : k.wf v) :
    k.dec (k.enc v ++ r) = some (v, r) := by
  unfold Kind.dec D.ofP
  cases k <;> cases v <;> simp only [Kind.wf] at h <;> simp only [Kind.enc, Kind.decP, Val.toInt, Val.toBytes, Val.toInts]
  case u8.i v =>
    have e : v.toNat % 256 = v.toNat := Nat.mod_eq_of_lt (by omega)
    have hb : [v.toNat % 256] = beN 1 v.toNat := by simp [beN, e]
    rw [hb, P.run_bind_some _ _ _ _ _ (run_rdU 1 v.toNat r (by omega))]
    simp only [P.run_pure]
    congr 3; omega
  case bool.i v =>
    rw [P.run_bind_some _ _ _ _ _ (run_rdBool _ r)]
    rcases h with rfl | rfl <;> simp
  case i32.i v =>
    rw [P.run_bind_some _ _ _ _ _ (run_rdI 4 v r h)]; rfl
  case i64.i v =>
    rw [P.run_bind_some _ _ _ _ _ (run_rdI 8 v r h)]; rfl
  case dec32.i v =>
    rw [P.run_bind_some _ _ _ _ _ (run_decDecimal v r (inRange_4_8 v h))]
    simp only [P.run_pure, ofU_toU 4 v h]
  case dec64.i v =>
    rw [P.run_bind_some _ _ _ _ _ (run_decDecimal v r h)]; rfl
  case blob.b bs =>
    rw [P.run_bind_some _ _ _ _ _ (run_decBlob bs r h)]; rfl
  case text.b bs =>
    rw [P.run_bind_some _ _ _ _ _ (run_decBlob bs r h)]; rfl
  case intArr.is xs =>
    rw [P.run_bind_some _ _ _ _ _ (run_decArr (encI 4) (rdI 4) (inRange 4)
      (fun x r hx => run_rdI 4 x r hx) xs r h.1 h.2)]; rfl

/-! ### what is assumed about the tagged value codec (Golib.Value, property C02)

  `Golib.Step.ValueInst` instantiates this structure with the theorems of Golib.Value.Facts. -/

structure ValueRT where
  /-- well-formed value -/
  wf : Value → Prop
  /-- well-formed (key, value) entries -/
  wfKVs : List (Bytes × Value) → Prop
  rt : ∀ v r, wf v → Value.decode (Value.encV v ++ r) = some (v, r)
  rtKVs : ∀ (kvs : List (Bytes × Value)) (r : Bytes), wfKVs kvs → (kvs.map (·.1)).Nodup →
    Value.decKVs ((Value.encKVs kvs ++ r).length + 1) kvs.length [] (Value.encKVs kvs ++ r) = some (kvs, r)

/-! ### records and environments -/

/-- the value of a Go struct: field name ↦ value -/
abbrev Rec := String → Val

/-- what a reader has assigned so far, most recent first -/
abbrev Env := List (String × Val)

def Env.get (e : Env) (nm : String) : Val :=
  match e.lookup nm with
  | some v => v
  | none => .i 0

/-! ### layouts -/

inductive L where
  | nil
  | fld (name : String) (k : Kind) (rest : L)
  | lit (k : Kind) (v : Int) (rest : L)
  | sw (name : String) (c1 c2 : L) (rest : L)
  | opt (flag : Nat) (anyPos : Bool) (cond : String) (body : L)
        (alts : List (Nat × List (String × Kind))) (rest : L)
  | dflt (name : String) (k : Kind) (cond : String) (d : Int) (rest : L)
  | wrap (body : L) (attr : Option String) (rest : L)
  | fields (name : String) (rest : L)
  | bit (name : String) (mask : Nat) (body : L) (rest : L)
  | ver (min : Nat) (v : Nat) (rest : L)          -- version byte: written `v`, the reader refuses less than `min`
deriving DecidableEq, Repr

/-- bytes of the optional trailing map of a `wrap` -/
def mapBytes : Option (List (Bytes × Value)) → Bytes
  | some kvs => Value.encV (.map kvs)
  | none => []

def attrBytes : Option String → Rec → Bytes
  | none, _ => []
  | some nm, x => mapBytes (x nm).toMap

/-- `TxRecord.Fields`: nil → 0; otherwise the size as a byte, then key text + tagged value each -/
def encFields : Option (List (Bytes × Value)) → Bytes
  | none => [0]
  | some kvs => (kvs.length % 256) :: Value.encKVs kvs

def bitSet (v : Val) (mask : Nat) : Bool := (v.toInt.toNat &&& mask) != 0

def L.write : L → Rec → Bytes
  | .nil, _ => []
  | .fld nm k rest, x => k.enc (x nm) ++ rest.write x
  | .lit k v rest, x => k.enc (.i v) ++ rest.write x
  | .sw nm c1 c2 rest, x =>
    (if (x nm).toInt = 1 then c1.write x else if (x nm).toInt = 2 then c2.write x else []) ++ rest.write x
  | .opt flag _ cond body _ rest, x =>
    (if (x cond).toInt ≠ 0 then flag :: body.write x else [0]) ++ rest.write x
  | .dflt nm k _ _ rest, x => k.enc (x nm) ++ rest.write x
  | .wrap body attr rest, x => encBlob (body.write x ++ attrBytes attr x) ++ rest.write x
  | .fields nm rest, x => encFields (x nm).toMapN ++ rest.write x
  | .bit nm mask body rest, x => (if bitSet (x nm) mask then body.write x else []) ++ rest.write x
  | .ver _ v rest, x => v :: rest.write x

def readFlat : List (String × Kind) → Env → D Env
  | [], e => D.pure e
  | (nm, k) :: fs, e => D.bind k.dec (fun v => readFlat fs ((nm, v) :: e))

/-- the reader side of the optional trailing map (with the proposed fix for D29: look at the
    value only if bytes are left) -/
def readAttr : Option String → Env → Bytes → Option Env
  | none, e, _ => some e
  | some nm, e, r =>
    if r.isEmpty then some e
    else match Value.decode r with
      | none => none
      | some (.map kvs, _) => some ((nm, .m (some kvs)) :: e)
      | some (_, _) => some e

/-- the key/value loop of `TxRecord.Read` (same loop as `MapValue.Read`) -/
def readKVs (n : Nat) : D (List (Bytes × Value)) := fun bs => Value.decKVs (bs.length + 1) n [] bs

def dfl (v : Val) (c : Val) (d : Int) : Val := if v.toInt = 0 ∧ c.toInt ≠ 0 then .i d else v

def L.read : L → Env → D Env
  | .nil, e => D.pure e
  | .fld nm k rest, e => D.bind k.dec (fun v => rest.read ((nm, v) :: e))
  | .lit k _ rest, e => D.bind k.dec (fun _ => rest.read e)
  | .sw nm c1 c2 rest, e =>
    D.bind (if (e.get nm).toInt = 1 then c1.read e else if (e.get nm).toInt = 2 then c2.read e else D.pure e)
      (fun e' => rest.read e')
  | .opt flag anyPos _ body alts rest, e =>
    D.bind (D.ofP (rdU 1)) (fun b =>
      D.bind (if b == flag || (anyPos && decide (0 < b)) then body.read e
              else match alts.lookup b with
                | some fs => readFlat fs e
                | none => D.pure e)
        (fun e' => rest.read e'))
  | .dflt nm k cond d rest, e => D.bind k.dec (fun v => rest.read ((nm, dfl v (e.get cond) d) :: e))
  | .wrap body attr rest, e =>
    D.bind (D.ofP decBlob) (fun bs =>
      match body.read e bs with
      | none => D.fail
      | some (e', r') =>
        match readAttr attr e' r' with
        | none => D.fail
        | some e'' => rest.read e'')
  | .fields nm rest, e =>
    D.bind (D.ofP (rdU 1)) (fun n =>
      if 0 < n then D.bind (readKVs n) (fun kvs => rest.read ((nm, .m (some kvs)) :: e))
      else rest.read e)
  | .bit nm mask body rest, e =>
    D.bind (if bitSet (e.get nm) mask then body.read e else D.pure e) (fun e' => rest.read e')
  | .ver min _ rest, e =>
    D.bind (D.ofP (rdU 1)) (fun b => if b < min then D.fail else rest.read e)   -- panic("not supported version …")

def mapEnv (nm : String) : Option (List (Bytes × Value)) → Env → Env
  | some kvs, e => (nm, .m (some kvs)) :: e
  | none, e => e

def attrEnv : Option String → Rec → Env → Env
  | none, _, e => e
  | some nm, x, e => mapEnv nm (x nm).toMap e

/-- what the reader is supposed to have assigned after reading the bytes of `x` -/
def L.expect : L → Rec → Env → Env
  | .nil, _, e => e
  | .fld nm _ rest, x, e => rest.expect x ((nm, x nm) :: e)
  | .lit _ _ rest, x, e => rest.expect x e
  | .sw nm c1 c2 rest, x, e =>
    rest.expect x (if (x nm).toInt = 1 then c1.expect x e else if (x nm).toInt = 2 then c2.expect x e else e)
  | .opt _ _ cond body _ rest, x, e =>
    rest.expect x (if (x cond).toInt ≠ 0 then body.expect x e else e)
  | .dflt nm _ cond d rest, x, e => rest.expect x ((nm, dfl (x nm) (e.get cond) d) :: e)
  | .wrap body attr rest, x, e => rest.expect x (attrEnv attr x (body.expect x e))
  | .fields nm rest, x, e =>
    match (x nm).toMapN with
    | some (kv :: kvs) => rest.expect x ((nm, .m (some (kv :: kvs))) :: e)
    | _ => rest.expect x e
  | .bit nm mask body rest, x, e => rest.expect x (if bitSet (x nm) mask then body.expect x e else e)
  | .ver _ _ rest, x, e => rest.expect x e

def mapWF (V : ValueRT) : Option (List (Bytes × Value)) → Prop
  | some kvs => V.wf (.map kvs)
  | none => True

def attrWF (V : ValueRT) : Option String → Rec → Prop
  | none, _ => True
  | some nm, x => mapWF V (x nm).toMap

def fieldsWF (V : ValueRT) : Option (List (Bytes × Value)) → Prop
  | none => True
  | some kvs => kvs.length ≤ 255 ∧ V.wfKVs kvs ∧ (kvs.map (·.1)).Nodup

/-- ranges of the field types + scoping side conditions (a switch looks at a field that has
    been read and holds the written value) -/
def L.WF (V : ValueRT) : L → Rec → Env → Prop
  | .nil, _, _ => True
  | .fld nm k rest, x, e => k.wf (x nm) ∧ rest.WF V x ((nm, x nm) :: e)
  | .lit k v rest, x, e => k.wf (.i v) ∧ rest.WF V x e
  | .sw nm c1 c2 rest, x, e =>
    e.get nm = x nm ∧
    (if (x nm).toInt = 1 then c1.WF V x e else if (x nm).toInt = 2 then c2.WF V x e else True) ∧
    rest.WF V x (if (x nm).toInt = 1 then c1.expect x e else if (x nm).toInt = 2 then c2.expect x e else e)
  | .opt flag _ cond body alts rest, x, e =>
    0 < flag ∧ flag < 256 ∧ alts.lookup 0 = none ∧
    (if (x cond).toInt ≠ 0 then body.WF V x e else True) ∧
    rest.WF V x (if (x cond).toInt ≠ 0 then body.expect x e else e)
  | .dflt nm k cond d rest, x, e => k.wf (x nm) ∧ rest.WF V x ((nm, dfl (x nm) (e.get cond) d) :: e)
  | .wrap body attr rest, x, e =>
    (body.write x ++ attrBytes attr x).length < 2147483648 ∧ body.WF V x e ∧ attrWF V attr x ∧
    rest.WF V x (attrEnv attr x (body.expect x e))
  | .fields nm rest, x, e =>
    fieldsWF V (x nm).toMapN ∧
    (match (x nm).toMapN with
     | some (kv :: kvs) => rest.WF V x ((nm, .m (some (kv :: kvs))) :: e)
     | _ => rest.WF V x e)
  | .bit nm mask body rest, x, e =>
    e.get nm = x nm ∧ (if bitSet (x nm) mask then body.WF V x e else True) ∧
    rest.WF V x (if bitSet (x nm) mask then body.expect x e else e)
  | .ver min v rest, x, e => min ≤ v ∧ v < 256 ∧ rest.WF V x e

end Step
